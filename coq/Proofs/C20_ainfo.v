(* C20 -- the action-info stack (action_method's wrapper / action_info): balanced on every exit, nested action methods
   report the OUTERMOST statement, earlier failures do not leak into later statements. *)
From Coq Require Import List NArith ZArith Bool.
Import ListNotations.
Require Import Verif.Lib.Wire Verif.Model.C20.

Scheme call_mut := Induction for call Sort Prop
  with items_mut := Induction for items Sort Prop.

(* the stack is restored by every call, whether it returns or raises (the `finally`) *)
Lemma stack_balanced_both zc :
  (forall c stk site, fst (run_call zc stk site c) = stk) /\
  (forall b stk, fst (run_items zc stk b) = stk).
Proof.
  assert (H : forall c, (fun c => forall stk site, fst (run_call zc stk site c) = stk) c).
  { apply (call_mut (fun c => forall stk site, fst (run_call zc stk site c) = stk)
                    (fun b => forall stk, fst (run_items zc stk b) = stk)).
    - intros given body IH fails stk site. simpl.
      specialize (IH (stk ++ [info_of given site])).
      destruct (run_items zc (stk ++ [info_of given site]) body) as [s1 [o e]]. simpl in *. subst s1.
      apply removelast_last.
    - intros stk. reflexivity.
    - intros r IH stk. simpl. specialize (IH stk). destruct (run_items zc stk r) as [s1 [o e]]. exact IH.
    - intros c IHc caught r IHr stk. simpl. specialize (IHc stk site_body).
      destruct (run_call zc stk site_body c) as [s1 [o1 e1]]. simpl in IHc. subst s1.
      destruct (e1 && negb caught); [reflexivity|].
      specialize (IHr stk). destruct (run_items zc stk r) as [s2 [o2 e2]]. exact IHr. }
  split; [exact H|].
  apply (items_mut (fun c => forall stk site, fst (run_call zc stk site c) = stk)
                   (fun b => forall stk, fst (run_items zc stk b) = stk)).
  - intros given body IH fails stk site. apply H.
  - intros stk. reflexivity.
  - intros r IH stk. simpl. specialize (IH stk). destruct (run_items zc stk r) as [s1 [o e]]. exact IH.
  - intros c IHc caught r IHr stk. simpl. pose proof (H c stk site_body) as Hc.
    destruct (run_call zc stk site_body c) as [s1 [o1 e1]]. simpl in Hc. subst s1.
    destruct (e1 && negb caught); [reflexivity|].
    specialize (IHr stk). destruct (run_items zc stk r) as [s2 [o2 e2]]. exact IHr.
Qed.

Theorem stack_balanced zc c stk site : fst (run_call zc stk site c) = stk.
Proof. apply (proj1 (stack_balanced_both zc)). Qed.

(* under a non-empty stack every action() call sees the FIRST (outermost) info *)
Lemma probes_see_outermost_both :
  (forall c i stk site, Forall (eq i) (fst (snd (run_call None (i :: stk) site c)))) /\
  (forall b i stk, Forall (eq i) (fst (snd (run_items None (i :: stk) b)))).
Proof.
  assert (H : forall c i stk site, Forall (eq i) (fst (snd (run_call None (i :: stk) site c)))).
  { apply (call_mut (fun c => forall i stk site, Forall (eq i) (fst (snd (run_call None (i :: stk) site c))))
                    (fun b => forall i stk, Forall (eq i) (fst (snd (run_items None (i :: stk) b))))).
    - intros given body IH fails i stk site. simpl.
      specialize (IH i (stk ++ [info_of given site])).
      destruct (run_items None (i :: stk ++ [info_of given site]) body) as [s1 [o e]]. exact IH.
    - intros i stk. constructor.
    - intros r IH i stk. simpl. specialize (IH i stk). destruct (run_items None (i :: stk) r) as [s1 [o e]].
      simpl in *. constructor; [reflexivity|exact IH].
    - intros c IHc caught r IHr i stk. simpl. specialize (IHc i stk site_body).
      pose proof (stack_balanced None c (i :: stk) site_body) as B.
      destruct (run_call None (i :: stk) site_body c) as [s1 [o1 e1]]. simpl in *. subst s1.
      destruct (e1 && negb caught); [exact IHc|].
      specialize (IHr i stk). destruct (run_items None (i :: stk) r) as [s2 [o2 e2]]. simpl in *.
      apply Forall_app. split; assumption. }
  split; [exact H|].
  apply (items_mut (fun c => forall i stk site, Forall (eq i) (fst (snd (run_call None (i :: stk) site c))))
                   (fun b => forall i stk, Forall (eq i) (fst (snd (run_items None (i :: stk) b))))).
  - intros given body IH fails i stk site. apply H.
  - intros i stk. constructor.
  - intros r IH i stk. simpl. specialize (IH i stk). destruct (run_items None (i :: stk) r) as [s1 [o e]].
    simpl in *. constructor; [reflexivity|exact IH].
  - intros c IHc caught r IHr i stk. simpl. pose proof (H c i stk site_body) as Hc.
    pose proof (stack_balanced None c (i :: stk) site_body) as B.
    destruct (run_call None (i :: stk) site_body c) as [s1 [o1 e1]]. simpl in *. subst s1.
    destruct (e1 && negb caught); [exact Hc|].
    specialize (IHr i stk). destruct (run_items None (i :: stk) r) as [s2 [o2 e2]]. simpl in *.
    apply Forall_app. split; assumption.
Qed.

(* a statement made on an idle configurator: every entry it produces -- directly or through any nesting of further
   action methods, with or without their own `_info`, failing or not -- carries the info of the statement itself *)
Theorem statement_entries_point_at_statement given body fails site :
  Forall (eq (info_of given site)) (fst (snd (run_call None [] site (Call given body fails)))).
Proof.
  simpl. pose proof (proj2 probes_see_outermost_both body (info_of given site) []) as H. simpl in H.
  destruct (run_items None [info_of given site] body) as [s1 [o e]]. exact H.
Qed.

(* a history of statements on one long-lived configurator: whatever failed before, every statement's entries carry its
   own info, and afterwards the configurator reports the placeholder again *)
Definition own_info (c : call) : N := match c with Call given _ _ => info_of given site_top end.

Theorem history_statements_point_at_themselves cs :
  fst (run_statements None [] cs) = [] /\
  Forall2 (fun c o => Forall (eq (own_info c)) o) cs (snd (run_statements None [] cs)).
Proof.
  induction cs as [|c r IH]; simpl; [split; [reflexivity|constructor]|].
  pose proof (stack_balanced None c [] site_top) as B.
  assert (P : Forall (eq (own_info c)) (fst (snd (run_call None [] site_top c)))).
  { destruct c as [given body fails]. apply statement_entries_point_at_statement. }
  destruct (run_call None [] site_top c) as [s1 [o e]]. simpl in *. subst s1.
  destruct IH as [IH1 IH2]. destruct (run_statements None [] r) as [s2 os]. simpl in *.
  split; [exact IH1|]. constructor; assumption.
Qed.

(* non-vacuity: a statement that passes `_info`, calls a nested action method with another `_info` which fails and is
   caught, then registers an entry: the entry carries the outer info; the next statement carries its own *)
Example history_example :
  run_statements None []
    [Call (Some 5%N) (ISub (Call (Some 7%N) (IProbe INil) true) true (IProbe INil)) false;
     Call None (IProbe INil) false]
  = ([], [[15%N; 15%N]; [1%N]]).
Proof. vm_compute. reflexivity. Qed.

(* a ZCML-style `info` on the configurator overrides the stack *)
Example zcml_info_wins : action_info_of (Some 3%N) [15%N] = 3%N.
Proof. reflexivity. Qed.

(* why a forwarding method that is not an action method is a defect while a class-level alias is not: the directive sees
   the frame that calls it -- through an alias that is the statement (site_top), through a forwarder it is the
   forwarder's own frame (site_body here), and that is what every entry of the statement then carries *)
Example alias_records_the_statement :
  run_call None [] site_top (Call None (IProbe INil) false) = ([], ([site_top], false)).
Proof. reflexivity. Qed.
Example forwarder_records_its_own_frame :
  run_call None [] site_body (Call None (IProbe INil) false) = ([], ([site_body], false)).
Proof. reflexivity. Qed.
