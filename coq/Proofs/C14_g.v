(* C14 -- part 7: the premise "no view body raises PredicateMismatch" of the rendering-judge theorems, LOCALISED to
   the request: only the views that the lookups of THIS request select must not raise PredicateMismatch (worlds that
   contain such bodies elsewhere are covered).  [selected]: the tags the ordinary lookup(s) and the exception-view
   lookups of the request can select (the selection does not depend on the attribute map). *)
From Coq Require Import List NArith ZArith Bool Lia.
Import ListNotations.
Require Import Verif.Lib.Wire Verif.Gen.Facts_C03 Verif.Model.C03 Verif.Proofs.C03 Verif.Gen.Facts_C14 Verif.Model.C14
               Verif.Proofs.C14 Verif.Proofs.C14_b Verif.Proofs.C14_c Verif.Proofs.C14_d Verif.Proofs.C14_gen.

Definition body_no_pm (P : params) (W : world) (t : N) : Prop :=
  forall sec deny site ctx a, is_pm W (fst (fst (run_body P W sec deny site t ctx a))) = None.

Section Local.
Variables (P : params) (W : world).

Lemma views_loop_local deny site ctx rq l a evs :
  (forall v, find (qualifies rq) l = Some v -> body_no_pm P W (r_tag v)) ->
  views_loop P W deny site ctx rq l a evs =
  match find (qualifies rq) l with
  | Some v => let '(o, ev, a') := run_body P W true deny site (r_tag v) ctx a in (Some o, evs ++ ev, a')
  | None => (None, evs, a)
  end.
Proof.
  induction l as [|v r IH]; simpl; [reflexivity|].
  destruct (qualifies rq v); intros Hsel; [|exact (IH Hsel)].
  pose proof (Hsel v eq_refl true deny site ctx a) as H.
  destruct (run_body P W true deny site (r_tag v) ctx a) as [[o ev] a']. simpl in H. rewrite H. reflexivity.
Qed.

Lemma comps_loop_local (sec : bool) deny site ctx fpme rq l : forall b a evs,
  (forall t, (if sec then call_loop rq l b else call_loop_p P rq l b) = Ran t -> body_no_pm P W t) ->
  comps_loop P W sec deny site ctx fpme rq l (pme_of b fpme) a evs =
  match (if sec then call_loop rq l b else call_loop_p P rq l b) with
  | Ran t => let '(o, ev, a') := run_body P W sec deny site t ctx a in (Some o, evs ++ ev, a')
  | NotFoundPme => (Some (Raise fpme), evs, a)
  | NotFoundNone => (None, evs, a)
  end.
Proof.
  induction l as [|c r IH]; intros b a evs Hsel.
  - simpl. destruct sec, b; reflexivity.
  - destruct c as [v|m].
    + cbn [comps_loop].
      assert (Ecomp : (if sec then call_component rq (CView v) else call_component_p P rq (CView v))
                      = if qualifies rq v || (negb sec && r_secured v && negb (p_perm_checks P))
                        then Some (r_tag v) else None).
      { destruct sec; simpl; unfold call_reg.
        - rewrite orb_false_r. reflexivity.
        - destruct (r_secured v && negb (p_perm_checks P)); [rewrite orb_true_r; reflexivity|].
          rewrite orb_false_r. reflexivity. }
      destruct (qualifies rq v || (negb sec && r_secured v && negb (p_perm_checks P))).
      * assert (Hs : (if sec then call_loop rq (CView v :: r) b else call_loop_p P rq (CView v :: r) b) = Ran (r_tag v))
          by (destruct sec; simpl; simpl in Ecomp; rewrite Ecomp; reflexivity).
        pose proof (Hsel _ Hs sec deny site ctx a) as H.
        destruct (run_body P W sec deny site (r_tag v) ctx a) as [[o ev] a'] eqn:Erb. simpl in H. rewrite H.
        rewrite Hs. rewrite Erb. reflexivity.
      * assert (Hs : (if sec then call_loop rq (CView v :: r) b else call_loop_p P rq (CView v :: r) b)
                     = (if sec then call_loop rq r true else call_loop_p P rq r true))
          by (destruct sec; simpl; simpl in Ecomp; rewrite Ecomp; reflexivity).
        change (Some fpme) with (pme_of true fpme). rewrite IH by (intros t Ht; apply Hsel; rewrite Hs; exact Ht).
        rewrite Hs. reflexivity.
    + cbn [comps_loop]. destruct sec.
      * simpl call_loop in *. simpl call_component in *. rewrite mv_call_find in *.
        destruct (find (qualifies rq) (map e_view (get_views m rq))) as [v|] eqn:Ef.
        -- rewrite views_loop_local by (intros v' Hv'; rewrite Ef in Hv'; inversion Hv'; subst; apply (Hsel (r_tag v') eq_refl)).
           rewrite Ef. simpl.
           destruct (run_body P W true deny site (r_tag v) ctx a) as [[o ev] a']. reflexivity.
        -- rewrite views_loop_local by (intros v' Hv'; rewrite Ef in Hv'; discriminate Hv').
           rewrite Ef. simpl. simpl in Hsel.
           change (Some fpme) with (pme_of true fpme). rewrite IH by exact Hsel. reflexivity.
      * simpl call_loop_p in *. simpl call_component_p in *. rewrite mv_call_find in *.
        destruct (find (qualifies rq) (map e_view (get_views m rq))) as [v|]; simpl in *.
        -- pose proof (Hsel _ eq_refl false deny site ctx a) as H.
           destruct (run_body P W false deny site (r_tag v) ctx a) as [[o ev] a']. simpl in H. rewrite H. reflexivity.
        -- change (Some fpme) with (pme_of true fpme). rewrite IH by exact Hsel. reflexivity.
Qed.

(* the tags the lookups of one request can select *)
Definition selected (ri : rinfo) (t : N) : Prop :=
  (exists second, call_view (w_reg W) view_classifier (req_of ri second) = Ran t)
  \/ (exists sec e, call_view_sec P (w_reg W) sec exc_classifier_id (exc_request P W ri e) = Ran t).
Definition no_pm_selected (ri : rinfo) : Prop := forall t, selected ri t -> body_no_pm P W t.

Variable ri : rinfo.
Hypothesis Hsel : no_pm_selected ri.

Lemma iev_pm_local site rr sec e st : iev_pm P W ri site rr sec e st = iev P W ri site rr sec e st.
Proof.
  unfold iev_pm, iev.
  rewrite (hide_attrs_ext (p_hidden P) _
             (fun a =>
                let a := set_all (p_set_in P) e a in
                match call_view_sec P (w_reg W) sec exc_classifier_id (exc_request P W ri e) with
                | Ran tag =>
                    let '(o, evs, a2) := run_body P W sec (ri_deny ri) site tag e a in ((Some o, evs), a2)
                | NotFoundPme => ((Some (Raise (fresh_pme site)), []), a)
                | NotFoundNone => ((None, []), a)
                end)); [reflexivity|].
  intros a. cbv zeta.
  change (@None N) with (pme_of false (fresh_pme site)).
  rewrite comps_loop_local.
  - unfold call_view_sec, call_view.
    destruct sec;
      match goal with |- context [match ?c with Ran _ => _ | NotFoundPme => _ | NotFoundNone => _ end] =>
        destruct c as [t| |] end; try reflexivity;
      destruct (run_body P W _ (ri_deny ri) site t e (set_all (p_set_in P) e a)) as [[o ev] a']; reflexivity.
  - intros t Ht. apply Hsel. right. exists sec, e. unfold call_view_sec, call_view. destruct sec; exact Ht.
Qed.

Lemma main_handler_pm_local second st : main_handler_pm P W ri second st = main_handler P W ri second st.
Proof.
  unfold main_handler_pm, main_handler. destruct (ri_root_raise ri); [reflexivity|]. cbv zeta.
  change (@None N) with (pme_of false id_h_pme).
  rewrite comps_loop_local.
  - unfold call_view.
    destruct (call_loop (req_of ri second)
                (find_views (w_reg W) view_classifier (q_req_sro (req_of ri second)) (q_ctx_sro (req_of ri second))
                   (q_view_name (req_of ri second))) false) as [t| |].
    + destruct (run_body P W true (ri_deny ri) site_main t ctx_resource (st_attrs st)) as [[o ev] a']. reflexivity.
    + simpl. rewrite app_nil_r. destruct st; reflexivity.
    + simpl. rewrite app_nil_r. destruct st; reflexivity.
  - intros t Ht. apply Hsel. left. exists second. exact Ht.
Qed.

Theorem run_request_pm_local : run_request_pm P W ri = run_request P W ri.
Proof.
  unfold run_request_pm, run_request_g, run_request.
  assert (Hu : forall st, under_tween_g W ri (main_handler_pm P W ri) (fun _ => iev_pm P W ri) st = under_tween P W ri st).
  { intros st. unfold under_tween_g, under_tween. destruct (ri_under ri) as [|e| |rr sec via thn].
    - apply main_handler_pm_local.
    - reflexivity.
    - rewrite main_handler_pm_local. destruct (main_handler P W ri false st) as [o st1]. apply main_handler_pm_local.
    - rewrite main_handler_pm_local. destruct (main_handler P W ri false st) as [[r|e] st1]; [reflexivity|].
      destruct (isa W cn_Exception e); [|reflexivity]. rewrite iev_pm_local. reflexivity. }
  assert (He : forall o st, excview_tween_g P W (fun _ => iev_pm P W ri) o st = excview_tween P W ri o st).
  { intros o st. unfold excview_tween_g, excview_tween. destruct o as [r|e]; [reflexivity|].
    destruct (isa W (p_tween_catches P) e); [|reflexivity]. rewrite iev_pm_local. reflexivity. }
  rewrite Hu. destruct (under_tween P W ri _) as [o1 st1]. rewrite He. reflexivity.
Qed.

End Local.

(* the world-wide premise implies the localised one *)
Lemma no_pm_selected_of_no_pm P W ri : no_pm P W -> no_pm_selected P W ri.
Proof. intros H t _ sec deny site ctx a. apply H. Qed.

(* the rendering judge accepts the pipeline with the search-goes-on loop whenever the views SELECTED for this
   request do not raise PredicateMismatch *)
Theorem judge_accepts_model_local b regs W ri :
  no_pm_selected (spec_params_b b) W ri ->
  b = true \/ sec_of (ri_under ri) = true ->
  (forall e, spec_ok exc_classifier_id regs (exc_request (spec_params_b b) W ri e)
               (call_view (w_reg W) exc_classifier_id (exc_request (spec_params_b b) W ri e)) = true) ->
  isa W cn_Exception ctx_resource = false ->
  (forall site, In site [site_under; site_tween] ->
     isa W cn_HTTPNotFound (fresh_nf site) = true /\ isa W cn_HTTPNotFound (fresh_pme site) = true
     /\ isa W cn_Exception (fresh_pme site) = true
     /\ isa W cn_HTTPForbidden (fresh_forb site) = true /\ isa W cn_Exception (fresh_forb site) = true
     /\ isa W cn_HTTPNotFound (fresh_forb site) = false) ->
  judge regs W ri (run_request_pm (spec_params_b b) W ri) = true
  /\ judge regs W ri (run_request_gen (spec_params_b b) W ri) = true.
Proof.
  intros Hsel Hsec Hlook Hres Hfresh.
  rewrite run_request_gen_is_model, (run_request_pm_local _ _ _ Hsel).
  split; apply judge_accepts_model; assumption.
Qed.

Example judge_accepts_model_local_nonvacuous : no_pm_selected spec_params ex_W ex_ri.
Proof.
  apply no_pm_selected_of_no_pm. apply no_pm_from_tables.
  - intros tag e _. unfold isa. change (w_excs ex_W) with ex_excs.
    destruct (find_exc_in ex_excs e) as [H|H]; [|rewrite H; reflexivity].
    remember (find_exc ex_excs e) as x eqn:Hx. clear Hx. unfold ex_excs, ex_nf, ex_fb in H. simpl in H.
    repeat (destruct H as [H|H]; [subst x; vm_compute; reflexivity|]). contradiction.
  - intros site. split; unfold isa; change (w_excs ex_W) with ex_excs;
      match goal with |- context [find_exc ex_excs ?e] =>
        destruct (find_exc_in ex_excs e) as [H|H]; [|rewrite H; reflexivity];
        remember (find_exc ex_excs e) as x eqn:Hx; clear Hx; unfold ex_excs, ex_nf, ex_fb in H; simpl in H;
        repeat (destruct H as [H|H]; [subst x; vm_compute; reflexivity|]); contradiction end.
  - vm_compute. reflexivity.
Qed.
