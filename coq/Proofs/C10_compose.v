(* C10 -- proof-only round: (1) the serializer object for ANY nesting of canonical wrappers (idempotence);
   (2) the chain theorem and the end-to-end statement WITHOUT the hypothesis canonical_check = true (it is a
   theorem of the regenerated factory); (3) end to end from a CALL of SignedCookieSessionFactory (positional /
   keyword / omitted arguments) through request.session, the request's callback queue and the router's pipeline
   (all inside grun_chain) to the store semantics of whole histories. *)
From Coq Require Import List NArith ZArith Bool Lia.
Import ListNotations.
Require Import Verif.Lib.Wire Verif.Gen.Facts_C10 Verif.Model.C10 Verif.Proofs.C10 Verif.Proofs.C10_codec
        Verif.Proofs.C10_real Verif.Proofs.C10_gen Verif.Proofs.C10_gen2 Verif.Proofs.C10_altered
        Verif.Proofs.C10_factory.

(* ------------------------------------------------------------------ (1) nested canonical wrappers *)
Lemma canon_loads_idem O inner c : canon_loads O (canon_loads O inner) c = canon_loads O inner c.
Proof.
  unfold canon_loads. destruct (unb64 O c) as [f|]; [|reflexivity].
  destruct (text_eqb (b64 O f) c); reflexivity.
Qed.

(* whatever the nesting, the serializer object is: the signed serializer under its key, behind ONE canonical check
   iff there is at least one wrapper *)
Lemma ser_loads_any_nesting O d c :
  ser_loads O d c = if ser_canonical d then canon_loads O (signed_loads O (ser_key d)) c
                    else signed_loads O (ser_key d) c.
Proof.
  induction d as [sec salt|d IH]; [reflexivity|].
  cbn [ser_loads ser_canonical ser_key]. rewrite gen_canon_loads_is_model.
  unfold canon_loads at 1. unfold canon_loads.
  destruct (unb64 O c) as [f|] eqn:U; [|reflexivity].
  destruct (text_eqb (b64 O f) c) eqn:E; [|reflexivity].
  rewrite IH. destruct (ser_canonical d); [|reflexivity].
  unfold canon_loads. rewrite U, E. reflexivity.
Qed.

Lemma ser_loads_wrap_idem O d c : ser_loads O (SCanon (SCanon d)) c = ser_loads O (SCanon d) c.
Proof. rewrite !ser_loads_any_nesting. reflexivity. Qed.

Lemma ser_dumps_any_nesting O d p : ser_dumps O d p = signed_dumps O (ser_key d) p.
Proof. induction d as [sec salt|d IH]; [reflexivity|]. cbn [ser_dumps ser_key]. rewrite gen_canon_dumps_is_model. exact IH. Qed.

(* ------------------------------------------------------------------ (2) without the hypothesis canonical_check = true *)
Lemma chain_refines_spec_unforged O o : rt_b64 O -> rt_ser O -> mac_len O ->
  forall l last sv, unforged O o l -> inv O o last sv ->
  Forall2 ok_at (run_chain O o last l) (spec_chain O o sv true l).
Proof. intros. apply chain_refines_spec_canonical; try assumption. exact canonical_check_on. Qed.

(* ------------------------------------------------------------------ (3) from a call of the factory to histories *)
Lemma call_end_to_end O c o : rt_b64 O -> rt_ser O -> mac_len O -> wf_call c ->
  gfactory_call c = FacOk o ->
  spec_factory_call c = FacOk o /\
  (exists vals a, doc_bind c = Some vals /\ fargs_of vals = Some a /\
                  key o = salted_key (fa_salt a) (fa_secret a) /\
                  (forall t, ser_loads O (b_ser (gen_signed_factory a)) t = loads O (key o) t) /\
                  (forall p, ser_dumps O (b_ser (gen_signed_factory a)) p = signed_dumps O (key o) p)) /\
  (forall last r, grun_req O o last r = run_req O o last r) /\
  forall l, unforged O o l -> Forall2 ok_at (grun_chain O o None l) (spec_chain O o None true l).
Proof.
  intros Hb Hs Hm W E.
  assert (S : spec_factory_call c = FacOk o) by (rewrite <- (gfactory_call_is_spec c W); exact E).
  split; [exact S|].
  unfold gfactory_call in E. destruct gen_sig_is_doc as [G1 G2]. rewrite G1, G2, (bind_call_doc c W) in E.
  destruct (doc_bind c) as [vals|] eqn:D; [|discriminate E].
  destruct (fargs_of vals) as [a|] eqn:F; [|discriminate E].
  destruct (factory_chain_refines_spec O a o canonical_check_on Hb Hs Hm E) as (K & L & Dm & Ch).
  split; [exists vals, a; repeat split; assumption|].
  split; [intros last r; apply grun_req_is_model|exact Ch].
Qed.

(* ------------------------------------------------------------------ non-vacuity *)
(* the premises of call_end_to_end are satisfiable together: a well-formed positional call that builds a factory,
   and, for whatever options, a chain presenting an altered cookie that is unforged (real wire format) *)
Example ex_call_builds : wf_call ex_call /\ exists o, gfactory_call ex_call = FacOk o.
Proof. split; [exact ex_call_wf|]. destruct ex_call_factory as [k E]. eexists. exact E. Qed.

Example ex_unforged_any o : unforged rf_O o ex_unforged_chain.
Proof.
  repeat constructor. cbn [rsrc]. intros m. cbn [b64 rf_O real_O mac]. unfold toy_mac. cbn [app].
  destruct m as [|b [|c r]]; cbn [b64enc app]; discriminate.
Qed.

Example ex_nested : ser_canonical (SCanon (SCanon (SSigned [115]%N None))) = true.
Proof. reflexivity. Qed.
