(* C11 -- pyramid.location.lineage, regenerated as [gen_lineage] (harness/c11/translate_lineage.py):
   gen_lineage_is_model        the regenerated generator equals the hand-written reference, for every world and fuel;
   lineage_sound / _complete   with enough fuel its output is exactly THE lineage of the resource: the resource itself,
                               then its __parent__, ... up to the first resource whose __parent__ is None or missing --
                               for lineages of ANY length (no depth bound);
   world_permits_first_match   lineage() followed by the ACL scan decides by the first matching ACE of that lineage;
   chain_world_acls            in the world the harness builds from a case the lineage carries exactly the case's ACLs. *)
From Coq Require Import List NArith ZArith Bool Lia.
Import ListNotations.
Require Import Verif.Lib.Wire Verif.Gen.Facts_C11 Verif.Model.C11 Verif.Proofs.C11 Verif.Proofs.C11_gen.

Theorem gen_lineage_is_model W fuel r : gen_lineage W fuel r = lineage_from W fuel r.
Proof.
  unfold gen_lineage.
  match goal with
  | |- ?F fuel r = _ => enough (H : forall f x, F f x = lineage_from W f x) by apply H
  end.
  induction f as [|f IH]; intros x; [reflexivity|].
  destruct x as [x|]; [|reflexivity].
  simpl. unfold step_parent. destruct (parent_of W x); rewrite ?IH; reflexivity.
Qed.

(* the lineage of a resource, declaratively *)
Inductive is_lineage (W : world) : nat -> list nat -> Prop :=
| lin_root r : parent_of W r = PNone \/ parent_of W r = PMissing -> is_lineage W r [r]
| lin_step r y l : parent_of W r = PTo y -> is_lineage W y l -> is_lineage W r (r :: l).

Lemma lineage_sound W fuel : forall r l,
  lineage_from W fuel (Some r) = Some l -> is_lineage W r l.
Proof.
  induction fuel as [|f IH]; intros r l H; [discriminate|].
  simpl in H. unfold step_parent in H. destruct (parent_of W r) as [| |y] eqn:E.
  - destruct f; simpl in H; [discriminate|]. inversion H; subst. constructor. auto.
  - destruct f; simpl in H; [discriminate|]. inversion H; subst. constructor. auto.
  - destruct (lineage_from W f (Some y)) as [l'|] eqn:E'; simpl in H; [|discriminate].
    inversion H; subst. apply lin_step with y; auto.
Qed.

Lemma lineage_complete W r l : is_lineage W r l ->
  forall fuel, length l < fuel -> lineage_from W fuel (Some r) = Some l.
Proof.
  induction 1 as [r [E|E]|r y l E _ IH]; intros fuel Hf; simpl in Hf.
  - destruct fuel as [|[|f]]; try lia. simpl. unfold step_parent. rewrite E. reflexivity.
  - destruct fuel as [|[|f]]; try lia. simpl. unfold step_parent. rewrite E. reflexivity.
  - destruct fuel as [|f]; [lia|]. simpl. unfold step_parent. rewrite E.
    rewrite (IH f) by lia. reflexivity.
Qed.

Lemma is_lineage_functional W r l1 : is_lineage W r l1 -> forall l2, is_lineage W r l2 -> l1 = l2.
Proof.
  induction 1 as [r Hr|r y l E _ IH]; intros l2 H2; inversion H2 as [r' Hr'|r' y' l' E' H3]; subst.
  - reflexivity.
  - destruct Hr as [Hr|Hr]; congruence.
  - destruct Hr' as [Hr'|Hr']; congruence.
  - assert (y = y') by congruence. subst. f_equal. apply IH. assumption.
Qed.

(* the regenerated lineage() yields exactly the lineage, whatever its length *)
Theorem gen_lineage_exact W r l fuel :
  length l < fuel -> (gen_lineage W fuel (Some r) = Some l <-> is_lineage W r l).
Proof.
  intros Hf. rewrite gen_lineage_is_model. split.
  - apply lineage_sound.
  - intros H. apply lineage_complete; assumption.
Qed.

(* running out of fuel is the only way to get no answer, and it means the chain is at least that long *)
Theorem gen_lineage_first W fuel r l : gen_lineage W fuel (Some r) = Some l -> exists t, l = r :: t.
Proof.
  rewrite gen_lineage_is_model. destruct fuel as [|f]; [discriminate|]. simpl.
  destruct (lineage_from W f (step_parent W r)) as [t|]; simpl; [|discriminate].
  intros H. inversion H. eauto.
Qed.

(* ---------- lineage() + ACL scan *)
Theorem world_permits_first_match W ctx l fuel ps p :
  is_lineage W ctx l -> length l < fuel ->
  exists d, world_permits W fuel ctx ps p = Some d
            /\ granted d = spec_granted (map (acl_of W) l) ps p.
Proof.
  intros Hl Hf. unfold world_permits, world_acls.
  rewrite (proj2 (gen_lineage_exact W ctx l fuel Hf) Hl).
  eexists. split; [reflexivity|]. apply gen_permits_first_match.
Qed.

Theorem world_allowed_consistent W ctx l fuel p q :
  is_lineage W ctx l -> length l < fuel -> wf_lineage (map (acl_of W) l) = true ->
  exists A d, world_principals_allowed W fuel ctx p = Some A
              /\ world_permits W fuel ctx [q; everyone] p = Some d
              /\ (In q A -> granted d = true).
Proof.
  intros Hl Hf Hwf. unfold world_principals_allowed, world_permits, world_acls.
  rewrite (proj2 (gen_lineage_exact W ctx l fuel Hf) Hl).
  eexists. eexists. split; [reflexivity|]. split; [reflexivity|].
  intros Hq. apply gen_allowed_consistent; assumption.
Qed.

(* ---------- the world of a case *)
Lemma nth_error_app_len {A} (P : list A) x t : nth_error (P ++ x :: t) (length P) = Some x.
Proof. rewrite nth_error_app2 by lia. rewrite Nat.sub_diag. reflexivity. Qed.

Lemma chain_from_lineage e : (forall y, e <> PTo y) -> forall L P a,
  let W := P ++ chain_from (length P) (a :: L) e in
  is_lineage W (length P) (seq (length P) (S (length L)))
  /\ map (acl_of W) (seq (length P) (S (length L))) = a :: L.
Proof.
  intros He. induction L as [|b L IH]; intros P a W.
  - subst W. simpl. split.
    + apply lin_root. unfold parent_of. rewrite nth_error_app_len. simpl.
      destruct e; auto. exfalso. apply (He r). reflexivity.
    + unfold acl_of. rewrite nth_error_app_len. reflexivity.
  - pose proof (IH (P ++ [mkNode (PTo (S (length P))) a]) b) as IH'. cbv zeta in IH'.
    assert (EW : W = P ++ mkNode (PTo (S (length P))) a :: chain_from (S (length P)) (b :: L) e) by reflexivity.
    replace (length (P ++ [mkNode (PTo (S (length P))) a])) with (S (length P)) in IH'
      by (rewrite app_length; simpl; lia).
    replace ((P ++ [mkNode (PTo (S (length P))) a]) ++ chain_from (S (length P)) (b :: L) e) with W in IH'
      by (rewrite EW, <- app_assoc; reflexivity).
    clear IH. rename IH' into IH.
    destruct IH as [I1 I2]. split.
    + change (seq (length P) (S (length (b :: L)))) with (length P :: seq (S (length P)) (S (length L))).
      apply lin_step with (S (length P)); [|exact I1].
      unfold parent_of. rewrite EW, nth_error_app_len. reflexivity.
    + change (seq (length P) (S (length (b :: L)))) with (length P :: seq (S (length P)) (S (length L))).
      rewrite map_cons, I2. f_equal. unfold acl_of. rewrite EW, nth_error_app_len. reflexivity.
Qed.

Lemma chain_from_length e : forall L i, length (chain_from i L e) = length L.
Proof.
  induction L as [|a L IH]; intros i; [reflexivity|].
  destruct L as [|b L]; [reflexivity|].
  change (chain_from i (a :: b :: L) e) with (mkNode (PTo (S i)) a :: chain_from (S i) (b :: L) e).
  cbn [length]. f_equal. apply IH.
Qed.

(* what run_C11 computes before it scans: in the world built from the case's lineage [L] (root's __parent__ None or
   missing) the regenerated lineage() of the context yields the resources 0..n-1, whose ACLs are L *)
Theorem chain_world_acls L e :
  L <> [] -> (forall y, e <> PTo y) ->
  world_acls (chain_world L e) (S (length (chain_world L e))) 0 = Some L.
Proof.
  intros HL He. destruct L as [|a L]; [contradiction|].
  pose proof (chain_from_lineage e He L [] a) as H. cbv zeta in H.
  change ([] ++ chain_from (length (@nil node)) (a :: L) e) with (chain_world (a :: L) e) in H.
  change (length (@nil node)) with 0 in H.
  destruct H as [I1 I2].
  unfold world_acls.
  assert (Hf : length (seq 0 (S (length L))) < S (length (chain_world (a :: L) e))).
  { rewrite seq_length. unfold chain_world. rewrite chain_from_length. cbn [length]. lia. }
  rewrite (proj2 (gen_lineage_exact _ 0 _ _ Hf) I1). rewrite I2. reflexivity.
Qed.

(* non-vacuity: a lineage of 150 resources with the only ACL on the root (beyond any "reasonable" depth bound) *)
Example deep_lineage_reaches_root :
  let alice := [97]%N in let view := [118]%N in
  let L := repeat None 149 ++ [Some [mkAce Allow alice (PStr view)]] in
  world_permits (chain_world L PNone) 151 0 [alice] view = Some (Allowed 149 0).
Proof. vm_compute. reflexivity. Qed.
