(* C11 -- pyramid.location.lineage, regenerated as [gen_lineage] (harness/c11/translate_lineage.py):
   gen_lineage_refines / _sound the regenerated generator answers wherever the hand-written reference does, and whatever it
                               answers is the lineage (two one-sided ties: fuel may be spent differently);
   lineage_sound / _complete   with enough fuel its output is exactly THE lineage of the resource: the resource itself,
                               then its __parent__, ... up to the first resource whose __parent__ is None or missing --
                               for lineages of ANY length (no depth bound);
   world_permits_first_match   lineage() followed by the ACL scan decides by the first matching ACE of that lineage;
   chain_world_acls            in the world the harness builds from a case the lineage carries exactly the case's ACLs. *)
From Coq Require Import List NArith ZArith Bool Lia.
Import ListNotations.
Require Import Verif.Lib.Wire Verif.Gen.Facts_C11 Verif.Model.C11 Verif.Proofs.C11 Verif.Proofs.C11_gen Verif.Proofs.C11_char.

(* the lineage of a resource, declaratively *)
Inductive is_lineage (W : world) : nat -> list nat -> Prop :=
| lin_root r : parent_of W r = PNone \/ parent_of W r = PMissing -> is_lineage W r [r]
| lin_step r y l : parent_of W r = PTo y -> is_lineage W y l -> is_lineage W r (r :: l).

Lemma lineage_sound W fuel : forall r l,
  lineage_from W fuel (Some r) = Some l -> is_lineage W r l.
Proof.
  induction fuel as [|f IH]; intros r l H; [discriminate|].
  simpl in H. unfold step_parent in H. destruct (parent_of W r) as [| |y] eqn:E.
  - destruct f; simpl in H; [discriminate|]. inversion H; subst. constructor. auto.
  - destruct f; simpl in H; [discriminate|]. inversion H; subst. constructor. auto.
  - destruct (lineage_from W f (Some y)) as [l'|] eqn:E'; simpl in H; [|discriminate].
    inversion H; subst. apply lin_step with y; auto.
Qed.

Lemma lineage_complete W r l : is_lineage W r l ->
  forall fuel, length l < fuel -> lineage_from W fuel (Some r) = Some l.
Proof.
  induction 1 as [r [E|E]|r y l E _ IH]; intros fuel Hf; simpl in Hf.
  - destruct fuel as [|[|f]]; try lia. simpl. unfold step_parent. rewrite E. reflexivity.
  - destruct fuel as [|[|f]]; try lia. simpl. unfold step_parent. rewrite E. reflexivity.
  - destruct fuel as [|f]; [lia|]. simpl. unfold step_parent. rewrite E.
    rewrite (IH f) by lia. reflexivity.
Qed.

Lemma is_lineage_functional W r l1 : is_lineage W r l1 -> forall l2, is_lineage W r l2 -> l1 = l2.
Proof.
  induction 1 as [r Hr|r y l E _ IH]; intros l2 H2; inversion H2 as [r' Hr'|r' y' l' E' H3]; subst.
  - reflexivity.
  - destruct Hr as [Hr|Hr]; congruence.
  - destruct Hr' as [Hr'|Hr']; congruence.
  - assert (y = y') by congruence. subst. f_equal. apply IH. assumption.
Qed.

(* ---------- the tie between the REGENERATED generator and the reference: two one-sided statements instead of an
   equality for every fuel, so that rewrites which spend the fuel differently (leaving the loop with `break` / `return`
   one step earlier, an unrolled loop body) are absorbed.  Both scripts take the generated loop apart by pattern (never
   by its text): one induction on the fuel, a case split on every [parent_of W x] the body reads (as many per iteration
   as the body has), the induction hypothesis at every recursive call. *)
Lemma lineage_from_mono W : forall f r l, lineage_from W f r = Some l -> lineage_from W (S f) r = Some l.
Proof.
  induction f as [|f IH]; intros r l H; [discriminate|].
  destruct r as [x|]; [|exact H].
  change (ocons x (lineage_from W f (step_parent W x)) = Some l) in H.
  change (ocons x (lineage_from W (S f) (step_parent W x)) = Some l).
  destruct (lineage_from W f (step_parent W x)) as [t|] eqn:E; [|discriminate].
  rewrite (IH _ _ E). exact H.
Qed.

Lemma ocons_some x o t : o = Some t -> ocons x o = Some (x :: t).
Proof. intros ->. reflexivity. Qed.

Lemma lineage_from_none W f l : lineage_from W f None = Some l -> l = [].
Proof. destruct f; simpl; [discriminate|]. intros H. inversion H. reflexivity. Qed.

Lemma lineage_from_some W f x l : lineage_from W f (Some x) = Some l ->
  exists g t, f = S g /\ l = x :: t /\ lineage_from W g (step_parent W x) = Some t.
Proof.
  destruct f as [|g]; [discriminate|].
  change (ocons x (lineage_from W g (step_parent W x)) = Some l ->
          exists g0 t, S g = S g0 /\ l = x :: t /\ lineage_from W g0 (step_parent W x) = Some t).
  destruct (lineage_from W g (step_parent W x)) as [t|] eqn:E; [|discriminate].
  intros H. inversion H. eauto.
Qed.

Ltac refine_step W IH :=
  repeat match goal with
  | H : lineage_from W ?g ?r = Some ?l |- _ ?g ?r = Some ?l => apply IH; exact H
  | H : lineage_from W ?g ?r = Some ?l |- _ (S ?g) ?r = Some ?l => apply IH; apply lineage_from_mono; exact H
  | |- ocons ?x _ = Some (?x :: _) => apply ocons_some
  | H : lineage_from W ?f (Some ?x) = Some ?l |- context [parent_of W ?x] =>
      let g := fresh "g" in let t := fresh "t" in let E := fresh "E" in let Hg := fresh "Hg" in let Hl := fresh "Hl" in
      apply lineage_from_some in H; destruct H as (g & t & Hg & Hl & H);
      try (injection Hg as Hg); subst;
      unfold step_parent in H; destruct (parent_of W x) eqn:E
  | H : lineage_from W _ None = Some _ |- _ => apply lineage_from_none in H; subst
  | |- _ = Some [] => reflexivity
  end.

Ltac lineage_refines W :=
  let G := fresh "G" in
  match goal with |- forall f r l, _ -> ?F f r = _ => set (G := F) end;
  let f := fresh "f" in let IH := fresh "IH" in let r := fresh "r" in let l := fresh "l" in let H := fresh "H" in
  intro f; induction f as [|f IH]; intros r l H; [discriminate|];
  destruct r as [?x|]; [|apply lineage_from_none in H; subst; reflexivity];
  unfold G; cbn beta iota fix; fold G;
  refine_step W IH.

(* the regenerated generator answers wherever the reference does (same fuel), with the same list *)
Theorem gen_lineage_refines W : forall fuel r l,
  lineage_from W fuel r = Some l -> gen_lineage W fuel r = Some l.
Proof. unfold gen_lineage. lineage_refines W. Qed.

Definition lin_ok (W : world) (r : option nat) (l : list nat) : Prop :=
  match r with Some x => is_lineage W x l | None => l = [] end.

Ltac sound_step W IH :=
  repeat match goal with
  | H : context [match parent_of W ?x with PMissing => _ | PNone => _ | PTo _ => _ end] |- _ =>
      let E := fresh "E" in destruct (parent_of W x) eqn:E
  | H : Some _ = Some _ |- _ => injection H as H; subst
  | H : ocons ?x ?o = Some ?l |- _ =>
      let t := fresh "t" in let E := fresh "E" in
      destruct o as [t|] eqn:E; [cbn [ocons] in H|discriminate H]
  | H : _ ?g ?r = Some ?t |- _ => apply IH in H; unfold lin_ok in H
  | H : None = Some _ |- _ => discriminate H
  end;
  subst;
  repeat first [ assumption | reflexivity | apply lin_root; auto; fail | eapply lin_step; [eassumption|] ].

Ltac lineage_sound_tac W :=
  let G := fresh "G" in
  match goal with |- forall f r l, ?F f r = _ -> _ => set (G := F) end;
  let f := fresh "f" in let IH := fresh "IH" in let r := fresh "r" in let l := fresh "l" in let H := fresh "H" in
  intro f; induction f as [|f IH]; intros r l H; [discriminate|];
  destruct r as [?x|]; unfold lin_ok;
  unfold G in H; cbn beta iota fix in H; fold G in H;
  sound_step W IH.

(* whatever the regenerated generator answers, with whatever fuel, is THE lineage (nothing for None) *)
Theorem gen_lineage_sound W : forall fuel r l,
  gen_lineage W fuel r = Some l -> lin_ok W r l.
Proof. unfold gen_lineage. lineage_sound_tac W. Qed.

(* the regenerated lineage() yields exactly the lineage, whatever its length *)
Theorem gen_lineage_exact W r l fuel :
  length l < fuel -> (gen_lineage W fuel (Some r) = Some l <-> is_lineage W r l).
Proof.
  intros Hf. split.
  - apply (gen_lineage_sound W fuel (Some r) l).
  - intros H. apply gen_lineage_refines. apply lineage_complete; assumption.
Qed.

(* "equal up to the fuel boundary": with more fuel than the answer is long, regenerated and reference agree *)
Theorem gen_lineage_agrees_with_model W r l fuel :
  length l < fuel -> (gen_lineage W fuel (Some r) = Some l <-> lineage_from W fuel (Some r) = Some l).
Proof.
  intros Hf. rewrite (gen_lineage_exact W r l fuel Hf). split.
  - intros H. apply lineage_complete; assumption.
  - apply lineage_sound.
Qed.

Theorem gen_lineage_first W fuel r l : gen_lineage W fuel (Some r) = Some l -> exists t, l = r :: t.
Proof.
  intros H. apply (gen_lineage_sound W fuel (Some r) l) in H. simpl in H.
  inversion H; subst; eauto.
Qed.

(* ---------- lineage() + ACL scan *)
Theorem world_permits_first_match W ctx l fuel ps p :
  is_lineage W ctx l -> length l < fuel ->
  exists d, world_permits W fuel ctx ps p = Some d
            /\ granted d = spec_granted (map (acl_of W) l) ps p.
Proof.
  intros Hl Hf. unfold world_permits, world_acls.
  rewrite (proj2 (gen_lineage_exact W ctx l fuel Hf) Hl).
  eexists. split; [reflexivity|]. apply gen_permits_first_match.
Qed.

Theorem world_allowed_consistent W ctx l fuel p q :
  is_lineage W ctx l -> length l < fuel -> wf_lineage (map (acl_of W) l) = true ->
  exists A d, world_principals_allowed W fuel ctx p = Some A
              /\ world_permits W fuel ctx [q; everyone] p = Some d
              /\ (In q A -> granted d = true).
Proof.
  intros Hl Hf Hwf. unfold world_principals_allowed, world_permits, world_acls.
  rewrite (proj2 (gen_lineage_exact W ctx l fuel Hf) Hl).
  eexists. eexists. split; [reflexivity|]. split; [reflexivity|].
  intros Hq. apply gen_allowed_consistent; assumption.
Qed.

(* END TO END: request.has_permission(p, ctx), with a security policy registered, is granted iff the first matching ACE
   over the lineage of ctx -- scanning the ACLs of ctx, ctx.__parent__, ... in that order -- for the effective principals
   the authentication policy reports is an Allow.  Everything on the left is regenerated from the source: lineage(),
   has_permission, LegacySecurityPolicy.permits, ACLAuthorizationPolicy.permits, ACLHelper.permits, is_nonstr_iter,
   AllPermissionsList.__contains__. *)
Theorem has_permission_end_to_end R W ctx l fuel reqctx ps p :
  has_policy R = true -> is_lineage W ctx l -> length l < fuel ->
  exists acls, world_acls W fuel ctx = Some acls /\ acls = map (acl_of W) l
    /\ (hp_granted (gen_has_permission R (Some acls) reqctx ps p) = true
        <-> exists e, first_match acls ps p = Some e /\ act e = Allow).
Proof.
  intros HR Hl Hf. exists (map (acl_of W) l). split; [|split; [reflexivity|]].
  - unfold world_acls. rewrite (proj2 (gen_lineage_exact W ctx l fuel Hf) Hl). reflexivity.
  - pose proof (has_permission_first_match R (Some (map (acl_of W) l)) reqctx ps p HR) as E.
    cbv beta iota in E. split; intros H.
    + apply spec_granted_iff_first_allow. exact (eq_trans (eq_sym E) H).
    + exact (eq_trans E (proj2 (spec_granted_iff_first_allow _ _ _) H)).
Qed.

(* ---------- the world of a case *)
Lemma nth_error_app_len {A} (P : list A) x t : nth_error (P ++ x :: t) (length P) = Some x.
Proof. rewrite nth_error_app2 by lia. rewrite Nat.sub_diag. reflexivity. Qed.

Lemma chain_from_lineage e : (forall y, e <> PTo y) -> forall L P a,
  let W := P ++ chain_from (length P) (a :: L) e in
  is_lineage W (length P) (seq (length P) (S (length L)))
  /\ map (acl_of W) (seq (length P) (S (length L))) = a :: L.
Proof.
  intros He. induction L as [|b L IH]; intros P a W.
  - subst W. simpl. split.
    + apply lin_root. unfold parent_of. rewrite nth_error_app_len. simpl.
      destruct e; auto. exfalso. apply (He r). reflexivity.
    + unfold acl_of. rewrite nth_error_app_len. reflexivity.
  - pose proof (IH (P ++ [mkNode (PTo (S (length P))) a]) b) as IH'. cbv zeta in IH'.
    assert (EW : W = P ++ mkNode (PTo (S (length P))) a :: chain_from (S (length P)) (b :: L) e) by reflexivity.
    replace (length (P ++ [mkNode (PTo (S (length P))) a])) with (S (length P)) in IH'
      by (rewrite app_length; simpl; lia).
    replace ((P ++ [mkNode (PTo (S (length P))) a]) ++ chain_from (S (length P)) (b :: L) e) with W in IH'
      by (rewrite EW, <- app_assoc; reflexivity).
    clear IH. rename IH' into IH.
    destruct IH as [I1 I2]. split.
    + change (seq (length P) (S (length (b :: L)))) with (length P :: seq (S (length P)) (S (length L))).
      apply lin_step with (S (length P)); [|exact I1].
      unfold parent_of. rewrite EW, nth_error_app_len. reflexivity.
    + change (seq (length P) (S (length (b :: L)))) with (length P :: seq (S (length P)) (S (length L))).
      rewrite map_cons, I2. f_equal. unfold acl_of. rewrite EW, nth_error_app_len. reflexivity.
Qed.

Lemma chain_from_length e : forall L i, length (chain_from i L e) = length L.
Proof.
  induction L as [|a L IH]; intros i; [reflexivity|].
  destruct L as [|b L]; [reflexivity|].
  change (chain_from i (a :: b :: L) e) with (mkNode (PTo (S i)) a :: chain_from (S i) (b :: L) e).
  cbn [length]. f_equal. apply IH.
Qed.

(* what run_C11 computes before it scans: in the world built from the case's lineage [L] (root's __parent__ None or
   missing) the regenerated lineage() of the context yields the resources 0..n-1, whose ACLs are L *)
Theorem chain_world_acls L e :
  L <> [] -> (forall y, e <> PTo y) ->
  world_acls (chain_world L e) (S (length (chain_world L e))) 0 = Some L.
Proof.
  intros HL He. destruct L as [|a L]; [contradiction|].
  pose proof (chain_from_lineage e He L [] a) as H. cbv zeta in H.
  change ([] ++ chain_from (length (@nil node)) (a :: L) e) with (chain_world (a :: L) e) in H.
  change (length (@nil node)) with 0 in H.
  destruct H as [I1 I2].
  unfold world_acls.
  assert (Hf : length (seq 0 (S (length L))) < S (length (chain_world (a :: L) e))).
  { rewrite seq_length. unfold chain_world. rewrite chain_from_length. cbn [length]. lia. }
  rewrite (proj2 (gen_lineage_exact _ 0 _ _ Hf) I1). rewrite I2. reflexivity.
Qed.

(* non-vacuity: a lineage of 150 resources with the only ACL on the root (beyond any "reasonable" depth bound) *)
Example deep_lineage_reaches_root :
  let alice := [97]%N in let view := [118]%N in
  let L := repeat None 149 ++ [Some [mkAce Allow alice (PStr view)]] in
  world_permits (chain_world L PNone) 151 0 [alice] view = Some (Allowed 149 0).
Proof. vm_compute. reflexivity. Qed.
