(* C10 -- the chain theorem with the codec premises restricted to a class W of states *)
From Coq Require Import List NArith ZArith Bool Lia.
Import ListNotations.
Require Import Verif.Lib.Wire Verif.Gen.Facts_C10 Verif.Model.C10 Verif.Proofs.C10.

Lemma loads_cookie_at O o s : mac_len O -> codec_at O (key o) s ->
  loads O (key o) (cookie_of O o s) = Some (payload s).
Proof.
  intros Hm [Hb Hs]. unfold loads, cookie_of. rewrite Hb. rewrite text_eqb_refl. cbn [negb]. rewrite andb_false_r.
  rewrite skipn_len_app, firstn_len_app by apply Hm. rewrite text_eqb_refl. exact Hs.
Qed.

Lemma init_cookie_at O o s now : mac_len O -> codec_at O (key o) s ->
  init O o (Some (cookie_of O o s)) now =
  IOk {| st := if expired o now (tval (accessed s)) then [] else st s;
         created := TF (tval (created s)); accessed := TF (tval (accessed s));
         renewed := TF (tval (accessed s)); isnew := false; dirty := false |}.
Proof.
  intros Hm Hc. unfold init. rewrite loads_cookie_at by assumption.
  unfold payload. cbn [unpack3].
  assert (F : forall t, float_of (tjv t) = FOk (tval t)) by (destruct t; reflexivity).
  rewrite !F. unfold expired. cbn [tval].
  destruct (timeout o) as [t|]; [rewrite cmp_timeout; destruct (Z.gtb _ _)|]; reflexivity.
Qed.

Lemma init_last_at O o v now : mac_len O -> codec_at O (key o) (store_sess v) ->
  init O o (Some (cookie_of O o (store_sess v))) now = IOk (start_sess o (Some v) now).
Proof.
  intros Hm Hc. rewrite init_cookie_at by assumption.
  unfold start_sess, spec_start, expired. cbn [store_sess accessed created st tval].
  destruct (timeout o); reflexivity.
Qed.

Lemma run_ops_closed (W : dict -> Prop) o l : forall s,
  W (st s) -> Forall (fun pt => closed W (fst pt)) l -> W (st (fst (run_ops o l s))).
Proof.
  induction l as [|[p t] r IH]; intros s Hw Hl; [exact Hw|].
  inversion Hl as [|? ? Hp Hr]; subst. cbn [run_ops]. rewrite step_eff.
  set (s1 := with_st _ _). specialize (IH s1).
  destruct (run_ops o r s1) as [s2 xs] eqn:R. cbn [fst] in *. apply IH; [|exact Hr].
  unfold s1. cbn [with_st st]. apply Hp, Hw.
Qed.

Lemma start_sess_W o (W : dict -> Prop) sv now : W [] -> match sv with Some v => W (s_st v) | None => True end ->
  W (st (start_sess o sv now)).
Proof.
  intros W0 Hv. unfold start_sess, spec_start. destruct sv as [v|]; [|exact W0].
  cbn [st]. destruct (match timeout o with Some _ => _ | None => _ end); assumption.
Qed.

Lemma spec_req_W O o (W : dict -> Prop) sv r v1 : W [] -> match sv with Some v => W (s_st v) | None => True end ->
  Forall (fun pt => closed W (fst pt)) (rops r) ->
  snd (spec_req O o sv r) = Some v1 -> W (s_st v1).
Proof.
  intros W0 Hv Hc. pose proof (req_refines O o sv r) as R. cbv zeta in R. destruct R as [_ R2].
  pose proof (run_ops_closed W o (rops r) (start_sess o sv (rt r)) (start_sess_W o W sv (rt r) W0 Hv) Hc) as Hw.
  intros E.
  unfold spec_req in E |- *.
  destruct (spec_start o sv (rt r)) as [[[nw cr] rn] d0] eqn:SS.
  pose proof (run_ops_spec o (rops r) (start_sess o sv (rt r))) as (Es & _).
  unfold start_sess in Es, Hw. rewrite SS in Es, Hw. cbn [st accessed dirty renewed tval] in Es.
  rewrite Es in E. cbn [snd] in E.
  destruct (N.eqb _ 1); [inversion E; subst; exact Hw|].
  subst sv. exact Hv.
Qed.

Lemma chain_refines_spec_on O o W : mac_len O -> codec_ok O (key o) W -> W [] ->
  forall l last sv, chain_ok O o l -> chain_closed W l -> inv_on O o W last sv ->
  Forall2 ok_at (run_chain O o last l) (spec_chain O o sv true l).
Proof.
  intros Hm Hk W0. induction l as [|r l IH0]; intros last sv Hok Hcl Iv; [constructor|].
  inversion Hcl as [|? ? Hr Hl]; subst. inversion Hok as [|? ? Hor Hol]; subst.
  assert (IH : forall last sv, chain_closed W l -> inv_on O o W last sv ->
               Forall2 ok_at (run_chain O o last l) (spec_chain O o sv true l)) by (intros; apply IH0; assumption).
  clear IH0.
  cbn [run_chain spec_chain negb].
  assert (Wsv : match sv with Some v => W (s_st v) | None => True end).
  { destruct last, sv; cbn [inv_on] in Iv; try contradiction; [apply Iv|exact Logic.I]. }
  assert (Fresh : init O o (present last (rsrc r)) (rt r) = IOk (fresh_sess (rt r)) ->
          Forall2 ok_at (run_req O o last r :: run_chain O o (next_last last (run_req O o last r)) l)
            (let '(ob, sv') := spec_req O o None r in
             Some ob :: spec_chain O o (match sv' with Some x => Some x | None => sv end) true l)).
  { intros E. rewrite (run_req_ok _ _ _ _ _ E).
    pose proof (req_refines O o None r) as R. cbv zeta in R.
    change (start_sess o None (rt r)) with (fresh_sess (rt r)) in R.
    pose proof (spec_req_W O o W None r) as SW.
    destruct (spec_req O o None r) as [ob sv1]. cbn [fst snd] in R, SW. destruct R as [R1 R2].
    constructor; [exact R1|]. apply IH; [exact Hl|]. cbn [next_last].
    destruct (finish O o _ _).
    - rewrite R2. exact Iv.
    - destruct R2 as (v1 & -> & ->). split; [reflexivity|]. apply SW; auto.
    - rewrite R2. exact Iv. }
  destruct (rsrc r) as [| |c|c] eqn:Sr.
  - apply Fresh. cbn [present]. apply init_none.
  - cbn [present]. destruct last as [c|], sv as [v|]; cbn [inv_on] in Iv; try contradiction.
    + destruct Iv as [-> Wv].
      pose proof (init_last_at O o v (rt r) Hm (Hk (store_sess v) Wv)) as E.
      assert (E' : init O o (present (Some (cookie_of O o (store_sess v))) (rsrc r)) (rt r)
                   = IOk (start_sess o (Some v) (rt r))) by (rewrite Sr; exact E).
      rewrite (run_req_ok _ _ _ _ _ E').
      pose proof (req_refines O o (Some v) r) as R. cbv zeta in R.
      pose proof (spec_req_W O o W (Some v) r) as SW.
      destruct (spec_req O o (Some v) r) as [ob sv1]. cbn [fst snd] in R, SW. destruct R as [R1 R2].
      constructor; [exact R1|]. apply IH; [exact Hl|]. cbn [next_last].
      destruct (finish O o _ _).
      * rewrite R2. split; [reflexivity|exact Wv].
      * destruct R2 as (v1 & -> & ->). split; [reflexivity|]. apply SW; auto.
      * rewrite R2. split; [reflexivity|exact Wv].
    + specialize (Fresh (init_none O o (rt r))).
      destruct (spec_req O o None r) as [ob [v1|]]; exact Fresh.
  - destruct (valid_signed O (key o) c) eqn:V.
    + constructor; [exact Logic.I|apply chain_dead].
    + apply Fresh. cbn [present]. apply init_unsigned, V.
  - apply Fresh. cbn [present]. apply init_unsigned, Hor.
Qed.
