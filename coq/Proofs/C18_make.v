(* C18 -- PredicateList.make regenerated from the source (harness/c18/translate_make.py -> Gen/Facts_C18.v) equals the
   reference model pl_make, and the predicates it creates -- the order in which they are evaluated at request time --
   honour every weighs_more_than / weighs_less_than constraint between the predicates in use. *)
From Coq Require Import List NArith ZArith Bool Lia Permutation.
Import ListNotations.
Require Import Verif.Lib.Wire Verif.Model.C18_base Verif.Gen.Facts_C18 Verif.Model.C18.
Require Import Verif.Proofs.C18_kahn Verif.Proofs.C18_build Verif.Proofs.C18 Verif.Proofs.C18_rep Verif.Proofs.C18_gen Verif.Proofs.C18_wire.

Lemma fold_ext {A B} (f g : A -> B -> A) : (forall a b, f a b = g a b) -> forall l a, fold_left f l a = fold_left g l a.
Proof. intros H l. induction l as [|x l IH]; intros a; simpl; [reflexivity|]. rewrite H. apply IH. Qed.

Lemma adel_none {V} k (l : list (node * V)) : aget k l = None -> adel k l = l.
Proof.
  induction l as [|[k' v] l IH]; simpl; [reflexivity|].
  destruct (text_eqb k k'); [discriminate|]. intros H. rewrite IH by exact H. reflexivity.
Qed.

(* one value of one predicate: what the body of the inner loop does *)
Definition inner_step (name : node) (f : N) (n : nat) (st : list pred * list pred * list Z) (v : pval) :=
  let '(ph, ps, w) := st in
  let p := mk_pred name f v in
  (ph ++ [p], ps ++ [p], w ++ [Z.shiftl 1 (Z.of_nat n + 1)]).

Lemma inner_fold name f n vals : forall ph ps w,
  fold_left (inner_step name f n) vals (ph, ps, w) =
  (ph ++ map (mk_pred name f) vals, ps ++ map (mk_pred name f) vals,
   w ++ map (fun _ => Z.shiftl 1 (Z.of_nat n + 1)) (map (mk_pred name f) vals)).
Proof.
  induction vals as [|v vals IH]; intros ph ps w; cbn [fold_left map]; [rewrite !app_nil_r; reflexivity|].
  unfold inner_step at 2. rewrite IH. rewrite <- !app_assoc. reflexivity.
Qed.

Theorem gen_pl_make_is_model mo o kw : gen_pl_make mo o kw = pl_make mo o kw.
Proof.
  unfold gen_pl_make, pl_make. destruct o as [ordered| | | |]; try reflexivity. cbv zeta.
  match goal with |- context [fold_left ?F (enumerate_from 0 ordered) ?init] =>
    assert (E : forall l st, fold_left F l st = fold_left make_step l st)
  end.
  { apply fold_ext. intros [[[kw0 ph] ps] w] [n [name f]]. cbn [fst snd]. unfold make_step.
    destruct (aget name kw0) as [vals|] eqn:Ea.
    - match goal with |- context [fold_left ?G (pvals_list vals) _] =>
        rewrite (fold_ext G (inner_step name f n)) by (intros [[ph0 ps0] w0] v; destruct v; reflexivity)
      end.
      rewrite inner_fold. reflexivity.
    - rewrite (adel_none name kw0 Ea). reflexivity. }
  rewrite E. destruct (fold_left make_step (enumerate_from 0 ordered) (kw, [], [], [])) as [[[kw' ph] ps] w].
  destruct (nonempty kw'); reflexivity.
Qed.

(* ---------- which predicates make() creates, and in which order *)
Definition vals_of (kw : list (node * pvals)) (n : node) : list pval :=
  match aget n kw with Some v => pvals_list v | None => [] end.
Definition made (kw : list (node * pvals)) (nf : node * N) : list pred :=
  map (mk_pred (fst nf) (snd nf)) (vals_of kw (fst nf)).

Definition st_kw (st : list (node * pvals) * list pred * list pred * list Z) := let '(k, _, _, _) := st in k.
Definition st_phash (st : list (node * pvals) * list pred * list pred * list Z) := let '(_, h, _, _) := st in h.
Definition st_preds (st : list (node * pvals) * list pred * list pred * list Z) := let '(_, _, p, _) := st in p.

Lemma make_fold kw0 : forall xs i kw ph ps w,
  NoDup (map fst xs) -> (forall m, In m (map fst xs) -> aget m kw = aget m kw0) ->
  st_preds (fold_left make_step (enumerate_from i xs) (kw, ph, ps, w)) = ps ++ flat_map (made kw0) xs /\
  st_phash (fold_left make_step (enumerate_from i xs) (kw, ph, ps, w)) = ph ++ flat_map (made kw0) xs.
Proof.
  induction xs as [|[name f] xs IH]; intros i kw ph ps w Hnd Hk; cbn [enumerate_from fold_left flat_map map fst].
  - rewrite !app_nil_r. split; reflexivity.
  - cbn [map fst] in Hnd. inversion Hnd as [|? ? Hnot Hnd']; subst.
    assert (Hname : aget name kw = aget name kw0) by (apply Hk; left; reflexivity).
    assert (Em : made kw0 (name, f) =
                 match aget name kw with Some vals => map (mk_pred name f) (pvals_list vals) | None => [] end).
    { unfold made, vals_of. cbn [fst snd]. rewrite <- Hname. destruct (aget name kw); reflexivity. }
    rewrite Em. clear Em.
    remember (make_step (kw, ph, ps, w) (i, (name, f))) as st1 eqn:Est. unfold make_step in Est.
    destruct (aget name kw) as [vals|] eqn:Ea; subst st1.
    + destruct (IH (S i) (adel name kw) (ph ++ map (mk_pred name f) (pvals_list vals))
                   (ps ++ map (mk_pred name f) (pvals_list vals))
                   (w ++ map (fun _ => Z.shiftl 1 (Z.of_nat i + 1)) (map (mk_pred name f) (pvals_list vals))) Hnd') as (H1 & H2).
      { intros m Hm. rewrite aget_adel_other; [apply Hk; right; exact Hm|]. intros ->. contradiction. }
      rewrite H1, H2, <- !app_assoc. split; reflexivity.
    + destruct (IH (S i) kw ph ps w Hnd') as (H1 & H2).
      { intros m Hm. apply Hk. right. exact Hm. }
      cbn [app]. rewrite H1, H2. split; reflexivity.
Qed.

Theorem make_creates mo ordered kw order ps ph :
  NoDup (map fst ordered) ->
  pl_make mo (Sorted ordered) kw = MkOk order ps ph ->
  ps = flat_map (made kw) ordered /\ ph = ps.
Proof.
  intros Hnd. unfold pl_make.
  destruct (make_fold kw ordered 0 kw [] [] [] Hnd (fun m _ => eq_refl)) as (H1 & H2).
  destruct (fold_left make_step (enumerate_from 0 ordered) (kw, [], [], [])) as [[[kw' h] p] w].
  cbn [st_preds st_phash app] in H1, H2. destruct (nonempty kw'); [discriminate|].
  intros H. injection H as _ <- <-. subst. split; reflexivity.
Qed.

Lemma pred_name_mk n f v : pred_name (mk_pred n f v) = n.
Proof. unfold mk_pred. destruct (pv_is_not v); reflexivity. Qed.

Lemma made_names kw o m : In m (map pred_name (flat_map (made kw) o)) -> In m (map fst o).
Proof.
  induction o as [|[n f] o IH]; cbn [flat_map map]; [tauto|].
  rewrite map_app, in_app_iff. intros [H|H]; [left|right; apply IH; exact H].
  unfold made in H. rewrite map_map in H. apply in_map_iff in H. destruct H as (v & Hv & _).
  rewrite pred_name_mk in Hv. exact Hv.
Qed.

Lemma nodup_app_disj {A} (x : A) : forall l1 l2, NoDup (l1 ++ l2) -> In x l1 -> In x l2 -> False.
Proof.
  induction l1 as [|y l1 IH]; intros l2 Hnd H1 H2; [destruct H1|].
  cbn [app] in Hnd. inversion Hnd as [|? ? Hnot Hnd']; subst. destruct H1 as [->|H1].
  - apply Hnot. apply in_or_app. right. exact H2.
  - exact (IH l2 Hnd' H1 H2).
Qed.

Lemma split_mid {A} (x : A) : forall X l1 l2 Y, l1 ++ x :: l2 = X ++ Y -> ~ In x X -> exists l', Y = l' ++ x :: l2.
Proof.
  induction X as [|y X IH]; intros l1 l2 Y H Hn.
  - exists l1. symmetry. exact H.
  - destruct l1 as [|z l1]; cbn [app] in H; injection H as Hz H.
    + exfalso. apply Hn. left. symmetry. exact Hz.
    + apply (IH l1 l2 Y H). intros Hi. apply Hn. right. exact Hi.
Qed.

(* "no predicate of [a] is created (= evaluated) after a predicate of [b]" *)
Definition never_after (ps : list pred) (a b : node) : Prop :=
  forall l1 q l2, ps = l1 ++ q :: l2 -> pred_name q = b -> forall p, In p l2 -> pred_name p <> a.

Lemma made_order kw ordered a b :
  NoDup (map fst ordered) -> precedes (map fst ordered) a b = true ->
  never_after (flat_map (made kw) ordered) a b.
Proof.
  intros Hnd Hp l1 q l2 Hs Hq p Hin Hpa.
  (* split the sorted list at a *)
  assert (Ha : In a (map fst ordered)) by (apply precedes_In in Hp; tauto).
  apply in_map_iff in Ha. destruct Ha as ([a' fa] & Ea & Hina). cbn [fst] in Ea. subst a'.
  apply in_split in Hina. destruct Hina as (o1 & o2 & ->).
  rewrite map_app in Hnd, Hp. cbn [map fst] in Hnd, Hp.
  assert (Hna1 : ~ In a (map fst o1)).
  { intros H. apply NoDup_remove_2 in Hnd. apply Hnd. apply in_or_app. left. exact H. }
  assert (Hna2 : ~ In a (map fst o2)).
  { intros H. apply NoDup_remove_2 in Hnd. apply Hnd. apply in_or_app. right. exact H. }
  assert (Hb2 : In b (map fst o2)).
  { clear -Hp Hna1. induction (map fst o1) as [|x l IH]; cbn [app precedes] in Hp.
    - rewrite text_eqb_refl in Hp. apply mem_text_In. exact Hp.
    - destruct (text_eqb_spec x a) as [->|Hne]; [exfalso; apply Hna1; left; reflexivity|].
      apply IH; [exact Hp|]. intros H. apply Hna1. right. exact H. }
  assert (Hb1 : ~ In b (map fst o1)).
  { intros H. apply NoDup_remove_1 in Hnd. exact (nodup_app_disj b _ _ Hnd H Hb2). }
  assert (Hba : b <> a) by (intros ->; contradiction).
  rewrite flat_map_app in Hs. cbn [flat_map] in Hs. rewrite app_assoc in Hs.
  apply (f_equal (map pred_name)) in Hs. rewrite !map_app in Hs. cbn [map] in Hs. rewrite Hq in Hs.
  symmetry in Hs. rewrite <- map_app in Hs.
  destruct (split_mid b _ _ _ _ Hs) as (l' & Hl').
  { rewrite map_app, in_app_iff. intros [H|H].
    - apply made_names in H. contradiction.
    - unfold made in H. rewrite map_map in H. apply in_map_iff in H. destruct H as (v & Hv & _).
      rewrite pred_name_mk in Hv. cbn [fst] in Hv. congruence. }
  apply Hna2. apply (made_names kw o2 a). rewrite Hl'. apply in_or_app. right. right.
  rewrite <- Hpa. apply in_map. exact Hin.
Qed.

(* the evaluation order of the predicates of one view / route / subscriber honours every declared constraint:
   for every sequence of add/remove calls on the predicate sorter, every declared item d and every item u it must
   come after (before), no predicate of d is created before (after) ... *)
Theorem make_order_respects c ops ordered kw mo order ps ph :
  sorted (final_state (new_sorter c) ops) = Sorted ordered ->
  pl_make mo (Sorted ordered) kw = MkOk order ps ph ->
  forall d, In d (decls_of c ops) ->
    (forall u, In u (opt_list (dafter d)) -> In u (dnames (decls_of c ops)) -> never_after ps u (dname d)) /\
    (forall o, In o (opt_list (dbefore d)) -> In o (dnames (decls_of c ops)) -> never_after ps (dname d) o).
Proof.
  intros Es Em d Hd.
  destruct (sorted_perm_ops c ops ordered Es) as (_ & Hnd).
  destruct (make_creates mo ordered kw order ps ph Hnd Em) as (-> & _).
  destruct (sorted_respects_ops c ops ordered Es d Hd) as (Ha & Hb).
  split.
  - intros u Hu Hin. apply made_order; [exact Hnd|apply Ha; assumption].
  - intros o Ho Hin. apply made_order; [exact Hnd|apply Hb; assumption].
Qed.

(* the same about the program regenerated from the source on this run *)
Theorem gen_make_order_respects c ops ordered kw mo order ps ph :
  gen_sorted (final_state (new_sorter c) ops) = Sorted ordered ->
  gen_pl_make mo (Sorted ordered) kw = MkOk order ps ph ->
  (ps = flat_map (made kw) ordered /\ ph = ps) /\
  forall d, In d (decls_of c ops) ->
    (forall u, In u (opt_list (dafter d)) -> In u (dnames (decls_of c ops)) -> never_after ps u (dname d)) /\
    (forall o, In o (opt_list (dbefore d)) -> In o (dnames (decls_of c ops)) -> never_after ps (dname d) o).
Proof.
  rewrite gen_sorted_is_model, gen_pl_make_is_model. intros Es Em. split.
  - destruct (sorted_perm_ops c ops ordered Es) as (_ & Hnd). exact (make_creates mo ordered kw order ps ph Hnd Em).
  - exact (make_order_respects c ops ordered kw mo order ps ph Es Em).
Qed.

(* non-vacuity: b weighs more than a, a has two values (one of them not_), an unknown keyword is an error *)
Example ex_make :
  let ops := [OAdd (tx 98) 2 (HOne (tx 97)) HNone; OAdd (tx 97) 1 HNone HNone] in
  let o := sorted (final_state (new_sorter cfg_plain) ops) in
  gen_pl_make pl_max_order o [(tx 98, VOne (PV 5)); (tx 97, VSeq [PV 1; PNot 2])]
  = MkOk ((pl_max_order - 6) / 4)
         [Pred (tx 97) 1 (PV 1); NottedP (Pred (tx 97) 1 (PV 2)); Pred (tx 98) 2 (PV 5)]
         [Pred (tx 97) 1 (PV 1); NottedP (Pred (tx 97) 1 (PV 2)); Pred (tx 98) 2 (PV 5)]
  /\ gen_pl_make pl_max_order o [(tx 122, VOne (PV 1))] = MkUnknown [tx 122].
Proof. vm_compute. split; reflexivity. Qed.

(* =====================================================================
   tag 8 on the wire: what the runner answers for a make() case (the sorter's outcome, the first-occurrence order of the
   instrumented predicates make() created, computed by the REGENERATED program) is accepted by the evaluation-order judge
   (tag 7), whenever make() succeeds and every instrumented predicate got at least one value *)
Lemma pred_factory_mk n f v : pred_factory (mk_pred n f v) = f.
Proof. unfold mk_pred. destruct (pv_is_not v); reflexivity. Qed.

Definition live_pred (p : pred) : bool := negb (N.eqb (pred_factory p) 0).
Definition live_pair (nf : node * N) : bool := negb (N.eqb (snd nf) 0).

Lemma live_block kw n f :
  map pred_name (filter live_pred (made kw (n, f))) =
  if N.eqb f 0 then [] else repeat n (length (vals_of kw n)).
Proof.
  unfold made. cbn [fst snd]. induction (vals_of kw n) as [|v l IH]; cbn [map filter length repeat].
  - destruct (N.eqb f 0); reflexivity.
  - unfold live_pred at 1. rewrite pred_factory_mk. destruct (N.eqb f 0) eqn:E; cbn [negb].
    + exact IH.
    + cbn [map]. rewrite pred_name_mk, IH. reflexivity.
Qed.

Lemma filter_ne_repeat n m k : m <> n -> filter (fun y => negb (text_eqb y n)) (repeat m k) = repeat m k.
Proof.
  intros H. induction k as [|k IH]; cbn [repeat filter]; [reflexivity|].
  apply text_eqb_neq in H. rewrite H. cbn [negb]. rewrite IH. reflexivity.
Qed.

Lemma filter_idem {A} (p : A -> bool) l : filter p (filter p l) = filter p l.
Proof.
  induction l as [|y l IH]; cbn [filter]; [reflexivity|].
  destruct (p y) eqn:E; cbn [filter]; rewrite ?E, IH; reflexivity.
Qed.

Lemma dedupe_repeat_app n k rest :
  dedupe (repeat n (S k) ++ rest) = n :: filter (fun y => negb (text_eqb y n)) (dedupe rest).
Proof.
  induction k as [|k IH]; [reflexivity|].
  change (repeat n (S (S k)) ++ rest) with (n :: (repeat n (S k) ++ rest)). cbn [dedupe]. rewrite IH.
  cbn [filter]. rewrite text_eqb_refl. cbn [negb].
  f_equal. apply filter_idem.
Qed.

Lemma filter_id_notin n l : ~ In n l -> filter (fun y => negb (text_eqb y n)) l = l.
Proof.
  induction l as [|y l IH]; intros H; cbn [filter]; [reflexivity|].
  destruct (text_eqb_spec y n) as [->|Hne]; [exfalso; apply H; left; reflexivity|].
  cbn [negb]. rewrite IH; [reflexivity|]. intros Hi. apply H. right. exact Hi.
Qed.

Lemma make_eval_names kw : forall ordered,
  NoDup (map fst ordered) ->
  (forall n f, In (n, f) ordered -> f <> 0%N -> vals_of kw n <> []) ->
  dedupe (map pred_name (filter live_pred (flat_map (made kw) ordered))) = map fst (filter live_pair ordered).
Proof.
  induction ordered as [|[n f] o IH]; intros Hnd Hv; [reflexivity|].
  cbn [map fst] in Hnd. inversion Hnd as [|? ? Hnot Hnd']; subst.
  cbn [flat_map]. rewrite filter_app, map_app, live_block. cbn [filter]. unfold live_pair at 1. cbn [snd].
  assert (IH' := IH Hnd' (fun m g Hm => Hv m g (or_intror Hm))).
  destruct (N.eqb f 0) eqn:E; cbn [negb app].
  - exact IH'.
  - assert (Hf : f <> 0%N) by (apply N.eqb_neq; exact E).
    pose proof (Hv n f (or_introl eq_refl) Hf) as Hne.
    destruct (vals_of kw n) as [|v l]; [congruence|]. cbn [length].
    rewrite dedupe_repeat_app, IH'. cbn [map fst]. f_equal.
    apply filter_id_notin. intros Hin. apply Hnot.
    apply in_map_iff in Hin. destruct Hin as (x & Hx & Hxin). apply filter_In in Hxin.
    apply in_map_iff. exists x. tauto.
Qed.

Theorem wire_make_judged k adds kw :
  let s := preds_scenario k adds in
  (forall ordered, sorted s = Sorted ordered ->
     (exists order ps ph, gen_pl_make pl_max_order (Sorted ordered) kw = MkOk order ps ph) /\
     (forall n f, In (n, f) ordered -> f <> 0%N -> vals_of kw n <> [])) ->
  let '(o, ev, mk) := make_obs s kw in judge_preds k adds o ev = Some true.
Proof.
  intros s H. unfold make_obs. cbv zeta. unfold judge_preds.
  rewrite get_outcome_put by apply sorted_never_internal. cbn [obind].
  rewrite get_texts_vtexts. cbn [obind].
  pose proof (preds_scenario_judged k adds) as HJ. fold s in HJ. rewrite HJ. cbn [andb]. f_equal.
  destruct (sorted s) as [ordered|l|l|l|] eqn:Es; try reflexivity.
  destruct (H ordered eq_refl) as ((order & ps & ph & Hm) & Hv). rewrite Hm. cbn [make_eval_order].
  rewrite gen_pl_make_is_model in Hm.
  assert (Hnd : NoDup (map fst ordered)).
  { unfold s in Es. rewrite preds_scenario_ops in Es. apply (sorted_perm_ops _ _ _ Es). }
  destruct (make_creates _ _ _ _ _ _ Hnd Hm) as (-> & _).
  fold live_pred. rewrite (make_eval_names kw ordered Hnd Hv).
  unfold eval_order. fold live_pair. apply texts_eqb_refl.
Qed.

Example ex_wire_make :
  let adds := [(tx 112, 1%N, HNone, HNone); (tx 113, 2%N, HNone, HOne (tx 112))] in
  let kw := [(tx 112, VSeq [PV 1; PNot 2]); (tx 113, VOne (PV 3))] in
  (let '(o, ev, mk) := make_obs (preds_scenario PSubscriber adds) kw in
   ev = vtexts [tx 113; tx 112] /\ judge_preds PSubscriber adds o ev = Some true)
  /\ judge_preds PSubscriber adds (put_outcome (sorted (preds_scenario PSubscriber adds))) (vtexts [tx 112; tx 113]) = Some false.
Proof. vm_compute. repeat split; reflexivity. Qed.

(* the hypotheses of wire_make_judged are satisfiable *)
Example ex_wire_make_hyp :
  let adds := [(tx 112, 1%N, HNone, HNone); (tx 113, 2%N, HNone, HOne (tx 112))] in
  let kw := [(tx 112, VSeq [PV 1; PNot 2]); (tx 113, VOne (PV 3))] in
  forall ordered, sorted (preds_scenario PSubscriber adds) = Sorted ordered ->
     (exists order ps ph, gen_pl_make pl_max_order (Sorted ordered) kw = MkOk order ps ph) /\
     (forall n f, In (n, f) ordered -> f <> 0%N -> vals_of kw n <> []).
Proof.
  cbv zeta. intros ordered E. vm_compute in E. injection E as <-. split.
  - eexists. eexists. eexists. vm_compute. reflexivity.
  - intros n f Hin Hf. destruct Hin as [H|[H|[]]]; injection H as <- <-; vm_compute; discriminate.
Qed.
