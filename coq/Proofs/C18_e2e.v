(* C18 -- end-to-end compositions (proof-only round): (1) view derivers from the regenerated directive argument code through
   the sorter to the wrapped view; (2) tween histories in which only SOME statements take effect (one commit per look,
   statements inside config.include, a top-level statement overriding an included one of the same name): whatever the
   effective statements are, every look is judged for exactly them. *)
From Coq Require Import List NArith ZArith Bool Lia Permutation.
Import ListNotations.
Require Import Verif.Lib.Wire Verif.Model.C18_base Verif.Gen.Facts_C18 Verif.Model.C18.
Require Import Verif.Proofs.C18_kahn Verif.Proofs.C18_build Verif.Proofs.C18 Verif.Proofs.C18_rep Verif.Proofs.C18_derivers.
Require Import Verif.Proofs.C18_gen Verif.Proofs.C18_wire Verif.Proofs.C18_args.

(* ---------- (1) add_view_deriver calls -> derivers.add -> sorted() -> _apply_view_derivers, all regenerated *)
Theorem derivers_end_to_end adds h :
  gen_apply_view_derivers (fst (fold_left gen_deriver_step adds (default_derivers, []))) Base = inr h ->
  exists ds,
    gen_sorted (fst (fold_left gen_deriver_step adds (default_derivers, []))) = Sorted ds /\
    judge cfg_derivers (decls_of cfg_derivers (deriver_ops adds)) (Sorted ds) = true /\
    mapped_innermost (map fst ds) = true /\
    let all := map (fun n => (n, 0%N)) dv_outer ++ ds in
    h = wrap_right all Base /\
    trace h = map (fun nf => Enter (fst nf)) all ++ [Call] ++ map (fun nf => Exit (fst nf)) (rev all).
Proof.
  intros H. destruct (gen_derivers_nesting _ _ H) as (ds & Hs & Hh).
  destruct (gen_derivers_scenario_judged adds) as (HJ & HM). cbv zeta in HJ, HM.
  rewrite gen_sorted_is_model in Hs. exists ds. rewrite gen_sorted_is_model.
  split; [exact Hs|]. split; [rewrite <- Hs; exact HJ|]. split; [apply HM; exact Hs|exact Hh].
Qed.

Example derivers_end_to_end_nonvacuous :
  exists h, gen_apply_view_derivers
              (fst (fold_left gen_deriver_step [(tx 100, 1%N, HOne t_secured_view, HMany [dv_view])] (default_derivers, []))) Base
            = inr h.
Proof. eexists. vm_compute. reflexivity. Qed.

(* ---------- (2) batches: which add_tween statements take effect *)
Inductive bevent := BAdd (x : node * N * hint * hint) (included : bool) | BLook (request : bool).

Definition bname (x : node * N * hint * hint) : node := let '(n, _, _, _) := x in n.
Definition top_names (b : list bevent) : list node :=
  flat_map (fun e => match e with BAdd x false => [bname x] | _ => [] end) b.
(* the statements of one batch that take effect: every top-level statement, and an included statement unless a
   top-level statement of the same name stands in the same batch *)
Definition flush (b : list bevent) : list tevent :=
  flat_map (fun e => match e with
                     | BAdd x i => if i && mem_text (bname x) (top_names b) then [] else [TAdd x]
                     | BLook _ => []
                     end) b.
Fixpoint effective (cur : list bevent) (l : list bevent) : list tevent :=      (* cur: the open batch, newest first *)
  match l with
  | [] => flush (rev cur)
  | BLook r :: t => flush (rev cur) ++ (if r then TRequest else TImplicit) :: effective [] t
  | BAdd x i :: t => effective (BAdd x i :: cur) t
  end.

Lemma In_top_names n b : In n (top_names b) <-> exists x, In (BAdd x false) b /\ bname x = n.
Proof.
  unfold top_names. rewrite in_flat_map. split.
  - intros (e & He & Hn). destruct e as [x i|r]; [destruct i|]; cbn [In] in Hn; try contradiction.
    destruct Hn as [<-|[]]. eauto.
  - intros (x & Hx & <-). exists (BAdd x false). split; [exact Hx|left; reflexivity].
Qed.

(* the rule, declaratively *)
Theorem flush_spec b x :
  In (TAdd x) (flush b) <->
  exists i, In (BAdd x i) b /\ (i = false \/ ~ exists y, In (BAdd y false) b /\ bname y = bname x).
Proof.
  unfold flush. rewrite in_flat_map. split.
  - intros (e & He & Hx). destruct e as [y i|r]; [|destruct Hx].
    destruct (i && mem_text (bname y) (top_names b)) eqn:E; [destruct Hx|].
    destruct Hx as [Hx|[]]. injection Hx as ->. exists i. split; [exact He|].
    destruct i; [right|left; reflexivity]. cbn [andb] in E. apply mem_text_false in E.
    intros Hy. apply E. apply In_top_names. exact Hy.
  - intros (i & Hi & Hc). exists (BAdd x i). split; [exact Hi|].
    destruct i; cbn [andb]; [|left; reflexivity].
    destruct Hc as [Hc|Hc]; [discriminate|].
    destruct (mem_text (bname x) (top_names b)) eqn:E; [|left; reflexivity].
    exfalso. apply Hc. apply In_top_names. apply mem_text_In. exact E.
Qed.

(* whatever statements take effect, every look of the history (implicit() or a request with its handler chain) is
   accepted for exactly the effective declarations: the ordering theorems apply to the effective history *)
Theorem batch_history_judged ex l :
  judge_history ex tweens_init_decls (effective [] l) (tweens_history (tweens_init ex) (effective [] l))
  = map (fun _ => vbool true) (effective [] l).
Proof. apply wire_history_judged. Qed.

(* the same for ANY selection of the statements (an abstract "takes effect" predicate) *)
Theorem selected_history_judged ex (takes_effect : tevent -> bool) evs :
  judge_history ex tweens_init_decls (filter takes_effect evs) (tweens_history (tweens_init ex) (filter takes_effect evs))
  = map (fun _ => vbool true) (filter takes_effect evs).
Proof. apply wire_history_judged. Qed.

(* non-vacuity: the included t1 (under t0) is overridden by the top-level t1 (over t0): the request enters t1 first *)
Example batch_override :
  let t0 := (tx 97, 1%N, HNone, HNone) in
  let inc := (tx 98, 2%N, HOne (tx 97), HNone) in
  let top := (tx 98, 3%N, HNone, HOne (tx 97)) in
  effective [] [BAdd t0 false; BAdd inc true; BAdd top false; BLook true] = [TAdd t0; TAdd top; TRequest] /\
  effective [] [BAdd t0 false; BAdd inc true; BLook true] = [TAdd t0; TAdd inc; TRequest].
Proof. vm_compute. split; reflexivity. Qed.
