(* C04 proofs, part 8: deferred discriminators are forced exactly when their phase is reached. *)
From Coq Require Import List NArith ZArith Bool Lia Permutation Sorted.
Import ListNotations.
Require Import Verif.Lib.Wire Verif.Lib.C04Sort Verif.Gen.Facts_C04 Verif.Model.C04.
Require Import Verif.Proofs.C04_flat Verif.Proofs.C04_decide Verif.Proofs.C04_safe Verif.Proofs.C04_groups Verif.Proofs.C04_mono.

Definition dfr (x : ainfo) : bool := is_deferred (adisc (snd x)).
Definition forces (l : list ainfo) : list event := map (fun x => Force (aidx x)) (filter dfr l).
Definition reached (k : Z) (l : list ainfo) : list ainfo := filter (fun x => Z.leb (okey x) k) l.

Lemma force_events_forces' grp : force_events grp = forces grp.
Proof. reflexivity. Qed.

Lemma forces_app a b : forces (a ++ b) = forces a ++ forces b.
Proof. unfold forces. rewrite filter_app, map_app. reflexivity. Qed.

Lemma reached_all k l : Forall (fun x => (okey x <= k)%Z) l -> reached k l = l.
Proof.
  unfold reached. induction 1 as [|x r Hx _ IH]; simpl; [reflexivity|].
  destruct (Z.leb_spec (okey x) k); [rewrite IH; reflexivity|lia].
Qed.
Lemma reached_none k l : Forall (fun x => (k < okey x)%Z) l -> reached k l = [].
Proof.
  unfold reached. induction 1 as [|x r Hx _ IH]; simpl; [reflexivity|].
  destruct (Z.leb_spec (okey x) k); [lia|exact IH].
Qed.

Lemma groups_above k (gs : list (Z * list ainfo)) :
  Forall (fun k' => (k < k')%Z) (map fst gs) ->
  Forall (fun kg => Forall (fun x => okey x = fst kg) (snd kg)) gs ->
  Forall (fun x => (k < okey x)%Z) (concat (map snd gs)).
Proof.
  induction gs as [|[k' g] r IH]; intros H1 H2; simpl; [constructor|].
  inversion H1; subst. inversion H2 as [|? ? Hg Hr]; subst. simpl in *. apply Forall_app. split; [|apply IH; assumption].
  eapply Forall_impl; [|exact Hg]. simpl. intros x ->. assumption.
Qed.

(* the generator runs from the top of the group loop to its next yield *)
Lemma next_group_forced cfg : forall gs st evs a st2 g2 e,
  StronglySorted Z.lt (map fst gs) ->
  Forall (fun kg => Forall (fun x => okey x = fst kg) (snd kg)) gs ->
  next_group cfg st gs evs = SYield a st2 g2 e ->
  In (ordkey a) (map fst gs) /\
  e = evs ++ forces (reached (ordkey a) (concat (map snd gs))).
Proof.
  induction gs as [|[k grp] gs IH]; intros st evs a st2 g2 e S1 S2 H; [discriminate|].
  cbn [next_group] in H. destruct (late (min_order st) k); [discriminate|].
  simpl in S1. inversion S1 as [|? ? S1' Hlt]; subst. inversion S2 as [|? ? Hk S2']; subst. simpl in Hk.
  assert (HP : Forall (fun y => okey y = k) (forced_group grp)).
  { unfold forced_group. rewrite Forall_forall in *. intros y Hy. apply in_map_iff in Hy. destruct Hy as [z [<- Hz]]. apply (Hk z Hz). }
  pose proof (group_output_all _ cfg (resolved st) grp HP) as Hout. unfold group_output in Hout.
  destruct (detect cfg (resolved st) (sort_unique_lists (build_unique (forced_group grp)))) as [firsts K]. cbn [fst] in Hout.
  destruct K; [|discriminate].
  match type of H with context [match ?X with Some _ => _ | None => _ end] => destruct X as [rem2|]; [|discriminate] end.
  simpl map. simpl concat.
  destruct (sort (leb_by output_key) (none_output (forced_group grp) ++ firsts)) as [|x rest].
  - apply IH in H; [|assumption|assumption]. destruct H as [Hin ->]. split; [right; exact Hin|].
    rewrite Forall_forall in Hlt. specialize (Hlt _ Hin).
    unfold reached at 2. rewrite filter_app. fold (reached (ordkey a) grp). fold (reached (ordkey a) (concat (map snd gs))).
    rewrite (reached_all (ordkey a) grp) by (eapply Forall_impl; [|exact Hk]; simpl; intros; lia).
    rewrite forces_app, force_events_forces', app_assoc. reflexivity.
  - unfold yield_first in H. destruct (remove_aid (aid (snd x)) _); [|discriminate]. inversion H; subst.
    rewrite Forall_forall in Hout. pose proof (Hout x (or_introl eq_refl)) as Hx. unfold okey in Hx.
    split; [left; symmetry; exact Hx|]. rewrite Hx.
    unfold reached. rewrite filter_app. fold (reached k grp). fold (reached k (concat (map snd gs))).
    rewrite (reached_all k grp) by (eapply Forall_impl; [|exact Hk]; simpl; intros; lia).
    rewrite (reached_none k (concat (map snd gs))) by (apply groups_above; assumption).
    rewrite app_nil_r. reflexivity.
Qed.

(* DEFERRED DISCRIMINATORS ARE FORCED EXACTLY WHEN THEIR PHASE IS REACHED: the step of the generator that hands
   out the next action [a] forces precisely the still-deferred discriminators of the pending actions whose phase
   is <= the phase of [a] (none when [a] continues the phase in progress), in declaration order per phase,
   phases increasing; pending actions of later phases stay deferred. *)
Theorem deferred_when_reached cfg st g a st2 g2 e :
  GI st g -> gen_next cfg st g = SYield a st2 g2 e ->
  e = forces (reached (ordkey a) (concat (map snd (g_groups g)))).
Proof.
  intros HG H. unfold gen_next in H. destruct g as [out gs]. cbn [g_out g_groups] in *. destruct out as [|x rest].
  - destruct HG as [g1 g2' _ _ _]. cbn [g_groups] in *. apply next_group_forced in H; [|assumption|assumption]. tauto.
  - destruct HG as [g1 g2' g3 _ _]. cbn [g_out g_groups] in *.
    unfold yield_first in H. destruct (remove_aid (aid (snd x)) (remaining st)); [|discriminate]. inversion H; subst.
    destruct (g3 x (or_introl eq_refl)) as [_ Hk].
    rewrite reached_none; [reflexivity|]. apply groups_above; [|exact g2'].
    rewrite Forall_forall. intros k' Hk'. apply Hk. exact Hk'.
Qed.

(* once forced, a discriminator is no longer deferred in remaining_actions, so it is never forced again *)
Lemma mark_forced_undeferred id l b :
  In b (mark_forced id l) -> aid b = id -> is_deferred (adisc b) = false.
Proof.
  unfold mark_forced. intros H E. apply in_map_iff in H. destruct H as [b0 [Hb _]].
  destruct (N.eqb (aid b0) id) eqn:E0.
  - subst b. reflexivity.
  - subst b. apply N.eqb_neq in E0. contradiction.
Qed.

(* the same, read on the state: right after (re-)declaring actions, what the next step forces is read off
   remaining_actions -- the deferred ones whose phase is <= the phase of the action handed out next *)
Theorem deferred_when_reached_restart cfg st new a st2 g2 e :
  Forall Pact (remaining st) -> Forall Pact new ->
  gen_next cfg (fst (restart st new)) (snd (restart st new)) = SYield a st2 g2 e ->
  e = forces (reached (ordkey a)
                (sort (leb_by orderandpos_key) (enumerate (start st) (remaining st ++ new)))).
Proof.
  intros HR HN H. destruct (restart_GI st new HR HN) as [HG _].
  rewrite (deferred_when_reached cfg _ _ a st2 g2 e HG H). unfold restart. cbn [snd g_groups].
  rewrite groupby_concat. reflexivity.
Qed.
