(* C02 -- the program REGENERATED from src/pyramid/traversal.py on this run
   (Gen/Facts_C02.v: gen_split_path_info, gen_decode_path_info,
   gen_traversal_path_info, gen_call_tail) equals the hand-written reference
   model (Lib/PathNorm.split_path_info, Model/C02.v), for all inputs; the
   property theorems of Proofs/C02.v are then restated about the regenerated
   program.

   The proof scripts never mention the text of the generated terms: they take
   the loop apart by pattern, do one induction, case-split on the ATOMS of the
   primitive table (comparisons of the segment with literals, emptiness of the
   stack, the selector test, has_getitem / child, the index test) and ask that
   both sides then compute to the same result or to the induction hypothesis.
   Hence they are insensitive to the names of the source's locals, to the
   nesting and order of its tests, to [i += 1] vs [i = i + 1], to the order of
   independent statements and to the order in which a loop carries its
   variables; they fail as soon as some valuation of the atoms leads the
   regenerated program to another result than the model. *)
From Coq Require Import List NArith ZArith Bool Lia.
Import ListNotations.
Require Import Verif.Lib.Wire Verif.Lib.Text Verif.Lib.PathNorm Verif.Lib.C02PathNorm Verif.Lib.Utf8
               Verif.Lib.C02Expr Verif.Gen.Facts_C02 Verif.Model.C02 Verif.Proofs.C02 Verif.Proofs.C02_memo.
Close Scope N_scope.

(* ------------------------------------------------------------ split_path_info *)
Lemma spi_step_atoms acc s :
  spi_step acc s =
  if text_eqb s [] then acc
  else if text_eqb s [46%N] then acc
  else if text_eqb s [46%N; 46%N] then tl acc
  else s :: acc.
Proof. destruct s as [|a s]; reflexivity. Qed.

Lemma rev_drop_last {A} (c : list A) : rev (drop_last c) = tl (rev c).
Proof.
  unfold drop_last. destruct c as [|x c] using rev_ind; [reflexivity|].
  rewrite removelast_last, rev_unit. reflexivity.
Qed.

Lemma rev_snoc {A} (c : list A) x : rev (snoc c x) = x :: rev c.
Proof. unfold snoc. apply rev_unit. Qed.

Lemma is_nil_true {A} (c : list A) : is_nil c = true -> c = [].
Proof. destruct c; [reflexivity|discriminate]. Qed.

(* compare the segment with each literal of the goal; on equality substitute the literal,
   which decides the remaining comparisons by computation *)
Ltac split_text_atoms s :=
  repeat match goal with
         | |- context [text_eqb s ?lit] =>
             let E := fresh "E" in
             destruct (text_eqb s lit) eqn:E;
             [ apply text_eqb_eq in E; subst s; cbn [text_eqb N.eqb Pos.eqb andb] | ]
         end.

Theorem gen_split_path_info_is_model p : gen_split_path_info p = split_path_info p.
Proof.
  unfold gen_split_path_info, split_path_info.
  match goal with
  | |- ?F ?L [] = _ => enough (H : forall l c, F l c = rev (resolve (rev c) l)) by apply H
  end.
  induction l as [|s l IH]; intros c; [simpl; symmetry; apply rev_involutive|].
  cbv beta match fix. rewrite resolve_cons, spi_step_atoms.
  split_text_atoms s;
    repeat match goal with
           | |- context [is_nil ?x] =>
               let E := fresh "E" in destruct (is_nil x) eqn:E; [apply is_nil_true in E; subst x|]
           end;
    rewrite IH; rewrite ?rev_drop_last, ?rev_snoc; reflexivity.
Qed.

(* ------------------------------------------------------------ decode_path_info, traversal_path_info *)
Theorem gen_decode_path_info_is_model p : gen_decode_path_info p = decode_path_info p.
Proof.
  unfold gen_decode_path_info, decode_path_info, latin1_encode_r, utf8_decode_r, rbind.
  destruct (forallb (fun c => N.ltb c 256) p); [destruct (Utf8.decode p)|]; reflexivity.
Qed.

Theorem gen_traversal_path_info_is_model p : gen_traversal_path_info p = traversal_path_info p.
Proof.
  unfold gen_traversal_path_info, traversal_path_info.
  rewrite ?gen_decode_path_info_is_model.
  destruct (decode_path_info p) as [d|[]|]; cbn [as_url_decode_error rbind];
    rewrite ?gen_split_path_info_is_model; reflexivity.
Qed.

(* ------------------------------------------------------------ traversal_path (str argument) *)
Theorem gen_traversal_path_is_model p : gen_traversal_path p = traversal_path p.
Proof.
  unfold gen_traversal_path, traversal_path, ascii_encode_r, is_ascii, unquote_to_wsgi.
  destruct (forallb (fun c => N.ltb c 128) p); rewrite ?gen_traversal_path_info_is_model;
    try (destruct (traversal_path_info (Percent.unquote p)) as [?|?|]); reflexivity.
Qed.

Theorem gen_traversal_path_normal p l : gen_traversal_path p = Ok l -> Forall normal_seg l.
Proof.
  rewrite gen_traversal_path_is_model. unfold traversal_path.
  destruct (is_ascii p); [apply tpi_normal|discriminate].
Qed.

(* ------------------------------------------------------------ the tail of __call__ *)
Lemma loop_cons vp sub vt vidx root ob vroot i seg rest :
  loop vp sub vt vidx root ob vroot i (seg :: rest) =
  if is_selector seg then render (mk_env vp sub vt vidx root i seg ob vroot) ret_selector
  else match getitem (snd ob) seg with
       | NoGetitem => render (mk_env vp sub vt vidx root i seg ob vroot) ret_noitem
       | NoKey => render (mk_env vp sub vt vidx root i seg ob vroot) ret_keyerror
       | Found k c =>
           loop vp sub vt vidx root (fst ob ++ [k], c)
                (if Z.eqb (Z.of_nat i) vidx then (fst ob ++ [k], c) else vroot) (S i) rest
       end.
Proof. reflexivity. Qed.

(* the orders in which the loop may carry (ob, i, vroot) *)
Definition shA {X} (f : rnode -> Z -> rnode -> X) (ob : rnode) (i : Z) (vr : rnode) := f ob i vr.
Definition shB {X} (f : rnode -> Z -> rnode -> X) (ob : rnode) (i : Z) (vr : rnode) := f vr i ob.
Definition shC {X} (f : rnode -> rnode -> Z -> X) (ob : rnode) (i : Z) (vr : rnode) := f ob vr i.
Definition shD {X} (f : rnode -> rnode -> Z -> X) (ob : rnode) (i : Z) (vr : rnode) := f vr ob i.
Definition shE {X} (f : Z -> rnode -> rnode -> X) (ob : rnode) (i : Z) (vr : rnode) := f i ob vr.
Definition shF {X} (f : Z -> rnode -> rnode -> X) (ob : rnode) (i : Z) (vr : rnode) := f i vr ob.

Ltac tail_loop sh F L sub vt vidx root :=
  solve [
    let H := fresh "H" in
    enough (H : forall l ob vr n, sh _ (F l) ob (Z.of_nat n) vr = loop L sub vt vidx root ob vr n l)
      by (unfold sh in H; apply (H L root root 0%nat));
    unfold sh;
    let l := fresh "l" in let s := fresh "s" in let IH := fresh "IH" in
    induction l as [|s l IH]; intros ob vr n;
    [ reflexivity
    | cbv beta match fix; rewrite loop_cons; unfold is_selector, selector_len;
      rewrite ?(Z.eqb_sym vidx);
      match goal with
      | |- context [text_eqb ?a view_selector] => destruct (text_eqb a view_selector)
      end;
      [ reflexivity
      | destruct ob as [pp [[kids|]]];
        [ unfold has_getitem, child, getitem; cbn [snd fst];
          destruct (assoc_idx s kids 0) as [[k c]|];
          [ replace (Z.add (Z.of_nat n) 1%Z) with (Z.of_nat (S n)) by lia;
            destruct (Z.eqb (Z.of_nat n) vidx); cbv beta match; apply IH
          | reflexivity ]
        | reflexivity ] ] ] ].

Theorem gen_call_tail_is_model vpath path sub vt vidx root :
  gen_call_tail vpath path sub vt vidx root = call_tail vpath_tuple_mode vpath path sub vt vidx root.
Proof.
  unfold gen_call_tail, call_tail, slash_text, slash.
  rewrite ?gen_split_path_info_is_model.
  match goal with |- context [text_eqb vpath ?k] => destruct (text_eqb vpath k) end.
  - reflexivity.
  - unfold vpath_tuple_mode. cbv iota.
    match goal with |- _ = loop ?L _ _ _ _ _ _ _ _ => generalize L end.
    intros L.
    match goal with
    | |- ?F L ?a ?b ?c = _ =>
        first [ tail_loop @shA F L sub vt vidx root | tail_loop @shB F L sub vt vidx root
              | tail_loop @shC F L sub vt vidx root | tail_loop @shD F L sub vt vidx root
              | tail_loop @shE F L sub vt vidx root | tail_loop @shF F L sub vt vidx root ]
    end.
Qed.

(* ------------------------------------------------------------ the traverser over the regenerated program *)
(* ResourceTreeTraverser.__call__ = hand-modelled, shape-pinned preamble (path_and_subpath, vroot_part)
   followed by the REGENERATED tail *)
Definition gen_traverser_call (root : rnode) (q : request) : result tdict :=
  rlet ps := path_and_subpath q in
  let '(path, subpath) := ps in
  rlet vr := vroot_part q path in
  let '(vroot_tuple, vpath, vroot_idx) := vr in
  Ok (gen_call_tail vpath path subpath vroot_tuple vroot_idx root).

Theorem gen_traverser_call_is_model root q : gen_traverser_call root q = traverser_call root q.
Proof.
  unfold gen_traverser_call, traverser_call, traverser_call_mode.
  destruct (path_and_subpath q) as [[path sub]| |]; cbn [rbind]; try reflexivity.
  destruct (vroot_part q path) as [[[vt vpath] vidx]| |]; cbn [rbind]; try reflexivity.
  rewrite gen_call_tail_is_model. unfold call_tail.
  destruct (text_eqb vpath slash_text); reflexivity.
Qed.

(* ---- the property theorems, about the regenerated program *)
Theorem gen_traverser_resolves root q d :
  gen_traverser_call root q = Ok d ->
  exists path sub vt ctx consumed rest,
    path_and_subpath q = Ok (path, sub) /\ vroot_tuple_of q = Ok vt /\
    walk_outcome root (vt ++ gen_split_path_info path) ctx consumed rest /\
    t_context d = fst ctx /\
    t_view_name d = view_name_of rest /\
    t_subpath d = subpath_of sub rest /\
    t_traversed d = consumed ++ firstn (length vt) rest /\
    t_virtual_root_path d = vt /\ t_root d = fst root /\
    ((length vt <= length consumed /\
        exists v c', descend root vt = Some v /\ t_virtual_root d = fst v /\ consumed = vt ++ c' /\
                     descend v c' = Some ctx /\ exists suffix, t_context d = fst v ++ suffix)
     \/ (length consumed < length vt /\ t_virtual_root d = fst root /\
         exists more, more <> [] /\ vt = consumed ++ more)).
Proof.
  rewrite gen_traverser_call_is_model. intros H.
  destruct (traverser_resolves root q d H) as (path & sub & vt & ctx & c & r & Hx).
  exists path, sub, vt, ctx, c, r. rewrite gen_split_path_info_is_model. exact Hx.
Qed.

Theorem gen_traversed_partial root q :
  q_vroot q = None -> gen_traverser_call root q = spec_traverser root q.
Proof. rewrite gen_traverser_call_is_model. apply traverser_no_vroot_meets_spec. Qed.

Theorem gen_traversed_refuted :
  exists d s, gen_traverser_call ([], wit_tree) wit_traversed = Ok d /\
              spec_traverser ([], wit_tree) wit_traversed = Ok s /\
              t_traversed s = [ta] /\ t_traversed d = [ta; tx] /\ d <> s.
Proof.
  destruct traversed_refuted as (d & s & H). exists d, s. rewrite gen_traverser_call_is_model. exact H.
Qed.

Theorem gen_split_normal p : Forall normal_seg (gen_split_path_info p).
Proof. rewrite gen_split_path_info_is_model. apply spi_normal. Qed.

Theorem gen_split_never_above_root k p :
  gen_split_path_info (updirs k (slash :: p)) = gen_split_path_info (slash :: p).
Proof. rewrite !gen_split_path_info_is_model. apply spi_updirs. Qed.

Theorem gen_split_idempotent p :
  gen_split_path_info (join [slash] (gen_split_path_info p)) = gen_split_path_info p.
Proof. rewrite !gen_split_path_info_is_model. apply spi_idempotent. Qed.

Theorem gen_traversal_path_info_normal p l :
  gen_traversal_path_info p = Ok l -> Forall normal_seg l.
Proof. rewrite gen_traversal_path_info_is_model. apply tpi_normal. Qed.

Theorem gen_dotdot_at_root root p md vr :
  gen_traverser_call root (mkReq (Some (slash :: dot :: dot :: slash :: p)) md vr)
  = gen_traverser_call root (mkReq (Some (slash :: p)) md vr).
Proof. rewrite !gen_traverser_call_is_model. apply traverser_dotdot_at_root. Qed.

(* non-vacuity, computed by the regenerated program itself *)
Example c02_gen_nonvacuous :
  gen_split_path_info [47; 97; 47; 46; 46; 47; 46; 46; 47; 98; 47; 47; 46; 47; 99; 47]%N = [tb; [99%N]] /\
  gen_traversal_path_info [47; 195; 169]%N = Ok [[233%N]] /\
  gen_traversal_path_info [47; 255]%N = Exc URLDecodeError /\
  gen_traverser_call ([], wit_tree) (mkReq (Some [47; 97; 47; 98; 47; 122; 122; 47; 116]%N) None None)
  = Ok (mkT [0; 0] [122; 122]%N [[116%N]] [ta; tb] [] [] []).
Proof. vm_compute. repeat split. Qed.

(* ------------------------------------------------------------ the preamble of __call__ *)
(* webob's BaseRequest.path_info decodes like decode_path_info (latin-1 bytes read as UTF-8) *)
Lemma webob_path_info_is_decode p : webob_path_info p = decode_path_info p.
Proof.
  unfold webob_path_info, decode_path_info, latin1_encode_r, utf8_decode_r, rbind.
  destruct (forallb (fun c => N.ltb c 256) p); [destruct (Utf8.decode p)|]; reflexivity.
Qed.

(* take the request apart: every variable a match inspects, then the results of the two decoders *)
Ltac pre_vars :=
  repeat match goal with
         | |- context [match ?x with _ => _ end] => is_var x; destruct x
         | |- context [mval_falsy ?v] => is_var v; destruct v as [[|? ?]|[|? ?]]
         | |- context [mval_falsy (MStr ?v)] => is_var v; destruct v
         | |- context [mval_falsy (MTuple ?v)] => is_var v; destruct v
         end.
Ltac pre_leaf :=
  cbn -[gen_split_path_info gen_decode_path_info split_path_info decode_path_info webob_path_info
        Z.sub Z.add Z.of_nat join];
  rewrite ?webob_path_info_is_decode, ?gen_decode_path_info_is_model, ?gen_split_path_info_is_model;
  try reflexivity.

Theorem gen_call_preamble_is_model q : gen_call_preamble q = call_preamble q.
Proof.
  destruct q as [pi md vr].
  unfold gen_call_preamble, call_preamble, path_and_subpath, vroot_part, md_get, omval_or, as_url_decode_error,
         vroot_idx_off, vroot_idx_absent, slash_text, slash.
  cbn [q_path_info q_matchdict q_vroot].
  destruct md as [[tr sp]|]; cbn [md_traverse md_subpath].
  - destruct tr as [[[|c t]|[|x l]]|]; destruct sp as [[[|c' s]|[|x' l']]|]; destruct vr as [raw|]; pre_leaf;
      try (destruct (decode_path_info raw) as [d|[]|]; pre_leaf).
  - destruct pi as [raw0|]; destruct vr as [raw|]; pre_leaf;
      try (destruct (decode_path_info raw0) as [[|c0 d0]|[]|]; pre_leaf);
      try (destruct (decode_path_info raw) as [d|[]|]; pre_leaf).
Qed.

(* the whole of ResourceTreeTraverser.__call__, regenerated: preamble ; tail *)
Theorem gen_call_is_model root q : gen_call root q = traverser_call root q.
Proof.
  unfold gen_call. rewrite gen_call_preamble_is_model.
  rewrite <- gen_traverser_call_is_model. unfold gen_traverser_call, call_preamble.
  destruct (path_and_subpath q) as [[path sub]| |]; cbn [rbind]; try reflexivity.
  destruct (vroot_part q path) as [[[vt vpath] vidx]| |]; cbn [rbind]; reflexivity.
Qed.

(* ------------------------------------------------------------ find_root *)
Theorem gen_find_root_c02_is_model tree x : gen_find_root_c02 tree x = find_root_walk tree x.
Proof.
  unfold gen_find_root_c02, find_root_walk.
  match goal with
  | |- ?F (lineage_of tree x) x = _ => enough (H : forall l c, F l c = first_parentless l c) by apply H
  end.
  induction l as [|y l IH]; intros c; [reflexivity|].
  cbv beta match fix. cbn [first_parentless].
  destruct (parent_is_none y); [reflexivity|apply IH].
Qed.

(* every member of the lineage below the root has a parent; the last member is the root *)
Lemma first_parentless_prefixes tree p ks dflt :
  p <> [] -> Forall (fun k => k <> 0) ks ->
  first_parentless
    (flat_map (fun k => match node_at tree (firstn k p) with Some n => [(firstn k p, n)] | None => [] end) ks
     ++ [([], tree)]) dflt = ([], tree).
Proof.
  intros Hp. induction ks as [|k ks IH]; intros H; [reflexivity|].
  inversion H as [|? ? Hk Hks]; subst. cbn [flat_map].
  destruct k as [|k]; [congruence|]. destruct p as [|i r]; [congruence|].
  cbn [firstn]. destruct (node_at tree (i :: firstn k r)) as [n|]; cbn [app]; [|apply IH; exact Hks].
  cbn [first_parentless]. unfold parent_is_none at 1. cbn [fst is_nil]. apply IH; exact Hks.
Qed.

(* find_root(resource) is the root of the tree the resource lives in, whatever the resource *)
Theorem find_root_walk_is_root tree p n :
  node_at tree p = Some n -> find_root_walk tree (p, n) = ([], tree).
Proof.
  intros H. unfold find_root_walk, lineage_of. cbn [fst].
  destruct p as [|i r].
  - cbn in H. inversion H; subst. reflexivity.
  - cbn [first_parentless]. unfold parent_is_none at 1. cbn [fst is_nil length seq rev].
    rewrite flat_map_app. cbn [flat_map firstn node_at app].
    apply first_parentless_prefixes; [discriminate|].
    apply Forall_rev, Forall_forall. intros k Hk. apply in_seq in Hk. lia.
Qed.

Theorem gen_find_root_c02_is_root tree p n :
  node_at tree p = Some n -> gen_find_root_c02 tree (p, n) = ([], tree).
Proof. rewrite gen_find_root_c02_is_model. apply find_root_walk_is_root. Qed.

(* the resource traverse() hands to the traverser for an absolute path is what find_root computes *)
Theorem traverse_absolute_uses_find_root T root start n path :
  node_at root start = Some n -> is_ascii (slash :: path) = true ->
  traverse_with T root start (PStr (slash :: path)) =
  if has_scheme (slash :: path) then Unsupported
  else T (gen_find_root_c02 root (start, n))
         (mkReq (Some (webob_unquote (hd [] (split_on question (slash :: path))))) None None).
Proof.
  intros Hn Ha. rewrite (gen_find_root_c02_is_root _ _ _ Hn).
  unfold traverse_with. cbn [rbind]. rewrite Ha. cbn [negb]. unfold slash at 2. cbn [N.eqb Pos.eqb rbind].
  reflexivity.
Qed.

(* ---- the property theorems about the WHOLE regenerated __call__ *)
Theorem gen_call_resolves root q d :
  gen_call root q = Ok d ->
  exists path sub vt ctx consumed rest,
    path_and_subpath q = Ok (path, sub) /\ vroot_tuple_of q = Ok vt /\
    walk_outcome root (vt ++ gen_split_path_info path) ctx consumed rest /\
    t_context d = fst ctx /\
    t_view_name d = view_name_of rest /\
    t_subpath d = subpath_of sub rest /\
    t_traversed d = consumed ++ firstn (length vt) rest /\
    t_virtual_root_path d = vt /\ t_root d = fst root /\
    ((length vt <= length consumed /\
        exists v c', descend root vt = Some v /\ t_virtual_root d = fst v /\ consumed = vt ++ c' /\
                     descend v c' = Some ctx /\ exists suffix, t_context d = fst v ++ suffix)
     \/ (length consumed < length vt /\ t_virtual_root d = fst root /\
         exists more, more <> [] /\ vt = consumed ++ more)).
Proof. rewrite gen_call_is_model, <- gen_traverser_call_is_model. apply gen_traverser_resolves. Qed.

Theorem gen_call_traversed_partial root q :
  q_vroot q = None -> gen_call root q = spec_traverser root q.
Proof. rewrite gen_call_is_model. apply traverser_no_vroot_meets_spec. Qed.

(* the preamble never looks at PATH_INFO when a route matched, and at the match dictionary otherwise *)
Theorem gen_call_preamble_matchdict_wins pi pi' md vr :
  gen_call_preamble (mkReq pi (Some md) vr) = gen_call_preamble (mkReq pi' (Some md) vr).
Proof. rewrite !gen_call_preamble_is_model. reflexivity. Qed.

Lemma decode_path_info_exn raw e : decode_path_info raw = Exc e -> e <> URLDecodeError.
Proof.
  unfold decode_path_info. destruct (forallb _ raw); [destruct (Utf8.decode raw)|]; intros H; inversion H; discriminate.
Qed.

Lemma traverser_call_exc root q e :
  traverser_call root q = Exc e ->
  path_and_subpath q = Exc e \/ exists path sub, path_and_subpath q = Ok (path, sub) /\ vroot_part q path = Exc e.
Proof.
  unfold traverser_call, traverser_call_mode.
  destruct (path_and_subpath q) as [[path sub]|ex|]; cbn [rbind].
  - destruct (vroot_part q path) as [[[vt vp] vi]|ex|] eqn:E; cbn [rbind].
    + destruct (text_eqb vp slash_text); discriminate.
    + intros H; inversion H; subst. right. exists path, sub. split; [reflexivity|exact E].
    + discriminate.
  - intros H; inversion H; subst. left. reflexivity.
  - discriminate.
Qed.

Lemma path_and_subpath_exc q e :
  path_and_subpath q = Exc e ->
  q_matchdict q = None /\ exists raw, q_path_info q = Some raw /\ as_url_decode_error (decode_path_info raw) = Exc e.
Proof.
  unfold path_and_subpath. destruct (q_matchdict q) as [md|]; [discriminate|].
  destruct (q_path_info q) as [raw|]; [|discriminate].
  destruct (as_url_decode_error (decode_path_info raw)) as [d|ex|] eqn:E; cbn [rbind]; try discriminate.
  intros H; inversion H; subst. split; [reflexivity|]. exists raw. split; [reflexivity|exact E].
Qed.

Lemma vroot_part_exc q path e :
  vroot_part q path = Exc e -> exists raw, q_vroot q = Some raw /\ decode_path_info raw = Exc e.
Proof.
  unfold vroot_part. destruct (q_vroot q) as [raw|]; [|discriminate].
  destruct (decode_path_info raw) as [d|ex|] eqn:E; cbn [rbind]; try discriminate.
  intros H; inversion H; subst. exists raw. split; [reflexivity|exact E].
Qed.

(* a malformed PATH_INFO is a URLDecodeError (UnicodeEncodeError when it is not WSGI text), a malformed
   virtual-root header a UnicodeDecodeError / UnicodeEncodeError, and nothing else can go wrong: *)
Theorem gen_call_errors root q e :
  gen_call root q = Exc e ->
  (e = URLDecodeError /\ q_matchdict q = None /\
     exists raw, q_path_info q = Some raw /\ decode_path_info raw = Exc UnicodeDecodeError)
  \/ (exists raw, (q_path_info q = Some raw /\ q_matchdict q = None \/ q_vroot q = Some raw)
                  /\ decode_path_info raw = Exc e /\ e <> URLDecodeError).
Proof.
  rewrite gen_call_is_model. intros H.
  destruct (traverser_call_exc _ _ _ H) as [P|(path & sub & _ & V)].
  - destruct (path_and_subpath_exc _ _ P) as (Hm & raw & Hp & E).
    destruct (decode_path_info raw) as [d|ex|] eqn:D; cbn [as_url_decode_error] in E; try discriminate.
    destruct ex; inversion E; subst.
    + exfalso. exact (decode_path_info_exn _ _ D eq_refl).
    + left. split; [reflexivity|]. split; [exact Hm|]. exists raw. split; [exact Hp|exact D].
    + right. exists raw. split; [left; split; assumption|]. split; [exact D|discriminate].
  - destruct (vroot_part_exc _ _ _ V) as (raw & Hv & E).
    right. exists raw. split; [right; exact Hv|]. split; [exact E|exact (decode_path_info_exn _ _ E)].
Qed.

Example gen_call_nonvacuous :
  gen_call ([], wit_tree) (mkReq (Some [47; 97; 47; 98; 47; 122; 122; 47; 116]%N) None None)
  = Ok (mkT [0; 0] [122; 122]%N [[116%N]] [ta; tb] [] [] []) /\
  gen_call ([], wit_tree) (mkReq (Some [47; 255]%N) None None) = Exc URLDecodeError /\
  gen_call ([], wit_tree) (mkReq (Some [47]%N) None (Some [47; 255]%N)) = Exc UnicodeDecodeError /\
  gen_call ([], wit_tree) (mkReq None (Some (mkMd (Some (MTuple [ta; tb])) (Some (MStr [47; 116; 47]%N)))) None)
  = Ok (mkT [0; 0] [] [[116%N]] [ta; tb] [] [] []) /\
  gen_find_root_c02 wit_tree ([0; 0], Node None) = ([], wit_tree).
Proof. vm_compute. repeat split. Qed.

(* ------------------------------------------------------------ traverse(): which resource the walk starts from *)
(* the path text traverse() works with: a str as given, a tuple through _join_path_tuple *)
Definition api_path_text (p : api_path) : result text :=
  match p with PStr s => Ok s | PTuple [] => Ok [] | PTuple l => join_path_tuple l end.

(* an ABSOLUTE path is resolved from the root of the tree, whatever resource of the tree is passed *)
Theorem traverse_absolute_start_irrelevant T root s1 s2 n1 n2 p r :
  node_at root s1 = Some n1 -> node_at root s2 = Some n2 ->
  api_path_text p = Ok (slash :: r) ->
  traverse_with T root s1 p = traverse_with T root s2 p.
Proof.
  intros H1 H2 Hp. unfold traverse_with. unfold api_path_text in Hp. rewrite Hp. cbn [rbind].
  destruct (negb (is_ascii (slash :: r))); [reflexivity|].
  rewrite N.eqb_refl. reflexivity.
Qed.

(* a RELATIVE path is resolved from the resource passed: that resource is the `root` of the result and the
   context lies below it *)
Theorem traverse_relative_starts_at_resource root start n p path d :
  node_at root start = Some n -> api_path_text p = Ok path ->
  hd_error path <> Some slash ->
  traverse_api root start p = Ok d ->
  t_root d = start /\ exists suffix, t_context d = start ++ suffix.
Proof.
  intros Hn Hp Hrel. unfold traverse_api, traverse_with. unfold api_path_text in Hp. rewrite Hp. cbn [rbind].
  destruct (negb (is_ascii path)); [discriminate|].
  assert (R : match path with
              | c :: _ => if N.eqb c slash then Ok ([], root)
                          else match node_at root start with Some n0 => Ok (start, n0) | None => Unsupported end
              | [] => match node_at root start with Some n0 => Ok (start, n0) | None => Unsupported end
              end = Ok (start, n)).
  { rewrite Hn. destruct path as [|c path']; [reflexivity|].
    destruct (N.eqb c slash) eqn:E; [|reflexivity].
    apply N.eqb_eq in E. subst c. exfalso. apply Hrel. reflexivity. }
  rewrite R. cbn [rbind]. destruct (has_scheme path); [discriminate|].
  intros H. destruct (traverser_resolves _ _ _ H) as (pth & sub & vt & ctx & c & rst & Hps & Hvt & Hw & Hc & _ & _ & _ & _ & Hr & Hv).
  split; [exact Hr|].
  unfold vroot_tuple_of in Hvt. cbn [q_vroot] in Hvt. inversion Hvt; subst vt.
  destruct Hv as [(_ & v & c' & Hd & _ & _ & _ & sfx & Hs)|(Hlt & _)]; [|cbn in Hlt; lia].
  cbn [descend] in Hd. inversion Hd; subst v. exists sfx. exact Hs.
Qed.

Example traverse_start_nonvacuous :
  traverse_api wit_tree [0] (PStr [98; 47; 122]%N) = Ok (mkT [0; 0] [122%N] [] [tb] [0] [] [0]) /\
  traverse_api wit_tree [0; 0] (PTuple [[]; tb; tx]) = traverse_api wit_tree [] (PTuple [[]; tb; tx]) /\
  traverse_api wit_tree [0; 0] (PTuple [[]; tb; tx]) = Ok (mkT [1; 0] [] [] [tb; tx] [] [] []).
Proof. vm_compute. repeat split. Qed.

(* the falsy-but-valid inputs of the preamble: an absent or empty PATH_INFO is '/', an absent / '' / () `traverse`
   entry of the match dictionary is '/', an absent `subpath` entry is () *)
Theorem gen_call_preamble_falsy_inputs vr sp :
  gen_call_preamble (mkReq None None vr) = gen_call_preamble (mkReq (Some [47%N]) None vr) /\
  gen_call_preamble (mkReq (Some []) None vr) = gen_call_preamble (mkReq (Some [47%N]) None vr) /\
  (forall pi, gen_call_preamble (mkReq pi (Some (mkMd None sp)) vr)
              = gen_call_preamble (mkReq pi (Some (mkMd (Some (MStr [47%N])) sp)) vr)) /\
  (forall pi, gen_call_preamble (mkReq pi (Some (mkMd (Some (MStr [])) sp)) vr)
              = gen_call_preamble (mkReq pi (Some (mkMd (Some (MStr [47%N])) sp)) vr)) /\
  (forall pi, gen_call_preamble (mkReq pi (Some (mkMd (Some (MTuple [])) sp)) vr)
              = gen_call_preamble (mkReq pi (Some (mkMd (Some (MStr [47%N])) sp)) vr)) /\
  (forall pi tr, gen_call_preamble (mkReq pi (Some (mkMd tr None)) vr)
                 = gen_call_preamble (mkReq pi (Some (mkMd tr (Some (MTuple [])))) vr)).
Proof.
  rewrite !gen_call_preamble_is_model.
  repeat split; intros; rewrite ?gen_call_preamble_is_model; reflexivity.
Qed.

(* one long-lived traverser object, stated about the regenerated __call__: the translation of the whole method reads
   `self` only through self.root / self.VIEW_SELECTOR / self.VH_ROOT_KEY and has no rule for a store to `self`, so the
   regenerated method is a function of (root, request); a history on one object is the map of that function *)
Theorem gen_call_obj_history o qs :
  obj_history o qs = (map (gen_call (o_root o)) qs, o).
Proof.
  rewrite obj_history_free. f_equal. apply map_ext. intros q. cbn [obj_call o_root fst].
  symmetry. apply gen_call_is_model.
Qed.

(* ------------------------------------------------------------ completeness of the normaliser *)
(* nothing but '', '.' and '..' is special: every list of other '/'-free segments survives joining and splitting
   unchanged -- in particular names made of three or more dots, names that start or end with dots, '@' names *)
Theorem gen_split_keeps_names segs :
  Forall normal_seg segs -> gen_split_path_info (join [slash] segs) = segs.
Proof. rewrite gen_split_path_info_is_model. apply spi_normal_id. Qed.

Theorem gen_split_keeps_names_abs segs :
  Forall normal_seg segs -> gen_split_path_info (slash :: join [slash] segs) = segs.
Proof.
  intros H. rewrite gen_split_path_info_is_model.
  change (slash :: join [slash] segs) with ([slash] ++ join [slash] segs).
  rewrite <- (spi_normal_id segs H) at 2.
  rewrite !spi_no_strip. change ([slash] ++ join [slash] segs) with (slash :: join [slash] segs).
  rewrite split_on_cons_sep, resolve_empty_seg. reflexivity.
Qed.

Theorem gen_split_keeps_names_both segs :
  Forall normal_seg segs ->
  gen_split_path_info (join [slash] segs) = segs /\ gen_split_path_info (slash :: join [slash] segs) = segs.
Proof. intros H. split; [exact (gen_split_keeps_names segs H)|exact (gen_split_keeps_names_abs segs H)]. Qed.

Example dots_only_names_survive :
  normal_segb [46; 46; 46]%N = true /\ normal_segb [46; 46; 46; 46]%N = true /\ normal_segb [46; 97]%N = true /\
  normal_segb [64]%N = true /\
  gen_split_path_info [47; 97; 47; 46; 46; 46; 47; 98; 47; 46; 46; 46; 46; 47]%N
  = [[97]; [46; 46; 46]; [98]; [46; 46; 46; 46]]%N.
Proof. vm_compute. repeat split. Qed.

(* ------------------------------------------------------------ the public normalisers meet the normalisation clause *)
Theorem gen_normalisers_meet_spec p l :
  (spec_traversal_path_info p = Some l -> gen_traversal_path_info p = Ok l) /\
  (spec_traversal_path p = Some l -> gen_traversal_path p = Ok l).
Proof.
  rewrite gen_traversal_path_info_is_model, gen_traversal_path_is_model.
  unfold spec_traversal_path, spec_traversal_path_info, traversal_path, traversal_path_info.
  split.
  - destruct (decode_path_info p) as [d|e|]; intros H; inversion H; reflexivity.
  - destruct (is_ascii p); [|discriminate].
    destruct (decode_path_info (Percent.unquote p)) as [d|e|]; intros H; inversion H; reflexivity.
Qed.

(* ------------------------------------------------------------ the traverse entry of a route's match dictionary *)
(* a value captured by the route pattern -- also the empty tuple of a `*traverse` whose remainder normalises to nothing
   and the '' of a {traverse:.*} placeholder -- is never replaced by the traverse= option; the option only fills an
   ABSENT entry, with normalised segments *)
Theorem traverse_entry_capture_wins v parts : traverse_entry (Some v) parts = Some v.
Proof. reflexivity. Qed.

Theorem traverse_entry_spec captured parts :
  (forall v, captured = Some v -> traverse_entry captured parts = Some v) /\
  (captured = None -> forall ps, parts = Some ps ->
     exists l, traverse_entry captured parts = Some (MTuple l) /\ Forall normal_seg l /\
               (Forall normal_seg ps -> l = ps)) /\
  (captured = None -> parts = None -> traverse_entry captured parts = None).
Proof.
  split; [intros v ->; reflexivity|]. split.
  - intros -> ps ->. cbn [traverse_entry option_map]. eexists. split; [reflexivity|]. split; [apply spi_normal|].
    intros H. rewrite <- gen_split_path_info_is_model. apply gen_split_keeps_names_abs. exact H.
  - intros -> ->. reflexivity.
Qed.

Example traverse_entry_empty_capture :
  traverse_entry (Some (MTuple [])) (Some [ta]) = Some (MTuple []) /\
  traverse_entry (Some (MStr [])) (Some [ta]) = Some (MStr []) /\
  traverse_entry None (Some [ta; [46; 46]%N; tb]) = Some (MTuple [tb]).
Proof. vm_compute. repeat split. Qed.

(* ------------------------------------------------------------ _join_path_tuple (tuple of str) *)
Lemma quote_segment_r_default seg : quote_segment_r path_segment_safe seg = quote_path_segment seg.
Proof. reflexivity. Qed.

Lemma rmap_r_is_rmap {A B} (f g : A -> result B) l : (forall x, f x = g x) -> rmap_r f l = rmap g l.
Proof.
  intros H. induction l as [|x r IH]; [reflexivity|].
  cbn [rmap_r rmap]. rewrite H, IH. reflexivity.
Qed.

Theorem gen_join_path_tuple_c02_is_model l : gen_join_path_tuple_c02 l = join_path_tuple l.
Proof.
  unfold gen_join_path_tuple_c02, join_path_tuple, slash_text, slash.
  rewrite (rmap_r_is_rmap _ quote_path_segment l quote_segment_r_default).
  destruct l as [|x r]; [reflexivity|]. cbn [is_nil].
  destruct (rmap quote_path_segment (x :: r)) as [qs|e|]; cbn [rbind]; try reflexivity.
  destruct (join [47%N] qs) as [|c s]; reflexivity.
Qed.

(* what traverse()/find_resource() make of a tuple path, about the regenerated function: '' first = absolute *)
Theorem gen_join_path_tuple_c02_absolute segs p :
  gen_join_path_tuple_c02 ([] :: segs) = Ok p -> hd_error p = Some slash.
Proof.
  rewrite gen_join_path_tuple_c02_is_model. unfold join_path_tuple. cbn [rmap].
  assert (Q : quote_path_segment [] = Ok []) by reflexivity. rewrite Q. cbn [rbind].
  destruct (rmap quote_path_segment segs) as [qs|e|]; cbn [rbind]; try discriminate.
  destruct qs as [|q qs]; cbn [join]; intros H; inversion H; reflexivity.
Qed.

(* ------------------------------------------------------------ re-entrancy, with the ORDER premise regenerated *)
(* [memo_calls_precede_walk] (Gen/Facts_C02.v) is computed by the translator while it walks __call__ in program
   order: true iff no memoised module function is called once the walk loop has been entered (nor after it).  That is
   the reading [reentrant_req_st] (Proofs/C02_memo.v) builds on: the request's own cache accesses first, then whatever
   the item lookups do.  If a later edit calls split_path_info inside the loop the fact flips and this proof fails. *)
Lemma memo_calls_precede_walk_ok : memo_calls_precede_walk = true.
Proof. reflexivity. Qed.

Theorem reentrant_request_derived :
  memo_calls_precede_walk = true /\
  forall inner C root q, caches_ok C ->
    let '(v, ans, C2) := reentrant_req_st inner C root q in
    v = gen_call root q /\
    ans = map pure_op (inner_ops inner root
            (match gen_call_preamble q with Ok (_, path, _, vt, _) => vt ++ gen_split_path_info path | _ => [] end)) /\
    caches_ok C2 /\ forall later, run_ops_st C2 later = map pure_op later.
Proof.
  split; [exact memo_calls_precede_walk_ok|].
  intros inner C root q H. pose proof (reentrant_request_history_free inner C root q H) as R.
  destruct (reentrant_req_st inner C root q) as [[v ans] C2].
  rewrite gen_call_is_model, gen_call_preamble_is_model.
  destruct R as (R1 & R2 & R3 & R4). split; [exact R1|]. split; [|split; [exact R3|exact R4]].
  rewrite R2. f_equal. f_equal.
  destruct (call_preamble q) as [[[[[vp path] sub] vt] vi]| |]; try reflexivity.
  rewrite gen_split_path_info_is_model. reflexivity.
Qed.

(* ------------------------------------------------------------ what a route pattern captured, computed in the model *)
Lemma strip_prefix_app p r : strip_prefix p (p ++ r) = Some r.
Proof. apply strip_prefix_spec. reflexivity. Qed.

(* the remainder handed to split_path_info is exactly the decoded PATH_INFO without the pieces in front of it *)
Theorem route_remainder_spec decoded pieces rem :
  route_remainder decoded pieces = Some rem <-> decoded = concat pieces ++ rem.
Proof. unfold route_remainder. apply strip_prefix_spec. Qed.

Theorem route_remainder_none decoded pieces :
  route_remainder decoded pieces = None -> forall rem, decoded <> concat pieces ++ rem.
Proof.
  intros H rem E. apply (proj2 (route_remainder_spec decoded pieces rem)) in E. congruence.
Qed.

Example route_remainder_example :
  route_remainder [47; 113; 47; 97; 47]%N [[47; 113; 47]%N; [97]%N; [47]%N] = Some [] /\
  route_remainder [47; 113; 47; 97; 47; 120; 47; 46; 46]%N [[47; 113; 47]%N; [97]%N; [47]%N] = Some [120; 47; 46; 46]%N /\
  route_piece [47; 121; 47; 97; 58; 98; 47; 99]%N 2 = [97; 58; 98]%N.
Proof. vm_compute. repeat split. Qed.
