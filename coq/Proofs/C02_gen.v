(* C02 -- the program REGENERATED from src/pyramid/traversal.py on this run
   (Gen/Facts_C02.v: gen_split_path_info, gen_decode_path_info,
   gen_traversal_path_info, gen_call_tail) equals the hand-written reference
   model (Lib/PathNorm.split_path_info, Model/C02.v), for all inputs; the
   property theorems of Proofs/C02.v are then restated about the regenerated
   program.

   The proof scripts never mention the text of the generated terms: they take
   the loop apart by pattern, do one induction, case-split on the ATOMS of the
   primitive table (comparisons of the segment with literals, emptiness of the
   stack, the selector test, has_getitem / child, the index test) and ask that
   both sides then compute to the same result or to the induction hypothesis.
   Hence they are insensitive to the names of the source's locals, to the
   nesting and order of its tests, to [i += 1] vs [i = i + 1], to the order of
   independent statements and to the order in which a loop carries its
   variables; they fail as soon as some valuation of the atoms leads the
   regenerated program to another result than the model. *)
From Coq Require Import List NArith ZArith Bool Lia.
Import ListNotations.
Require Import Verif.Lib.Wire Verif.Lib.Text Verif.Lib.PathNorm Verif.Lib.C02PathNorm Verif.Lib.Utf8
               Verif.Lib.C02Expr Verif.Gen.Facts_C02 Verif.Model.C02 Verif.Proofs.C02 Verif.Proofs.C02_memo.
Close Scope N_scope.

(* ------------------------------------------------------------ split_path_info *)
Lemma spi_step_atoms acc s :
  spi_step acc s =
  if text_eqb s [] then acc
  else if text_eqb s [46%N] then acc
  else if text_eqb s [46%N; 46%N] then tl acc
  else s :: acc.
Proof. destruct s as [|a s]; reflexivity. Qed.

Lemma rev_drop_last {A} (c : list A) : rev (drop_last c) = tl (rev c).
Proof.
  unfold drop_last. destruct c as [|x c] using rev_ind; [reflexivity|].
  rewrite removelast_last, rev_unit. reflexivity.
Qed.

Lemma rev_snoc {A} (c : list A) x : rev (snoc c x) = x :: rev c.
Proof. unfold snoc. apply rev_unit. Qed.

Lemma is_nil_true {A} (c : list A) : is_nil c = true -> c = [].
Proof. destruct c; [reflexivity|discriminate]. Qed.

(* compare the segment with each literal of the goal; on equality substitute the literal,
   which decides the remaining comparisons by computation *)
Ltac split_text_atoms s :=
  repeat match goal with
         | |- context [text_eqb s ?lit] =>
             let E := fresh "E" in
             destruct (text_eqb s lit) eqn:E;
             [ apply text_eqb_eq in E; subst s; cbn [text_eqb N.eqb Pos.eqb andb] | ]
         end.

Theorem gen_split_path_info_is_model p : gen_split_path_info p = split_path_info p.
Proof.
  unfold gen_split_path_info, split_path_info.
  match goal with
  | |- ?F ?L [] = _ => enough (H : forall l c, F l c = rev (resolve (rev c) l)) by apply H
  end.
  induction l as [|s l IH]; intros c; [simpl; symmetry; apply rev_involutive|].
  cbv beta match fix. rewrite resolve_cons, spi_step_atoms.
  split_text_atoms s;
    repeat match goal with
           | |- context [is_nil ?x] =>
               let E := fresh "E" in destruct (is_nil x) eqn:E; [apply is_nil_true in E; subst x|]
           end;
    rewrite IH; rewrite ?rev_drop_last, ?rev_snoc; reflexivity.
Qed.

(* ------------------------------------------------------------ decode_path_info, traversal_path_info *)
Theorem gen_decode_path_info_is_model p : gen_decode_path_info p = decode_path_info p.
Proof.
  unfold gen_decode_path_info, decode_path_info, latin1_encode_r, utf8_decode_r, rbind.
  destruct (forallb (fun c => N.ltb c 256) p); [destruct (Utf8.decode p)|]; reflexivity.
Qed.

Theorem gen_traversal_path_info_is_model p : gen_traversal_path_info p = traversal_path_info p.
Proof.
  unfold gen_traversal_path_info, traversal_path_info.
  rewrite ?gen_decode_path_info_is_model.
  destruct (decode_path_info p) as [d|[]|]; cbn [as_url_decode_error rbind];
    rewrite ?gen_split_path_info_is_model; reflexivity.
Qed.

(* ------------------------------------------------------------ the tail of __call__ *)
Lemma loop_cons vp sub vt vidx root ob vroot i seg rest :
  loop vp sub vt vidx root ob vroot i (seg :: rest) =
  if is_selector seg then render (mk_env vp sub vt vidx root i seg ob vroot) ret_selector
  else match getitem (snd ob) seg with
       | NoGetitem => render (mk_env vp sub vt vidx root i seg ob vroot) ret_noitem
       | NoKey => render (mk_env vp sub vt vidx root i seg ob vroot) ret_keyerror
       | Found k c =>
           loop vp sub vt vidx root (fst ob ++ [k], c)
                (if Z.eqb (Z.of_nat i) vidx then (fst ob ++ [k], c) else vroot) (S i) rest
       end.
Proof. reflexivity. Qed.

(* the orders in which the loop may carry (ob, i, vroot) *)
Definition shA {X} (f : rnode -> Z -> rnode -> X) (ob : rnode) (i : Z) (vr : rnode) := f ob i vr.
Definition shB {X} (f : rnode -> Z -> rnode -> X) (ob : rnode) (i : Z) (vr : rnode) := f vr i ob.
Definition shC {X} (f : rnode -> rnode -> Z -> X) (ob : rnode) (i : Z) (vr : rnode) := f ob vr i.
Definition shD {X} (f : rnode -> rnode -> Z -> X) (ob : rnode) (i : Z) (vr : rnode) := f vr ob i.
Definition shE {X} (f : Z -> rnode -> rnode -> X) (ob : rnode) (i : Z) (vr : rnode) := f i ob vr.
Definition shF {X} (f : Z -> rnode -> rnode -> X) (ob : rnode) (i : Z) (vr : rnode) := f i vr ob.

Ltac tail_loop sh F L sub vt vidx root :=
  solve [
    let H := fresh "H" in
    enough (H : forall l ob vr n, sh _ (F l) ob (Z.of_nat n) vr = loop L sub vt vidx root ob vr n l)
      by (unfold sh in H; apply (H L root root 0%nat));
    unfold sh;
    let l := fresh "l" in let s := fresh "s" in let IH := fresh "IH" in
    induction l as [|s l IH]; intros ob vr n;
    [ reflexivity
    | cbv beta match fix; rewrite loop_cons; unfold is_selector, selector_len;
      rewrite ?(Z.eqb_sym vidx);
      match goal with
      | |- context [text_eqb ?a view_selector] => destruct (text_eqb a view_selector)
      end;
      [ reflexivity
      | destruct ob as [pp [[kids|]]];
        [ unfold has_getitem, child, getitem; cbn [snd fst];
          destruct (assoc_idx s kids 0) as [[k c]|];
          [ replace (Z.add (Z.of_nat n) 1%Z) with (Z.of_nat (S n)) by lia;
            destruct (Z.eqb (Z.of_nat n) vidx); cbv beta match; apply IH
          | reflexivity ]
        | reflexivity ] ] ] ].

Theorem gen_call_tail_is_model vpath path sub vt vidx root :
  gen_call_tail vpath path sub vt vidx root = call_tail vpath_tuple_mode vpath path sub vt vidx root.
Proof.
  unfold gen_call_tail, call_tail, slash_text, slash.
  rewrite ?gen_split_path_info_is_model.
  match goal with |- context [text_eqb vpath ?k] => destruct (text_eqb vpath k) end.
  - reflexivity.
  - unfold vpath_tuple_mode. cbv iota.
    match goal with |- _ = loop ?L _ _ _ _ _ _ _ _ => generalize L end.
    intros L.
    match goal with
    | |- ?F L ?a ?b ?c = _ =>
        first [ tail_loop @shA F L sub vt vidx root | tail_loop @shB F L sub vt vidx root
              | tail_loop @shC F L sub vt vidx root | tail_loop @shD F L sub vt vidx root
              | tail_loop @shE F L sub vt vidx root | tail_loop @shF F L sub vt vidx root ]
    end.
Qed.

(* ------------------------------------------------------------ the traverser over the regenerated program *)
(* ResourceTreeTraverser.__call__ = hand-modelled, shape-pinned preamble (path_and_subpath, vroot_part)
   followed by the REGENERATED tail *)
Definition gen_traverser_call (root : rnode) (q : request) : result tdict :=
  rlet ps := path_and_subpath q in
  let '(path, subpath) := ps in
  rlet vr := vroot_part q path in
  let '(vroot_tuple, vpath, vroot_idx) := vr in
  Ok (gen_call_tail vpath path subpath vroot_tuple vroot_idx root).

Theorem gen_traverser_call_is_model root q : gen_traverser_call root q = traverser_call root q.
Proof.
  unfold gen_traverser_call, traverser_call, traverser_call_mode.
  destruct (path_and_subpath q) as [[path sub]| |]; cbn [rbind]; try reflexivity.
  destruct (vroot_part q path) as [[[vt vpath] vidx]| |]; cbn [rbind]; try reflexivity.
  rewrite gen_call_tail_is_model. unfold call_tail.
  destruct (text_eqb vpath slash_text); reflexivity.
Qed.

(* ---- the property theorems, about the regenerated program *)
Theorem gen_traverser_resolves root q d :
  gen_traverser_call root q = Ok d ->
  exists path sub vt ctx consumed rest,
    path_and_subpath q = Ok (path, sub) /\ vroot_tuple_of q = Ok vt /\
    walk_outcome root (vt ++ gen_split_path_info path) ctx consumed rest /\
    t_context d = fst ctx /\
    t_view_name d = view_name_of rest /\
    t_subpath d = subpath_of sub rest /\
    t_traversed d = consumed ++ firstn (length vt) rest /\
    t_virtual_root_path d = vt /\ t_root d = fst root /\
    ((length vt <= length consumed /\
        exists v c', descend root vt = Some v /\ t_virtual_root d = fst v /\ consumed = vt ++ c' /\
                     descend v c' = Some ctx /\ exists suffix, t_context d = fst v ++ suffix)
     \/ (length consumed < length vt /\ t_virtual_root d = fst root /\
         exists more, more <> [] /\ vt = consumed ++ more)).
Proof.
  rewrite gen_traverser_call_is_model. intros H.
  destruct (traverser_resolves root q d H) as (path & sub & vt & ctx & c & r & Hx).
  exists path, sub, vt, ctx, c, r. rewrite gen_split_path_info_is_model. exact Hx.
Qed.

Theorem gen_traversed_partial root q :
  q_vroot q = None -> gen_traverser_call root q = spec_traverser root q.
Proof. rewrite gen_traverser_call_is_model. apply traverser_no_vroot_meets_spec. Qed.

Theorem gen_traversed_refuted :
  exists d s, gen_traverser_call ([], wit_tree) wit_traversed = Ok d /\
              spec_traverser ([], wit_tree) wit_traversed = Ok s /\
              t_traversed s = [ta] /\ t_traversed d = [ta; tx] /\ d <> s.
Proof.
  destruct traversed_refuted as (d & s & H). exists d, s. rewrite gen_traverser_call_is_model. exact H.
Qed.

Theorem gen_split_normal p : Forall normal_seg (gen_split_path_info p).
Proof. rewrite gen_split_path_info_is_model. apply spi_normal. Qed.

Theorem gen_split_never_above_root k p :
  gen_split_path_info (updirs k (slash :: p)) = gen_split_path_info (slash :: p).
Proof. rewrite !gen_split_path_info_is_model. apply spi_updirs. Qed.

Theorem gen_split_idempotent p :
  gen_split_path_info (join [slash] (gen_split_path_info p)) = gen_split_path_info p.
Proof. rewrite !gen_split_path_info_is_model. apply spi_idempotent. Qed.

Theorem gen_traversal_path_info_normal p l :
  gen_traversal_path_info p = Ok l -> Forall normal_seg l.
Proof. rewrite gen_traversal_path_info_is_model. apply tpi_normal. Qed.

Theorem gen_dotdot_at_root root p md vr :
  gen_traverser_call root (mkReq (Some (slash :: dot :: dot :: slash :: p)) md vr)
  = gen_traverser_call root (mkReq (Some (slash :: p)) md vr).
Proof. rewrite !gen_traverser_call_is_model. apply traverser_dotdot_at_root. Qed.

(* non-vacuity, computed by the regenerated program itself *)
Example c02_gen_nonvacuous :
  gen_split_path_info [47; 97; 47; 46; 46; 47; 46; 46; 47; 98; 47; 47; 46; 47; 99; 47]%N = [tb; [99%N]] /\
  gen_traversal_path_info [47; 195; 169]%N = Ok [[233%N]] /\
  gen_traversal_path_info [47; 255]%N = Exc URLDecodeError /\
  gen_traverser_call ([], wit_tree) (mkReq (Some [47; 97; 47; 98; 47; 122; 122; 47; 116]%N) None None)
  = Ok (mkT [0; 0] [122; 122]%N [[116%N]] [ta; tb] [] [] []).
Proof. vm_compute. repeat split. Qed.
