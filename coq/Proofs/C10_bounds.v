(* C10 -- proof-only round 3: the timeout / never-expires / reissue statements END TO END from the arguments of
   SignedCookieSessionFactory (as given: bool, float, digit string .. converted once at configuration time) through
   the router pipeline (gfinish_r: whatever other response callbacks the application registered) to the next request. *)
From Coq Require Import List NArith ZArith Bool Lia.
Import ListNotations.
Require Import Verif.Lib.Wire Verif.Gen.Facts_C10 Verif.Model.C10 Verif.Proofs.C10 Verif.Proofs.C10_gen
        Verif.Proofs.C10_gen2 Verif.Proofs.C10_factory.

Lemma gfinish_r_gfinish O o s exc n : gfinish_r O o s exc n = gfinish O o s exc.
Proof. rewrite gfinish_r_is_model, gfinish_is_model. reflexivity. Qed.

(* timeout given as anything int() accepts (z seconds): the cookie the request ends with restores the data when
   presented exactly z seconds after the stamp, and yields an EMPTY (not new) session one tick later *)
Lemma factory_timeout_boundary O a o s exc n ck z : rt_b64 O -> rt_ser O -> mac_len O ->
  gfactory a = FacOk o -> int_of (fa_timeout a) = FOk z ->
  gfinish_r O o s exc n = FCookie ck ->
  (exists s0, gen_init O o (Some ck) (tval (accessed s) + z * tick) = IOk s0 /\ st s0 = st s /\ isnew s0 = false)
  /\ (exists s0, gen_init O o (Some ck) (tval (accessed s) + z * tick + 1) = IOk s0 /\ st s0 = [] /\ isnew s0 = false
                 /\ tval (created s0) = tval (created s)).
Proof.
  intros Hb Hs Hm E I F. rewrite gfinish_r_gfinish in F.
  apply (generated_timeout_boundary O o s exc ck z Hb Hs Hm F).
  apply (factory_zero_is_not_none a o z E I).
Qed.

(* timeout=None: the session never expires, however late the cookie comes back *)
Lemma factory_no_timeout_never_expires O a o s exc n ck now : rt_b64 O -> rt_ser O -> mac_len O ->
  gfactory a = FacOk o -> fa_timeout a = CNone ->
  gfinish_r O o s exc n = FCookie ck ->
  exists s0, gen_init O o (Some ck) now = IOk s0 /\ st s0 = st s /\ tval (created s0) = tval (created s)
             /\ isnew s0 = false /\ dirty s0 = false /\ tval (renewed s0) = tval (accessed s).
Proof.
  intros Hb Hs Hm E T F. rewrite gfinish_r_gfinish in F.
  apply (generated_persistence O o s exc ck now Hb Hs Hm F).
  destruct (factory_none_stays_none a o E) as [[_ H] _]. unfold expired. rewrite (H T). reflexivity.
Qed.

(* reissue_time given as anything int() accepts *)
Lemma factory_reissue_value a o r : gfactory a = FacOk o -> int_of (fa_reissue a) = FOk r -> reissue o = Some r.
Proof.
  rewrite gfactory_is_spec. unfold spec_factory, cfg_conv, oint. intros E I.
  destruct (fa_reissue a) eqn:R; try (cbn in I; discriminate I); cbn [is_cnone] in E; rewrite I in E;
    repeat match type of E with
           | context [match ?x with _ => _ end] => destruct x; try discriminate E
           end; inversion E; reflexivity.
Qed.

(* an accessor marks the session dirty (cookie reissued) exactly when more than r seconds have passed since renewal *)
Lemma factory_reissue_boundary a o p t s r :
  gfactory a = FacOk o -> int_of (fa_reissue a) = FOk r -> op_cls p (st s) = CAcc ->
  dirty (fst (gstep o p t s)) = dirty s || Z.gtb (int_time t * tick - tval (renewed s)) (r * tick).
Proof. intros E I C. apply generated_reissue_boundary; [exact C|apply (factory_reissue_value a o r E I)]. Qed.

(* non-vacuity: timeout=False (the number 0), reissue_time='12' *)
Example ex_bounds : exists o, gfactory ex_args = FacOk o /\ int_of (fa_timeout ex_args) = FOk 0%Z
                              /\ int_of (fa_reissue ex_args) = FOk 12%Z.
Proof. eexists. split; [exact ex_factory|]. split; reflexivity. Qed.
Example ex_no_timeout : exists o,
  gfactory {| fa_secret := [115]%N; fa_salt := None; fa_max_age := CNone; fa_timeout := CNone; fa_reissue := CNone;
              fa_soe := CBool true; fa_attrs := ex_attrs |} = FacOk o.
Proof. eexists. vm_compute. reflexivity. Qed.
