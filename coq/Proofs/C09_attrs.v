(* C09 -- the cookie-attribute clause end to end: from the constructor keywords (helper or policy, omitted ones = documented
   defaults) to EVERY Set-Cookie the request produces -- the headers remember() / forget() return (directly or through the
   policy) and the ticket the automatic reissue attaches to the response. *)
From Coq Require Import List NArith ZArith Bool Lia.
Import ListNotations.
Require Import Verif.Lib.Wire Verif.Lib.Text Verif.Lib.Percent Verif.Lib.Utf8 Verif.Lib.C09Base Verif.Lib.C09BaseP.
Require Import Verif.Gen.Facts_C09 Verif.Model.C09 Verif.Proofs.C09 Verif.Proofs.C09_rt Verif.Proofs.C09_more
               Verif.Proofs.C09_gen.

Section Attrs.
Variable H : text -> list N -> text.
Variable dsz : text -> nat.
Variable uni : N -> N.

(* the max_age argument of the call, if the operation has one *)
Definition call_max_age (o : gop) : option Z := match o with GRemember _ ma _ => ma | _ => None end.

(* an operation on the helper, or on the policy built around it *)
Definition any_step (pol : bool) (c : cfg) (r : req) (st : state) (o : gop) : state * out :=
  if pol then gen_pstep H dsz uni c r st o else gen_step H dsz uni c r st o.

Theorem returned_headers_attrs pol omit c r st o hs k :
  mask_ok omit (default_eqs c) = true ->
  snd (any_step pol (construct pol omit c) r st o) = OutHdr (Some hs) ->
  In k hs ->
  attrs_ok c r (call_max_age o) k = true
  /\ (match o with GForget => ck_value k = None | _ => exists v, ck_value k = Some v end).
Proof.
  intros Hm. rewrite (construct_omitting_defaults pol omit c Hm).
  replace (any_step pol c r st o) with (step H dsz uni c r st (op_of o))
    by (unfold any_step; destruct pol; rewrite ?gen_pstep_is_step, ?gen_step_is_model; reflexivity).
  destruct o as [|a ma toks|]; cbn [op_of call_max_age].
  - cbn [step]. destruct (identify H dsz uni c r st). discriminate.
  - cbn [step]. destruct (remember H c r (uarg_val a) ma toks) as [hs'|] eqn:R; cbn [snd]; [|discriminate].
    intros E Hin. inversion E; subst hs'. eapply cookie_attributes_remember; eauto.
  - intros E Hin. eapply cookie_attributes_forget; eauto.
Qed.

Lemma attrs_ok_later c r ma k : attrs_ok c (later r) ma k = attrs_ok c r ma k.
Proof. unfold attrs_ok, spec_domain, later. destruct (tick r); reflexivity. Qed.

Theorem reissued_cookie_attrs pol omit c r ops k :
  mask_ok omit (default_eqs c) = true ->
  In k (response_cookies (fst (gen_run_ops H dsz uni (construct pol omit c) r st0 ops))) ->
  attrs_ok c r (max_age c) k = true /\ exists v, ck_value k = Some v.
Proof.
  intros Hm. rewrite (construct_omitting_defaults pol omit c Hm), gen_reissue_once.
  unfold spec_response. destruct (existsb (is_explicit H c r) (map op_of ops)); [intros []|].
  destruct (has_identify (map op_of ops)); [|intros []].
  destruct (spec_reissue_ticket H dsz uni c r) as [hs|] eqn:S; [|intros []].
  destruct (reissued_ticket_is_fresh H dsz uni c r hs S) as (ts & u & tk & ud & rt & _ & _ & _ & R).
  intros Hin. rewrite <- (attrs_ok_later c r (max_age c) k). eapply cookie_attributes_remember; eauto.
Qed.

End Attrs.

(* non-vacuity: a policy with every keyword omitted; remember('bob', max_age=5) returns one cookie, named auth_tkt, Max-Age 5 *)
Example attrs_nonvacuous :
  let c := default_cfg [115]%N in
  match snd (gen_pstep ex_H (fun _ => 2%nat) (fun _ => 63%N) (construct true (repeat true 13) c) (ex_req None 1000) st0
               (GRemember (UKnown (VStr [98; 111; 98]%N)) (Some 5%Z) [])) with
  | OutHdr (Some [k]) => ck_name k = cookie_name c /\ ck_max_age k = Some 5%Z /\ ck_samesite k = Some [76; 97; 120]%N
  | _ => False
  end.
Proof. vm_compute. repeat split. Qed.
