(* C18 -- representation invariant: every field of a reachable sorter state is
   determined by the current declarations; hence the declarative judge accepts
   every answer of the model, for every sequence of add/remove calls. *)
From Coq Require Import List NArith ZArith Bool Lia Permutation.
Import ListNotations.
Require Import Verif.Lib.Wire Verif.Gen.Facts_C18 Verif.Model.C18.
Require Import Verif.Proofs.C18_kahn Verif.Proofs.C18_build Verif.Proofs.C18.

Definition dfind (ds : list decl) (n : node) : option decl := find (fun d => text_eqb n (dname d)) ds.
Definition dafter_of (ds : list decl) (n : node) : option (list node) :=
  match dfind ds n with Some d => dafter d | None => None end.
Definition dbefore_of (ds : list decl) (n : node) : option (list node) :=
  match dfind ds n with Some d => dbefore d | None => None end.

Lemma dfind_Some ds n d : dfind ds n = Some d -> In d ds /\ dname d = n.
Proof.
  unfold dfind. intros H. apply find_some in H. destruct H as (H1 & H2).
  apply text_eqb_eq in H2. auto.
Qed.

Lemma dfind_None ds n : dfind ds n = None <-> ~ In n (dnames ds).
Proof.
  unfold dfind, dnames. induction ds as [|d ds IH]; simpl; [tauto|].
  destruct (text_eqb_spec n (dname d)) as [->|Hne].
  - split; [discriminate|intros H; exfalso; auto].
  - rewrite IH. split; [intros H [E|E]; [congruence|auto]|tauto].
Qed.

Lemma dfind_In ds n : In n (dnames ds) -> exists d, dfind ds n = Some d.
Proof.
  intros H. destruct (dfind ds n) eqn:E; [eauto|]. apply dfind_None in E. contradiction.
Qed.

Lemma dfind_remove n ds m : dfind (spec_remove n ds) m = if text_eqb m n then None else dfind ds m.
Proof.
  unfold dfind, spec_remove. induction ds as [|d ds IH]; simpl.
  - destruct (text_eqb m n); reflexivity.
  - destruct (text_eqb_spec n (dname d)) as [->|Hne]; simpl.
    + rewrite IH. destruct (text_eqb_spec m (dname d)); reflexivity.
    + rewrite IH. destruct (text_eqb_spec m (dname d)) as [->|Hne2]; [|reflexivity].
      assert (E : text_eqb (dname d) n = false) by (apply text_eqb_neq; congruence). rewrite E. reflexivity.
Qed.

Lemma dfind_snoc ds d m :
  dfind (ds ++ [d]) m = match dfind ds m with
                        | Some x => Some x
                        | None => if text_eqb m (dname d) then Some d else None
                        end.
Proof.
  unfold dfind. induction ds as [|d0 ds IH]; simpl; [reflexivity|].
  destruct (text_eqb m (dname d0)); [reflexivity|exact IH].
Qed.

Lemma spec_remove_notin n ds : ~ In n (dnames ds) -> spec_remove n ds = ds.
Proof.
  unfold spec_remove, dnames. induction ds as [|d ds IH]; simpl; [reflexivity|]. intros H.
  destruct (text_eqb_spec n (dname d)) as [->|Hne]; [exfalso; auto|]. simpl. rewrite IH by tauto. reflexivity.
Qed.

(* ---------- arcs *)
Lemma arc_eqb_eq x y : arc_eqb x y = true <-> x = y.
Proof.
  destruct x as [a b], y as [c d]. unfold arc_eqb. simpl. rewrite andb_true_iff, !text_eqb_eq.
  split; [intros [-> ->]; reflexivity|intros H; injection H; auto].
Qed.

Lemma remove_arc_perm e l : In e l -> Permutation l (e :: remove_arc e l).
Proof.
  induction l as [|y l IH]; simpl; [intros []|].
  destruct (arc_eqb e y) eqn:E.
  - apply arc_eqb_eq in E. subst. intros _. reflexivity.
  - intros [H|H]; [subst; rewrite (proj2 (arc_eqb_eq e e) eq_refl) in E; discriminate|].
    rewrite perm_swap. constructor. apply IH, H.
Qed.

Lemma remove_arcs_perm x : forall l r,
  Permutation l (x ++ r) -> Permutation (fold_left (fun o e => remove_arc e o) x l) r.
Proof.
  induction x as [|e x IH]; intros l r H; simpl in *; [exact H|].
  apply IH. assert (Hin : In e l).
  { eapply Permutation_in; [apply Permutation_sym; exact H|left; reflexivity]. }
  pose proof (remove_arc_perm e l Hin) as H1.
  eapply Permutation_cons_inv. eapply Permutation_trans; [apply Permutation_sym; exact H1|exact H].
Qed.

Lemma fold_left_map_arg {A B C} (f : C -> B -> C) (g : A -> B) l : forall c,
  fold_left (fun o u => f o (g u)) l c = fold_left f (map g l) c.
Proof. induction l as [|x l IH]; intros c; simpl; [reflexivity|apply IH]. Qed.

Lemma flat_map_remove n ds d :
  NoDup (dnames ds) -> dfind ds n = Some d ->
  Permutation (flat_map decl_arcs ds) (decl_arcs d ++ flat_map decl_arcs (spec_remove n ds)).
Proof.
  induction ds as [|d0 ds IH]; intros Hnd Hf; [discriminate|].
  unfold dnames in Hnd. simpl in Hnd. inversion Hnd as [|? ? Hnot Hnd']; subst.
  unfold dfind in Hf. simpl in Hf. unfold spec_remove. simpl.
  destruct (text_eqb_spec n (dname d0)) as [->|Hne]; simpl.
  - injection Hf as <-. fold (spec_remove (dname d0) ds). rewrite spec_remove_notin by exact Hnot. reflexivity.
  - fold (spec_remove n ds). specialize (IH Hnd' Hf).
    rewrite IH. rewrite !app_assoc. apply Permutation_app_tail. apply Permutation_app_comm.
Qed.

(* ---------- the invariant *)
Record Rep (c : cfg) (s : sorter) (ds : list decl) : Prop := {
  r_names : names s = dnames ds;
  r_nodup : NoDup (dnames ds);
  r_order : Permutation (order s) (flat_map decl_arcs ds);
  r_after : forall n, aget n (name2after s) = dafter_of ds n;
  r_before : forall n, aget n (name2before s) = dbefore_of ds n;
  r_after_keys : NoDup (keys (name2after s));
  r_before_keys : NoDup (keys (name2before s));
  r_val_keys : NoDup (keys (name2val s));
  r_req_after : forall n, In n (req_after s) <-> dafter_of ds n <> None;
  r_req_before : forall n, In n (req_before s) <-> dbefore_of ds n <> None;
  r_req_after_nd : NoDup (req_after s);
  r_req_before_nd : NoDup (req_before s);
  r_val : forall n, aget n (name2val s) = option_map dval (dfind ds n);
  r_cfg : (default_before s, default_after s, first s, last s) = c
}.

Lemma Rep_new c : Rep c (new_sorter c) [].
Proof.
  destruct c as [[[db da] f] l]. constructor; simpl.
  - reflexivity.
  - apply NoDup_nil.
  - apply perm_nil.
  - intros n. reflexivity.
  - intros n. reflexivity.
  - apply NoDup_nil.
  - apply NoDup_nil.
  - apply NoDup_nil.
  - intros n. split; [intros []|intros H; apply H; reflexivity].
  - intros n. split; [intros []|intros H; apply H; reflexivity].
  - apply NoDup_nil.
  - apply NoDup_nil.
  - intros n. reflexivity.
  - reflexivity.
Qed.

Lemma aget_adel_cases {V} n m (g : list (node * V)) :
  NoDup (keys g) -> aget m (adel n g) = if text_eqb m n then None else aget m g.
Proof.
  intros Hnd. destruct (text_eqb_spec m n) as [->|Hne].
  - apply aget_adel_same. exact Hnd.
  - apply aget_adel_other. congruence.
Qed.

Lemma keys_adel_nodup {V} n (g : list (node * V)) : NoDup (keys g) -> NoDup (keys (adel n g)).
Proof. intros H. rewrite keys_adel. apply NoDup_remove_first. exact H. Qed.

Lemma Rep_remove c s ds n :
  Rep c s ds -> In n (names s) -> exists s', remove n s = Some s' /\ Rep c s' (spec_remove n ds).
Proof.
  intros R Hin.
  assert (Hn : In n (dnames ds)) by (rewrite <- (r_names _ _ _ R); exact Hin).
  destruct (dfind_In ds n Hn) as (d & Hd). destruct (dfind_Some _ _ _ Hd) as (_ & Hdn).
  assert (Ea : aget n (name2after s) = dafter d) by (rewrite (r_after _ _ _ R); unfold dafter_of; rewrite Hd; reflexivity).
  assert (Eb : aget n (name2before s) = dbefore d) by (rewrite (r_before _ _ _ R); unfold dbefore_of; rewrite Hd; reflexivity).
  assert (Hda : forall m, dafter_of (spec_remove n ds) m = if text_eqb m n then None else dafter_of ds m).
  { intros m. unfold dafter_of. rewrite dfind_remove. destruct (text_eqb m n); reflexivity. }
  assert (Hdb : forall m, dbefore_of (spec_remove n ds) m = if text_eqb m n then None else dbefore_of ds m).
  { intros m. unfold dbefore_of. rewrite dfind_remove. destruct (text_eqb m n); reflexivity. }
  unfold remove. apply mem_text_In in Hin. rewrite Hin. rewrite Ea, Eb.
  set (ra := match dafter d with Some _ => remove_first n (req_after s) | None => req_after s end).
  set (rb := match dbefore d with Some _ => remove_first n (req_before s) | None => req_before s end).
  set (ord2 := fold_left (fun o e => remove_arc e o) (decl_arcs d) (order s)).
  exists (upd s (remove_first n (names s)) rb ra (adel n (name2before s)) (adel n (name2after s))
              (adel n (name2val s)) ord2).
  split.
  { unfold ord2, decl_arcs. rewrite fold_left_app, Hdn.
    rewrite <- !(fold_left_map_arg (fun o e => remove_arc e o)).
    unfold ra, rb. destruct (dafter d), (dbefore d); reflexivity. }
  constructor; cbn [upd names order name2after name2before name2val req_after req_before
                    default_before default_after first last].
  - rewrite (r_names _ _ _ R). symmetry. apply dnames_spec_remove. apply (r_nodup _ _ _ R).
  - rewrite dnames_spec_remove by apply (r_nodup _ _ _ R). apply NoDup_remove_first. apply (r_nodup _ _ _ R).
  - unfold ord2. apply remove_arcs_perm.
    eapply Permutation_trans; [apply (r_order _ _ _ R)|]. apply flat_map_remove; [apply (r_nodup _ _ _ R)|exact Hd].
  - intros m. rewrite aget_adel_cases by apply (r_after_keys _ _ _ R). rewrite Hda, (r_after _ _ _ R). reflexivity.
  - intros m. rewrite aget_adel_cases by apply (r_before_keys _ _ _ R). rewrite Hdb, (r_before _ _ _ R). reflexivity.
  - apply keys_adel_nodup, (r_after_keys _ _ _ R).
  - apply keys_adel_nodup, (r_before_keys _ _ _ R).
  - apply keys_adel_nodup, (r_val_keys _ _ _ R).
  - intros m. rewrite Hda. unfold ra.
    assert (Hnd : dafter_of ds n = dafter d) by (unfold dafter_of; rewrite Hd; reflexivity).
    destruct (dafter d) eqn:Ed.
    + rewrite In_remove_first_nodup by apply (r_req_after_nd _ _ _ R). rewrite (r_req_after _ _ _ R).
      destruct (text_eqb_spec m n) as [->|Hne]; [split; [intros (_ & H); congruence|intros H; congruence]|tauto].
    + rewrite (r_req_after _ _ _ R). destruct (text_eqb_spec m n) as [->|Hne]; [|tauto].
      rewrite Hnd. tauto.
  - intros m. rewrite Hdb. unfold rb.
    assert (Hnd : dbefore_of ds n = dbefore d) by (unfold dbefore_of; rewrite Hd; reflexivity).
    destruct (dbefore d) eqn:Ed.
    + rewrite In_remove_first_nodup by apply (r_req_before_nd _ _ _ R). rewrite (r_req_before _ _ _ R).
      destruct (text_eqb_spec m n) as [->|Hne]; [split; [intros (_ & H); congruence|intros H; congruence]|tauto].
    + rewrite (r_req_before _ _ _ R). destruct (text_eqb_spec m n) as [->|Hne]; [|tauto].
      rewrite Hnd. tauto.
  - unfold ra. destruct (dafter d); [apply NoDup_remove_first|]; apply (r_req_after_nd _ _ _ R).
  - unfold rb. destruct (dbefore d); [apply NoDup_remove_first|]; apply (r_req_before_nd _ _ _ R).
  - intros m. rewrite aget_adel_cases by apply (r_val_keys _ _ _ R). rewrite dfind_remove, (r_val _ _ _ R).
    destruct (text_eqb m n); reflexivity.
  - apply (r_cfg _ _ _ R).
Qed.

Lemma In_set_add m n l : In m (set_add n l) <-> In m l \/ m = n.
Proof.
  unfold set_add. destruct (mem_text n l) eqn:E.
  - apply mem_text_In in E. split; [auto|intros [H| ->]; auto].
  - rewrite in_app_iff. simpl. split; [intros [H|[H|[]]]; auto|intros [H|H]; auto].
Qed.

Lemma NoDup_set_add n l : NoDup l -> NoDup (set_add n l).
Proof.
  intros H. unfold set_add. destruct (mem_text n l) eqn:E; [exact H|].
  apply NoDup_snoc; [exact H|apply mem_text_false; exact E].
Qed.

Lemma aget_aset_cases {V} n m (v : V) g : aget m (aset n v g) = if text_eqb m n then Some v else aget m g.
Proof.
  destruct (text_eqb_spec m n) as [->|Hne]; [apply aget_aset_same|apply aget_aset_other; congruence].
Qed.

Lemma keys_aset_nodup {V} n (v : V) g : NoDup (keys g) -> NoDup (keys (aset n v g)).
Proof.
  intros H. destruct (in_dec text_eq_dec n (keys g)) as [Hi|Hi].
  - rewrite keys_aset_in by exact Hi. exact H.
  - rewrite keys_aset_notin by exact Hi. apply NoDup_snoc; assumption.
Qed.

Lemma Rep_add_core c s ds n v oa ob :
  Rep c s ds -> ~ In n (names s) -> Rep c (add_core n v oa ob s) (ds ++ [mkDecl n v oa ob]).
Proof.
  intros R Hnot.
  assert (Hn : ~ In n (dnames ds)) by (rewrite <- (r_names _ _ _ R); exact Hnot).
  assert (Hf : dfind ds n = None) by (apply dfind_None; exact Hn).
  assert (Hda : forall m, dafter_of (ds ++ [mkDecl n v oa ob]) m = if text_eqb m n then oa else dafter_of ds m).
  { intros m. unfold dafter_of. rewrite dfind_snoc. simpl.
    destruct (text_eqb_spec m n) as [->|Hne]; [rewrite Hf; reflexivity|]. destruct (dfind ds m); reflexivity. }
  assert (Hdb : forall m, dbefore_of (ds ++ [mkDecl n v oa ob]) m = if text_eqb m n then ob else dbefore_of ds m).
  { intros m. unfold dbefore_of. rewrite dfind_snoc. simpl.
    destruct (text_eqb_spec m n) as [->|Hne]; [rewrite Hf; reflexivity|]. destruct (dfind ds m); reflexivity. }
  assert (Hna : aget n (name2after s) = None) by (rewrite (r_after _ _ _ R); unfold dafter_of; rewrite Hf; reflexivity).
  assert (Hnb : aget n (name2before s) = None) by (rewrite (r_before _ _ _ R); unfold dbefore_of; rewrite Hf; reflexivity).
  unfold add_core.
  constructor; cbn [upd names order name2after name2before name2val req_after req_before
                    default_before default_after first last].
  - unfold dnames. rewrite map_app. simpl. rewrite (r_names _ _ _ R). reflexivity.
  - unfold dnames. rewrite map_app. simpl. apply NoDup_snoc; [apply (r_nodup _ _ _ R)|exact Hn].
  - rewrite flat_map_app. simpl. rewrite app_nil_r. unfold decl_arcs at 2. simpl.
    rewrite <- app_assoc. apply Permutation_app_tail. apply (r_order _ _ _ R).
  - intros m. rewrite Hda. destruct oa as [a|].
    + rewrite aget_aset_cases. destruct (text_eqb m n); [reflexivity|apply (r_after _ _ _ R)].
    + destruct (text_eqb_spec m n) as [->|Hne]; [exact Hna|apply (r_after _ _ _ R)].
  - intros m. rewrite Hdb. destruct ob as [b|].
    + rewrite aget_aset_cases. destruct (text_eqb m n); [reflexivity|apply (r_before _ _ _ R)].
    + destruct (text_eqb_spec m n) as [->|Hne]; [exact Hnb|apply (r_before _ _ _ R)].
  - destruct oa; [apply keys_aset_nodup|]; apply (r_after_keys _ _ _ R).
  - destruct ob; [apply keys_aset_nodup|]; apply (r_before_keys _ _ _ R).
  - apply keys_aset_nodup, (r_val_keys _ _ _ R).
  - intros m. rewrite Hda. destruct oa as [a|].
    + rewrite In_set_add, (r_req_after _ _ _ R). destruct (text_eqb_spec m n) as [->|Hne].
      * split; [intros _; discriminate|auto].
      * split; [intros [H|H]; [exact H|contradiction]|auto].
    + rewrite (r_req_after _ _ _ R). destruct (text_eqb_spec m n) as [->|Hne]; [|tauto].
      unfold dafter_of. rewrite Hf. tauto.
  - intros m. rewrite Hdb. destruct ob as [b|].
    + rewrite In_set_add, (r_req_before _ _ _ R). destruct (text_eqb_spec m n) as [->|Hne].
      * split; [intros _; discriminate|auto].
      * split; [intros [H|H]; [exact H|contradiction]|auto].
    + rewrite (r_req_before _ _ _ R). destruct (text_eqb_spec m n) as [->|Hne]; [|tauto].
      unfold dbefore_of. rewrite Hf. tauto.
  - destruct oa; [apply NoDup_set_add|]; apply (r_req_after_nd _ _ _ R).
  - destruct ob; [apply NoDup_set_add|]; apply (r_req_before_nd _ _ _ R).
  - intros m. rewrite aget_aset_cases, dfind_snoc, (r_val _ _ _ R). simpl.
    destruct (text_eqb_spec m n) as [->|Hne]; [rewrite Hf; reflexivity|]. destruct (dfind ds m); reflexivity.
  - apply (r_cfg _ _ _ R).
Qed.

Lemma Rep_add c s ds n v a b : Rep c s ds -> Rep c (add n v a b s) (spec_add c n v a b ds).
Proof.
  intros R. unfold add, spec_add.
  assert (Hstep : exists s1, (if mem_text n (names s)
                              then match remove n s with Some s' => s' | None => s end else s) = s1
                             /\ Rep c s1 (spec_remove n ds) /\ ~ In n (names s1)).
  { destruct (mem_text n (names s)) eqn:E.
    - apply mem_text_In in E. destruct (Rep_remove c s ds n R E) as (s' & Hs' & R').
      rewrite Hs'. exists s'. split; [reflexivity|]. split; [exact R'|].
      rewrite (names_remove n s s' Hs'). intros H.
      apply In_remove_first_nodup in H; [tauto|]. rewrite (r_names _ _ _ R). apply (r_nodup _ _ _ R).
    - exists s. apply mem_text_false in E. split; [reflexivity|]. split; [|exact E].
      rewrite spec_remove_notin; [exact R|]. rewrite <- (r_names _ _ _ R). exact E. }
  destruct Hstep as (s1 & -> & R1 & Hnot).
  pose proof (r_cfg _ _ _ R1) as Hc. destruct c as [[[db da] f] l]. injection Hc as -> -> _ _.
  destruct a, b; apply Rep_add_core; assumption.
Qed.

Lemma Rep_op c s ds o : Rep c s ds -> Rep c (fst (apply_op s o)) (spec_op c ds o).
Proof.
  intros R. destruct o as [n v a b|n]; simpl; [apply Rep_add; exact R|].
  destruct (in_dec text_eq_dec n (names s)) as [Hi|Hi].
  - destruct (Rep_remove c s ds n R Hi) as (s' & Hs' & R'). rewrite Hs'. exact R'.
  - assert (E : remove n s = None) by (unfold remove; apply mem_text_false in Hi; rewrite Hi; reflexivity).
    rewrite E. simpl. rewrite spec_remove_notin; [exact R|]. rewrite <- (r_names _ _ _ R). exact Hi.
Qed.

Lemma Rep_ops c ops : forall s ds, Rep c s ds -> Rep c (final_state s ops) (fold_left (spec_op c) ops ds).
Proof.
  unfold final_state. induction ops as [|o ops IH]; intros s ds R; simpl; [exact R|].
  apply IH. apply Rep_op. exact R.
Qed.

Lemma Rep_reachable c ops : Rep c (final_state (new_sorter c) ops) (decls_of c ops).
Proof. apply Rep_ops. apply Rep_new. Qed.

(* ---------- the judge accepts every answer of the model *)
Lemma aget_In_pair {V} n (v : V) g : aget n g = Some v -> In (n, v) g.
Proof.
  induction g as [|[k w] g IH]; simpl; [discriminate|].
  destruct (text_eqb_spec n k) as [->|Hne]; [intros H; injection H as ->; left; reflexivity|auto].
Qed.

Lemma In_pair_aget {V} n (v : V) g : NoDup (keys g) -> In (n, v) g -> aget n g = Some v.
Proof.
  induction g as [|[k w] g IH]; simpl; [intros _ []|]. intros Hnd. inversion Hnd as [|? ? Hnot Hnd']; subst.
  intros [H|H].
  - injection H as -> ->. rewrite text_eqb_refl. reflexivity.
  - destruct (text_eqb_spec n k) as [->|Hne]; [|auto].
    exfalso. apply Hnot. apply (in_map fst) in H. exact H.
Qed.

Lemma dfind_unique ds d : NoDup (dnames ds) -> In d ds -> dfind ds (dname d) = Some d.
Proof.
  unfold dfind, dnames. induction ds as [|d0 ds IH]; simpl; [intros _ []|].
  intros Hnd. inversion Hnd as [|? ? Hnot Hnd']; subst. intros [->|H].
  - rewrite text_eqb_refl. reflexivity.
  - destruct (text_eqb_spec (dname d) (dname d0)) as [E|Hne]; [|auto].
    exfalso. apply Hnot. rewrite <- E. apply in_map. exact H.
Qed.

Lemma nodupb_true l : NoDup l -> nodupb l = true.
Proof.
  induction 1 as [|x l Hnot Hnd IH]; simpl; [reflexivity|].
  rewrite IH, andb_true_r. apply negb_true_iff. apply mem_text_false. exact Hnot.
Qed.

Lemma subset_true a b : (forall x, In x a -> In x b) -> subset a b = true.
Proof. intros H. apply forallb_forall. intros x Hx. apply mem_text_In. auto. Qed.

Lemma same_set_true a b : (forall x, In x a <-> In x b) -> same_set a b = true.
Proof. intros H. unfold same_set. rewrite !subset_true; [reflexivity| |]; intros x Hx; apply H; exact Hx. Qed.

Lemma no_elements {A} (l : list A) : (forall x, ~ In x l) -> l = [].
Proof. destruct l as [|x l]; [reflexivity|]. intros H. exfalso. apply (H x). left. reflexivity. Qed.

Section Judged.
Variables (c : cfg) (s : sorter) (ds : list decl).
Hypothesis R : Rep c s ds.

Lemma rep_all_names : all_names s = spec_nodes c ds.
Proof.
  pose proof (r_cfg _ _ _ R) as Hc. unfold all_names, spec_nodes. rewrite (r_names _ _ _ R).
  destruct c as [[[db da] f] l]. injection Hc as _ _ -> ->. reflexivity.
Qed.

Lemma rep_parcs e : In e (parcs s) <-> In e (spec_arcs c ds).
Proof.
  unfold parcs, spec_arcs, all_order. rewrite !filter_In, rep_all_names.
  pose proof (r_cfg _ _ _ R) as Hc.
  assert (Hf : first s = cfg_first c /\ last s = cfg_last c).
  { destruct c as [[[db da] f] l]. injection Hc as _ _ -> ->. split; reflexivity. }
  destruct Hf as (-> & ->). simpl.
  assert (Ho : In e (order s) <-> In e (flat_map decl_arcs ds)).
  { split; apply Permutation_in; [|apply Permutation_sym]; apply (r_order _ _ _ R). }
  tauto.
Qed.

Lemma rep_unsat (req : sorter -> list node) (n2 : sorter -> list (node * list node))
      (proj : decl -> option (list node)) :
  (forall n, aget n (n2 s) = match dfind ds n with Some d => proj d | None => None end) ->
  NoDup (keys (n2 s)) ->
  (forall n, In n (req s) <-> match dfind ds n with Some d => proj d | None => None end <> None) ->
  forall n, In n (missing (req s) (has_dep (all_names s) (n2 s))) <->
            In n (dnames (filter (fun d => unsat (spec_nodes c ds) (proj d)) ds)).
Proof.
  intros Hget Hkeys Hreq n. rewrite In_missing, In_has_dep, rep_all_names, Hreq.
  unfold dnames. rewrite in_map_iff. split.
  - intros (Hne & Hno). destruct (dfind ds n) as [d|] eqn:Ed; [|congruence].
    destruct (dfind_Some _ _ _ Ed) as (Hin & Hdn). exists d. split; [exact Hdn|].
    apply filter_In. split; [exact Hin|]. destruct (proj d) as [l|] eqn:Ep; [|congruence].
    unfold unsat. apply negb_true_iff.
    destruct (existsb (fun a => mem_text a (spec_nodes c ds)) l) eqn:Ex; [|reflexivity].
    exfalso. apply Hno. exists l. split.
    + apply aget_In_pair. rewrite Hget, Ed. exact Ep.
    + apply existsb_exists in Ex. destruct Ex as (a & Ha & Hm). apply mem_text_In in Hm. eauto.
  - intros (d & Hdn & Hf). apply filter_In in Hf. destruct Hf as (Hin & Hu).
    pose proof (dfind_unique ds d (r_nodup _ _ _ R) Hin) as Ed. rewrite Hdn in Ed. rewrite Ed.
    destruct (proj d) as [l|] eqn:Ep; [|discriminate]. split; [discriminate|].
    intros (alts & Hpair & a & Ha & Hpres).
    apply In_pair_aget in Hpair; [|exact Hkeys]. rewrite Hget, Ed, Ep in Hpair. injection Hpair as <-.
    unfold unsat in Hu. apply negb_true_iff in Hu.
    assert (Ex : existsb (fun a0 => mem_text a0 (spec_nodes c ds)) l = true).
    { apply existsb_exists. exists a. split; [exact Ha|apply mem_text_In; exact Hpres]. }
    congruence.
Qed.

Lemma rep_miss_before n : In n (miss_before s) <-> In n (unsat_before c ds).
Proof.
  apply (rep_unsat req_before name2before dbefore);
    [apply (r_before _ _ _ R)|apply (r_before_keys _ _ _ R)|apply (r_req_before _ _ _ R)].
Qed.

Lemma rep_miss_after n : In n (miss_after s) <-> In n (unsat_after c ds).
Proof.
  apply (rep_unsat req_after name2after dafter);
    [apply (r_after _ _ _ R)|apply (r_after_keys _ _ _ R)|apply (r_req_after _ _ _ R)].
Qed.

Lemma rep_val n : val_of s n = decl_val ds n.
Proof.
  unfold val_of, decl_val. rewrite (r_val _ _ _ R). unfold dfind. destruct (find _ ds); reflexivity.
Qed.

Theorem judge_sorted : judge c ds (sorted s) = true.
Proof.
  pose proof (sorted_state s) as HS.
  assert (Hnd : NoDup (names s)) by (rewrite (r_names _ _ _ R); apply (r_nodup _ _ _ R)).
  destruct (sorted s) as [l|l|l|l|] eqn:E; cbn [sorted_post] in HS.
  - destruct HS as (Hmb & Hma & _).
    destruct (sorted_perm_state s l E Hnd) as (Hperm & Hvals).
    destruct (sorted_respects_state s l E) as (_ & _ & _ & _ & _ & Hresp).
    assert (H1 : nodupb (map fst l) = true).
    { apply nodupb_true. eapply Permutation_NoDup; [apply Permutation_sym; exact Hperm|exact Hnd]. }
    assert (H2 : same_set (map fst l) (dnames ds) = true).
    { apply same_set_true. intros x. rewrite <- (r_names _ _ _ R).
      split; apply Permutation_in; [|apply Permutation_sym]; exact Hperm. }
    assert (H3 : forallb (fun nv : node * N => N.eqb (snd nv) (decl_val ds (fst nv))) l = true).
    { apply forallb_forall. intros [n v] Hin. simpl. apply N.eqb_eq.
      rewrite (Hvals n v Hin). apply rep_val. }
    assert (H4 : respects (map fst l) (named_arcs c ds) = true).
    { unfold respects. apply forallb_forall. intros [a b] Hin. simpl.
      unfold named_arcs in Hin. apply filter_In in Hin. destruct Hin as (Harc & Hp).
      unfold arc_present in Hp. cbn [fst snd] in Hp. apply andb_true_iff in Hp. destruct Hp as (Ha & Hb).
      apply mem_text_In in Ha, Hb. rewrite <- (r_names _ _ _ R) in Ha, Hb.
      apply Hresp; [|exact Ha|exact Hb].
      eapply Permutation_in; [apply Permutation_sym; apply (r_order _ _ _ R)|exact Harc]. }
    assert (H5 : unsat_before c ds = []).
    { apply no_elements. intros x Hx. apply rep_miss_before in Hx. rewrite Hmb in Hx. exact Hx. }
    assert (H6 : unsat_after c ds = []).
    { apply no_elements. intros x Hx. apply rep_miss_after in Hx. rewrite Hma in Hx. exact Hx. }
    unfold judge. cbv zeta. rewrite H1, H2, H3, H4, H5, H6. reflexivity.
  - destruct HS as (-> & Hne). unfold judge. apply andb_true_iff. split.
    + destruct (miss_before s); [congruence|reflexivity].
    + apply same_set_true. apply rep_miss_before.
  - destruct HS as (_ & -> & Hne). unfold judge. apply andb_true_iff. split.
    + destruct (miss_after s); [congruence|reflexivity].
    + apply same_set_true. apply rep_miss_after.
  - destruct HS as (_ & _ & Hne & Hcert).
    assert (H1 : nonempty (map fst l) = true) by (destruct l; [congruence|reflexivity]).
    assert (H2 : subset (map fst l) (spec_nodes c ds) = true).
    { apply subset_true. intros k Hk. rewrite <- rep_all_names. apply (Hcert k Hk). }
    assert (H3 : forallb (fun k => existsb (fun e : arc => text_eqb (snd e) k && mem_text (fst e) (map fst l))
                                            (spec_arcs c ds)) (map fst l) = true).
    { apply forallb_forall. intros k Hk. destruct (Hcert k Hk) as (_ & a & Harc & Ha).
      apply existsb_exists. exists (a, k). split; [apply rep_parcs; exact Harc|].
      simpl. rewrite text_eqb_refl. simpl. apply mem_text_In. exact Ha. }
    unfold judge. cbv zeta. rewrite H1, H2. cbn [andb]. exact H3.
  - contradiction.
Qed.
End Judged.

(* for every constructor flavour and every sequence of calls: after each call the
   answer of sorted() is accepted by the judge for the declarations then in force;
   ValueError exactly for removing an undeclared name *)
Fixpoint steps_ok (c : cfg) (ds : list decl) (ops : list op) (rs : list step_result) : Prop :=
  match ops, rs with
  | [], [] => True
  | o :: ops', r :: rs' =>
      let ds' := spec_op c ds o in
      match r with
      | RValueError => exists n, o = ORemove n /\ ~ In n (dnames ds)
      | RSorted out => judge c ds' out = true /\ (forall n, o = ORemove n -> In n (dnames ds))
      end /\ steps_ok c ds' ops' rs'
  | _, _ => False
  end.

Lemma run_ops_judged c ops : forall s ds, Rep c s ds -> steps_ok c ds ops (run_ops s ops).
Proof.
  induction ops as [|o ops IH]; intros s ds R; simpl; [exact I|].
  pose proof (Rep_op c s ds o R) as R'.
  destruct (apply_op s o) as [s' ve] eqn:Ea. simpl in R'.
  split; [|apply IH; exact R'].
  destruct o as [n v a b|n]; simpl in Ea.
  - injection Ea as <- <-. split; [apply judge_sorted; exact R'|discriminate].
  - destruct (remove n s) as [s1|] eqn:Er; injection Ea as <- <-.
    + split; [apply judge_sorted; exact R'|]. intros m Hm. injection Hm as <-.
      rewrite <- (r_names _ _ _ R). unfold remove in Er.
      destruct (mem_text n (names s)) eqn:Em; [apply mem_text_In; exact Em|discriminate].
    + exists n. split; [reflexivity|]. rewrite <- (r_names _ _ _ R). intros Hin.
      apply mem_text_In in Hin. destruct (remove_Some n s Hin) as (s1 & Hs1). congruence.
Qed.

Theorem model_judged c ops : steps_ok c [] ops (run_ops (new_sorter c) ops).
Proof. apply run_ops_judged. apply Rep_new. Qed.

(* unsatisfied_iff_error over declarations *)
Theorem unsatisfied_iff_error_ops c ops :
  let s := final_state (new_sorter c) ops in
  let ds := decls_of c ops in
  ((exists l, sorted s = UnsatBefore l) <-> unsat_before c ds <> []) /\
  ((exists l, sorted s = UnsatAfter l) <-> unsat_before c ds = [] /\ unsat_after c ds <> []).
Proof.
  intros s ds. pose proof (Rep_reachable c ops) as R. fold s ds in R.
  destruct (unsat_error_state s) as (H1 & H2 & _).
  assert (Eb : miss_before s = [] <-> unsat_before c ds = []).
  { split; intros H; apply no_elements; intros x Hx;
      [apply (rep_miss_before c s ds R) in Hx; rewrite H in Hx|apply (rep_miss_before c s ds R) in Hx; rewrite H in Hx];
      exact Hx. }
  assert (Ea : miss_after s = [] <-> unsat_after c ds = []).
  { split; intros H; apply no_elements; intros x Hx;
      [apply (rep_miss_after c s ds R) in Hx; rewrite H in Hx|apply (rep_miss_after c s ds R) in Hx; rewrite H in Hx];
      exact Hx. }
  rewrite H1, H2. tauto.
Qed.

(* sorted_respects over declarations: every item is on the required side of every
   declared item it names *)
Theorem sorted_respects_ops c ops l :
  sorted (final_state (new_sorter c) ops) = Sorted l ->
  forall d, In d (decls_of c ops) ->
    (forall u, In u (opt_list (dafter d)) -> In u (dnames (decls_of c ops)) ->
               precedes (map fst l) u (dname d) = true) /\
    (forall o, In o (opt_list (dbefore d)) -> In o (dnames (decls_of c ops)) ->
               precedes (map fst l) (dname d) o = true).
Proof.
  intros E d Hd. pose proof (Rep_reachable c ops) as R.
  destruct (sorted_respects_state _ l E) as (_ & _ & _ & _ & _ & Hresp).
  assert (Hdn : In (dname d) (names (final_state (new_sorter c) ops))).
  { rewrite (r_names _ _ _ R). apply in_map. exact Hd. }
  assert (Harcs : forall e, In e (decl_arcs d) -> In e (order (final_state (new_sorter c) ops))).
  { intros e He. eapply Permutation_in; [apply Permutation_sym; apply (r_order _ _ _ R)|].
    apply in_flat_map. exists d. split; assumption. }
  split.
  - intros u Hu Hp. apply Hresp; [|rewrite (r_names _ _ _ R); exact Hp|exact Hdn].
    apply Harcs. unfold decl_arcs. apply in_or_app. left. apply in_map_iff. exists u. split; [reflexivity|exact Hu].
  - intros o Ho Hp. apply Hresp; [|exact Hdn|rewrite (r_names _ _ _ R); exact Hp].
    apply Harcs. unfold decl_arcs. apply in_or_app. right. apply in_map_iff. exists o. split; [reflexivity|exact Ho].
Qed.

(* ---------- predicate directives and tween histories through the same invariant *)
Lemma pred_directive_add k n v more less s : pred_directive k n v more less s = add n v more less s.
Proof.
  unfold pred_directive, predlist_add, pd_straight.
  assert (E1 : pd_view_straight = true) by reflexivity.
  assert (E2 : pd_route_straight = true) by reflexivity.
  assert (E3 : pd_subscriber_straight = true) by reflexivity.
  assert (E4 : pd_inner_straight = true) by reflexivity.
  assert (E5 : pl_after_is_more_than = true) by reflexivity.
  rewrite E1, E2, E3, E4, E5. destruct k; reflexivity.
Qed.

Lemma final_state_app s a b : final_state s (a ++ b) = final_state (final_state s a) b.
Proof. unfold final_state. apply fold_left_app. Qed.

Lemma preds_scenario_ops k adds :
  preds_scenario k adds = final_state (new_sorter cfg_plain) (pred_ops k adds).
Proof.
  unfold preds_scenario, pred_ops. rewrite final_state_app.
  set (s0 := fold_left _ (pd_defaults k) _).
  assert (E0 : s0 = final_state (new_sorter cfg_plain) (map (fun n => OAdd n 0%N HNone HNone) (pd_defaults k))).
  { unfold s0, final_state. generalize (new_sorter cfg_plain).
    induction (pd_defaults k) as [|x l IH]; intros s; simpl; [reflexivity|].
    rewrite pred_directive_add. apply IH. }
  rewrite <- E0. generalize s0. unfold final_state.
  induction adds as [|[[[n f] m] l] adds IH]; intros s; simpl; [reflexivity|].
  rewrite pred_directive_add. apply IH.
Qed.

(* every order a predicate list can take after any add_*_predicate calls is accepted
   by the judge for the declarations  weighs_more_than = after, weighs_less_than = before *)
Theorem preds_scenario_judged k adds :
  judge cfg_plain (decls_of cfg_plain (pred_ops k adds)) (sorted (preds_scenario k adds)) = true.
Proof. rewrite preds_scenario_ops. apply judge_sorted. apply Rep_reachable. Qed.

Lemma add_implicit_sorter n f u o t : tw_sorter (add_implicit n f u o t) = add n f u o (tw_sorter t).
Proof. unfold add_implicit. assert (E : tw_after_is_under = true) by reflexivity. rewrite E. reflexivity. Qed.

Lemma tweens_init_rep ex : Rep cfg_tweens (tw_sorter (tweens_init ex)) tweens_init_decls.
Proof.
  unfold tweens_init, tweens_init_decls.
  assert (E : forall l t, tw_sorter (fold_left (fun t nf => add_explicit (fst nf) (snd nf) t) l t) = tw_sorter t).
  { induction l as [|x l IH]; intros t; simpl; [reflexivity|]. rewrite IH. reflexivity. }
  rewrite E. clear E.
  assert (G : forall l t ds, Rep cfg_tweens (tw_sorter t) ds ->
            Rep cfg_tweens (tw_sorter (fold_left (fun t n => add_implicit n 0%N HNone HNone t) l t))
                (fold_left (spec_op cfg_tweens) (map (fun n => OAdd n 0%N HNone HNone) l) ds)).
  { induction l as [|x l IH]; intros t ds R; cbn [fold_left map]; [exact R|].
    apply IH. rewrite add_implicit_sorter.
    exact (Rep_op cfg_tweens (tw_sorter t) ds (OAdd x 0%N HNone HNone) R). }
  apply G. apply Rep_new.
Qed.

(* the states of a Tweens utility at each look (implicit() or a request), with the declarations then in force *)
Fixpoint hist_looks (t : tweens) (ds : list decl) (evs : list tevent) : list (tweens * list decl) :=
  match evs with
  | [] => []
  | TAdd (n, f, u, o) :: r =>
      if N.eqb (add_tween_check n u o) 0
      then hist_looks (add_implicit n f u o t) (spec_add cfg_tweens n f u o ds) r
      else hist_looks t ds r
  | _ :: r => (t, ds) :: hist_looks t ds r
  end.

(* however additions (incl. re-additions) and looks are interleaved, every look sees an
   implicit order / error that the judge accepts for the declarations in force at that moment *)
Theorem tweens_history_judged ex evs :
  Forall (fun td => judge cfg_tweens (snd td) (implicit (fst td)) = true)
         (hist_looks (tweens_init ex) tweens_init_decls evs).
Proof.
  assert (G : forall evs t ds, Rep cfg_tweens (tw_sorter t) ds ->
            Forall (fun td => judge cfg_tweens (snd td) (implicit (fst td)) = true) (hist_looks t ds evs)).
  { clear evs. induction evs as [|e evs IH]; intros t ds R; simpl; [constructor|].
    destruct e as [[[[n f] u] o]| |].
    - destruct (N.eqb (add_tween_check n u o) 0); [|apply IH; exact R].
      apply IH. rewrite add_implicit_sorter. exact (Rep_add cfg_tweens (tw_sorter t) ds n f u o R).
    - constructor; [apply judge_sorted; exact R|apply IH; exact R].
    - constructor; [apply judge_sorted; exact R|apply IH; exact R]. }
  apply G. apply tweens_init_rep.
Qed.
