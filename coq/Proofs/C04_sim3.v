(* C04 proofs, part 20: "Deferred discriminators are resolved when their phase is reached" for the step that follows a
   (re-)declaration, in the specification's vocabulary ([forces_of], [upto]) and on the pool itself. *)
From Coq Require Import List NArith ZArith Bool Lia Permutation Sorted.
Import ListNotations.
Require Import Verif.Lib.Wire Verif.Lib.C04Sort Verif.Gen.Facts_C04 Verif.Model.C04.
Require Import Verif.Proofs.C04 Verif.Proofs.C04_flat Verif.Proofs.C04_decide Verif.Proofs.C04_safe Verif.Proofs.C04_groups
               Verif.Proofs.C04_spec Verif.Proofs.C04_mono Verif.Proofs.C04_defer.

(* the pool in the order the generator visits it: by phase, declaration order within a phase *)
Definition phase_sorted (s : N) (pool : list action) : list action :=
  map snd (sort (leb_by orderandpos_key) (enumerate s pool)).

Lemma forces_forces_of l : forces l = forces_of (map snd l).
Proof.
  unfold forces, forces_of, dfr. induction l as [|x r IH]; simpl; [reflexivity|].
  destruct (is_deferred (adisc (snd x))); simpl; rewrite IH; reflexivity.
Qed.

Lemma reached_upto k l : map snd (reached k l) = upto k (map snd l).
Proof.
  unfold reached, upto. induction l as [|x r IH]; simpl; [reflexivity|]. unfold okey at 1.
  destruct (Z.leb (ordkey (snd x)) k); simpl; rewrite IH; reflexivity.
Qed.

Lemma phase_sorted_perm s pool : Permutation (phase_sorted s pool) pool.
Proof.
  unfold phase_sorted. rewrite <- (enumerate_snd pool s) at 2. apply Permutation_map. apply sort_perm.
Qed.

Lemma phase_sorted_sorted s pool : StronglySorted (fun a b => (ordkey a <= ordkey b)%Z) (phase_sorted s pool).
Proof.
  unfold phase_sorted. pose proof (sorted_enumerate_okey s pool) as H.
  induction H as [|x l Hs IH Hall]; simpl; constructor; [exact IH|].
  rewrite Forall_forall in *. intros b Hb. apply in_map_iff in Hb. destruct Hb as [y [<- Hy]]. apply (Hall y Hy).
Qed.

(* THE STEP AFTER A (RE-)DECLARATION: the events it emits before handing out [a] are the forcings of exactly the
   still-deferred pending actions of phase <= phase of [a], phase by phase, in declaration order within a phase *)
Theorem restart_step_forces cfg st new a st2 g2 e :
  Forall Pact (remaining st) -> Forall Pact new ->
  gen_next cfg (fst (restart st new)) (snd (restart st new)) = SYield a st2 g2 e ->
  e = forces_of (upto (ordkey a) (phase_sorted (start st) (remaining st ++ new))).
Proof.
  intros HR HN H. rewrite (deferred_when_reached_restart cfg st new a st2 g2 e HR HN H).
  rewrite forces_forces_of, reached_upto. reflexivity.
Qed.

Example restart_step_forces_witness :
  let st := {| resolved := []; remaining := [mkA 0 (Defer None) [] (Some 5%Z) []]; min_order := None; start := 0%N |} in
  let new := [mkA 1 (Defer (Some 7%N)) [] (Some 0%Z) []; mkA 2 (Defer None) [] (Some 0%Z) []] in
  (exists a st2 g2, gen_next cfg_fixed (fst (restart st new)) (snd (restart st new)) = SYield a st2 g2 [Force 1%N; Force 2%N]
                    /\ ordkey a = 0%Z) /\
  forces_of (upto 0 (phase_sorted 0 (remaining st ++ new))) = [Force 1%N; Force 2%N].
Proof. cbv zeta. split; [eexists; eexists; eexists; split; [vm_compute; reflexivity|reflexivity]|vm_compute; reflexivity]. Qed.
