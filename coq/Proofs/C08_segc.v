(* C08 -- intermediate commits over the REAL commit model of C04.

   commit_segs_runs_schedules: a program issued as  A ; commit() ; B ; commit()  (each segment with pairwise distinct
   ids and pairwise different discriminators, nested in any include tree) is executed by C04's [commit], applied to
   each segment in turn ([commit_segs], Model/C08.v), exactly in the order  schedule A ++ schedule B.
   commit_model_segmented_invariant: hence the store the real commit model leaves after two commits with a closed
   prefix is the store it leaves after ONE commit of any reordering / re-nesting of the same statements. *)
From Coq Require Import List NArith ZArith Bool Lia Permutation Sorted.
Import ListNotations.
Require Import Verif.Lib.Wire Verif.Lib.C04Sort Verif.Gen.Facts_C04 Verif.Gen.Facts_C08 Verif.Model.C04 Verif.Model.C08.
Require Import Verif.Proofs.C08 Verif.Proofs.C08_commit Verif.Proofs.C08_seg.

Definition acts_of (paths : list path) (decl : list (wstmt * nat)) : list action :=
  map (fun wp => to_action paths (fst wp) (snd wp)) decl.
Definition stmts_of (decl : list (wstmt * nat)) : list stmt := map (fun wp => wst (fst wp)) decl.

Theorem commit_segs_runs_schedules : forall paths declA declB,
  NoDup (map sid (stmts_of declA)) -> NoDup (map sid (stmts_of declB)) ->
  discs_nodup (acts_of paths declA) = true -> discs_nodup (acts_of paths declB) = true ->
  fst (commit_segs [acts_of paths declA; acts_of paths declB]) = Done /\
  run_ids (snd (commit_segs [acts_of paths declA; acts_of paths declB]))
    = sids (schedule (stmts_of declA)) ++ sids (schedule (stmts_of declB)).
Proof.
  intros paths declA declB HA HB DA DB.
  pose proof (commit_runs_schedule paths declA) as TA. cbv zeta in TA. destruct (TA HA DA) as [OA EA].
  pose proof (commit_runs_schedule paths declB) as TB. cbv zeta in TB. destruct (TB HB DB) as [OB EB].
  unfold acts_of, stmts_of in *. cbn [commit_segs].
  destruct (commit (map (fun wp => to_action paths (fst wp) (snd wp)) declA)) as [oA lgA] eqn:CA.
  cbn [fst snd] in OA, EA. subst oA.
  destruct (commit (map (fun wp => to_action paths (fst wp) (snd wp)) declB)) as [oB lgB] eqn:CB.
  cbn [fst snd] in OB, EB. subst oB. cbn [fst snd].
  split; [reflexivity|]. rewrite app_nil_r. rewrite run_ids_app. rewrite EA, EB. reflexivity.
Qed.

(* the statements executed by the two commits, picked back from the run events *)
Definition exec_store2 (paths : list path) (declA declB : list (wstmt * nat)) : store :=
  runl (pick (map fst (declA ++ declB))
             (run_ids (snd (commit_segs [acts_of paths declA; acts_of paths declB])))) empty.

Lemma NoDup_app_l {A} (a b : list A) : NoDup (a ++ b) -> NoDup a.
Proof.
  induction a as [|x r IH]; cbn [app]; intros H; [constructor|].
  inversion H as [|? ? Hn Hr]; subst. constructor; [|apply IH; exact Hr].
  intros Hin. apply Hn. apply in_or_app. left. exact Hin.
Qed.

Lemma NoDup_app_r {A} (a b : list A) : NoDup (a ++ b) -> NoDup b.
Proof.
  induction a as [|x r IH]; cbn [app]; intros H; [exact H|].
  inversion H; subst. apply IH. assumption.
Qed.

Lemma pick_app ws a b : pick ws (a ++ b) = pick ws a ++ pick ws b.
Proof.
  induction a as [|i r IH]; [reflexivity|]. cbn [app pick]. destruct (find_w i ws); rewrite IH; reflexivity.
Qed.

Lemma pick_schedule_sub ws sub :
  NoDup (map (fun x => sid (wst x)) ws) -> (forall w, In w sub -> In w ws) ->
  pick ws (sids (schedule (map wst sub))) = schedule (map wst sub).
Proof.
  intros Hnd Hs. unfold sids, schedule.
  rewrite <- (map_sort leb_w phase_leb wst (fun x y => eq_refl) sub).
  rewrite map_map. apply pick_sids; [exact Hnd|].
  intros w Hw. apply Hs. apply sort_In in Hw. exact Hw.
Qed.

Lemma exec_store2_final2 paths declA declB :
  NoDup (map sid (stmts_of (declA ++ declB))) ->
  discs_nodup (acts_of paths declA) = true -> discs_nodup (acts_of paths declB) = true ->
  exec_store2 paths declA declB = final2 (stmts_of declA) (stmts_of declB).
Proof.
  intros Hnd DA DB.
  assert (Hsplit : NoDup (map sid (stmts_of declA)) /\ NoDup (map sid (stmts_of declB))).
  { unfold stmts_of in *. rewrite map_app, map_app in Hnd. split.
    - eapply NoDup_app_l. exact Hnd.
    - eapply NoDup_app_r. exact Hnd. }
  destruct Hsplit as [HA HB].
  destruct (commit_segs_runs_schedules paths declA declB HA HB DA DB) as [_ E].
  unfold exec_store2. rewrite E. rewrite pick_app.
  assert (Hw : NoDup (map (fun x => sid (wst x)) (map fst (declA ++ declB)))).
  { unfold stmts_of in Hnd. rewrite map_map. rewrite map_map in Hnd. exact Hnd. }
  unfold stmts_of. rewrite <- !(map_map fst wst).
  rewrite (pick_schedule_sub (map fst (declA ++ declB)) (map fst declA) Hw)
    by (intros w Hin; rewrite map_app; apply in_or_app; left; exact Hin).
  rewrite (pick_schedule_sub (map fst (declA ++ declB)) (map fst declB) Hw)
    by (intros w Hin; rewrite map_app; apply in_or_app; right; exact Hin).
  unfold final2. rewrite runl_app. reflexivity.
Qed.

(* two commits (closed prefix) under the real commit model = one commit of any reordering / re-nesting *)
Theorem commit_model_segmented_invariant : forall paths paths' declA declB decl',
  let dA := stmts_of declA in
  let dB := stmts_of declB in
  let dl' := stmts_of decl' in
  NoDup (map sid (dA ++ dB)) -> Permutation (dA ++ dB) dl' ->
  discs_nodup (acts_of paths declA) = true -> discs_nodup (acts_of paths declB) = true ->
  discs_nodup (acts_of paths' decl') = true ->
  Horder (dA ++ dB) dl' -> H1 (dA ++ dB) -> H2 (dA ++ dB) -> closed_prefix dA dB -> seq_same_phase (dA ++ dB) ->
  store_eq (exec_store2 paths declA declB) (exec_store paths' decl').
Proof.
  intros paths paths' declA declB decl' dA dB dl' Hnd P DA DB D' Ho h1 h2 Hc Hs.
  assert (Hnd' : NoDup (map sid dl')).
  { eapply Permutation_NoDup; [apply Permutation_map; exact P|exact Hnd]. }
  assert (Hnd2 : NoDup (map sid (stmts_of (declA ++ declB)))).
  { unfold stmts_of. rewrite map_app. exact Hnd. }
  rewrite (exec_store2_final2 paths declA declB Hnd2 DA DB).
  unfold dl', stmts_of in Hnd'. rewrite (exec_store_final paths' decl' Hnd' D').
  apply segmented_variants_agree; assumption.
Qed.

(* ------------------------------------------------------------------ non-vacuity (statements of C08_commit.ExC) *)
Module ExS.
  Import ExC.
  (* first commit: the PHASE1 writer w1 and the PHASE2 container member w2 (which reads w1's key), in an include;
     second commit: the two default-phase readers.  The cut is closed: w3 / w4 write keys 3 / 4, which nobody of the
     first segment reads. *)
  Definition seg1 : list (wstmt * nat) := [(w2, 2%nat); (w1, 1%nat)].
  Definition seg2 : list (wstmt * nat) := [(w4, 2%nat); (w3, 0%nat)].

  Example two_commits :
    fst (commit_segs [acts_of pathsA seg1; acts_of pathsA seg2]) = Done /\
    run_ids (snd (commit_segs [acts_of pathsA seg1; acts_of pathsA seg2])) = [1; 2; 4; 3]%N /\
    discs_nodup (acts_of pathsA seg1) = true /\ discs_nodup (acts_of pathsA seg2) = true /\
    h1b (stmts_of seg1 ++ stmts_of seg2) = true /\ h2b (stmts_of seg1 ++ stmts_of seg2) = true.
  Proof. vm_compute. repeat split; reflexivity. Qed.

  Example closed : closed_prefix (stmts_of seg1) (stmts_of seg2).
  Proof.
    intros s r s' Hs Hr Hs'.
    destruct Hs as [<-|[<-|[]]]; cbn in Hr; try (destruct Hr as [<-|[]]); try destruct Hr;
      destruct Hs' as [<-|[<-|[]]]; reflexivity.
  Qed.

  (* the same store as ONE commit of another order in another include tree (computed) *)
  Example same_store_as_one_commit :
    forallb (fun k => cell_eqb (exec_store2 pathsA seg1 seg2 k) (exec_store pathsB declB k)) [1; 2; 3; 4; 5]%N = true /\
    exec_store2 pathsA seg1 seg2 4%N <> [].
  Proof. split; [vm_compute; reflexivity|vm_compute; discriminate]. Qed.
End ExS.
