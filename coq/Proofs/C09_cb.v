(* C09 -- sixth round: forget() / remember() issued from application response callbacks, and the order of the Set-Cookie
   headers when they meet identify's reissue callback. *)
From Coq Require Import List NArith ZArith Bool Lia.
Import ListNotations.
Require Import Verif.Lib.Wire Verif.Lib.Text Verif.Lib.Percent Verif.Lib.Utf8 Verif.Lib.C09Base Verif.Lib.C09BaseP.
Require Import Verif.Gen.Facts_C09 Verif.Model.C09 Verif.Proofs.C09 Verif.Proofs.C09_rt Verif.Proofs.C09_more Verif.Proofs.C09_gen Verif.Proofs.C09_w5.

Section CB.
Variable H : text -> list N -> text.
Variable dsz : text -> nat.
Variable uni : N -> N.

(* ---- the regenerated program *)
Theorem gen_run_cbs_is_model pol c r cbs : forall st,
  gen_run_cbs H dsz uni pol c r st cbs = run_cbs H dsz uni c r st cbs.
Proof.
  induction cbs as [|[hs|o] cbs IH]; intros st; cbn [gen_run_cbs run_cbs]; [reflexivity|rewrite IH; reflexivity|].
  replace (if pol then gen_pstep H dsz uni c r st o else gen_step H dsz uni c r st o) with (step H dsz uni c r st (op_of o))
    by (destruct pol; rewrite ?gen_pstep_is_step, ?gen_step_is_model; reflexivity).
  destruct (step H dsz uni c r st (op_of o)) as [st' x]. rewrite IH. reflexivity.
Qed.

Theorem gen_run_ops3_is_model pol c0 r0 c1 r1 ops : forall st cbs,
  gen_run_ops3 H dsz uni pol c0 r0 c1 r1 st cbs ops = run_ops3 H dsz uni c0 r0 c1 r1 st cbs ops.
Proof.
  induction ops as [|[b [o|o]] ops IH]; intros st cbs; cbn [gen_run_ops3 run_ops3]; [reflexivity| |rewrite IH; reflexivity].
  replace (if b then gen_step H dsz uni c1 r1 st o
           else if pol then gen_pstep H dsz uni c0 r0 st o else gen_step H dsz uni c0 r0 st o)
    with (if b then step H dsz uni c1 r1 st (op_of o) else step H dsz uni c0 r0 st (op_of o))
    by (destruct b, pol; rewrite ?gen_pstep_is_step, ?gen_step_is_model; reflexivity).
  destruct (if b then step H dsz uni c1 r1 st (op_of o) else step H dsz uni c0 r0 st (op_of o)) as [st1 x].
  rewrite IH. reflexivity.
Qed.

(* ---- only reissue callbacks: the response of the earlier rounds *)
Lemma run_cbs_reissue_only c r st l :
  run_cbs H dsz uni c r st (map CbReissue l) = if revoked st then [] else concat l.
Proof.
  induction l as [|hs l IH]; cbn [map run_cbs concat]; [destruct (revoked st); reflexivity|].
  rewrite IH. destruct (revoked st); reflexivity.
Qed.

Lemma run_cbs_revoked_reissues c r st post :
  revoked st = true -> forallb is_reissue_cb post = true -> run_cbs H dsz uni c r st post = [].
Proof.
  intros Hr. induction post as [|[hs|o] post IH]; cbn [forallb is_reissue_cb run_cbs]; [reflexivity| |discriminate].
  cbn [andb]. intros Hp. rewrite Hr, (IH Hp). reflexivity.
Qed.

(* a forget, or a remember that goes through: its headers do not depend on the request state, and it sets the flag *)
Lemma explicit_step c r st o :
  is_explicit H c r o = true ->
  snd (step H dsz uni c r st o) = snd (step H dsz uni c r st0 o) /\ revoked (fst (step H dsz uni c r st o)) = true.
Proof.
  destruct o as [|u ma toks|]; cbn [is_explicit step]; [discriminate| |split; reflexivity].
  destruct (remember H c r u ma toks); [split; reflexivity|discriminate].
Qed.

(* "until ... forget": whatever was registered before and whatever reissue callbacks follow, when an application callback
   forgets the user (or re-remembers one), ITS headers are the last ones on the response -- no reissued ticket follows
   them, so the client ends up with the deletion (or the new ticket) *)
Theorem explicit_callback_is_final c r o pre post : forall st,
  is_explicit H c r (op_of o) = true -> forallb is_reissue_cb post = true ->
  run_cbs H dsz uni c r st (pre ++ CbApp o :: post)
  = run_cbs H dsz uni c r st pre ++ hdrs_of (snd (step H dsz uni c r st0 (op_of o))).
Proof.
  intros st He Hp. revert st. induction pre as [|[hs|o'] pre IH]; intros st; cbn [app run_cbs].
  - destruct (explicit_step c r st (op_of o) He) as [E1 E2].
    destruct (step H dsz uni c r st (op_of o)) as [st' x]. cbn [fst snd] in *. subst x.
    rewrite (run_cbs_revoked_reissues c r st' post E2 Hp), app_nil_r. reflexivity.
  - rewrite IH, app_assoc. reflexivity.
  - destruct (step H dsz uni c r st (op_of o')) as [st' x]. rewrite IH, app_assoc. reflexivity.
Qed.

(* an application callback that forgets BEFORE the reissue callback runs suppresses the reissue altogether *)
Theorem forget_callback_first_suppresses_reissue c r st post :
  forallb is_reissue_cb post = true ->
  run_cbs H dsz uni c r st (CbApp GForget :: post) = get_cookies c r None None.
Proof.
  intros Hp. apply (explicit_callback_is_final c r GForget [] post st eq_refl Hp).
Qed.

(* ---- without registrations the new runner is the old one *)
Lemma step_callbacks_grow c r st o : exists l, callbacks (fst (step H dsz uni c r st o)) = callbacks st ++ l.
Proof.
  destruct o as [|u ma toks|]; cbn [step].
  - unfold identify.
    repeat match goal with
    | |- context [match ?x with _ => _ end] =>
        lazymatch x with context [match _ with _ => _ end] => fail | _ => destruct x end
    end; cbn [fst callbacks]; first [exists []; rewrite app_nil_r; reflexivity | eexists; reflexivity].
  - destruct (remember H c r u ma toks); cbn [fst callbacks]; exists []; rewrite app_nil_r; reflexivity.
  - cbn [fst callbacks]. exists []. rewrite app_nil_r. reflexivity.
Qed.

Lemma skipn_len_app {A} (a l : list A) : skipn (length a) (a ++ l) = l.
Proof. induction a; [reflexivity|assumption]. Qed.

Theorem run_ops3_no_registration c0 r0 c1 r1 ops : forall st cbs,
  exists l,
    callbacks (fst (run_ops2 H dsz uni c0 r0 c1 r1 st ops)) = callbacks st ++ l /\
    run_ops3 H dsz uni c0 r0 c1 r1 st cbs (map (fun bo : bool * op => (fst bo, XOp (match snd bo with
                                                                         | OIdentify => GIdentify
                                                                         | ORemember u ma toks => GRemember (UKnown u) ma toks
                                                                         | OForget => GForget end))) ops)
    = (fst (run_ops2 H dsz uni c0 r0 c1 r1 st ops), cbs ++ map CbReissue l,
       map Some (snd (run_ops2 H dsz uni c0 r0 c1 r1 st ops))).
Proof.
  induction ops as [|[b o] ops IH]; intros st cbs.
  - exists []. cbn. rewrite !app_nil_r. split; reflexivity.
  - cbn [map run_ops3 run_ops2 fst snd].
    assert (Eo : op_of (match o with OIdentify => GIdentify | ORemember u ma toks => GRemember (UKnown u) ma toks
                                | OForget => GForget end) = o) by (destruct o; reflexivity).
    rewrite Eo.
    assert (G : exists l1, callbacks (fst (if b then step H dsz uni c1 r1 st o else step H dsz uni c0 r0 st o))
                           = callbacks st ++ l1) by (destruct b; apply step_callbacks_grow).
    destruct (if b then step H dsz uni c1 r1 st o else step H dsz uni c0 r0 st o) as [st1 x]. cbn [fst] in G.
    destruct G as [l1 G1].
    destruct (IH st1 (cbs ++ new_cbs st st1)) as (l2 & G2 & E). rewrite E.
    destruct (run_ops2 H dsz uni c0 r0 c1 r1 st1 ops) as [st2 xs]. cbn [fst snd] in *.
    exists (l1 ++ l2). split; [rewrite G2, G1, app_assoc; reflexivity|].
    unfold new_cbs. rewrite G1, skipn_len_app, map_app, app_assoc. reflexivity.
Qed.

(* so for a request without application callbacks the response is the one the reissue theorems speak about *)
Corollary response_no_registration c r ops :
  let gops := map (fun o => (false, XOp (match o with OIdentify => GIdentify
                                         | ORemember u ma toks => GRemember (UKnown u) ma toks | OForget => GForget end))) ops in
  let '(st, cbs, _) := run_ops3 H dsz uni c r c r st0 [] gops in
  run_cbs H dsz uni c r st cbs = spec_response H dsz uni c r ops.
Proof.
  cbv zeta.
  destruct (run_ops3_no_registration c r c r (map (fun o => (false, o)) ops) st0 []) as (l & G & E).
  rewrite map_map in E. cbn [fst snd] in E. rewrite E. cbn [app callbacks st0] in *.
  rewrite run_cbs_reissue_only, <- G, run_ops2_single.
  rewrite <- (reissue_once H dsz uni c r ops). unfold response_cookies. reflexivity.
Qed.

End CB.

(* non-vacuity: identify of an old ticket, then a logout callback: the response carries the fresh ticket FOLLOWED by the
   deletion; a logout callback registered before identify leaves only the deletion *)
Example callbacks_nonvacuous :
  let D := (fun _ : text => 2%nat) in let U := (fun _ : N => 63%N) in
  let r := ex_req (Some ex_cookie) 1005 in
  (let '(st, cbs, _) := run_ops3 ex_H D U ex_cfg r ex_cfg r st0 [] [(false, XOp GIdentify); (false, XReg GForget)] in
   map ck_value (run_cbs ex_H D U ex_cfg r st cbs)) = [Some ex_reissued; None]
  /\ (let '(st, cbs, _) := run_ops3 ex_H D U ex_cfg r ex_cfg r st0 [] [(false, XReg GForget); (false, XOp GIdentify)] in
      map ck_value (run_cbs ex_H D U ex_cfg r st cbs)) = [None].
Proof. vm_compute. split; reflexivity. Qed.
