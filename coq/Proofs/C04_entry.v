(* C04 proofs, part 14: the entry doors.  ActionState.action, expand_action_tuple, normalize_actions and
   ConflictResolverState.__init__ are regenerated from the source on every run (Gen/Exec_C04.v); here they are proved
   equal to the hand-written definitions of Model/C04_entry.v, and the doors are proved to agree: whichever way an
   action is declared -- Configurator.action, ActionState.action, an old-style tuple of 1..8 positions or a ready-made
   dict in ActionState.actions -- the action dict that reaches remaining_actions carries the same discriminator, include
   chain and phase.  The proof scripts never mention the generated text. *)
From Coq Require Import List NArith ZArith Bool Lia.
Import ListNotations.
Require Import Verif.Lib.Wire Verif.Gen.Facts_C04 Verif.Model.C04 Verif.Model.C04_entry Verif.Gen.Exec_C04.

Theorem gen_state_action_model acts i d o p adds :
  gen_state_action acts i d o p adds = state_action acts i d o p adds.
Proof. reflexivity. Qed.

Theorem gen_state_action_defaults :
  gen_state_action_default_order = Some 0%Z /\ gen_state_action_default_includepath = [].
Proof. split; reflexivity. Qed.

Theorem gen_expand_model i adds t : gen_expand_action_tuple i adds t = expand_tuple i adds t.
Proof. reflexivity. Qed.

Lemma map_opt_app {A B} (f : A -> option B) l1 l2 :
  map_opt f (l1 ++ l2) = match map_opt f l1, map_opt f l2 with Some a, Some b => Some (a ++ b) | _, _ => None end.
Proof.
  induction l1 as [|x r IH]; simpl.
  - destruct (map_opt f l2); reflexivity.
  - destruct (f x); [|reflexivity]. rewrite IH. destruct (map_opt f r); [|reflexivity]. destruct (map_opt f l2); reflexivity.
Qed.

Theorem gen_normalize_model l : gen_normalize_actions l = normalize l.
Proof.
  unfold gen_normalize_actions, normalize.
  assert (H : forall acc,
    (fix loop (vs : list raw) (result : list action) {struct vs} : option (list action) :=
       match vs with
       | [] => Some result
       | RDict v :: vs' => loop vs' (result ++ [v])
       | RTuple i adds t :: vs' =>
           match gen_expand_action_tuple i adds t with Some v => loop vs' (result ++ [v]) | None => None end
       end) l acc = match map_opt norm1 l with Some r => Some (acc ++ r) | None => None end).
  2: { rewrite H. destruct (map_opt norm1 l); reflexivity. }
  induction l as [|x r IH]; intros acc; [simpl; rewrite app_nil_r; reflexivity|].
  destruct x as [a|i adds t]; cbn [map_opt norm1].
  - rewrite IH. destruct (map_opt norm1 r); [rewrite <- app_assoc; reflexivity|reflexivity].
  - rewrite gen_expand_model. destruct (expand_tuple i adds t) as [a|]; [|reflexivity].
    rewrite IH. destruct (map_opt norm1 r); [rewrite <- app_assoc; reflexivity|reflexivity].
Qed.

Theorem gen_cstate0_model : gen_cstate0 = cstate0.
Proof. reflexivity. Qed.

(* dicts pass through normalize_actions untouched: what the hand model of [restart] assumes *)
Lemma normalize_dicts l : normalize (map RDict l) = Some l.
Proof. unfold normalize. induction l as [|a r IH]; simpl; [reflexivity|]. rewrite IH. reflexivity. Qed.

Theorem restart_raw_dicts st l : restart_raw st (map RDict l) = Some (restart st l).
Proof. unfold restart_raw. rewrite normalize_dicts. reflexivity. Qed.

(* THE DOORS AGREE *)
Definition tuple7 (d : disc) (p : path) (o : option Z) : list tfield := [TDisc d; TOther; TOther; TOther; TPath p; TOther; TOrd o].

Theorem entry_doors_agree p i d o adds :
  let a := declare p i d o adds in
  gen_config_action p i d o adds = a /\
  gen_state_action [] i d o p adds = [a] /\
  gen_normalize_actions [RDict a] = Some [a] /\
  gen_normalize_actions [RTuple i adds (tuple7 d p o)] = Some [a] /\
  gen_normalize_actions [RTuple i adds (tuple7 d p o ++ [TOther])] = Some [a] /\
  (* shorter tuples say: phase 0 / root chain *)
  gen_normalize_actions [RTuple i adds (firstn 6 (tuple7 d p o))] = Some [declare p i d (Some 0%Z) adds] /\
  (forall k, (1 <= k <= 4)%nat ->
     gen_normalize_actions [RTuple i adds (firstn k (tuple7 d p o))] = Some [declare [] i d (Some 0%Z) adds]) /\
  (* no positions at all, or more than the signature has: TypeError *)
  gen_normalize_actions [RTuple i adds []] = None /\
  gen_normalize_actions [RTuple i adds (tuple7 d p o ++ [TOther; TOther])] = None.
Proof.
  cbv zeta. rewrite !gen_normalize_model. repeat split.
  intros k Hk. assert (E : (k = 1 \/ k = 2 \/ k = 3 \/ k = 4)%nat) by lia.
  destruct E as [->|[->|[->| ->]]]; reflexivity.
Qed.

(* a commit of raw actions is the commit of the normalised ones; for dicts: of the very actions *)
Theorem commit_raw_dicts cfg l : commit_raw cfg (map RDict l) = Some (commit_with cfg l).
Proof. unfold commit_raw. rewrite normalize_dicts. reflexivity. Qed.

Theorem commit_raw_doors cfg p i d o adds rest :
  commit_raw cfg (RTuple i adds (tuple7 d p o) :: map RDict rest) = commit_raw cfg (map RDict (declare p i d o adds :: rest)).
Proof. unfold commit_raw, normalize. cbn [map map_opt norm1]. reflexivity. Qed.
