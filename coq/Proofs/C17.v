(* C17 proofs: round trips of the quoting functions through the reference
   decoder, character sets, override rules, path = url minus authority. *)
From Coq Require Import List NArith ZArith Bool Lia ZifyBool ZifyN.
Import ListNotations.
Require Import Verif.Lib.Wire Verif.Lib.Text Verif.Lib.Utf8 Verif.Lib.Percent Verif.Gen.Facts_C17 Verif.Model.C17.
Ltac Zify.zify_post_hook ::= Z.div_mod_to_equations.
Open Scope N_scope.

(* ------------------------------------------------------------ generic *)
Lemma rbind_ok {A B} (r : res A) (f : A -> res B) b :
  rbind r f = Ok b -> exists a, r = Ok a /\ f a = Ok b.
Proof. destruct r; simpl; [eauto|discriminate]. Qed.

Lemma mapM_ok {A B} (f : A -> res B) l ys :
  mapM f l = Ok ys -> Forall2 (fun x y => f x = Ok y) l ys.
Proof.
  revert ys; induction l as [|x r IH]; simpl; intros ys H.
  - inversion H. constructor.
  - apply rbind_ok in H. destruct H as (y & Hy & H). apply rbind_ok in H. destruct H as (ys' & Hys & H).
    inversion H; subst. constructor; auto.
Qed.

Lemma map_opt_some {A B} (f : A -> option B) l ys :
  Forall2 (fun x y => f x = Some y) l ys -> map_opt f l = Some ys.
Proof. induction 1; simpl; [reflexivity|]. rewrite H, IHForall2. reflexivity. Qed.

Lemma map_opt_inv {A B} (f : A -> option B) l ys :
  map_opt f l = Some ys -> Forall2 (fun x y => f x = Some y) l ys.
Proof.
  revert ys; induction l as [|x r IH]; simpl; intros ys H.
  - inversion H. constructor.
  - destruct (f x) eqn:E; [|discriminate]. destruct (map_opt f r) eqn:E2; [|discriminate].
    inversion H; subst. constructor; auto.
Qed.

Lemma map_opt_app {A B} (f : A -> option B) l1 l2 :
  map_opt f (l1 ++ l2) =
  match map_opt f l1, map_opt f l2 with Some a, Some b => Some (a ++ b) | _, _ => None end.
Proof.
  induction l1 as [|x r IH]; simpl.
  - destruct (map_opt f l2); reflexivity.
  - destruct (f x); [|reflexivity]. rewrite IH.
    destruct (map_opt f r); [|reflexivity]. destruct (map_opt f l2); reflexivity.
Qed.

(* ------------------------------------------------------------ bytes, ASCII *)
Definition byte (b : N) : Prop := b < 256.
Definition ascii (b : N) : Prop := b < 128.

Lemma encode1_bytes c : valid_scalar c = true -> Forall byte (encode1 c).
Proof.
  unfold valid_scalar, encode1, byte. intros H.
  destruct (c <? 128) eqn:H1; [repeat constructor; lia|].
  destruct (c <? 2048) eqn:H2; [repeat constructor; lia|].
  destruct (c <? 65536) eqn:H3; repeat constructor; lia.
Qed.

Lemma encode_bytes t : forallb valid_scalar t = true -> Forall byte (encode t).
Proof.
  induction t as [|c r IH]; simpl; intros H; [constructor|].
  apply andb_true_iff in H. destruct H as [Hc Hr]. unfold encode. simpl.
  apply Forall_app. split; [apply encode1_bytes; assumption|apply IH; assumption].
Qed.

Lemma decode_ascii s : Forall ascii s -> decode s = Some s.
Proof.
  induction 1 as [|c r Hc _ IH]; [reflexivity|]. unfold ascii in Hc.
  cbn [decode]. assert (E : (c <? 128) = true) by lia. rewrite E, IH. reflexivity.
Qed.

Lemma ascii_byte s : Forall ascii s -> Forall byte s.
Proof. apply Forall_impl. unfold ascii, byte. intros; lia. Qed.

Lemma text_bytes_ascii s : Forall ascii s -> text_bytes s = s.
Proof.
  induction 1 as [|c r Hc _ IH]; [reflexivity|]. unfold ascii in Hc. unfold text_bytes in *. simpl.
  assert (E : (c <? 128) = true) by lia. rewrite E, IH. reflexivity.
Qed.

(* show_Z prints ASCII *)
Lemma digits_ascii fuel : forall n acc, Forall ascii acc -> Forall ascii (digits fuel n acc).
Proof.
  induction fuel as [|f IH]; intros n acc H; simpl; [assumption|].
  assert (Hd : ascii (48 + n mod 10)) by (unfold ascii; lia).
  destruct (n <? 10); [constructor; assumption|apply IH; constructor; assumption].
Qed.

Lemma show_Z_ascii z : Forall ascii (show_Z z).
Proof.
  destruct z; simpl.
  - repeat constructor. unfold ascii; lia.
  - apply digits_ascii. constructor.
  - constructor; [unfold ascii; lia|apply digits_ascii; constructor].
Qed.

(* ------------------------------------------------------------ safe sets *)
Definition ascii_set (safe : text) : Prop := Forall ascii safe.

Lemma always_safe_ascii c : always_safe c = true -> ascii c.
Proof. unfold always_safe, is_alnum, ascii. lia. Qed.

Lemma is_safe_ascii safe c : ascii_set safe -> is_safe safe c = true -> ascii c.
Proof.
  unfold is_safe. intros Hs H. apply orb_true_iff in H. destruct H as [H|H].
  - apply always_safe_ascii; assumption.
  - apply memN_In in H. unfold ascii_set in Hs. rewrite Forall_forall in Hs. auto.
Qed.

Lemma hex_ascii c : is_hex_upper c = true -> ascii c.
Proof. unfold is_hex_upper, ascii. lia. Qed.

Lemma quote_ascii safe bs : ascii_set safe -> Forall byte bs -> Forall ascii (quote safe bs).
Proof.
  intros Hs Hb. apply Forall_forall. intros c Hc.
  destruct (quote_charset safe bs c Hb Hc) as [->|[H|H]].
  - unfold ascii; lia.
  - apply hex_ascii; assumption.
  - eapply is_safe_ascii; eassumption.
Qed.

(* a character that is neither safe, nor '%', nor a hex digit does not occur *)
Definition never (safe : text) (c : N) : bool :=
  negb (is_safe safe c) && negb (c =? 37) && negb (is_hex_upper c).

Lemma quote_never safe bs c : Forall byte bs -> never safe c = true -> ~ In c (quote safe bs).
Proof.
  unfold never. intros Hb H. apply andb_true_iff in H. destruct H as [H H3].
  apply andb_true_iff in H. destruct H as [H1 H2].
  apply negb_true_iff in H1, H2, H3. apply quote_no_char; auto. intros ->. discriminate.
Qed.

(* ------------------------------------------------------------ values *)
Definition wf_val (v : pval) : Prop :=
  match v with PBytes b => Forall byte b | _ => True end.

Lemma utf8_enc_ok t b : utf8_enc t = Ok b -> forallb valid_scalar t = true /\ b = encode t.
Proof. unfold utf8_enc. destruct (forallb valid_scalar t); intros H; inversion H; auto. Qed.

Lemma to_bytes_bytes v b : wf_val v -> to_bytes v = Ok b -> Forall byte b.
Proof.
  destruct v as [t|b'|z|k s]; simpl; intros Hw H.
  - apply utf8_enc_ok in H. destruct H as [Hv ->]. apply encode_bytes; assumption.
  - inversion H; subst; assumption.
  - inversion H; subst. apply ascii_byte, show_Z_ascii.
  - apply utf8_enc_ok in H. destruct H as [Hv ->]. apply encode_bytes; assumption.
Qed.

(* the bytes that get quoted decode to the text the value stands for *)
Lemma to_bytes_decodes v b a : to_bytes v = Ok b -> spec_text v = Some a -> decode b = Some a.
Proof.
  destruct v as [t|b'|z|k s]; simpl; intros H Hs.
  - apply utf8_enc_ok in H. destruct H as [Hv ->]. rewrite Hv in Hs. inversion Hs; subst.
    apply decode_encode; assumption.
  - inversion H; subst; assumption.
  - inversion H; subst. inversion Hs; subst. apply decode_ascii, show_Z_ascii.
  - apply utf8_enc_ok in H. destruct H as [Hv ->]. rewrite Hv in Hs. inversion Hs; subst.
    apply decode_encode; assumption.
Qed.

(* decoding what quote produced: the bytes come back *)
Lemma unquote_text_quote safe bs :
  ascii_set safe -> is_safe safe 37 = false -> Forall byte bs ->
  unquote_text (quote safe bs) = decode bs.
Proof.
  intros Hs H37 Hb. unfold unquote_text.
  rewrite text_bytes_ascii by (apply quote_ascii; assumption).
  rewrite unquote_quote by assumption. reflexivity.
Qed.

Theorem url_quote_roundtrip safe v q a :
  ascii_set safe -> is_safe safe 37 = false -> wf_val v ->
  url_quote safe v = Ok q -> spec_text v = Some a ->
  unquote_text q = Some a.
Proof.
  intros Hs H37 Hw H Ha. unfold url_quote in H. apply rbind_ok in H. destruct H as (b & Hb & H).
  inversion H; subst. rewrite unquote_text_quote; auto.
  - eapply to_bytes_decodes; eassumption.
  - eapply to_bytes_bytes; eassumption.
Qed.
