(* C17 proofs: round trips of the quoting functions through the reference
   decoder, character sets, override rules, path = url minus authority. *)
From Coq Require Import List NArith ZArith Bool Lia ZifyBool ZifyN.
Import ListNotations.
Require Import Verif.Lib.Wire Verif.Lib.Text Verif.Lib.Utf8 Verif.Lib.Percent Verif.Gen.Facts_C17 Verif.Model.C17.
Ltac Zify.zify_post_hook ::= Z.div_mod_to_equations.
Open Scope N_scope.

(* ------------------------------------------------------------ generic *)
Lemma rbind_ok {A B} (r : res A) (f : A -> res B) b :
  rbind r f = Ok b -> exists a, r = Ok a /\ f a = Ok b.
Proof. destruct r; simpl; [eauto|discriminate]. Qed.

Lemma mapM_ok {A B} (f : A -> res B) l ys :
  mapM f l = Ok ys -> Forall2 (fun x y => f x = Ok y) l ys.
Proof.
  revert ys; induction l as [|x r IH]; simpl; intros ys H.
  - inversion H. constructor.
  - apply rbind_ok in H. destruct H as (y & Hy & H). apply rbind_ok in H. destruct H as (ys' & Hys & H).
    inversion H; subst. constructor; auto.
Qed.

Lemma map_opt_some {A B} (f : A -> option B) l ys :
  Forall2 (fun x y => f x = Some y) l ys -> map_opt f l = Some ys.
Proof. induction 1; simpl; [reflexivity|]. rewrite H, IHForall2. reflexivity. Qed.

Lemma map_opt_inv {A B} (f : A -> option B) l ys :
  map_opt f l = Some ys -> Forall2 (fun x y => f x = Some y) l ys.
Proof.
  revert ys; induction l as [|x r IH]; simpl; intros ys H.
  - inversion H. constructor.
  - destruct (f x) eqn:E; [|discriminate]. destruct (map_opt f r) eqn:E2; [|discriminate].
    inversion H; subst. constructor; auto.
Qed.

Lemma map_opt_app {A B} (f : A -> option B) l1 l2 :
  map_opt f (l1 ++ l2) =
  match map_opt f l1, map_opt f l2 with Some a, Some b => Some (a ++ b) | _, _ => None end.
Proof.
  induction l1 as [|x r IH]; simpl.
  - destruct (map_opt f l2); reflexivity.
  - destruct (f x); [|reflexivity]. rewrite IH.
    destruct (map_opt f r); [|reflexivity]. destruct (map_opt f l2); reflexivity.
Qed.

(* ------------------------------------------------------------ bytes, ASCII *)
Definition byte (b : N) : Prop := b < 256.
Definition ascii (b : N) : Prop := b < 128.

Lemma encode1_bytes c : valid_scalar c = true -> Forall byte (encode1 c).
Proof.
  unfold valid_scalar, encode1, byte. intros H.
  destruct (c <? 128) eqn:H1; [repeat constructor; lia|].
  destruct (c <? 2048) eqn:H2; [repeat constructor; lia|].
  destruct (c <? 65536) eqn:H3; repeat constructor; lia.
Qed.

Lemma encode_bytes t : forallb valid_scalar t = true -> Forall byte (encode t).
Proof.
  induction t as [|c r IH]; simpl; intros H; [constructor|].
  apply andb_true_iff in H. destruct H as [Hc Hr]. unfold encode. simpl.
  apply Forall_app. split; [apply encode1_bytes; assumption|apply IH; assumption].
Qed.

Lemma decode_ascii s : Forall ascii s -> decode s = Some s.
Proof.
  induction 1 as [|c r Hc _ IH]; [reflexivity|]. unfold ascii in Hc.
  cbn [decode]. assert (E : (c <? 128) = true) by lia. rewrite E, IH. reflexivity.
Qed.

Lemma ascii_byte s : Forall ascii s -> Forall byte s.
Proof. apply Forall_impl. unfold ascii, byte. intros; lia. Qed.

Lemma text_bytes_ascii s : Forall ascii s -> text_bytes s = s.
Proof.
  induction 1 as [|c r Hc _ IH]; [reflexivity|]. unfold ascii in Hc. unfold text_bytes in *. simpl.
  assert (E : (c <? 128) = true) by lia. rewrite E, IH. reflexivity.
Qed.

(* show_Z prints ASCII *)
Lemma digits_ascii fuel : forall n acc, Forall ascii acc -> Forall ascii (digits fuel n acc).
Proof.
  induction fuel as [|f IH]; intros n acc H; simpl; [assumption|].
  assert (Hd : ascii (48 + n mod 10)) by (unfold ascii; lia).
  destruct (n <? 10); [constructor; assumption|apply IH; constructor; assumption].
Qed.

Lemma show_Z_ascii z : Forall ascii (show_Z z).
Proof.
  destruct z; cbn [show_Z]; unfold show_N.
  - constructor; [unfold ascii; lia|constructor].
  - apply digits_ascii. constructor.
  - constructor; [unfold ascii; lia|apply digits_ascii; constructor].
Qed.

(* ------------------------------------------------------------ safe sets *)
Definition ascii_set (safe : text) : Prop := Forall ascii safe.

Lemma always_safe_ascii c : always_safe c = true -> ascii c.
Proof. unfold always_safe, is_alnum, ascii. lia. Qed.

Lemma is_safe_ascii safe c : ascii_set safe -> is_safe safe c = true -> ascii c.
Proof.
  unfold is_safe. intros Hs H. apply orb_true_iff in H. destruct H as [H|H].
  - apply always_safe_ascii; assumption.
  - apply memN_In in H. unfold ascii_set in Hs. rewrite Forall_forall in Hs. auto.
Qed.

Lemma hex_ascii c : is_hex_upper c = true -> ascii c.
Proof. unfold is_hex_upper, ascii. lia. Qed.

Lemma quote_ascii safe bs : ascii_set safe -> Forall byte bs -> Forall ascii (quote safe bs).
Proof.
  intros Hs Hb. apply Forall_forall. intros c Hc.
  destruct (quote_charset safe bs c Hb Hc) as [->|[H|H]].
  - unfold ascii; lia.
  - apply hex_ascii; assumption.
  - eapply is_safe_ascii; eassumption.
Qed.

(* a character that is neither safe, nor '%', nor a hex digit does not occur *)
Definition never (safe : text) (c : N) : bool :=
  negb (is_safe safe c) && negb (c =? 37) && negb (is_hex_upper c).

Lemma quote_never safe bs c : Forall byte bs -> never safe c = true -> ~ In c (quote safe bs).
Proof.
  unfold never. intros Hb H. apply andb_true_iff in H. destruct H as [H H3].
  apply andb_true_iff in H. destruct H as [H1 H2].
  apply negb_true_iff in H1, H2, H3. apply quote_no_char; auto. intros ->. discriminate.
Qed.

(* ------------------------------------------------------------ values *)
Definition wf_val (v : pval) : Prop :=
  match v with PBytes b => Forall byte b | _ => True end.

Lemma utf8_enc_ok t b : utf8_enc t = Ok b -> forallb valid_scalar t = true /\ b = encode t.
Proof. unfold utf8_enc. destruct (forallb valid_scalar t); intros H; inversion H; auto. Qed.

Lemma to_bytes_bytes v b : wf_val v -> to_bytes v = Ok b -> Forall byte b.
Proof.
  destruct v as [t|b'|z|k s]; simpl; intros Hw H.
  - apply utf8_enc_ok in H. destruct H as [Hv ->]. apply encode_bytes; assumption.
  - inversion H; subst; assumption.
  - inversion H; subst. apply ascii_byte, show_Z_ascii.
  - apply utf8_enc_ok in H. destruct H as [Hv ->]. apply encode_bytes; assumption.
Qed.

(* the bytes that get quoted decode to the text the value stands for *)
Lemma to_bytes_decodes v b a : to_bytes v = Ok b -> spec_text v = Some a -> decode b = Some a.
Proof.
  destruct v as [t|b'|z|k s]; simpl; intros H Hs.
  - apply utf8_enc_ok in H. destruct H as [Hv ->]. rewrite Hv in Hs. inversion Hs; subst.
    apply decode_encode; assumption.
  - inversion H; subst; assumption.
  - inversion H; subst. inversion Hs; subst. apply decode_ascii, show_Z_ascii.
  - apply utf8_enc_ok in H. destruct H as [Hv ->]. rewrite Hv in Hs. inversion Hs; subst.
    apply decode_encode; assumption.
Qed.

(* decoding what quote produced: the bytes come back *)
Lemma unquote_text_quote safe bs :
  ascii_set safe -> is_safe safe 37 = false -> Forall byte bs ->
  unquote_text (quote safe bs) = decode bs.
Proof.
  intros Hs H37 Hb. unfold unquote_text.
  rewrite text_bytes_ascii by (apply quote_ascii; assumption).
  rewrite unquote_quote by assumption. reflexivity.
Qed.

Theorem url_quote_roundtrip safe v q a :
  ascii_set safe -> is_safe safe 37 = false -> wf_val v ->
  url_quote safe v = Ok q -> spec_text v = Some a ->
  unquote_text q = Some a.
Proof.
  intros Hs H37 Hw H Ha. unfold url_quote in H. apply rbind_ok in H. destruct H as (b & Hb & H).
  inversion H; subst. rewrite unquote_text_quote; auto.
  - eapply to_bytes_decodes; eassumption.
  - eapply to_bytes_bytes; eassumption.
Qed.

(* ------------------------------------------------------------ facts about the regenerated constants *)
Definition good_safe (safe : text) : bool :=
  forallb (fun c => c <? 128) safe && negb (is_safe safe 37).
Definition path_safe_ok (safe : text) : bool :=
  good_safe safe && forallb path_char safe && never safe 63 && never safe 35.
Definition segment_safe_ok (safe : text) : bool := path_safe_ok safe && never safe 47.
Definition query_safe_ok (safe : text) : bool :=
  good_safe safe && forallb query_char safe && never safe 35.

Lemma Facts_ok_script_name_safe : path_safe_ok script_name_safe = true.
Proof. vm_compute. reflexivity. Qed.
Lemma Facts_ok_join_elements_safe : segment_safe_ok join_elements_safe = true.
Proof. vm_compute. reflexivity. Qed.
Lemma Facts_ok_path_tuple_safe : segment_safe_ok path_tuple_safe = true.
Proof. vm_compute. reflexivity. Qed.
Lemma Facts_ok_compile_safe :
  path_safe_ok compile_prefix_safe && path_safe_ok compile_literal_safe && path_safe_ok compile_value_safe = true.
Proof. vm_compute. reflexivity. Qed.
Lemma Facts_ok_query_str_safe : query_safe_ok query_str_safe = true.
Proof. vm_compute. reflexivity. Qed.
Lemma Facts_ok_anchor_quote_safe : query_safe_ok anchor_quote_safe = true.
Proof. vm_compute. reflexivity. Qed.
(* quote_plus: '%', '&', '=', '+', '#' are never produced raw (space becomes '+') *)
Lemma Facts_ok_quote_plus_safe :
  let s := quote_plus_default_safe ++ [32] in
  good_safe s && never s 38 && never s 61 && never s 43 && never s 35
  && forallb (fun c => query_char c || (c =? 32)) s = true.
Proof. vm_compute. reflexivity. Qed.
Lemma Facts_ok_quote_via : urlencode_quote_via_is_quote_plus = true.
Proof. reflexivity. Qed.
Lemma Facts_ok_separators :
  elements_sep = [47] /\ kv_sep = [61] /\ pair_sep = [38] /\ qs_prefix = [63] /\ frag_prefix = [35]
  /\ port_sep = [58] /\ scheme_sep = [58; 47; 47].
Proof. repeat split; reflexivity. Qed.
(* the module constants named by the property *)
Lemma Facts_ok_module_sets :
  query_safe_ok query_safe && query_safe_ok anchor_safe && path_safe_ok path_safe && segment_safe_ok path_segment_safe = true.
Proof. vm_compute. reflexivity. Qed.
(* every *_path helper puts the quoted script name into _app_url *)
Lemma Facts_ok_path_helpers_quote_script :
  route_path_script_quoted && resource_path_script_quoted && static_path_script_quoted
  && current_route_path_script_quoted = true.
Proof. reflexivity. Qed.
Lemma Facts_ok_route_path : route_path_script_quoted = true. Proof. reflexivity. Qed.
Lemma Facts_ok_resource_path : resource_path_script_quoted = true. Proof. reflexivity. Qed.
Lemma Facts_ok_static_path : static_path_script_quoted = true. Proof. reflexivity. Qed.
Lemma Facts_ok_current_route_path : current_route_path_script_quoted = true. Proof. reflexivity. Qed.
(* a scheme override implies exactly the port that is then elided *)
Lemma Facts_ok_port_tables : implied_ports = rfc_default_ports /\ elided_ports = rfc_default_ports.
Proof. split; reflexivity. Qed.

Lemma good_safe_spec safe : good_safe safe = true -> ascii_set safe /\ is_safe safe 37 = false.
Proof.
  unfold good_safe. intros H. apply andb_true_iff in H. destruct H as [H1 H2].
  apply negb_true_iff in H2. split; [|assumption].
  unfold ascii_set. apply Forall_forall. intros c Hc. rewrite forallb_forall in H1.
  specialize (H1 c Hc). unfold ascii. lia.
Qed.

(* ------------------------------------------------------------ literals survive '%' formatting *)
Lemma undouble_double s : undouble_pct (double_pct s) = Some s.
Proof.
  induction s as [|c r IH]; [reflexivity|].
  unfold double_pct in *. simpl flat_map. destruct (c =? 37) eqn:E.
  - apply N.eqb_eq in E. subst c. simpl. rewrite IH. reflexivity.
  - simpl. rewrite E, IH. reflexivity.
Qed.

(* ------------------------------------------------------------ anchor *)
Theorem anchor_roundtrip v f a :
  wf_val v -> fragment (Some v) = Ok f -> spec_anchor (Some v) = Some a ->
  (a = [] /\ f = []) \/ (exists q, f = 35 :: q /\ ~ In 35 q /\ unquote_text q = Some a).
Proof.
  pose proof Facts_ok_anchor_quote_safe as HF. unfold query_safe_ok in HF.
  apply andb_true_iff in HF. destruct HF as [HF Hn35]. apply andb_true_iff in HF. destruct HF as [Hg _].
  apply good_safe_spec in Hg. destruct Hg as [Ha H37].
  intros Hw H Hs. unfold fragment in H. unfold spec_anchor in Hs. destruct (truthy v) eqn:Et.
  - right. apply rbind_ok in H. destruct H as (q & Hq & H). inversion H; subst. exists q.
    split; [reflexivity|]. split.
    + unfold url_quote in Hq. apply rbind_ok in Hq. destruct Hq as (b & Hb & Hq). inversion Hq; subst.
      apply quote_never; [eapply to_bytes_bytes; eassumption|assumption].
    + eapply url_quote_roundtrip; eassumption.
  - left. inversion H; inversion Hs; auto.
Qed.

(* ------------------------------------------------------------ elements *)
Lemma qps_ok safe v q :
  quote_path_segment safe v = Ok q ->
  exists t, text_of v = Ok t /\ forallb valid_scalar t = true /\ q = quote safe (encode t).
Proof.
  unfold quote_path_segment. intros H. apply rbind_ok in H. destruct H as (t & Ht & H).
  apply rbind_ok in H. destruct H as (b & Hb & H). apply utf8_enc_ok in Hb. destruct Hb as [Hv ->].
  inversion H; subst. eauto.
Qed.

Lemma text_of_spec v t : text_of v = Ok t -> forallb valid_scalar t = true -> spec_text v = Some t.
Proof.
  destruct v as [t'|b|z|k s]; simpl; intros H Hv.
  - inversion H; subst. rewrite Hv. reflexivity.
  - unfold utf8_dec in H. destruct (decode b); inversion H; reflexivity.
  - inversion H; reflexivity.
  - inversion H; subst. rewrite Hv. reflexivity.
Qed.

(* a produced segment decodes to the supplied text and contains no separator *)
Lemma qps_roundtrip safe v q :
  good_safe safe = true -> quote_path_segment safe v = Ok q ->
  exists t, spec_text v = Some t /\ unquote_text q = Some t /\ Forall ascii q
            /\ (forall c, never safe c = true -> ~ In c q).
Proof.
  intros Hg H. apply good_safe_spec in Hg. destruct Hg as [Ha H37].
  apply qps_ok in H. destruct H as (t & Ht & Hv & ->). exists t.
  pose proof (encode_bytes t Hv) as Hb.
  split; [apply text_of_spec; assumption|]. split.
  - rewrite unquote_text_quote by assumption. apply decode_encode; assumption.
  - split; [apply quote_ascii; assumption|]. intros c Hc. apply quote_never; assumption.
Qed.

Theorem elements_roundtrip els s :
  els <> [] -> join_elements els = Ok s ->
  exists ts, spec_elements els = Some ts /\ decode_segments s = Some ts.
Proof.
  pose proof Facts_ok_join_elements_safe as HF. unfold segment_safe_ok, path_safe_ok in HF.
  apply andb_true_iff in HF. destruct HF as [HF H47]. apply andb_true_iff in HF. destruct HF as [HF _].
  apply andb_true_iff in HF. destruct HF as [HF _]. apply andb_true_iff in HF. destruct HF as [Hg _].
  intros Hne H. unfold join_elements in H. apply rbind_ok in H. destruct H as (qs & Hqs & H).
  inversion H; subst. clear H. apply mapM_ok in Hqs.
  assert (HH : exists ts, Forall2 (fun v t => spec_text v = Some t) els ts
                          /\ Forall2 (fun q t => unquote_text q = Some t) qs ts
                          /\ Forall (fun q => ~ In 47 q) qs).
  { clear Hne. induction Hqs as [|v q els' qs' Hq _ IH].
    - exists []. repeat split; constructor.
    - destruct IH as (ts & I1 & I2 & I3).
      destruct (qps_roundtrip _ _ _ Hg Hq) as (t & T1 & T2 & _ & T4).
      exists (t :: ts). repeat split; constructor; auto. }
  destruct HH as (ts & H1 & H2 & H3). exists ts. split.
  - unfold spec_elements. apply map_opt_some. assumption.
  - unfold decode_segments. replace elements_sep with [47] by reflexivity.
    rewrite split_join; [apply map_opt_some; assumption| |assumption].
    intros ->. inversion Hqs; subst. contradiction.
Qed.

(* ------------------------------------------------------------ query *)
Lemma split_on_app c a b : split_on c (a ++ c :: b) = split_on c a ++ split_on c b.
Proof.
  induction a as [|x a IH]; simpl.
  - rewrite N.eqb_refl. reflexivity.
  - destruct (N.eqb x c); [rewrite IH; reflexivity|].
    rewrite IH. pose proof (split_on_nonempty c a) as Hn.
    destruct (split_on c a) as [|h t]; [contradiction|reflexivity].
Qed.

Lemma filter_app' {A} (f : A -> bool) l1 l2 : filter f (l1 ++ l2) = filter f l1 ++ filter f l2.
Proof. induction l1 as [|x r IH]; simpl; [reflexivity|]. destruct (f x); simpl; rewrite IH; reflexivity. Qed.

Lemma parse_qsl_app a b :
  parse_qsl (a ++ 38 :: b) =
  match parse_qsl a, parse_qsl b with Some x, Some y => Some (x ++ y) | _, _ => None end.
Proof. unfold parse_qsl. rewrite split_on_app, filter_app', map_opt_app. reflexivity. Qed.

Lemma parse_qsl_nil : parse_qsl [] = Some [].
Proof. reflexivity. Qed.

Lemma parse_qsl_item it p :
  ~ In 38 it -> it <> [] -> parse_item it = Some p -> parse_qsl it = Some [p].
Proof.
  intros H1 H2 H3. unfold parse_qsl. rewrite split_on_nosep_id by assumption.
  destruct it; [contradiction|]. simpl. rewrite H3. reflexivity.
Qed.

Lemma cut_app c a b : ~ In c a -> cut c (a ++ c :: b) = (a, Some b).
Proof.
  induction a as [|x a IH]; simpl; intros H.
  - rewrite N.eqb_refl. reflexivity.
  - destruct (N.eqb_spec x c) as [->|Hne]; [exfalso; auto|]. rewrite IH by tauto. reflexivity.
Qed.

Lemma cut_none c a : ~ In c a -> cut c a = (a, None).
Proof.
  induction a as [|x a IH]; simpl; intros H; [reflexivity|].
  destruct (N.eqb_spec x c) as [->|Hne]; [exfalso; auto|]. rewrite IH by tauto. reflexivity.
Qed.

Lemma unplus_plus s : ~ In 43 s -> map space_for_plus (map plus_for_space s) = s.
Proof.
  induction s as [|c r IH]; simpl; intros H; [reflexivity|]. rewrite IH by tauto. f_equal.
  unfold space_for_plus, plus_for_space. destruct (c =? 32) eqn:E; [simpl; lia|].
  destruct (c =? 43) eqn:E2; [exfalso; apply H; left; lia|reflexivity].
Qed.

Lemma in_map_plus c s : In c (map plus_for_space s) -> c <> 43 -> In c s.
Proof.
  intros H Hc. apply in_map_iff in H. destruct H as (y & Hy & Hin). unfold plus_for_space in Hy.
  destruct (y =? 32) eqn:E; [congruence|subst; assumption].
Qed.

(* one quoted key or value: decodes back, has no '&', '=', '#' *)
Lemma quote_plus_roundtrip v q a :
  wf_val v -> quote_via v = Ok q -> spec_text v = Some a ->
  unquote_plus_text q = Some a /\ ~ In 38 q /\ ~ In 61 q /\ ~ In 35 q.
Proof.
  pose proof Facts_ok_quote_plus_safe as HF. cbv zeta in HF.
  do 5 (apply andb_true_iff in HF; let H := fresh "HF" in destruct HF as [HF H]).
  apply good_safe_spec in HF. destruct HF as [Ha H37].
  intros Hw H Hs. unfold quote_via in H. rewrite Facts_ok_quote_via in H. unfold quote_plus in H.
  apply rbind_ok in H. destruct H as (b & Hb & H). inversion H; subst. clear H.
  pose proof (to_bytes_bytes _ _ Hw Hb) as Hbytes. unfold quote_plus_bytes.
  set (s := quote_plus_default_safe ++ [32]) in *.
  assert (N43 : ~ In 43 (quote s b)) by (apply quote_never; assumption).
  split; [|split; [|split]].
  - unfold unquote_plus_text. rewrite unplus_plus by assumption.
    rewrite unquote_text_quote by assumption. eapply to_bytes_decodes; eassumption.
  - intros Hin. apply in_map_plus in Hin; [|lia]. revert Hin. apply quote_never; assumption.
  - intros Hin. apply in_map_plus in Hin; [|lia]. revert Hin. apply quote_never; assumption.
  - intros Hin. apply in_map_plus in Hin; [|lia]. revert Hin. apply quote_never; assumption.
Qed.

Definition wf_qval (v : qval) : Prop :=
  match v with QVNone => True | QVScalar x => wf_val x | QVSeq l => Forall wf_val l end.
Definition wf_pair (kv : pval * qval) : Prop := wf_val (fst kv) /\ wf_qval (snd kv).

(* loop invariant of urlencode: the text so far parses to the pairs so far *)
Definition qinv (st : text * text) (acc : list (text * text)) : Prop :=
  parse_qsl (fst st) = Some acc /\ ~ In 35 (fst st) /\ ((snd st = [] /\ fst st = []) \/ snd st = [38]).

Lemma emit_inv st acc k x ak ax :
  qinv st acc -> ~ In 38 k -> ~ In 61 k -> ~ In 35 k -> ~ In 38 x -> ~ In 35 x ->
  unquote_plus_text k = Some ak -> unquote_plus_text x = Some ax ->
  qinv (emit st k x) (acc ++ [(ak, ax)]).
Proof.
  intros (Hp & H35 & Hs) Hk38 Hk61 Hk35 Hx38 Hx35 Hk Hx. unfold emit, qinv. cbn [fst snd].
  replace kv_sep with [61] by reflexivity. replace pair_sep with [38] by reflexivity.
  set (it := k ++ [61] ++ x).
  assert (Hit : parse_qsl it = Some [(ak, ax)]).
  { apply parse_qsl_item.
    - unfold it. rewrite !in_app_iff. simpl. intros [H|[[H|[]]|H]]; auto; lia.
    - unfold it. destruct k; discriminate.
    - unfold parse_item, it. simpl app. rewrite cut_app by assumption. rewrite Hk, Hx. reflexivity. }
  assert (Hit35 : ~ In 35 it).
  { unfold it. rewrite !in_app_iff. simpl. intros [H|[[H|[]]|H]]; auto; lia. }
  destruct Hs as [[Hs1 Hs2]|Hs].
  - rewrite Hs1, Hs2. simpl app. fold it. rewrite Hs2 in Hp. rewrite parse_qsl_nil in Hp. inversion Hp; subst.
    repeat split; auto.
  - rewrite Hs. change (fst st ++ [38] ++ it) with (fst st ++ 38 :: it).
    rewrite parse_qsl_app, Hp, Hit. repeat split; auto.
    rewrite in_app_iff. simpl. intros [H|[H|H]]; auto; lia.
Qed.

Lemma emit_seq_inv l : forall st acc k ak st' xs,
  qinv st acc -> ~ In 38 k -> ~ In 61 k -> ~ In 35 k -> unquote_plus_text k = Some ak ->
  Forall wf_val l -> map_opt spec_text l = Some xs ->
  emit_seq st k l = Ok st' ->
  qinv st' (acc ++ map (fun x => (ak, x)) xs).
Proof.
  induction l as [|v r IH]; intros st acc k ak st' xs Hinv H1 H2 H3 Hk Hw Hs H; simpl in *.
  - inversion H; inversion Hs; subst. simpl. rewrite app_nil_r. assumption.
  - destruct (spec_text v) as [a|] eqn:Ea; [|discriminate].
    destruct (map_opt spec_text r) as [as'|] eqn:Er; [|discriminate]. inversion Hs; subst. clear Hs.
    inversion Hw as [|? ? Hwv Hwr]; subst. apply rbind_ok in H. destruct H as (qx & Hqx & H).
    destruct (quote_plus_roundtrip _ _ _ Hwv Hqx Ea) as (Q1 & Q2 & Q3 & Q4).
    simpl map. replace (acc ++ (ak, a) :: map (fun x => (ak, x)) as') with ((acc ++ [(ak, a)]) ++ map (fun x => (ak, x)) as')
      by (rewrite <- app_assoc; reflexivity).
    apply (IH (emit st k qx) (acc ++ [(ak, a)]) k ak st' as'); auto. apply emit_inv; assumption.
Qed.

Lemma urlencode_step_inv st acc kv st' ps :
  qinv st acc -> wf_pair kv -> spec_pair kv = Some ps -> urlencode_step st kv = Ok st' ->
  qinv st' (acc ++ ps).
Proof.
  intros Hinv [Hwk Hwv] Hs H. unfold urlencode_step in H. apply rbind_ok in H. destruct H as (k & Hk & H).
  apply rbind_ok in H. destruct H as (st1 & H1 & H). inversion H; subst. clear H.
  unfold spec_pair in Hs. destruct (spec_text (fst kv)) as [ak|] eqn:Eak; [|discriminate]. simpl in Hs.
  destruct (quote_plus_roundtrip _ _ _ Hwk Hk Eak) as (K1 & K2 & K3 & K4).
  assert (G : qinv st1 (acc ++ ps)).
  { destruct (snd kv) as [|v|l] eqn:Ev; simpl in Hwv.
    - inversion H1; inversion Hs; subst. apply emit_inv; auto.
    - destruct v as [t|b|z|kk s]; try discriminate;
        (destruct (spec_text _) as [ax|] eqn:Eax in Hs; [|discriminate]; simpl in Hs; inversion Hs; subst;
         apply rbind_ok in H1; destruct H1 as (qv & Hqv & H1); inversion H1; subst;
         destruct (quote_plus_roundtrip _ _ _ Hwv Hqv Eax) as (V1 & V2 & V3 & V4);
         apply emit_inv; auto).
    - destruct (map_opt spec_text l) as [xs|] eqn:Exs; [|discriminate]. simpl in Hs. inversion Hs; subst.
      eapply emit_seq_inv; eassumption. }
  destruct G as (G1 & G2 & G3). unfold qinv. cbn [fst snd]. repeat split; auto.
Qed.

Lemma urlencode_loop_inv l : forall st acc st' pss,
  qinv st acc -> Forall wf_pair l -> map_opt spec_pair l = Some pss -> urlencode_loop st l = Ok st' ->
  qinv st' (acc ++ concat pss).
Proof.
  induction l as [|kv r IH]; intros st acc st' pss Hinv Hw Hs H; simpl in *.
  - inversion H; inversion Hs; subst. simpl. rewrite app_nil_r. assumption.
  - destruct (spec_pair kv) as [ps|] eqn:Ep; [|discriminate].
    destruct (map_opt spec_pair r) as [pss'|] eqn:Er; [|discriminate]. inversion Hs; subst. clear Hs.
    inversion Hw as [|? ? Hwkv Hwr]; subst. apply rbind_ok in H. destruct H as (st1 & H1 & H).
    simpl concat. rewrite app_assoc. apply (IH st1 (acc ++ ps) st' pss'); auto.
    eapply urlencode_step_inv; eassumption.
Qed.

(* pairs in order, repeated keys kept, sequence values expanded, None -> '' *)
Theorem query_roundtrip l s ps :
  Forall wf_pair l -> urlencode l = Ok s -> spec_pairs l = Some ps ->
  parse_qsl s = Some ps /\ ~ In 35 s.
Proof.
  intros Hw H Hs. unfold urlencode in H. apply rbind_ok in H. destruct H as (st & Hst & H).
  inversion H; subst. unfold spec_pairs in Hs.
  destruct (map_opt spec_pair l) as [pss|] eqn:E; [|discriminate]. simpl in Hs. inversion Hs; subst.
  assert (I0 : qinv ([], []) []) by (unfold qinv; simpl; repeat split; auto).
  destruct (urlencode_loop_inv l _ _ _ _ I0 Hw E Hst) as (G1 & G2 & _). auto.
Qed.

(* a string query is percent-quoted as a whole: decoding it gives the string back *)
Theorem query_string_roundtrip t s :
  forallb valid_scalar t = true -> url_quote query_str_safe (PStr t) = Ok s ->
  unquote_text s = Some t /\ ~ In 35 s.
Proof.
  pose proof Facts_ok_query_str_safe as HF. unfold query_safe_ok in HF.
  apply andb_true_iff in HF. destruct HF as [HF Hn35]. apply andb_true_iff in HF. destruct HF as [Hg _].
  apply good_safe_spec in Hg. destruct Hg as [Ha H37]. intros Hv H. split.
  - eapply url_quote_roundtrip; try eassumption; [exact I|]. simpl. rewrite Hv. reflexivity.
  - unfold url_quote in H. apply rbind_ok in H. destruct H as (b & Hb & H). inversion H; subst.
    apply quote_never; [|assumption]. eapply (to_bytes_bytes (PStr t)); [exact I|eassumption].
Qed.

(* ------------------------------------------------------------ _app_url first; path = url minus authority *)
Definition parse_app (e : env) (o : overrides) : res text :=
  match o_app_url o with
  | Some a => Ok a
  | None => rlet s := quoted_script_name e in Ok (host_part e o ++ s)
  end.

Definition tail_parts (o : overrides) : res (text * text) :=
  rlet qs := query_string (o_query o) in rlet fr := fragment (o_anchor o) in Ok (qs, fr).

Lemma parse_url_overrides_eq e o :
  parse_url_overrides e o =
  rlet app := parse_app e o in rlet t := tail_parts o in Ok (app, fst t, snd t).
Proof.
  unfold parse_url_overrides, parse_app, tail_parts.
  destruct (o_app_url o); simpl.
  - destruct (query_string (o_query o)); simpl; [|reflexivity]. destruct (fragment (o_anchor o)); reflexivity.
  - destruct (quoted_script_name e); simpl; [|reflexivity].
    destruct (query_string (o_query o)); simpl; [|reflexivity]. destruct (fragment (o_anchor o)); reflexivity.
Qed.

(* every helper's result is  <application url> ++ rest, and rest does not depend on _app_url *)
Lemma route_url_app c e rs n els o kw u :
  route_url c e rs n els o kw = Ok u ->
  exists app rest, parse_app e o = Ok app /\ u = app ++ rest /\
                   forall a, route_url c e rs n els (set_app_url o a) kw = Ok (a ++ rest).
Proof.
  unfold route_url. destruct (assoc n rs) as [p|]; [|discriminate].
  rewrite !parse_url_overrides_eq. intros H.
  apply rbind_ok in H. destruct H as ([[app qs] fr] & H0 & H).
  apply rbind_ok in H0. destruct H0 as (app' & Happ & H0). apply rbind_ok in H0. destruct H0 as (t & Ht & H0).
  inversion H0; subst. clear H0.
  apply rbind_ok in H. destruct H as (path & Hp & H). apply rbind_ok in H. destruct H as (sfx & Hs & H).
  inversion H; subst. clear H.
  exists app, (path ++ sfx ++ fst t ++ snd t). repeat split; auto.
  intros a. rewrite parse_url_overrides_eq. unfold parse_app, tail_parts in *. simpl.
  rewrite Ht. simpl. rewrite Hp. simpl. rewrite Hs. reflexivity.
Qed.

Lemma resource_url_app c e names els o u :
  resource_url c e names els o = Ok u ->
  exists app rest, parse_app e o = Ok app /\ u = app ++ rest /\
                   forall a, resource_url c e names els (set_app_url o a) = Ok (a ++ rest).
Proof.
  unfold resource_url. intros H. apply rbind_ok in H. destruct H as (vp & Hvp & H).
  rewrite parse_url_overrides_eq in H.
  apply rbind_ok in H. destruct H as ([[app qs] fr] & H0 & H).
  apply rbind_ok in H0. destruct H0 as (app' & Happ & H0). apply rbind_ok in H0. destruct H0 as (t & Ht & H0).
  inversion H0; subst. clear H0. apply rbind_ok in H. destruct H as (sfx & Hs & H). inversion H; subst. clear H.
  exists app, (vp ++ sfx ++ fst t ++ snd t). repeat split; auto.
  intros a. rewrite Hvp. simpl. rewrite parse_url_overrides_eq. unfold parse_app, tail_parts in *. simpl.
  rewrite Ht. simpl. rewrite Hs. reflexivity.
Qed.

Lemma parse_app_none e o app :
  o_app_url o = None -> parse_app e o = Ok app ->
  exists s, quoted_script_name e = Ok s /\ app = host_part e o ++ s.
Proof.
  unfold parse_app. intros ->. intros H. apply rbind_ok in H. destruct H as (s & Hs & H). inversion H; eauto.
Qed.

Theorem route_path_is_url_minus_authority c e rs n els o kw u :
  o_app_url o = None -> route_url c e rs n els o kw = Ok u ->
  exists p, route_path c e rs n els o kw = Ok p /\ u = host_part e o ++ p.
Proof.
  intros Ho H. destruct (route_url_app _ _ _ _ _ _ _ _ H) as (app & rest & Ha & -> & Hr).
  destruct (parse_app_none _ _ _ Ho Ha) as (s & Hs & ->).
  exists (s ++ rest). split; [|rewrite app_assoc; reflexivity].
  unfold route_path, path_app_url. rewrite Facts_ok_route_path.
  rewrite Hs. simpl. apply Hr.
Qed.

Theorem resource_path_is_url_minus_authority c e names els o u :
  o_app_url o = None -> resource_url c e names els o = Ok u ->
  exists p, resource_path c e names els o = Ok p /\ u = host_part e o ++ p.
Proof.
  intros Ho H. destruct (resource_url_app _ _ _ _ _ _ H) as (app & rest & Ha & -> & Hr).
  destruct (parse_app_none _ _ _ Ho Ha) as (s & Hs & ->).
  exists (s ++ rest). split; [|rewrite app_assoc; reflexivity].
  unfold resource_path, path_app_url. rewrite Facts_ok_resource_path.
  rewrite Hs. simpl. apply Hr.
Qed.

Theorem static_path_is_url_minus_authority e rs regs path o kw u :
  o_app_url o = None -> static_url e rs regs path o kw = Ok u ->
  exists p, static_path e rs regs path o kw = Ok p /\ u = host_part e o ++ p.
Proof.
  intros Ho H. unfold static_url in H. destruct (find_reg regs path) as [[sub rname]|] eqn:Ef; [|discriminate].
  destruct (route_url_app _ _ _ _ _ _ _ _ H) as (app & rest & Ha & -> & Hr).
  destruct (parse_app_none _ _ _ Ho Ha) as (s & Hs & ->).
  exists (s ++ rest). split; [|rewrite app_assoc; reflexivity].
  unfold static_path, path_app_url. rewrite Facts_ok_static_path.
  rewrite Hs. simpl. unfold static_url. rewrite Ef. apply Hr.
Qed.

Lemma set_app_set_query o q a : set_app_url (set_query o q) a = set_query (set_app_url o a) q.
Proof. reflexivity. Qed.

Theorem current_route_path_is_url_minus_authority c e rs rname matched md gt els o kw u :
  o_app_url o = None -> current_route_url c e rs rname matched md gt els o kw = Ok u ->
  exists p, current_route_path c e rs rname matched md gt els o kw = Ok p /\ u = host_part e o ++ p.
Proof.
  intros Ho H. unfold current_route_url in H.
  destruct (match rname with Some n => Some n | None => matched end) as [name|] eqn:En; [|discriminate].
  set (o' := match o_query o with Some _ => o | None => set_query o (QPairs gt) end) in *.
  assert (Ho' : o_app_url o' = None) by (unfold o'; destruct (o_query o); assumption).
  assert (Hh : host_part e o' = host_part e o) by (unfold o'; destruct (o_query o); reflexivity).
  destruct (route_url_app _ _ _ _ _ _ _ _ H) as (app & rest & Ha & -> & Hr).
  destruct (parse_app_none _ _ _ Ho' Ha) as (s & Hs & ->).
  exists (s ++ rest). split; [|rewrite app_assoc, Hh; reflexivity].
  unfold current_route_path, path_app_url. rewrite Facts_ok_current_route_path.
  rewrite Hs. simpl. unfold current_route_url. rewrite En.
  replace (match o_query (set_app_url o s) with Some _ => set_app_url o s | None => set_query (set_app_url o s) (QPairs gt) end)
    with (set_app_url o' s) by (unfold o'; simpl; destruct (o_query o); reflexivity).
  apply Hr.
Qed.

(* an explicit application URL comes first, whatever scheme/host/port say *)
Theorem app_url_precedence c e rs n els o kw u a :
  o_app_url o = Some a -> route_url c e rs n els o kw = Ok u -> exists rest, u = a ++ rest.
Proof.
  intros Ho H. destruct (route_url_app _ _ _ _ _ _ _ _ H) as (app & rest & Ha & -> & _).
  unfold parse_app in Ha. rewrite Ho in Ha. inversion Ha; subst. eauto.
Qed.

Theorem app_url_precedence_resource c e names els o u a :
  o_app_url o = Some a -> resource_url c e names els o = Ok u -> exists rest, u = a ++ rest.
Proof.
  intros Ho H. destruct (resource_url_app _ _ _ _ _ _ H) as (app & rest & Ha & -> & _).
  unfold parse_app in Ha. rewrite Ho in Ha. inversion Ha; subst. eauto.
Qed.

(* ------------------------------------------------------------ the lru_cache of _join_elements *)
Definition plain (v : pval) : bool := match v with PNum _ _ => false | _ => true end.

Lemma py_eq_plain a b : plain a = true -> plain b = true -> py_eq a b = true -> a = b.
Proof.
  destruct a, b; simpl; intros Ha Hb H; try discriminate.
  - apply text_eqb_eq in H. congruence.
  - apply text_eqb_eq in H. congruence.
  - apply Z.eqb_eq in H. congruence.
Qed.

Lemma py_eq_list_plain a : forall b,
  forallb plain a = true -> forallb plain b = true -> py_eq_list a b = true -> a = b.
Proof.
  induction a as [|x a IH]; destruct b as [|y b]; simpl; intros Ha Hb H; try discriminate; [reflexivity|].
  apply andb_true_iff in Ha, Hb, H. destruct Ha, Hb, H. f_equal; [apply py_eq_plain|apply IH]; assumption.
Qed.

Lemma py_eq_refl a : py_eq a a = true.
Proof. destruct a; simpl; try apply text_eqb_refl; apply Z.eqb_refl. Qed.
Lemma py_eq_list_refl a : py_eq_list a a = true.
Proof. induction a; simpl; [reflexivity|]. rewrite py_eq_refl; assumption. Qed.

Definition cache_sound (c : jcache) : Prop := Forall (fun kr => join_elements (fst kr) = Ok (snd kr)) c.
Definition cache_plain (c : jcache) : Prop := Forall (fun kr => forallb plain (fst kr) = true) c.

Lemma cache_find_in c els r : cache_find c els = Some r -> exists k, In (k, r) c /\ py_eq_list els k = true.
Proof.
  induction c as [|[k r'] c IH]; simpl; [discriminate|].
  destruct (py_eq_list els k) eqn:E.
  - intros H; inversion H; subst. eauto.
  - intros H. destruct (IH H) as (k' & Hin & He). eauto.
Qed.

Lemma warm_cache_sound w : cache_sound (warm_cache w).
Proof.
  unfold warm_cache. assert (G : forall c, cache_sound c -> cache_sound (fold_left warm_step w c)).
  { induction w as [|els w IH]; intros c Hc; simpl; [assumption|]. apply IH. unfold warm_step.
    destruct (cache_find c els); [assumption|]. destruct (join_elements els) eqn:E; [|assumption].
    apply Forall_app. split; [assumption|]. constructor; [assumption|constructor]. }
  apply G. constructor.
Qed.

(* str / bytes / int elements: the cache is transparent after any history of such calls *)
Theorem join_elements_cache_transparent c els :
  cache_sound c -> cache_plain c -> forallb plain els = true ->
  join_elements_c c els = join_elements els.
Proof.
  intros Hs Hp He. unfold join_elements_c. destruct join_elements_key_stringified; [reflexivity|].
  destruct (cache_find c els) as [r|] eqn:E; [|reflexivity].
  destruct (cache_find_in _ _ _ E) as (k & Hin & Hk).
  unfold cache_sound, cache_plain in *. rewrite Forall_forall in Hs, Hp.
  specialize (Hs _ Hin). specialize (Hp _ Hin). simpl in *.
  rewrite (py_eq_list_plain els k He Hp Hk). symmetry. assumption.
Qed.

(* with the key stringified there is no condition at all *)
Theorem join_elements_cache_transparent_repaired c els :
  join_elements_key_stringified = true -> join_elements_c c els = join_elements els.
Proof. intros H. unfold join_elements_c. rewrite H. reflexivity. Qed.

(* keyed on the raw tuple (the code before the repair) 1 and 1.0 collide *)
Definition join_elements_raw_key (c : jcache) (els : list pval) : res text :=
  match cache_find c els with Some r => Ok r | None => join_elements els end.
Theorem join_elements_raw_key_refuted :
  exists w els, join_elements_raw_key (warm_cache w) els <> join_elements els.
Proof. exists [[PInt 1]], [PNum 1 [49; 46; 48]]. vm_compute. discriminate. Qed.

(* the path form, computed after the url form, sees the same answer *)
Lemma warm_step_same c els : join_elements_c (warm_step c els) els = join_elements_c c els.
Proof.
  unfold join_elements_c, warm_step. destruct join_elements_key_stringified; [reflexivity|].
  destruct (cache_find c els) as [r|] eqn:E; [rewrite E; reflexivity|].
  destruct (join_elements els) as [r|err] eqn:Ej; [|rewrite E; reflexivity].
  assert (G : forall c', cache_find c' els = None -> cache_find (c' ++ [(els, r)]) els = Some r).
  { induction c' as [|[k r'] c' IH]; simpl; [rewrite py_eq_list_refl; reflexivity|].
    destruct (py_eq_list els k); [discriminate|assumption]. }
  rewrite (G c E). reflexivity.
Qed.

(* ------------------------------------------------------------ scheme / host / port overrides *)
Lemma before_no_colon s : has_colon s = false -> before 58 s = s.
Proof.
  intros H. unfold before. rewrite cut_none; [reflexivity|].
  intros Hin. apply memN_In in Hin. unfold has_colon in H. congruence.
Qed.

Lemma with_port_elide u sch p :
  with_port u (elide elided_ports sch (Some p)) =
  u ++ match (match lookup elided_ports sch with
              | Some d => if text_eqb p d then [] else p
              | None => p end) with
       | [] => [] | x => port_sep ++ x end.
Proof.
  unfold elide, with_port. destruct (lookup elided_ports sch) as [d|].
  - destruct (text_eqb p d); [rewrite app_nil_r; reflexivity|].
    destruct p; [rewrite app_nil_r|]; reflexivity.
  - destruct p; [rewrite app_nil_r|]; reflexivity.
Qed.

(* the code's decisions are exactly the declarative rule [spec_authority] *)
Ltac fin_port :=
  rewrite with_port_elide, <- !app_assoc; do 3 f_equal;
  match goal with |- match ?X with _ => _ end = _ => destruct X; reflexivity end.

Theorem overrides_honoured e s h p : partial_host_url e s h p = spec_authority e s h p.
Proof.
  unfold partial_host_url, spec_authority, default_port.
  rewrite <- (proj2 Facts_ok_port_tables). rewrite (proj1 Facts_ok_port_tables), <- (proj2 Facts_ok_port_tables).
  set (hostport := match h with Some x => x | None => match e_http_host e with Some x => x | None => e_server_name e end end).
  destruct s as [s|]; destruct p as [p|]; cbn beta iota zeta.
  - destruct (has_colon hostport) eqn:Ec; [|rewrite before_no_colon by assumption]; fin_port.
  - destruct (lookup elided_ports s) as [ip|] eqn:El;
      (destruct (has_colon hostport) eqn:Ec; [|rewrite before_no_colon by assumption];
       rewrite with_port_elide, ?El, ?text_eqb_refl, <- !app_assoc; do 3 f_equal;
       try reflexivity;
       match goal with |- match ?X with _ => _ end = _ => destruct X; reflexivity end).
  - destruct (has_colon hostport) eqn:Ec; [|rewrite before_no_colon by assumption]; fin_port.
  - destruct (has_colon hostport) eqn:Ec; [|rewrite before_no_colon by assumption]; fin_port.
Qed.

(* the effective values of the rule, named *)
Definition eff_scheme (e : env) (s : option text) : text := match s with Some x => x | None => e_scheme e end.
Definition eff_hostport (e : env) (h : option text) : text :=
  match h with Some x => x | None => match e_http_host e with Some x => x | None => e_server_name e end end.
Definition eff_port (e : env) (s h p : option text) : text :=
  match p with
  | Some x => x
  | None => match (match s with Some x => default_port x | None => None end) with
            | Some x => x
            | None => if has_colon (eff_hostport e h) then after 58 (eff_hostport e h) else e_server_port e
            end
  end.

(* default ports are elided; any other non-empty port is shown *)
Theorem port_elision e s h p :
  (default_port (eff_scheme e s) = Some (eff_port e s h p) \/ eff_port e s h p = [] ->
   partial_host_url e s h p = eff_scheme e s ++ scheme_sep ++ before 58 (eff_hostport e h))
  /\ (default_port (eff_scheme e s) <> Some (eff_port e s h p) -> eff_port e s h p <> [] ->
      partial_host_url e s h p =
      eff_scheme e s ++ scheme_sep ++ before 58 (eff_hostport e h) ++ port_sep ++ eff_port e s h p).
Proof.
  rewrite overrides_honoured. unfold spec_authority. fold (eff_scheme e s). fold (eff_hostport e h).
  fold (eff_port e s h p). set (P := eff_port e s h p). set (D := default_port (eff_scheme e s)).
  split.
  - intros [H|H].
    + rewrite H, text_eqb_refl, app_nil_r. reflexivity.
    + rewrite H. destruct D as [d|]; [destruct (text_eqb [] d)|]; rewrite app_nil_r; reflexivity.
  - intros H1 H2. destruct D as [d|].
    + destruct (text_eqb_spec P d) as [->|Hne]; [congruence|]. destruct P; [congruence|reflexivity].
    + destruct P; [congruence|reflexivity].
Qed.

(* a scheme override without a port implies its default port, which is then elided *)
Theorem scheme_override_default_port e s h d :
  default_port s = Some d ->
  partial_host_url e (Some s) h None = s ++ scheme_sep ++ before 58 (eff_hostport e h).
Proof.
  intros H. apply (proj1 (port_elision e (Some s) h None)). left.
  unfold eff_scheme, eff_port. rewrite H. reflexivity.
Qed.

Example port_elision_table :
  let e := mkEnv [104;116;116;112] (Some [104;58;56;48;56;48]) [115] [56;48;56;48] [] in   (* http, Host h:8080 *)
  let https := [104;116;116;112;115] in let http := [104;116;116;112] in
  partial_host_url e (Some https) None None = https ++ [58;47;47;104]
  /\ partial_host_url e (Some http) None None = http ++ [58;47;47;104]
  /\ partial_host_url e None None (Some [56;48]) = http ++ [58;47;47;104]
  /\ partial_host_url e None None (Some [52;52;51]) = http ++ [58;47;47;104;58;52;52;51]
  /\ partial_host_url e (Some https) None (Some [52;52;51]) = https ++ [58;47;47;104]
  /\ partial_host_url e None (Some [120]) None = http ++ [58;47;47;120;58;56;48;56;48]
  /\ partial_host_url e None (Some [120;58;57]) None = http ++ [58;47;47;120;58;57].
Proof. vm_compute. repeat split. Qed.

(* ------------------------------------------------------------ RFC 3986 character sets *)
Definition pc (c : N) : Prop := path_char c = true.
Definition qc (c : N) : Prop := query_char c = true.

Lemma always_safe_unreserved c : always_safe c = true -> unreserved c = true.
Proof. unfold always_safe, is_alnum, unreserved, is_alpha, is_digit. lia. Qed.
Lemma hex_unreserved c : is_hex_upper c = true -> unreserved c = true.
Proof. unfold is_hex_upper, unreserved, is_alpha, is_digit. lia. Qed.

Lemma quote_chars (P : N -> bool) safe bs :
  Forall byte bs -> (forall c, unreserved c = true -> P c = true) -> P 37 = true -> forallb P safe = true ->
  Forall (fun c => P c = true) (quote safe bs).
Proof.
  intros Hb Hu H37 Hs. apply Forall_forall. intros c Hc.
  destruct (quote_charset safe bs c Hb Hc) as [->|[H|H]]; [assumption|apply Hu, hex_unreserved; assumption|].
  unfold is_safe in H. apply orb_true_iff in H. destruct H as [H|H].
  - apply Hu, always_safe_unreserved; assumption.
  - apply memN_In in H. rewrite forallb_forall in Hs. auto.
Qed.

Lemma unreserved_path c : unreserved c = true -> path_char c = true.
Proof. intros H. unfold path_char, pchar. rewrite H. reflexivity. Qed.
Lemma unreserved_query c : unreserved c = true -> query_char c = true.
Proof. intros H. unfold query_char, pchar. rewrite H. reflexivity. Qed.

Lemma path_safe_ok_parts safe : path_safe_ok safe = true ->
  good_safe safe = true /\ forallb path_char safe = true /\ never safe 63 = true /\ never safe 35 = true.
Proof.
  unfold path_safe_ok. intros H. apply andb_true_iff in H. destruct H as [H H4].
  apply andb_true_iff in H. destruct H as [H H3]. apply andb_true_iff in H. destruct H as [H1 H2]. auto.
Qed.

Lemma qps_chars safe v q : path_safe_ok safe = true -> quote_path_segment safe v = Ok q -> Forall pc q.
Proof.
  intros Hs H. apply path_safe_ok_parts in Hs. destruct Hs as (_ & Hs & _).
  apply qps_ok in H. destruct H as (t & _ & Hv & ->).
  apply (quote_chars path_char); auto; [apply encode_bytes; assumption|apply unreserved_path].
Qed.

Lemma Forall_join {P : N -> Prop} sep l : Forall (Forall P) l -> Forall P sep -> Forall P (join sep l).
Proof.
  intros Hl Hs. induction Hl as [|x r Hx Hr IH]; [constructor|].
  destruct r as [|y r]; [assumption|].
  change (Forall P (x ++ sep ++ join sep (y :: r))). repeat (apply Forall_app; split); auto.
Qed.

Lemma mapM_Forall {A B} (f : A -> res B) (P : B -> Prop) l ys :
  (forall x y, f x = Ok y -> P y) -> mapM f l = Ok ys -> Forall P ys.
Proof. intros Hf H. apply mapM_ok in H. induction H; constructor; eauto. Qed.

Lemma pc47 : Forall pc [47]. Proof. repeat constructor. Qed.

Theorem join_elements_chars els s : join_elements els = Ok s -> Forall pc s.
Proof.
  pose proof Facts_ok_join_elements_safe as HF. unfold segment_safe_ok in HF.
  apply andb_true_iff in HF. destruct HF as [HF _].
  unfold join_elements. intros H. apply rbind_ok in H. destruct H as (qs & Hqs & H). inversion H; subst.
  replace elements_sep with [47] by reflexivity. apply Forall_join; [|apply pc47].
  eapply mapM_Forall; [|eassumption]. intros x y. apply qps_chars; assumption.
Qed.

(* route.generate *)
Definition lit_ok (t : tpart) : Prop :=
  match t with TLit s => exists q, s = double_pct q /\ Forall pc q | TSlot _ => True end.

Lemma compile_safe_parts :
  path_safe_ok compile_prefix_safe = true /\ path_safe_ok compile_literal_safe = true
  /\ path_safe_ok compile_value_safe = true.
Proof.
  pose proof Facts_ok_compile_safe as H. apply andb_true_iff in H. destruct H as [H H3].
  apply andb_true_iff in H. destruct H as [H1 H2]. auto.
Qed.

Lemma lit_part_ok safe s t : path_safe_ok safe = true -> lit_part safe s = Ok t -> lit_ok t.
Proof.
  intros Hs H. unfold lit_part in H. apply rbind_ok in H. destruct H as (q & Hq & H). inversion H; subst.
  simpl. exists q. split; [reflexivity|]. eapply qps_chars; eassumption.
Qed.

Lemma gen_template_ok p tpl : gen_template p = Ok tpl -> Forall lit_ok tpl.
Proof.
  destruct compile_safe_parts as (S1 & S2 & _).
  unfold gen_template. intros H. apply rbind_ok in H. destruct H as (pre & Hpre & H).
  apply rbind_ok in H. destruct H as (hs & Hhs & H). inversion H; subst. clear H.
  constructor; [eapply lit_part_ok; eassumption|]. apply Forall_app. split.
  - apply Forall_concat. eapply mapM_Forall; [|eassumption]. intros [n s] y Hy. simpl in Hy.
    destruct s as [|c r]; [inversion Hy; subst; repeat constructor|].
    apply rbind_ok in Hy. destruct Hy as (l & Hl & Hy). inversion Hy; subst.
    repeat constructor. eapply lit_part_ok; eassumption.
  - destruct (star_slot p); repeat constructor.
Qed.

Lemma q_value_chars v q : q_value v = Ok q -> Forall pc q.
Proof. destruct compile_safe_parts as (_ & _ & S3). apply qps_chars; assumption. Qed.

Lemma gen_value_chars b v q : gen_value b v = Ok q -> Forall pc q.
Proof.
  destruct v as [v|l shown]; simpl.
  - destruct v; try apply q_value_chars.
    intros H. apply rbind_ok in H. destruct H as (t & _ & H). eapply q_value_chars; eassumption.
  - destruct b; [|apply q_value_chars].
    intros H. apply rbind_ok in H. destruct H as (qs & Hqs & H). inversion H; subst.
    apply Forall_join; [|apply pc47]. eapply mapM_Forall; [|eassumption]. intros x y. apply q_value_chars.
Qed.

Lemma assoc_in {A} n (d : list (text * A)) v : assoc n d = Some v -> exists k, In (k, v) d.
Proof.
  induction d as [|[k v'] d IH]; simpl; [discriminate|].
  destruct (text_eqb n k); [intros H; inversion H; subst; eauto|].
  intros H. destruct (IH H) as (k' & Hin). eauto.
Qed.

Theorem generate_chars p kw u : generate p kw = Ok u -> Forall pc u.
Proof.
  unfold generate. intros H. apply rbind_ok in H. destruct H as (tpl & Htpl & H).
  apply rbind_ok in H. destruct H as (d & Hd & H). apply rbind_ok in H. destruct H as (parts & Hparts & H).
  inversion H; subst. clear H. apply gen_template_ok in Htpl.
  assert (Dok : Forall (fun kv => Forall pc (snd kv)) d).
  { unfold build_newdict in Hd. eapply mapM_Forall; [|eassumption]. intros [k v] y Hy. simpl in Hy.
    apply rbind_ok in Hy. destruct Hy as (q & Hq & Hy). inversion Hy; subst. simpl.
    eapply gen_value_chars; eassumption. }
  apply Forall_concat. apply mapM_ok in Hparts.
  induction Hparts as [|t r tpl' parts' Hr _ IH]; [constructor|].
  inversion Htpl as [|? ? Ht Htpl']; subst. constructor; [|apply IH; assumption].
  destruct t as [s|n]; simpl in Hr.
  - destruct Ht as (q & -> & Hq). rewrite undouble_double in Hr. inversion Hr; subst. assumption.
  - destruct (assoc n d) as [v|] eqn:Ea; [|discriminate]. inversion Hr; subst.
    destruct (assoc_in _ _ _ Ea) as (k & Hin). rewrite Forall_forall in Dok. apply (Dok _ Hin).
Qed.

(* script name *)
Theorem quoted_script_chars e s : quoted_script_name e = Ok s -> Forall pc s.
Proof.
  pose proof Facts_ok_script_name_safe as HF. apply path_safe_ok_parts in HF. destruct HF as (_ & Hs & _).
  unfold quoted_script_name. intros H. apply rbind_ok in H. destruct H as (b & Hb & H).
  apply utf8_enc_ok in Hb. destruct Hb as [Hv ->]. unfold url_quote in H. simpl in H. inversion H; subst.
  apply (quote_chars path_char); auto; [apply encode_bytes; assumption|apply unreserved_path].
Qed.

(* no '?' and no '#' among path characters *)
Lemma pc_no_delims s : Forall pc s -> ~ In 63 s /\ ~ In 35 s.
Proof.
  intros H. rewrite Forall_forall in H. split; intros Hin; specialize (H _ Hin); unfold pc in H; vm_compute in H; discriminate.
Qed.
Lemma qc_no_hash s : Forall qc s -> ~ In 35 s.
Proof. intros H. rewrite Forall_forall in H. intros Hin. specialize (H _ Hin). unfold qc in H. vm_compute in H. discriminate. Qed.

(* query and fragment *)
Lemma query_safe_ok_parts safe : query_safe_ok safe = true ->
  good_safe safe = true /\ forallb query_char safe = true /\ never safe 35 = true.
Proof.
  unfold query_safe_ok. intros H. apply andb_true_iff in H. destruct H as [H H3].
  apply andb_true_iff in H. destruct H as [H1 H2]. auto.
Qed.

Lemma url_quote_qchars safe v q :
  query_safe_ok safe = true -> wf_val v -> url_quote safe v = Ok q -> Forall qc q.
Proof.
  intros Hs Hw H. apply query_safe_ok_parts in Hs. destruct Hs as (_ & Hs & _).
  unfold url_quote in H. apply rbind_ok in H. destruct H as (b & Hb & H). inversion H; subst.
  apply (quote_chars query_char); auto; [eapply to_bytes_bytes; eassumption|apply unreserved_query].
Qed.

Lemma quote_via_qchars v q : wf_val v -> quote_via v = Ok q -> Forall qc q.
Proof.
  pose proof Facts_ok_quote_plus_safe as HF. cbv zeta in HF.
  apply andb_true_iff in HF. destruct HF as [_ HF].
  intros Hw H. unfold quote_via in H. rewrite Facts_ok_quote_via in H. unfold quote_plus in H.
  apply rbind_ok in H. destruct H as (b & Hb & H). inversion H; subst. unfold quote_plus_bytes.
  assert (G : Forall (fun c => query_char c || (c =? 32) = true) (quote (quote_plus_default_safe ++ [32]) b)).
  { apply (quote_chars (fun c => query_char c || (c =? 32))); auto.
    - eapply to_bytes_bytes; eassumption.
    - intros c Hc. rewrite (unreserved_query c Hc). reflexivity. }
  apply Forall_forall. intros c Hc. apply in_map_iff in Hc. destruct Hc as (y & <- & Hy).
  rewrite Forall_forall in G. specialize (G y Hy). cbv beta in G. unfold qc, plus_for_space.
  destruct (y =? 32) eqn:E; [reflexivity|]. rewrite orb_false_r in G. assumption.
Qed.

Definition cinv (st : text * text) : Prop := Forall qc (fst st) /\ (snd st = [] \/ snd st = [38]).

Lemma emit_cinv st k x : cinv st -> Forall qc k -> Forall qc x -> cinv (emit st k x).
Proof.
  intros [H1 H2] Hk Hx. unfold emit, cinv. cbn [fst snd]. split; [|right; reflexivity].
  replace kv_sep with [61] by reflexivity.
  repeat (apply Forall_app; split); auto; [|repeat constructor].
  destruct H2 as [->| ->]; repeat constructor.
Qed.

Lemma emit_seq_cinv l : forall st k st',
  cinv st -> Forall qc k -> Forall wf_val l -> emit_seq st k l = Ok st' -> cinv st'.
Proof.
  induction l as [|v r IH]; intros st k st' Hi Hk Hw H; simpl in H; [inversion H; subst; assumption|].
  inversion Hw as [|? ? Hwv Hwr]; subst. apply rbind_ok in H. destruct H as (qx & Hqx & H).
  eapply IH; [| |eassumption|eassumption]; [|assumption]. apply emit_cinv; auto. eapply quote_via_qchars; eassumption.
Qed.

Lemma show_byte_wf l : Forall wf_val (map (fun c => PInt (Z.of_N c)) l).
Proof. induction l; simpl; constructor; simpl; auto. Qed.

Theorem urlencode_chars l s : Forall wf_pair l -> urlencode l = Ok s -> Forall qc s.
Proof.
  intros Hw H. unfold urlencode in H. apply rbind_ok in H. destruct H as (st & Hst & H). inversion H; subst.
  assert (G : forall l st st', cinv st -> Forall wf_pair l -> urlencode_loop st l = Ok st' -> cinv st').
  { clear. induction l as [|kv r IH]; intros st st' Hi Hw H; simpl in H; [inversion H; subst; assumption|].
    inversion Hw as [|? ? [Hwk Hwv] Hwr]; subst. apply rbind_ok in H. destruct H as (st1 & H1 & H).
    eapply IH; [|eassumption|eassumption]. unfold urlencode_step in H1.
    apply rbind_ok in H1. destruct H1 as (k & Hk & H1). apply rbind_ok in H1. destruct H1 as (st2 & H2 & H1).
    inversion H1; subst. pose proof (quote_via_qchars _ _ Hwk Hk) as Hkc.
    assert (G2 : cinv st2).
    { destruct (snd kv) as [|v|l'] eqn:Ev; simpl in Hwv.
      - inversion H2; subst. apply emit_cinv; auto; try constructor.
      - destruct v as [t|b|z|kk sh];
          try (apply rbind_ok in H2; destruct H2 as (qv & Hqv & H2); inversion H2; subst;
               apply emit_cinv; auto; eapply quote_via_qchars; eassumption).
        eapply emit_seq_cinv; [| |apply show_byte_wf|eassumption]; assumption.
      - eapply emit_seq_cinv; eassumption. }
    destruct G2 as [G21 G22]. split; [assumption|right; reflexivity]. }
  apply (G l ([], []) st); auto. split; [constructor|left; reflexivity].
Qed.

(* ------------------------------------------------------------ the whole URL through the reference decoder *)
Definition wf_query (q : option query) : Prop :=
  match q with
  | Some (QPairs l) => Forall wf_pair l
  | Some (QStr t) => forallb valid_scalar t = true
  | None => True
  end.
Definition wf_anchor (a : option pval) : Prop := match a with Some v => wf_val v | None => True end.

(* what decoding the query text has to give *)
Definition query_decodes (q : option query) (qt : text) : Prop :=
  match q with
  | None => qt = []
  | Some (QStr t) => unquote_text qt = Some t
  | Some (QPairs l) => forall ps, spec_pairs l = Some ps -> parse_qsl qt = Some ps
  end.

Lemma qc_nil : Forall qc []. Proof. constructor. Qed.
#[local] Hint Resolve qc_nil : core.

Lemma query_string_spec q qs :
  wf_query q -> query_string q = Ok qs ->
  exists qt, ((qs = [] /\ qt = []) \/ qs = 63 :: qt) /\ ~ In 35 qt /\ Forall qc qt /\ query_decodes q qt.
Proof.
  intros Hw H. destruct q as [[t|l]|]; simpl in *.
  - destruct t as [|c r].
    + inversion H; subst. exists []. split; [left; auto|]. split; [auto|]. split; [auto|reflexivity].
    + simpl in H. apply rbind_ok in H. destruct H as (s & Hs & H). inversion H; subst.
      destruct (query_string_roundtrip _ _ Hw Hs) as [R1 R2]. exists s.
      split; [right; reflexivity|]. split; [assumption|]. split; [|assumption].
      eapply url_quote_qchars; [apply Facts_ok_query_str_safe| |eassumption]. exact I.
  - destruct l as [|p l].
    + inversion H; subst. exists []. split; [left; auto|]. split; [auto|]. split; [auto|].
      intros ps Hps. inversion Hps; subst. reflexivity.
    + simpl in H. apply rbind_ok in H. destruct H as (s & Hs & H). inversion H; subst.
      pose proof (urlencode_chars _ _ Hw Hs) as Hc. exists s.
      split; [right; reflexivity|]. split; [apply qc_no_hash; assumption|]. split; [assumption|].
      intros ps Hps. apply (proj1 (query_roundtrip _ _ _ Hw Hs Hps)).
  - inversion H; subst. exists []. split; [left; auto|]. split; [auto|]. split; [auto|reflexivity].
Qed.

Lemma fragment_spec a fr :
  wf_anchor a -> fragment a = Ok fr ->
  exists f, ((fr = [] /\ f = []) \/ fr = 35 :: f) /\ Forall qc f
            /\ (forall t, spec_anchor a = Some t -> unquote_text f = Some t).
Proof.
  intros Hw H. destruct a as [v|]; simpl in *.
  - destruct (truthy v) eqn:Et.
    + apply rbind_ok in H. destruct H as (q & Hq & H). inversion H; subst. exists q.
      split; [right; reflexivity|]. split.
      * eapply url_quote_qchars; [apply Facts_ok_anchor_quote_safe| |]; eassumption.
      * intros t Ht. pose proof Facts_ok_anchor_quote_safe as HF. apply query_safe_ok_parts in HF.
        destruct HF as (Hg & _). apply good_safe_spec in Hg. destruct Hg.
        eapply url_quote_roundtrip; eassumption.
    + inversion H; subst. exists []. split; [left; auto|]. split; [auto|]. intros t Ht. inversion Ht; reflexivity.
  - inversion H; subst. exists []. split; [left; auto|]. split; [auto|]. intros t Ht. inversion Ht; reflexivity.
Qed.

Lemma cut_ref_generated base qs fr qt f :
  ~ In 35 base -> ~ In 63 base ->
  ((qs = [] /\ qt = []) \/ qs = 63 :: qt) -> ~ In 35 qt ->
  ((fr = [] /\ f = []) \/ fr = 35 :: f) ->
  cut_ref (base ++ qs ++ fr) = (base, qt, f).
Proof.
  intros B35 B63 Hq Q35 Hf. unfold cut_ref.
  assert (N35 : ~ In 35 (base ++ qs)).
  { rewrite in_app_iff. intros [H|H]; [auto|]. destruct Hq as [[-> _]| ->]; [destruct H|].
    destruct H as [H|H]; [lia|auto]. }
  assert (C63 : cut 63 (base ++ qs) = (base, match qs with [] => None | _ => Some qt end) /\ (qs = [] -> qt = [])).
  { destruct Hq as [[-> ->]| ->].
    - rewrite app_nil_r, cut_none by assumption. auto.
    - rewrite cut_app by assumption. split; [reflexivity|discriminate]. }
  destruct C63 as [C63 Hqe].
  destruct Hf as [[-> ->]| ->].
  - rewrite app_nil_r, cut_none by assumption. rewrite C63. destruct qs; [rewrite Hqe|]; reflexivity.
  - rewrite app_assoc, cut_app by assumption. rewrite C63. destruct qs; [rewrite Hqe|]; reflexivity.
Qed.

(* route_url: produced URL = app ++ path ++ suffix ++ ?query ++ #fragment; the reference decoder
   finds exactly these parts, every character after the application URL is allowed by RFC 3986
   in its component, and query, anchor and elements decode to what was supplied *)
Theorem route_url_decodes c e rs n els o kw u :
  wf_query (o_query o) -> wf_anchor (o_anchor o) ->
  join_elements_c c els = join_elements els ->
  route_url c e rs n els o kw = Ok u ->
  exists app path sfx qt f,
    parse_app e o = Ok app
    /\ Forall pc (path ++ sfx) /\ Forall qc qt /\ Forall qc f
    /\ (~ In 35 app -> ~ In 63 app -> cut_ref u = (app ++ path ++ sfx, qt, f))
    /\ query_decodes (o_query o) qt
    /\ (forall t, spec_anchor (o_anchor o) = Some t -> unquote_text f = Some t)
    /\ (els <> [] -> exists s ts, (sfx = s \/ sfx = 47 :: s)
                                  /\ spec_elements els = Some ts /\ decode_segments s = Some ts).
Proof.
  intros Hwq Hwa Hc H. unfold route_url in H. destruct (assoc n rs) as [p|]; [|discriminate].
  rewrite parse_url_overrides_eq in H.
  apply rbind_ok in H. destruct H as ([[app qs] fr] & H0 & H).
  apply rbind_ok in H0. destruct H0 as (app' & Happ & H0). apply rbind_ok in H0. destruct H0 as ([qs' fr'] & Ht & H0).
  inversion H0; subst. clear H0. simpl in H.
  unfold tail_parts in Ht. apply rbind_ok in Ht. destruct Ht as (qs0 & Hqs & Ht).
  apply rbind_ok in Ht. destruct Ht as (fr0 & Hfr & Ht). inversion Ht; subst. clear Ht.
  apply rbind_ok in H. destruct H as (path & Hp & H). apply rbind_ok in H. destruct H as (sfx & Hs & H).
  inversion H; subst. clear H.
  destruct (query_string_spec _ _ Hwq Hqs) as (qt & Q1 & Q2 & Q3 & Q4).
  destruct (fragment_spec _ _ Hwa Hfr) as (f & F1 & F2 & F3).
  pose proof (generate_chars _ _ _ Hp) as Pc.
  assert (Sc : Forall pc sfx /\ (els <> [] -> exists s ts, (sfx = s \/ sfx = 47 :: s)
                                  /\ spec_elements els = Some ts /\ decode_segments s = Some ts)).
  { destruct els as [|x els'].
    - inversion Hs; subst. split; [constructor|]. intros Hne; contradiction.
    - rewrite Hc in Hs. apply rbind_ok in Hs. destruct Hs as (s & Hj & Hs).
      pose proof (join_elements_chars _ _ Hj) as Jc.
      assert (Hne : x :: els' <> []) by discriminate.
      destruct (elements_roundtrip _ _ Hne Hj) as (ts & T1 & T2).
      inversion Hs; subst. split.
      + destruct (endswith_char 47 path); [assumption|constructor; [reflexivity|assumption]].
      + intros _. exists s, ts. split; [|auto]. destruct (endswith_char 47 path); auto. }
  destruct Sc as [Sc Se].
  exists app, path, sfx, qt, f. repeat split; auto.
  - apply Forall_app; auto.
  - intros A35 A63.
    match goal with |- cut_ref (?a ++ ?p ++ ?s ++ ?q ++ ?r) = _ =>
      replace (a ++ p ++ s ++ q ++ r) with ((a ++ p ++ s) ++ q ++ r) by (rewrite <- !app_assoc; reflexivity) end.
    destruct (pc_no_delims _ Pc) as [P63 P35]. destruct (pc_no_delims _ Sc) as [S63 S35].
    apply cut_ref_generated; auto; rewrite !in_app_iff; tauto.
Qed.

(* non-vacuity: a route with a placeholder and a star, Unicode everywhere *)
Example route_url_example :
  let e := mkEnv [104;116;116;112] None [108] [56;48] [47;109;121;32;97;112;112] in     (* /my app *)
  let p := mkPat [47;120;47] [([105;100], [])] None in                                    (* /x/{id} *)
  let o := mkOv None None None None (Some (QPairs [(PStr [107;32], QVSeq [PStr [233]; PInt 2]); (PStr [110], QVNone)]))
                (Some (PStr [8364;35])) in
  route_url [] e [([114], p)] [114] [PStr [97;47;98]; PBytes [195;169]] o [([105;100], KScalar (PInt 7))]
  = Ok [104;116;116;112;58;47;47;108;47;109;121;37;50;48;97;112;112;47;120;47;55;47;97;37;50;70;98;47;37;67;51;37;65;57;
        63;107;43;61;37;67;51;37;65;57;38;107;43;61;50;38;110;61;35;37;69;50;37;56;50;37;65;67;37;50;51].
Proof. vm_compute. reflexivity. Qed.

(* ------------------------------------------------------------ resource_url through the reference decoder *)
Lemma virtual_path_chars names vp : virtual_path names = Ok vp -> Forall pc vp.
Proof.
  pose proof Facts_ok_path_tuple_safe as HF. unfold segment_safe_ok in HF.
  apply andb_true_iff in HF. destruct HF as [HF _].
  unfold virtual_path, join_path_tuple. intros H. apply rbind_ok in H. destruct H as (p & Hp & H).
  apply rbind_ok in Hp. destruct Hp as (qs & Hqs & Hp).
  assert (Hj : Forall pc (join [47] qs)).
  { apply Forall_join; [|apply pc47]. eapply mapM_Forall; [|eassumption]. intros x y. apply qps_chars; assumption. }
  assert (Hpc : Forall pc p).
  { simpl in Hp. destruct (join [47] qs); inversion Hp; subst; [apply pc47|assumption]. }
  destruct names; inversion H; subst; [assumption|]. apply Forall_app. split; [assumption|apply pc47].
Qed.

Theorem resource_url_decodes c e names els o u :
  wf_query (o_query o) -> wf_anchor (o_anchor o) ->
  join_elements_c c els = join_elements els ->
  resource_url c e names els o = Ok u ->
  exists app vp sfx qt f,
    parse_app e o = Ok app /\ virtual_path names = Ok vp
    /\ Forall pc (vp ++ sfx) /\ Forall qc qt /\ Forall qc f
    /\ (~ In 35 app -> ~ In 63 app -> cut_ref u = (app ++ vp ++ sfx, qt, f))
    /\ query_decodes (o_query o) qt
    /\ (forall t, spec_anchor (o_anchor o) = Some t -> unquote_text f = Some t)
    /\ (els <> [] -> exists ts, spec_elements els = Some ts /\ decode_segments sfx = Some ts).
Proof.
  intros Hwq Hwa Hc H. unfold resource_url in H. apply rbind_ok in H. destruct H as (vp & Hvp & H).
  rewrite parse_url_overrides_eq in H.
  apply rbind_ok in H. destruct H as ([[app qs] fr] & H0 & H).
  apply rbind_ok in H0. destruct H0 as (app' & Happ & H0). apply rbind_ok in H0. destruct H0 as ([qs' fr'] & Ht & H0).
  inversion H0; subst. clear H0. simpl in H.
  unfold tail_parts in Ht. apply rbind_ok in Ht. destruct Ht as (qs0 & Hqs & Ht).
  apply rbind_ok in Ht. destruct Ht as (fr0 & Hfr & Ht). inversion Ht; subst. clear Ht.
  apply rbind_ok in H. destruct H as (sfx & Hs & H). inversion H; subst. clear H.
  destruct (query_string_spec _ _ Hwq Hqs) as (qt & Q1 & Q2 & Q3 & Q4).
  destruct (fragment_spec _ _ Hwa Hfr) as (f & F1 & F2 & F3).
  pose proof (virtual_path_chars _ _ Hvp) as Pc.
  assert (Sc : Forall pc sfx /\ (els <> [] -> exists ts, spec_elements els = Some ts /\ decode_segments sfx = Some ts)).
  { destruct els as [|x els'].
    - inversion Hs; subst. split; [constructor|]. intros Hne; contradiction.
    - rewrite Hc in Hs. split; [eapply join_elements_chars; eassumption|].
      intros Hne. apply elements_roundtrip; assumption. }
  destruct Sc as [Sc Se].
  exists app, vp, sfx, qt, f. repeat split; auto.
  - apply Forall_app; auto.
  - intros A35 A63.
    match goal with |- cut_ref (?a ++ ?p ++ ?s ++ ?q ++ ?r) = _ =>
      replace (a ++ p ++ s ++ q ++ r) with ((a ++ p ++ s) ++ q ++ r) by (rewrite <- !app_assoc; reflexivity) end.
    destruct (pc_no_delims _ Pc) as [P63 P35]. destruct (pc_no_delims _ Sc) as [S63 S35].
    apply cut_ref_generated; auto; rewrite !in_app_iff; tauto.
Qed.

(* static_url and current_route_url are route_url on derived arguments, so route_url_decodes covers them *)
Theorem static_url_is_route_url e rs regs path o kw u :
  static_url e rs regs path o kw = Ok u ->
  exists sub rname, find_reg regs path = Some (sub, rname)
    /\ route_url [] e rs rname [] o (dset static_subpath_key (KScalar (PStr sub)) kw) = Ok u
    /\ join_elements_c [] [] = join_elements [].
Proof.
  unfold static_url. destruct (find_reg regs path) as [[sub rname]|]; [|discriminate].
  intros H. exists sub, rname. split; [reflexivity|]. split; [assumption|].
  unfold join_elements_c. destruct join_elements_key_stringified; reflexivity.
Qed.

Theorem current_route_url_is_route_url c e rs rname matched md gt els o kw u :
  current_route_url c e rs rname matched md gt els o kw = Ok u ->
  exists name, (rname = Some name \/ (rname = None /\ matched = Some name))
    /\ route_url c e rs name els
         (match o_query o with Some _ => o | None => set_query o (QPairs gt) end) (dupdate md kw) = Ok u.
Proof.
  unfold current_route_url. destruct rname as [n|]; [|destruct matched as [n|]; [|discriminate]];
    intros H; exists n; split; auto.
Qed.

(* ------------------------------------------------------------ every '%' starts a %HH escape *)
Fixpoint pct_ok (s : text) : bool :=
  match s with
  | [] => true
  | c :: r =>
      if c =? 37 then
        match r with
        | h :: l :: r2 => is_hex_upper h && is_hex_upper l && pct_ok r2
        | _ => false
        end
      else pct_ok r
  end.

Lemma pct_ok_app_len n : forall a b, (length a <= n)%nat -> pct_ok a = true -> pct_ok b = true -> pct_ok (a ++ b) = true.
Proof.
  induction n as [|n IH]; intros a b Hl Ha Hb.
  - destruct a; [assumption|simpl in Hl; lia].
  - destruct a as [|c r]; [assumption|]. simpl in Hl. cbn [app pct_ok] in *.
    destruct (c =? 37).
    + destruct r as [|h [|l r2]]; try discriminate. cbn [app].
      apply andb_true_iff in Ha. destruct Ha as [Hh Hr]. rewrite Hh. simpl.
      apply IH; auto. simpl in Hl. lia.
    + apply IH; auto. lia.
Qed.
Lemma pct_ok_app a b : pct_ok a = true -> pct_ok b = true -> pct_ok (a ++ b) = true.
Proof. apply (pct_ok_app_len (length a)). lia. Qed.

Lemma pct_ok_concat l : Forall (fun s => pct_ok s = true) l -> pct_ok (concat l) = true.
Proof. induction 1; simpl; [reflexivity|apply pct_ok_app; assumption]. Qed.

Lemma pct_ok_join sep l : pct_ok sep = true -> Forall (fun s => pct_ok s = true) l -> pct_ok (join sep l) = true.
Proof.
  intros Hs Hl. induction Hl as [|x r Hx Hr IH]; [reflexivity|].
  destruct r as [|y r]; [assumption|].
  change (pct_ok (x ++ sep ++ join sep (y :: r)) = true). repeat apply pct_ok_app; auto.
Qed.

Lemma pct_ok_quote safe bs : is_safe safe 37 = false -> Forall byte bs -> pct_ok (quote safe bs) = true.
Proof.
  intros H37 Hb. induction Hb as [|b r Hb _ IH]; [reflexivity|].
  unfold quote in *. simpl flat_map. unfold quote1 at 1. destruct (is_safe safe b) eqn:E.
  - cbn [app pct_ok]. destruct (N.eqb_spec b 37) as [->|Hne]; [congruence|assumption].
  - cbn [app pct_ok]. rewrite N.eqb_refl. unfold byte in Hb.
    rewrite !hexdigit_is_hex by lia. assumption.
Qed.

Lemma pct_ok_map_plus_len n : forall s, (length s <= n)%nat -> pct_ok (map plus_for_space s) = pct_ok s.
Proof.
  induction n as [|n IH]; intros s Hl; [destruct s; [reflexivity|simpl in Hl; lia]|].
  destruct s as [|c r]; [reflexivity|]. simpl in Hl. cbn [map pct_ok].
  assert (E : (plus_for_space c =? 37) = (c =? 37)) by (unfold plus_for_space; destruct (c =? 32) eqn:E; lia).
  rewrite E. destruct (c =? 37).
  - destruct r as [|h [|l r2]]; try reflexivity. cbn [map]. simpl in Hl.
    assert (Hh : forall x, is_hex_upper (plus_for_space x) = is_hex_upper x).
    { intros x. unfold plus_for_space, is_hex_upper. destruct (x =? 32) eqn:Ex; lia. }
    rewrite !Hh, IH by lia. reflexivity.
  - apply IH. lia.
Qed.
Lemma pct_ok_map_plus s : pct_ok (map plus_for_space s) = pct_ok s.
Proof. apply (pct_ok_map_plus_len (length s)). lia. Qed.

Lemma qps_pct safe v q : good_safe safe = true -> quote_path_segment safe v = Ok q -> pct_ok q = true.
Proof.
  intros Hg H. apply good_safe_spec in Hg. destruct Hg as [_ H37].
  apply qps_ok in H. destruct H as (t & _ & Hv & ->). apply pct_ok_quote; [assumption|apply encode_bytes; assumption].
Qed.

Lemma path_safe_good safe : path_safe_ok safe = true -> good_safe safe = true.
Proof. intros H. apply path_safe_ok_parts in H. tauto. Qed.

Theorem join_elements_pct els s : join_elements els = Ok s -> pct_ok s = true.
Proof.
  pose proof Facts_ok_join_elements_safe as HF. unfold segment_safe_ok in HF.
  apply andb_true_iff in HF. destruct HF as [HF _]. apply path_safe_good in HF.
  unfold join_elements. intros H. apply rbind_ok in H. destruct H as (qs & Hqs & H). inversion H; subst.
  apply pct_ok_join; [reflexivity|]. eapply mapM_Forall; [|eassumption]. intros x y. apply qps_pct; assumption.
Qed.

Theorem generate_pct p kw u : generate p kw = Ok u -> pct_ok u = true.
Proof.
  destruct compile_safe_parts as (S1 & S2 & S3). apply path_safe_good in S1, S2, S3.
  unfold generate. intros H. apply rbind_ok in H. destruct H as (tpl & Htpl & H).
  apply rbind_ok in H. destruct H as (d & Hd & H). apply rbind_ok in H. destruct H as (parts & Hparts & H).
  inversion H; subst. clear H.
  (* literals *)
  assert (Lok : Forall (fun t => match t with TLit s => exists q, s = double_pct q /\ pct_ok q = true | TSlot _ => True end) tpl).
  { unfold gen_template in Htpl. apply rbind_ok in Htpl. destruct Htpl as (pre & Hpre & Htpl).
    apply rbind_ok in Htpl. destruct Htpl as (hs & Hhs & Htpl). inversion Htpl; subst. clear Htpl.
    assert (LP : forall safe s t, good_safe safe = true -> lit_part safe s = Ok t ->
                 match t with TLit s => exists q, s = double_pct q /\ pct_ok q = true | TSlot _ => True end).
    { intros safe s t Hg Hl. unfold lit_part in Hl. apply rbind_ok in Hl. destruct Hl as (q & Hq & Hl).
      inversion Hl; subst. exists q. split; [reflexivity|eapply qps_pct; eassumption]. }
    constructor; [eapply (LP compile_prefix_safe); eassumption|]. apply Forall_app. split.
    - apply Forall_concat. eapply mapM_Forall; [|eassumption]. intros [n s] y Hy. simpl in Hy.
      destruct s as [|c r]; [inversion Hy; subst; repeat constructor|].
      apply rbind_ok in Hy. destruct Hy as (l & Hl & Hy). inversion Hy; subst.
      repeat constructor. eapply (LP compile_literal_safe); eassumption.
    - destruct (star_slot p); repeat constructor. }
  (* values *)
  assert (Dok : Forall (fun kv => pct_ok (snd kv) = true) d).
  { unfold build_newdict in Hd. eapply mapM_Forall; [|eassumption]. intros [k v] y Hy. simpl in Hy.
    apply rbind_ok in Hy. destruct Hy as (q & Hq & Hy). inversion Hy; subst. simpl.
    assert (QV : forall x z, q_value x = Ok z -> pct_ok z = true) by (intros x z; apply qps_pct; assumption).
    destruct v as [v|l shown]; simpl in Hq.
    - destruct v; try (eapply QV; eassumption).
      apply rbind_ok in Hq. destruct Hq as (t & _ & Hq). eapply QV; eassumption.
    - destruct (is_star_key p k); [|eapply QV; eassumption].
      apply rbind_ok in Hq. destruct Hq as (qs & Hqs & Hq). inversion Hq; subst.
      apply pct_ok_join; [reflexivity|]. eapply mapM_Forall; [|eassumption]. intros x z. apply QV. }
  apply pct_ok_concat. apply mapM_ok in Hparts. clear Htpl.
  induction Hparts as [|t r tpl' parts' Hr _ IH]; [constructor|].
  inversion Lok as [|? ? Ht Lok']; subst. constructor; [|apply IH; assumption].
  destruct t as [s|n]; simpl in Hr.
  - destruct Ht as (q & -> & Hq). rewrite undouble_double in Hr. inversion Hr; subst. assumption.
  - destruct (assoc n d) as [v|] eqn:Ea; [|discriminate]. inversion Hr; subst.
    destruct (assoc_in _ _ _ Ea) as (k & Hin). rewrite Forall_forall in Dok. apply (Dok _ Hin).
Qed.

Lemma url_quote_pct safe v q : good_safe safe = true -> wf_val v -> url_quote safe v = Ok q -> pct_ok q = true.
Proof.
  intros Hg Hw H. apply good_safe_spec in Hg. destruct Hg as [_ H37].
  unfold url_quote in H. apply rbind_ok in H. destruct H as (b & Hb & H). inversion H; subst.
  apply pct_ok_quote; [assumption|eapply to_bytes_bytes; eassumption].
Qed.

Lemma quote_via_pct v q : wf_val v -> quote_via v = Ok q -> pct_ok q = true.
Proof.
  pose proof Facts_ok_quote_plus_safe as HF. cbv zeta in HF.
  do 5 (apply andb_true_iff in HF; let H := fresh "HF" in destruct HF as [HF H]).
  apply good_safe_spec in HF. destruct HF as [_ H37].
  intros Hw H. unfold quote_via in H. rewrite Facts_ok_quote_via in H. unfold quote_plus in H.
  apply rbind_ok in H. destruct H as (b & Hb & H). inversion H; subst. unfold quote_plus_bytes.
  rewrite pct_ok_map_plus. apply pct_ok_quote; [assumption|eapply to_bytes_bytes; eassumption].
Qed.

Definition pinv (st : text * text) : Prop := pct_ok (fst st) = true /\ (snd st = [] \/ snd st = [38]).

Lemma emit_pinv st k x : pinv st -> pct_ok k = true -> pct_ok x = true -> pinv (emit st k x).
Proof.
  intros [H1 H2] Hk Hx. unfold emit, pinv. cbn [fst snd]. split; [|right; reflexivity].
  replace kv_sep with [61] by reflexivity.
  repeat apply pct_ok_app; auto. destruct H2 as [->| ->]; reflexivity.
Qed.

Lemma emit_seq_pinv l : forall st k st',
  pinv st -> pct_ok k = true -> Forall wf_val l -> emit_seq st k l = Ok st' -> pinv st'.
Proof.
  induction l as [|v r IH]; intros st k st' Hi Hk Hw H; simpl in H; [inversion H; subst; assumption|].
  inversion Hw as [|? ? Hwv Hwr]; subst. apply rbind_ok in H. destruct H as (qx & Hqx & H).
  eapply IH; [| |eassumption|eassumption]; [|assumption]. apply emit_pinv; auto. eapply quote_via_pct; eassumption.
Qed.

Theorem urlencode_pct l s : Forall wf_pair l -> urlencode l = Ok s -> pct_ok s = true.
Proof.
  intros Hw H. unfold urlencode in H. apply rbind_ok in H. destruct H as (st & Hst & H). inversion H; subst.
  assert (G : forall l st st', pinv st -> Forall wf_pair l -> urlencode_loop st l = Ok st' -> pinv st').
  { clear. induction l as [|kv r IH]; intros st st' Hi Hw H; simpl in H; [inversion H; subst; assumption|].
    inversion Hw as [|? ? [Hwk Hwv] Hwr]; subst. apply rbind_ok in H. destruct H as (st1 & H1 & H).
    eapply IH; [|eassumption|eassumption]. unfold urlencode_step in H1.
    apply rbind_ok in H1. destruct H1 as (k & Hk & H1). apply rbind_ok in H1. destruct H1 as (st2 & H2 & H1).
    inversion H1; subst. pose proof (quote_via_pct _ _ Hwk Hk) as Hkc.
    assert (G2 : pinv st2).
    { destruct (snd kv) as [|v|l'] eqn:Ev; simpl in Hwv.
      - inversion H2; subst. apply emit_pinv; auto.
      - destruct v as [t|b|z|kk sh];
          try (apply rbind_ok in H2; destruct H2 as (qv & Hqv & H2); inversion H2; subst;
               apply emit_pinv; auto; eapply quote_via_pct; eassumption).
        eapply emit_seq_pinv; [| |apply show_byte_wf|eassumption]; assumption.
      - eapply emit_seq_pinv; eassumption. }
    destruct G2 as [G21 G22]. split; [assumption|right; reflexivity]. }
  apply (G l ([], []) st); auto. split; [reflexivity|left; reflexivity].
Qed.

(* everything route_url appends to the application URL has only well-formed escapes *)
Theorem route_url_pct c e rs n els o kw u :
  wf_query (o_query o) -> wf_anchor (o_anchor o) ->
  join_elements_c c els = join_elements els ->
  route_url c e rs n els o kw = Ok u ->
  exists app rest, parse_app e o = Ok app /\ u = app ++ rest /\ pct_ok rest = true.
Proof.
  intros Hwq Hwa Hc H. unfold route_url in H. destruct (assoc n rs) as [p|]; [|discriminate].
  rewrite parse_url_overrides_eq in H.
  apply rbind_ok in H. destruct H as ([[app qs] fr] & H0 & H).
  apply rbind_ok in H0. destruct H0 as (app' & Happ & H0). apply rbind_ok in H0. destruct H0 as ([qs' fr'] & Ht & H0).
  inversion H0; subst. clear H0. simpl in H.
  unfold tail_parts in Ht. apply rbind_ok in Ht. destruct Ht as (qs0 & Hqs & Ht).
  apply rbind_ok in Ht. destruct Ht as (fr0 & Hfr & Ht). inversion Ht; subst. clear Ht.
  apply rbind_ok in H. destruct H as (path & Hp & H). apply rbind_ok in H. destruct H as (sfx & Hs & H).
  inversion H; subst. clear H.
  eexists _, _. split; [eassumption|]. split; [reflexivity|].
  pose proof Facts_ok_query_str_safe as Fq. apply query_safe_ok_parts in Fq. destruct Fq as (Gq & _).
  pose proof Facts_ok_anchor_quote_safe as Fa. apply query_safe_ok_parts in Fa. destruct Fa as (Ga & _).
  repeat apply pct_ok_app.
  - eapply generate_pct; eassumption.
  - destruct els as [|x els']; [inversion Hs; reflexivity|].
    rewrite Hc in Hs. apply rbind_ok in Hs. destruct Hs as (s & Hj & Hs). inversion Hs; subst.
    pose proof (join_elements_pct _ _ Hj) as Hjp. destruct (endswith_char 47 path); [assumption|exact Hjp].
  - unfold query_string in Hqs. destruct (o_query o) as [[t|l]|]; [| |inversion Hqs; reflexivity].
    + destruct (query_truthy (QStr t)); [|inversion Hqs; reflexivity].
      apply rbind_ok in Hqs. destruct Hqs as (s & Hs' & Hqs). inversion Hqs; subst.
      replace qs_prefix with [63] by reflexivity. simpl. eapply (url_quote_pct _ (PStr t)); [eassumption|exact I|eassumption].
    + destruct (query_truthy (QPairs l)); [|inversion Hqs; reflexivity].
      apply rbind_ok in Hqs. destruct Hqs as (s & Hs' & Hqs). inversion Hqs; subst.
      replace qs_prefix with [63] by reflexivity. simpl. eapply urlencode_pct; eassumption.
  - unfold fragment in Hfr. destruct (o_anchor o) as [v|]; [|inversion Hfr; reflexivity].
    destruct (truthy v); [|inversion Hfr; reflexivity].
    apply rbind_ok in Hfr. destruct Hfr as (s & Hs' & Hfr). inversion Hfr; subst.
    replace frag_prefix with [35] by reflexivity. simpl. eapply url_quote_pct; eassumption.
Qed.

(* ------------------------------------------------------------ static assets registered under a URL *)
Lemma Facts_ok_static_external_safe : path_safe_ok static_external_safe = true.
Proof. vm_compute. reflexivity. Qed.
(* the registered URL and the quoted sub-path are concatenated (not passed through urljoin) *)
Lemma Facts_ok_static_external_join : static_external_uses_urljoin = false.
Proof. reflexivity. Qed.

(* the result is <registered URL, scheme filled in> ++ quoted sub-path ++ ?query ++ #fragment, whatever the
   sub-path and whatever the URL's scheme; the quoted sub-path decodes back and is RFC 3986 clean *)
Theorem static_external_roundtrip e url sub o u :
  static_external e url sub o = Ok u ->
  exists url' q qs fr,
    u = url' ++ q ++ qs ++ fr /\ tail_parts o = Ok (qs, fr)
    /\ (forall p, urlparse [] url = Ok p -> r_scheme p <> [] -> url' = url)
    /\ unquote_text q = Some sub /\ Forall pc q /\ pct_ok q = true.
Proof.
  pose proof Facts_ok_static_external_safe as HF. apply path_safe_ok_parts in HF. destruct HF as (Hg & Hs & _).
  pose proof (good_safe_spec _ Hg) as [Ha H37].
  unfold static_external. rewrite Facts_ok_static_external_join, parse_url_overrides_eq. intros H.
  apply rbind_ok in H. destruct H as ([[app qs] fr] & H0 & H).
  apply rbind_ok in H0. destruct H0 as (app' & _ & H0). apply rbind_ok in H0. destruct H0 as ([qs' fr'] & Ht & H0).
  inversion H0; subst. clear H0. simpl in H.
  apply rbind_ok in H. destruct H as (p & Hp & H). apply rbind_ok in H. destruct H as (b & Hb & H).
  apply utf8_enc_ok in Hb. destruct Hb as [Hv ->]. simpl in H. inversion H; subst. clear H.
  pose proof (encode_bytes _ Hv) as Hbytes.
  rewrite <- app_assoc. do 4 eexists.
  split; [reflexivity|]. split; [eassumption|]. split.
  - intros p' Hp' Hne. rewrite Hp in Hp'. inversion Hp'; subst. destruct (r_scheme p'); [contradiction|reflexivity].
  - split; [rewrite unquote_text_quote by assumption; apply decode_encode; assumption|]. split.
    + apply (quote_chars path_char); auto. apply unreserved_path.
    + apply pct_ok_quote; assumption.
Qed.

(* ------------------------------------------------------------ the application URL is as clean as the inputs *)
Section AppChars.
Variable P : N -> Prop.
Hypothesis P_colon : P 58.
Hypothesis P_slash : P 47.
Hypothesis P_digits : Forall P [52; 51; 56; 48].     (* the default ports "443", "80" *)

Definition opt_ok (o : option text) : Prop := match o with Some t => Forall P t | None => True end.
Definition inputs_ok (e : env) (o : overrides) : Prop :=
  Forall P (e_scheme e) /\ opt_ok (e_http_host e) /\ Forall P (e_server_name e) /\ Forall P (e_server_port e)
  /\ opt_ok (o_scheme o) /\ opt_ok (o_host o) /\ opt_ok (o_port o).

Lemma cut_Forall c s : Forall P s ->
  Forall P (fst (cut c s)) /\ match snd (cut c s) with Some r => Forall P r | None => True end.
Proof.
  induction 1 as [|x r Hx Hr IH]; simpl; [split; [constructor|exact I]|].
  destruct (x =? c); simpl; [split; [constructor|assumption]|].
  destruct (cut c r) as [a b]. simpl in *. destruct IH. split; [constructor; assumption|assumption].
Qed.
Lemma before_Forall c s : Forall P s -> Forall P (before c s).
Proof. intros H. apply (proj1 (cut_Forall c s H)). Qed.
Lemma after_Forall c s : Forall P s -> Forall P (after c s).
Proof.
  intros H. unfold after. pose proof (proj2 (cut_Forall c s H)) as G. destruct (snd (cut c s)); [assumption|constructor].
Qed.

Lemma default_port_Forall s d : default_port s = Some d -> Forall P d.
Proof.
  unfold default_port, rfc_default_ports. simpl. inversion P_digits as [|? ? P52 T1]; subst.
  inversion T1 as [|? ? P51 T2]; subst. inversion T2 as [|? ? P56 T3]; subst. inversion T3 as [|? ? P48 _]; subst.
  destruct (text_eqb s _); [intros H; inversion H; subst; repeat constructor; assumption|].
  destruct (text_eqb s _); [intros H; inversion H; subst; repeat constructor; assumption|discriminate].
Qed.

Lemma spec_authority_chars e s h p :
  Forall P (e_scheme e) -> opt_ok (e_http_host e) -> Forall P (e_server_name e) -> Forall P (e_server_port e) ->
  opt_ok s -> opt_ok h -> opt_ok p -> Forall P (spec_authority e s h p).
Proof.
  intros H1 H2 H3 H4 Hs Hh Hp. unfold spec_authority.
  set (hostport := match h with Some x => x | None => match e_http_host e with Some x => x | None => e_server_name e end end).
  assert (Hhp : Forall P hostport).
  { unfold hostport. destruct h; [assumption|]. destruct (e_http_host e); assumption. }
  set (port := match p with Some x => x | None => _ end).
  assert (Hport : Forall P port).
  { unfold port. destruct p; [assumption|]. destruct s as [s|].
    - destruct (default_port s) eqn:E; [eapply default_port_Forall; eassumption|].
      destruct (has_colon hostport); [apply after_Forall|]; assumption.
    - destruct (has_colon hostport); [apply after_Forall|]; assumption. }
  cbv zeta. replace scheme_sep with [58; 47; 47] by reflexivity. replace port_sep with [58] by reflexivity.
  match goal with |- context [match ?X with [] => [] | _ :: _ => _ end] => set (shown := X) end.
  assert (Hshown : Forall P shown).
  { unfold shown. destruct (default_port _); [|assumption]. destruct (text_eqb port t); [constructor|assumption]. }
  repeat (apply Forall_app; split).
  - destruct s; assumption.
  - repeat constructor; assumption.
  - apply before_Forall; assumption.
  - destruct shown; [constructor|]. apply Forall_app. split; [repeat constructor; assumption|assumption].
Qed.

Lemma with_port_chars u port : Forall P u -> opt_ok port -> Forall P (with_port u port).
Proof.
  intros Hu Hp. unfold with_port. destruct port as [[|c r]|]; try assumption.
  replace port_sep with [58] by reflexivity. repeat (apply Forall_app; split); auto; repeat constructor; assumption.
Qed.

Lemma webob_host_url_chars e :
  Forall P (e_scheme e) -> opt_ok (e_http_host e) -> Forall P (e_server_name e) -> Forall P (e_server_port e) ->
  Forall P (webob_host_url e).
Proof.
  intros H1 H2 H3 H4. unfold webob_host_url.
  assert (G : forall host port, Forall P host -> opt_ok port ->
              Forall P (with_port (e_scheme e ++ [58; 47; 47] ++ host)
                          (elide [([104; 116; 116; 112; 115], [52; 52; 51]); ([104; 116; 116; 112], [56; 48])] (e_scheme e) port))).
  { intros host port Hh Hp. apply with_port_chars.
    - repeat (apply Forall_app; split); auto; repeat constructor; assumption.
    - unfold elide. destruct (lookup _ (e_scheme e)); [|assumption]. destruct port; [|exact I].
      destruct (text_eqb t0 t); [exact I|assumption]. }
  destruct (e_http_host e) as [h|]; simpl in H2.
  - destruct (has_colon h && negb (last h 0 =? 93)).
    + unfold rcut. pose proof (cut_Forall 58 (rev h) (Forall_rev H2)) as [C1 C2].
      destruct (cut 58 (rev h)) as [a [r|]]; simpl in *; apply G; auto; try apply Forall_rev; auto. constructor.
    + apply G; [assumption|exact I].
  - apply G; assumption.
Qed.

Theorem host_part_chars e o : inputs_ok e o -> Forall P (host_part e o).
Proof.
  intros (H1 & H2 & H3 & H4 & Hs & Hh & Hp). unfold host_part.
  destruct (o_scheme o) as [s|] eqn:Es; [rewrite overrides_honoured; apply spec_authority_chars; auto|].
  destruct (o_host o) as [h|] eqn:Eh; [rewrite overrides_honoured; apply spec_authority_chars; auto|].
  destruct (o_port o) as [p|] eqn:Ep; [rewrite overrides_honoured; apply spec_authority_chars; auto|].
  apply webob_host_url_chars; assumption.
Qed.
End AppChars.

(* with scheme / host / port inputs free of '?' and '#', the reference decoder splits every route_url
   output where the parts were put: the charset hypothesis of route_url_decodes discharged from the inputs *)
Definition no_delim (c : N) : Prop := c <> 35 /\ c <> 63.

Theorem route_url_decodes_clean c e rs n els o kw u :
  inputs_ok no_delim e o -> o_app_url o = None ->
  wf_query (o_query o) -> wf_anchor (o_anchor o) ->
  join_elements_c c els = join_elements els ->
  route_url c e rs n els o kw = Ok u ->
  exists base qt f, cut_ref u = (base, qt, f) /\ Forall qc qt /\ Forall qc f
    /\ query_decodes (o_query o) qt
    /\ (forall t, spec_anchor (o_anchor o) = Some t -> unquote_text f = Some t).
Proof.
  intros Hin Ho Hwq Hwa Hc H.
  destruct (route_url_decodes _ _ _ _ _ _ _ _ Hwq Hwa Hc H) as (app & path & sfx & qt & f & Ha & _ & Q & F & Hcut & Hq & Hf & _).
  destruct (parse_app_none _ _ _ Ho Ha) as (s & Hs & ->).
  assert (Hh : Forall no_delim (host_part e o)).
  { apply host_part_chars; auto; unfold no_delim; try (split; discriminate). repeat constructor; discriminate. }
  destruct (pc_no_delims _ (quoted_script_chars _ _ Hs)) as [S63 S35].
  assert (A35 : ~ In 35 (host_part e o ++ s)).
  { rewrite in_app_iff. intros [Hx|Hx]; [|auto]. rewrite Forall_forall in Hh. destruct (Hh _ Hx). congruence. }
  assert (A63 : ~ In 63 (host_part e o ++ s)).
  { rewrite in_app_iff. intros [Hx|Hx]; [|auto]. rewrite Forall_forall in Hh. destruct (Hh _ Hx). congruence. }
  eexists _, qt, f. split; [apply Hcut; assumption|]. auto.
Qed.

(* ------------------------------------------------------------ resource_url with a virtual root / route_name= *)
Lemma join_path_tuple_chars names p : join_path_tuple names = Ok p -> Forall pc p.
Proof.
  pose proof Facts_ok_path_tuple_safe as HF. unfold segment_safe_ok in HF.
  apply andb_true_iff in HF. destruct HF as [HF _].
  unfold join_path_tuple. intros Hp. apply rbind_ok in Hp. destruct Hp as (qs & Hqs & Hp).
  assert (Hj : Forall pc (join [47] qs)).
  { apply Forall_join; [|apply pc47]. eapply mapM_Forall; [|eassumption]. intros x y. apply qps_chars; assumption. }
  destruct names; [inversion Hp; subst; apply pc47|].
  destruct (join [47] qs); inversion Hp; subst; [apply pc47|assumption].
Qed.

Lemma resource_adapter_chars names vroot vp vpt : resource_adapter names vroot = Ok (vp, vpt) -> Forall pc vp.
Proof.
  unfold resource_adapter. intros H. apply rbind_ok in H. destruct H as (p & Hp & H).
  apply join_path_tuple_chars in Hp.
  assert (Hpp : Forall pc (match map (fun n => if truthy n then n else PStr []) names with [] => p | _ :: _ => p ++ [47] end)).
  { destruct (map _ names); [assumption|]. apply Forall_app. split; [assumption|apply pc47]. }
  destruct vroot as [v|]; [|inversion H; subst; assumption].
  apply rbind_ok in H. destruct H as (t & _ & H).
  match type of H with (if ?B then _ else _) = _ => destruct B end; [|inversion H; subst; assumption].
  apply rbind_ok in H. destruct H as (vp' & Hvp & H). inversion H; subst.
  eapply join_path_tuple_chars; eassumption.
Qed.

(* without virtual root and route_name it is the function the earlier theorems speak about *)
Theorem resource_url_x_plain c e rs names els o :
  resource_url_x c e rs names els o None None = resource_url c e names els o.
Proof.
  unfold resource_url_x, resource_url, resource_adapter, virtual_path.
  destruct (join_path_tuple _); reflexivity.
Qed.

(* with route_name= it is route_url with the virtual path tuple as the remainder value *)
Theorem resource_url_x_route c e rs names els o vroot rname rem rkw u :
  resource_url_x c e rs names els o vroot (Some (rname, rem, rkw)) = Ok u ->
  exists vp vpt, resource_adapter names vroot = Ok (vp, vpt)
    /\ route_url c e rs rname els o
         (dupdate [(rem, KSeq vpt [])] (match rkw with Some k => k | None => [] end)) = Ok u.
Proof.
  unfold resource_url_x. intros H. apply rbind_ok in H. destruct H as ([vp vpt] & Ha & H). eauto.
Qed.

(* under a virtual root: same decoding theorem, the path part being the adapter's virtual path *)
Theorem resource_url_x_decodes c e rs names els o vroot u :
  wf_query (o_query o) -> wf_anchor (o_anchor o) ->
  join_elements_c c els = join_elements els ->
  resource_url_x c e rs names els o vroot None = Ok u ->
  exists app vp vpt sfx qt f,
    parse_app e o = Ok app /\ resource_adapter names vroot = Ok (vp, vpt)
    /\ Forall pc (vp ++ sfx) /\ Forall qc qt /\ Forall qc f
    /\ (~ In 35 app -> ~ In 63 app -> cut_ref u = (app ++ vp ++ sfx, qt, f))
    /\ query_decodes (o_query o) qt
    /\ (forall t, spec_anchor (o_anchor o) = Some t -> unquote_text f = Some t)
    /\ (els <> [] -> exists ts, spec_elements els = Some ts /\ decode_segments sfx = Some ts).
Proof.
  intros Hwq Hwa Hc H. unfold resource_url_x in H. apply rbind_ok in H. destruct H as ([vp vpt] & Hvp & H).
  rewrite parse_url_overrides_eq in H.
  apply rbind_ok in H. destruct H as ([[app qs] fr] & H0 & H).
  apply rbind_ok in H0. destruct H0 as (app' & Happ & H0). apply rbind_ok in H0. destruct H0 as ([qs' fr'] & Ht & H0).
  inversion H0; subst. clear H0. simpl in H.
  unfold tail_parts in Ht. apply rbind_ok in Ht. destruct Ht as (qs0 & Hqs & Ht).
  apply rbind_ok in Ht. destruct Ht as (fr0 & Hfr & Ht). inversion Ht; subst. clear Ht.
  apply rbind_ok in H. destruct H as (sfx & Hs & H). inversion H; subst. clear H.
  destruct (query_string_spec _ _ Hwq Hqs) as (qt & Q1 & Q2 & Q3 & Q4).
  destruct (fragment_spec _ _ Hwa Hfr) as (f & F1 & F2 & F3).
  pose proof (resource_adapter_chars _ _ _ _ Hvp) as Pc.
  assert (Sc : Forall pc sfx /\ (els <> [] -> exists ts, spec_elements els = Some ts /\ decode_segments sfx = Some ts)).
  { destruct els as [|x els'].
    - inversion Hs; subst. split; [constructor|]. intros Hne; contradiction.
    - rewrite Hc in Hs. split; [eapply join_elements_chars; eassumption|].
      intros Hne. apply elements_roundtrip; assumption. }
  destruct Sc as [Sc Se].
  exists app, vp, vpt, sfx, qt, f. repeat split; auto.
  - apply Forall_app; auto.
  - intros A35 A63.
    match goal with |- cut_ref (?a ++ ?p ++ ?s ++ ?q ++ ?r) = _ =>
      replace (a ++ p ++ s ++ q ++ r) with ((a ++ p ++ s) ++ q ++ r) by (rewrite <- !app_assoc; reflexivity) end.
    destruct (pc_no_delims _ Pc) as [P63 P35]. destruct (pc_no_delims _ Sc) as [S63 S35].
    apply cut_ref_generated; auto; rewrite !in_app_iff; tauto.
Qed.

(* ------------------------------------------------------------ one request object, changing environment *)
Lemma Facts_ok_request_state : url_helpers_keep_no_request_state = true.
Proof. reflexivity. Qed.

(* whatever the request was used for before, under whatever environments: only the current one counts *)
Theorem request_history_irrelevant hist e : quoted_script_name_h hist e = quoted_script_name e.
Proof. unfold quoted_script_name_h. rewrite Facts_ok_request_state. reflexivity. Qed.

(* a request that freezes its first answer is refuted: mounted at '' first, then at '/app' *)
Theorem request_memo_refuted :
  exists hist e, quoted_script_name_frozen hist e <> quoted_script_name e.
Proof.
  exists [mkEnv [104] None [104] [56; 48] []], (mkEnv [104] None [104] [56; 48] [47; 97; 112; 112]).
  vm_compute. discriminate.
Qed.
