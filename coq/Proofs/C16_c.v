(* C16 -- configuration time: the root the view instance is confined to is the directory the application designated,
   for every form of root_dir / path (absolute path, 'package:dir', relative to package_name= or to the package that
   creates the view), through static_view.__init__ / resolve_asset_spec and, for add_static_view, through
   Configurator._make_spec and StaticURLInfo.add. *)
From Coq Require Import List NArith ZArith PeanoNat Bool Lia.
Import ListNotations.
Require Import Verif.Lib.Wire Verif.Lib.Text Verif.Lib.PathNorm Verif.Lib.Utf8 Verif.Lib.Percent Verif.Lib.C16Posix
               Verif.Gen.Facts_C16 Verif.Model.C16 Verif.Proofs.C16 Verif.Proofs.C16_b.
Open Scope N_scope.

Lemma split_once_spec ch s : forall p d, split_once ch s = Some (p, d) -> s = p ++ ch :: d /\ ~ In ch p.
Proof.
  induction s as [|x r IH]; intros p d H; [discriminate|]. cbn [split_once] in H.
  destruct (x =? ch) eqn:E.
  - injection H as <- <-. apply N.eqb_eq in E. subst. split; [reflexivity|intros []].
  - destruct (split_once ch r) as [[a b]|]; [|discriminate]. injection H as <- <-.
    destruct (IH a b eq_refl) as [-> Hn]. split; [reflexivity|].
    intros [Hx|Hin]; [subst; rewrite N.eqb_refl in E; discriminate|auto].
Qed.

Lemma split_once_app ch p d : ~ In ch p -> split_once ch (p ++ ch :: d) = Some (p, d).
Proof.
  induction p as [|x p IH]; intros Hn; cbn [app split_once].
  - rewrite N.eqb_refl. reflexivity.
  - destruct (x =? ch) eqn:E; [apply N.eqb_eq in E; subst; exfalso; apply Hn; left; reflexivity|].
    rewrite IH; [reflexivity|]. intros Hin. apply Hn. right. assumption.
Qed.

Lemma os_resolve_trailing x : os_resolve (x ++ [slash]) = os_resolve x.
Proof.
  unfold os_resolve. change [slash] with (repeat slash 1). rewrite split_repeat_tail, resolve_app.
  rewrite (resolve_empties _ 1). reflexivity.
Qed.

(* what StaticURLInfo.add does to a spec: nothing, or one '/' appended *)
Lemma static_add_cases x : static_add_spec x = x \/ static_add_spec x = x ++ [slash].
Proof. unfold static_add_spec. destruct (ends_with slash x || ends_with colon x); [left|right]; reflexivity. Qed.

Lemma first_char_app (p : text) ch d d' : startswith [slash] (p ++ ch :: d) = startswith [slash] (p ++ ch :: d').
Proof. destruct p; reflexivity. Qed.

Definition pkg_name_ok (p : text) : Prop := p <> [] /\ ~ In colon p /\ startswith [slash] p = false.

(* package names are non-empty (an empty package_name is falsy: the root would silently become relative to the
   working directory); the caller's name is a dotted name *)
Definition setup_ok (s : setup) : Prop :=
  pkg_name_ok (s_caller s) /\ (forall p, s_pname s = Some p -> p <> []) /\
  (forall p d, split_once colon (s_root s) = Some (p, d) -> p <> []).

(* a 'package:dir' spec through __init__ (directly, or after _make_spec + StaticURLInfo.add) *)
Lemma init_root_pkg p d kw caller :
  ~ In colon p -> startswith [slash] (p ++ colon :: d) = false ->
  init_root (p ++ colon :: d) kw caller = (Some p, d).
Proof.
  intros Hn Hs. unfold init_root, resolve_asset_spec. rewrite Hs, split_once_app by assumption. reflexivity.
Qed.

Lemma init_root_added p d kw caller :
  ~ In colon p -> startswith [slash] (p ++ colon :: d) = false ->
  exists d', init_root (static_add_spec (p ++ colon :: d)) kw caller = (Some p, d') /\ (d' = d \/ d' = d ++ [slash]).
Proof.
  intros Hn Hs. destruct (static_add_cases (p ++ colon :: d)) as [E|E]; rewrite E.
  - exists d. split; [apply init_root_pkg; assumption|left; reflexivity].
  - exists (d ++ [slash]). rewrite <- app_assoc. cbn [app]. split; [|right; reflexivity].
    apply init_root_pkg; [assumption|]. rewrite (first_char_app p colon _ d). assumption.
Qed.

Lemma view_root_char s :
  setup_ok s ->
  match designated_parts s with
  | None => exists r', view_root s = (None, r') /\ (r' = s_root s \/ r' = s_root s ++ [slash]) /\
                       startswith [slash] r' = true
  | Some (p, d) => p <> [] /\ exists d', view_root s = (Some p, d') /\ (d' = d \/ d' = d ++ [slash])
  end.
Proof.
  intros ((Hc1 & Hc2 & Hc3) & Hpn & Hsp). unfold designated_parts, view_root, eff_pname.
  destruct (startswith [slash] (s_root s)) eqn:Habs.
  - (* absolute path *)
    destruct (c_mount (s_base s)) as [|m].
    + unfold make_spec, resolve_asset_spec at 1. rewrite Habs.
      destruct (static_add_cases (s_root s)) as [E|E]; rewrite E.
      * exists (s_root s). unfold init_root, resolve_asset_spec. rewrite Habs.
        split; [reflexivity|split; [left; reflexivity|first [assumption|reflexivity]]].
      * exists (s_root s ++ [slash]). assert (Ha : startswith [slash] (s_root s ++ [slash]) = true)
          by (apply startswith_app_l; assumption).
        unfold init_root, resolve_asset_spec. rewrite Ha. split; [reflexivity|split; [right; reflexivity|first [assumption|reflexivity]]].
    + exists (s_root s). unfold init_root, resolve_asset_spec. rewrite Habs.
      split; [reflexivity|split; [left; reflexivity|first [assumption|reflexivity]]].
  - destruct (split_once colon (s_root s)) as [[p d]|] eqn:Esp.
    + (* 'package:dir' *)
      destruct (split_once_spec _ _ _ _ Esp) as [Er Hn]. split; [apply (Hsp p d); reflexivity|].
      assert (Hs : startswith [slash] (p ++ colon :: d) = false) by (rewrite <- Er; assumption).
      destruct (c_mount (s_base s)) as [|m].
      * unfold make_spec, resolve_asset_spec at 1. rewrite Habs, Esp. cbn [app].
        apply init_root_added; assumption.
      * exists d. split; [|left; reflexivity]. rewrite Er. apply init_root_pkg; assumption.
    + (* relative, no package written *)
      destruct (c_mount (s_base s)) as [|m].
      * split; [assumption|].
        unfold make_spec, resolve_asset_spec at 1. rewrite Habs, Esp. cbn [app].
        apply init_root_added; [assumption|]. destruct (s_caller s); [congruence|exact Hc3].
      * assert (Hq : match s_pname s with Some p => p | None => s_caller s end <> []).
        { destruct (s_pname s) as [p|] eqn:E; [apply Hpn; reflexivity|assumption]. }
        split; [exact Hq|]. exists (s_root s). split; [|left; reflexivity].
        unfold init_root, resolve_asset_spec. rewrite Habs, Esp. destruct (s_pname s); reflexivity.
Qed.

Lemma spec_root_with_root_fs c d : spec_root (with_root c false d []) = os_resolve d.
Proof. reflexivity. Qed.

Lemma spec_root_with_root_pkg c d m : spec_root (with_root c true d m) = os_resolve (m ++ [slash] ++ d).
Proof. reflexivity. Qed.

(* THE ROOT IS THE DESIGNATED DIRECTORY, for every form of spec and every mounting *)
Theorem configured_root s : setup_ok s -> spec_root (configure s) = os_resolve (designated_dir s).
Proof.
  intros Hok. pose proof (view_root_char s Hok) as H. unfold configure, designated_dir.
  destruct (designated_parts s) as [[p d]|].
  - destruct H as (Hp & d' & -> & Hd'). destruct p as [|x p]; [congruence|].
    rewrite spec_root_with_root_pkg. destruct Hd' as [-> | ->]; [reflexivity|].
    rewrite !app_assoc. apply os_resolve_trailing.
  - destruct H as (r' & -> & Hr' & _). rewrite spec_root_with_root_fs.
    destruct Hr' as [-> | ->]; [reflexivity|apply os_resolve_trailing].
Qed.

(* well-formedness, stated on what the application wrote *)
Definition wf_setup (s : setup) : Prop :=
  setup_ok s /\
  normal_seg (eff_index (s_base s)) /\ nonul (eff_index (s_base s)) /\
  Forall (fun p => ~ In slash (fst p) /\ nonul (fst p)) (c_encmap (s_base s)) /\
  match designated_parts s with
  | None => nonul (s_root s)
  | Some (p, d) =>
      (exists init Mc, (init = 1 \/ init = 2)%nat /\ Forall normal_seg Mc /\ Forall nonul Mc /\
                       mod_lookup (s_mods s) p = path_of init Mc) /\
      Forall plain_piece (split_on slash d)
  end.

Theorem configured_wf s : wf_setup s -> wf (configure s).
Proof.
  intros (Hok & Hi1 & Hi2 & Hext & Hd). pose proof (view_root_char s Hok) as H. unfold configure.
  destruct (designated_parts s) as [[p d]|].
  - destruct H as (Hp & d' & -> & Hd'). destruct p as [|x p]; [congruence|]. destruct Hd as [HM Hpl].
    right. refine (conj eq_refl (conj HM (conj _ (conj Hi1 (conj Hi2 Hext))))).
    cbn [with_root c_docroot].
    destruct Hd' as [-> | ->]; [assumption|].
    change [slash] with (repeat slash 1). rewrite split_repeat_tail. apply Forall_app. split; [assumption|].
    constructor; [left; reflexivity|constructor].
  - destruct H as (r' & -> & Hr' & Ha). left. refine (conj eq_refl (conj Ha (conj _ (conj Hi1 (conj Hi2 Hext))))).
    cbn [with_root c_docroot].
    destruct Hr' as [-> | ->]; [assumption|]. intros Hin. apply in_app_or in Hin.
    destruct Hin as [Hin|[Hin|[]]]; [exact (Hd Hin)|discriminate Hin].
Qed.

(* containment against the DESIGNATED directory: every path handed to the file system -- by find_resource_path,
   isdir, getsize, open -- lies at or below the directory the application wrote, whatever form it wrote it in *)
Theorem containment_configured s fs rqs :
  wf_setup s -> is_dir (walk fs [] (os_resolve (designated_dir s))) = true ->
  Forall (fun rl => forallb (fun e => beneath (os_resolve (designated_dir s)) (snd e)) (snd rl) = true)
         (run_model (configure s) fs rqs).
Proof.
  intros Hwf Hdir. pose proof (configured_root s (proj1 Hwf)) as ER.
  pose proof (containment (configure s) fs rqs (configured_wf s Hwf)) as H.
  unfold root_is_dir, contained in H. rewrite ER in H. apply H. exact Hdir.
Qed.

(* the specification evaluated with the designated directory as root (what the correspondence run judges with) is the
   specification of the instance the code builds *)
Lemma spec_response_with_root c b1 d1 m1 b2 d2 m2 rq fs :
  spec_root (with_root c b1 d1 m1) = spec_root (with_root c b2 d2 m2) ->
  spec_response (with_root c b1 d1 m1) rq fs = spec_response (with_root c b2 d2 m2) rq fs.
Proof.
  intros E.
  assert (Hcore : spec_response_core (with_root c b1 d1 m1) rq fs = spec_response_core (with_root c b2 d2 m2) rq fs).
  { unfold spec_response_core.
    change (spec_segments (with_root c b1 d1 m1) rq) with (spec_segments (with_root c b2 d2 m2) rq).
    destruct (spec_segments _ rq) as [[segs|]|]; try reflexivity.
    unfold spec_tail, spec_serve. rewrite E. reflexivity. }
  unfold spec_response. rewrite Hcore. reflexivity.
Qed.

Theorem spec_configured s rq fs :
  setup_ok s -> spec_response (configure s) rq fs = spec_response (spec_config s) rq fs.
Proof.
  intros Hok. pose proof (configured_root s Hok) as ER. unfold configure, spec_config in *.
  destruct (view_root s) as [[[|x p]|] d]; apply spec_response_with_root; rewrite ER; reflexivity.
Qed.

Lemma configure_fields s :
  c_mount (configure s) = c_mount (s_base s) /\ c_host (configure s) = c_host (s_base s) /\
  c_safe (configure s) = c_safe (s_base s).
Proof. unfold configure. destruct (view_root s) as [[[|x p]|] d]; repeat split. Qed.

(* end to end: what is written at configuration time -> the instance -> every answer conforms to the specification whose
   root is the designated directory *)
Theorem serves_designated_configured s fs rqs :
  wf_setup s -> is_dir (walk fs [] (os_resolve (designated_dir s))) = true -> host_ok (s_base s) ->
  Forall (decodable (s_base s)) rqs ->
  Forall (fun x => conforms (fst (snd x)) (spec_response (spec_config s) (fst x) fs) = true)
         (combine rqs (run_model (configure s) fs rqs)).
Proof.
  intros Hwf Hdir Hhost Hdec. pose proof (configured_root s (proj1 Hwf)) as ER.
  destruct (configure_fields s) as (Em & Eh & Es).
  assert (H : Forall (fun x => conforms (fst (snd x)) (spec_response (configure s) (fst x) fs) = true)
                     (combine rqs (run_model (configure s) fs rqs))).
  { apply serves_designated_file.
    - apply configured_wf; assumption.
    - unfold root_is_dir. rewrite ER. assumption.
    - unfold host_ok in *. rewrite Eh, Es. assumption.
    - eapply Forall_impl; [|exact Hdec]. intros rq Hrq. unfold decodable in *. rewrite Em. assumption. }
  eapply Forall_impl; [|exact H]. intros x Hx. rewrite <- (spec_configured s (fst x) fs (proj1 Hwf)).
  exact Hx.
Qed.

(* ------------------------------------------------------------ examples: every form, both ways of creating the view *)
(* packages "p" -> /m, "q" -> /n; the creating module belongs to "q"; index "i" *)
Definition ex_setup (mount : N) (root : text) (pname : option text) : setup :=
  mkSetup root pname [113] [([112], [47; 109]); ([113], [47; 110])]
          (mkConfig mount [115] false [] [] [105] [] [] [104] [47] false None).

Example configured_forms :
  spec_root (configure (ex_setup 3 [47; 114] None)) = [[114]] /\                       (* "/r" *)
  spec_root (configure (ex_setup 3 [112; 58; 115] None)) = [[109]; [115]] /\           (* "p:s" *)
  spec_root (configure (ex_setup 3 [115] None)) = [[110]; [115]] /\                    (* "s": the caller's package *)
  spec_root (configure (ex_setup 3 [115] (Some [112]))) = [[109]; [115]] /\            (* "s", package_name="p" *)
  spec_root (configure (ex_setup 0 [115] None)) = [[110]; [115]] /\                    (* add_static_view(path="s") *)
  c_docroot (configure (ex_setup 0 [115] None)) = [115; 47] /\                         (* ... with the separator added *)
  spec_root (configure (ex_setup 0 [47; 114] None)) = [[114]] /\
  (* boundary: an EMPTY package_name is falsy -- the root silently becomes relative to the working directory *)
  c_pkg (configure (ex_setup 3 [115] (Some []))) = false.
Proof. repeat split; vm_compute; reflexivity. Qed.

Ltac ns := apply normal_segb_spec; vm_compute; reflexivity.
Ltac nz := apply notin_b; vm_compute; reflexivity.

Example setup_nonvacuous : wf_setup (ex_setup 0 [115] None) /\ wf_setup (ex_setup 5 [112; 58; 115; 47; 116] None).
Proof.
  assert (Hq : pkg_name_ok [113]).
  { repeat split; [discriminate|intros [E|[]]; discriminate E]. }
  split.
  - split; [split; [exact Hq|split; [discriminate|discriminate]]|].
    split; [ns|]. split; [nz|]. split; [constructor|].
    change (designated_parts (ex_setup 0 [115] None)) with (Some ([113], [115])).
    split.
    + exists 1%nat, [[110]]. split; [left; reflexivity|]. split; [|split; [|reflexivity]].
      * constructor; [ns|constructor].
      * constructor; [nz|constructor].
    + constructor; [|constructor]. right. split; [ns|nz].
  - split; [split; [exact Hq|split; [discriminate|]]|].
    { intros p d E. vm_compute in E. injection E as <- _. discriminate. }
    split; [ns|]. split; [nz|]. split; [constructor|].
    change (designated_parts (ex_setup 5 [112; 58; 115; 47; 116] None)) with (Some ([112], [115; 47; 116])).
    split.
    + exists 1%nat, [[109]]. split; [left; reflexivity|]. split; [|split; [|reflexivity]].
      * constructor; [ns|constructor].
      * constructor; [nz|constructor].
    + change (split_on slash [115; 47; 116]) with [[115]; [116]].
      constructor; [|constructor; [|constructor]]; right; (split; [ns|nz]).
Qed.
