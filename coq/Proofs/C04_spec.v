(* C04 proofs, part 5: the single non-re-entrant commit against commit_spec. *)
From Coq Require Import List NArith ZArith Bool Lia Permutation Sorted.
Import ListNotations.
Require Import Verif.Lib.Wire Verif.Lib.C04Sort Verif.Gen.Facts_C04 Verif.Model.C04.
Require Import Verif.Proofs.C04 Verif.Proofs.C04_flat Verif.Proofs.C04_decide Verif.Proofs.C04_safe.

Theorem commit_flat_exact cfg acts :
  flat acts = true -> wf_ids acts = true ->
  commit_with cfg acts = run_groups cfg [] None (groups_of acts).
Proof.
  intros Hf Hw. destruct (commit_safe cfg acts Hw) as [H1 H2].
  destruct (commit_flat cfg acts Hf) as [H|[H|H]]; [contradiction|contradiction|exact H].
Qed.

Require Import Verif.Proofs.C04_groups.

(* ---------- small facts *)
Lemma D_force a : D (force a) = D a. Proof. reflexivity. Qed.
Lemma has_disc_iff d a : has_disc d a = true <-> D a = Some d.
Proof.
  unfold has_disc. destruct (D a) as [d'|]; [|split; discriminate].
  rewrite N.eqb_eq. split; congruence.
Qed.

Lemma wins_spec l d a :
  wins l d a = true <-> forall b, In b l -> D b = Some d -> (ordkey a <= ordkey b)%Z /\ dominates a b = true.
Proof.
  unfold wins, G. rewrite andb_true_iff, !forallb_forall. split.
  - intros [H1 H2] b Hb Hd. assert (In b (filter (has_disc d) l)) as Hf by (apply filter_In; split; [exact Hb|apply has_disc_iff; exact Hd]).
    split; [apply Z.leb_le; apply H1; exact Hf|apply H2; exact Hf].
  - intros H. split; intros b Hb; apply filter_In in Hb; destruct Hb as [Hb Hd]; apply has_disc_iff in Hd;
      destruct (H b Hb Hd) as [H1 H2]; [apply Z.leb_le; exact H1|exact H2].
Qed.

Lemma dominates_antisym a b : dominates a b = true -> dominates b a = true -> aid a = aid b.
Proof.
  unfold dominates. intros H1 H2. destruct (N.eqb (aid a) (aid b)) eqn:E; [apply N.eqb_eq; exact E|].
  simpl in H1. rewrite N.eqb_sym, E in H2. simpl in H2. rewrite (strict_prefix_asym _ _ H1) in H2. discriminate.
Qed.

Lemma winner_inv l d w : winner l d = Some w -> In w l /\ D w = Some d /\ wins l d w = true.
Proof.
  unfold winner. intros H. apply find_some in H. destruct H as [H1 H2]. unfold G in H1. apply filter_In in H1.
  destruct H1 as [H1 H3]. apply has_disc_iff in H3. tauto.
Qed.

Lemma winner_unique l d a a' :
  NoDup (map aid l) -> In a l -> In a' l -> D a = Some d -> D a' = Some d ->
  wins l d a = true -> wins l d a' = true -> a = a'.
Proof.
  intros Hnd Ha Ha' Hd Hd' Hw Hw'. apply (NoDup_map_inj_in aid l); [exact Hnd|exact Ha|exact Ha'|].
  apply dominates_antisym.
  - apply (proj1 (wins_spec l d a) Hw a' Ha' Hd').
  - apply (proj1 (wins_spec l d a') Hw' a Ha Hd).
Qed.

Lemma winner_some l d a :
  NoDup (map aid l) -> In a l -> D a = Some d -> wins l d a = true -> winner l d = Some a.
Proof.
  intros Hnd Ha Hd Hw. destruct (winner l d) as [a'|] eqn:E.
  - destruct (winner_inv _ _ _ E) as [H1 [H2 H3]]. f_equal. eapply winner_unique; eauto.
  - unfold winner in E. assert (In a (G d l)) as HG by (apply filter_In; split; [exact Ha|apply has_disc_iff; exact Hd]).
    pose proof (find_none _ _ E a HG). congruence.
Qed.

Lemma winner_none l d : (forall a, In a l -> D a = Some d -> wins l d a = false) -> winner l d = None.
Proof.
  intros H. destruct (winner l d) as [a|] eqn:E; [|reflexivity].
  destruct (winner_inv _ _ _ E) as [H1 [H2 H3]]. rewrite (H a H1 H2) in H3. discriminate.
Qed.

Lemma enumerate_In_snd i b l s : In (i, b) (enumerate s l) -> In b l.
Proof. intros H. rewrite <- (enumerate_snd l s). change b with (snd (i, b)). apply in_map. exact H. Qed.
Lemma In_enumerate b l s : In b l -> exists i, In (i, b) (enumerate s l).
Proof.
  intros H. rewrite <- (enumerate_snd l s) in H. apply in_map_iff in H. destruct H as [[i b'] [E H]]. simpl in E. subst b'.
  exists i. exact H.
Qed.

Lemma NoDup_concat_in {A} (L : list (list A)) l : NoDup (concat L) -> In l L -> NoDup l.
Proof.
  induction L as [|x r IH]; simpl; intros H Hin; [destruct Hin|]. destruct Hin as [->|Hin].
  - apply NoDup_app_iff in H. tauto.
  - apply NoDup_app_iff in H. apply IH; tauto.
Qed.

Lemma NoDup_map_NoDup {A B} (f : A -> B) l : NoDup (map f l) -> NoDup l.
Proof.
  induction l as [|x r IH]; simpl; intros H; [constructor|]. inversion H as [|? ? Hn Hd]; subst.
  constructor; [|apply IH; exact Hd]. intros Hx. apply Hn. apply in_map. exact Hx.
Qed.

(* ---------- the keys and the lists of the insertion-ordered dict [unique] *)
Lemma memN_app x a b : memN x (a ++ b) = memN x a || memN x b.
Proof. induction a as [|y r IH]; simpl; [reflexivity|]. rewrite IH, orb_assoc. reflexivity. Qed.

Lemma uadd_keys d x u :
  map fst (uadd d x u) = if memN d (map fst u) then map fst u else map fst u ++ [d].
Proof.
  induction u as [|[d' l] r IH]; simpl; [reflexivity|].
  destruct (N.eqb d d'); simpl; [reflexivity|]. rewrite IH. destruct (memN d (map fst r)); reflexivity.
Qed.

Definition Dx (x : ainfo) : option N := D (snd x).

Lemma build_unique_keys fg : map fst (build_unique fg) = dedupN (somes (map Dx fg)) [].
Proof.
  unfold build_unique.
  assert (G : forall l u seen, (forall z, memN z seen = memN z (map fst u)) ->
            map fst (fold_left (fun u x => match D (snd x) with Some d => uadd d x u | None => u end) l u)
            = map fst u ++ dedupN (somes (map Dx l)) seen).
  { induction l as [|x r IH]; intros u seen Hs; simpl; [rewrite app_nil_r; reflexivity|].
    unfold Dx at 1. destruct (D (snd x)) as [d|] eqn:Ed; simpl.
    - rewrite (Hs d). destruct (memN d (map fst u)) eqn:Em.
      + rewrite (IH (uadd d x u) seen); [rewrite uadd_keys, Em; reflexivity|].
        intros z. rewrite uadd_keys, Em. apply Hs.
      + rewrite (IH (uadd d x u) (d :: seen)); [rewrite uadd_keys, Em, <- app_assoc; reflexivity|].
        intros z. rewrite uadd_keys, Em, memN_app. simpl. rewrite Hs, orb_false_r, orb_comm. reflexivity.
    - apply IH. exact Hs. }
  apply (G fg [] []). intros z. reflexivity.
Qed.

Definition ukeyed (u : list (N * list ainfo)) : Prop := forall d l, In (d, l) u -> Forall (fun x => Dx x = Some d) l.

Lemma uadd_keyed d x u : Dx x = Some d -> ukeyed u -> ukeyed (uadd d x u).
Proof.
  intros Px. induction u as [|[d' l] r IH]; intros Hu d0 l0; simpl.
  - intros [E|[]]. inversion E; subst. repeat constructor. exact Px.
  - destruct (N.eqb d d') eqn:Ed.
    + apply N.eqb_eq in Ed. subst d'. intros [E|Hin].
      * inversion E; subst. apply Forall_app. split; [apply (Hu d0 l); left; reflexivity|repeat constructor; exact Px].
      * apply (Hu d0 l0). right. exact Hin.
    + intros [E|Hin].
      * inversion E; subst. apply (Hu d0 l0). left. reflexivity.
      * apply IH with (d := d0); [|exact Hin]. intros d1 l1 H1. apply (Hu d1 l1). right. exact H1.
Qed.

Lemma build_unique_keyed fg : ukeyed (build_unique fg).
Proof.
  unfold build_unique.
  assert (G : forall l u, ukeyed u -> ukeyed (fold_left (fun u x => match D (snd x) with Some d => uadd d x u | None => u end) l u)).
  { induction l as [|x r IH]; intros u Hu; simpl; [exact Hu|]. apply IH.
    destruct (D (snd x)) as [d|] eqn:Ed; [apply uadd_keyed; assumption|exact Hu]. }
  apply G. intros d l [].
Qed.

Lemma dedupN_NoDup l : forall seen, NoDup (dedupN l seen) /\ forall x, In x (dedupN l seen) -> In x l /\ memN x seen = false.
Proof.
  induction l as [|y r IH]; intros seen; simpl; [split; [constructor|intros ? []]|].
  destruct (memN y seen) eqn:E.
  - destruct (IH seen) as [H1 H2]. split; [exact H1|]. intros x Hx. destruct (H2 x Hx). tauto.
  - destruct (IH (y :: seen)) as [H1 H2]. split.
    + constructor; [|exact H1]. intros Hy. destruct (H2 y Hy) as [_ H]. simpl in H. rewrite N.eqb_refl in H. discriminate.
    + intros x [<-|Hx]; [tauto|]. destruct (H2 x Hx) as [Ha Hb]. simpl in Hb. apply orb_false_iff in Hb. tauto.
Qed.

Lemma dedupN_complete l : forall seen x, In x l -> memN x seen = false -> In x (dedupN l seen).
Proof.
  induction l as [|y r IH]; intros seen x Hin Hs; [destruct Hin|]. destruct Hin as [->|Hx]; simpl.
  - rewrite Hs. left. reflexivity.
  - destruct (memN y seen) eqn:E; [apply IH; assumption|].
    destruct (N.eqb x y) eqn:Exy; [apply N.eqb_eq in Exy; left; congruence|]. right. apply IH; [exact Hx|].
    simpl. rewrite Exy, Hs. reflexivity.
Qed.

(* membership description of every entry of [unique] *)
Lemma build_unique_entries fg d l :
  NoDup fg -> In (d, l) (build_unique fg) ->
  NoDup l /\ l <> [] /\ forall x, In x l <-> In x fg /\ Dx x = Some d.
Proof.
  intros Hnd Hin.
  pose proof (build_unique_perm fg) as P. pose proof (build_unique_keyed fg) as K.
  pose proof (build_unique_keys fg) as KS.
  assert (NK : NoDup (map fst (build_unique fg))) by (rewrite KS; apply dedupN_NoDup).
  assert (NC : NoDup (concat (map snd (build_unique fg)))).
  { eapply Permutation_NoDup; [symmetry; exact P|]. apply NoDup_filter. exact Hnd. }
  assert (Hl : In l (map snd (build_unique fg))) by (apply in_map_iff; exists (d, l); split; [reflexivity|exact Hin]).
  split; [apply (NoDup_concat_in _ _ NC Hl)|]. split.
  - (* the key d occurs because some element carries it *)
    intros ->. assert (In d (map fst (build_unique fg))) as Hd by (apply in_map_iff; exists (d, []); split; [reflexivity|exact Hin]).
    rewrite KS in Hd. apply dedupN_NoDup in Hd. destruct Hd as [Hd _].
    assert (exists x, In x fg /\ Dx x = Some d) as [x [Hx Hdx]].
    { clear - Hd. induction fg as [|y r IH]; simpl in Hd; [destruct Hd|]. destruct (Dx y) as [d'|] eqn:E.
      - destruct Hd as [->|Hd]; [exists y; split; [left; reflexivity|exact E]|]. destruct (IH Hd) as [x [Hx Hdx]]. exists x. split; [right; exact Hx|exact Hdx].
      - destruct (IH Hd) as [x [Hx Hdx]]. exists x. split; [right; exact Hx|exact Hdx]. }
    assert (In x (concat (map snd (build_unique fg)))) as Hc.
    { apply (Permutation_in _ (Permutation_sym P)). apply filter_In. split; [exact Hx|]. unfold someD. unfold Dx in Hdx. rewrite Hdx. reflexivity. }
    apply in_concat in Hc. destruct Hc as [l' [Hl' Hxl']]. apply in_map_iff in Hl'. destruct Hl' as [[d' l''] [E Hin']]. simpl in E. subst l''.
    pose proof (K d' l' Hin') as F. rewrite Forall_forall in F. specialize (F x Hxl'). assert (d' = d) by congruence. subst d'.
    assert ((d, l') = (d, [])) as E2.
    { apply (NoDup_map_inj_in fst (build_unique fg)); [exact NK|exact Hin'|exact Hin|reflexivity]. }
    inversion E2; subst. destruct Hxl'.
  - intros x. split.
    + intros Hx. split.
      * assert (In x (concat (map snd (build_unique fg)))) as Hc by (apply in_concat; exists l; split; assumption).
        apply (Permutation_in _ P) in Hc. apply filter_In in Hc. tauto.
      * pose proof (K d l Hin) as F. rewrite Forall_forall in F. apply F. exact Hx.
    + intros [Hx Hdx].
      assert (In x (concat (map snd (build_unique fg)))) as Hc.
      { apply (Permutation_in _ (Permutation_sym P)). apply filter_In. split; [exact Hx|]. unfold someD. unfold Dx in Hdx. rewrite Hdx. reflexivity. }
      apply in_concat in Hc. destruct Hc as [l' [Hl' Hxl']]. apply in_map_iff in Hl'. destruct Hl' as [[d' l''] [E Hin']]. simpl in E. subst l''.
      pose proof (K d' l' Hin') as F. rewrite Forall_forall in F. specialize (F x Hxl'). assert (d' = d) by congruence. subst d'.
      assert ((d, l') = (d, l)) as E2.
      { apply (NoDup_map_inj_in fst (build_unique fg)); [exact NK|exact Hin'|exact Hin|reflexivity]. }
      inversion E2; subst. exact Hxl'.
Qed.

(* ---------- generic facts about [detect] over the entries *)
Lemma detect_K_filter cfg res (c : N -> bool) : forall us,
  (forall d l, In (d, l) us ->
     (c d = true /\ exists infos, snd (detect1 cfg res d l) = [(d, infos)]) \/
     (c d = false /\ snd (detect1 cfg res d l) = [])) ->
  map fst (snd (detect cfg res us)) = filter c (map fst us).
Proof.
  induction us as [|[d l] r IH]; intros H; [reflexivity|]. simpl.
  specialize (IH (fun d' l' H' => H d' l' (or_intror H'))).
  destruct (H d l (or_introl eq_refl)) as [[Hc [infos Hs]]|[Hc Hs]];
    destruct (detect1 cfg res d l) as [o1 c1]; destruct (detect cfg res r) as [o2 c2]; simpl in *; subst c1; rewrite Hc; simpl; rewrite IH; reflexivity.
Qed.

Lemma detect_K_nil cfg res : forall us,
  snd (detect cfg res us) = [] -> forall d l, In (d, l) us -> snd (detect1 cfg res d l) = [].
Proof.
  induction us as [|[d l] r IH]; intros H d' l' Hin; [destruct Hin|]. simpl in H.
  destruct (detect1 cfg res d l) as [o1 c1] eqn:E1. destruct (detect cfg res r) as [o2 c2] eqn:E2. simpl in H.
  apply app_eq_nil in H. destruct H as [-> ->]. destruct Hin as [E|Hin].
  - inversion E; subst. rewrite E1. reflexivity.
  - apply IH; [reflexivity|exact Hin].
Qed.

Lemma detect_firsts_in cfg res : forall us x,
  In x (fst (detect cfg res us)) <-> exists d l, In (d, l) us /\ In x (fst (detect1 cfg res d l)).
Proof.
  induction us as [|[d l] r IH]; intros x; simpl.
  - split; [intros []|intros [d [l [[] _]]]].
  - destruct (detect1 cfg res d l) as [o1 c1] eqn:E1. destruct (detect cfg res r) as [o2 c2] eqn:E2. simpl.
    rewrite in_app_iff. simpl in IH. rewrite IH. split.
    + intros [H|[d' [l' [Hin Hx]]]]; [exists d, l; split; [left; reflexivity|rewrite E1; exact H]|exists d', l'; split; [right; exact Hin|exact Hx]].
    + intros [d' [l' [[E|Hin] Hx]]]; [inversion E; subst; rewrite E1 in Hx; left; exact Hx|right; exists d', l'; split; assumption].
Qed.

Lemma forallb_false_ex {A} (f : A -> bool) l : forallb f l = false -> exists x, In x l /\ f x = false.
Proof.
  induction l as [|y r IH]; simpl; [discriminate|]. destruct (f y) eqn:E; simpl.
  - intros H. destruct (IH H) as [x [Hx Hf]]. exists x. split; [right; exact Hx|exact Hf].
  - intros _. exists y. split; [left; reflexivity|exact E].
Qed.

Lemma leb5_spec x y : leb_by output_key x y = true <-> (fst x <= fst y)%N.
Proof.
  unfold leb_by. replace output_key with [5]%N by reflexivity. cbn [lex_cmp key_cmp].
  destruct (N.compare_spec (fst x) (fst y)); split; intros; try reflexivity; try discriminate; lia.
Qed.

Definition entry_of (x : ainfo) : option N * ainfo := (D (snd x), x).

Lemma flush_res_rev : forall out res, flush_res res out = rev (map entry_of out) ++ res.
Proof.
  induction out as [|y r IH]; intros res; [reflexivity|]. rewrite flush_res_cons, IH. simpl.
  rewrite <- app_assoc. reflexivity.
Qed.

Lemma lookup_app d a b : lookup d (a ++ b) = match lookup d a with Some v => Some v | None => lookup d b end.
Proof.
  induction a as [|[[d'|] x] r IH]; simpl; [reflexivity| |exact IH].
  destruct (N.eqb d d'); [reflexivity|exact IH].
Qed.

Lemma lookup_In d r v : lookup d r = Some v -> In (Some d, v) r.
Proof.
  induction r as [|[[d'|] x] r IH]; simpl; [discriminate| |intros H; right; apply IH; exact H].
  destruct (N.eqb d d') eqn:E; [|intros H; right; apply IH; exact H].
  apply N.eqb_eq in E. subst d'. intros H. inversion H; subst. left. reflexivity.
Qed.

Lemma lookup_None d r : lookup d r = None -> forall v, ~ In (Some d, v) r.
Proof.
  induction r as [|[[d'|] x] r IH]; simpl; intros H v Hin; [exact Hin| |].
  - destruct (N.eqb d d') eqn:E; [discriminate|]. destruct Hin as [Hin|Hin]; [inversion Hin; subst; rewrite N.eqb_refl in E; discriminate|].
    apply (IH H v Hin).
  - destruct Hin as [Hin|Hin]; [discriminate|]. apply (IH H v Hin).
Qed.

Lemma lookup_flush d out res :
  (forall x1 x2, In x1 out -> In x2 out -> Dx x1 = Some d -> Dx x2 = Some d -> x1 = x2) ->
  (forall x, In x out -> Dx x = Some d -> lookup d (flush_res res out) = Some x) /\
  ((forall x, In x out -> Dx x <> Some d) -> lookup d (flush_res res out) = lookup d res).
Proof.
  intros Hu. rewrite flush_res_rev, lookup_app.
  assert (Hin : forall v, In (Some d, v) (rev (map entry_of out)) -> In v out /\ Dx v = Some d).
  { intros v Hv. apply in_rev in Hv. apply in_map_iff in Hv. destruct Hv as [y [E Hy]]. unfold entry_of in E.
    injection E as E1 E2. subst y. split; [exact Hy|exact E1]. }
  split.
  - intros x Hx Hd. destruct (lookup d (rev (map entry_of out))) as [v|] eqn:E.
    + apply lookup_In in E. destruct (Hin v E) as [Hv Hdv]. f_equal. apply Hu; assumption.
    + exfalso. apply (lookup_None _ _ E x). apply in_rev. rewrite rev_involutive. apply in_map_iff. exists x.
      split; [unfold entry_of; unfold Dx in Hd; rewrite Hd; reflexivity|exact Hx].
  - intros Hn. destruct (lookup d (rev (map entry_of out))) as [v|] eqn:E; [|reflexivity].
    apply lookup_In in E. destruct (Hin v E) as [Hv Hdv]. exfalso. apply (Hn v Hv Hdv).
Qed.

Lemma flush_mo_cases p : forall out mo,
  (forall x, In x out -> aord (snd x) = Some p) -> flush_mo mo out = mo \/ flush_mo mo out = Some p.
Proof.
  induction out as [|y r IH]; intros mo H; [left; reflexivity|]. rewrite flush_mo_cons.
  destruct (IH (aord (snd y)) (fun x Hx => H x (or_intror Hx))) as [E|E]; right; rewrite E; [apply H; left; reflexivity|reflexivity].
Qed.

Lemma force_events_forces G : force_events G = forces_of (map snd G).
Proof.
  unfold force_events, forces_of. induction G as [|x r IH]; simpl; [reflexivity|].
  destruct (is_deferred (adisc (snd x))); simpl; rewrite IH; reflexivity.
Qed.

Lemma aidx_filter_forced (r : action -> bool) G :
  (forall a, r (force a) = r a) ->
  map aidx (filter (fun x => r (snd x)) (forced_group G)) = map aid (filter r (map snd G)).
Proof.
  intros Hr. unfold forced_group. induction G as [|x g IH]; simpl; [reflexivity|].
  rewrite Hr. destruct (r (snd x)); simpl; rewrite IH; reflexivity.
Qed.

(* the output of a group has pairwise distinct action identities *)
Lemma output_NoDup cfg res fg :
  NoDup (map aidx fg) ->
  NoDup (map aidx (none_output fg ++ fst (detect cfg res (sort_unique_lists (build_unique fg))))).
Proof.
  intros Nfg. set (us := sort_unique_lists (build_unique fg)).
  assert (Pus : Permutation (concat (map snd us)) (filter someD fg)).
  { unfold us. rewrite sort_unique_lists_perm. apply build_unique_perm. }
  assert (Nus : NoDup (map aidx (concat (map snd us)))).
  { eapply Permutation_NoDup; [apply Permutation_map; symmetry; exact Pus|]. apply NoDup_map_filter. exact Nfg. }
  destruct (detect_firsts_sub cfg res us Nus) as [Sf Nf].
  rewrite map_app. apply NoDup_app_iff. split; [|split].
  - unfold none_output. apply NoDup_map_filter. exact Nfg.
  - exact Nf.
  - intros z Hz Hz'. apply in_map_iff in Hz. destruct Hz as [y1 [E1 Hy1]]. apply in_map_iff in Hz'. destruct Hz' as [y2 [E2 Hy2]].
    unfold none_output in Hy1. apply filter_In in Hy1. destruct Hy1 as [Hy1 HD1].
    assert (In y2 fg /\ someD y2 = true) as [Hy2' HD2].
    { apply Sf in Hy2. apply (Permutation_in _ Pus) in Hy2. apply filter_In in Hy2. exact Hy2. }
    assert (y1 = y2) by (apply (NoDup_map_inj_in aidx fg); [exact Nfg|exact Hy1|exact Hy2'|congruence]). subst y2.
    unfold someD in HD2. destruct (D (snd y1)); discriminate.
Qed.

(* ====================================================================== *)
Section Commit.
Variable acts : list action.
Hypothesis Hids : NoDup (map aid acts).
Hypothesis Hord : forall a, In a acts -> aord a = Some (ordkey a).

Definition below (q : Z) : list action := filter (fun a => Z.ltb (ordkey a) q) acts.

Lemma upto_below p : upto p acts = below (p + 1).
Proof.
  unfold upto, below. apply filter_ext. intros a.
  destruct (Z.leb_spec (ordkey a) p), (Z.ltb_spec (ordkey a) (p + 1)); try reflexivity; lia.
Qed.

Lemma In_below q b : In b (below q) <-> In b acts /\ (ordkey b < q)%Z.
Proof. unfold below. rewrite filter_In, Z.ltb_lt. tauto. Qed.

Lemma below_NoDup q : NoDup (map aid (below q)).
Proof. unfold below. apply NoDup_map_filter. exact Hids. Qed.

Definition Inv (res : list (option N * ainfo)) (q : Z) : Prop := forall d,
  match lookup d res with
  | Some (i, w) => exists w0, In w0 (below q) /\ D w0 = Some d /\ aid w = aid w0 /\ apath w = apath w0
                              /\ wins (below q) d w0 = true
  | None => forall b, In b (below q) -> D b <> Some d
  end.

Definition fgp (p : Z) : list ainfo := forced_group (phase_group acts p).

Lemma fg_in p x : In x (fgp p) -> exists b, In b acts /\ ordkey b = p /\ snd x = force b.
Proof.
  unfold fgp, forced_group, phase_group. intros H. apply in_map_iff in H. destruct H as [[i b] [E Hy]].
  apply filter_In in Hy. destruct Hy as [Hy Hk]. apply Z.eqb_eq in Hk. exists b.
  split; [eapply enumerate_In_snd; exact Hy|]. split; [exact Hk|]. subst x. reflexivity.
Qed.

Lemma fg_has p b : In b acts -> ordkey b = p -> exists i, In (i, force b) (fgp p).
Proof.
  intros Hb Hp. destruct (In_enumerate b acts 0%N Hb) as [i Hi]. exists i.
  unfold fgp, forced_group, phase_group. apply in_map_iff. exists (i, b). split; [reflexivity|].
  apply filter_In. split; [exact Hi|]. apply Z.eqb_eq. exact Hp.
Qed.

Lemma fg_nodup_aidx p : NoDup (map aidx (fgp p)).
Proof.
  unfold fgp. rewrite aidx_forced_group. unfold phase_group. apply NoDup_map_filter.
  rewrite aidx_enumerate. exact Hids.
Qed.

Lemma fst_forced_group G : map fst (forced_group G) = map fst G.
Proof. unfold forced_group. rewrite map_map. reflexivity. Qed.

Lemma fg_nodup_fst p : NoDup (map fst (fgp p)).
Proof. unfold fgp. rewrite fst_forced_group. unfold phase_group. apply NoDup_map_filter. apply enumerate_NoDup_fst. Qed.

Lemma fg_sorted p : StronglySorted (key_le (fun x : ainfo => fst x)) (fgp p).
Proof.
  unfold fgp, forced_group, phase_group.
  assert (S : StronglySorted (key_le (fun x : ainfo => fst x)) (filter (fun x => Z.eqb (okey x) p) (enumerate 0 acts))).
  { eapply SS_filter_impl; [apply (enumerate_sorted acts 0%N)|]. intros x y _ _ H. cbv beta in *. unfold key_le. lia. }
  induction S as [|x r Hs IH Hall]; simpl; constructor; [exact IH|].
  rewrite Forall_forall in *. intros y Hy. apply in_map_iff in Hy. destruct Hy as [z [<- Hz]]. specialize (Hall z Hz).
  unfold key_le in *. simpl. exact Hall.
Qed.

(* an action of phase p found through its identity *)
Lemma phase_aid_neq p w0 b : In w0 acts -> In b acts -> (ordkey w0 < p)%Z -> ordkey b = p -> aid w0 <> aid b.
Proof.
  intros H1 H2 H3 H4 E. assert (w0 = b) by (apply (NoDup_map_inj_in aid acts); assumption). subst. lia.
Qed.

(* ---------- one discriminator of one phase *)
Lemma entry p res d l0 :
  Inv res p -> NoDup l0 -> l0 <> [] ->
  (forall x, In x l0 <-> In x (fgp p) /\ Dx x = Some d) ->
  let r := detect1 cfg_fixed res d (sort (leb_by bypath_key) l0) in
  (winner (below (p + 1)) d = None /\ exists infos, snd r = [(d, infos)]) \/
  (exists w0, winner (below (p + 1)) d = Some w0 /\ snd r = [] /\
     (forall x, In x (fst r) <-> In x l0 /\ aid (snd x) = aid w0) /\
     match lookup d res with
     | Some (i, w) => fst r = [] /\ aid w = aid w0 /\ apath w = apath w0
     | None => exists a, fst r = [a] /\ aid (snd a) = aid w0 /\ apath (snd a) = apath w0 /\ Dx a = Some d
     end).
Proof.
  intros HI Hnd Hne Hl0 r.
  assert (HU : forall b, In b (below (p + 1)) -> In b (below p) \/ (In b acts /\ ordkey b = p)).
  { intros b Hb. apply In_below in Hb. destruct Hb as [Hb Ho].
    destruct (Z.ltb_spec (ordkey b) p); [left; apply In_below; split; assumption|right; split; [exact Hb|lia]]. }
  assert (HP : forall b, In b acts -> ordkey b = p -> D b = Some d -> exists j, In (j, force b) l0).
  { intros b Hb Ho Hd. destruct (fg_has p b Hb Ho) as [j Hj]. exists j. apply Hl0. split; [exact Hj|exact Hd]. }
  specialize (HI d). subst r. destruct (lookup d res) as [[i w]|] eqn:EL.
  - (* already executed *)
    destruct HI as [w0 [Hw0 [Hdw0 [Haid [Hpath Hwin]]]]].
    apply In_below in Hw0. destruct Hw0 as [Hw0 Ho0].
    destruct (detect1_executed res d l0 i w EL) as [F0 [Hiff Hform]]. cbv zeta in *.
    destruct (forallb (fun b => strict_prefix (apath w) (apath (snd b))) l0) eqn:EF.
    + right. exists w0. rewrite forallb_forall in EF. pose proof (proj2 Hiff EF) as HS.
      assert (Hw : wins (below (p + 1)) d w0 = true).
      { apply wins_spec. intros b Hb Hdb. destruct (HU b Hb) as [Hb'|[Hb' Hob]].
        - apply (proj1 (wins_spec _ _ _) Hwin b Hb' Hdb).
        - split; [lia|]. destruct (HP b Hb' Hob Hdb) as [j Hj]. specialize (EF _ Hj). simpl in EF.
          unfold dominates. rewrite <- Hpath. change (apath (force b)) with (apath b) in EF. rewrite EF. apply orb_true_r. }
      split; [apply winner_some; [apply below_NoDup|apply In_below; split; [exact Hw0|lia]|exact Hdw0|exact Hw]|].
      split; [exact HS|]. split; [|split; [exact F0|split; assumption]].
      intros x. rewrite F0. split; [intros []|]. intros [Hx Ha]. apply Hl0 in Hx. destruct Hx as [Hx _].
      destruct (fg_in p x Hx) as [b [Hb [Hob Hsx]]]. rewrite Hsx in Ha. change (aid (force b)) with (aid b) in Ha.
      exfalso. apply (phase_aid_neq p w0 b Hw0 Hb Ho0 Hob). congruence.
    + left. destruct (forallb_false_ex _ _ EF) as [x [Hx Hsp]].
      assert (HS : snd (detect1 cfg_fixed res d (sort (leb_by bypath_key) l0)) <> []).
      { intros E. pose proof (proj1 Hiff E x Hx). congruence. }
      split; [|destruct Hform as [E|[infos E]]; [contradiction|exists (aid w :: infos); exact E]].
      apply winner_none. intros a Ha Hda. destruct (wins (below (p + 1)) d a) eqn:Ew; [|reflexivity]. exfalso.
      pose proof (proj1 (wins_spec _ _ _) Ew) as Hall.
      assert (Hw0U : In w0 (below (p + 1))) by (apply In_below; split; [exact Hw0|lia]).
      destruct (Hall w0 Hw0U Hdw0) as [Hle _].
      assert (HaB : In a (below p)) by (apply In_below in Ha; apply In_below; split; [tauto|lia]).
      assert (a = w0).
      { apply (winner_unique (below p) d); [apply below_NoDup|exact HaB|apply In_below; split; assumption|exact Hda|exact Hdw0| |exact Hwin].
        apply wins_spec. intros b Hb Hdb. apply Hall; [|exact Hdb]. apply In_below in Hb. apply In_below. split; [tauto|lia]. }
      subst a. apply Hl0 in Hx. destruct Hx as [Hx Hdx]. destruct (fg_in p x Hx) as [b [Hb [Hob Hsx]]].
      assert (HbU : In b (below (p + 1))) by (apply In_below; split; [exact Hb|lia]).
      assert (Hdb : D b = Some d) by (unfold Dx in Hdx; rewrite Hsx in Hdx; exact Hdx).
      destruct (Hall b HbU Hdb) as [_ Hdom]. unfold dominates in Hdom.
      destruct (N.eqb (aid w0) (aid b)) eqn:Eab.
      * apply N.eqb_eq in Eab. apply (phase_aid_neq p w0 b Hw0 Hb Ho0 Hob Eab).
      * simpl in Hdom. rewrite Hsx in Hsp. change (apath (force b)) with (apath b) in Hsp. rewrite Hpath in Hsp. congruence.
  - (* first time *)
    assert (HB : forall b, In b (below (p + 1)) -> D b = Some d -> In b acts /\ ordkey b = p).
    { intros b Hb Hdb. destruct (HU b Hb) as [Hb'|Hb']; [exfalso; apply (HI b Hb' Hdb)|exact Hb']. }
    destruct (detect1 cfg_fixed res d (sort (leb_by bypath_key) l0)) as [F K1] eqn:ER. destruct K1 as [|k K'].
    + right. destruct (detect1_fresh_sound res d l0 F EL Hne ER) as [a [-> [Ha Hdom]]].
      pose proof (proj1 (Hl0 a) Ha) as [Hafg Hda]. destruct (fg_in p a Hafg) as [a0 [Ha0 [Hoa0 Hsa]]].
      assert (Hda0 : D a0 = Some d) by (unfold Dx in Hda; rewrite Hsa in Hda; exact Hda).
      exists a0.
      assert (Hw : wins (below (p + 1)) d a0 = true).
      { apply wins_spec. intros b Hb Hdb. destruct (HB b Hb Hdb) as [Hb' Hob]. split; [lia|].
        destruct (HP b Hb' Hob Hdb) as [j Hj]. destruct (Hdom _ Hj) as [E|E].
        - unfold dominates. assert (aid a0 = aid b) as ->; [|rewrite N.eqb_refl; reflexivity].
          rewrite <- E in Hsa. simpl in Hsa. change (aid b) with (aid (force b)). rewrite Hsa. reflexivity.
        - unfold sp in E. rewrite Hsa in E. simpl in E. unfold dominates. change (apath (force a0)) with (apath a0) in E.
          change (apath (force b)) with (apath b) in E. rewrite E. apply orb_true_r. }
      split; [apply winner_some; [apply below_NoDup|apply In_below; split; [exact Ha0|lia]|exact Hda0|exact Hw]|].
      split; [reflexivity|]. cbn [fst]. split.
      * intros x. split.
        -- intros [<-|[]]. split; [exact Ha|]. rewrite Hsa. reflexivity.
        -- intros [Hx Hax]. left. apply (NoDup_map_inj_in aidx (fgp p)); [apply fg_nodup_aidx|exact Hafg|apply Hl0; exact Hx|].
           unfold aidx. rewrite Hax, Hsa. reflexivity.
      * exists a. split; [reflexivity|]. rewrite Hsa. repeat split; try reflexivity. exact Hda.
    + left. split.
      * apply winner_none. intros a0 Ha0 Hda0. destruct (wins (below (p + 1)) d a0) eqn:Ew; [|reflexivity]. exfalso.
        pose proof (proj1 (wins_spec _ _ _) Ew) as Hall. destruct (HB a0 Ha0 Hda0) as [Ha0' Hoa0].
        destruct (HP a0 Ha0' Hoa0 Hda0) as [j Hj].
        assert (Hdom : forall b, In b l0 -> b = (j, force a0) \/ sp (j, force a0) b = true).
        { intros b Hb. pose proof (proj1 (Hl0 b) Hb) as [Hbfg Hdb]. destruct (fg_in p b Hbfg) as [b1 [Hb1 [Hob1 Hsb]]].
          assert (Hdb1 : D b1 = Some d) by (unfold Dx in Hdb; rewrite Hsb in Hdb; exact Hdb).
          assert (Hb1U : In b1 (below (p + 1))) by (apply In_below; split; [exact Hb1|lia]).
          destruct (Hall b1 Hb1U Hdb1) as [_ Hd]. unfold dominates in Hd. apply orb_true_iff in Hd. destruct Hd as [Hd|Hd].
          - left. apply N.eqb_eq in Hd. apply (NoDup_map_inj_in aidx (fgp p)); [apply fg_nodup_aidx|exact Hbfg|apply Hl0; exact Hj|].
            unfold aidx. rewrite Hsb. simpl. congruence.
          - right. unfold sp. rewrite Hsb. simpl. exact Hd. }
        rewrite (detect1_fresh_winner res d l0 (j, force a0) Hnd EL Hj Hdom) in ER. discriminate.
      * unfold detect1 in ER. destruct (sort (leb_by bypath_key) l0) as [|a t]; [discriminate|]. rewrite EL in ER.
        destruct (offenders (snd a) t); inversion ER; subst. eexists; reflexivity.
Qed.

Lemma Dx_forced_group G : map Dx (forced_group G) = map D (map snd G).
Proof. unfold forced_group. rewrite !map_map. reflexivity. Qed.

Lemma snd_phase_group p : map snd (phase_group acts p) = at_phase p acts.
Proof. unfold phase_group, at_phase. apply (filter_snd_enumerate (fun a => Z.eqb (ordkey a) p)). Qed.

Lemma runnable_force l a : runnable l (force a) = runnable l a.
Proof. reflexivity. Qed.

(* ---------- one phase *)
Lemma phase_step p res :
  Inv res p ->
  let go := group_output cfg_fixed res (phase_group acts p) in
  map fst (snd go) = contested acts p /\
  (snd go = [] ->
     map aidx (fst go) = map aid (filter (runnable (upto p acts)) (at_phase p acts)) /\
     Inv (flush_res res (fst go)) (p + 1) /\
     (forall x, In x (fst go) -> aord (snd x) = Some p)).
Proof.
  intros HI go. subst go. unfold group_output. fold (fgp p).
  set (bu := build_unique (fgp p)). set (us := sort_unique_lists bu).
  assert (Nfg : NoDup (fgp p)) by (apply (NoDup_map_NoDup aidx); apply fg_nodup_aidx).
  assert (Hus : forall d l, In (d, l) us -> exists l0, In (d, l0) bu /\ l = sort (leb_by bypath_key) l0).
  { intros d l H. unfold us, sort_unique_lists in H. apply in_map_iff in H. destruct H as [[d' l0] [E H]]. simpl in E.
    inversion E; subst. exists l0. split; [exact H|reflexivity]. }
  assert (Hent : forall d l0, In (d, l0) bu ->
            let r := detect1 cfg_fixed res d (sort (leb_by bypath_key) l0) in
            (winner (below (p + 1)) d = None /\ exists infos, snd r = [(d, infos)]) \/
            (exists w0, winner (below (p + 1)) d = Some w0 /\ snd r = [] /\
               (forall x, In x (fst r) <-> In x l0 /\ aid (snd x) = aid w0) /\
               match lookup d res with
               | Some (i, w) => fst r = [] /\ aid w = aid w0 /\ apath w = apath w0
               | None => exists a, fst r = [a] /\ aid (snd a) = aid w0 /\ apath (snd a) = apath w0 /\ Dx a = Some d
               end)).
  { intros d l0 H. destruct (build_unique_entries (fgp p) d l0 Nfg H) as [N1 [N2 N3]]. apply entry; assumption. }
  destruct (detect cfg_fixed res us) as [firsts K] eqn:ED. cbn [fst snd].
  assert (EK : map fst K = contested acts p).
  { change K with (snd (firsts, K)). rewrite <- ED.
    rewrite (detect_K_filter cfg_fixed res (fun d => match winner (below (p + 1)) d with None => true | Some _ => false end)).
    - unfold contested. rewrite upto_below. f_equal. unfold us, sort_unique_lists. rewrite map_map. simpl.
      change (map (fun x : N * list ainfo => fst x) bu) with (map fst bu). unfold bu. rewrite build_unique_keys.
      unfold discs, fgp. rewrite Dx_forced_group, snd_phase_group. reflexivity.
    - intros d l H. destruct (Hus d l H) as [l0 [Hb ->]]. destruct (Hent d l0 Hb) as [[Hw Hs]|[w0 [Hw [Hs _]]]]; rewrite Hw; [left|right]; split; auto. }
  split; [exact EK|]. intros ->.
  assert (Hent' : forall d l0, In (d, l0) bu -> exists w0, winner (below (p + 1)) d = Some w0 /\
               (forall x, In x (fst (detect1 cfg_fixed res d (sort (leb_by bypath_key) l0))) <-> In x l0 /\ aid (snd x) = aid w0) /\
               match lookup d res with
               | Some (i, w) => fst (detect1 cfg_fixed res d (sort (leb_by bypath_key) l0)) = [] /\ aid w = aid w0 /\ apath w = apath w0
               | None => exists a, fst (detect1 cfg_fixed res d (sort (leb_by bypath_key) l0)) = [a] /\ aid (snd a) = aid w0 /\ apath (snd a) = apath w0 /\ Dx a = Some d
               end).
  { intros d l0 H. destruct (Hent d l0 H) as [[_ [infos Hs]]|[w0 [Hw [_ [Hm Hl]]]]].
    - exfalso. assert (In (d, sort (leb_by bypath_key) l0) us) as Hin.
      { unfold us, sort_unique_lists. apply in_map_iff. exists (d, l0). split; [reflexivity|exact H]. }
      pose proof (detect_K_nil cfg_fixed res us) as Hn. rewrite ED in Hn. specialize (Hn eq_refl _ _ Hin). congruence.
    - exists w0. split; [exact Hw|]. split; [exact Hm|exact Hl]. }
  (* which forced actions carry a discriminator d *)
  assert (Hkey : forall x d, In x (fgp p) -> Dx x = Some d -> exists l0, In (d, l0) bu /\ In x l0).
  { intros x d Hx Hd. pose proof (build_unique_perm (fgp p)) as P.
    assert (In x (concat (map snd bu))) as Hc.
    { apply (Permutation_in _ (Permutation_sym P)). apply filter_In. split; [exact Hx|]. unfold someD. unfold Dx in Hd. rewrite Hd. reflexivity. }
    apply in_concat in Hc. destruct Hc as [l' [Hl' Hxl']]. apply in_map_iff in Hl'. destruct Hl' as [[d' l''] [E Hin']]. simpl in E. subst l''.
    pose proof (build_unique_keyed (fgp p) d' l' Hin') as F. rewrite Forall_forall in F. specialize (F x Hxl').
    assert (d' = d) by congruence. subst d'. exists l'. split; assumption. }
  assert (Hfirst : forall x, In x firsts <-> exists d l0, In (d, l0) bu /\ In x (fst (detect1 cfg_fixed res d (sort (leb_by bypath_key) l0)))).
  { intros x. change firsts with (fst (firsts, @nil (N * list N))). rewrite <- ED. rewrite detect_firsts_in. split.
    - intros [d [l [Hin Hx]]]. destruct (Hus d l Hin) as [l0 [Hb ->]]. exists d, l0. split; assumption.
    - intros [d [l0 [Hb Hx]]]. exists d, (sort (leb_by bypath_key) l0). split; [|exact Hx].
      unfold us, sort_unique_lists. apply in_map_iff. exists (d, l0). split; [reflexivity|exact Hb]. }
  set (O := none_output (fgp p) ++ firsts).
  assert (HO : forall x, In x O <-> In x (fgp p) /\ runnable (below (p + 1)) (snd x) = true).
  { intros x. unfold O. rewrite in_app_iff. split.
    - intros [H|H].
      + unfold none_output in H. apply filter_In in H. destruct H as [H1 H2]. split; [exact H1|].
        unfold runnable. destruct (D (snd x)); [discriminate|reflexivity].
      + apply Hfirst in H. destruct H as [d [l0 [Hb Hx]]]. destruct (Hent' d l0 Hb) as [w0 [Hw [Hm _]]].
        apply Hm in Hx. destruct Hx as [Hx Ha]. destruct (build_unique_entries (fgp p) d l0 Nfg Hb) as [_ [_ N3]].
        apply N3 in Hx. destruct Hx as [Hx Hd]. split; [exact Hx|]. unfold runnable. unfold Dx in Hd. rewrite Hd, Hw.
        apply N.eqb_eq. congruence.
    - intros [Hx Hr]. destruct (Dx x) as [d|] eqn:Ed.
      + right. destruct (Hkey x d Hx Ed) as [l0 [Hb Hxl]]. apply Hfirst. exists d, l0. split; [exact Hb|].
        destruct (Hent' d l0 Hb) as [w0 [Hw [Hm _]]]. apply Hm. split; [exact Hxl|].
        unfold runnable in Hr. unfold Dx in Ed. rewrite Ed, Hw in Hr. apply N.eqb_eq in Hr. congruence.
      + left. unfold none_output. apply filter_In. split; [exact Hx|]. unfold Dx in Ed. rewrite Ed. reflexivity. }
  set (out := sort (leb_by output_key) O).
  assert (Eout : out = filter (fun x => runnable (below (p + 1)) (snd x)) (fgp p)).
  { symmetry. apply (sorted_perm_unique (fun x : ainfo => fst x)).
    - apply NoDup_map_filter. apply fg_nodup_fst.
    - eapply SS_filter_impl; [apply fg_sorted|]. intros; assumption.
    - eapply SS_impl; [apply (sort_sorted (leb_by output_key))|].
      + intros x y. rewrite !leb5_spec. lia.
      + intros x y z. rewrite !leb5_spec. lia.
      + intros x y H. unfold le in H. apply leb5_spec in H. exact H.
    - apply NoDup_Permutation.
      + apply NoDup_filter. exact Nfg.
      + apply (NoDup_map_NoDup aidx). eapply Permutation_NoDup; [apply Permutation_map; symmetry; apply sort_perm|].
        unfold O. replace firsts with (fst (detect cfg_fixed res us)) by (rewrite ED; reflexivity).
        apply output_NoDup. apply fg_nodup_aidx.
      + intros x. unfold out. rewrite sort_In, HO, filter_In. tauto. }
  fold O. fold out.
  assert (Hout_in : forall x, In x out -> In x (fgp p) /\ runnable (below (p + 1)) (snd x) = true).
  { intros x Hx. rewrite Eout in Hx. apply filter_In in Hx. exact Hx. }
  split; [|split].
  - rewrite Eout. unfold fgp. rewrite (aidx_filter_forced (runnable (below (p + 1)))) by (intros; reflexivity).
    rewrite snd_phase_group, upto_below. reflexivity.
  - (* the invariant for the next phase *)
    assert (HU : forall b, In b (below (p + 1)) -> In b (below p) \/ (In b acts /\ ordkey b = p)).
    { intros b Hb. apply In_below in Hb. destruct Hb as [Hb Ho].
      destruct (Z.ltb_spec (ordkey b) p); [left; apply In_below; split; assumption|right; split; [exact Hb|lia]]. }
    assert (Hone : forall d l0, In (d, l0) bu -> forall x, In x out -> Dx x = Some d ->
               In x (fst (detect1 cfg_fixed res d (sort (leb_by bypath_key) l0)))).
    { intros d l0 Hb x Hx Hd. destruct (Hout_in x Hx) as [Hxfg Hr]. destruct (Hent' d l0 Hb) as [w0 [Hw [Hm _]]].
      apply Hm. destruct (build_unique_entries (fgp p) d l0 Nfg Hb) as [_ [_ N3]]. split; [apply N3; split; assumption|].
      unfold runnable in Hr. unfold Dx in Hd. rewrite Hd, Hw in Hr. apply N.eqb_eq in Hr. congruence. }
    intros d. destruct (in_dec N.eq_dec d (map fst bu)) as [Hdk|Hdk].
    + apply in_map_iff in Hdk. destruct Hdk as [[d' l0] [E Hb]]. simpl in E. subst d'.
      destruct (Hent' d l0 Hb) as [w0 [Hw [Hm Hl]]]. destruct (winner_inv _ _ _ Hw) as [W1 [W2 W3]].
      destruct (lookup d res) as [[i w]|] eqn:EL.
      * destruct Hl as [HF [Ha Hp]].
        destruct (lookup_flush d out res) as [_ L2].
        { intros x1 x2 H1 H2 D1 D2. pose proof (Hone d l0 Hb x1 H1 D1) as H. rewrite HF in H. destruct H. }
        rewrite L2, EL.
        { exists w0. repeat split; assumption. }
        intros x Hx Hd. pose proof (Hone d l0 Hb x Hx Hd) as H. rewrite HF in H. destruct H.
      * destruct Hl as [a [HF [Ha [Hp Hda]]]].
        assert (Hain : In a out).
        { unfold out. apply sort_In. apply HO.
          assert (In a (fst (detect1 cfg_fixed res d (sort (leb_by bypath_key) l0)))) as H by (rewrite HF; left; reflexivity).
          apply Hm in H. destruct H as [H1 H2]. destruct (build_unique_entries (fgp p) d l0 Nfg Hb) as [_ [_ N3]].
          apply N3 in H1. split; [tauto|]. unfold runnable. unfold Dx in Hda. rewrite Hda, Hw. apply N.eqb_eq. congruence. }
        destruct (lookup_flush d out res) as [L1 _].
        { intros x1 x2 H1 H2 D1 D2. pose proof (Hone d l0 Hb x1 H1 D1) as E1. pose proof (Hone d l0 Hb x2 H2 D2) as E2.
          rewrite HF in E1, E2. destruct E1 as [<-|[]]. destruct E2 as [<-|[]]. reflexivity. }
        rewrite (L1 a Hain Hda). destruct a as [ia wa]. exists w0. simpl in Ha, Hp. repeat split; assumption.
    + assert (Hno : forall b, In b acts -> ordkey b = p -> D b <> Some d).
      { intros b Hb Ho Hd. destruct (fg_has p b Hb Ho) as [j Hj]. destruct (Hkey (j, force b) d Hj Hd) as [l0 [Hbu _]].
        apply Hdk. apply in_map_iff. exists (d, l0). split; [reflexivity|exact Hbu]. }
      destruct (lookup_flush d out res) as [_ L2].
      { intros x1 x2 H1 _ D1 _. exfalso. destruct (Hout_in x1 H1) as [Hx _]. destruct (fg_in p x1 Hx) as [b [Hb [Ho Hs]]].
        apply (Hno b Hb Ho). unfold Dx in D1. rewrite Hs in D1. exact D1. }
      rewrite L2.
      2:{ intros x Hx Hd. destruct (Hout_in x Hx) as [Hxfg _]. destruct (fg_in p x Hxfg) as [b [Hb [Ho Hs]]].
          apply (Hno b Hb Ho). unfold Dx in Hd. rewrite Hs in Hd. exact Hd. }
      specialize (HI d). destruct (lookup d res) as [[i w]|].
      * destruct HI as [w0 [Hw0 [Hdw0 [Ha [Hp Hwin]]]]]. exists w0. apply In_below in Hw0.
        split; [apply In_below; split; [tauto|lia]|]. repeat split; try assumption.
        apply wins_spec. intros b Hb Hdb. destruct (HU b Hb) as [Hb'|[Hb' Hob]].
        -- apply (proj1 (wins_spec _ _ _) Hwin b Hb' Hdb).
        -- exfalso. apply (Hno b Hb' Hob Hdb).
      * intros b Hb Hdb. destruct (HU b Hb) as [Hb'|[Hb' Hob]]; [apply (HI b Hb' Hdb)|apply (Hno b Hb' Hob Hdb)].
  - intros x Hx. destruct (Hout_in x Hx) as [Hxfg _]. destruct (fg_in p x Hxfg) as [b [Hb [Ho Hs]]].
    rewrite Hs. change (aord (force b)) with (aord b). rewrite (Hord b Hb), Ho. reflexivity.
Qed.
End Commit.

(* ---------- induction over the phases *)
Lemma run_phases acts :
  NoDup (map aid acts) -> (forall a, In a acts -> aord a = Some (ordkey a)) ->
  forall ps q res mo,
  StronglySorted Z.lt ps ->
  (forall b, In b acts -> (ordkey b < q)%Z \/ In (ordkey b) ps) ->
  (forall p, In p ps -> (q <= p)%Z) ->
  Inv acts res q ->
  match mo with Some m => (m < q)%Z | None => True end ->
  obs (run_groups cfg_fixed res mo (map (fun p => (p, phase_group acts p)) ps)) = spec_phases acts ps.
Proof.
  intros Hids Hord. induction ps as [|p ps IH]; intros q res mo Hs Hcov Hlow HI Hmo; [reflexivity|].
  cbn [map]. rewrite run_groups_cons. cbn [spec_phases].
  inversion Hs as [|? ? Hs' Hlt]; subst. rewrite Forall_forall in Hlt.
  assert (Hqp : (q <= p)%Z) by (apply Hlow; left; reflexivity).
  assert (Hl : late mo p = false).
  { unfold late. destruct mo as [m|]; [|reflexivity]. replace min_order_cmp with 0%N by reflexivity. cbn [cmp_eval].
    apply Z.ltb_ge. lia. }
  rewrite Hl.
  assert (Eb : below acts q = below acts p).
  { unfold below. apply filter_ext_in. intros b Hb. destruct (Hcov b Hb) as [H|H].
    - destruct (Z.ltb_spec (ordkey b) q), (Z.ltb_spec (ordkey b) p); try reflexivity; lia.
    - assert (p <= ordkey b)%Z by (destruct H as [<-|H]; [lia|specialize (Hlt _ H); lia]).
      destruct (Z.ltb_spec (ordkey b) q), (Z.ltb_spec (ordkey b) p); try reflexivity; lia. }
  assert (HIp : Inv acts res p) by (unfold Inv in *; rewrite <- Eb; exact HI).
  destruct (phase_step acts Hids Hord p res HIp) as [HK HC]. cbv zeta in HK, HC.
  rewrite force_events_forces, snd_phase_group.
  destruct (group_output cfg_fixed res (phase_group acts p)) as [out K]. cbn [fst snd] in *.
  destruct K as [|k K'].
  - rewrite <- HK. destruct (HC eq_refl) as [Hruns [HI' Hao]].
    assert (Hmo' : match flush_mo mo out with Some m => (m < p + 1)%Z | None => True end).
    { destruct (flush_mo_cases p out mo Hao) as [-> | ->]; [destruct mo; [lia|exact I]|lia]. }
    specialize (IH (p + 1)%Z (flush_res res out) (flush_mo mo out) Hs').
    rewrite <- IH.
    + unfold obs. cbn [fst snd]. f_equal. f_equal. f_equal.
      unfold runs, runs_of. rewrite <- (map_map aidx Run), Hruns, map_map. reflexivity.
    + intros b Hb. destruct (Hcov b Hb) as [H|[H|H]]; [left; lia|left; lia|right; exact H].
    + intros p' Hp'. specialize (Hlt _ Hp'). lia.
    + exact HI'.
    + exact Hmo'.
  - rewrite <- HK. reflexivity.
Qed.

Lemma wf_orders_spec acts : wf_orders acts = true -> forall a, In a acts -> aord a = Some (ordkey a).
Proof.
  unfold wf_orders. rewrite forallb_forall. intros H a Ha. specialize (H a Ha).
  destruct a as [i d p o adds]. simpl in H. apply andb_true_iff in H. destruct H as [H _].
  unfold ordkey. simpl. destruct o; [reflexivity|discriminate].
Qed.

Lemma wf_ids_spec acts : wf_ids acts = true -> NoDup (map aid acts).
Proof.
  intros H. apply nodupN_NoDup in H. rewrite forest_aids_sigs in H. apply NoDup_fas_fst in H.
  unfold sigs in H. rewrite map_map in H. exact H.
Qed.

(* ---------- the property's first sentence, for a single non-re-entrant commit *)
Theorem commit_spec_fixed acts :
  flat acts = true -> wf_ids acts = true -> wf_orders acts = true ->
  obs (commit_with cfg_fixed acts) = commit_spec acts.
Proof.
  intros Hf Hi Ho. rewrite (commit_flat_exact cfg_fixed acts Hf Hi), groups_of_phases. unfold commit_spec.
  destruct (phases_spec acts) as [P1 P2].
  set (q := match phases acts with [] => 0%Z | p :: _ => p end).
  apply (run_phases acts (wf_ids_spec _ Hi) (wf_orders_spec _ Ho) (phases acts) q [] None P1).
  - intros b Hb. right. apply P2. exists b. split; [exact Hb|reflexivity].
  - intros p Hp. unfold q. destruct (phases acts) as [|p0 ps]; [destruct Hp|].
    inversion P1 as [|? ? _ Hlt]; subst. rewrite Forall_forall in Hlt. destruct Hp as [<-|Hp]; [lia|specialize (Hlt _ Hp); lia].
  - intros d. simpl. intros b Hb Hd. apply In_below in Hb. destruct Hb as [Hb Hq].
    assert (In (ordkey b) (phases acts)) as Hp by (apply P2; exists b; split; [exact Hb|reflexivity]).
    unfold q in Hq. destruct (phases acts) as [|p0 ps]; [destruct Hp|].
    inversion P1 as [|? ? _ Hlt]; subst. rewrite Forall_forall in Hlt. destruct Hp as [E|Hp]; [lia|specialize (Hlt _ Hp); lia].
  - exact I.
Qed.

(* what [winner] means, in words of the property *)
Theorem winner_characterisation l d w :
  NoDup (map aid l) ->
  (winner l d = Some w <->
   In w l /\ D w = Some d /\
   forall b, In b l -> D b = Some d ->
     (ordkey w <= ordkey b)%Z /\ (aid w = aid b \/ strict_prefix (apath w) (apath b) = true)).
Proof.
  intros Hnd. split.
  - intros H. destruct (winner_inv _ _ _ H) as [H1 [H2 H3]]. split; [exact H1|]. split; [exact H2|].
    intros b Hb Hd. destruct (proj1 (wins_spec _ _ _) H3 b Hb Hd) as [Ho Hdom]. split; [exact Ho|].
    unfold dominates in Hdom. apply orb_true_iff in Hdom. rewrite N.eqb_eq in Hdom. exact Hdom.
  - intros [H1 [H2 H3]]. apply winner_some; try assumption. apply wins_spec. intros b Hb Hd.
    destruct (H3 b Hb Hd) as [Ho Hdom]. split; [exact Ho|]. unfold dominates. apply orb_true_iff. rewrite N.eqb_eq. exact Hdom.
Qed.
