(* C16 -- package-relative roots, a uniform description of resource names, and
   the conformance / filemap theorems. *)
From Coq Require Import List NArith ZArith PeanoNat Bool Lia ZifyBool ZifyN Sorting.Sorted.
Ltac Zify.zify_post_hook ::= Z.div_mod_to_equations.
Import ListNotations.
Require Import Verif.Lib.Wire Verif.Lib.Text Verif.Lib.PathNorm Verif.Lib.Utf8 Verif.Lib.Percent
               Verif.Lib.C16Posix Verif.Gen.Facts_C16 Verif.Model.C16 Verif.Proofs.C16.
Open Scope N_scope.

(* ------------------------------------------------------------ rendered paths with an optional trailing slash *)
Definition plain_piece (s : text) : Prop := s = [] \/ (normal_seg s /\ nonul s).
Definition nonempty (s : text) : bool := match s with [] => false | _ => true end.
Definition ne_filter (l : list text) : list text := filter nonempty l.
Definition piece_list (s : text) : list text := match s with [] => [] | _ => [s] end.

Definition rendered (init : nat) (L : list text) (tr : bool) : text :=
  path_of init L ++ (if tr then [slash] else []).
Definition rinv (L : list text) (tr : bool) : Prop := tr = true -> L <> [].

Lemma rendered_false init L : rendered init L false = path_of init L.
Proof. unfold rendered. apply app_nil_r. Qed.

Lemma rendered_nonempty init L tr : (init = 1 \/ init = 2)%nat -> rendered init L tr <> [].
Proof. intros [-> | ->]; discriminate. Qed.

Lemma normal_nohead s : normal_seg s -> startswith [slash] s = false.
Proof.
  intros (H1 & _ & _ & H4). destruct s as [|x s]; [reflexivity|]. cbn [startswith].
  destruct (N.eqb_spec slash x) as [E|E]; [|reflexivity]. exfalso. apply H4. left. congruence.
Qed.

Lemma path_of_snoc init L s :
  L <> [] -> path_of init L ++ [slash] ++ s = path_of init (L ++ [s]).
Proof.
  intros HL. unfold path_of. rewrite join_app_normal by (assumption || discriminate).
  rewrite <- !app_assoc. reflexivity.
Qed.

Lemma pjoin_rendered init L tr s :
  (init = 1 \/ init = 2)%nat -> Forall normal_seg L -> rinv L tr -> plain_piece s ->
  exists tr', pjoin (rendered init L tr) s = rendered init (L ++ piece_list s) tr' /\
              rinv (L ++ piece_list s) tr' /\ (s <> [] -> tr' = false).
Proof.
  intros Hi HL Hinv Hs.
  pose proof (rendered_nonempty init L tr Hi) as Hne.
  destruct Hs as [-> | [Hsn Hsz]].
  - (* joining '' *)
    unfold pjoin. cbn [startswith piece_list]. rewrite app_nil_r.
    destruct (rendered init L tr) as [|x0 r0] eqn:E; [congruence|]. rewrite <- E.
    destruct tr.
    + exists true. unfold rendered at 1. rewrite ends_with_app_last, N.eqb_refl. rewrite app_nil_r.
      split; [reflexivity|]. split; [assumption|congruence].
    + rewrite rendered_false. rewrite ends_with_path_of by assumption.
      destruct L as [|l0 L'].
      * exists false. rewrite app_nil_r, rendered_false. split; [reflexivity|]. split; [discriminate|congruence].
      * exists true. split; [rewrite (app_nil_r (l0 :: L')); reflexivity|].
        split; [rewrite (app_nil_r (l0 :: L')); discriminate|congruence].
  - assert (Hsne : s <> []) by (destruct Hsn; assumption).
    assert (Hpl : piece_list s = [s]) by (destruct s; [congruence|reflexivity]). rewrite Hpl.
    exists false. split; [|split; [discriminate|reflexivity]]. rewrite rendered_false.
    destruct tr.
    + unfold pjoin. rewrite normal_nohead by assumption.
      destruct (rendered init L true) as [|x0 r0] eqn:E; [congruence|]. rewrite <- E.
      unfold rendered. rewrite ends_with_app_last, N.eqb_refl. rewrite <- app_assoc.
      apply path_of_snoc. apply Hinv. reflexivity.
    + rewrite rendered_false. replace s with (join [slash] [s]) at 1 by reflexivity.
      apply pjoin_path_of; try assumption; [constructor; [assumption|constructor]|discriminate].
Qed.

Lemma ne_filter_cons s r : ne_filter (s :: r) = piece_list s ++ ne_filter r.
Proof. unfold ne_filter, piece_list. cbn [filter nonempty]. destruct s; reflexivity. Qed.

Lemma piece_list_normal s : plain_piece s -> Forall normal_seg (piece_list s).
Proof. intros [-> | [H _]]; [constructor|]. destruct s; [constructor|]. constructor; [assumption|constructor]. Qed.

Lemma pjoin_all_rendered init pieces : forall L tr,
  (init = 1 \/ init = 2)%nat -> Forall normal_seg L -> rinv L tr -> Forall plain_piece pieces ->
  exists tr', pjoin_all (rendered init L tr) pieces = rendered init (L ++ ne_filter pieces) tr' /\
              rinv (L ++ ne_filter pieces) tr' /\
              (forall ps s, pieces = ps ++ [s] -> s <> [] -> tr' = false) /\
              (pieces = [] -> tr' = tr).
Proof.
  induction pieces as [|p r IH]; intros L tr Hi HL Hinv Hp.
  - exists tr. cbn [pjoin_all fold_left ne_filter filter]. rewrite app_nil_r.
    split; [reflexivity|]. split; [assumption|]. split; [|intros _; reflexivity].
    intros ps s E. destruct ps; discriminate.
  - inversion Hp as [|? ? Hp1 Hpr]; subst.
    destruct (pjoin_rendered init L tr p Hi HL Hinv Hp1) as (tr1 & E1 & Hinv1 & Hlast1).
    assert (HL1 : Forall normal_seg (L ++ piece_list p)).
    { apply Forall_app; split; [assumption|apply piece_list_normal; assumption]. }
    destruct (IH (L ++ piece_list p) tr1 Hi HL1 Hinv1 Hpr) as (tr' & E' & Hinv' & Hlast' & Hnil').
    exists tr'. unfold pjoin_all in *. cbn [fold_left]. rewrite E1, E'.
    rewrite ne_filter_cons, app_assoc.
    split; [reflexivity|]. split; [assumption|]. split; [|discriminate].
    intros ps s E Hs. destruct r as [|r0 r'].
    + destruct ps as [|p0 ps']; [|destruct ps'; discriminate].
      injection E as ->. rewrite (Hnil' eq_refl). apply Hlast1. assumption.
    + destruct ps as [|p0 ps']; [discriminate|]. injection E as _ E. eapply Hlast'; eassumption.
Qed.

(* ------------------------------------------------------------ stat of a rendered path *)
Lemma walk_snoc_empty fs L : forall cur,
  walk fs cur (L ++ [[]]) = match walk fs cur L with Some (EDir z) => Some (EDir z) | _ => None end.
Proof.
  induction L as [|c L IH]; intros cur.
  - cbn [app walk spi_step]. destruct (fs_at fs cur) as [[z b|z]|]; reflexivity.
  - cbn [app walk]. destruct (fs_at fs cur) as [[z b|z]|]; try reflexivity. apply IH.
Qed.

Lemma rendered_nonul init L tr : Forall nonul L -> ~ In 0 (rendered init L tr).
Proof.
  intros H. unfold rendered. rewrite in_app_iff. intros [Hin|Hin].
  - revert Hin. apply path_of_nonul. assumption.
  - destruct tr; [destruct Hin as [E|[]]; discriminate|destruct Hin].
Qed.

Lemma startswith_app_l p a b : startswith p a = true -> startswith p (a ++ b) = true.
Proof.
  revert a. induction p as [|x p IH]; intros a H; [reflexivity|].
  destruct a as [|y a]; [discriminate|]. cbn [startswith app] in *.
  apply andb_true_iff in H. destruct H as [H1 H2]. rewrite H1. cbn [andb]. apply IH. assumption.
Qed.

Lemma split_rendered init L tr :
  Forall normal_seg L -> rinv L tr ->
  split_on slash (rendered init L tr) =
    repeat [] init ++ (match L with [] => [[]] | _ => L end) ++ (if tr then [[]] else []).
Proof.
  intros HL Hinv. unfold rendered. destruct tr.
  - rewrite split_on_app. rewrite split_path_of by assumption. cbn [split_on]. rewrite <- app_assoc. reflexivity.
  - rewrite !app_nil_r. apply split_path_of. assumption.
Qed.

Lemma fs_stat_rendered fs init L tr :
  (init = 1 \/ init = 2)%nat -> Forall normal_seg L -> Forall nonul L -> rinv L tr ->
  fs_stat fs (rendered init L tr) =
    if tr then match walk fs [] L with Some (EDir z) => Some (EDir z) | _ => None end else walk fs [] L.
Proof.
  intros Hi HL Hz Hinv. destruct tr.
  - unfold fs_stat. rewrite memN_false by (apply rendered_nonul; assumption).
    unfold rendered at 1. rewrite startswith_app_l by (apply startswith_path_of; assumption).
    rewrite split_rendered by assumption. rewrite walk_empties.
    destruct L as [|l0 L']; [exfalso; apply Hinv; reflexivity|]. apply walk_snoc_empty.
  - rewrite rendered_false. apply fs_stat_path_of; assumption.
Qed.

Lemma is_dir_rendered fs init L tr :
  (init = 1 \/ init = 2)%nat -> Forall normal_seg L -> Forall nonul L -> rinv L tr ->
  is_dir (fs_stat fs (rendered init L tr)) = is_dir (walk fs [] L).
Proof.
  intros Hi HL Hz Hinv. rewrite fs_stat_rendered by assumption. destruct tr; [|reflexivity].
  destruct (walk fs [] L) as [[z b|z]|]; reflexivity.
Qed.

Lemma beneath_rendered init R t tr :
  (init = 1 \/ init = 2)%nat -> Forall normal_seg (R ++ t) -> Forall nonul (R ++ t) -> rinv (R ++ t) tr ->
  beneath R (rendered init (R ++ t) tr) = true.
Proof.
  intros Hi Hn Hz Hinv. destruct tr; [|rewrite rendered_false; apply beneath_path_of; assumption].
  pose proof (beneath_path_of init R t Hi Hn Hz) as Hb. unfold beneath in *.
  apply andb_true_iff in Hb. destruct Hb as [Hb H4]. apply andb_true_iff in Hb. destruct Hb as [Hb H3].
  apply andb_true_iff in Hb. destruct Hb as [H1 H2].
  unfold rendered at 1. rewrite startswith_app_l by assumption.
  rewrite memN_false by (apply rendered_nonul; assumption).
  unfold rendered at 1. rewrite split_on_app. cbn [split_on]. rewrite forallb_app, H3.
  unfold os_resolve, rendered. rewrite split_on_app. cbn [split_on]. rewrite resolve_app. cbn [resolve fold_left spi_step].
  unfold os_resolve in H4. rewrite H4. reflexivity.
Qed.

(* ------------------------------------------------------------ rstrip and the pieces of a '/'-separated name *)
Lemma repeat_snoc {A} (x : A) n : repeat x n ++ [x] = x :: repeat x n.
Proof. induction n as [|n IH]; [reflexivity|]. cbn [repeat app]. rewrite IH. reflexivity. Qed.

Lemma rev_repeat_id {A} (x : A) n : rev (repeat x n) = repeat x n.
Proof. induction n as [|n IH]; [reflexivity|]. cbn [repeat rev]. rewrite IH. apply repeat_snoc. Qed.

Lemma lstrip_decomp c s : exists k, s = repeat c k ++ lstrip_char c s.
Proof.
  induction s as [|x r [k IH]]; [exists 0%nat; reflexivity|].
  cbn [lstrip_char]. destruct (N.eqb_spec x c) as [->|Hne].
  - exists (S k). cbn [repeat app]. f_equal. exact IH.
  - exists 0%nat. reflexivity.
Qed.

Lemma rstrip_decomp c s : exists k, s = rstrip_char c s ++ repeat c k.
Proof.
  destruct (lstrip_decomp c (rev s)) as [k E]. exists k. unfold rstrip_char.
  rewrite <- (rev_involutive s) at 1. rewrite E at 1. rewrite rev_app_distr, rev_repeat_id. reflexivity.
Qed.

Lemma split_repeat_tail c a k : split_on c (a ++ repeat c k) = split_on c a ++ repeat [] k.
Proof.
  induction k as [|k IH]; [cbn [repeat]; rewrite !app_nil_r; reflexivity|].
  cbn [repeat]. rewrite <- (repeat_snoc c k), <- (repeat_snoc (@nil N) k), app_assoc, split_on_app, IH.
  cbn [split_on]. rewrite <- app_assoc. reflexivity.
Qed.

Lemma ne_filter_app a b : ne_filter (a ++ b) = ne_filter a ++ ne_filter b.
Proof. apply filter_app. Qed.

Lemma ne_filter_empties k : ne_filter (repeat [] k) = [].
Proof. induction k; [reflexivity|assumption]. Qed.

Lemma rstrip_pieces c s (Q : text -> Prop) :
  Forall Q (split_on c s) -> Forall Q (split_on c (rstrip_char c s)) /\
  ne_filter (split_on c (rstrip_char c s)) = ne_filter (split_on c s).
Proof.
  intros H. destruct (rstrip_decomp c s) as [k E]. rewrite E in H at 1.
  rewrite split_repeat_tail in H. apply Forall_app in H. destruct H as [H _]. split; [assumption|].
  rewrite E at 2. rewrite split_repeat_tail, ne_filter_app, ne_filter_empties, app_nil_r. reflexivity.
Qed.

Lemma ne_filter_normal l : Forall normal_seg l -> ne_filter l = l.
Proof.
  induction 1 as [|s r Hs _ IH]; [reflexivity|]. rewrite ne_filter_cons, IH.
  destruct s; [destruct Hs; congruence|reflexivity].
Qed.

Lemma resolve_plain l : forall acc, Forall plain_piece l -> resolve acc l = rev (ne_filter l) ++ acc.
Proof.
  induction l as [|s r IH]; intros acc H; [reflexivity|]. inversion H as [|? ? Hs Hr]; subst.
  change (resolve acc (s :: r)) with (resolve (spi_step acc s) r). rewrite IH by assumption.
  rewrite ne_filter_cons. destruct Hs as [-> | [Hn _]].
  - reflexivity.
  - assert (E : spi_step acc s = s :: acc).
    { pose proof (resolve_normal_id [s] acc ltac:(constructor; [assumption|constructor])) as R. exact R. }
    rewrite E. destruct s; [destruct Hn; congruence|]. cbn [piece_list app rev]. rewrite <- app_assoc. reflexivity.
Qed.

Lemma join_pieces t :
  Forall normal_seg t -> Forall nonul t ->
  Forall plain_piece (split_on slash (join [slash] t)) /\ ne_filter (split_on slash (join [slash] t)) = t.
Proof.
  intros Hn Hz. destruct t as [|s r].
  - split; [constructor; [left; reflexivity|constructor]|reflexivity].
  - rewrite split_join_normal by (discriminate || assumption). split; [|apply ne_filter_normal; assumption].
    apply Forall_forall. intros x Hx. right. rewrite Forall_forall in Hn, Hz. split; auto.
Qed.

(* ------------------------------------------------------------ package-relative roots *)
Definition wf_pkg (c : config) : Prop :=
  c_pkg c = true /\
  (exists init Mc, (init = 1 \/ init = 2)%nat /\ Forall normal_seg Mc /\ Forall nonul Mc /\
                   c_modpath c = path_of init Mc) /\
  Forall plain_piece (split_on slash (c_docroot c)) /\
  normal_seg (eff_index c) /\ nonul (eff_index c) /\
  Forall (fun p => ~ In slash (fst p) /\ nonul (fst p)) (c_encmap c).

Lemma plain_piece_normal l : Forall plain_piece l -> Forall normal_seg (ne_filter l) /\ Forall nonul (ne_filter l).
Proof.
  induction 1 as [|s r Hs _ [IH1 IH2]]; [split; constructor|]. rewrite ne_filter_cons.
  destruct Hs as [-> | [Hn Hz]]; [split; assumption|].
  destruct s; [destruct Hn; congruence|]. cbn [piece_list app]. split; constructor; assumption.
Qed.

Lemma spec_root_pkg c init Mc :
  c_pkg c = true -> (init = 1 \/ init = 2)%nat -> Forall normal_seg Mc -> c_modpath c = path_of init Mc ->
  Forall plain_piece (split_on slash (c_docroot c)) ->
  spec_root c = Mc ++ ne_filter (split_on slash (c_docroot c)).
Proof.
  intros Hpkg Hi HMn EM Hd. unfold spec_root. rewrite Hpkg, EM. unfold os_resolve.
  cbn [app]. rewrite split_on_app, resolve_app.
  pose proof (os_resolve_path_of init Mc HMn) as HM. unfold os_resolve in HM.
  assert (HR : resolve [] (split_on slash (path_of init Mc)) = rev Mc).
  { apply (f_equal (@rev text)) in HM. rewrite rev_involutive in HM. exact HM. }
  rewrite HR, resolve_plain by assumption. rewrite rev_app_distr, !rev_involutive. reflexivity.
Qed.

(* ------------------------------------------------------------ resource names, uniformly for both kinds of root *)
Lemma append_ext_snoc A y ext : append_ext (A ++ [y]) ext = A ++ [y ++ ext].
Proof. unfold append_ext. rewrite removelast_last, last_last. reflexivity. Qed.

(* [name] is a resource name of the view that designates the components T below the root:
   whatever slash-free extension is appended, the path handed to the OS is beneath the root
   and stat() of it is the entry at T with the extension appended to the last component *)
Definition names (c : config) (fs : fsys) (name : text) (T : list text) : Prop :=
  (exists X y, T = spec_root c ++ X ++ [y]) /\ Forall normal_seg T /\ Forall nonul T /\
  forall ext, ~ In slash ext -> nonul ext ->
    beneath (spec_root c) (os_path c (name ++ ext)) = true /\
    fs_stat fs (os_path c (name ++ ext)) = walk fs [] (append_ext T ext).

Lemma snoc_ext_ok A y ext :
  Forall normal_seg (A ++ [y]) -> Forall nonul (A ++ [y]) -> ~ In slash ext -> nonul ext ->
  Forall normal_seg (A ++ [y ++ ext]) /\ Forall nonul (A ++ [y ++ ext]).
Proof.
  intros Hn Hz He Hez. apply Forall_snoc_inv in Hn. apply Forall_snoc_inv in Hz.
  destruct Hn as [Hn1 Hn2]. destruct Hz as [Hz1 Hz2]. split; apply Forall_app; split; try assumption.
  - constructor; [apply normal_app_ext; assumption|constructor].
  - constructor; [apply nonul_app; assumption|constructor].
Qed.

Lemma names_fs c fs init X y :
  c_pkg c = false -> (init = 1 \/ init = 2)%nat ->
  Forall normal_seg (spec_root c ++ X ++ [y]) -> Forall nonul (spec_root c ++ X ++ [y]) ->
  names c fs (path_of init (spec_root c ++ X ++ [y])) (spec_root c ++ X ++ [y]).
Proof.
  intros Hpkg Hi Hn Hz. split; [exists X, y; reflexivity|]. split; [assumption|]. split; [assumption|].
  intros ext He Hez. unfold os_path. rewrite Hpkg.
  rewrite !app_assoc in *. rewrite path_of_snoc_ext, append_ext_snoc.
  destruct (snoc_ext_ok _ _ _ Hn Hz He Hez) as [Hn' Hz'].
  rewrite <- !app_assoc in *. split; [apply beneath_path_of; assumption|apply fs_stat_path_of; assumption].
Qed.

Lemma names_pkg c fs init Mc name ps y X :
  c_pkg c = true -> (init = 1 \/ init = 2)%nat -> Forall normal_seg Mc -> Forall nonul Mc ->
  c_modpath c = path_of init Mc ->
  split_on slash name = ps ++ [y] -> Forall plain_piece ps -> normal_seg y -> nonul y ->
  Mc ++ ne_filter ps = spec_root c ++ X ->
  names c fs name (spec_root c ++ X ++ [y]).
Proof.
  intros Hpkg Hi HMn HMz EM Esp Hps Hyn Hyz EL.
  destruct (plain_piece_normal ps Hps) as [Hpn Hpz].
  assert (Hn : Forall normal_seg (spec_root c ++ X ++ [y])).
  { rewrite app_assoc, <- EL. apply Forall_app; split; [apply Forall_app; split; assumption|constructor; [assumption|constructor]]. }
  assert (Hz : Forall nonul (spec_root c ++ X ++ [y])).
  { rewrite app_assoc, <- EL. apply Forall_app; split; [apply Forall_app; split; assumption|constructor; [assumption|constructor]]. }
  split; [exists X, y; reflexivity|]. split; [assumption|]. split; [assumption|].
  intros ext He Hez.
  assert (Esp' : split_on slash (name ++ ext) = ps ++ [y ++ ext]).
  { rewrite split_on_app_nosep by assumption. rewrite Esp, removelast_last, last_last. reflexivity. }
  assert (Hne : name ++ ext <> []).
  { intros E. rewrite E in Esp'. cbn [split_on] in Esp'. destruct ps as [|p0 ps'].
    - injection Esp' as E2. destruct y; [destruct Hyn; congruence|discriminate].
    - destruct ps'; discriminate. }
  assert (Epf : pkg_fn (c_modpath c) (name ++ ext) = pjoin_all (c_modpath c) (split_on slash (name ++ ext))).
  { unfold pkg_fn. destruct (name ++ ext); [congruence|reflexivity]. }
  unfold os_path. rewrite Hpkg, Epf, Esp', EM, <- (rendered_false init Mc).
  assert (Hyen : normal_seg (y ++ ext)) by (apply normal_app_ext; assumption).
  assert (Hyez : nonul (y ++ ext)) by (apply nonul_app; assumption).
  assert (Hpieces : Forall plain_piece (ps ++ [y ++ ext])).
  { apply Forall_app; split; [assumption|]. constructor; [right; split; assumption|constructor]. }
  destruct (pjoin_all_rendered init (ps ++ [y ++ ext]) Mc false Hi HMn ltac:(intros E; discriminate) Hpieces)
    as (tr' & E' & Hinv' & Hlast' & _).
  assert (Htr : tr' = false).
  { apply (Hlast' ps (y ++ ext) eq_refl). destruct y; [destruct Hyn; congruence|discriminate]. }
  subst tr'. rewrite E', rendered_false.
  assert (EL' : Mc ++ ne_filter (ps ++ [y ++ ext]) = spec_root c ++ X ++ [y ++ ext]).
  { rewrite ne_filter_app, app_assoc, EL. rewrite <- app_assoc. f_equal. f_equal.
    rewrite ne_filter_normal by (constructor; [assumption|constructor]). reflexivity. }
  rewrite EL'. rewrite !app_assoc in *. rewrite append_ext_snoc.
  destruct (snoc_ext_ok _ _ _ Hn Hz He Hez) as [Hn' Hz'].
  rewrite <- !app_assoc in *. split; [apply beneath_path_of; assumption|apply fs_stat_path_of; assumption].
Qed.

(* ------------------------------------------------------------ get_resource_name, both kinds of root *)
Definition wf (c : config) : Prop := wf_fs c \/ wf_pkg c.

Lemma wf_index c : wf c -> normal_seg (eff_index c) /\ nonul (eff_index c).
Proof. intros [(_ & _ & _ & H1 & H2 & _) | (_ & _ & _ & H1 & H2 & _)]; split; assumption. Qed.

Lemma wf_exts c : wf c -> Forall (fun p => ~ In slash (fst p) /\ nonul (fst p)) (c_encmap c).
Proof. intros [(_ & _ & _ & _ & _ & H) | (_ & _ & _ & _ & _ & H)]; assumption. Qed.

Lemma seg_ok_all t : forallb seg_ok t = true -> Forall normal_seg t /\ Forall nonul t.
Proof.
  intros H. rewrite forallb_forall in H. split; apply Forall_forall; intros s Hs;
    specialize (H s Hs); apply seg_ok_spec in H; destruct H; assumption.
Qed.

Lemma secure_ok t : forallb seg_ok t = true -> secure_path t = Some (join [slash] t).
Proof. intros H. rewrite secure_path_is_spec. unfold spec_secure. rewrite H. reflexivity. Qed.

Lemma secure_bad t : forallb seg_ok t = false -> secure_path t = None.
Proof. intros H. rewrite secure_path_is_spec. unfold spec_secure. rewrite H. reflexivity. Qed.

Lemma spec_root_ok c : wf c -> Forall normal_seg (spec_root c) /\ Forall nonul (spec_root c).
Proof.
  intros [(Hpkg & Habs & Hz & _) | (Hpkg & (init & Mc & Hi & HMn & HMz & EM) & Hd & _)].
  - rewrite spec_root_fs by assumption. split; [|apply os_resolve_nonul; assumption].
    unfold os_resolve. apply Forall_rev. apply resolve_normal; [apply split_on_no_sep|constructor].
  - rewrite (spec_root_pkg c init Mc) by assumption. destruct (plain_piece_normal _ Hd) as [H1 H2].
    split; apply Forall_app; split; assumption.
Qed.

Lemma grn_names c rq pi fs t :
  wf c -> forallb seg_ok t = true ->
  exists iname nname log,
    get_resource_name c rq pi fs t =
      (if is_dir (walk fs [] (spec_root c ++ t)) then dir_or_redirect c rq pi iname else RNName nname, log) /\
    contained c log = true /\
    names c fs iname (spec_root c ++ t ++ [eff_index c]) /\
    (t <> [] -> names c fs nname (spec_root c ++ t)).
Proof.
  intros Hwf Hok. destruct (seg_ok_all t Hok) as [Htn Htz].
  destruct (wf_index c Hwf) as [Hin Hiz]. destruct (spec_root_ok c Hwf) as [HRn HRz].
  assert (HTn : Forall normal_seg (spec_root c ++ t ++ [eff_index c])).
  { apply Forall_app; split; [assumption|]. apply Forall_app; split; [assumption|constructor; [assumption|constructor]]. }
  assert (HTz : Forall nonul (spec_root c ++ t ++ [eff_index c])).
  { apply Forall_app; split; [assumption|]. apply Forall_app; split; [assumption|constructor; [assumption|constructor]]. }
  destruct Hwf as [Hwf | Hwf].
  - destruct (grn_fs c rq pi fs t _ Hwf (secure_ok t Hok)) as (init & Hi & E).
    destruct Hwf as (Hpkg & _).
    exists (path_of init (spec_root c ++ t ++ [eff_index c])), (path_of init (spec_root c ++ t)), [(0, path_of init (spec_root c ++ t))].
    split; [exact E|]. split.
    { unfold contained. cbn [forallb snd]. rewrite andb_true_r.
      apply beneath_path_of; [assumption| |]; apply Forall_app; split; assumption. }
    split; [apply names_fs; assumption|].
    intros Hne. destruct (exists_last_ne t Hne) as (X & y & ->).
    apply names_fs; try assumption; apply Forall_app; split; assumption.
  - destruct Hwf as (Hpkg & (init & Mc & Hi & HMn & HMz & EM) & Hd & _).
    pose proof (spec_root_pkg c init Mc Hpkg Hi HMn EM Hd) as ER.
    set (D := rstrip_char slash (c_docroot c)).
    set (rp := D ++ slash :: join [slash] t).
    destruct (rstrip_pieces slash (c_docroot c) plain_piece Hd) as [HDp HDn]. fold D in HDp, HDn.
    destruct (join_pieces t Htn Htz) as [Hjp Hjn].
    assert (Erp : split_on slash rp = split_on slash D ++ split_on slash (join [slash] t)) by apply split_on_app.
    assert (Hrpp : Forall plain_piece (split_on slash rp)) by (rewrite Erp; apply Forall_app; split; assumption).
    assert (Hrpn : Mc ++ ne_filter (split_on slash rp) = spec_root c ++ t).
    { rewrite Erp, ne_filter_app, HDn, Hjn, ER, <- app_assoc. reflexivity. }
    assert (Epf : pkg_fn (c_modpath c) rp = pjoin_all (c_modpath c) (split_on slash rp)).
    { unfold pkg_fn, rp. destruct D; reflexivity. }
    destruct (pjoin_all_rendered init (split_on slash rp) Mc false Hi HMn ltac:(intros E; discriminate) Hrpp)
      as (tr & Etr & Hinv & _ & _).
    rewrite rendered_false, <- EM, <- Epf, Hrpn in Etr. rewrite Hrpn in Hinv.
    assert (HLn : Forall normal_seg (spec_root c ++ t)) by (apply Forall_app; split; assumption).
    assert (HLz : Forall nonul (spec_root c ++ t)) by (apply Forall_app; split; assumption).
    exists (rstrip_char slash rp ++ slash :: eff_index c), rp, [(0, pkg_fn (c_modpath c) rp)].
    split.
    { unfold get_resource_name. rewrite (secure_ok t Hok), Hpkg.
      change (rstrip_char (char1 pkg_rstrip) (c_docroot c) ++ pkg_fmt_sep ++ join [slash] t) with rp.
      unfold bind, stat. rewrite Etr, is_dir_rendered by assumption.
      destruct (is_dir (walk fs [] (spec_root c ++ t))); reflexivity. }
    split.
    { unfold contained. cbn [forallb snd]. rewrite andb_true_r, Etr. apply beneath_rendered; assumption. }
    split.
    + destruct (rstrip_pieces slash rp plain_piece Hrpp) as [HSp HSn].
      apply (names_pkg c fs init Mc _ (split_on slash (rstrip_char slash rp)) (eff_index c) t); try assumption.
      * rewrite split_on_app. f_equal. apply split_on_nosep_id. destruct Hin as (_ & _ & _ & H). exact H.
      * rewrite HSn. exact Hrpn.
    + intros Hne. destruct (exists_last_ne t Hne) as (X & y & Et).
      assert (Hsplit_t : split_on slash (join [slash] t) = t) by (apply split_join_normal; assumption).
      rewrite Et in *. apply Forall_snoc_inv in Htn. apply Forall_snoc_inv in Htz.
      destruct Htn as [HXn Hyn]. destruct Htz as [HXz Hyz].
      apply (names_pkg c fs init Mc rp (split_on slash D ++ X) y X); try assumption.
      * rewrite Erp, Hsplit_t, app_assoc. reflexivity.
      * apply Forall_app; split; [assumption|]. apply Forall_forall. intros x Hx. right.
        rewrite Forall_forall in HXn, HXz. split; auto.
      * rewrite ne_filter_app, HDn, (ne_filter_normal X HXn), ER, <- app_assoc. reflexivity.
Qed.

(* ------------------------------------------------------------ candidates: model order vs specification set *)
Definition has (res : list (text * list text)) (e x : text) : Prop := exists exts, In (e, exts) res /\ In x exts.

Lemma has_nil e x : ~ has [] e x.
Proof. intros (exts & [] & _). Qed.

Lemma has_cons e0 xs r e x : has ((e0, xs) :: r) e x <-> (e = e0 /\ In x xs) \/ has r e x.
Proof.
  unfold has. split.
  - intros (exts & [E|Hin] & Hx).
    + injection E as <- <-. left. split; [reflexivity|assumption].
    + right. exists exts. split; assumption.
  - intros [[-> Hx] | (exts & Hin & Hx)].
    + exists xs. split; [left; reflexivity|assumption].
    + exists exts. split; [right; assumption|assumption].
Qed.

Lemma has_compile_add res e ext e' x :
  has (compile_add res e ext) e' x <-> (e' = e /\ x = ext) \/ has res e' x.
Proof.
  induction res as [|[e0 xs] r IH].
  - cbn [compile_add]. rewrite has_cons. split.
    + intros [[-> [<-|[]]] | H]; [left; split; reflexivity|destruct (has_nil _ _ H)].
    + intros [[-> ->] | H]; [left; split; [reflexivity|left; reflexivity]|destruct (has_nil _ _ H)].
  - cbn [compile_add]. destruct (text_eqb_spec e e0) as [->|Hne].
    + rewrite !has_cons. rewrite in_app_iff. split.
      * intros [[-> [Hx|[<-|[]]]] | H]; [right; left; split; [reflexivity|assumption]|left; split; reflexivity|right; right; assumption].
      * intros [[-> ->] | [[-> Hx] | H]]; [left; split; [reflexivity|right; left; reflexivity]|left; split; [reflexivity|left; assumption]|right; assumption].
    + rewrite !has_cons, IH. tauto.
Qed.

Lemma has_fold encs encmap : forall res e' x,
  has (fold_left (fun res p => if mem_text (snd p) encs then compile_add res (snd p) (fst p) else res) encmap res) e' x
  <-> has res e' x \/ (In (x, e') encmap /\ mem_text e' encs = true).
Proof.
  induction encmap as [|[ext e] r IH]; intros res e' x.
  - cbn [fold_left]. split; [intros H; left; assumption|intros [H|[[] _]]; assumption].
  - cbn [fold_left fst snd]. rewrite IH. destruct (mem_text e encs) eqn:Em.
    + rewrite has_compile_add. split.
      * intros [[[-> ->] | H] | [Hin Hm]]; [right; split; [left; reflexivity|assumption]|left; assumption|right; split; [right; assumption|assumption]].
      * intros [H | [[E|Hin] Hm]]; [left; right; assumption|injection E as <- <-; left; left; split; reflexivity|right; split; assumption].
    + split.
      * intros [H | [Hin Hm]]; [left; assumption|right; split; [right; assumption|assumption]].
      * intros [H | [[E|Hin] Hm]]; [left; assumption|injection E as <- <-; congruence|right; split; assumption].
Qed.

Definition variant_of (c : config) (ext e : text) : Prop := In (ext, e) (c_encmap c) /\ mem_text e (c_encs c) = true.

Lemma candidates_iff c name n eo :
  In (n, eo) (candidates c name) <->
  (n = name /\ eo = None) \/ exists ext e, eo = Some e /\ n = name ++ ext /\ variant_of c ext e.
Proof.
  unfold candidates. cbn [In]. rewrite in_flat_map. split.
  - intros [E | ([e exts] & Hin & Hm)].
    + injection E as <- <-. left. split; reflexivity.
    + cbn [fst snd] in Hm. apply in_map_iff in Hm. destruct Hm as (ext & E & Hext). injection E as <- <-.
      right. exists ext, e. split; [reflexivity|]. split; [reflexivity|].
      assert (Hh : has (compile_encodings (c_encs c) (c_encmap c)) e ext) by (exists exts; split; assumption).
      unfold compile_encodings in Hh. apply has_fold in Hh. destruct Hh as [Hh|Hh]; [destruct (has_nil _ _ Hh)|exact Hh].
  - intros [[-> ->] | (ext & e & -> & -> & Hv)]; [left; reflexivity|]. right.
    assert (Hh : has (compile_encodings (c_encs c) (c_encmap c)) e ext).
    { unfold compile_encodings. apply has_fold. right. exact Hv. }
    destruct Hh as (exts & Hin & Hx). exists (e, exts). split; [assumption|]. cbn [fst snd].
    apply in_map_iff. exists ext. split; [reflexivity|assumption].
Qed.

Lemma spec_candidates_iff c T T' eo :
  In (T', eo) (spec_candidates c T) <->
  (T' = T /\ eo = None) \/ exists ext e, eo = Some e /\ T' = append_ext T ext /\ variant_of c ext e.
Proof.
  unfold spec_candidates. cbn [In]. rewrite in_flat_map. split.
  - intros [E | ([ext e] & Hin & Hm)].
    + injection E as <- <-. left. split; reflexivity.
    + cbn [fst snd] in Hm. destruct (mem_text e (c_encs c)) eqn:Em; [|destruct Hm].
      destruct Hm as [E|[]]. injection E as <- <-. right. exists ext, e. repeat split; assumption.
  - intros [[-> ->] | (ext & e & -> & -> & Hin & Hm)]; [left; reflexivity|]. right.
    exists (ext, e). split; [assumption|]. cbn [fst snd]. rewrite Hm. left. reflexivity.
Qed.

(* ------------------------------------------------------------ the pure content of probe / sizes *)
Lemma probe_found c fs cands p eo :
  In (p, eo) (fst (probe c fs cands)) <->
  exists n, In (n, eo) cands /\ p = os_path c n /\ exists_ (fs_stat fs p) = true.
Proof.
  induction cands as [|[n0 e0] r IH].
  - cbn. split; [intros []|intros (n & [] & _)].
  - cbn [probe]. unfold bind, stat, ret. destruct (probe c fs r) as [found lg]. cbn [fst] in *.
    destruct (exists_ (fs_stat fs (os_path c n0))) eqn:Ex.
    + cbn [In]. rewrite IH. split.
      * intros [E | (n & Hin & -> & Hex)].
        -- injection E as <- <-. exists n0. split; [left; reflexivity|split; [reflexivity|assumption]].
        -- exists n. split; [right; assumption|split; [reflexivity|assumption]].
      * intros (n & [E|Hin] & -> & Hex).
        -- injection E as <- <-. left. reflexivity.
        -- right. exists n. split; [assumption|split; [reflexivity|assumption]].
    + rewrite IH. split.
      * intros (n & Hin & -> & Hex). exists n. split; [right; assumption|split; [reflexivity|assumption]].
      * intros (n & [E|Hin] & -> & Hex).
        -- injection E as <- <-. congruence.
        -- exists n. split; [assumption|split; [reflexivity|assumption]].
Qed.

Lemma sizes_in fs l k f :
  In (k, f) (fst (sizes fs l)) <-> In f l /\ k = entry_size (fs_stat fs (fst f)).
Proof.
  induction l as [|f0 r IH].
  - cbn. tauto.
  - cbn [sizes]. unfold bind, stat, ret. destruct (sizes fs r) as [ks lg]. cbn [fst In] in *. rewrite IH. split.
    + intros [E | [Hin ->]]; [injection E as <- <-; split; [left; reflexivity|reflexivity]|split; [right; assumption|reflexivity]].
    + intros [[<- | Hin] ->]; [left; reflexivity|right; split; [assumption|reflexivity]].
Qed.

Definition keyed_of (c : config) (fs : fsys) (name : text) : list (N * cand) :=
  fst (sizes fs (fst (probe c fs (candidates c name)))).
Definition files_of (c : config) (fs : fsys) (name : text) : list cand := map snd (sort_by (keyed_of c fs name)).

Lemma compute_files_fst c fs name : fst (compute_files c fs name) = files_of c fs name.
Proof.
  unfold compute_files, files_of, keyed_of, bind, ret.
  destruct (probe c fs (candidates c name)) as [found l1]. cbn [fst].
  destruct (sizes fs found) as [keyed l2]. reflexivity.
Qed.

(* ------------------------------------------------------------ the files found are the specification's candidates *)
Definition found_of (c : config) (fs : fsys) (name : text) : list cand := fst (probe c fs (candidates c name)).

Lemma names_T_snoc c fs name T : names c fs name T -> exists A y, T = A ++ [y].
Proof. intros ((X & y & ->) & _). exists (spec_root c ++ X), y. rewrite app_assoc. reflexivity. Qed.

Lemma append_ext_nil T : (exists A y, T = A ++ [y]) -> append_ext T [] = T.
Proof. intros (A & y & ->). rewrite append_ext_snoc, app_nil_r. reflexivity. Qed.

Lemma ext_ok c ext e : wf c -> variant_of c ext e -> ~ In slash ext /\ nonul ext.
Proof.
  intros Hwf [Hin _]. pose proof (wf_exts c Hwf) as H. rewrite Forall_forall in H. exact (H (ext, e) Hin).
Qed.

Lemma found_to_spec c fs name T p eo :
  wf c -> names c fs name T -> In (p, eo) (found_of c fs name) ->
  exists T', In (T', eo) (spec_candidates c T) /\ fs_stat fs p = walk fs [] T' /\
             beneath (spec_root c) p = true /\ exists_ (walk fs [] T') = true.
Proof.
  intros Hwf Hn Hin. apply probe_found in Hin. destruct Hin as (n & Hc & -> & Hex).
  pose proof (names_T_snoc _ _ _ _ Hn) as HT. destruct Hn as (_ & _ & _ & Hn).
  apply candidates_iff in Hc. destruct Hc as [[-> ->] | (ext & e & -> & -> & Hv)].
  - destruct (Hn [] ltac:(intros []) ltac:(intros [])) as [Hb Hs]. rewrite app_nil_r in *.
    rewrite append_ext_nil in Hs by assumption.
    exists T. split; [apply spec_candidates_iff; left; split; reflexivity|]. rewrite <- Hs. auto.
  - destruct (ext_ok c ext e Hwf Hv) as [He Hez]. destruct (Hn ext He Hez) as [Hb Hs].
    exists (append_ext T ext). split; [apply spec_candidates_iff; right; exists ext, e; auto|]. rewrite <- Hs. auto.
Qed.

Lemma spec_to_found c fs name T T' eo :
  wf c -> names c fs name T -> In (T', eo) (spec_candidates c T) -> exists_ (walk fs [] T') = true ->
  exists p, In (p, eo) (found_of c fs name) /\ fs_stat fs p = walk fs [] T'.
Proof.
  intros Hwf Hn Hin Hex. pose proof (names_T_snoc _ _ _ _ Hn) as HT. destruct Hn as (_ & _ & _ & Hn).
  apply spec_candidates_iff in Hin. destruct Hin as [[-> ->] | (ext & e & -> & -> & Hv)].
  - destruct (Hn [] ltac:(intros []) ltac:(intros [])) as [Hb Hs]. rewrite app_nil_r in *.
    rewrite append_ext_nil in Hs by assumption.
    exists (os_path c name). split; [|assumption]. apply probe_found. exists name.
    split; [apply candidates_iff; left; split; reflexivity|]. split; [reflexivity|]. rewrite Hs. assumption.
  - destruct (ext_ok c ext e Hwf Hv) as [He Hez]. destruct (Hn ext He Hez) as [Hb Hs].
    exists (os_path c (name ++ ext)). split; [|assumption]. apply probe_found. exists (name ++ ext).
    split; [apply candidates_iff; right; exists ext, e; auto|]. split; [reflexivity|]. rewrite Hs. assumption.
Qed.

(* what static_view.__call__ answers once the list of files is known *)
Definition file_resp (fs : fsys) (rq : request) (files : list cand) : resp :=
  match best_match rq files with
  | None => R404 2
  | Some (p, enc) =>
      match fs_stat fs p with
      | Some (EFile _ b) => R200 b enc (Nat.ltb 1 (length files))
      | Some (EDir _) => RExc 4
      | None => RExc 5
      end
  end.

Lemma find_none_all {A} (P : A -> bool) l : find P l = None -> forall x, In x l -> P x = false.
Proof. intros H x Hx. exact (find_none P l H x Hx). Qed.

Lemma keyed_in c fs name k f :
  In (k, f) (keyed_of c fs name) <-> In f (found_of c fs name) /\ k = entry_size (fs_stat fs (fst f)).
Proof. unfold keyed_of, found_of. apply sizes_in. Qed.

Lemma files_conform c rq fs name T :
  wf c -> names c fs name T ->
  conforms (file_resp fs rq (files_of c fs name)) (spec_serve c rq fs T) = true.
Proof.
  intros Hwf Hn. unfold spec_serve.
  set (live := filter (fun ce => exists_ (walk fs [] (fst ce)) && spec_acceptable rq (snd ce)) (spec_candidates c T)).
  assert (Hlive : forall ce, In ce live <->
            In ce (spec_candidates c T) /\ exists_ (walk fs [] (fst ce)) = true /\ spec_acceptable rq (snd ce) = true).
  { intros ce. unfold live. rewrite filter_In, andb_true_iff. tauto. }
  unfold file_resp, files_of.
  destruct (best_match rq (map snd (sort_by (keyed_of c fs name)))) as [[p enc]|] eqn:Eb.
  - destruct (variant_choice rq _ p enc Eb) as (Hacc & k & Hk & Hmin).
    apply keyed_in in Hk. destruct Hk as [Hf Hk]. cbn [fst] in Hk.
    destruct (found_to_spec c fs name T p enc Hwf Hn Hf) as (T' & HT' & Hs & _ & Hex).
    assert (Hce : In (T', enc) live) by (apply Hlive; cbn [fst snd]; auto).
    destruct live as [|l0 lr] eqn:El; [destruct Hce|]. rewrite <- El in *.
    destruct (existsb (fun ce => is_dir (walk fs [] (fst ce))) live) eqn:Ed; [reflexivity|].
    assert (Hnd : is_dir (walk fs [] T') = false).
    { destruct (is_dir (walk fs [] T')) eqn:E; [|reflexivity].
      assert (existsb (fun ce => is_dir (walk fs [] (fst ce))) live = true).
      { apply existsb_exists. exists (T', enc). split; [assumption|exact E]. }
      congruence. }
    rewrite Hs. destruct (walk fs [] T') as [[z b|z]|] eqn:Ew; [|discriminate|discriminate].
    cbn [conforms]. apply existsb_exists. exists (b, enc). split.
    + apply in_map_iff. exists (T', enc). cbn [fst snd]. rewrite Ew. split; [reflexivity|].
      apply filter_In. split; [assumption|]. apply forallb_forall. intros [T'' e''] Hin''.
      apply Hlive in Hin''. cbn [fst snd] in *. destruct Hin'' as (Hc'' & Hex'' & Hacc'').
      destruct (spec_to_found c fs name T T'' e'' Hwf Hn Hc'' Hex'') as (p'' & Hf'' & Hs'').
      apply N.leb_le. rewrite Ew. cbn [entry_size].
      assert (Hle : k <= entry_size (fs_stat fs p'')).
      { apply (Hmin _ (p'', e'')); [apply keyed_in; split; [assumption|reflexivity]|exact Hacc'']. }
      rewrite Hs'' in Hle. rewrite Hk, Hs in Hle. cbn [entry_size] in Hle. exact Hle.
    + cbn [fst snd]. rewrite text_eqb_refl. destruct enc; cbn [opt_text_eqb andb]; [apply text_eqb_refl|reflexivity].
  - destruct live as [|[T'' e''] lr] eqn:El; [reflexivity|exfalso].
    assert (Hin'' : In (T'', e'') live) by (rewrite El; left; reflexivity).
    rewrite <- El in *. apply Hlive in Hin''. cbn [fst snd] in Hin''. destruct Hin'' as (Hc'' & Hex'' & Hacc'').
    destruct (spec_to_found c fs name T T'' e'' Hwf Hn Hc'' Hex'') as (p'' & Hf'' & Hs'').
    rewrite best_match_find, find_map_snd in Eb.
    destruct (find (fun kf => sel rq (snd kf)) (sort_by (keyed_of c fs name))) as [x|] eqn:Ef; [discriminate|].
    pose proof (find_none_all _ _ Ef (entry_size (fs_stat fs p''), (p'', e''))) as Hno.
    assert (Hin : In (entry_size (fs_stat fs p''), (p'', e'')) (sort_by (keyed_of c fs name))).
    { apply sort_by_In. apply keyed_in. split; [assumption|reflexivity]. }
    specialize (Hno Hin). cbn [snd] in Hno. unfold sel in Hno. cbn [snd] in Hno. congruence.
Qed.

(* ------------------------------------------------------------ "the request path ends with '/'" *)
Lemma ends_with_app_ne c a b : b <> [] -> ends_with c (a ++ b) = ends_with c b.
Proof.
  intros Hb. unfold ends_with. rewrite rev_app_distr. destruct (rev b) as [|x r] eqn:E; [|reflexivity].
  apply (f_equal (@rev N)) in E. rewrite rev_involutive in E. cbn [rev] in E. congruence.
Qed.

Lemma endswith1 c x : endswith [c] x = ends_with c x.
Proof.
  unfold endswith, ends_with. cbn [rev app]. destruct (rev x) as [|y r]; [reflexivity|].
  cbn [startswith]. rewrite andb_true_r. apply N.eqb_sym.
Qed.

Lemma encode1_last ch : exists front lastb, encode1 ch = front ++ [lastb] /\ (lastb =? slash) = (ch =? slash).
Proof.
  unfold encode1, slash. destruct (ch <? 128) eqn:H1.
  - exists [], ch. split; reflexivity.
  - assert (Hne : (ch =? 47) = false) by lia.
    assert (Hl : (128 + ch mod 64 =? 47) = false) by lia. rewrite Hne.
    destruct (ch <? 2048); [|destruct (ch <? 65536)].
    + exists [192 + ch / 64], (128 + ch mod 64). split; [reflexivity|assumption].
    + exists [224 + ch / 4096; 128 + (ch / 64) mod 64], (128 + ch mod 64). split; [reflexivity|assumption].
    + exists [240 + ch / 262144; 128 + (ch / 4096) mod 64; 128 + (ch / 64) mod 64], (128 + ch mod 64).
      split; [reflexivity|assumption].
Qed.

Lemma quote1_last safe b :
  is_safe safe slash = true -> quote1 safe b <> [] /\ ends_with slash (quote1 safe b) = (b =? slash).
Proof.
  intros Hs. unfold quote1. destruct (is_safe safe b) eqn:E.
  - split; [discriminate|]. unfold ends_with. reflexivity.
  - split; [discriminate|]. unfold ends_with. cbn [rev app].
    assert (Hb : (b =? slash) = false).
    { destruct (N.eqb_spec b slash) as [->|]; [congruence|reflexivity]. }
    rewrite Hb. unfold hexdigit, slash. destruct (b mod 16 <? 10); lia.
Qed.

Lemma quote_encode_last safe host s :
  is_safe safe slash = true -> ends_with slash host = false ->
  ends_with slash (host ++ quote safe (encode s)) = ends_with slash s.
Proof.
  intros Hs Hh. induction s as [|ch s' _] using rev_ind.
  - cbn. rewrite app_nil_r. rewrite Hh. reflexivity.
  - unfold encode. rewrite flat_map_app. cbn [flat_map]. rewrite app_nil_r.
    destruct (encode1_last ch) as (front & lastb & E & Hl). rewrite E.
    rewrite !quote_app. unfold quote at 3. cbn [flat_map]. rewrite app_nil_r.
    destruct (quote1_last safe lastb Hs) as [Hne Hq].
    rewrite !app_assoc. rewrite ends_with_app_ne by assumption. rewrite Hq, Hl.
    rewrite ends_with_app_last. reflexivity.
Qed.

(* ------------------------------------------------------------ the filemap holds exactly what would be recomputed *)
Definition fm_exact (c : config) (fs : fsys) (fm : filemap) : Prop :=
  forall name files, fm_get fm name = Some files -> files = files_of c fs name.

Lemma fm_exact_nil c fs : fm_exact c fs [].
Proof. intros name files H. discriminate. Qed.

Lemma possible_files_exact c fs fm name files fm' log :
  fm_exact c fs fm -> possible_files c fs fm name = ((files, fm'), log) ->
  files = files_of c fs name /\ fm_exact c fs fm'.
Proof.
  intros Hfm H. unfold possible_files in H. destruct (fm_get fm name) as [cached|] eqn:E.
  - unfold ret in H. injection H as <- <- _. split; [apply Hfm; assumption|assumption].
  - unfold bind, ret in H. pose proof (compute_files_fst c fs name) as Ef.
    destruct (compute_files c fs name) as [fl l1]. cbn [fst] in Ef. injection H as <- <- _.
    split; [assumption|]. destruct (c_reload c); [assumption|].
    intros n fl' Hget. cbn [fm_get] in Hget. destruct (text_eqb_spec n name) as [->|Hne].
    + injection Hget as <-. assumption.
    + apply Hfm. assumption.
Qed.

Lemma file_response_val fs p enc vary :
  fst (file_response fs p enc vary) =
    match fs_stat fs p with
    | Some (EFile _ b) => R200 b enc vary
    | Some (EDir _) => RExc 4
    | None => RExc 5
    end.
Proof. unfold file_response, bind, stat, ret. destruct (fs_stat fs p) as [[z b|z]|]; reflexivity. Qed.

Lemma serve_val c rq pi fs fm t r fm' log :
  fm_exact c fs fm -> serve c rq pi fs fm t = ((r, fm'), log) ->
  fm_exact c fs fm' /\
  r = match fst (get_resource_name c rq pi fs t) with
      | RNResp r0 => r0
      | RNName name =>
          match best_match rq (files_of c fs name) with
          | None => with_url c pi (R404 2)
          | Some _ => file_resp fs rq (files_of c fs name)
          end
      end.
Proof.
  intros Hfm H. unfold serve, bind in H. destruct (get_resource_name c rq pi fs t) as [[r0|name] l1]; cbn [fst].
  - unfold ret in H. injection H as <- <- _. split; [assumption|reflexivity].
  - destruct (possible_files c fs fm name) as [[files fm1] l2] eqn:E2.
    destruct (possible_files_exact c fs fm name files fm1 l2 Hfm E2) as [-> Hfm1]. cbn [fst snd] in H.
    unfold file_resp. destruct (best_match rq (files_of c fs name)) as [[p enc]|].
    + pose proof (file_response_val fs p enc (Nat.ltb 1 (length (files_of c fs name)))) as Ev.
      destruct (file_response fs p enc _) as [r1 l3]. cbn [fst] in Ev. unfold ret in H.
      injection H as <- <- _. split; [assumption|exact Ev].
    + unfold ret in H. injection H as <- <- _. split; [assumption|reflexivity].
Qed.

Definition host_ok (c : config) : Prop :=
  ends_with slash (c_host c) = false /\ is_safe (c_safe c) slash = true.

Lemma path_url_some c pi s : decode pi = Some s -> path_url c pi = Some (c_host c ++ quote (c_safe c) (encode s)).
Proof. intros H. unfold path_url. rewrite H. reflexivity. Qed.

Lemma file_resp_404 fs rq files : best_match rq files = None -> file_resp fs rq files = R404 2.
Proof. intros H. unfold file_resp. rewrite H. reflexivity. Qed.

Lemma is_dir_true o : is_dir o = true -> exists z, o = Some (EDir z).
Proof. destruct o as [[z b|z]|]; try discriminate. intros _. exists z. reflexivity. Qed.

Lemma serve_conform c rq pi fs fm t s r fm' log :
  wf c -> root_is_dir c fs -> host_ok c -> fm_exact c fs fm -> decode pi = Some s ->
  serve c rq pi fs fm t = ((r, fm'), log) ->
  fm_exact c fs fm' /\
  conforms r (if forallb seg_ok t then spec_tail c rq fs (Some s) t else S404) = true.
Proof.
  intros Hwf Hroot [Hh Hsafe] Hfm Hdec H.
  destruct (serve_val c rq pi fs fm t r fm' log Hfm H) as [Hfm' ->]. split; [assumption|].
  pose proof (path_url_some c pi s Hdec) as Hurl.
  destruct (forallb seg_ok t) eqn:Hok.
  2:{ unfold get_resource_name. rewrite (secure_bad t Hok). cbn [ret fst]. unfold with_url. rewrite Hurl. reflexivity. }
  destruct (grn_names c rq pi fs t Hwf Hok) as (iname & nname & lg & E & _ & Hni & Hnn). rewrite E. cbn [fst].
  unfold spec_tail.
  destruct (is_dir (walk fs [] (spec_root c ++ t))) eqn:Hd.
  - destruct (is_dir_true _ Hd) as [z Ez]. rewrite Ez.
    unfold dir_or_redirect. rewrite Hurl.
    change url_dir_suffix with [slash]. rewrite endswith1, quote_encode_last by assumption.
    destruct (ends_with slash s).
    + replace (spec_root c ++ t ++ [eff_index c]) with ((spec_root c ++ t) ++ [eff_index c]) in Hni
        by (rewrite <- app_assoc; reflexivity).
      pose proof (files_conform c rq fs iname _ Hwf Hni) as Hc.
      destruct (best_match rq (files_of c fs iname)) eqn:Eb; [exact Hc|].
      rewrite (file_resp_404 _ _ _ Eb) in Hc. unfold with_url. rewrite Hurl. exact Hc.
    + unfold redirect. cbn [conforms].
      change redirect_append with [slash]. change redirect_qs_sep with [63].
      rewrite <- !app_assoc. apply text_eqb_refl.
  - assert (Hne : t <> []).
    { intros ->. rewrite app_nil_r in Hd. unfold root_is_dir in Hroot. congruence. }
    specialize (Hnn Hne). pose proof (files_conform c rq fs nname _ Hwf Hnn) as Hc.
    assert (Hgoal : conforms
              match best_match rq (files_of c fs nname) with
              | Some _ => file_resp fs rq (files_of c fs nname)
              | None => with_url c pi (R404 2)
              end (spec_serve c rq fs (spec_root c ++ t)) = true).
    { destruct (best_match rq (files_of c fs nname)) eqn:Eb; [exact Hc|].
      rewrite (file_resp_404 _ _ _ Eb) in Hc. unfold with_url. rewrite Hurl. exact Hc. }
    destruct (walk fs [] (spec_root c ++ t)) as [[z b|z]|]; [exact Hgoal|discriminate Hd|exact Hgoal].
Qed.

(* ------------------------------------------------------------ one request, every mounting *)
Lemma route_match_strip prefix p : route_match prefix p = strip_prefix prefix p.
Proof. unfold route_match. destruct (strip_prefix prefix p); reflexivity. Qed.

Lemma spi_default p0 :
  split_path_info (match p0 with [] => [slash] | _ => p0 end) = split_path_info p0.
Proof. destruct p0; reflexivity. Qed.

Lemma view_tuple_val pi : view_tuple pi =
  match decode pi with None => Datatypes.inl (RExc 2) | Some s => Datatypes.inr (split_path_info s) end.
Proof. unfold view_tuple. destruct (decode pi); reflexivity. Qed.

Definition tail_or_404 (c : config) (rq : request) (fs : fsys) (s : text) (segs : list text) : spec_out :=
  if forallb seg_ok segs then spec_tail c rq fs (Some s) segs else S404.

Lemma tail_or_404_eq c rq fs s segs :
  match (if forallb seg_ok segs then Some (Some segs) else Some None) with
  | Some (Some sg) => spec_tail c rq fs (Some s) sg
  | Some None => S404
  | None => SReject
  end = tail_or_404 c rq fs s segs.
Proof. unfold tail_or_404. destruct (forallb seg_ok segs); reflexivity. Qed.

Lemma routed_conform c rq fs fm prefix p0 r fm' log :
  wf c -> root_is_dir c fs -> host_ok c -> fm_exact c fs fm -> decode (unquote (r_raw rq)) = Some p0 ->
  match route_match prefix (match p0 with [] => [slash] | _ => p0 end) with
  | None => ret (R404 0, fm)
  | Some rest => serve c rq (unquote (r_raw rq)) fs fm (split_path_info_f rest)
  end = ((r, fm'), log) ->
  fm_exact c fs fm' /\
  conforms r match strip_prefix prefix (match p0 with [] => [slash] | _ => p0 end) with
             | None => S404
             | Some rest => tail_or_404 c rq fs p0 (split_path_info rest)
             end = true.
Proof.
  intros Hwf Hroot Hhost Hfm Hdec H. rewrite route_match_strip in H.
  destruct (strip_prefix prefix _) as [rest|].
  - change (split_path_info_f rest) with (split_path_info rest) in H.
    exact (serve_conform c rq _ fs fm _ p0 r fm' log Hwf Hroot Hhost Hfm Hdec H).
  - unfold ret in H. injection H as <- <- _. split; [assumption|reflexivity].
Qed.

(* the mountings in which PATH_INFO goes through the router (which rejects an undecodable one) or is decoded
   by the view itself; in the remaining one the view is handed request.subpath directly *)
Definition routed_mount (m : N) : Prop := m = 0 \/ m = 1 \/ m = 2 \/ m = 4 \/ m = 5 \/ m = 6.
Definition decodable (c : config) (rq : request) : Prop :=
  routed_mount (c_mount c) \/ decode (unquote (r_raw rq)) <> None.

Lemma view_name_eq seg : traversal_view_name seg = spec_view_name seg.
Proof.
  unfold traversal_view_name, spec_view_name. change traverser_view_selector with [at_sign; at_sign].
  destruct seg as [|a [|b r]]; cbn [firstn skipn text_eqb andb]; try reflexivity.
  - destruct (a =? at_sign); reflexivity.
  - destruct (a =? at_sign), (b =? at_sign); reflexivity.
Qed.

Theorem request_conform_core c fs fm rq r fm' log :
  wf c -> root_is_dir c fs -> host_ok c -> fm_exact c fs fm ->
  decodable c rq ->
  run_request_core c fs fm rq = ((r, fm'), log) ->
  fm_exact c fs fm' /\ conforms r (spec_response_core c rq fs) = true.
Proof.
  intros Hwf Hroot Hhost Hfm Hmd H.
  assert (Hrej : forall k, (k = 1 \/ k = 2) -> ret (RExc k, fm) = ((r, fm'), log) ->
                 fm_exact c fs fm' /\ conforms r SReject = true).
  { intros k Hk E. unfold ret in E. injection E as <- <- _. split; [assumption|]. destruct Hk as [-> | ->]; reflexivity. }
  assert (Hgiven : forall s, decode (unquote (r_raw rq)) = Some s ->
            serve c rq (unquote (r_raw rq)) fs fm (r_subpath rq) = ((r, fm'), log) ->
            fm_exact c fs fm' /\
            conforms r (match (if forallb seg_ok (r_subpath rq) then Some (r_subpath rq) else None) with
                        | Some segs => spec_tail c rq fs (decode (unquote (r_raw rq))) segs
                        | None => S404 end) = true).
  { intros s Hdec E. pose proof (serve_conform c rq _ fs fm _ s r fm' log Hwf Hroot Hhost Hfm Hdec E) as [H1 H2].
    split; [assumption|]. rewrite Hdec. destruct (forallb seg_ok (r_subpath rq)); exact H2. }
  assert (Hother : ~ routed_mount (c_mount c) -> exists s, decode (unquote (r_raw rq)) = Some s).
  { intros Hn. destruct Hmd as [E|Hd]; [contradiction|].
    destruct (decode (unquote (r_raw rq))) as [s|]; [exists s; reflexivity|congruence]. }
  assert (Hdefault : ~ routed_mount (c_mount c) ->
            serve c rq (unquote (r_raw rq)) fs fm (r_subpath rq) = ((r, fm'), log) ->
            fm_exact c fs fm' /\
            conforms r (match Some (if forallb seg_ok (r_subpath rq) then Some (r_subpath rq) else None) with
                        | None => SReject
                        | Some None => S404
                        | Some (Some segs) => spec_tail c rq fs (decode (unquote (r_raw rq))) segs end) = true).
  { intros Hn E. destruct (Hother Hn) as [s Hdec]. cbv iota.
    destruct (Hgiven s Hdec E) as [H1 H2]. split; [assumption|].
    destruct (forallb seg_ok (r_subpath rq)); exact H2. }
  unfold run_request_core, route_prefix in H. unfold spec_response_core, spec_segments, spec_prefix.
  (* goals that remain after the default mounting is solved: 0, 5, 6, 4, 2, 1 *)
  revert H Hdefault. unfold routed_mount.
  destruct (c_mount c) as [|[[q|[q|q|]|]|[[q|q|]|[q|q|]|]|]]; intros H Hdefault;
    try (apply Hdefault; [intros [E|[E|[E|[E|[E|E]]]]]; discriminate E|exact H]).
  - (* 0: add_static_view *)
    destruct (decode (unquote (r_raw rq))) as [p0|] eqn:Hdec; [|apply (Hrej 1); auto].
    change (text_eqb static_route_star traverser_subpath_key) with true in H.
    change static_use_subpath with true in H. cbv iota in H.
    pose proof (routed_conform c rq fs fm _ p0 r fm' log Hwf Hroot Hhost Hfm Hdec H) as [H1 H2].
    split; [assumption|]. cbv beta iota. cbv beta iota in H2. revert H2.
    destruct (strip_prefix _ _); try exact (fun x => x).
    intros x. refine (eq_trans (f_equal (conforms r) (tail_or_404_eq c rq fs p0 _)) x).
  - (* 5: a view named c_name found by traversal, possibly below a virtual root *)
    cbv iota in H. cbv iota.
    destruct (decode (unquote (r_raw rq))) as [p0|] eqn:Hdec; [|apply (Hrej 1); auto].
    change (split_path_info_f (match p0 with [] => [slash] | _ => p0 end))
      with (split_path_info (match p0 with [] => [slash] | _ => p0 end)) in H.
    rewrite spi_default in H. cbv beta iota.
    assert (Htail : forall vt,
      match vt ++ split_path_info p0 with
      | [] => ret (R404 0, fm)
      | seg :: rest => if text_eqb (traversal_view_name seg) (c_name c)
                       then serve c rq (unquote (r_raw rq)) fs fm rest else ret (R404 0, fm)
      end = ((r, fm'), log) ->
      fm_exact c fs fm' /\
      conforms r match (match vt ++ split_path_info p0 with
                        | [] => Some None
                        | seg :: segs => if text_eqb (spec_view_name seg) (c_name c)
                                         then (if forallb seg_ok segs then Some (Some segs) else Some None)
                                         else Some None
                        end) with
                 | None => SReject
                 | Some None => S404
                 | Some (Some segs) => spec_tail c rq fs (Some p0) segs
                 end = true).
    { intros vt E. destruct (vt ++ split_path_info p0) as [|seg rest].
      { unfold ret in E. injection E as <- <- _. split; [assumption|reflexivity]. }
      rewrite view_name_eq in E. destruct (text_eqb (spec_view_name seg) (c_name c)).
      + pose proof (serve_conform c rq _ fs fm _ p0 r fm' log Hwf Hroot Hhost Hfm Hdec E) as [H1 H2].
        split; [assumption|]. refine (eq_trans (f_equal (conforms r) (tail_or_404_eq c rq fs p0 _)) H2).
      + unfold ret in E. injection E as <- <- _. split; [assumption|reflexivity]. }
    unfold vroot_tuple in H. destruct (c_vroot c) as [v|].
    + destruct (decode v) as [u|]; [|apply (Hrej 2); auto].
      change (split_path_info_f u) with (split_path_info u) in H. exact (Htail _ H).
    + exact (Htail [] H).
  - (* 6: route with a '{subpath}' placeholder, default regex *)
    cbv iota in H. cbv iota.
    destruct (decode (unquote (r_raw rq))) as [p0|] eqn:Hdec; [|apply (Hrej 1); auto].
    unfold route_match_seg, segment_capture in H. cbv beta iota in H. cbv beta iota.
    destruct (strip_prefix _ _) as [rest|].
    2:{ unfold ret in H. injection H as <- <- _. split; [assumption|reflexivity]. }
    destruct rest as [|x rest'].
    { unfold ret in H. injection H as <- <- _. split; [assumption|reflexivity]. }
    cbv iota in H. cbv iota. destruct (memN slash (x :: rest')).
    { unfold ret in H. injection H as <- <- _. split; [assumption|reflexivity]. }
    change (traverser_tuple (x :: rest')) with (@Datatypes.inr resp _ (split_path_info (x :: rest'))) in H. cbv iota in H.
    pose proof (serve_conform c rq _ fs fm _ p0 r fm' log Hwf Hroot Hhost Hfm Hdec H) as [H1 H2].
    split; [assumption|]. refine (eq_trans (f_equal (conforms r) (tail_or_404_eq c rq fs p0 _)) H2).
  - (* 4: route with a '{subpath:.*}' placeholder *)
    cbv iota in H. cbv iota.
    destruct (decode (unquote (r_raw rq))) as [p0|] eqn:Hdec; [|apply (Hrej 1); auto].
    unfold route_match_ph, placeholder_capture, capture in H. change route_anchor_abs with true in H.
    unfold nl in H. cbv beta iota in H. cbv beta iota.
    destruct (strip_prefix _ _) as [rest|].
    2:{ unfold ret in H. injection H as <- <- _. split; [assumption|reflexivity]. }
    destruct (memN 10 rest).
    { unfold ret in H. injection H as <- <- _. split; [assumption|reflexivity]. }
    change (traverser_tuple rest) with (@Datatypes.inr resp _ (split_path_info rest)) in H. cbv iota in H.
    pose proof (serve_conform c rq _ fs fm _ p0 r fm' log Hwf Hroot Hhost Hfm Hdec H) as [H1 H2].
    split; [assumption|]. refine (eq_trans (f_equal (conforms r) (tail_or_404_eq c rq fs p0 _)) H2).
  - (* 2: plain view on PATH_INFO *)
    unfold serve_path_info in H. rewrite view_tuple_val in H.
    destruct (decode (unquote (r_raw rq))) as [p0|] eqn:Hdec; [|apply (Hrej 2); auto].
    cbn [strip_prefix]. rewrite spi_default.
    pose proof (serve_conform c rq _ fs fm _ p0 r fm' log Hwf Hroot Hhost Hfm Hdec H) as [H1 H2].
    split; [assumption|]. refine (eq_trans (f_equal (conforms r) (tail_or_404_eq c rq fs p0 _)) H2).
  - (* 1: catch-all route *)
    destruct (decode (unquote (r_raw rq))) as [p0|] eqn:Hdec; [|apply (Hrej 1); auto].
    change (text_eqb subpath_key traverser_subpath_key) with true in H. cbv iota in H.
    pose proof (routed_conform c rq fs fm _ p0 r fm' log Hwf Hroot Hhost Hfm Hdec H) as [H1 H2].
    split; [assumption|]. cbv beta iota. cbv beta iota in H2. revert H2.
    destruct (strip_prefix _ _); try exact (fun x => x).
    intros x. refine (eq_trans (f_equal (conforms r) (tail_or_404_eq c rq fs p0 _)) x).
Qed.

(* the virtual-root gate of the model is the gate of the specification *)
Lemma vroot_gate_spec c :
  vroot_gate c = match c_vroot c with
                 | None => Datatypes.inr GPass
                 | Some v => match decode v with
                             | None => Datatypes.inl (RExc 2)
                             | Some u => match split_path_info u with
                                         | [] => Datatypes.inr GPass
                                         | seg :: rest => Datatypes.inr (if empty_text (spec_view_name seg)
                                                                         then GOverride rest else GNoView)
                                         end
                             end
                 end.
Proof.
  unfold vroot_gate, spec_gate, vroot_tuple. destruct (c_vroot c) as [v|]; [|reflexivity].
  destruct (decode v) as [u|]; [|reflexivity]. change (split_path_info_f u) with (split_path_info u).
  destruct (split_path_info u) as [|seg rest]; [reflexivity|]. rewrite view_name_eq. reflexivity.
Qed.

Theorem request_conform c fs fm rq r fm' log :
  wf c -> root_is_dir c fs -> host_ok c -> fm_exact c fs fm ->
  decodable c rq ->
  run_request c fs fm rq = ((r, fm'), log) ->
  fm_exact c fs fm' /\ conforms r (spec_response c rq fs) = true.
Proof.
  intros Hwf Hroot Hhost Hfm Hmd H. unfold run_request in H. unfold spec_response.
  destruct (routed_by_route (c_mount c)); [|eapply request_conform_core; eassumption].
  destruct (decode (unquote (r_raw rq))) as [p0|]; [|eapply request_conform_core; eassumption].
  rewrite vroot_gate_spec in H. unfold spec_gate. destruct (c_vroot c) as [v|]; [|eapply request_conform_core; eassumption].
  destruct (decode v) as [u|].
  2:{ unfold ret in H. injection H as <- <- _. split; [assumption|reflexivity]. }
  destruct (split_path_info u) as [|seg rest]; [eapply request_conform_core; eassumption|].
  destruct (empty_text (spec_view_name seg)).
  - (* the bare selector: the specification is silent; the filemap stays exact *)
    split; [|reflexivity]. destruct (route_matches c p0).
    + destruct (serve_val _ _ _ _ _ _ _ _ _ Hfm H) as [Hx _]. exact Hx.
    + unfold ret in H. injection H as _ <- _. assumption.
  - unfold ret in H. injection H as <- <- _. split; [assumption|reflexivity].
Qed.

(* ------------------------------------------------------------ request sequences: conformance and filemap transparency *)
Lemma run_requests_conform c fs rqs : forall fm,
  wf c -> root_is_dir c fs -> host_ok c -> fm_exact c fs fm -> Forall (decodable c) rqs ->
  Forall (fun x => conforms (fst (snd x)) (spec_response c (fst x) fs) = true)
         (combine rqs (run_requests c fs fm rqs)).
Proof.
  induction rqs as [|rq rqs IH]; intros fm Hwf Hroot Hhost Hfm Hd; [constructor|].
  inversion Hd as [|? ? Hd1 Hdr]; subst. cbn [run_requests].
  destruct (run_request c fs fm rq) as [[r fm'] log] eqn:E.
  destruct (request_conform c fs fm rq r fm' log Hwf Hroot Hhost Hfm Hd1 E) as [Hfm' Hc].
  cbn [combine]. constructor; [exact Hc|]. apply IH; assumption.
Qed.

Theorem serves_designated_file c fs rqs :
  wf c -> root_is_dir c fs -> host_ok c -> Forall (decodable c) rqs ->
  Forall (fun x => conforms (fst (snd x)) (spec_response c (fst x) fs) = true)
         (combine rqs (run_model c fs rqs)).
Proof. intros. apply run_requests_conform; try assumption. apply fm_exact_nil. Qed.

(* the answer does not depend on what the filemap holds, as long as it holds what was computed
   from this file system *)
Lemma serve_indep c rq pi fs fm t :
  fm_exact c fs fm ->
  fst (fst (serve c rq pi fs fm t)) = fst (fst (serve c rq pi fs [] t)) /\
  fm_exact c fs (snd (fst (serve c rq pi fs fm t))).
Proof.
  intros Hfm.
  destruct (serve c rq pi fs fm t) as [[r1 fm1] l1] eqn:E1.
  destruct (serve c rq pi fs [] t) as [[r2 fm2] l2] eqn:E2.
  destruct (serve_val _ _ _ _ _ _ _ _ _ Hfm E1) as [H1 ->].
  destruct (serve_val _ _ _ _ _ _ _ _ _ (fm_exact_nil c fs) E2) as [_ ->]. split; [reflexivity|assumption].
Qed.

Lemma run_request_core_indep c fs fm rq :
  fm_exact c fs fm ->
  fst (fst (run_request_core c fs fm rq)) = fst (fst (run_request_core c fs [] rq)) /\
  fm_exact c fs (snd (fst (run_request_core c fs fm rq))).
Proof.
  intros Hfm. unfold run_request_core, serve_path_info.
  destruct (c_mount c) as [|[[q|[q|q|]|]|[[q|q|]|[q|q|]|]|]]; try (apply serve_indep; assumption).
  - destruct (decode _); [|split; [reflexivity|assumption]].
    destruct (route_match _ _); [|split; [reflexivity|assumption]].
    destruct static_use_subpath; [apply serve_indep; assumption|].
    destruct (view_tuple _); [split; [reflexivity|assumption]|apply serve_indep; assumption].
  - cbv iota. destruct (decode _); [|split; [reflexivity|assumption]].
    destruct (vroot_tuple c) as [r0|vt]; [split; [reflexivity|assumption]|].
    destruct (vt ++ split_path_info_f _); [split; [reflexivity|assumption]|].
    destruct (text_eqb _ _); [apply serve_indep; assumption|split; [reflexivity|assumption]].
  - cbv iota. destruct (decode _); [|split; [reflexivity|assumption]].
    destruct (route_match_seg _ _) as [rest|]; [|split; [reflexivity|assumption]].
    destruct (traverser_tuple rest); [split; [reflexivity|assumption]|apply serve_indep; assumption].
  - cbv iota. destruct (decode _); [|split; [reflexivity|assumption]].
    destruct (route_match_ph _ _) as [rest|]; [|split; [reflexivity|assumption]].
    destruct (traverser_tuple rest); [split; [reflexivity|assumption]|apply serve_indep; assumption].
  - destruct (view_tuple _); [split; [reflexivity|assumption]|apply serve_indep; assumption].
  - destruct (decode _); [|split; [reflexivity|assumption]].
    destruct (route_match _ _); [|split; [reflexivity|assumption]].
    apply serve_indep; assumption.
Qed.

Lemma run_request_indep c fs fm rq :
  fm_exact c fs fm ->
  fst (fst (run_request c fs fm rq)) = fst (fst (run_request c fs [] rq)) /\
  fm_exact c fs (snd (fst (run_request c fs fm rq))).
Proof.
  intros Hfm. unfold run_request.
  destruct (routed_by_route _); [|apply run_request_core_indep; assumption].
  destruct (decode _) as [p0|]; [|apply run_request_core_indep; assumption].
  destruct (vroot_gate c) as [r|[| |t0]];
    [split; [reflexivity|assumption]|apply run_request_core_indep; assumption|split; [reflexivity|assumption]|].
  destruct (route_matches c p0); [apply serve_indep; assumption|split; [reflexivity|assumption]].
Qed.

Theorem filemap_transparent c fs rqs : forall fm,
  fm_exact c fs fm ->
  map fst (run_requests c fs fm rqs) = map (fun rq => fst (fst (run_request c fs [] rq))) rqs.
Proof.
  induction rqs as [|rq rqs IH]; intros fm Hfm; [reflexivity|].
  cbn [run_requests map]. destruct (run_request_indep c fs fm rq Hfm) as [E Hfm'].
  destruct (run_request c fs fm rq) as [[r fm'] log]. cbn [fst snd map] in *. rewrite E. f_equal. apply IH. assumption.
Qed.

(* ------------------------------------------------------------ the served variant, any history *)
(* what C16_variant_acceptable says of a 200 answer, as a predicate of the response *)
Definition variant_ok (c : config) (fs : fsys) (rq : request) (r : resp) : Prop :=
  forall body enc vary, r = R200 body enc vary ->
  exists name p,
    let keyed := fst (sizes fs (fst (probe c fs (candidates c name)))) in
    spec_acceptable rq enc = true /\
    (exists sz, fs_stat fs p = Some (EFile sz body)) /\
    exists k, In (k, (p, enc)) keyed /\ k = entry_size (fs_stat fs p) /\
      forall k' f', In (k', f') keyed -> spec_acceptable rq (snd f') = true -> k <= k'.

Lemma serve_variant_ok c rq pi fs fm t :
  fm_exact c fs fm -> variant_ok c fs rq (fst (fst (serve c rq pi fs fm t))).
Proof.
  intros Hfm body enc vary E. destruct (serve_indep c rq pi fs fm t Hfm) as [Ei _]. rewrite Ei in E.
  destruct (serve c rq pi fs [] t) as [[r2 fm2] l2] eqn:E2. cbn [fst] in E. subst r2.
  exact (variant_acceptable c rq pi fs t body enc vary fm2 l2 E2).
Qed.

Lemma not200_variant_ok c fs rq r : (forall b e v, r <> R200 b e v) -> variant_ok c fs rq r.
Proof. intros H b e v E. exfalso. exact (H b e v E). Qed.

Lemma run_request_core_variant_ok c fs fm rq :
  fm_exact c fs fm -> variant_ok c fs rq (fst (fst (run_request_core c fs fm rq))).
Proof.
  intros Hfm. unfold run_request_core, serve_path_info.
  assert (Hexc : forall k, variant_ok c fs rq (fst (fst (ret (RExc k, fm))))).
  { intros k. apply not200_variant_ok. intros b e v. discriminate. }
  assert (H404 : forall k, variant_ok c fs rq (fst (fst (ret (R404 k, fm))))).
  { intros k. apply not200_variant_ok. intros b e v. discriminate. }
  assert (Hvt : forall pi, variant_ok c fs rq (fst (fst (match view_tuple pi with
                 | Datatypes.inl r => ret (r, fm) | Datatypes.inr t => serve c rq pi fs fm t end)))).
  { intros pi. unfold view_tuple. destruct (decode pi); [|apply Hexc].
    destruct view_decodes_again; [|apply serve_variant_ok; assumption].
    destruct (latin1 _); [|apply Hexc]. destruct (decode _); [apply serve_variant_ok; assumption|apply Hexc]. }
  destruct (c_mount c) as [|[[q|[q|q|]|]|[[q|q|]|[q|q|]|]|]]; try (apply serve_variant_ok; assumption).
  - destruct (decode _); [|apply Hexc]. destruct (route_match _ _); [|apply H404].
    destruct static_use_subpath; [apply serve_variant_ok; assumption|apply Hvt].
  - cbv iota. destruct (decode _); [|apply Hexc].
    assert (Htail : forall vt pp, variant_ok c fs rq (fst (fst (
              match vt ++ split_path_info_f pp with
              | [] => ret (R404 0, fm)
              | seg :: rest => if text_eqb (traversal_view_name seg) (c_name c)
                               then serve c rq (unquote (r_raw rq)) fs fm rest else ret (R404 0, fm)
              end)))).
    { intros vt pp. destruct (vt ++ split_path_info_f pp); [apply H404|].
      destruct (text_eqb _ _); [apply serve_variant_ok; assumption|apply H404]. }
    unfold vroot_tuple. destruct (c_vroot c) as [v|]; [|apply Htail].
    destruct (decode v); [apply Htail|apply Hexc].
  - cbv iota. destruct (decode _); [|apply Hexc]. destruct (route_match_seg _ _) as [rest|]; [|apply H404].
    unfold traverser_tuple. destruct traverser_str_decodes_again; [|apply serve_variant_ok; assumption].
    destruct (latin1 _); [|apply Hexc]. destruct (decode _); [apply serve_variant_ok; assumption|apply Hexc].
  - cbv iota. destruct (decode _); [|apply Hexc]. destruct (route_match_ph _ _) as [rest|]; [|apply H404].
    unfold traverser_tuple. destruct traverser_str_decodes_again; [|apply serve_variant_ok; assumption].
    destruct (latin1 _); [|apply Hexc]. destruct (decode _); [apply serve_variant_ok; assumption|apply Hexc].
  - apply Hvt.
  - destruct (decode _); [|apply Hexc]. destruct (route_match _ _); [|apply H404].
    apply serve_variant_ok; assumption.
Qed.

Lemma run_request_variant_ok c fs fm rq :
  fm_exact c fs fm -> variant_ok c fs rq (fst (fst (run_request c fs fm rq))).
Proof.
  intros Hfm. destruct (run_request_cases c fs fm rq) as [E|[(r0 & E & Hr)|(t & E)]]; rewrite E.
  - apply run_request_core_variant_ok. assumption.
  - apply not200_variant_ok. intros b e v. cbn [ret fst]. destruct Hr as [-> | ->]; discriminate.
  - apply serve_variant_ok. assumption.
Qed.

(* every 200 answer of a request sequence handled by one view instance -- whatever the filemap holds from earlier
   requests -- is the content of an existing file, labelled with that file's encoding, acceptable to the client of
   THIS request, and no acceptable existing candidate is smaller *)
Theorem variant_acceptable_history c fs rqs : forall fm,
  fm_exact c fs fm ->
  Forall (fun x => variant_ok c fs (fst x) (fst (snd x))) (combine rqs (run_requests c fs fm rqs)).
Proof.
  induction rqs as [|rq rqs IH]; intros fm Hfm; [constructor|].
  cbn [run_requests]. pose proof (run_request_variant_ok c fs fm rq Hfm) as Hv.
  destruct (run_request_indep c fs fm rq Hfm) as [_ Hfm'].
  destruct (run_request c fs fm rq) as [[r fm'] log]. cbn [fst snd combine] in *.
  constructor; [exact Hv|apply IH; exact Hfm'].
Qed.

Lemma variant_acceptable_fresh c fs rqs :
  Forall (fun x => variant_ok c fs (fst x) (fst (snd x))) (combine rqs (run_model c fs rqs)).
Proof. apply variant_acceptable_history. apply fm_exact_nil. Qed.

(* ------------------------------------------------------------ containment for both kinds of root *)
Lemma probe_ok_g c fs cands found log :
  Forall (fun ne => beneath (spec_root c) (os_path c (fst ne)) = true) cands ->
  probe c fs cands = (found, log) -> paths_ok c found /\ contained c log = true.
Proof.
  revert found log. induction cands as [|[n e] r IH]; intros found log Hc H.
  - cbn in H. injection H as <- <-. split; [constructor|reflexivity].
  - inversion Hc as [|? ? Hn Hr]; subst. cbn [fst] in Hn.
    cbn [probe] in H. unfold bind, stat, ret in H.
    destruct (probe c fs r) as [found' log'] eqn:E. specialize (IH _ _ Hr eq_refl). destruct IH as [IH1 IH2].
    injection H as <- <-. split.
    + destruct (exists_ (fs_stat fs (os_path c n))); [constructor; assumption|assumption].
    + rewrite app_nil_r. cbn [app]. unfold contained in *. cbn [forallb snd]. rewrite Hn, IH2. reflexivity.
Qed.

Lemma compute_files_ok_g c fs name T files log :
  wf c -> names c fs name T -> compute_files c fs name = (files, log) ->
  paths_ok c files /\ contained c log = true.
Proof.
  intros Hwf Hn H. unfold compute_files, bind, ret in H.
  destruct (probe c fs (candidates c name)) as [found l1] eqn:E1.
  destruct (sizes fs found) as [keyed l2] eqn:E2. injection H as <- <-.
  assert (Hc : Forall (fun ne => beneath (spec_root c) (os_path c (fst ne)) = true) (candidates c name)).
  { destruct Hn as (_ & _ & _ & Hn). apply Forall_forall. intros [n e] Hin. cbn [fst]. apply candidates_iff in Hin.
    destruct Hin as [[-> ->] | (ext & e' & -> & -> & Hv)].
    - destruct (Hn [] ltac:(intros []) ltac:(intros [])) as [Hb _]. rewrite app_nil_r in Hb. exact Hb.
    - destruct (ext_ok c ext e' Hwf Hv) as [He Hez]. exact (proj1 (Hn ext He Hez)). }
  destruct (probe_ok_g c fs _ _ _ Hc E1) as [Hf Hl1].
  destruct (sizes_ok c fs _ _ _ Hf E2) as [Hk Hl2]. split.
  - apply paths_ok_sort. assumption.
  - rewrite app_nil_r, contained_app, Hl1, Hl2. reflexivity.
Qed.

Lemma possible_files_ok_g c fs fm name T files fm' log :
  wf c -> names c fs name T -> fm_ok c fm ->
  possible_files c fs fm name = ((files, fm'), log) ->
  paths_ok c files /\ fm_ok c fm' /\ contained c log = true.
Proof.
  intros Hwf Hn Hfm H. unfold possible_files in H. destruct (fm_get fm name) as [cached|] eqn:E.
  - unfold ret in H. injection H as <- <- <-. repeat split; [eapply Hfm; eassumption|assumption].
  - unfold bind, ret in H. destruct (compute_files c fs name) as [fl l1] eqn:E1.
    injection H as <- <- <-. destruct (compute_files_ok_g c fs name T _ _ Hwf Hn E1) as [Hp Hl].
    repeat split; [assumption| |rewrite app_nil_r; assumption].
    destruct (c_reload c); [assumption|].
    intros n fl' Hget. cbn [fm_get] in Hget. destruct (text_eqb n name).
    + injection Hget as <-. assumption.
    + eapply Hfm; eassumption.
Qed.

Lemma serve_contained_g c rq pi fs fm t r fm' log :
  wf c -> root_is_dir c fs -> fm_ok c fm ->
  serve c rq pi fs fm t = ((r, fm'), log) -> contained c log = true /\ fm_ok c fm'.
Proof.
  intros Hwf Hroot Hfm H. unfold serve in H.
  assert (Hname : forall name T l1, names c fs name T -> contained c l1 = true ->
            bind (RNName name, l1) (fun rn =>
              match rn with
              | RNResp r0 => ret (r0, fm)
              | RNName name =>
                  bind (possible_files c fs fm name) (fun ff =>
                    let files := fst ff in
                    match best_match rq files with
                    | None => ret (with_url c pi (R404 2), snd ff)
                    | Some (p, enc) =>
                        bind (file_response fs p enc (Nat.ltb 1 (length files))) (fun r1 => ret (r1, snd ff))
                    end)
              end) = ((r, fm'), log) -> contained c log = true /\ fm_ok c fm').
  { intros name T l1 Hn Hl1 E. unfold bind at 1 in E.
    unfold bind at 1 in E.
    destruct (possible_files c fs fm name) as [[files fm1] l2] eqn:E2.
    destruct (possible_files_ok_g c fs fm name T files fm1 l2 Hwf Hn Hfm E2) as (Hp & Hfm1 & Hl2).
    cbn [fst snd] in E. destruct (best_match rq files) as [[p enc]|] eqn:E3.
    + unfold bind in E. destruct (file_response fs p enc (Nat.ltb 1 (length files))) as [r1 l3] eqn:E4.
      unfold ret in E. injection E as <- <- <-. split; [|assumption].
      destruct (best_match_in _ _ _ _ E3) as (f & Hf & <-).
      unfold paths_ok in Hp. rewrite Forall_forall in Hp.
      rewrite !contained_app, Hl1, Hl2. cbn [andb contained forallb].
      rewrite andb_true_r. eapply file_response_ok; [apply Hp; eassumption|eassumption].
    + unfold ret in E. injection E as <- <- <-. split; [|assumption].
      rewrite !contained_app, Hl1, Hl2. reflexivity. }
  destruct (forallb seg_ok t) eqn:Hok.
  - destruct (grn_names c rq pi fs t Hwf Hok) as (iname & nname & lg & E & Hlg & Hni & Hnn). rewrite E in H.
    destruct (is_dir (walk fs [] (spec_root c ++ t))) eqn:Hd.
    + unfold dir_or_redirect in H. destruct (path_url c pi) as [u|].
      * destruct (endswith url_dir_suffix u).
        -- eapply Hname; eassumption.
        -- unfold bind, ret in H. injection H as <- <- <-. rewrite app_nil_r. split; assumption.
      * unfold bind, ret in H. injection H as <- <- <-. rewrite app_nil_r. split; assumption.
    + assert (Hne : t <> []).
      { intros ->. rewrite app_nil_r in Hd. unfold root_is_dir in Hroot. congruence. }
      eapply Hname; [exact (Hnn Hne)|exact Hlg|exact H].
  - unfold get_resource_name in H. rewrite (secure_bad t Hok) in H. unfold bind, ret in H.
    injection H as <- <- <-. split; [reflexivity|assumption].
Qed.

Lemma run_request_core_contained_g c fs fm rq r fm' log :
  wf c -> root_is_dir c fs -> fm_ok c fm ->
  run_request_core c fs fm rq = ((r, fm'), log) -> contained c log = true /\ fm_ok c fm'.
Proof.
  intros Hwf Hroot Hfm H. unfold run_request_core, serve_path_info in H.
  assert (Hret : forall r0, ret (r0, fm) = ((r, fm'), log) -> contained c log = true /\ fm_ok c fm').
  { intros r0 E. unfold ret in E. injection E as <- <- <-. split; [reflexivity|assumption]. }
  destruct (c_mount c) as [|[[q|[q|q|]|]|[[q|q|]|[q|q|]|]|]]; try (eapply serve_contained_g; eassumption).
  - destruct (decode (unquote (r_raw rq))) as [p0|]; [|eapply Hret; eassumption].
    destruct (route_match _ _) as [rest|]; [|eapply Hret; eassumption].
    destruct static_use_subpath; [eapply serve_contained_g; eassumption|].
    destruct (view_tuple _); [eapply Hret; eassumption|eapply serve_contained_g; eassumption].
  - cbv iota in H. destruct (decode (unquote (r_raw rq))) as [p0|]; [|eapply Hret; eassumption].
    destruct (vroot_tuple c) as [r0|vt]; [eapply Hret; eassumption|].
    destruct (vt ++ split_path_info_f _) as [|seg rest]; [eapply Hret; eassumption|].
    destruct (text_eqb _ _); [eapply serve_contained_g; eassumption|eapply Hret; eassumption].
  - cbv iota in H. destruct (decode (unquote (r_raw rq))) as [p0|]; [|eapply Hret; eassumption].
    destruct (route_match_seg _ _) as [rest|]; [|eapply Hret; eassumption].
    destruct (traverser_tuple rest) as [r0|t]; [eapply Hret; eassumption|eapply serve_contained_g; eassumption].
  - cbv iota in H. destruct (decode (unquote (r_raw rq))) as [p0|]; [|eapply Hret; eassumption].
    destruct (route_match_ph _ _) as [rest|]; [|eapply Hret; eassumption].
    destruct (traverser_tuple rest) as [r0|t]; [eapply Hret; eassumption|eapply serve_contained_g; eassumption].
  - destruct (view_tuple _); [eapply Hret; eassumption|eapply serve_contained_g; eassumption].
  - destruct (decode (unquote (r_raw rq))) as [p0|]; [|eapply Hret; eassumption].
    destruct (route_match _ _) as [rest|]; [|eapply Hret; eassumption].
    eapply serve_contained_g; eassumption.
Qed.

Lemma run_request_contained_g c fs fm rq r fm' log :
  wf c -> root_is_dir c fs -> fm_ok c fm ->
  run_request c fs fm rq = ((r, fm'), log) -> contained c log = true /\ fm_ok c fm'.
Proof.
  intros Hwf Hroot Hfm H. destruct (run_request_cases c fs fm rq) as [E|[(r0 & E & _)|(t & E)]]; rewrite E in H.
  - eapply run_request_core_contained_g; eassumption.
  - unfold ret in H. injection H as <- <- <-. split; [reflexivity|assumption].
  - eapply serve_contained_g; eassumption.
Qed.

Lemma run_requests_contained_g c fs rqs : forall fm,
  wf c -> root_is_dir c fs -> fm_ok c fm ->
  Forall (fun rl => contained c (snd rl) = true) (run_requests c fs fm rqs).
Proof.
  induction rqs as [|rq rqs IH]; intros fm Hwf Hroot Hfm; [constructor|].
  cbn [run_requests]. destruct (run_request c fs fm rq) as [[r fm'] log] eqn:E.
  destruct (run_request_contained_g c fs fm rq r fm' log Hwf Hroot Hfm E) as [Hl Hfm'].
  constructor; [exact Hl|apply IH; assumption].
Qed.

Theorem containment c fs rqs :
  wf c -> root_is_dir c fs -> Forall (fun rl => contained c (snd rl) = true) (run_model c fs rqs).
Proof. intros. apply run_requests_contained_g; [assumption|assumption|apply fm_ok_nil]. Qed.

(* ------------------------------------------------------------ examples *)
(* package root: module directory "/m", docroot "s/" (trailing slash), index "i" *)
Definition ex_pkg (mount : N) : config :=
  mkConfig mount [115] true [115; 47] [47; 109] [105] [[103]] [([46; 103], [103])] [104] [47] false None.
Definition ex_pkg_fs : fsys :=
  [ ([[109]], EDir 0); ([[109]; [115]], EDir 0); ([[109]; [115]; [105]], EFile 2 [4; 5]);
    ([[109]; [111]], EFile 1 [8]) ].

Lemma ex_pkg_wf mount : mount <> 0 -> wf (ex_pkg mount).
Proof.
  intros Hm. right. unfold wf_pkg. cbn [c_pkg c_docroot c_modpath c_encmap ex_pkg].
  assert (Hi : eff_index (ex_pkg mount) = [105]).
  { unfold eff_index. cbn [c_mount ex_pkg c_index]. destruct mount; [congruence|reflexivity]. }
  rewrite Hi. split; [reflexivity|]. split.
  - exists 1%nat, [[109]]. split; [left; reflexivity|].
    split; [constructor; [apply normal_segb_spec; reflexivity|constructor]|].
    split; [constructor; [apply notin_b; reflexivity|constructor]|reflexivity].
  - split.
    + cbn. constructor; [right; split; [apply normal_segb_spec; reflexivity|apply notin_b; reflexivity]|].
      constructor; [left; reflexivity|constructor].
    + split; [apply normal_segb_spec; reflexivity|]. split; [apply notin_b; reflexivity|].
      constructor; [|constructor]. cbn [fst]. split; apply notin_b; reflexivity.
Qed.

(* "/../o" on the package root: "/m/s/o" is probed (never "/m/o"); "/" serves the index *)
Example pkg_nonvacuous :
  let c := ex_pkg 1 in
  wf c /\ root_is_dir c ex_pkg_fs /\ host_ok c /\
  exists l1 l2,
    run_model c ex_pkg_fs [mkReq [47; 46; 46; 47; 111] [] [] false []; mkReq [47] [] [] false []] =
      [(R404 2, l1); (R200 [4; 5] None false, l2)] /\
    contained c l1 = true /\ contained c l2 = true /\ l1 <> [].
Proof.
  split; [apply ex_pkg_wf; discriminate|]. split; [vm_compute; reflexivity|]. split; [split; reflexivity|].
  eexists. eexists. split; [vm_compute; reflexivity|]. repeat split; try (vm_compute; reflexivity). discriminate.
Qed.

(* conformance is not vacuous: the directory without a trailing slash is redirected, as the specification says *)
Example conform_nonvacuous :
  let c := ex_cfg 1 [47; 114] in
  let rq := mkReq [47; 46; 47] [] [113] false [] in
  wf c /\ root_is_dir c ex_fs /\ host_ok c /\ decodable c rq /\
  spec_response c rq ex_fs = spec_serve c rq ex_fs [[114]; [105]] /\
  spec_response c (mkReq [] [] [113] false []) ex_fs = S301 [104; 47; 63; 113].
Proof.
  split; [left; apply ex_wf; [discriminate|reflexivity|reflexivity]|]. split; [vm_compute; reflexivity|].
  split; [split; reflexivity|]. split; [left; right; left; reflexivity|]. split; vm_compute; reflexivity.
Qed.

(* ------------------------------------------------------------ several view instances in one process *)
Lemma nth_set_nth_other {A} (l : list A) : forall i k x d, k <> i -> nth k (set_nth i x l) d = nth k l d.
Proof.
  induction l as [|y r IH]; intros i k x d Hne.
  - destruct i; reflexivity.
  - destruct i as [|i]; destruct k as [|k]; cbn [set_nth nth]; try reflexivity; [congruence|].
    apply IH. congruence.
Qed.

Lemma nth_set_nth_same {A} (l : list A) : forall i x d,
  nth i (set_nth i x l) d = x \/ nth i (set_nth i x l) d = nth i l d.
Proof.
  induction l as [|y r IH]; intros i x d.
  - right. destruct i; reflexivity.
  - destruct i as [|i]; cbn [set_nth nth]; [left; reflexivity|apply IH].
Qed.

(* every instance's filemap holds exactly what would be recomputed for ITS configuration *)
Definition fms_exact (cs : list config) (fs : fsys) (fms : list filemap) : Prop :=
  forall i, fm_exact (nth i cs dflt_cfg) fs (nth i fms []).

Lemma nth_const {A B} (l : list A) (d : B) : forall i, nth i (map (fun _ => d) l) d = d.
Proof. induction l as [|a l IH]; intros i; destruct i; cbn [map nth]; try reflexivity. apply IH. Qed.

Lemma fm_exact_eq_nil c fs fm : fm = [] -> fm_exact c fs fm.
Proof. intros ->. apply fm_exact_nil. Qed.

Lemma fms_exact_fresh cs fs : fms_exact cs fs (map (fun _ => []) cs).
Proof. intros i. apply fm_exact_eq_nil. apply nth_const. Qed.

Lemma fms_exact_update cs fs fms i fm' :
  fms_exact cs fs fms -> fm_exact (nth i cs dflt_cfg) fs fm' -> fms_exact cs fs (set_nth i fm' fms).
Proof.
  intros H Hfm k. destruct (Nat.eq_dec k i) as [->|Hne].
  - destruct (nth_set_nth_same fms i fm' []) as [E|E]; rewrite E; [assumption|apply H].
  - rewrite nth_set_nth_other by assumption. apply H.
Qed.

(* each answer of interleaved request sequences over any number of view instances equals the
   answer a fresh, lone instance with that configuration gives to that request: no instance is
   influenced by what any other instance (or itself, earlier) has served *)
Theorem multi_transparent cs fs rqs : forall fms,
  fms_exact cs fs fms ->
  map fst (run_multi cs fs fms rqs) =
  map (fun ir => fst (fst (run_request (nth (fst ir) cs dflt_cfg) fs [] (snd ir)))) rqs.
Proof.
  induction rqs as [|[i rq] rqs IH]; intros fms Hfms; [reflexivity|].
  cbn [run_multi map fst snd]. change filemap_per_instance with true. cbv iota.
  destruct (run_request_indep (nth i cs dflt_cfg) fs (nth i fms []) rq (Hfms i)) as [E Hfm'].
  destruct (run_request (nth i cs dflt_cfg) fs (nth i fms []) rq) as [[r fm'] log]. cbn [fst snd map] in *.
  rewrite E. f_equal. apply IH. apply fms_exact_update; assumption.
Qed.

Corollary multi_transparent_fresh cs fs rqs :
  map fst (run_multi_model cs fs rqs) =
  map (fun ir => fst (fst (run_request (nth (fst ir) cs dflt_cfg) fs [] (snd ir)))) rqs.
Proof. apply multi_transparent. apply fms_exact_fresh. Qed.

(* one instance: the multi-instance runner is the single-instance one *)
Lemma run_multi_single c fs rqs : forall fm,
  run_multi [c] fs [fm] (map (pair O) rqs) = run_requests c fs fm rqs.
Proof.
  induction rqs as [|rq rqs IH]; intros fm; [reflexivity|].
  cbn [map run_multi run_requests nth]. change filemap_per_instance with true. cbv iota. cbn [nth].
  destruct (run_request c fs fm rq) as [[r fm'] log]. cbn [set_nth]. f_equal. apply IH.
Qed.

Lemma run_multi_cons cs fs fms i rq rqs r fm' log :
  run_request (nth i cs dflt_cfg) fs (nth i fms []) rq = ((r, fm'), log) ->
  run_multi cs fs fms ((i, rq) :: rqs) = (r, log) :: run_multi cs fs (set_nth i fm' fms) rqs.
Proof.
  intros E. cbn [run_multi]. change filemap_per_instance with true. cbv iota.
  change (let '(res, fm'0, log0) := run_request (nth i cs dflt_cfg) fs (nth i fms []) rq in
          (res, log0) :: run_multi cs fs (set_nth i fm'0 fms) rqs) with
         (match run_request (nth i cs dflt_cfg) fs (nth i fms []) rq with
          | ((res, fm'0), log0) => (res, log0) :: run_multi cs fs (set_nth i fm'0 fms) rqs end).
  rewrite E. reflexivity.
Qed.

(* conformance and containment for every instance, each against its own configuration *)
Theorem multi_conform cs fs rqs :
  (forall i, wf (nth i cs dflt_cfg) /\ root_is_dir (nth i cs dflt_cfg) fs /\ host_ok (nth i cs dflt_cfg)) ->
  Forall (fun ir => decodable (nth (fst ir) cs dflt_cfg) (snd ir)) rqs ->
  Forall (fun x => conforms (fst (snd x)) (spec_response (nth (fst (fst x)) cs dflt_cfg) (snd (fst x)) fs) = true)
         (combine rqs (run_multi_model cs fs rqs)).
Proof.
  intros Hc. unfold run_multi_model. generalize (fms_exact_fresh cs fs). generalize (map (fun _ : config => @nil (text * list cand)) cs).
  induction rqs as [|[i rq] rqs IH]; intros fms Hfms Hd; [constructor|].
  inversion Hd as [|? ? Hd1 Hdr]; subst. cbn [fst snd] in Hd1.
  destruct (run_request (nth i cs dflt_cfg) fs (nth i fms []) rq) as [[r fm'] log] eqn:E.
  destruct (Hc i) as (Hwf & Hroot & Hhost).
  destruct (request_conform _ fs _ rq r fm' log Hwf Hroot Hhost (Hfms i) Hd1 E) as [Hfm' Hconf].
  rewrite (run_multi_cons cs fs fms i rq rqs r fm' log E). cbn [combine]. constructor; [exact Hconf|]. apply IH; [apply fms_exact_update; assumption|assumption].
Qed.

Definition fms_ok (cs : list config) (fms : list filemap) : Prop :=
  forall i, fm_ok (nth i cs dflt_cfg) (nth i fms []).

Lemma fm_ok_eq_nil c fm : fm = [] -> fm_ok c fm.
Proof. intros ->. apply fm_ok_nil. Qed.

Lemma fms_ok_update cs fms i fm' :
  fms_ok cs fms -> fm_ok (nth i cs dflt_cfg) fm' -> fms_ok cs (set_nth i fm' fms).
Proof.
  intros H Hfm k. destruct (Nat.eq_dec k i) as [->|Hne].
  - destruct (nth_set_nth_same fms i fm' []) as [E|E]; rewrite E; [assumption|apply H].
  - rewrite nth_set_nth_other by assumption. apply H.
Qed.

Theorem multi_containment cs fs rqs :
  (forall i, wf (nth i cs dflt_cfg) /\ root_is_dir (nth i cs dflt_cfg) fs) ->
  Forall (fun x => contained (nth (fst (fst x)) cs dflt_cfg) (snd (snd x)) = true)
         (combine rqs (run_multi_model cs fs rqs)).
Proof.
  intros Hc. unfold run_multi_model.
  assert (H0 : fms_ok cs (map (fun _ => []) cs)) by (intros i; apply fm_ok_eq_nil; apply nth_const).
  revert H0. generalize (map (fun _ : config => @nil (text * list cand)) cs).
  induction rqs as [|[i rq] rqs IH]; intros fms Hfms; [constructor|].
  destruct (run_request (nth i cs dflt_cfg) fs (nth i fms []) rq) as [[r fm'] log] eqn:E.
  destruct (Hc i) as (Hwf & Hroot).
  destruct (run_request_contained_g _ fs _ rq r fm' log Hwf Hroot (Hfms i) E) as [Hl Hfm'].
  rewrite (run_multi_cons cs fs fms i rq rqs r fm' log E). cbn [combine]. constructor; [exact Hl|].
  apply IH. apply fms_ok_update; assumption.
Qed.

(* several view instances: every 200 answer of any interleaving is a smallest variant acceptable to the client of that
   request, judged against the configuration of the instance that served it *)
Theorem variant_acceptable_multi cs fs rqs : forall fms,
  fms_exact cs fs fms ->
  Forall (fun x => variant_ok (nth (fst (fst x)) cs dflt_cfg) fs (snd (fst x)) (fst (snd x)))
         (combine rqs (run_multi cs fs fms rqs)).
Proof.
  induction rqs as [|[i rq] rqs IH]; intros fms Hfms; [constructor|].
  cbn [run_multi]. change filemap_per_instance with true. cbv iota.
  pose proof (run_request_variant_ok (nth i cs dflt_cfg) fs (nth i fms []) rq (Hfms i)) as Hv.
  destruct (run_request_indep (nth i cs dflt_cfg) fs (nth i fms []) rq (Hfms i)) as [_ Hfm'].
  destruct (run_request (nth i cs dflt_cfg) fs (nth i fms []) rq) as [[r fm'] log]. cbn [fst snd combine] in *.
  constructor; [exact Hv|apply IH; apply fms_exact_update; assumption].
Qed.

Lemma variant_acceptable_multi_fresh cs fs rqs :
  Forall (fun x => variant_ok (nth (fst (fst x)) cs dflt_cfg) fs (snd (fst x)) (fst (snd x)))
         (combine rqs (run_multi_model cs fs rqs)).
Proof. apply variant_acceptable_multi. apply fms_exact_fresh. Qed.

(* non-vacuity of C16_variant_acceptable_history: the second request is answered from the filemap (shorter trace) with the
   variant its own Accept-Encoding allows, although the first client got the identity file *)
Example variant_history_nonvacuous :
  let c := ex_cfg 1 [47; 114] in
  exists l1 l2, run_model c ex_fs [mkReq [47; 102] [] [] false []; mkReq [47; 102] [] [] true [[103]]] =
                  [(R200 [1; 2; 3] None true, l1); (R200 [9] (Some [103]) true, l2)] /\ Nat.ltb (length l2) (length l1) = true.
Proof. eexists. eexists. split; vm_compute; reflexivity. Qed.

(* the two round-5 mountings: "/s/f" on the route '/s/{subpath:.*}' (4) and on a view named "s" found by traversal (5),
   also as "/@@s/f"; the smaller variant is served; "/s/f" + LF is not a URL of the placeholder route *)
Example placeholder_traversal_nonvacuous :
  let rq p := mkReq p [] [] true [[103]] in
  (exists l, run_model (ex_cfg 4 [47; 114]) ex_fs [rq [47; 115; 47; 102]] = [(R200 [9] (Some [103]) true, l)]) /\
  (exists l, run_model (ex_cfg 5 [47; 114]) ex_fs [rq [47; 115; 47; 102]] = [(R200 [9] (Some [103]) true, l)]) /\
  (exists l, run_model (ex_cfg 5 [47; 114]) ex_fs [rq [47; 64; 64; 115; 47; 102]] = [(R200 [9] (Some [103]) true, l)]) /\
  run_model (ex_cfg 4 [47; 114]) ex_fs [rq [47; 115; 47; 102; 37; 48; 65]] = [(R404 0, [])] /\
  run_model (ex_cfg 5 [47; 114]) ex_fs [rq [47; 120; 47; 102]] = [(R404 0, [])].
Proof. repeat split; try eexists; vm_compute; reflexivity. Qed.

(* a virtual root on the route-mounted view: "/x" names a view that does not exist (404, no file access), "/@@" names
   the empty view (served as without the header), an undecodable header is a decoding error *)
Example vroot_routed_nonvacuous :
  let c v := mkConfig 1 [115] false [47; 114] [] [105] [[103]] [([46; 103], [103])] [104] [47] false (Some v) in
  let rq := mkReq [47; 102] [] [] true [[103]] in
  run_model (c [47; 120]) ex_fs [rq] = [(R404 0, [])] /\
  run_model (c [255]) ex_fs [rq] = [(RExc 2, [])] /\
  spec_response (c [47; 120]) rq ex_fs = S404 /\ spec_response (c [255]) rq ex_fs = SReject /\
  (* the bare selector followed by "x": request.subpath is ("x",) whatever the URL says -- 404 here, nothing outside *)
  (exists l, run_model (c [47; 64; 64; 47; 120]) ex_fs [rq] = [(R404 2, l)] /\ contained (c [47; 64; 64; 47; 120]) l = true) /\
  spec_response (c [47; 64; 64]) rq ex_fs = SUnspec.
Proof.
  cbv zeta. split; [vm_compute; reflexivity|]. split; [vm_compute; reflexivity|].
  split; [vm_compute; reflexivity|]. split; [vm_compute; reflexivity|].
  split; [eexists; split; vm_compute; reflexivity|vm_compute; reflexivity].
Qed.

Lemma facts_ok2 : filemap_per_instance = true.
Proof. reflexivity. Qed.
