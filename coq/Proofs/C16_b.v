(* C16 -- package-relative roots, a uniform description of resource names, and
   the conformance / filemap theorems. *)
From Coq Require Import List NArith ZArith PeanoNat Bool Lia Sorting.Sorted.
Import ListNotations.
Require Import Verif.Lib.Wire Verif.Lib.Text Verif.Lib.PathNorm Verif.Lib.Utf8 Verif.Lib.Percent
               Verif.Lib.C16Posix Verif.Gen.Facts_C16 Verif.Model.C16 Verif.Proofs.C16.
Open Scope N_scope.

(* ------------------------------------------------------------ rendered paths with an optional trailing slash *)
Definition plain_piece (s : text) : Prop := s = [] \/ (normal_seg s /\ nonul s).
Definition nonempty (s : text) : bool := match s with [] => false | _ => true end.
Definition ne_filter (l : list text) : list text := filter nonempty l.
Definition piece_list (s : text) : list text := match s with [] => [] | _ => [s] end.

Definition rendered (init : nat) (L : list text) (tr : bool) : text :=
  path_of init L ++ (if tr then [slash] else []).
Definition rinv (L : list text) (tr : bool) : Prop := tr = true -> L <> [].

Lemma rendered_false init L : rendered init L false = path_of init L.
Proof. unfold rendered. apply app_nil_r. Qed.

Lemma rendered_nonempty init L tr : (init = 1 \/ init = 2)%nat -> rendered init L tr <> [].
Proof. intros [-> | ->]; discriminate. Qed.

Lemma normal_nohead s : normal_seg s -> startswith [slash] s = false.
Proof.
  intros (H1 & _ & _ & H4). destruct s as [|x s]; [reflexivity|]. cbn [startswith].
  destruct (N.eqb_spec slash x) as [E|E]; [|reflexivity]. exfalso. apply H4. left. congruence.
Qed.

Lemma path_of_snoc init L s :
  L <> [] -> path_of init L ++ [slash] ++ s = path_of init (L ++ [s]).
Proof.
  intros HL. unfold path_of. rewrite join_app_normal by (assumption || discriminate).
  rewrite <- !app_assoc. reflexivity.
Qed.

Lemma pjoin_rendered init L tr s :
  (init = 1 \/ init = 2)%nat -> Forall normal_seg L -> rinv L tr -> plain_piece s ->
  exists tr', pjoin (rendered init L tr) s = rendered init (L ++ piece_list s) tr' /\
              rinv (L ++ piece_list s) tr' /\ (s <> [] -> tr' = false).
Proof.
  intros Hi HL Hinv Hs.
  pose proof (rendered_nonempty init L tr Hi) as Hne.
  destruct Hs as [-> | [Hsn Hsz]].
  - (* joining '' *)
    unfold pjoin. cbn [startswith piece_list]. rewrite app_nil_r.
    destruct (rendered init L tr) as [|x0 r0] eqn:E; [congruence|]. rewrite <- E.
    destruct tr.
    + exists true. unfold rendered at 1. rewrite ends_with_app_last, N.eqb_refl. rewrite app_nil_r.
      split; [reflexivity|]. split; [assumption|congruence].
    + rewrite rendered_false. rewrite ends_with_path_of by assumption.
      destruct L as [|l0 L'].
      * exists false. rewrite app_nil_r, rendered_false. split; [reflexivity|]. split; [discriminate|congruence].
      * exists true. split; [rewrite (app_nil_r (l0 :: L')); reflexivity|].
        split; [rewrite (app_nil_r (l0 :: L')); discriminate|congruence].
  - assert (Hsne : s <> []) by (destruct Hsn; assumption).
    assert (Hpl : piece_list s = [s]) by (destruct s; [congruence|reflexivity]). rewrite Hpl.
    exists false. split; [|split; [discriminate|reflexivity]]. rewrite rendered_false.
    destruct tr.
    + unfold pjoin. rewrite normal_nohead by assumption.
      destruct (rendered init L true) as [|x0 r0] eqn:E; [congruence|]. rewrite <- E.
      unfold rendered. rewrite ends_with_app_last, N.eqb_refl. rewrite <- app_assoc.
      apply path_of_snoc. apply Hinv. reflexivity.
    + rewrite rendered_false. replace s with (join [slash] [s]) at 1 by reflexivity.
      apply pjoin_path_of; try assumption; [constructor; [assumption|constructor]|discriminate].
Qed.

Lemma ne_filter_cons s r : ne_filter (s :: r) = piece_list s ++ ne_filter r.
Proof. unfold ne_filter, piece_list. cbn [filter nonempty]. destruct s; reflexivity. Qed.

Lemma piece_list_normal s : plain_piece s -> Forall normal_seg (piece_list s).
Proof. intros [-> | [H _]]; [constructor|]. destruct s; [constructor|]. constructor; [assumption|constructor]. Qed.

Lemma pjoin_all_rendered init pieces : forall L tr,
  (init = 1 \/ init = 2)%nat -> Forall normal_seg L -> rinv L tr -> Forall plain_piece pieces ->
  exists tr', pjoin_all (rendered init L tr) pieces = rendered init (L ++ ne_filter pieces) tr' /\
              rinv (L ++ ne_filter pieces) tr' /\
              (forall ps s, pieces = ps ++ [s] -> s <> [] -> tr' = false) /\
              (pieces = [] -> tr' = tr).
Proof.
  induction pieces as [|p r IH]; intros L tr Hi HL Hinv Hp.
  - exists tr. cbn [pjoin_all fold_left ne_filter filter]. rewrite app_nil_r.
    split; [reflexivity|]. split; [assumption|]. split; [|intros _; reflexivity].
    intros ps s E. destruct ps; discriminate.
  - inversion Hp as [|? ? Hp1 Hpr]; subst.
    destruct (pjoin_rendered init L tr p Hi HL Hinv Hp1) as (tr1 & E1 & Hinv1 & Hlast1).
    assert (HL1 : Forall normal_seg (L ++ piece_list p)).
    { apply Forall_app; split; [assumption|apply piece_list_normal; assumption]. }
    destruct (IH (L ++ piece_list p) tr1 Hi HL1 Hinv1 Hpr) as (tr' & E' & Hinv' & Hlast' & Hnil').
    exists tr'. unfold pjoin_all in *. cbn [fold_left]. rewrite E1, E'.
    rewrite ne_filter_cons, app_assoc.
    split; [reflexivity|]. split; [assumption|]. split; [|discriminate].
    intros ps s E Hs. destruct r as [|r0 r'].
    + destruct ps as [|p0 ps']; [|destruct ps'; discriminate].
      injection E as ->. rewrite (Hnil' eq_refl). apply Hlast1. assumption.
    + destruct ps as [|p0 ps']; [discriminate|]. injection E as _ E. eapply Hlast'; eassumption.
Qed.

(* ------------------------------------------------------------ stat of a rendered path *)
Lemma walk_snoc_empty fs L : forall cur,
  walk fs cur (L ++ [[]]) = match walk fs cur L with Some (EDir z) => Some (EDir z) | _ => None end.
Proof.
  induction L as [|c L IH]; intros cur.
  - cbn [app walk spi_step]. destruct (fs_at fs cur) as [[z b|z]|]; reflexivity.
  - cbn [app walk]. destruct (fs_at fs cur) as [[z b|z]|]; try reflexivity. apply IH.
Qed.

Lemma rendered_nonul init L tr : Forall nonul L -> ~ In 0 (rendered init L tr).
Proof.
  intros H. unfold rendered. rewrite in_app_iff. intros [Hin|Hin].
  - revert Hin. apply path_of_nonul. assumption.
  - destruct tr; [destruct Hin as [E|[]]; discriminate|destruct Hin].
Qed.

Lemma startswith_app_l p a b : startswith p a = true -> startswith p (a ++ b) = true.
Proof.
  revert a. induction p as [|x p IH]; intros a H; [reflexivity|].
  destruct a as [|y a]; [discriminate|]. cbn [startswith app] in *.
  apply andb_true_iff in H. destruct H as [H1 H2]. rewrite H1. cbn [andb]. apply IH. assumption.
Qed.

Lemma split_rendered init L tr :
  Forall normal_seg L -> rinv L tr ->
  split_on slash (rendered init L tr) =
    repeat [] init ++ (match L with [] => [[]] | _ => L end) ++ (if tr then [[]] else []).
Proof.
  intros HL Hinv. unfold rendered. destruct tr.
  - rewrite split_on_app. rewrite split_path_of by assumption. cbn [split_on]. rewrite <- app_assoc. reflexivity.
  - rewrite !app_nil_r. apply split_path_of. assumption.
Qed.

Lemma fs_stat_rendered fs init L tr :
  (init = 1 \/ init = 2)%nat -> Forall normal_seg L -> Forall nonul L -> rinv L tr ->
  fs_stat fs (rendered init L tr) =
    if tr then match walk fs [] L with Some (EDir z) => Some (EDir z) | _ => None end else walk fs [] L.
Proof.
  intros Hi HL Hz Hinv. destruct tr.
  - unfold fs_stat. rewrite memN_false by (apply rendered_nonul; assumption).
    unfold rendered at 1. rewrite startswith_app_l by (apply startswith_path_of; assumption).
    rewrite split_rendered by assumption. rewrite walk_empties.
    destruct L as [|l0 L']; [exfalso; apply Hinv; reflexivity|]. apply walk_snoc_empty.
  - rewrite rendered_false. apply fs_stat_path_of; assumption.
Qed.

Lemma is_dir_rendered fs init L tr :
  (init = 1 \/ init = 2)%nat -> Forall normal_seg L -> Forall nonul L -> rinv L tr ->
  is_dir (fs_stat fs (rendered init L tr)) = is_dir (walk fs [] L).
Proof.
  intros Hi HL Hz Hinv. rewrite fs_stat_rendered by assumption. destruct tr; [|reflexivity].
  destruct (walk fs [] L) as [[z b|z]|]; reflexivity.
Qed.

Lemma beneath_rendered init R t tr :
  (init = 1 \/ init = 2)%nat -> Forall normal_seg (R ++ t) -> Forall nonul (R ++ t) -> rinv (R ++ t) tr ->
  beneath R (rendered init (R ++ t) tr) = true.
Proof.
  intros Hi Hn Hz Hinv. destruct tr; [|rewrite rendered_false; apply beneath_path_of; assumption].
  pose proof (beneath_path_of init R t Hi Hn Hz) as Hb. unfold beneath in *.
  apply andb_true_iff in Hb. destruct Hb as [Hb H4]. apply andb_true_iff in Hb. destruct Hb as [Hb H3].
  apply andb_true_iff in Hb. destruct Hb as [H1 H2].
  unfold rendered at 1. rewrite startswith_app_l by assumption.
  rewrite memN_false by (apply rendered_nonul; assumption).
  unfold rendered at 1. rewrite split_on_app. cbn [split_on]. rewrite forallb_app, H3.
  unfold os_resolve, rendered. rewrite split_on_app. cbn [split_on]. rewrite resolve_app. cbn [resolve fold_left spi_step].
  unfold os_resolve in H4. rewrite H4. reflexivity.
Qed.

(* ------------------------------------------------------------ rstrip and the pieces of a '/'-separated name *)
Lemma repeat_snoc {A} (x : A) n : repeat x n ++ [x] = x :: repeat x n.
Proof. induction n as [|n IH]; [reflexivity|]. cbn [repeat app]. rewrite IH. reflexivity. Qed.

Lemma rev_repeat_id {A} (x : A) n : rev (repeat x n) = repeat x n.
Proof. induction n as [|n IH]; [reflexivity|]. cbn [repeat rev]. rewrite IH. apply repeat_snoc. Qed.

Lemma lstrip_decomp c s : exists k, s = repeat c k ++ lstrip_char c s.
Proof.
  induction s as [|x r [k IH]]; [exists 0%nat; reflexivity|].
  cbn [lstrip_char]. destruct (N.eqb_spec x c) as [->|Hne].
  - exists (S k). cbn [repeat app]. f_equal. exact IH.
  - exists 0%nat. reflexivity.
Qed.

Lemma rstrip_decomp c s : exists k, s = rstrip_char c s ++ repeat c k.
Proof.
  destruct (lstrip_decomp c (rev s)) as [k E]. exists k. unfold rstrip_char.
  rewrite <- (rev_involutive s) at 1. rewrite E at 1. rewrite rev_app_distr, rev_repeat_id. reflexivity.
Qed.

Lemma split_repeat_tail c a k : split_on c (a ++ repeat c k) = split_on c a ++ repeat [] k.
Proof.
  induction k as [|k IH]; [cbn [repeat]; rewrite !app_nil_r; reflexivity|].
  cbn [repeat]. rewrite <- (repeat_snoc c k), <- (repeat_snoc (@nil N) k), app_assoc, split_on_app, IH.
  cbn [split_on]. rewrite <- app_assoc. reflexivity.
Qed.

Lemma ne_filter_app a b : ne_filter (a ++ b) = ne_filter a ++ ne_filter b.
Proof. apply filter_app. Qed.

Lemma ne_filter_empties k : ne_filter (repeat [] k) = [].
Proof. induction k; [reflexivity|assumption]. Qed.

Lemma rstrip_pieces c s (Q : text -> Prop) :
  Forall Q (split_on c s) -> Forall Q (split_on c (rstrip_char c s)) /\
  ne_filter (split_on c (rstrip_char c s)) = ne_filter (split_on c s).
Proof.
  intros H. destruct (rstrip_decomp c s) as [k E]. rewrite E in H at 1.
  rewrite split_repeat_tail in H. apply Forall_app in H. destruct H as [H _]. split; [assumption|].
  rewrite E at 2. rewrite split_repeat_tail, ne_filter_app, ne_filter_empties, app_nil_r. reflexivity.
Qed.

Lemma ne_filter_normal l : Forall normal_seg l -> ne_filter l = l.
Proof.
  induction 1 as [|s r Hs _ IH]; [reflexivity|]. rewrite ne_filter_cons, IH.
  destruct s; [destruct Hs; congruence|reflexivity].
Qed.

Lemma resolve_plain l : forall acc, Forall plain_piece l -> resolve acc l = rev (ne_filter l) ++ acc.
Proof.
  induction l as [|s r IH]; intros acc H; [reflexivity|]. inversion H as [|? ? Hs Hr]; subst.
  change (resolve acc (s :: r)) with (resolve (spi_step acc s) r). rewrite IH by assumption.
  rewrite ne_filter_cons. destruct Hs as [-> | [Hn _]].
  - reflexivity.
  - assert (E : spi_step acc s = s :: acc).
    { pose proof (resolve_normal_id [s] acc ltac:(constructor; [assumption|constructor])) as R. exact R. }
    rewrite E. destruct s; [destruct Hn; congruence|]. cbn [piece_list app rev]. rewrite <- app_assoc. reflexivity.
Qed.

Lemma join_pieces t :
  Forall normal_seg t -> Forall nonul t ->
  Forall plain_piece (split_on slash (join [slash] t)) /\ ne_filter (split_on slash (join [slash] t)) = t.
Proof.
  intros Hn Hz. destruct t as [|s r].
  - split; [constructor; [left; reflexivity|constructor]|reflexivity].
  - rewrite split_join_normal by (discriminate || assumption). split; [|apply ne_filter_normal; assumption].
    apply Forall_forall. intros x Hx. right. rewrite Forall_forall in Hn, Hz. split; auto.
Qed.

(* ------------------------------------------------------------ package-relative roots *)
Definition wf_pkg (c : config) : Prop :=
  c_pkg c = true /\
  (exists init Mc, (init = 1 \/ init = 2)%nat /\ Forall normal_seg Mc /\ Forall nonul Mc /\
                   c_modpath c = path_of init Mc) /\
  Forall plain_piece (split_on slash (c_docroot c)) /\
  normal_seg (eff_index c) /\ nonul (eff_index c) /\
  Forall (fun p => ~ In slash (fst p) /\ nonul (fst p)) (c_encmap c).

Lemma plain_piece_normal l : Forall plain_piece l -> Forall normal_seg (ne_filter l) /\ Forall nonul (ne_filter l).
Proof.
  induction 1 as [|s r Hs _ [IH1 IH2]]; [split; constructor|]. rewrite ne_filter_cons.
  destruct Hs as [-> | [Hn Hz]]; [split; assumption|].
  destruct s; [destruct Hn; congruence|]. cbn [piece_list app]. split; constructor; assumption.
Qed.

Lemma spec_root_pkg c init Mc :
  c_pkg c = true -> (init = 1 \/ init = 2)%nat -> Forall normal_seg Mc -> c_modpath c = path_of init Mc ->
  Forall plain_piece (split_on slash (c_docroot c)) ->
  spec_root c = Mc ++ ne_filter (split_on slash (c_docroot c)).
Proof.
  intros Hpkg Hi HMn EM Hd. unfold spec_root. rewrite Hpkg, EM. unfold os_resolve.
  cbn [app]. rewrite split_on_app, resolve_app.
  pose proof (os_resolve_path_of init Mc HMn) as HM. unfold os_resolve in HM.
  assert (HR : resolve [] (split_on slash (path_of init Mc)) = rev Mc).
  { apply (f_equal (@rev text)) in HM. rewrite rev_involutive in HM. exact HM. }
  rewrite HR, resolve_plain by assumption. rewrite rev_app_distr, !rev_involutive. reflexivity.
Qed.

(* ------------------------------------------------------------ resource names, uniformly for both kinds of root *)
Lemma append_ext_snoc A y ext : append_ext (A ++ [y]) ext = A ++ [y ++ ext].
Proof. unfold append_ext. rewrite removelast_last, last_last. reflexivity. Qed.

(* [name] is a resource name of the view that designates the components T below the root:
   whatever slash-free extension is appended, the path handed to the OS is beneath the root
   and stat() of it is the entry at T with the extension appended to the last component *)
Definition names (c : config) (fs : fsys) (name : text) (T : list text) : Prop :=
  (exists X y, T = spec_root c ++ X ++ [y]) /\ Forall normal_seg T /\ Forall nonul T /\
  forall ext, ~ In slash ext -> nonul ext ->
    beneath (spec_root c) (os_path c (name ++ ext)) = true /\
    fs_stat fs (os_path c (name ++ ext)) = walk fs [] (append_ext T ext).

Lemma snoc_ext_ok A y ext :
  Forall normal_seg (A ++ [y]) -> Forall nonul (A ++ [y]) -> ~ In slash ext -> nonul ext ->
  Forall normal_seg (A ++ [y ++ ext]) /\ Forall nonul (A ++ [y ++ ext]).
Proof.
  intros Hn Hz He Hez. apply Forall_snoc_inv in Hn. apply Forall_snoc_inv in Hz.
  destruct Hn as [Hn1 Hn2]. destruct Hz as [Hz1 Hz2]. split; apply Forall_app; split; try assumption.
  - constructor; [apply normal_app_ext; assumption|constructor].
  - constructor; [apply nonul_app; assumption|constructor].
Qed.

Lemma names_fs c fs init X y :
  c_pkg c = false -> (init = 1 \/ init = 2)%nat ->
  Forall normal_seg (spec_root c ++ X ++ [y]) -> Forall nonul (spec_root c ++ X ++ [y]) ->
  names c fs (path_of init (spec_root c ++ X ++ [y])) (spec_root c ++ X ++ [y]).
Proof.
  intros Hpkg Hi Hn Hz. split; [exists X, y; reflexivity|]. split; [assumption|]. split; [assumption|].
  intros ext He Hez. unfold os_path. rewrite Hpkg.
  rewrite !app_assoc in *. rewrite path_of_snoc_ext, append_ext_snoc.
  destruct (snoc_ext_ok _ _ _ Hn Hz He Hez) as [Hn' Hz'].
  rewrite <- !app_assoc in *. split; [apply beneath_path_of; assumption|apply fs_stat_path_of; assumption].
Qed.

Lemma names_pkg c fs init Mc name ps y X :
  c_pkg c = true -> (init = 1 \/ init = 2)%nat -> Forall normal_seg Mc -> Forall nonul Mc ->
  c_modpath c = path_of init Mc ->
  split_on slash name = ps ++ [y] -> Forall plain_piece ps -> normal_seg y -> nonul y ->
  Mc ++ ne_filter ps = spec_root c ++ X ->
  names c fs name (spec_root c ++ X ++ [y]).
Proof.
  intros Hpkg Hi HMn HMz EM Esp Hps Hyn Hyz EL.
  destruct (plain_piece_normal ps Hps) as [Hpn Hpz].
  assert (Hn : Forall normal_seg (spec_root c ++ X ++ [y])).
  { rewrite app_assoc, <- EL. apply Forall_app; split; [apply Forall_app; split; assumption|constructor; [assumption|constructor]]. }
  assert (Hz : Forall nonul (spec_root c ++ X ++ [y])).
  { rewrite app_assoc, <- EL. apply Forall_app; split; [apply Forall_app; split; assumption|constructor; [assumption|constructor]]. }
  split; [exists X, y; reflexivity|]. split; [assumption|]. split; [assumption|].
  intros ext He Hez.
  assert (Esp' : split_on slash (name ++ ext) = ps ++ [y ++ ext]).
  { rewrite split_on_app_nosep by assumption. rewrite Esp, removelast_last, last_last. reflexivity. }
  assert (Hne : name ++ ext <> []).
  { intros E. rewrite E in Esp'. cbn [split_on] in Esp'. destruct ps as [|p0 ps'].
    - injection Esp' as E2. destruct y; [destruct Hyn; congruence|discriminate].
    - destruct ps'; discriminate. }
  assert (Epf : pkg_fn (c_modpath c) (name ++ ext) = pjoin_all (c_modpath c) (split_on slash (name ++ ext))).
  { unfold pkg_fn. destruct (name ++ ext); [congruence|reflexivity]. }
  unfold os_path. rewrite Hpkg, Epf, Esp', EM, <- (rendered_false init Mc).
  assert (Hyen : normal_seg (y ++ ext)) by (apply normal_app_ext; assumption).
  assert (Hyez : nonul (y ++ ext)) by (apply nonul_app; assumption).
  assert (Hpieces : Forall plain_piece (ps ++ [y ++ ext])).
  { apply Forall_app; split; [assumption|]. constructor; [right; split; assumption|constructor]. }
  destruct (pjoin_all_rendered init (ps ++ [y ++ ext]) Mc false Hi HMn ltac:(intros E; discriminate) Hpieces)
    as (tr' & E' & Hinv' & Hlast' & _).
  assert (Htr : tr' = false).
  { apply (Hlast' ps (y ++ ext) eq_refl). destruct y; [destruct Hyn; congruence|discriminate]. }
  subst tr'. rewrite E', rendered_false.
  assert (EL' : Mc ++ ne_filter (ps ++ [y ++ ext]) = spec_root c ++ X ++ [y ++ ext]).
  { rewrite ne_filter_app, app_assoc, EL. rewrite <- app_assoc. f_equal. f_equal.
    rewrite ne_filter_normal by (constructor; [assumption|constructor]). reflexivity. }
  rewrite EL'. rewrite !app_assoc in *. rewrite append_ext_snoc.
  destruct (snoc_ext_ok _ _ _ Hn Hz He Hez) as [Hn' Hz'].
  rewrite <- !app_assoc in *. split; [apply beneath_path_of; assumption|apply fs_stat_path_of; assumption].
Qed.

(* ------------------------------------------------------------ get_resource_name, both kinds of root *)
Definition wf (c : config) : Prop := wf_fs c \/ wf_pkg c.

Lemma wf_index c : wf c -> normal_seg (eff_index c) /\ nonul (eff_index c).
Proof. intros [(_ & _ & _ & H1 & H2 & _) | (_ & _ & _ & H1 & H2 & _)]; split; assumption. Qed.

Lemma wf_exts c : wf c -> Forall (fun p => ~ In slash (fst p) /\ nonul (fst p)) (c_encmap c).
Proof. intros [(_ & _ & _ & _ & _ & H) | (_ & _ & _ & _ & _ & H)]; assumption. Qed.

Lemma seg_ok_all t : forallb seg_ok t = true -> Forall normal_seg t /\ Forall nonul t.
Proof.
  intros H. rewrite forallb_forall in H. split; apply Forall_forall; intros s Hs;
    specialize (H s Hs); apply seg_ok_spec in H; destruct H; assumption.
Qed.

Lemma secure_ok t : forallb seg_ok t = true -> secure_path t = Some (join [slash] t).
Proof. intros H. rewrite secure_path_is_spec. unfold spec_secure. rewrite H. reflexivity. Qed.

Lemma secure_bad t : forallb seg_ok t = false -> secure_path t = None.
Proof. intros H. rewrite secure_path_is_spec. unfold spec_secure. rewrite H. reflexivity. Qed.

Lemma spec_root_ok c : wf c -> Forall normal_seg (spec_root c) /\ Forall nonul (spec_root c).
Proof.
  intros [(Hpkg & Habs & Hz & _) | (Hpkg & (init & Mc & Hi & HMn & HMz & EM) & Hd & _)].
  - rewrite spec_root_fs by assumption. split; [|apply os_resolve_nonul; assumption].
    unfold os_resolve. apply Forall_rev. apply resolve_normal; [apply split_on_no_sep|constructor].
  - rewrite (spec_root_pkg c init Mc) by assumption. destruct (plain_piece_normal _ Hd) as [H1 H2].
    split; apply Forall_app; split; assumption.
Qed.

Lemma grn_names c rq pi fs t :
  wf c -> forallb seg_ok t = true ->
  exists iname nname log,
    get_resource_name c rq pi fs t =
      (if is_dir (walk fs [] (spec_root c ++ t)) then dir_or_redirect c rq pi iname else RNName nname, log) /\
    contained c log = true /\
    names c fs iname (spec_root c ++ t ++ [eff_index c]) /\
    (t <> [] -> names c fs nname (spec_root c ++ t)).
Proof.
  intros Hwf Hok. destruct (seg_ok_all t Hok) as [Htn Htz].
  destruct (wf_index c Hwf) as [Hin Hiz]. destruct (spec_root_ok c Hwf) as [HRn HRz].
  assert (HTn : Forall normal_seg (spec_root c ++ t ++ [eff_index c])).
  { apply Forall_app; split; [assumption|]. apply Forall_app; split; [assumption|constructor; [assumption|constructor]]. }
  assert (HTz : Forall nonul (spec_root c ++ t ++ [eff_index c])).
  { apply Forall_app; split; [assumption|]. apply Forall_app; split; [assumption|constructor; [assumption|constructor]]. }
  destruct Hwf as [Hwf | Hwf].
  - destruct (grn_fs c rq pi fs t _ Hwf (secure_ok t Hok)) as (init & Hi & E).
    destruct Hwf as (Hpkg & _).
    exists (path_of init (spec_root c ++ t ++ [eff_index c])), (path_of init (spec_root c ++ t)), [(0, path_of init (spec_root c ++ t))].
    split; [exact E|]. split.
    { unfold contained. cbn [forallb snd]. rewrite andb_true_r.
      apply beneath_path_of; [assumption| |]; apply Forall_app; split; assumption. }
    split; [apply names_fs; assumption|].
    intros Hne. destruct (exists_last_ne t Hne) as (X & y & ->).
    apply names_fs; try assumption; apply Forall_app; split; assumption.
  - destruct Hwf as (Hpkg & (init & Mc & Hi & HMn & HMz & EM) & Hd & _).
    pose proof (spec_root_pkg c init Mc Hpkg Hi HMn EM Hd) as ER.
    set (D := rstrip_char slash (c_docroot c)).
    set (rp := D ++ slash :: join [slash] t).
    destruct (rstrip_pieces slash (c_docroot c) plain_piece Hd) as [HDp HDn]. fold D in HDp, HDn.
    destruct (join_pieces t Htn Htz) as [Hjp Hjn].
    assert (Erp : split_on slash rp = split_on slash D ++ split_on slash (join [slash] t)) by apply split_on_app.
    assert (Hrpp : Forall plain_piece (split_on slash rp)) by (rewrite Erp; apply Forall_app; split; assumption).
    assert (Hrpn : Mc ++ ne_filter (split_on slash rp) = spec_root c ++ t).
    { rewrite Erp, ne_filter_app, HDn, Hjn, ER, <- app_assoc. reflexivity. }
    assert (Epf : pkg_fn (c_modpath c) rp = pjoin_all (c_modpath c) (split_on slash rp)).
    { unfold pkg_fn, rp. destruct D; reflexivity. }
    destruct (pjoin_all_rendered init (split_on slash rp) Mc false Hi HMn ltac:(intros E; discriminate) Hrpp)
      as (tr & Etr & Hinv & _ & _).
    rewrite rendered_false, <- EM, <- Epf, Hrpn in Etr. rewrite Hrpn in Hinv.
    assert (HLn : Forall normal_seg (spec_root c ++ t)) by (apply Forall_app; split; assumption).
    assert (HLz : Forall nonul (spec_root c ++ t)) by (apply Forall_app; split; assumption).
    exists (rstrip_char slash rp ++ slash :: eff_index c), rp, [(0, pkg_fn (c_modpath c) rp)].
    split.
    { unfold get_resource_name. rewrite (secure_ok t Hok), Hpkg.
      change (rstrip_char (char1 pkg_rstrip) (c_docroot c) ++ pkg_fmt_sep ++ join [slash] t) with rp.
      unfold bind, stat. rewrite Etr, is_dir_rendered by assumption.
      destruct (is_dir (walk fs [] (spec_root c ++ t))); reflexivity. }
    split.
    { unfold contained. cbn [forallb snd]. rewrite andb_true_r, Etr. apply beneath_rendered; assumption. }
    split.
    + destruct (rstrip_pieces slash rp plain_piece Hrpp) as [HSp HSn].
      apply (names_pkg c fs init Mc _ (split_on slash (rstrip_char slash rp)) (eff_index c) t); try assumption.
      * rewrite split_on_app. f_equal. apply split_on_nosep_id. destruct Hin as (_ & _ & _ & H). exact H.
      * rewrite HSn. exact Hrpn.
    + intros Hne. destruct (exists_last_ne t Hne) as (X & y & Et).
      assert (Hsplit_t : split_on slash (join [slash] t) = t) by (apply split_join_normal; assumption).
      rewrite Et in *. apply Forall_snoc_inv in Htn. apply Forall_snoc_inv in Htz.
      destruct Htn as [HXn Hyn]. destruct Htz as [HXz Hyz].
      apply (names_pkg c fs init Mc rp (split_on slash D ++ X) y X); try assumption.
      * rewrite Erp, Hsplit_t, app_assoc. reflexivity.
      * apply Forall_app; split; [assumption|]. apply Forall_forall. intros x Hx. right.
        rewrite Forall_forall in HXn, HXz. split; auto.
      * rewrite ne_filter_app, HDn, (ne_filter_normal X HXn), ER, <- app_assoc. reflexivity.
Qed.
