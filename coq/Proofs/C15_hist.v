(* C15 -- the plumbing around the lookup core.
   (1) Re-initialisation of a live registry (Registry.__init__ run again, as pyramid.testing.tearDown does):
       the invariant of Proofs/C15.v survives a re-initialisation made in an idle state, for EVERY init
       program that clears the lookup cache and drops the registrations (in whichever order); hence all
       lookup theorems extend to histories  trace ; reinit ; trace ; reinit ...  (hexec).
   (2) The request type a dispatch of the Router looks views up with does not depend on earlier dispatches
       of the same request object (Router.handle_request resets request.request_iface). *)
From Coq Require Import List NArith ZArith Bool Arith Lia.
Import ListNotations.
Require Import Verif.Lib.Wire Verif.Lib.C15Prog Verif.Lib.C15Init Verif.Gen.Facts_C15 Verif.Model.C15.
Require Import Verif.Proofs.C15 Verif.Proofs.C15_sched.

Lemma facts_init_prog : init_prog_ok init_prog = true.
Proof. reflexivity. Qed.
Lemma facts_router_iface : router_resets_iface = true /\ router_sets_route_iface = true.
Proof. split; reflexivity. Qed.

Section Hist.
  Variable sro : N -> list N.
  Variable km : key_mode.
  Hypothesis Hkm : forall k, ckey km k = k.
  Variable wb : list instr.
  Hypothesis Hwb : wb = std_wb Local \/ wb = wb_nolock \/ wb = wb_nolock_split.
  Variable IP : list init_instr.
  Hypothesis HIP : init_prog_ok IP = true.

  Notation LPw := (LPs wb).
  Notation run := (exec sro km LPw RPs).
  Notation hrun := (hexec sro km LPw RPs IP).
  Notation InvW := (Inv sro wb).

  Definition idle (st : state) : Prop := forall i t, threads st i = Some t -> cont t = [].

  Lemma idle_upto_spec n st :
    idle_upto n st = true <-> (forall i t, i < n -> threads st i = Some t -> cont t = []).
  Proof.
    induction n as [|n IH]; simpl.
    - split; [intros _ i t Hi; lia|auto].
    - rewrite andb_true_iff, IH. split.
      + intros [H1 H2] i t Hi Ht. destruct (Nat.eq_dec i n) as [->|Hne].
        * rewrite Ht in H1. destruct (cont t); [reflexivity|discriminate].
        * apply (H2 i); auto. lia.
      + intros H. split.
        * destruct (threads st n) as [t|] eqn:E; [|reflexivity]. rewrite (H n t); auto.
        * intros i t Hi. apply H. lia.
  Qed.

  Lemma idleb_idle st : InvW st -> (idleb st = true <-> idle st).
  Proof.
    intros I. unfold idleb. rewrite idle_upto_spec. split.
    - intros H i t Ht. apply (H i); auto.
      destruct (le_lt_dec (ntid st) i) as [Hl|Hl]; [|exact Hl].
      rewrite (inv_ntid _ _ _ I) in Ht by auto. discriminate.
    - intros H i t _ Ht. apply (H i); auto.
  Qed.

  (* the part of the invariant that does not speak about the CONTENTS of the current cache, in an idle state *)
  Definition Wk (st : state) : Prop :=
    (forall c k vs, dget (heap st c) k = Some vs -> vs <> []) /\
    cur st < ncid st /\
    (forall i t, threads st i = Some t -> cont t = [] /\ forall c, tc t = Some c -> c < ncid st) /\
    (forall i, ntid st <= i -> threads st i = None).
  Definition Ec (st : state) : Prop := heap st (cur st) = [].

  Lemma inv_idle_Wk st : InvW st -> idle st -> Wk st.
  Proof.
    intros I Hi. split; [apply (inv_nonempty _ _ _ I)|]. split; [apply (inv_cur _ _ _ I)|].
    split; [|apply (inv_ntid _ _ _ I)].
    intros i t Ht. split; [apply (Hi _ _ Ht)|]. apply (inv_threads _ _ _ I _ _ Ht).
  Qed.

  Lemma Wk_Ec_inv st : Wk st -> Ec st -> InvW st.
  Proof.
    intros (A & B & C & D) E. constructor; auto.
    - intros _ k vs. rewrite E. discriminate.
    - intros i t Ht. destruct (C _ _ Ht) as [Hc Htc]. split; [exact Htc|].
      destruct (tkind t); [apply S11; exact Hc|right; right; exact Hc].
  Qed.

  Lemma Wk_idle st : Wk st -> idle st.
  Proof. intros (_ & _ & C & _) i t Ht. apply (C _ _ Ht). Qed.

  Lemma Wk_step st i : Wk st -> Wk (reinit_step st i).
  Proof.
    intros (A & B & C & D). destruct i as [|m|]; unfold Wk; simpl.
    - repeat split; auto; apply (C _ _ H).
    - destruct m; unfold Wk; simpl.
      + split; [|split; [lia|split; [|exact D]]].
        * intros c k vs. destruct (Nat.eq_dec c (ncid st)) as [->|Hn].
          -- rewrite upd_same. discriminate.
          -- rewrite upd_other by auto. apply A.
        * intros j t Ht. destruct (C _ _ Ht) as [Hc Htc]. split; [exact Hc|].
          intros c Hcc. specialize (Htc c Hcc). lia.
      + split; [|split; [exact B|split; [exact C|exact D]]].
        intros c k vs. destruct (Nat.eq_dec c (cur st)) as [->|Hn].
        * rewrite upd_same. discriminate.
        * rewrite upd_other by auto. apply A.
    - repeat split; auto; apply (C _ _ H).
  Qed.

  Lemma Wk_reinit P0 st : Wk st -> Wk (reinit P0 st).
  Proof. revert st. induction P0 as [|i r IH]; intros st W; simpl; [exact W|]. apply IH, Wk_step, W. Qed.

  Lemma Ec_step st i : (Ec st \/ is_clear i = true) -> Ec (reinit_step st i).
  Proof.
    unfold Ec. destruct i as [|m|]; simpl; intros [H|H]; try discriminate; auto;
      destruct m; simpl; apply upd_same.
  Qed.

  Lemma Ec_reinit P0 st : (Ec st \/ existsb is_clear P0 = true) -> Ec (reinit P0 st).
  Proof.
    revert st. induction P0 as [|i r IH]; intros st H; simpl.
    - destruct H as [H|H]; [exact H|discriminate].
    - apply IH. simpl in H. destruct H as [H|H].
      + left. apply Ec_step. left. exact H.
      + apply orb_true_iff in H. destruct H as [H|H]; [left; apply Ec_step; right; exact H|right; exact H].
  Qed.

  Lemma R_step st i : (R st = [] \/ is_reset i = true) -> R (reinit_step st i) = [].
  Proof. destruct i as [|m|]; simpl; intros [H|H]; try discriminate; auto; destruct m; simpl; exact H. Qed.

  Lemma R_reinit P0 st : (R st = [] \/ existsb is_reset P0 = true) -> R (reinit P0 st) = [].
  Proof.
    revert st. induction P0 as [|i r IH]; intros st H; simpl.
    - destruct H as [H|H]; [exact H|discriminate].
    - apply IH. simpl in H. destruct H as [H|H].
      + left. apply R_step. left. exact H.
      + apply orb_true_iff in H. destruct H as [H|H]; [left; apply R_step; right; exact H|right; exact H].
  Qed.

  Lemma threads_step st i : threads (reinit_step st i) = threads st /\ ntid (reinit_step st i) = ntid st.
  Proof. destruct i as [|m|]; simpl; auto. destruct m; simpl; auto. Qed.
  Lemma threads_reinit P0 st : threads (reinit P0 st) = threads st /\ ntid (reinit P0 st) = ntid st.
  Proof.
    revert st. induction P0 as [|i r IH]; intros st; simpl; [auto|].
    destruct (IH (reinit_step st i)) as [A B]. destruct (threads_step st i) as [C D]. split; congruence.
  Qed.

  (* a re-initialisation in an idle state: the invariant holds again, nothing is registered, the current
     cache is empty, every thread is where it was (finished) *)
  Lemma inv_reinit st :
    InvW st -> idle st ->
    let st' := reinit IP st in
    InvW st' /\ R st' = [] /\ heap st' (cur st') = [] /\ idle st' /\ threads st' = threads st /\ ntid st' = ntid st.
  Proof.
    intros I Hi st'. apply andb_true_iff in HIP. destruct HIP as [H1 H2].
    assert (W : Wk st') by (apply Wk_reinit, inv_idle_Wk; auto).
    assert (E : Ec st') by (apply Ec_reinit; right; exact H1).
    split; [apply Wk_Ec_inv; auto|]. split; [apply R_reinit; right; exact H2|].
    split; [exact E|]. split; [apply Wk_idle; exact W|]. apply threads_reinit.
  Qed.

  Lemma inv_hexec hs : forall st, InvW st -> reinit_idle sro km LPw RPs IP hs st = true -> InvW (hrun hs st).
  Proof.
    induction hs as [|h r IH]; intros st I Hid; simpl; [exact I|].
    simpl in Hid. apply andb_true_iff in Hid. destruct Hid as [H1 H2].
    apply IH; [|exact H2]. destruct h as [tr|]; simpl.
    - apply (inv_run sro km Hkm wb Hwb); exact I.
    - apply inv_reinit; [exact I|]. apply idleb_idle; auto.
  Qed.

  (* lookup_fresh, from any state that satisfies the invariant *)
  Lemma lookup_fresh_from st1 k tr2 :
    InvW st1 ->
    let st2 := run (SpawnLookup k :: tr2) st1 in
    quietb st1 = true ->
    reg_free sro km LPw RPs st1 (SpawnLookup k :: tr2) = true ->
    exists t, threads st2 (ntid st1) = Some t /\ tkind t = KLookup /\ tkey t = k /\
              (cont t = [] -> tres t = Some (lookup_all sro (R st1) k)).
  Proof.
    intros I st2 Hqb Hf.
    assert (Hq : quiet st1) by (apply (quietb_quiet sro wb); auto).
    destruct (span_run sro km Hkm wb Hwb (SpawnLookup k :: tr2) st1 I Hq Hf) as (A & B & C & D).
    set (s1 := do_label sro km LPw RPs st1 (SpawnLookup k)).
    assert (T1 : threads s1 (ntid st1) = Some (new_lookup LPw k)) by (simpl; apply upd_same).
    destruct (run_generic sro km wb tr2 s1 (ntid st1) _ T1) as (t & Ht & Hkey & Hkind); [simpl; lia|].
    exists t. fold st2 in A, B, C, D. change (run tr2 s1) with st2 in Ht.
    repeat split; auto.
    intros Hc. specialize (D _ _ Ht Hkind).
    destruct D as [[H1 _]|[[H1 _]|[_ H1]]].
    - intros t0 H0. rewrite (inv_ntid _ _ _ I) in H0; [discriminate|lia].
    - rewrite Hc in H1. discriminate.
    - congruence.
    - rewrite H1, B. f_equal. f_equal. exact Hkey.
  Qed.

  Lemma hist_lookup_fresh_std R0 hs k tr2 :
    reinit_idle sro km LPw RPs IP hs (init R0) = true ->
    let st1 := hrun hs (init R0) in
    let st2 := run (SpawnLookup k :: tr2) st1 in
    quietb st1 = true ->
    reg_free sro km LPw RPs st1 (SpawnLookup k :: tr2) = true ->
    exists t, threads st2 (ntid st1) = Some t /\ tkind t = KLookup /\ tkey t = k /\
              (cont t = [] -> tres t = Some (lookup_all sro (R st1) k)).
  Proof.
    intros Hid st1 st2. apply lookup_fresh_from. apply inv_hexec; [apply inv_init|exact Hid].
  Qed.

  (* cache_inv / misses_not_cached along histories *)
  Lemma hist_cache_std R0 hs :
    reinit_idle sro km LPw RPs IP hs (init R0) = true ->
    let st := hrun hs (init R0) in
    (forall c k vs, dget (heap st c) k = Some vs -> vs <> []) /\
    (quietb st = true -> forall k,
        (forall vs, dget (heap st (cur st)) k = Some vs -> vs = lookup_all sro (R st) k) /\
        (lookup_all sro (R st) k = [] -> dget (heap st (cur st)) k = None)).
  Proof.
    intros Hid st. assert (I : InvW st) by (apply inv_hexec; [apply inv_init|exact Hid]).
    split; [apply (inv_nonempty _ _ _ I)|].
    intros Hqb k. assert (Hq : quiet st) by (apply (quietb_quiet sro wb); auto). split.
    - intros vs H. apply (inv_fresh _ _ _ I Hq _ _ H).
    - intros Hl. destruct (dget (heap st (cur st)) k) as [vs|] eqn:E; [|reflexivity].
      pose proof (inv_fresh _ _ _ I Hq _ _ E) as H1. pose proof (inv_nonempty _ _ _ I _ _ _ E) as H2. congruence.
  Qed.

  Lemma lookup_all_nil k : lookup_all sro [] k = [].
  Proof.
    unfold lookup_all, lookup_over. induction (slots_of sro k) as [|s r IH]; simpl; [reflexivity|exact IH].
  Qed.

  (* right after a re-initialisation the registry answers like a brand-new one: nothing is registered, the
     current cache is empty, and every lookup that starts (registrations unchanged) finds nothing *)
  Lemma reinit_forgets_std R0 hs k tr2 :
    reinit_idle sro km LPw RPs IP (hs ++ [HReinit]) (init R0) = true ->
    let st1 := hrun (hs ++ [HReinit]) (init R0) in
    let st2 := run (SpawnLookup k :: tr2) st1 in
    R st1 = [] /\ heap st1 (cur st1) = [] /\
    (reg_free sro km LPw RPs st1 (SpawnLookup k :: tr2) = true ->
     exists t, threads st2 (ntid st1) = Some t /\ tkind t = KLookup /\ tkey t = k /\
               (cont t = [] -> tres t = Some [])).
  Proof.
    intros Hid st1 st2.
    assert (I1 : InvW st1) by (apply inv_hexec; [apply inv_init|exact Hid]).
    assert (E : st1 = reinit IP (hrun hs (init R0))).
    { unfold st1, hexec. rewrite fold_left_app. reflexivity. }
    assert (Hsplit : reinit_idle sro km LPw RPs IP hs (init R0) = true /\ idleb (hrun hs (init R0)) = true).
    { clear - Hid. revert Hid. generalize (init R0). induction hs as [|h r IH]; intros st H; simpl in *.
      - rewrite !andb_true_r in H. auto.
      - apply andb_true_iff in H. destruct H as [H1 H2]. destruct (IH _ H2) as [A B]. rewrite H1, A. auto. }
    destruct Hsplit as [Hid0 Hidle].
    assert (I0 : InvW (hrun hs (init R0))) by (apply inv_hexec; [apply inv_init|exact Hid0]).
    destruct (inv_reinit _ I0 (proj1 (idleb_idle _ I0) Hidle)) as (_ & HR & HE & Hi' & _ & _).
    rewrite <- E in HR, HE, Hi'.
    split; [exact HR|]. split; [exact HE|]. intros Hf.
    assert (Hqb : quietb st1 = true).
    { apply (quietb_quiet sro wb); [exact I1|]. intros i t Ht. unfold midway.
      rewrite (Hi' _ _ Ht). simpl. destruct (tkind t); [reflexivity|]. apply andb_false_r. }
    destruct (lookup_fresh_from st1 k tr2 I1 Hqb Hf) as (t & A & B & C & D).
    exists t. repeat split; auto. intros Hc. rewrite (D Hc), HR, lookup_all_nil. reflexivity.
  Qed.

  (* the executable expectation along a history is sound *)
  Lemma G_hexec hs : forall st ex,
    InvW st -> reinit_idle sro km LPw RPs IP hs st = true -> G sro wb st ex ->
    G sro wb (hrun hs st) (hexpect sro km LPw RPs IP st hs ex).
  Proof.
    induction hs as [|h r IH]; intros st ex I Hid HG; simpl; [exact HG|].
    simpl in Hid. apply andb_true_iff in Hid. destruct Hid as [H1 H2].
    destruct h as [tr|]; simpl in *.
    - apply IH; [apply (inv_run sro km Hkm wb Hwb); exact I|exact H2|].
      apply (G_run sro km Hkm wb Hwb); auto.
    - assert (Hi : idle st) by (apply idleb_idle; auto).
      destruct (inv_reinit _ I Hi) as (I' & _ & _ & _ & Ht & _).
      apply IH; [exact I'|exact H2|].
      intros j vs Hj. destruct (HG _ _ Hj) as (t & A & B & C).
      exists t. rewrite Ht. split; [exact A|]. split; [exact B|]. left.
      destruct C as [C|[C _]]; [exact C|]. rewrite (Hi _ _ A) in C. congruence.
  Qed.

  Lemma hist_expect_sound_std R0 hs j vs t :
    reinit_idle sro km LPw RPs IP hs (init R0) = true ->
    hexpect sro km LPw RPs IP (init R0) hs (fun _ => None) j = Some vs ->
    threads (hrun hs (init R0)) j = Some t -> cont t = [] ->
    tkind t = KLookup /\ tres t = Some vs.
  Proof.
    intros Hid He Ht Hc.
    assert (HG : G sro wb (init R0) (fun _ => None)) by (intros j0 vs0 H; discriminate).
    destruct (G_hexec hs (init R0) _ (inv_init sro wb R0) Hid HG j vs He) as (t1 & Ht1 & Hk & Hd).
    rewrite Ht in Ht1. inversion Ht1. subst t1. split; [exact Hk|].
    destruct Hd as [[_ H]|[H _]]; [exact H|congruence].
  Qed.
End Hist.

(* ---------------- for the programs of the current tree ---------------- *)
Theorem hist_lookup_fresh : hist_fresh_claim KeyFull lookup_prog register_prog init_prog.
Proof.
  rewrite facts_lookup_prog, facts_register_prog.
  intros sro R0 hs k tr2. exact (hist_lookup_fresh_std sro KeyFull HkmF _ HwbL init_prog facts_init_prog R0 hs k tr2).
Qed.

(* ... for every init program that clears the cache and drops the registrations, in whichever order *)
Theorem hist_lookup_fresh_any_order : forall IP, init_prog_ok IP = true ->
  hist_fresh_claim KeyFull lookup_prog register_prog IP.
Proof.
  rewrite facts_lookup_prog, facts_register_prog.
  intros IP H sro R0 hs k tr2. exact (hist_lookup_fresh_std sro KeyFull HkmF _ HwbL IP H R0 hs k tr2).
Qed.

Lemma reinit_forgets : forall sro R0 hs k tr2,
  reinit_idle sro KeyFull lookup_prog register_prog init_prog (hs ++ [HReinit]) (init R0) = true ->
  let st1 := hexec sro KeyFull lookup_prog register_prog init_prog (hs ++ [HReinit]) (init R0) in
  let st2 := exec sro KeyFull lookup_prog register_prog (SpawnLookup k :: tr2) st1 in
  R st1 = [] /\ heap st1 (cur st1) = [] /\
  (reg_free sro KeyFull lookup_prog register_prog st1 (SpawnLookup k :: tr2) = true ->
   exists t, threads st2 (ntid st1) = Some t /\ tkind t = KLookup /\ tkey t = k /\
             (cont t = [] -> tres t = Some [])).
Proof.
  rewrite facts_lookup_prog, facts_register_prog.
  intros sro R0 hs k tr2. exact (reinit_forgets_std sro KeyFull HkmF _ HwbL init_prog facts_init_prog R0 hs k tr2).
Qed.

Lemma hist_cache : forall sro R0 hs,
  reinit_idle sro KeyFull lookup_prog register_prog init_prog hs (init R0) = true ->
  let st := hexec sro KeyFull lookup_prog register_prog init_prog hs (init R0) in
  (forall c k vs, dget (heap st c) k = Some vs -> vs <> []) /\
  (quietb st = true -> forall k,
      (forall vs, dget (heap st (cur st)) k = Some vs -> vs = lookup_all sro (R st) k) /\
      (lookup_all sro (R st) k = [] -> dget (heap st (cur st)) k = None)).
Proof.
  rewrite facts_lookup_prog, facts_register_prog.
  intros sro R0 hs. exact (hist_cache_std sro KeyFull HkmF _ HwbL init_prog facts_init_prog R0 hs).
Qed.

Lemma hist_expect_sound : forall sro R0 hs j vs t,
  reinit_idle sro KeyFull lookup_prog register_prog init_prog hs (init R0) = true ->
  hexpect sro KeyFull lookup_prog register_prog init_prog (init R0) hs (fun _ => None) j = Some vs ->
  threads (hexec sro KeyFull lookup_prog register_prog init_prog hs (init R0)) j = Some t -> cont t = [] ->
  tkind t = KLookup /\ tres t = Some vs.
Proof.
  rewrite facts_lookup_prog, facts_register_prog.
  intros sro R0 hs j vs t. exact (hist_expect_sound_std sro KeyFull HkmF _ HwbL init_prog facts_init_prog R0 hs j vs t).
Qed.

(* the wire glue: the state run_tops reports is hexec of the history it reports *)
Lemma run_tops_sound sro km LP RP IP fuel ts : forall st hs ids st0,
  st = hexec sro km LP RP IP (rev hs) st0 ->
  let '(st', hs', _) := run_tops sro km LP RP IP fuel ts (st, hs, ids) in
  st' = hexec sro km LP RP IP (rev hs') st0.
Proof.
  induction ts as [|t r IH]; intros st hs ids st0 H; simpl; [exact H|].
  destruct t as [o|]; simpl.
  - destruct (run_op sro km LP RP fuel o (st, [], ids)) as [[st1 rtr] ids1] eqn:E.
    apply IH. simpl. unfold hexec. rewrite fold_left_app. simpl. fold (hexec sro km LP RP IP (rev hs) st0).
    rewrite <- H.
    pose proof (run_op_sound sro km LP RP st fuel o (st, [], ids) eq_refl) as S. rewrite E in S. exact S.
  - apply IH. simpl. unfold hexec. rewrite fold_left_app. simpl. fold (hexec sro km LP RP IP (rev hs) st0).
    rewrite <- H. reflexivity.
Qed.

Theorem tops_sound : forall sro km LP RP IP fuel ts st0,
  let '(st', hs', _) := run_tops sro km LP RP IP fuel ts (st0, [], []) in
  st' = hexec sro km LP RP IP (rev hs') st0.
Proof. intros. apply run_tops_sound. reflexivity. Qed.

(* an init program that does NOT clear the cache (what a guard `if the lock does not exist yet` around the
   lock creation AND the clear amounts to on a live registry) is refuted by a concrete history: a view is
   registered and looked up (cached), the registry is re-initialised, the same lookup is served the view
   that is no longer registered *)
Lemma hist_fresh_NoClear_refuted : ~ hist_fresh_claim KeyFull (std_lookup Local true) (std_register Swap) [IResetAdapters].
Proof.
  intros H.
  pose proof (H sro1 R1 [HTrace (SpawnLookup k1 :: steps 0 40); HReinit] k1 (steps 1 40)) as H. cbv zeta in H.
  match type of H with
  | ?i -> ?q -> ?f -> _ =>
      assert (I : i) by (vm_compute; reflexivity);
      assert (Q : q) by (vm_compute; reflexivity);
      assert (F : f) by (vm_compute; reflexivity);
      specialize (H I Q F)
  end.
  destruct H as (t & A & _ & _ & D).
  vm_compute in A. inversion A. subst t. vm_compute in D. specialize (D eq_refl). discriminate D.
Qed.

(* non-vacuity: the same history under the translated init program -- the second lookup queries the
   adapter registry again (18 queries) and finds nothing *)
Example reinit_history_answers :
  let hs := [HTrace (SpawnLookup k1 :: steps 0 40); HReinit] in
  reinit_idle sro1 KeyFull lookup_prog register_prog init_prog hs (init R1) = true /\
  (exists t, threads (exec sro1 KeyFull lookup_prog register_prog (SpawnLookup k1 :: steps 1 40)
                           (hexec sro1 KeyFull lookup_prog register_prog init_prog hs (init R1))) 1 = Some t /\
             cont t = [] /\ tres t = Some [] /\ tq t = 18) /\
  (exists t, threads (hexec sro1 KeyFull lookup_prog register_prog init_prog hs (init R1)) 0 = Some t /\
             tres t = Some [1%N]).
Proof.
  vm_compute. split; [reflexivity|].
  split; eexists; repeat (split; [reflexivity|]); reflexivity.
Qed.

(* ---------------- the request type of a dispatch ---------------- *)
(* with the reset, the request type a dispatch looks views up with is a function of the route that matches
   NOW: it does not depend on what earlier dispatches left on the request object *)
Lemma dispatch_iface_reset sr prev m : dispatch_iface true sr prev m = dispatch_iface true sr None m.
Proof. reflexivity. Qed.

Lemma dispatch_history_free : forall prev m,
  dispatch_iface router_resets_iface router_sets_route_iface prev m = fresh_iface m.
Proof. intros prev m. destruct facts_router_iface as [-> ->]. destruct m; reflexivity. Qed.

Lemma dispatch_last_history_free : forall ms m,
  dispatch_last router_resets_iface router_sets_route_iface (ms ++ [m]) = fresh_iface m.
Proof.
  intros ms m. unfold dispatch_last, dispatch_chain. rewrite fold_left_app. simpl.
  apply dispatch_history_free.
Qed.

(* without the reset it does: a request object that matched route 2 and is dispatched again to a URL that
   matches no route is looked up with the route's request type *)
Lemma dispatch_NoReset_refuted :
  ~ (forall prev m, dispatch_iface false true prev m = fresh_iface m).
Proof. intros H. specialize (H (Some 2%N) None). vm_compute in H. discriminate H. Qed.

(* end to end: the lookup made by the last dispatch of ANY chain of dispatches of one request object
   returns lookup_all of the key a brand-new request for the same URL is looked up with *)
Lemma redispatch_fresh : forall sro R0 hs cl cx nm ms m tr2,
  reinit_idle sro KeyFull lookup_prog register_prog init_prog hs (init R0) = true ->
  let st1 := hexec sro KeyFull lookup_prog register_prog init_prog hs (init R0) in
  let k := (cl, dispatch_last router_resets_iface router_sets_route_iface (ms ++ [m]), cx, nm) in
  let st2 := exec sro KeyFull lookup_prog register_prog (SpawnLookup k :: tr2) st1 in
  quietb st1 = true ->
  reg_free sro KeyFull lookup_prog register_prog st1 (SpawnLookup k :: tr2) = true ->
  exists t, threads st2 (ntid st1) = Some t /\ tkind t = KLookup /\
            (cont t = [] -> tres t = Some (lookup_all sro (R st1) (cl, fresh_iface m, cx, nm))).
Proof.
  intros sro R0 hs cl cx nm ms m tr2 Hid st1 k st2 Hq Hf.
  destruct (hist_lookup_fresh sro R0 hs k tr2 Hid Hq Hf) as (t & A & B & C & D).
  exists t. split; [exact A|]. split; [exact B|]. intros Hc. rewrite (D Hc). unfold k.
  rewrite dispatch_last_history_free. reflexivity.
Qed.

(* ---------------- the remaining theorems for the two lock-free bodies ---------------- *)
Section NoLock.
  Variable wb : list instr.
  Hypothesis Hwb : wb_cases wb.

  Lemma no_stale_any : no_stale_claim KeyFull (lookup_with wb) register_prog.
  Proof.
    rewrite facts_register_prog. intros sro R0 tr0 i ti trm k tr2.
    exact (no_stale_after_register_std sro KeyFull HkmF wb Hwb R0 tr0 i ti trm k tr2).
  Qed.

  Lemma concurrent_any : concurrent_claim KeyFull (lookup_with wb) register_prog.
  Proof.
    rewrite facts_register_prog. intros sro R0 tr j t Hf Hj Hk Hc. split.
    - eapply (concurrent_answer_std sro KeyFull HkmF wb Hwb); eauto.
    - intros n t0 H0 Hc0. eapply (concurrent_equals_sequential_std sro KeyFull HkmF wb Hwb); eauto.
  Qed.

  Lemma expect_any : expect_claim KeyFull (lookup_with wb) register_prog.
  Proof.
    rewrite facts_register_prog. intros sro R0 tr j vs t.
    exact (expect_sound_std sro KeyFull HkmF wb Hwb R0 tr j vs t).
  Qed.
End NoLock.

(* ---------------- a commit that fails midway ---------------- *)
Lemma facts_spec_orders_immutable : spec_orders_immutable = true.
Proof. reflexivity. Qed.

Section Commit.
  Variable sro : N -> list N.
  Notation LPl := (LPs (std_wb Local)).
  Notation run := (exec sro KeyFull LPl RPs).
  Notation InvW := (Inv sro (std_wb Local)).

  Lemma commit_one st ups :
    InvW st -> quiet st ->
    let st' := run [SpawnRegister ups; Step (ntid st); Step (ntid st)] st in
    InvW st' /\ quiet st' /\ R st' = rapply ups (R st) /\ ntid st' = S (ntid st).
  Proof.
    intros I Hq st'.
    assert (I' : InvW st') by (apply (inv_run sro KeyFull HkmF _ HwbL); exact I).
    split; [exact I'|].
    unfold st', exec. simpl. rewrite upd_same. unfold step_thread. simpl.
    rewrite upd_same. simpl.
    split; [|split; reflexivity].
    intros j t Hj. simpl in Hj.
    destruct (Nat.eq_dec j (ntid st)) as [->|Hne].
    - rewrite upd_same in Hj. inversion Hj. reflexivity.
    - rewrite !upd_other in Hj by auto. apply (Hq _ _ Hj).
  Qed.

  Lemma commit_all acts : forall st,
    InvW st -> quiet st ->
    let st' := run (commit_trace (ntid st) acts) st in
    InvW st' /\ quiet st' /\ R st' = commit_R acts (R st).
  Proof.
    induction acts as [|ups r IH]; intros st I Hq; [simpl; auto|].
    destruct (commit_one st ups I Hq) as (I1 & Q1 & R1 & N1).
    cbv zeta.
    change (run (commit_trace (ntid st) (ups :: r)) st)
      with (run (commit_trace (S (ntid st)) r) (run [SpawnRegister ups; Step (ntid st); Step (ntid st)] st)).
    set (s1 := run [SpawnRegister ups; Step (ntid st); Step (ntid st)] st) in *.
    rewrite <- N1.
    destruct (IH s1 I1 Q1) as (I2 & Q2 & R2).
    split; [exact I2|]. split; [exact Q2|]. rewrite R2, R1. reflexivity.
  Qed.
End Commit.

(* after any history, a commit whose view actions [acts] were executed before another action of the commit
   raised (the remaining actions never ran): every lookup that starts afterwards sees exactly the registrations
   of the executed actions, warm cache or not *)
Lemma partial_commit_fresh : forall sro R0 hs acts k tr2,
  reinit_idle sro KeyFull lookup_prog register_prog init_prog hs (init R0) = true ->
  let st0 := hexec sro KeyFull lookup_prog register_prog init_prog hs (init R0) in
  let st1 := exec sro KeyFull lookup_prog register_prog (commit_trace (ntid st0) acts) st0 in
  let st2 := exec sro KeyFull lookup_prog register_prog (SpawnLookup k :: tr2) st1 in
  quietb st0 = true ->
  reg_free sro KeyFull lookup_prog register_prog st1 (SpawnLookup k :: tr2) = true ->
  exists t, threads st2 (ntid st1) = Some t /\ tkind t = KLookup /\ tkey t = k /\
            (cont t = [] -> tres t = Some (lookup_all sro (commit_R acts (R st0)) k)).
Proof.
  rewrite facts_lookup_prog, facts_register_prog.
  intros sro R0 hs acts k tr2 Hid st0 st1 st2 Hqb Hf.
  assert (I0 : Inv sro (std_wb Local) st0).
  { apply (inv_hexec sro KeyFull HkmF _ HwbL init_prog facts_init_prog); [apply inv_init|exact Hid]. }
  assert (Q0 : quiet st0) by (apply (quietb_quiet sro (std_wb Local)); auto).
  destruct (commit_all sro acts st0 I0 Q0) as (I1 & Q1 & R1).
  fold st1 in I1, Q1, R1.
  assert (Hqb1 : quietb st1 = true) by (apply (quietb_quiet sro (std_wb Local)); auto).
  destruct (lookup_fresh_from sro KeyFull HkmF _ HwbL st1 k tr2 I1 Hqb1 Hf) as (t & A & B & C & D).
  exists t. repeat split; auto. intros Hc. rewrite (D Hc). apply f_equal.
  apply (f_equal (fun r => lookup_all sro r k)). exact R1.
Qed.

Example partial_commit_nonvacuous :
  let acts := [[(sA, Some 2%N)]] in
  let st0 := exec sro1 KeyFull lookup_prog register_prog (SpawnLookup k1 :: steps 0 40) (init R1) in
  let st1 := exec sro1 KeyFull lookup_prog register_prog (commit_trace (ntid st0) acts) st0 in
  quietb st0 = true /\ dget (heap st0 (cur st0)) k1 = Some [1%N] /\
  reg_free sro1 KeyFull lookup_prog register_prog st1 (SpawnLookup k1 :: steps 2 40) = true /\
  lookup_all sro1 (commit_R acts (R st0)) k1 = [2%N].
Proof. vm_compute. repeat split; reflexivity. Qed.

(* ---------------- the resolution orders must stay fixed ---------------- *)
Definition sroA (i : N) : list N := if N.eqb i 2 then [2; 0]%N else sro1 i.
Definition sroA' (i : N) : list N := if N.eqb i 2 then [2; 1; 0]%N else sro1 i.   (* the route interface now extends IRequest *)
Definition kR : key := (0, 2, 11, 0)%N.
Definition R_route : reg := [((0, 2, 11, 0, 0)%N, Some 5%N); (sA, Some 1%N)].

Lemma sro_change_refuted : ~ sro_change_claim (std_lookup Local true) (std_register Swap).
Proof.
  intros H. pose proof (H sroA sroA' R_route (SpawnLookup kR :: steps 0 40) kR (steps 1 40)) as H. cbv zeta in H.
  match type of H with
  | ?q -> ?f -> _ =>
      assert (Q : q) by (vm_compute; reflexivity);
      assert (F : f) by (vm_compute; reflexivity);
      specialize (H Q F)
  end.
  destruct H as (t & A & _ & _ & D).
  vm_compute in A. inversion A. subst t. vm_compute in D. specialize (D eq_refl). discriminate D.
Qed.

(* ---------------- exception views of a re-dispatched request ---------------- *)
Lemma redispatch_lookup_fresh : forall sro R0 hs cl cx nm ms m tr2,
  reinit_idle sro KeyFull lookup_prog register_prog init_prog hs (init R0) = true ->
  let st1 := hexec sro KeyFull lookup_prog register_prog init_prog hs (init R0) in
  let k := (cl, lookup_iface cl (dispatch_last router_resets_iface router_sets_route_iface (ms ++ [m])), cx, nm) in
  let st2 := exec sro KeyFull lookup_prog register_prog (SpawnLookup k :: tr2) st1 in
  quietb st1 = true ->
  reg_free sro KeyFull lookup_prog register_prog st1 (SpawnLookup k :: tr2) = true ->
  exists t, threads st2 (ntid st1) = Some t /\ tkind t = KLookup /\
            (cont t = [] -> tres t = Some (lookup_all sro (R st1) (cl, lookup_iface cl (fresh_iface m), cx, nm))).
Proof.
  intros sro R0 hs cl cx nm ms m tr2 Hid st1 k st2 Hq Hf.
  destruct (hist_lookup_fresh sro R0 hs k tr2 Hid Hq Hf) as (t & A & B & C & D).
  exists t. split; [exact A|]. split; [exact B|]. intros Hc. rewrite (D Hc). unfold k.
  rewrite dispatch_last_history_free. reflexivity.
Qed.

(* ---------------- round 7: the key of an exception-view lookup, the request interface of a route ---------------- *)
Lemma facts_excview_route : excview_uses_combined = true /\ route_iface_created_once = true.
Proof. split; reflexivity. Qed.

(* what invoke_exception_view looks up with: the combined interface of the request's own request type *)
Lemma lookup_iface_spec : forall cl rq,
  lookup_iface cl rq = if N.eqb cl 1 then combined_iface rq else rq.
Proof. intros. unfold lookup_iface. destruct facts_excview_route as [-> _]. reflexivity. Qed.

(* ---------------- a re-initialisation interleaved with a lookup ----------------
   Registry.__init__ clears the cache BEFORE Components.__init__ drops the registrations.  A lookup that runs
   between the two (another thread, while testing.tearDown re-initialises a live registry) caches a view that
   is gone a moment later: the ClearFirst schedule of the register program, for the init program.  This is
   outside the property's quantifier (it interleaves lookups with registrations, not with re-initialisations);
   the refutation documents why re-initialisations are modelled in idle states only. *)
Lemma reinit_interleaved_refuted :
  ~ reinit_interleaved_claim (std_lookup Local true) (std_register Swap) [INewLock; IClear Swap; IResetAdapters].
Proof.
  intros H.
  pose proof (H sro1 R1 [INewLock; IClear Swap] [IResetAdapters] (SpawnLookup k1 :: steps 0 40) k1 (steps 1 40) eq_refl) as H.
  cbv zeta in H.
  match type of H with
  | ?a -> ?b -> ?c -> _ =>
      assert (A : a) by (vm_compute; reflexivity);
      assert (B : b) by (vm_compute; reflexivity);
      assert (C : c) by (vm_compute; reflexivity);
      specialize (H A B C)
  end.
  destruct H as (t & A1 & _ & _ & D).
  vm_compute in A1. inversion A1. subst t. vm_compute in D. specialize (D eq_refl). discriminate D.
Qed.

(* the same schedule with the two steps the other way round (registrations dropped first, cache cleared last --
   the order of the register program): the lookup that ran in between cached nothing that survives *)
Example reinit_interleaved_reset_first :
  let st0 := reinit [INewLock; IResetAdapters] (init R1) in
  let st1 := reinit [IClear Swap] (exec sro1 KeyFull lookup_prog register_prog (SpawnLookup k1 :: steps 0 40) st0) in
  let st2 := exec sro1 KeyFull lookup_prog register_prog (SpawnLookup k1 :: steps 1 40) st1 in
  R st1 = [] /\ heap st1 (cur st1) = [] /\
  exists t, threads st2 1 = Some t /\ cont t = [] /\ tres t = Some [].
Proof. vm_compute. split; [reflexivity|]. split; [reflexivity|]. eexists. repeat split; reflexivity. Qed.

(* last round: add_exception_view is a plain forward to add_view(exception_only=True) (was a shape pin); the clear mode of
   Registry._clear_view_lookup_cache is read from its whole body (was additionally pinned) *)
Lemma facts_excview_forward_clear : add_exception_view_forwards = true /\ clear_mode_registry = Swap /\ clear_mode_fallback = Swap.
Proof. repeat split; reflexivity. Qed.
