(* C01 -- the program REGENERATED from src/pyramid/urldispatch.py and src/pyramid/traversal.py on
   this run (Gen/Prog_C01.v: gen_call, gen_connect, gen_route_init, gen_split_path_info,
   gen_decode_path_info) equals the hand-written reference model (Model/C01.v, Lib/PathNorm),
   for all inputs; the property theorems are then restated about the regenerated program.

   The proof scripts never mention the text of the generated terms: they take the loops apart by
   pattern ([?F l = _]), do one induction per loop, case-split on the ATOMS of the primitive
   table (the matcher's answer, emptiness of the predicate list, the predicate verdict, the
   dictionary lookup, the membership test, the parse result, the static flag, comparisons of a
   segment with literals) and ask that both sides then compute to the same result or to the
   induction hypothesis.  Hence they are insensitive to the names of the source's locals, to
   the nesting and order of its tests and to the order of independent statements; they fail
   as soon as some valuation of the atoms leads the regenerated program to another result than
   the model. *)
From Coq Require Import List NArith ZArith Bool Lia Arith.
Import ListNotations.
Require Import Verif.Lib.Wire Verif.Lib.Text Verif.Lib.PathNorm Verif.Lib.C02PathNorm Verif.Lib.Utf8
  Verif.Gen.Facts_C01 Verif.Model.C01 Verif.Gen.Prog_C01 Verif.Proofs.C01 Verif.Proofs.C01_b.
Local Close Scope N_scope.
Local Open Scope nat_scope.

(* ------------------------------------------------------------ split_path_info *)
Lemma spi_step_atoms acc s :
  spi_step acc s =
  if l_is_nil s then acc
  else if text_eqb s [46%N] then acc
  else if text_eqb s [46%N; 46%N] then tl acc
  else s :: acc.
Proof. destruct s as [|a s]; reflexivity. Qed.

Lemma rev_l_drop_last {A} (c : list A) : rev (l_drop_last c) = tl (rev c).
Proof.
  unfold l_drop_last. destruct c as [|x c] using rev_ind; [reflexivity|].
  rewrite removelast_last, rev_unit. reflexivity.
Qed.
Lemma rev_l_snoc {A} (c : list A) x : rev (l_snoc c x) = x :: rev c.
Proof. unfold l_snoc. apply rev_unit. Qed.
Lemma l_is_nil_true {A} (c : list A) : l_is_nil c = true -> c = [].
Proof. destruct c; [reflexivity|discriminate]. Qed.

Ltac split_seg_atoms s :=
  repeat match goal with
         | |- context [l_is_nil ?x] =>
             let E := fresh "E" in destruct (l_is_nil x) eqn:E; [apply l_is_nil_true in E; subst x; cbn [text_eqb l_is_nil]|]
         | |- context [text_eqb s ?lit] =>
             let E := fresh "E" in
             destruct (text_eqb s lit) eqn:E;
             [ apply text_eqb_eq in E; subst s; cbn [text_eqb N.eqb Pos.eqb andb l_is_nil] | ]
         end.

Theorem gen_split_path_info_is_model p : gen_split_path_info p = split_path_info p.
Proof.
  unfold gen_split_path_info, split_path_info.
  match goal with
  | |- ?F ?L [] = _ => enough (H : forall l c, F l c = rev (resolve (rev c) l)) by apply H
  end.
  induction l as [|s l IH]; intros c; [simpl; symmetry; apply rev_involutive|].
  cbv beta match fix. rewrite resolve_cons, spi_step_atoms.
  split_seg_atoms s; rewrite IH; rewrite ?rev_l_drop_last, ?rev_l_snoc; reflexivity.
Qed.

(* ------------------------------------------------------------ decode_path_info *)
Definition decode_path_info_model (p : text) : option text :=
  if forallb (fun c => (c <? 256)%N) p then Utf8.decode p else None.

Theorem gen_decode_path_info_is_model p : gen_decode_path_info p = decode_path_info_model p.
Proof.
  unfold gen_decode_path_info, decode_path_info_model, utf8_decode_opt, latin1_encode.
  destruct (forallb (fun c => (c <? 256)%N) p); reflexivity.
Qed.

(* ------------------------------------------------------------ add_route under a route prefix *)
Theorem gen_nest_prefix_is_model old new : gen_nest_prefix old new = nest_prefix_model old new.
Proof. unfold gen_nest_prefix, nest_prefix_model. destruct old, new; reflexivity. Qed.

Theorem gen_prefix_pattern_is_model prefix inherit pattern :
  gen_prefix_pattern prefix inherit pattern = prefix_pattern_model prefix inherit pattern.
Proof.
  unfold gen_prefix_pattern, prefix_pattern_model. destruct prefix as [pf|]; [|reflexivity].
  destruct (l_is_nil pf); [reflexivity|].
  destruct (text_eqb pattern []), inherit; cbn [andb]; rewrite <- ?app_assoc; reflexivity.
Qed.

(* what the property needs of it: under a prefix the declared pattern keeps its own end (in
   particular a trailing slash); only its leading slashes and the prefix's trailing ones go *)
Theorem prefix_keeps_pattern_end pf pattern inherit :
  l_is_nil pf = false -> pattern <> [] ->
  gen_prefix_pattern (Some pf) inherit pattern = rstrip_char 47%N pf ++ 47%N :: lstrip_char 47%N pattern.
Proof.
  intros Hp Hn. rewrite gen_prefix_pattern_is_model. unfold prefix_pattern_model. rewrite Hp.
  destruct pattern; [congruence|reflexivity].
Qed.

(* ------------------------------------------------------------ the matcher closure of _compile_route *)
Theorem gen_matcher_is_model groups rem path : gen_matcher groups rem path = matcher_model groups rem path.
Proof.
  unfold gen_matcher, matcher_model. destruct (groups path) as [items|]; [|reflexivity]. cbn [option_map].
  match goal with
  | |- ?F items [] = _ => enough (H : forall l d, F l d = Some (fold_left (matcher_step rem) l d)) by apply H
  end.
  induction l as [|kv l IH]; intros d; [reflexivity|].
  cbv beta match fix. cbn [fold_left]. unfold matcher_step at 2.
  rewrite ?gen_split_path_info_is_model.
  destruct (is_remainder (fst kv) rem); apply IH.
Qed.

(* ------------------------------------------------------------ Route.__init__ / RoutesMapper.connect *)
Definition route_init_model (parse : text -> res pat) (id : nat) (name pattern : text) (preds : list pred) : res route :=
  match parse pattern with
  | Ok p => Ok (mkRoute id name p preds)
  | CompileError => CompileError | Unsupported => Unsupported | FactsDrift => FactsDrift
  end.

Theorem gen_route_init_is_model parse id name pattern preds :
  gen_route_init parse id name pattern preds = route_init_model parse id name pattern preds.
Proof. unfold gen_route_init, route_init_model. destruct (parse pattern); reflexivity. Qed.

Lemma remove_id_not_mem i l : mem_id i l = false -> remove_id i l = l.
Proof.
  induction l as [|r l IH]; simpl; [reflexivity|]. intros H. apply orb_false_iff in H as [H1 H2].
  rewrite H1, (IH H2). reflexivity.
Qed.

Theorem gen_connect_is_model parse m id d : gen_connect parse m id d = connect_with parse m id d.
Proof.
  unfold gen_connect, connect_with. rewrite ?gen_route_init_is_model. unfold route_init_model.
  destruct m as [rl st rs].
  cbn [routelist statics routes set_routelist set_statics set_routes connected connect_failed l_snoc].
  repeat match goal with
         | |- context [assoc_get ?a ?b] => destruct (assoc_get a b) eqn:?
         | |- context [mem_id ?a ?b] =>
             let E := fresh "E" in destruct (mem_id a b) eqn:E; [|rewrite ?(remove_id_not_mem _ _ E)]
         | |- context [parse ?x] => destruct (parse x) eqn:?
         | |- context [d_static ?x] => destruct (d_static x) eqn:?
         end;
    cbn [routelist statics routes set_routelist set_statics set_routes connected connect_failed l_snoc];
    reflexivity.
Qed.

Lemma connect_all_f_is_with parse ds : forall m id,
  connect_all_f (gen_connect parse) m id ds = connect_all_with parse m id ds.
Proof.
  induction ds as [|d ds IH]; intros m id; [reflexivity|]. cbn [connect_all_f connect_all_with].
  rewrite gen_connect_is_model. destruct (connect_with parse m id d) as [m1 st]. rewrite IH. reflexivity.
Qed.

(* ------------------------------------------------------------ the listings of a RoutesMapper *)
Theorem gen_get_routes_is_model m b : gen_get_routes m b = get_routes_model m b.
Proof. unfold gen_get_routes, get_routes_model. destruct b; reflexivity. Qed.
Theorem gen_has_routes_is_model m : gen_has_routes m = has_routes_model m.
Proof. unfold gen_has_routes, has_routes_model. destruct (l_is_nil (routelist m)); reflexivity. Qed.
Theorem gen_get_route_is_model m n : gen_get_route m n = get_route_model m n.
Proof. reflexivity. Qed.

(* ------------------------------------------------------------ RoutesMapper.__call__ *)
(* what is observed of a call: the selection, and the predicate-call events that called at
   least one predicate (a route without predicates leaves no trace) *)
Definition nz (tr : list (nat * nat)) : list (nat * nat) := filter (fun e => negb (Nat.eqb (snd e) 0)) tr.
Definition obs_call (x : tracedout) : outcome * list (nat * nat) := (fst x, nz (snd x)).
Definition conv_sel (x : option (route * matchdict) * list (nat * nat)) : tracedout :=
  match x with (Some (r, d), tr) => (OMatch r d, tr) | (None, tr) => (ONone, tr) end.

Lemma obs_emit ev k1 k2 : obs_call k1 = obs_call k2 -> obs_call (emit ev k1) = obs_call (emit ev k2).
Proof.
  unfold obs_call, emit. simpl. intros H. injection H as H1 H2. rewrite H1.
  destruct (negb (snd ev =? 0)); rewrite H2; reflexivity.
Qed.

Lemma eval_preds_nil_called method d ps : l_is_nil ps = false -> snd (eval_preds method d ps 0) <> 0.
Proof.
  destruct ps as [|p ps]; [discriminate|]. intros _. simpl.
  assert (G : forall qs n, snd (eval_preds method d qs (S n)) <> 0).
  { induction qs as [|q qs IH]; intros n; simpl; [discriminate|]. destruct (pred_ok method d q); [apply IH|discriminate]. }
  destruct (pred_ok method d p); [apply G|discriminate].
Qed.

Lemma conv_sel_step mt method r rest path :
  conv_sel (dispatch_with mt method (r :: rest) path) =
  match mt (r_pat r) path with
  | Some d =>
      if preds_verdict method d (r_preds r)
      then (OMatch r d, [(r_id r, preds_called method d (r_preds r))])
      else emit (r_id r, preds_called method d (r_preds r)) (conv_sel (dispatch_with mt method rest path))
  | None => conv_sel (dispatch_with mt method rest path)
  end.
Proof.
  cbn [dispatch_with]. unfold preds_verdict, preds_called.
  destruct (mt (r_pat r) path) as [d|]; [|reflexivity].
  destruct (eval_preds method d (r_preds r) 0) as [ok n]. destruct ok; simpl; [reflexivity|].
  destruct (dispatch_with mt method rest path) as [[[r' d']|] tr]; reflexivity.
Qed.

Ltac call_loop mt method path :=
  match goal with
  | |- obs_call (?F ?L) = _ =>
      let H := fresh "H" in
      enough (H : forall l, obs_call (F l) = obs_call (conv_sel (dispatch_with mt method l path))) by apply H;
      let l := fresh "l" in let r := fresh "r" in let IH := fresh "IH" in
      induction l as [|r l IH]; [reflexivity|];
      rewrite conv_sel_step; cbv beta match fix;
      repeat match goal with
             | |- context [mt ?a ?b] => destruct (mt a b) eqn:?
             end; try exact IH;
      repeat match goal with
             | |- context [l_is_nil (r_preds r)] =>
                 let E := fresh "E" in destruct (l_is_nil (r_preds r)) eqn:E;
                 [ apply l_is_nil_true in E; rewrite E; cbn; try reflexivity
                 | idtac ]
             | |- context [preds_verdict ?a ?b ?c] => destruct (preds_verdict a b c) eqn:?
             end;
      try reflexivity; try (apply obs_emit; exact IH);
      try (unfold obs_call, emit, ret_match, nz; simpl;
           match goal with
           | E : l_is_nil (r_preds r) = false |- _ =>
               let N := fresh "N" in
               pose proof (eval_preds_nil_called method _ _ E) as N; unfold preds_called;
               match goal with |- context [Nat.eqb ?n 0] => destruct (Nat.eqb_spec n 0); [contradiction|reflexivity] end
           end)
  end.

Theorem gen_call_is_model mt m method raw :
  obs_call (gen_call mt m method raw) = obs_call (dispatch_request_with mt m method raw).
Proof.
  unfold gen_call, dispatch_request_with, request_path, req_path_info, path_default.
  destruct raw as [b|]; [destruct (Utf8.decode b) as [[|c t]|]|]; cbn [l_is_nil];
    try reflexivity;
    match goal with
    | |- _ = obs_call (match dispatch_with mt method ?L ?P with _ => _ end) =>
        change (match dispatch_with mt method L P with (Some (r, d), tr) => (OMatch r d, tr) | (None, tr) => (ONone, tr) end)
          with (conv_sel (dispatch_with mt method L P));
        call_loop mt method P
    end.
Qed.

(* ------------------------------------------------------------ the property theorems, about the regenerated program *)
Definition spec_of_outcome (o : outcome) : spec_outcome :=
  match o with
  | ODecodeError => SDecodeError | OMatch r d => SMatch r d | ONone => SNone | OConfigError => SNothing
  end.

Lemma fst_gen_call mt m method raw :
  fst (gen_call mt m method raw) = fst (dispatch_request_with mt m method raw).
Proof. pose proof (gen_call_is_model mt m method raw) as H. unfold obs_call in H. injection H as H _. exact H. Qed.

(* end to end: the mapper built by the regenerated connect, asked through the regenerated
   __call__, answers what the declarative specification says (first qualifying route in
   declaration order with last-wins names; none; decode error) *)
Theorem gen_request_spec_m O ds method raw m sts :
  sup_with (spec_parse_m O) ds = true ->
  connect_all_f (gen_connect (parse_pattern_m O)) empty_mapper 0 ds = (m, sts) ->
  spec_request_m O ds method raw = spec_of_outcome (fst (gen_call (match_pat_m O) m method raw)).
Proof.
  intros Hs H. rewrite connect_all_f_is_with in H. rewrite fst_gen_call.
  exact (request_spec_m O ds method raw m sts Hs H).
Qed.

Theorem gen_connect_last_wins parse ds m sts :
  connect_all_f (gen_connect parse) empty_mapper 0 ds = (m, sts) ->
  map is_ok sts = map (parses_b parse) (number 0 ds)
  /\ routelist m = map (mkr_w parse) (filter (good parse) (last_wins (number 0 ds))).
Proof. rewrite connect_all_f_is_with. apply connect_last_wins_general. Qed.

Theorem gen_invalid_utf8_refused mt m method raw :
  Utf8.decode raw = None -> obs_call (gen_call mt m method (Some raw)) = (ODecodeError, []).
Proof.
  intros H. rewrite gen_call_is_model. unfold dispatch_request_with, request_path. rewrite H. reflexivity.
Qed.

Theorem gen_dispatch_first mt m method raw r d :
  fst (gen_call mt m method raw) = OMatch r d ->
  exists path pre post, request_path raw = RPath path /\ routelist m = pre ++ r :: post
    /\ Forall (fun r' => qual mt method path r' = false) pre
    /\ mt (r_pat r) path = Some d /\ forallb (pred_ok method d) (r_preds r) = true.
Proof.
  rewrite fst_gen_call. unfold dispatch_request_with.
  destruct (request_path raw) as [|path]; [discriminate|].
  destruct (dispatch_with mt method (routelist m) path) as [[[r0 d0]|] tr] eqn:E; [|discriminate].
  simpl. intros H. injection H as <- <-.
  assert (F : fst (dispatch_with mt method (routelist m) path) = Some (r0, d0)) by (rewrite E; reflexivity).
  apply dispatch_first in F. destruct F as (pre & post & H1 & H2 & H3 & H4).
  exists path, pre, post. auto.
Qed.

(* every dispatch of a history is judged on its own path (the regenerated __call__ is a function
   of the mapper and the request only) *)
Theorem gen_history_spec_m O ds steps m sts :
  sup_with (spec_parse_m O) ds = true ->
  connect_all_f (gen_connect (parse_pattern_m O)) empty_mapper 0 ds = (m, sts) ->
  spec_hist (spec_parse_m O) (spec_match_m O) ds steps =
  map (fun s => spec_of_outcome (fst (gen_call (match_pat_m O) m (snd s) (fst s)))) steps.
Proof.
  intros Hs H. unfold spec_hist. apply map_ext. intros s. exact (gen_request_spec_m O ds (snd s) (fst s) m sts Hs H).
Qed.

Theorem gen_split_normal p : Forall normal_seg (gen_split_path_info p).
Proof. rewrite gen_split_path_info_is_model. apply spi_normal. Qed.

(* non-vacuity, computed by the regenerated program itself *)
Require Import Coq.Strings.String.
Example c01_gen_nonvacuous :
  let parse := parse_pattern_m no_oracle in
  let ds := [mkDecl (T "r0") (T "/{a}") false [PConst false]; mkDecl (T "r1") (T "/x") false [PMethod (T "GET")];
             mkDecl (T "r0") (T "/{bad name}") false []; mkDecl (T "r2") (T "/*all") false []] in
  let m := fst (connect_all_f (gen_connect parse) empty_mapper 0 ds) in
  map r_id (routelist m) = [1; 3]%nat
  /\ map is_ok (snd (connect_all_f (gen_connect parse) empty_mapper 0 ds)) = [true; true; false; true]
  /\ (exists r d, gen_call (match_pat_m no_oracle) m (T "GET") (Some (T "/x")) = (OMatch r d, [(1, 1)]%nat) /\ r_id r = 1)
  /\ (exists r, gen_call (match_pat_m no_oracle) m (T "POST") (Some (T "/x")) = (OMatch r [(T "all", MSegs [T "x"])], [(1, 1)]%nat)
                /\ r_id r = 3)
  /\ gen_call (match_pat_m no_oracle) m (T "GET") (Some [47; 255]%N) = (ODecodeError, [])
  /\ gen_split_path_info (T "/a/../b//./c/") = [T "b"; T "c"]
  /\ gen_decode_path_info [47; 195; 169]%N = Some [47; 233]%N.
Proof. vm_compute. repeat split; eexists; try eexists; split; reflexivity. Qed.
