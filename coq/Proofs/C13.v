(* C13: collects the proofs of part (a) (Proofs/C13_a.v) and part (b) (Proofs/C13_b.v). *)
Require Export Verif.Proofs.C13_a Verif.Proofs.C13_b Verif.Proofs.C13_c Verif.Proofs.C13_d Verif.Proofs.C13_e.
