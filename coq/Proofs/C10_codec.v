(* C10 -- round trips of the concrete wire format: json_loads (json_dumps v) = Some v for
   well-formed data, b64dec (b64enc x) = Some x for bytes *)
From Coq Require Import List NArith ZArith Bool Lia ZifyBool ZifyN Arith.
Import ListNotations.
Ltac Zify.zify_post_hook ::= Z.div_mod_to_equations.
Require Import Verif.Lib.Wire Verif.Gen.Facts_C10 Verif.Model.C10 Verif.Proofs.C10 Verif.Proofs.C10_sat.

Definition ex_v : jv :=
  JList [JInt (-1205); JFlt 4001; JFlt (-3); JNull; JBool true; JBool false; JList []; JObj [];
         JStr [97; 34; 92; 10; 233; 8364; 128512; 0; 127]%N;
         JObj [([107]%N, JList [JInt 0; JStr []]); ([]%N, JObj [([233]%N, JFlt 0)])]].
Example ex_json_roundtrip : json_loads (json_dumps ex_v) = Some ex_v.
Proof. vm_compute. reflexivity. Qed.
Example ex_b64_roundtrip :
  b64dec (b64enc [0; 255; 16; 7]%N) = Some [0; 255; 16; 7]%N /\ b64dec (b64enc [1; 2]%N) = Some [1; 2]%N
  /\ b64dec (b64enc [250; 251; 252]%N) = Some [250; 251; 252]%N
  (* leniency: '!' inside, '=' appended, '+' for '-' decode to the same bytes; one data character too many does not *)
  /\ b64dec ([65; 33; 33]%N ++ b64enc [250; 251; 252]%N) = None
  /\ b64dec (b64enc [250; 251; 252]%N ++ [61; 61; 61; 61]%N) = Some [250; 251; 252]%N
  /\ b64dec ([33; 10; 32]%N ++ b64enc [1; 2]%N ++ [61; 61; 33; 65; 65]%N) = Some [1; 2]%N.
Proof. vm_compute. repeat split; reflexivity. Qed.

(* ------------------------------------------------------------------ base64 *)
Definition is_byte (b : N) : Prop := (b < 256)%N.

Lemma b64v_b64c n : (n < 64)%N -> b64v (b64c n) = Some n.
Proof.
  intros H. unfold b64c.
  destruct (n <? 26)%N eqn:A; [|destruct (n <? 52)%N eqn:B; [|destruct (n <? 62)%N eqn:C; [|destruct (n =? 62)%N eqn:D]]];
    unfold b64v;
    repeat match goal with |- context[if ?b then _ else _] => destruct b eqn:? end;
    try (f_equal; lia); try lia.
Qed.

Lemma b64c_small n : (b64c n <? 256)%N = true /\ (b64c n =? 61)%N = false.
Proof.
  unfold b64c. repeat match goal with |- context[if ?b then _ else _] => destruct b eqn:? end; split; lia.
Qed.

(* one data character *)
Lemma go_data s r qp left pads : (s < 64)%N ->
  b64go (b64c s :: r) qp left pads =
  if (qp =? 0)%N then b64go r 1%N s 0%N
  else if (qp =? 1)%N then ocons (left * 4 + s / 16)%N (b64go r 2%N (s mod 16)%N 0%N)
  else if (qp =? 2)%N then ocons (left * 16 + s / 4)%N (b64go r 3%N (s mod 4)%N 0%N)
  else ocons (left * 64 + s)%N (b64go r 0%N 0%N 0%N).
Proof.
  intros H. cbn [b64go]. destruct (b64c_small s) as [_ E]. rewrite E, (b64v_b64c s H). reflexivity.
Qed.

Lemma b64pad_4 m : b64pad (S (S (S (S m)))) = b64pad m.
Proof.
  unfold b64pad. replace (S (S (S (S m)))) with (m + 1 * 4) by lia. rewrite Nat.mod_add by lia. reflexivity.
Qed.

Lemma b64go_round : forall n x, length x <= n -> Forall is_byte x ->
  b64go (b64enc x ++ b64pad (length (b64enc x))) 0%N 0%N 0%N = Some x.
Proof.
  unfold is_byte.
  induction n as [|n IH]; intros x L F.
  - destruct x; [reflexivity|cbn in L; lia].
  - destruct x as [|a [|b [|c r]]]; [reflexivity| | |].
    + inversion F as [|? ? Ha _]; subst. cbn [b64enc app length]. change (b64pad 2) with [61; 61]%N. cbn [app].
      rewrite !go_data by lia. cbn [N.eqb Pos.eqb b64go N.leb N.add N.compare Pos.compare Pos.compare_cont Pos.add Pos.succ ocons].
      f_equal. f_equal. lia.
    + inversion F as [|? ? Ha F1]; subst. inversion F1 as [|? ? Hb _]; subst.
      cbn [b64enc app length]. change (b64pad 3) with [61]%N. cbn [app].
      rewrite !go_data by lia. cbn [N.eqb Pos.eqb b64go N.leb N.add N.compare Pos.compare Pos.compare_cont Pos.add Pos.succ ocons].
      f_equal. f_equal; [lia|f_equal; lia].
    + inversion F as [|? ? Ha F1]; subst. inversion F1 as [|? ? Hb F2]; subst. inversion F2 as [|? ? Hc F3]; subst.
      cbn [b64enc app length]. rewrite b64pad_4.
      rewrite !go_data by lia. cbn [N.eqb Pos.eqb].
      assert (Lr : length r <= n) by (cbn [length] in L; lia).
      rewrite (IH r Lr F3). cbn [ocons].
      f_equal. f_equal; [lia|f_equal; [lia|f_equal; lia]].
Qed.

Lemma b64enc_latin1 : forall n x, length x <= n -> existsb (fun c => (256 <=? c)%N) (b64enc x) = false.
Proof.
  induction n as [|n IH]; intros x L.
  - destruct x; [reflexivity|cbn in L; lia].
  - destruct x as [|a [|b [|c r]]]; [reflexivity| | |]; cbn [b64enc app existsb];
      repeat match goal with |- context [(256 <=? b64c ?v)%N] =>
               let H := fresh in destruct (b64c_small v) as [H _];
               replace (256 <=? b64c v)%N with false by lia; clear H end;
      cbn [orb]; try reflexivity.
    apply IH. cbn [length] in L. lia.
Qed.

Lemma b64dec_b64enc x : Forall is_byte x -> b64dec (b64enc x) = Some x.
Proof.
  intros F. unfold b64dec. rewrite (b64enc_latin1 (length x) x (le_n _)).
  apply (b64go_round (length x)); [apply le_n|exact F].
Qed.

(* the decoder is lenient: characters outside both alphabets are discarded wherever they stand, so an
   altered text can decode to the very same bytes *)
Lemma b64go_skip c r qp left pads : (c =? 61)%N = false -> b64v c = None ->
  b64go (c :: r) qp left pads = b64go r qp left pads.
Proof. intros A B. cbn [b64go]. rewrite A, B. reflexivity. Qed.

(* ------------------------------------------------------------------ JSON strings *)
Lemma hexv_hexd x : (x < 16)%N -> hexv (hexd x) = Some x.
Proof.
  intros H. unfold hexd. destruct (x <? 10)%N eqn:A; unfold hexv, is_digit;
    repeat match goal with |- context[if ?b then _ else _] => destruct b eqn:? end;
    try (f_equal; lia); try lia.
Qed.

Lemma read_u4_ok x r : (x < 65536)%N ->
  read_u4 (hexd (x / 4096) :: hexd ((x / 256) mod 16) :: hexd ((x / 16) mod 16) :: hexd (x mod 16) :: r) = Some (x, r).
Proof.
  intros H. unfold read_u4. rewrite !hexv_hexd by lia. f_equal. f_equal. lia.
Qed.

Lemma rs_q f r : read_str (S f) (34%N :: r) = Some ([], r).
Proof. reflexivity. Qed.
Lemma rs_plain f c r : (c =? 34)%N = false -> (c =? 92)%N = false ->
  read_str (S f) (c :: r) = cons_res c (read_str f r).
Proof. intros A B. cbn [read_str]. rewrite A, B. reflexivity. Qed.
Lemma rs_esc f e x r : (e =? 117)%N = false -> unesc e = Some x ->
  read_str (S f) (92%N :: e :: r) = cons_res x (read_str f r).
Proof. intros A B. cbn [read_str]. change (92 =? 34)%N with false. change (92 =? 92)%N with true. cbv iota. rewrite A, B. reflexivity. Qed.
Lemma rs_u_single f h r r2 : read_u4 r = Some (h, r2) -> ((55296 <=? h)%N && (h <=? 56319)%N) = false ->
  read_str (S f) (92%N :: 117%N :: r) = cons_res h (read_str f r2).
Proof.
  intros A B. cbn [read_str]. change (92 =? 34)%N with false. change (92 =? 92)%N with true.
  change (117 =? 117)%N with true. cbv iota. rewrite A, B. reflexivity.
Qed.
Lemma rs_u_pair f h lo r r2 r4 : read_u4 r = Some (h, 92%N :: 117%N :: r2) ->
  ((55296 <=? h)%N && (h <=? 56319)%N) = true -> read_u4 r2 = Some (lo, r4) ->
  ((56320 <=? lo)%N && (lo <=? 57343)%N) = true ->
  read_str (S f) (92%N :: 117%N :: r) = cons_res (65536 + (h - 55296) * 1024 + (lo - 56320))%N (read_str f r4).
Proof.
  intros A B C D. cbn [read_str]. change (92 =? 34)%N with false. change (92 =? 92)%N with true.
  change (117 =? 117)%N with true. cbv iota. rewrite A, B. cbv iota.
  change ((92 =? 92)%N && (117 =? 117)%N) with true. cbv iota. rewrite C, D. reflexivity.
Qed.

Lemma esc_char_len c : 1 <= length (esc_char c).
Proof.
  unfold esc_char, u4.
  repeat match goal with |- context[if ?b then _ else _] => destruct b end; cbn [length app]; try rewrite app_length; cbn [length]; lia.
Qed.

Lemma read_str_ok : forall s, forallb wf_char s = true -> forall f rest, length s < f ->
  read_str f (flat_map esc_char s ++ 34%N :: rest) = Some (s, rest).
Proof.
  induction s as [|c s IH]; intros W f rest L; (destruct f as [|f]; [lia|]).
  - apply rs_q.
  - cbn [forallb] in W. apply andb_true_iff in W. destruct W as [Wc Ws].
    cbn [length] in L. assert (Lf : length s < f) by lia.
    specialize (IH Ws f rest Lf).
    cbn [flat_map]. rewrite <- app_assoc. set (T := flat_map esc_char s ++ 34%N :: rest) in *.
    unfold wf_char in Wc. unfold esc_char.
    destruct (c =? 34)%N eqn:E1; [apply N.eqb_eq in E1; subst c; cbn [app]; rewrite (rs_esc f 34 34) by reflexivity; rewrite IH; reflexivity|].
    destruct (c =? 92)%N eqn:E2; [apply N.eqb_eq in E2; subst c; cbn [app]; rewrite (rs_esc f 92 92) by reflexivity; rewrite IH; reflexivity|].
    destruct (c =? 10)%N eqn:E3; [apply N.eqb_eq in E3; subst c; cbn [app]; rewrite (rs_esc f 110 10) by reflexivity; rewrite IH; reflexivity|].
    destruct (c =? 13)%N eqn:E4; [apply N.eqb_eq in E4; subst c; cbn [app]; rewrite (rs_esc f 114 13) by reflexivity; rewrite IH; reflexivity|].
    destruct (c =? 9)%N eqn:E5; [apply N.eqb_eq in E5; subst c; cbn [app]; rewrite (rs_esc f 116 9) by reflexivity; rewrite IH; reflexivity|].
    destruct (c =? 8)%N eqn:E6; [apply N.eqb_eq in E6; subst c; cbn [app]; rewrite (rs_esc f 98 8) by reflexivity; rewrite IH; reflexivity|].
    destruct (c =? 12)%N eqn:E7; [apply N.eqb_eq in E7; subst c; cbn [app]; rewrite (rs_esc f 102 12) by reflexivity; rewrite IH; reflexivity|].
    destruct ((32 <=? c)%N && (c <=? 126)%N) eqn:E8.
    { cbn [app]. rewrite rs_plain by assumption. rewrite IH. reflexivity. }
    destruct (c <? 65536)%N eqn:E9.
    { unfold u4. cbn [app].
      rewrite (rs_u_single f c _ T); [rewrite IH; reflexivity|apply read_u4_ok; lia|].
      lia. }
    set (v := (c - 65536)%N).
    assert (Hv : (v < 1048576)%N) by lia.
    unfold u4. rewrite <- app_assoc. cbn [app].
    set (hi := (55296 + v / 1024)%N). set (lo := (56320 + v mod 1024)%N).
    rewrite (rs_u_pair f hi lo _
               (hexd (lo / 4096) :: hexd ((lo / 256) mod 16) :: hexd ((lo / 16) mod 16) :: hexd (lo mod 16) :: T) T).
    + rewrite IH. unfold hi, lo. cbn [cons_res]. f_equal. f_equal. f_equal. lia.
    + apply read_u4_ok. unfold hi. lia.
    + unfold hi. lia.
    + apply read_u4_ok. unfold lo. lia.
    + unfold lo. lia.
Qed.

(* ------------------------------------------------------------------ JSON numbers *)
Lemma numval_app a b x : numval (a ++ b) x = numval b (numval a x).
Proof. unfold numval. apply fold_left_app. Qed.

Definition P2 (f : nat) : N := (2 ^ N.of_nat f)%N.
Lemma P2_0 : P2 0 = 1%N. Proof. reflexivity. Qed.
Lemma P2_S f : P2 (S f) = (2 * P2 f)%N.
Proof. unfold P2. rewrite Nat2N.inj_succ, N.pow_succ_r'. reflexivity. Qed.

Lemma dec_fuel_S f n acc :
  dec_fuel (S f) n acc = if (n / 10 =? 0)%N then (48 + n mod 10)%N :: acc
                         else dec_fuel f (n / 10) ((48 + n mod 10)%N :: acc).
Proof. reflexivity. Qed.

Lemma dec_fuel_spec : forall f n acc, (n < P2 (S f))%N ->
  exists l, dec_fuel (S f) n acc = l ++ acc /\ forallb is_digit l = true /\ l <> [] /\ numval l 0 = n.
Proof.
  induction f as [|f IH]; intros n acc H; rewrite dec_fuel_S.
  - rewrite P2_S, P2_0 in H.
    assert (E : (n / 10 =? 0)%N = true) by lia. rewrite E.
    exists [(48 + n mod 10)%N]. repeat split; [|discriminate|].
    + cbn [forallb]. unfold is_digit. lia.
    + unfold numval. cbn [fold_left]. lia.
  - destruct (n / 10 =? 0)%N eqn:E.
    + exists [(48 + n mod 10)%N]. repeat split; [|discriminate|].
      * cbn [forallb]. unfold is_digit. lia.
      * unfold numval. cbn [fold_left]. lia.
    + rewrite !P2_S in H.
      destruct (IH (n / 10)%N ((48 + n mod 10)%N :: acc)) as (l & E1 & E2 & E3 & E4).
      { rewrite P2_S. lia. }
      exists (l ++ [(48 + n mod 10)%N]). repeat split.
      * rewrite E1, <- app_assoc. reflexivity.
      * rewrite forallb_app, E2. cbn [forallb]. unfold is_digit. lia.
      * destruct l; discriminate.
      * rewrite numval_app, E4. unfold numval. cbn [fold_left]. lia.
Qed.

Lemma dec_N_spec n : exists l, dec_N n = l /\ forallb is_digit l = true /\ l <> [] /\ numval l 0 = n.
Proof.
  unfold dec_N.
  destruct (dec_fuel_spec (N.to_nat (N.log2 n)) n []) as (l & E1 & E2 & E3 & E4).
  - unfold P2. rewrite Nat2N.inj_succ, N2Nat.id.
    destruct n as [|p]; [reflexivity|]. apply N.log2_spec. reflexivity.
  - exists l. rewrite app_nil_r in E1. auto.
Qed.

Definition no_digit_head (r : text) : Prop := match r with [] => True | c :: _ => is_digit c = false end.

Lemma span_digits_app l r : forallb is_digit l = true -> no_digit_head r -> span_digits (l ++ r) = (l, r).
Proof.
  induction l as [|c l IH]; intros F H.
  - cbn [app]. destruct r as [|c r]; [reflexivity|]. cbn in H |- *. rewrite H. reflexivity.
  - cbn [forallb] in F. apply andb_true_iff in F. destruct F as [Fc Fl].
    cbn [app span_digits]. rewrite Fc, (IH Fl H). reflexivity.
Qed.

Definition num_tail (neg : bool) (n : Z) (r : text) : option (jv * text) :=
  let sg := fun z : Z => if neg then Z.opp z else z in
  match r with
  | d :: a :: r1 =>
      if (d =? 46)%N then
        if (a =? 48)%N then Some (JFlt (sg (n * 4)%Z), r1)
        else if (a =? 53)%N then Some (JFlt (sg (n * 4 + 2)%Z), r1)
        else match r1 with
             | b :: r2 =>
                 if (a =? 50)%N && (b =? 53)%N then Some (JFlt (sg (n * 4 + 1)%Z), r2)
                 else if (a =? 55)%N && (b =? 53)%N then Some (JFlt (sg (n * 4 + 3)%Z), r2)
                 else None
             | [] => None
             end
      else Some (JInt (sg n), r)
  | _ => Some (JInt (sg n), r)
  end.

Lemma read_num_gen (neg : bool) l r : forallb is_digit l = true -> l <> [] -> no_digit_head r ->
  read_num ((if neg then [45%N] else []) ++ l ++ r) = num_tail neg (Z.of_N (numval l 0)) r.
Proof.
  intros F NE H. destruct neg.
  - cbn [app]. unfold read_num. cbv beta iota. change (45 =? 45)%N with true. cbv beta iota.
    rewrite (span_digits_app l r F H). destruct l as [|c l]; [contradiction|reflexivity].
  - destruct l as [|c l]; [contradiction|].
    pose proof F as F'. cbn [forallb] in F'. apply andb_true_iff in F'. destruct F' as [Fc _].
    assert (E : (c =? 45)%N = false) by (unfold is_digit in Fc; lia).
    cbn [app]. unfold read_num. cbv beta iota. rewrite E. cbv beta iota.
    change (c :: l ++ r) with ((c :: l) ++ r). rewrite (span_digits_app (c :: l) r F H). reflexivity.
Qed.

Lemma read_num_neg l r : forallb is_digit l = true -> l <> [] -> no_digit_head r ->
  read_num (45%N :: l ++ r) = num_tail true (Z.of_N (numval l 0)) r.
Proof. intros. exact (read_num_gen true l r H H0 H1). Qed.
Lemma read_num_pos l r : forallb is_digit l = true -> l <> [] -> no_digit_head r ->
  read_num (l ++ r) = num_tail false (Z.of_N (numval l 0)) r.
Proof. intros. exact (read_num_gen false l r H H0 H1). Qed.

Definition ok_rest (r : text) : Prop :=
  match r with [] => True | c :: _ => c = 44%N \/ c = 93%N \/ c = 125%N end.

Lemma ok_rest_no_digit r : ok_rest r -> no_digit_head r.
Proof. destruct r as [|c r]; [auto|]. cbn. unfold is_digit. intros [ -> | [ -> | -> ] ]; reflexivity. Qed.

Lemma read_num_int z r : ok_rest r -> read_num (dec_Z z ++ r) = Some (JInt z, r).
Proof.
  intros H. unfold dec_Z.
  destruct (z <? 0)%Z eqn:Z0.
  - destruct (dec_N_spec (Z.abs_N z)) as (l & El & F & NE & V); rewrite El; clear El.
    cbn [app]. rewrite (read_num_neg l r) by (auto using ok_rest_no_digit). rewrite V. unfold num_tail.
    assert (Ez : (- Z.of_N (Z.abs_N z))%Z = z) by (rewrite N2Z.inj_abs_N; lia).
    destruct r as [|c [|a r1]]; cbv beta zeta iota; rewrite ?Ez; try reflexivity.
    cbn in H. assert (H0 : (c =? 46)%N = false) by lia. rewrite H0. reflexivity.
  - destruct (dec_N_spec (Z.to_N z)) as (l & El & F & NE & V); rewrite El; clear El.
    rewrite (read_num_pos l r) by (auto using ok_rest_no_digit). rewrite V. unfold num_tail.
    assert (Ez : Z.of_N (Z.to_N z) = z) by lia.
    destruct r as [|c [|a r1]]; cbv beta zeta iota; rewrite ?Ez; try reflexivity.
    cbn in H. assert (H0 : (c =? 46)%N = false) by lia. rewrite H0. reflexivity.
Qed.

Lemma read_num_flt q r : read_num (flt_repr q ++ r) = Some (JFlt q, r).
Proof.
  unfold flt_repr.
  destruct (dec_N_spec (Z.abs_N q / 4)) as (l & El & F & NE & V); rewrite El; clear El.
  assert (A : Z.of_N (Z.abs_N q) = Z.abs q) by apply N2Z.inj_abs_N.
  set (a := Z.abs_N q) in *.
  assert (M : (a mod 4 = 0 \/ a mod 4 = 1 \/ a mod 4 = 2 \/ a mod 4 = 3)%N) by lia.
  assert (D : Z.of_N (a / 4) = (Z.of_N a / 4)%Z) by (rewrite N2Z.inj_div; reflexivity).
  assert (Md : Z.of_N (a mod 4) = (Z.of_N a mod 4)%Z) by (rewrite N2Z.inj_mod; reflexivity).
  destruct (q <? 0)%Z eqn:Q; rewrite <- !app_assoc; cbn [app];
    [rewrite read_num_neg by (auto; reflexivity)|rewrite read_num_pos by (auto; reflexivity)];
    rewrite V; unfold num_tail;
    destruct M as [M|[M|[M|M]]]; rewrite M; cbn [frac_repr app N.eqb Pos.eqb andb];
    f_equal; f_equal; f_equal; lia.
Qed.

(* ------------------------------------------------------------------ JSON values *)
Lemma dec_N_head n : exists c t, dec_N n = c :: t /\ is_digit c = true.
Proof.
  destruct (dec_N_spec n) as (l & El & F & NE & _). rewrite El. destruct l as [|c t]; [contradiction|].
  cbn [forallb] in F. apply andb_true_iff in F. exists c, t. tauto.
Qed.

Definition num_head (c : N) : Prop := c = 45%N \/ is_digit c = true.

Lemma dec_Z_head z : exists c t, dec_Z z = c :: t /\ num_head c.
Proof.
  unfold dec_Z, num_head. destruct (z <? 0)%Z; [eauto|].
  destruct (dec_N_head (Z.to_N z)) as (c & t & E & D). rewrite E. eauto.
Qed.
Lemma flt_repr_head q : exists c t, flt_repr q = c :: t /\ num_head c.
Proof.
  unfold flt_repr, num_head. destruct (q <? 0)%Z; [cbn [app]; eauto|].
  destruct (dec_N_head (Z.abs_N q / 4)) as (c & t & E & D). rewrite E. cbn [app]. eauto.
Qed.

Lemma parse_num f c t : num_head c -> parse (S f) (c :: t) = read_num (c :: t).
Proof.
  intros H. cbn [parse].
  assert ((c =? 110)%N = false /\ (c =? 116)%N = false /\ (c =? 102)%N = false /\ (c =? 34)%N = false
          /\ (c =? 91)%N = false /\ (c =? 123)%N = false) as (A1 & A2 & A3 & A4 & A5 & A6)
    by (unfold num_head, is_digit in H; lia).
  rewrite A1, A2, A3, A4, A5, A6. reflexivity.
Qed.

Lemma json_head v : exists c t, json_dumps v = c :: t /\ c <> 93%N /\ c <> 125%N.
Proof.
  destruct v as [| [|] | z | q | s | l | m]; cbn [json_dumps]; unfold json_str;
    try (eexists; eexists; split; [reflexivity|split; discriminate]).
  - destruct (dec_Z_head z) as (c & t & E & H). rewrite E. exists c, t.
    unfold num_head, is_digit in H. split; [reflexivity|lia].
  - destruct (flt_repr_head q) as (c & t & E & H). rewrite E. exists c, t.
    unfold num_head, is_digit in H. split; [reflexivity|lia].
Qed.

Lemma json_len_pos v : 1 <= length (json_dumps v).
Proof. destruct (json_head v) as (c & t & E & _). rewrite E. cbn [length]. lia. Qed.

Lemma join_sep_cons (x y : text) (l : list text) : join_sep (x :: y :: l) = x ++ [44; 32]%N ++ join_sep (y :: l).
Proof. reflexivity. Qed.

Lemma join_len_in (x : text) (l : list text) : In x l -> length x <= length (join_sep l).
Proof.
  induction l as [|y l IH]; [intros []|].
  destruct l as [|z l].
  - intros [->|[]]. cbn [join_sep]. lia.
  - rewrite join_sep_cons, !app_length. intros [->|H]; [lia|]. specialize (IH H). cbn [length]. lia.
Qed.

Lemma join_len_count {A} (g : A -> text) l : (forall x, 1 <= length (g x)) ->
  length l <= length (join_sep (map g l)).
Proof.
  intros G. induction l as [|y l IH]; [cbn; lia|].
  destruct l as [|z l].
  - cbn [map join_sep length]. specialize (G y). lia.
  - cbn [map] in *. rewrite join_sep_cons, !app_length. cbn [length] in *. specialize (G y). lia.
Qed.

Lemma p_items_ok (d : reader) : forall l k rest, l <> [] ->
  Forall (fun x => forall r, ok_rest r -> d (json_dumps x ++ r) = Some (x, r)) l ->
  length l <= k ->
  p_items d k (join_sep (map json_dumps l) ++ 93%N :: rest) = Some (l, rest).
Proof.
  induction l as [|x l IH]; intros k rest NE F L; [contradiction|].
  destruct k as [|k]; [cbn in L; lia|].
  inversion F as [|? ? Hx Fl]; subst.
  destruct l as [|y l].
  - cbn [map join_sep p_items]. rewrite Hx by (cbn; auto). reflexivity.
  - cbn [map]. rewrite join_sep_cons. rewrite <- !app_assoc. cbn [p_items].
    rewrite Hx by (cbn; auto). cbn [app].
    change (44 =? 93)%N with false. change (44 =? 44)%N with true. change (32 =? 32)%N with true. cbv iota.
    change (json_dumps y :: map json_dumps l) with (map json_dumps (y :: l)).
    rewrite (IH k rest); [reflexivity|discriminate|exact Fl|cbn [length] in *; lia].
Qed.

Definition pair_text (kv : text * jv) : text := json_str (fst kv) ++ [58; 32]%N ++ json_dumps (snd kv).

Lemma p_pairs_ok (d : reader) f : forall m k rest, m <> [] ->
  Forall (fun kv => forallb wf_char (fst kv) = true /\ length (fst kv) < f
                    /\ forall r, ok_rest r -> d (json_dumps (snd kv) ++ r) = Some (snd kv, r)) m ->
  length m <= k ->
  p_pairs d f k (join_sep (map pair_text m) ++ 125%N :: rest) = Some (m, rest).
Proof.
  induction m as [|[key v] m IH]; intros k rest NE F L; [contradiction|].
  destruct k as [|k]; [cbn in L; lia|].
  inversion F as [|? ? Hx Fl]; subst. cbn [fst snd] in Hx. destruct Hx as (Wk & Lk & Hv).
  destruct m as [|y m].
  - cbn [map join_sep]. unfold pair_text at 1. cbn [fst snd]. unfold json_str.
    cbn [app]. rewrite <- !app_assoc. cbn [app p_pairs]. change (34 =? 34)%N with true. cbv iota.
    rewrite (read_str_ok key Wk f _ Lk).
    change ((58 =? 58)%N && (32 =? 32)%N) with true. cbv iota.
    rewrite Hv by (cbn; auto). change (125 =? 125)%N with true. reflexivity.
  - cbn [map]. rewrite join_sep_cons. unfold pair_text at 1. cbn [fst snd]. unfold json_str.
    cbn [app]. rewrite <- !app_assoc. cbn [app p_pairs]. change (34 =? 34)%N with true. cbv iota.
    rewrite (read_str_ok key Wk f _ Lk).
    change ((58 =? 58)%N && (32 =? 32)%N) with true. cbv iota.
    rewrite Hv by (cbn; auto).
    change (44 =? 125)%N with false. change (44 =? 44)%N with true. change (32 =? 32)%N with true. cbv iota.
    change (pair_text y :: map pair_text m) with (map pair_text (y :: m)).
    rewrite (IH k rest); [reflexivity|discriminate|exact Fl|cbn [length] in *; lia].
Qed.

Lemma json_str_len s : length s + 2 <= length (json_str s).
Proof.
  unfold json_str. cbn [length]. rewrite app_length. cbn [length].
  assert (length s <= length (flat_map esc_char s)).
  { induction s as [|c s IH]; [cbn; lia|]. cbn [flat_map length]. rewrite app_length.
    pose proof (esc_char_len c). lia. }
  lia.
Qed.

Lemma json_dumps_obj m :
  json_dumps (JObj m) = 123%N :: join_sep (map pair_text m) ++ [125%N].
Proof. reflexivity. Qed.

Lemma parse_dumps : forall v, wf_jv v = true -> forall f rest,
  length (json_dumps v) <= f -> ok_rest rest -> parse f (json_dumps v ++ rest) = Some (v, rest).
Proof.
  induction v using jv_ind2; intros W f rest L R; (destruct f as [|f]; [match type of L with length (json_dumps ?v) <= 0 => pose proof (json_len_pos v) as Q; lia end|]).
  - reflexivity.
  - destruct b; reflexivity.
  - cbn [json_dumps]. destruct (dec_Z_head z) as (c & t & E & H). rewrite E. cbn [app].
    rewrite parse_num by assumption. change (c :: t ++ rest) with ((c :: t) ++ rest). rewrite <- E.
    apply read_num_int, R.
  - cbn [json_dumps]. destruct (flt_repr_head z) as (c & t & E & H). rewrite E. cbn [app].
    rewrite parse_num by assumption. change (c :: t ++ rest) with ((c :: t) ++ rest). rewrite <- E.
    apply read_num_flt.
  - cbn [json_dumps wf_jv] in *. pose proof (json_str_len s) as Ls. unfold json_str in *.
    cbn [app parse]. change (34 =? 110)%N with false. change (34 =? 116)%N with false.
    change (34 =? 102)%N with false. change (34 =? 34)%N with true. cbv iota.
    rewrite <- app_assoc. cbn [app].
    rewrite (read_str_ok s W f rest) by lia. reflexivity.
  - cbn [json_dumps wf_jv] in *. cbn [app parse]. change (91 =? 110)%N with false. change (91 =? 116)%N with false.
    change (91 =? 102)%N with false. change (91 =? 34)%N with false. change (91 =? 91)%N with true. cbv iota.
    destruct l as [|x l].
    + reflexivity.
    + rewrite <- app_assoc. cbn [app].
      destruct (json_head x) as (c & t & E & N1 & _).
      assert (Hd : exists t', join_sep (map json_dumps (x :: l)) ++ 93%N :: rest = c :: t').
      { cbn [map]. destruct l; cbn [map join_sep]; rewrite E; cbn [app]; eauto. }
      destruct Hd as (t' & Hd). rewrite Hd.
      assert (E93 : (c =? 93)%N = false) by lia. rewrite E93. rewrite <- Hd.
      cbn [length] in L. rewrite app_length in L. cbn [length] in L.
      rewrite p_items_ok; [reflexivity|discriminate| |].
      * rewrite Forall_forall in *. intros y Hy r Hr. apply H; [exact Hy| | |exact Hr].
        -- rewrite forallb_forall in W. apply W, Hy.
        -- pose proof (join_len_in (json_dumps y) (map json_dumps (x :: l)) (in_map _ _ _ Hy)). lia.
      * pose proof (join_len_count json_dumps (x :: l) json_len_pos). lia.
  - rewrite json_dumps_obj in *. cbn [wf_jv] in W.
    cbn [app parse]. change (123 =? 110)%N with false. change (123 =? 116)%N with false.
    change (123 =? 102)%N with false. change (123 =? 34)%N with false. change (123 =? 91)%N with false.
    change (123 =? 123)%N with true. cbv iota.
    destruct m as [|kv m].
    + reflexivity.
    + rewrite <- app_assoc. cbn [app].
      assert (Hd : exists t', join_sep (map pair_text (kv :: m)) ++ 125%N :: rest = 34%N :: t').
      { cbn [map]. destruct m; cbn [map join_sep]; unfold pair_text at 1, json_str; cbn [app]; eauto. }
      destruct Hd as (t' & Hd). rewrite Hd. change (34 =? 125)%N with false. cbv iota. rewrite <- Hd.
      cbn [length] in L. rewrite app_length in L. cbn [length] in L.
      rewrite p_pairs_ok; [reflexivity|discriminate| |].
      * rewrite Forall_forall in *. intros y Hy.
        rewrite forallb_forall in W. specialize (W y Hy). apply andb_true_iff in W. destruct W as [Wk Wv].
        pose proof (join_len_in (pair_text y) (map pair_text (kv :: m)) (in_map _ _ _ Hy)) as Lp.
        assert (Lq : length (fst y) + 2 + length (json_dumps (snd y)) <= length (pair_text y)).
        { unfold pair_text. rewrite !app_length. pose proof (json_str_len (fst y)). cbn [length]. unfold text in *. lia. }
        split; [exact Wk|]. split; [unfold text in *; lia|].
        intros r Hr. apply H; [exact Hy|exact Wv|unfold text in *; lia|exact Hr].
      * assert (G : forall x, 1 <= length (pair_text x)).
        { intros x. unfold pair_text. rewrite !app_length. pose proof (json_str_len (fst x)). lia. }
        pose proof (join_len_count pair_text (kv :: m) G). unfold text in *. lia.
Qed.

Theorem json_loads_dumps v : wf_jv v = true -> json_loads (json_dumps v) = Some v.
Proof.
  intros W. unfold json_loads.
  pose proof (parse_dumps v W (length (json_dumps v)) [] (le_n _) Logic.I) as E.
  rewrite app_nil_r in E. rewrite E. reflexivity.
Qed.
