(* C10 -- round trips of the concrete wire format: json_loads (json_dumps v) = Some v for
   well-formed data, b64dec (b64enc x) = Some x for bytes *)
From Coq Require Import List NArith ZArith Bool Lia ZifyBool ZifyN Arith.
Import ListNotations.
Ltac Zify.zify_post_hook ::= Z.div_mod_to_equations.
Require Import Verif.Lib.Wire Verif.Gen.Facts_C10 Verif.Model.C10 Verif.Proofs.C10 Verif.Proofs.C10_sat.

Definition ex_v : jv :=
  JList [JInt (-1205); JFlt 4001; JFlt (-3); JNull; JBool true; JBool false; JList []; JObj [];
         JStr [97; 34; 92; 10; 233; 8364; 128512; 0; 127]%N;
         JObj [([107]%N, JList [JInt 0; JStr []]); ([]%N, JObj [([233]%N, JFlt 0)])]].
Example ex_json_roundtrip : json_loads (json_dumps ex_v) = Some ex_v.
Proof. vm_compute. reflexivity. Qed.
Example ex_b64_roundtrip :
  b64dec (b64enc [0; 255; 16; 7]%N) = Some [0; 255; 16; 7]%N /\ b64dec (b64enc [1; 2]%N) = Some [1; 2]%N
  /\ b64dec (b64enc [250; 251; 252]%N) = Some [250; 251; 252]%N.
Proof. vm_compute. auto. Qed.

(* ------------------------------------------------------------------ base64 *)
Definition is_byte (b : N) : Prop := (b < 256)%N.

Lemma b64v_b64c n : (n < 64)%N -> b64v (b64c n) = Some n.
Proof.
  intros H. unfold b64c.
  destruct (n <? 26)%N eqn:A; [|destruct (n <? 52)%N eqn:B; [|destruct (n <? 62)%N eqn:C; [|destruct (n =? 62)%N eqn:D]]];
    unfold b64v;
    repeat match goal with |- context[if ?b then _ else _] => destruct b eqn:? end;
    try (f_equal; lia); try lia.
Qed.

Lemma b64_round : forall n x, length x <= n -> Forall is_byte x -> b64dec (b64enc x) = Some x.
Proof.
  unfold is_byte.
  induction n as [|n IH]; intros x L F.
  - destruct x; [reflexivity|cbn in L; lia].
  - destruct x as [|a [|b [|c r]]]; [reflexivity| | |].
    + inversion F as [|? ? Ha _]; subst. cbn [b64enc b64dec].
      rewrite !b64v_b64c by lia. f_equal. f_equal. lia.
    + inversion F as [|? ? Ha F1]; subst. inversion F1 as [|? ? Hb _]; subst. cbn [b64enc b64dec].
      rewrite !b64v_b64c by lia. f_equal. f_equal; [lia|f_equal; lia].
    + inversion F as [|? ? Ha F1]; subst. inversion F1 as [|? ? Hb F2]; subst. inversion F2 as [|? ? Hc F3]; subst.
      cbn [b64enc app b64dec].
      rewrite !b64v_b64c by lia.
      assert (Lr : length r <= n) by (cbn [length] in L; lia).
      rewrite (IH r Lr F3).
      f_equal. f_equal; [lia|f_equal; [lia|f_equal; lia]].
Qed.

Lemma b64dec_b64enc x : Forall is_byte x -> b64dec (b64enc x) = Some x.
Proof. apply (b64_round (length x)). apply le_n. Qed.

(* ------------------------------------------------------------------ JSON strings *)
Lemma hexv_hexd x : (x < 16)%N -> hexv (hexd x) = Some x.
Proof.
  intros H. unfold hexd. destruct (x <? 10)%N eqn:A; unfold hexv, is_digit;
    repeat match goal with |- context[if ?b then _ else _] => destruct b eqn:? end;
    try (f_equal; lia); try lia.
Qed.

Lemma read_u4_ok x r : (x < 65536)%N ->
  read_u4 (hexd (x / 4096) :: hexd ((x / 256) mod 16) :: hexd ((x / 16) mod 16) :: hexd (x mod 16) :: r) = Some (x, r).
Proof.
  intros H. unfold read_u4. rewrite !hexv_hexd by lia. f_equal. f_equal. lia.
Qed.

Lemma rs_q f r : read_str (S f) (34%N :: r) = Some ([], r).
Proof. reflexivity. Qed.
Lemma rs_plain f c r : (c =? 34)%N = false -> (c =? 92)%N = false ->
  read_str (S f) (c :: r) = cons_res c (read_str f r).
Proof. intros A B. cbn [read_str]. rewrite A, B. reflexivity. Qed.
Lemma rs_esc f e x r : (e =? 117)%N = false -> unesc e = Some x ->
  read_str (S f) (92%N :: e :: r) = cons_res x (read_str f r).
Proof. intros A B. cbn [read_str]. change (92 =? 34)%N with false. change (92 =? 92)%N with true. cbv iota. rewrite A, B. reflexivity. Qed.
Lemma rs_u_single f h r r2 : read_u4 r = Some (h, r2) -> ((55296 <=? h)%N && (h <=? 56319)%N) = false ->
  read_str (S f) (92%N :: 117%N :: r) = cons_res h (read_str f r2).
Proof.
  intros A B. cbn [read_str]. change (92 =? 34)%N with false. change (92 =? 92)%N with true.
  change (117 =? 117)%N with true. cbv iota. rewrite A, B. reflexivity.
Qed.
Lemma rs_u_pair f h lo r r2 r4 : read_u4 r = Some (h, 92%N :: 117%N :: r2) ->
  ((55296 <=? h)%N && (h <=? 56319)%N) = true -> read_u4 r2 = Some (lo, r4) ->
  ((56320 <=? lo)%N && (lo <=? 57343)%N) = true ->
  read_str (S f) (92%N :: 117%N :: r) = cons_res (65536 + (h - 55296) * 1024 + (lo - 56320))%N (read_str f r4).
Proof.
  intros A B C D. cbn [read_str]. change (92 =? 34)%N with false. change (92 =? 92)%N with true.
  change (117 =? 117)%N with true. cbv iota. rewrite A, B. cbv iota.
  change ((92 =? 92)%N && (117 =? 117)%N) with true. cbv iota. rewrite C, D. reflexivity.
Qed.

Lemma esc_char_len c : 1 <= length (esc_char c).
Proof.
  unfold esc_char, u4.
  repeat match goal with |- context[if ?b then _ else _] => destruct b end; cbn [length app]; try rewrite app_length; cbn [length]; lia.
Qed.

Lemma read_str_ok : forall s, forallb wf_char s = true -> forall f rest, length s < f ->
  read_str f (flat_map esc_char s ++ 34%N :: rest) = Some (s, rest).
Proof.
  induction s as [|c s IH]; intros W f rest L; (destruct f as [|f]; [lia|]).
  - apply rs_q.
  - cbn [forallb] in W. apply andb_true_iff in W. destruct W as [Wc Ws].
    cbn [length] in L. assert (Lf : length s < f) by lia.
    specialize (IH Ws f rest Lf).
    cbn [flat_map]. rewrite <- app_assoc. set (T := flat_map esc_char s ++ 34%N :: rest) in *.
    unfold wf_char in Wc. unfold esc_char.
    destruct (c =? 34)%N eqn:E1; [apply N.eqb_eq in E1; subst c; cbn [app]; rewrite (rs_esc f 34 34) by reflexivity; rewrite IH; reflexivity|].
    destruct (c =? 92)%N eqn:E2; [apply N.eqb_eq in E2; subst c; cbn [app]; rewrite (rs_esc f 92 92) by reflexivity; rewrite IH; reflexivity|].
    destruct (c =? 10)%N eqn:E3; [apply N.eqb_eq in E3; subst c; cbn [app]; rewrite (rs_esc f 110 10) by reflexivity; rewrite IH; reflexivity|].
    destruct (c =? 13)%N eqn:E4; [apply N.eqb_eq in E4; subst c; cbn [app]; rewrite (rs_esc f 114 13) by reflexivity; rewrite IH; reflexivity|].
    destruct (c =? 9)%N eqn:E5; [apply N.eqb_eq in E5; subst c; cbn [app]; rewrite (rs_esc f 116 9) by reflexivity; rewrite IH; reflexivity|].
    destruct (c =? 8)%N eqn:E6; [apply N.eqb_eq in E6; subst c; cbn [app]; rewrite (rs_esc f 98 8) by reflexivity; rewrite IH; reflexivity|].
    destruct (c =? 12)%N eqn:E7; [apply N.eqb_eq in E7; subst c; cbn [app]; rewrite (rs_esc f 102 12) by reflexivity; rewrite IH; reflexivity|].
    destruct ((32 <=? c)%N && (c <=? 126)%N) eqn:E8.
    { cbn [app]. rewrite rs_plain by assumption. rewrite IH. reflexivity. }
    destruct (c <? 65536)%N eqn:E9.
    { unfold u4. cbn [app].
      rewrite (rs_u_single f c _ T); [rewrite IH; reflexivity|apply read_u4_ok; lia|].
      lia. }
    set (v := (c - 65536)%N).
    assert (Hv : (v < 1048576)%N) by lia.
    unfold u4. rewrite <- app_assoc. cbn [app].
    set (hi := (55296 + v / 1024)%N). set (lo := (56320 + v mod 1024)%N).
    rewrite (rs_u_pair f hi lo _
               (hexd (lo / 4096) :: hexd ((lo / 256) mod 16) :: hexd ((lo / 16) mod 16) :: hexd (lo mod 16) :: T) T).
    + rewrite IH. unfold hi, lo. cbn [cons_res]. f_equal. f_equal. f_equal. lia.
    + apply read_u4_ok. unfold hi. lia.
    + unfold hi. lia.
    + apply read_u4_ok. unfold lo. lia.
    + unfold lo. lia.
Qed.
