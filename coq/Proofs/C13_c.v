(* C13 part (b), central statement: for every valid scenario tree the run of the
   pipeline interpreter satisfies the declarative judge. *)
From Coq Require Import List NArith ZArith Bool Arith Lia.
Import ListNotations.
Require Import Verif.Lib.Wire Verif.Lib.C13Bracket Verif.Gen.Facts_C13 Verif.Model.C13 Verif.Proofs.C13_b.
Local Open Scope N_scope.

(* ------------------------------------------------------------ lists *)
Definition ge_log (l : N) (lg : list pev) : list pev := filter (fun e => N.leb l (e_lvl e)) lg.

Lemma filter_none {A} (p : A -> bool) (l : list A) : Forall (fun x => p x = false) l -> filter p l = [].
Proof. induction 1; simpl; [reflexivity|]. rewrite H. exact IHForall. Qed.
Lemma filter_all {A} (p : A -> bool) (l : list A) : Forall (fun x => p x = true) l -> filter p l = l.
Proof. induction 1; simpl; [reflexivity|]. rewrite H, IHForall. reflexivity. Qed.
Lemma existsb_none {A} (p : A -> bool) (l : list A) : Forall (fun x => p x = false) l -> existsb p l = false.
Proof. induction 1; simpl; [reflexivity|]. rewrite H. exact IHForall. Qed.
Lemma existsb_filter {A} (p q : A -> bool) (l : list A) :
  existsb p (filter q l) = existsb (fun x => q x && p x) l.
Proof. induction l as [|x l IH]; simpl; [reflexivity|]. destruct (q x); simpl; rewrite IH; reflexivity. Qed.
Lemma filter_filter_imp {A} (p q : A -> bool) (l : list A) :
  (forall x, p x = true -> q x = true) -> filter p (filter q l) = filter p l.
Proof.
  intros H. induction l as [|x l IH]; simpl; [reflexivity|].
  destruct (q x) eqn:Q; simpl; [rewrite IH; reflexivity|].
  destruct (p x) eqn:Px; [rewrite (H _ Px) in Q; discriminate|exact IH].
Qed.

Lemma list_eqb_refl a : list_eqb a a = true.
Proof. induction a; simpl; [reflexivity|]. rewrite N.eqb_refl. exact IHa. Qed.
Lemma is_prefix_app a b : is_prefix a (a ++ b) = true.
Proof. induction a; simpl; [reflexivity|]. rewrite N.eqb_refl. exact IHa. Qed.

Lemma before_first_app p (a b : list pev) :
  Forall (fun e => p e = false) a -> before_first p (a ++ b) = a ++ before_first p b.
Proof. induction 1; simpl; [reflexivity|]. rewrite H, IHForall. reflexivity. Qed.
Lemma before_first_all p (a : list pev) : Forall (fun e => p e = false) a -> before_first p a = a.
Proof. induction 1; simpl; [reflexivity|]. rewrite H, IHForall. reflexivity. Qed.
Lemma before_first_hd p (a : list pev) : match a with e :: _ => p e = true | [] => True end -> before_first p a = [].
Proof. destruct a; simpl; [reflexivity|]. intros ->. reflexivity. Qed.
Lemma from_first_app p q (a b : list pev) :
  Forall (fun e => p e = false) a -> from_first p q (a ++ b) = from_first p q b.
Proof. induction 1; simpl; [reflexivity|]. rewrite H. exact IHForall. Qed.
Lemma from_first_forall p q (a : list pev) : Forall (fun e => q e = true) a -> from_first p q a = true.
Proof.
  induction 1; simpl; [reflexivity|]. destruct (p x); [|exact IHForall].
  rewrite H. simpl. apply forallb_forall. rewrite Forall_forall in H0. exact H0.
Qed.

(* registrations of events that are not callbacks: additive, no counters *)
Definition reg0 (b : N) (rs : list reg) (lg : list pev) : list N :=
  flat_map (fun e => if N.eqb (e_pt e) P_VIEW && N.eqb (e_aux e) 1 then [] else regsfor b rs (e_pt e) 0) lg.
Lemma reg0_app b rs x y : reg0 b rs (x ++ y) = reg0 b rs x ++ reg0 b rs y.
Proof. unfold reg0. apply flat_map_app. Qed.
Lemma reg0_one b rs pt lv d c aux :
  reg0 b rs [mkEv pt lv d c aux] = if N.eqb pt P_VIEW && N.eqb aux 1 then [] else regsfor b rs pt 0.
Proof. unfold reg0. simpl. rewrite app_nil_r. reflexivity. Qed.

Lemma regsfor_noncb b rs pt n : is_cb pt = false -> regsfor b rs pt n = regsfor b rs pt 0.
Proof.
  intros H. unfold regsfor, reg_fires. apply flat_map_ext. intros r. rewrite H. reflexivity.
Qed.

Lemma do_regs_spec rs pt n st :
  stk (do_regs rs pt n st) = stk st /\ log (do_regs rs pt n st) = log st /\
  nr (do_regs rs pt n st) = nr st /\ nf (do_regs rs pt n st) = nf st /\
  rq (do_regs rs pt n st) = rq st ++ regsfor 0 rs pt n /\ fq (do_regs rs pt n st) = fq st ++ regsfor 1 rs pt n.
Proof.
  unfold do_regs, regsfor. revert st. induction rs as [|r rs IH]; intros st; simpl.
  - rewrite !app_nil_r. repeat split; reflexivity.
  - destruct (reg_fires r pt n); simpl; [|apply IH].
    match goal with |- context [fold_left ?f rs ?s0] => destruct (IH s0) as [A [B [C [D [E F]]]]] end.
    rewrite A, B, C, D, E, F. simpl.
    destruct (N.testbit (r_which r) 0), (N.testbit (r_which r) 1); simpl; rewrite <- ?app_assoc; repeat split; reflexivity.
Qed.

(* the judge's [registered_from] on concatenations, on callback-free stretches, and on stretches of one kind *)
Definition cnt (p : N) (X : list pev) : N := N.of_nat (length (filter (is_pt p) X)).

Lemma registered_from_app b rs X : forall cr cf Y,
  registered_from b rs cr cf (X ++ Y) =
  registered_from b rs cr cf X ++ registered_from b rs (cr + cnt 16 X) (cf + cnt 18 X) Y.
Proof.
  induction X as [|e X IH]; intros cr cf Y; simpl.
  - unfold cnt. simpl. rewrite !N.add_0_r. reflexivity.
  - rewrite IH, <- app_assoc. f_equal. f_equal. unfold cnt. simpl.
    destruct (is_pt 16 e), (is_pt 18 e); simpl length; f_equal; lia.
Qed.

Lemma registered_from_nocb b rs X : Forall (fun e => is_cb (e_pt e) = false) X ->
  forall cr cf, registered_from b rs cr cf X = reg0 b rs X.
Proof.
  induction 1 as [|e X H F IH]; intros cr cf; simpl; [reflexivity|].
  assert (A : is_pt 16 e = false /\ is_pt 18 e = false).
  { unfold is_cb in H. apply orb_false_iff in H. unfold is_pt. exact H. }
  destruct A as [A1 A2]. rewrite A1, A2, IH. f_equal.
  rewrite (regsfor_noncb b rs (e_pt e) cf H). reflexivity.
Qed.

Lemma registered_from_fin b rs X : Forall (fun e => e_pt e = P_FIN_CB) X ->
  forall cr cr' cf, registered_from b rs cr cf X = registered_from b rs cr' cf X.
Proof.
  induction 1 as [|e X H F IH]; intros cr cr' cf; simpl; [reflexivity|].
  unfold is_pt. rewrite H. simpl. f_equal. apply IH.
Qed.
Lemma registered_from_resp b rs X : Forall (fun e => e_pt e = P_RESP_CB) X ->
  forall cr cf cf', registered_from b rs cr cf X = registered_from b rs cr cf' X.
Proof.
  induction 1 as [|e X H F IH]; intros cr cf cf'; simpl; [reflexivity|].
  unfold is_pt. rewrite H. simpl. f_equal. apply IH.
Qed.

(* ------------------------------------------------------------ faults under validity *)
Definition may_false (p : N) : bool := memN p [P_ROUTE_PRED; P_VIEW_PRED; P_PERMITS].

Lemma find_fault_valid sc p n k :
  valid_level sc = true -> may_false p = false ->
  find_fault (s_faults sc) p n = k -> k <> 0 -> k <> K_FALSE /\ has_fault sc p = true.
Proof.
  unfold valid_level, find_fault, has_fault. intros V MF E K.
  rewrite forallb_forall in V.
  destruct (find _ (s_faults sc)) as [f|] eqn:Ef; [|congruence]. subst k.
  apply find_some in Ef. destruct Ef as [I C]. apply andb_true_iff in C. destruct C as [C _].
  apply N.eqb_eq in C. specialize (V _ I). apply andb_true_iff in V. destruct V as [V1 V2].
  assert (KF : N.eqb (f_kind f) K_FALSE = false).
  { destruct (N.eqb (f_kind f) K_FALSE) eqn:X; [|reflexivity]. cbn [negb orb] in V2. rewrite C in V2.
    unfold may_false in MF. rewrite MF in V2. discriminate. }
  split; [apply N.eqb_neq; exact KF|].
  apply existsb_exists. exists f. split; [exact I|]. rewrite C, N.eqb_refl, KF. simpl. exact V1.
Qed.

Lemma no_fault_find sc p n : has_fault sc p = false -> valid_level sc = true -> may_false p = false ->
  find_fault (s_faults sc) p n = 0.
Proof.
  intros H V MF. destruct (N.eq_dec (find_fault (s_faults sc) p n) 0) as [E|E]; [exact E|].
  destruct (find_fault_valid sc p n _ V MF eq_refl E) as [_ X]. congruence.
Qed.

(* ------------------------------------------------------------ the accumulation relation *)
Section Level.
Variables (l : N) (sc : scn).
(* what the subrequest started by this request's view leaves in the log *)
Variable P : list pev -> Prop.

Definition evok (A : N -> bool) (e : pev) : Prop :=
  (e_lvl e = l /\ A (e_pt e) = true) \/ l + 1 <= e_lvl e.

(* st -> st': the log grew by events of this request (points allowed by A) and of deeper requests; the
   deques grew by exactly the registrations of this request's new events; the deeper part is empty or Q *)
Definition Rc (A : N -> bool) (Q : list pev -> Prop) (st st' : state) : Prop :=
  exists new, log st' = log st ++ new /\ Forall (evok A) new /\
    rq st' = rq st ++ reg0 0 (s_regs sc) (lvl_log l new) /\
    fq st' = fq st ++ reg0 1 (s_regs sc) (lvl_log l new) /\
    nr st' = nr st /\ nf st' = nf st /\
    (ge_log (l + 1) new = [] \/ Q (ge_log (l + 1) new)).
Definition never : list pev -> Prop := fun _ => False.
Definition Rp A := Rc A never.      (* only this request's own events *)
Definition Rs A := Rc A P.          (* possibly one subrequest *)

Lemma lvl_log_app k a b : lvl_log k (a ++ b) = lvl_log k a ++ lvl_log k b.
Proof. apply filter_app. Qed.
Lemma ge_log_app k a b : ge_log k (a ++ b) = ge_log k a ++ ge_log k b.
Proof. apply filter_app. Qed.

Lemma Rc_refl A Q st : Rc A Q st st.
Proof. exists []. rewrite !app_nil_r. simpl. repeat split; auto. Qed.

Lemma Rc_comp A Q1 Q2 a b c :
  ((forall s, ~ Q1 s) \/ (forall s, ~ Q2 s)) ->
  Rc A Q1 a b -> Rc A Q2 b c -> Rc A (fun s => Q1 s \/ Q2 s) a c.
Proof.
  intros HQ [n1 [L1 [F1 [R1 [G1 [N1 [M1 S1]]]]]]] [n2 [L2 [F2 [R2 [G2 [N2 [M2 S2]]]]]]].
  exists (n1 ++ n2). rewrite lvl_log_app, !reg0_app, ge_log_app.
  repeat split.
  - rewrite L2, L1, app_assoc. reflexivity.
  - apply Forall_app; auto.
  - rewrite R2, R1, app_assoc. reflexivity.
  - rewrite G2, G1, app_assoc. reflexivity.
  - congruence.
  - congruence.
  - destruct S1 as [S1|S1]; destruct S2 as [S2|S2].
    + left. rewrite S1, S2. reflexivity.
    + right. rewrite S1. simpl. right. exact S2.
    + right. rewrite S2, app_nil_r. left. exact S1.
    + exfalso. destruct HQ as [H|H]; [exact (H _ S1)|exact (H _ S2)].
Qed.

Lemma Rc_weaken (A B : N -> bool) (Q1 Q2 : list pev -> Prop) a b :
  (forall p, A p = true -> B p = true) -> (forall s, Q1 s -> Q2 s) -> Rc A Q1 a b -> Rc B Q2 a b.
Proof.
  intros HA HQ [n [L [F [R [G [N1 [M S]]]]]]]. exists n. repeat split; auto.
  - eapply Forall_impl; [|exact F]. intros e [[E1 E2]|E]; [left; auto|right; exact E].
  - destruct S as [S|S]; [left; exact S|right; apply HQ; exact S].
Qed.

Lemma Rpp A a b c : Rp A a b -> Rp A b c -> Rp A a c.
Proof.
  intros X Y. eapply Rc_weaken; [intros p H; exact H| |eapply Rc_comp; [left; intros s H; exact H|exact X|exact Y]].
  intros s [H|H]; exact H.
Qed.
Lemma Rps A a b c : Rp A a b -> Rs A b c -> Rs A a c.
Proof.
  intros X Y. eapply Rc_weaken; [intros p H; exact H| |eapply Rc_comp; [left; intros s H; exact H|exact X|exact Y]].
  intros s [H|H]; [destruct H|exact H].
Qed.
Lemma Rsp A a b c : Rs A a b -> Rp A b c -> Rs A a c.
Proof.
  intros X Y. eapply Rc_weaken; [intros p H; exact H| |eapply Rc_comp; [right; intros s H; exact H|exact X|exact Y]].
  intros s [H|H]; [exact H|destruct H].
Qed.
Lemma Rp_s A a b : Rp A a b -> Rs A a b.
Proof. apply Rc_weaken; [auto|intros s []]. Qed.

(* computations *)
Definition pres (R : state -> state -> Prop) (m : M) : Prop := forall st st' r, m st = (st', r) -> R st st'.

Lemma pres_bind (R1 R2 R3 : state -> state -> Prop) m f :
  (forall a b c, R1 a b -> R2 b c -> R3 a c) -> (forall a b, R1 a b -> R3 a b) ->
  pres R1 m -> (forall v, pres R2 (f v)) -> pres R3 (bind m f).
Proof.
  intros HC HI Hm Hf st st' r E. unfold bind in E. destruct (m st) as [st1 [v|k]] eqn:Em.
  - eapply HC; [eapply Hm; exact Em|eapply Hf; exact E].
  - injection E as <- _. apply HI. eapply Hm; exact Em.
Qed.
Lemma pres_catch (R1 R2 R3 : state -> state -> Prop) m h :
  (forall a b c, R1 a b -> R2 b c -> R3 a c) -> (forall a b, R1 a b -> R3 a b) ->
  pres R1 m -> (forall k, pres R2 (h k)) -> pres R3 (catch m h).
Proof.
  intros HC HI Hm Hh st st' r E. unfold catch in E. destruct (m st) as [st1 [v|k]] eqn:Em.
  - injection E as <- _. apply HI. eapply Hm; exact Em.
  - eapply HC; [eapply Hm; exact Em|eapply Hh; exact E].
Qed.
Lemma pres_finally (R1 R2 R3 : state -> state -> Prop) m f :
  (forall a b c, R1 a b -> R2 b c -> R3 a c) -> pres R1 m -> pres R2 f -> pres R3 (finally m f).
Proof.
  intros HC Hm Hf st st' r E. unfold finally in E. destruct (m st) as [st1 r1] eqn:Em.
  destruct (f st1) as [st2 [v|k]] eqn:Ef; injection E as <- _;
    (eapply HC; [eapply Hm; exact Em|eapply Hf; exact Ef]).
Qed.
Lemma pres_if R (b : bool) m n : pres R m -> pres R n -> pres R (if b then m else n).
Proof. destruct b; auto. Qed.
Lemma pres_ret A Q v : pres (Rc A Q) (ret v).
Proof. intros st st' r E. unfold ret in E. injection E as <- _. apply Rc_refl. Qed.
Lemma pres_raise A Q k : pres (Rc A Q) (raise k).
Proof. intros st st' r E. unfold raise in E. injection E as <- _. apply Rc_refl. Qed.

(* sequencing shortcuts *)
Lemma pp_seq A m n : pres (Rp A) m -> pres (Rp A) n -> pres (Rp A) (seq m n).
Proof. intros. apply (pres_bind (Rp A) (Rp A) (Rp A)); [apply Rpp|auto|assumption|intros; assumption]. Qed.
Lemma ps_seq A m n : pres (Rp A) m -> pres (Rs A) n -> pres (Rs A) (seq m n).
Proof. intros. apply (pres_bind (Rp A) (Rs A) (Rs A)); [apply Rps|apply Rp_s|assumption|intros; auto]. Qed.
Lemma sp_seq A m n : pres (Rs A) m -> pres (Rp A) n -> pres (Rs A) (seq m n).
Proof. intros. apply (pres_bind (Rs A) (Rp A) (Rs A)); [apply Rsp|auto|assumption|intros; auto]. Qed.
Lemma ps_bind A m f : pres (Rp A) m -> (forall v, pres (Rs A) (f v)) -> pres (Rs A) (bind m f).
Proof. intros. apply (pres_bind (Rp A) (Rs A) (Rs A)); [apply Rps|apply Rp_s|assumption|intros; auto]. Qed.
Lemma sp_bind A m f : pres (Rs A) m -> (forall v, pres (Rp A) (f v)) -> pres (Rs A) (bind m f).
Proof. intros. apply (pres_bind (Rs A) (Rp A) (Rs A)); [apply Rsp|auto|assumption|intros; auto]. Qed.

(* one event of this request, with its registrations *)
Lemma step_Rp A pt aux n st :
  A pt = true -> (N.eqb pt P_VIEW && N.eqb aux 1 = false) -> is_cb pt = false ->
  Rp A st (do_regs (s_regs sc) pt n (log_ev l pt aux st)).
Proof.
  intros HA HV HC. destruct (do_regs_spec (s_regs sc) pt n (log_ev l pt aux st)) as [_ [B [C [D [E F]]]]].
  eexists. split; [rewrite B; simpl; reflexivity|].
  assert (X : lvl_log l [mkEv pt l (N.of_nat (length (stk st))) (top_is l (stk st)) aux] =
              [mkEv pt l (N.of_nat (length (stk st))) (top_is l (stk st)) aux])
    by (unfold lvl_log; simpl; rewrite N.eqb_refl; reflexivity).
  rewrite X, !reg0_one, HV, <- !(regsfor_noncb _ _ pt n HC). repeat split; auto.
  - constructor; [|constructor]. left. simpl. auto.
  - left. unfold ge_log. simpl. replace (N.leb (l + 1) l) with false; [reflexivity|].
    symmetry. apply N.leb_gt. lia.
Qed.

Lemma hit_state pt aux n mf st st' r :
  hit l sc pt aux n mf st = (st', r) -> st' = do_regs (s_regs sc) pt n (log_ev l pt aux st).
Proof.
  unfold hit. destruct (N.eqb (find_fault (s_faults sc) pt n) 0);
    [|destruct (N.eqb (find_fault (s_faults sc) pt n) K_FALSE)]; intros E; injection E as <- _; reflexivity.
Qed.

Lemma pres_hit A pt aux n mf : A pt = true -> N.eqb pt P_VIEW || is_cb pt = false ->
  pres (Rp A) (hit l sc pt aux n mf).
Proof.
  intros HA HV st st' r E. apply orb_false_iff in HV. destruct HV as [HV HC].
  rewrite (hit_state _ _ _ _ _ _ _ E). apply step_Rp; [exact HA| |exact HC].
  rewrite HV. reflexivity.
Qed.
Lemma pres_hit0 A pt : A pt = true -> N.eqb pt P_VIEW || is_cb pt = false -> pres (Rp A) (hit0 l sc pt).
Proof. apply pres_hit. Qed.

(* what a subrequest does, seen from this request *)
Definition Rsub (st st' : state) : Prop :=
  exists new, log st' = log st ++ new /\ Forall (fun e => l + 1 <= e_lvl e) new /\
    rq st' = rq st /\ fq st' = fq st /\ nr st' = nr st /\ nf st' = nf st /\ P new.

Lemma Rsub_Rs A a b : Rsub a b -> Rs A a b.
Proof.
  intros [n [L [F [R [G [N1 [M Pn]]]]]]]. exists n.
  assert (X : lvl_log l n = []).
  { apply filter_none. eapply Forall_impl; [|exact F]. intros e H. simpl in H. apply N.eqb_neq. lia. }
  assert (Y : ge_log (l + 1) n = n).
  { apply filter_all. eapply Forall_impl; [|exact F]. intros e H. apply N.leb_le. exact H. }
  rewrite X, Y. simpl. rewrite !app_nil_r. repeat split; auto.
  eapply Forall_impl; [|exact F]. intros e H. right. exact H.
Qed.

Lemma log_ev_view1 A st : A P_VIEW = true -> Rp A st (log_ev l P_VIEW 1 st).
Proof.
  intros HA. eexists. split; [simpl; reflexivity|].
  assert (X : lvl_log l [mkEv P_VIEW l (N.of_nat (length (stk st))) (top_is l (stk st)) 1] =
              [mkEv P_VIEW l (N.of_nat (length (stk st))) (top_is l (stk st)) 1])
    by (unfold lvl_log; simpl; rewrite N.eqb_refl; reflexivity).
  rewrite X, !reg0_one. simpl. rewrite !app_nil_r. repeat split; auto.
  - constructor; [|constructor]. left. simpl. auto.
  - left. unfold ge_log. simpl. replace (N.leb (l + 1) l) with false; [reflexivity|].
    symmetry. apply N.leb_gt. lia.
Qed.

Variable subrun : option M.
Hypothesis Hsub : forall sr, subrun = Some sr -> pres Rsub sr.

Lemma pres_view_body A : A P_VIEW = true -> pres (Rs A) (view_body l sc subrun).
Proof.
  intros HA st st' r E. unfold view_body in E.
  pose proof (step_Rp A P_VIEW 0 0 st HA eq_refl eq_refl) as X1.
  set (st1 := do_regs (s_regs sc) P_VIEW 0 (log_ev l P_VIEW 0 st)) in *.
  destruct subrun as [sr|] eqn:Es.
  - destruct (sr st1) as [st2 [v|k]] eqn:Er.
    + pose proof (Rsub_Rs A _ _ (Hsub sr eq_refl _ _ _ Er)) as X2.
      assert (st' = log_ev l P_VIEW 1 st2) as ->.
      { destruct (N.eqb (find_fault (s_faults sc) P_VIEW 0) 0 || N.eqb (find_fault (s_faults sc) P_VIEW 0) K_FALSE);
          injection E as <- _; reflexivity. }
      eapply Rsp; [eapply Rps; [exact X1|exact X2]|apply log_ev_view1; exact HA].
    + injection E as <- _. eapply Rps; [exact X1|]. apply Rsub_Rs. exact (Hsub sr eq_refl _ _ _ Er).
  - assert (st' = st1) as ->.
    { destruct (N.eqb (find_fault (s_faults sc) P_VIEW 0) 0 || N.eqb (find_fault (s_faults sc) P_VIEW 0) K_FALSE);
        injection E as <- _; reflexivity. }
    apply Rp_s. exact X1.
Qed.

Definition covers (A : N -> bool) (ps : list N) : Prop := forall p, In p ps -> A p = true.
Ltac cov H := apply H; simpl; tauto.

Lemma pres_derived_view A : covers A [P_VIEW_PRED; P_PERMITS; P_VIEW; P_RENDERER] ->
  pres (Rs A) (derived_view l sc subrun).
Proof.
  intros HA. unfold derived_view.
  apply ps_bind; [apply pres_hit; [cov HA|reflexivity]|]. intros ok.
  apply pres_if; [apply pres_raise|].
  apply ps_bind; [apply pres_hit; [cov HA|reflexivity]|]. intros ok2.
  apply pres_if; [apply pres_raise|].
  apply sp_seq; [apply pres_view_body; cov HA|].
  apply pp_seq; [apply pres_hit0; [cov HA|reflexivity]|apply pres_ret].
Qed.

Definition handle_pts : list N :=
  [P_NEWREQ; P_ROUTE_PRED; P_ROUTE_FACTORY; P_BEFORE_TRAV; P_ROOT_FACTORY; P_TRAVERSER; P_CTX_FOUND;
   P_VIEW_PRED; P_PERMITS; P_VIEW; P_RENDERER].

Lemma pres_handle_request A : covers A handle_pts -> pres (Rs A) (handle_request l sc subrun).
Proof.
  intros HA. unfold handle_request.
  apply ps_seq; [apply pres_hit0; [cov HA|reflexivity]|].
  apply ps_bind; [apply pres_if; [apply pres_hit; [cov HA|reflexivity]|apply pres_ret]|]. intros matched.
  apply ps_seq; [apply pres_hit0; [cov HA|reflexivity]|].
  apply ps_seq; [apply pres_if; apply pres_hit0; (cov HA || reflexivity)|].
  apply ps_seq; [apply pres_hit0; [cov HA|reflexivity]|].
  apply ps_seq; [apply pres_hit0; [cov HA|reflexivity]|].
  apply pres_derived_view. intros p Hp. apply HA. unfold handle_pts. simpl in *. tauto.
Qed.

Lemma pres_upd_stk A f : pres (Rp A) (upd_stk f).
Proof.
  intros st st' r E. unfold upd_stk in E. injection E as <- _.
  exists []. simpl. rewrite !app_nil_r. repeat split; auto.
Qed.

Lemma pres_call_views A vs :
  (forall p, In p vs -> p = P_DEFAULT_VIEW \/ (A p = true /\ N.eqb p P_VIEW || is_cb p = false)) ->
  pres (Rp A) (call_views l sc vs).
Proof.
  induction vs as [|p rest IH]; intros H; simpl; [apply pres_raise|].
  destruct (N.eqb p P_DEFAULT_VIEW) eqn:D; [apply pres_ret|].
  destruct (H p (or_introl eq_refl)) as [X|[X1 X2]]; [subst p; discriminate D|].
  apply (pres_catch (Rp A) (Rp A) (Rp A)); [apply Rpp|auto| |].
  - apply pp_seq; [apply pres_hit0; assumption|apply pres_ret].
  - intros k2. apply pres_if; [apply IH; intros q Hq; apply H; right; exact Hq|apply pres_raise].
Qed.

Lemma exc_views_pts ev k p : In p (exc_views ev k) -> p = P_EXCVIEW_HTTP \/ p = P_DEFAULT_VIEW \/ p = P_EXCVIEW.
Proof.
  unfold exc_views. intros H. apply in_app_or in H. destruct H as [H|H].
  - destruct (is_http_kind k && N.testbit ev 1); [destruct H as [<-|[]]; auto|destruct H].
  - apply in_app_or in H. destruct H as [H|H].
    + destruct (is_http_kind k && N.testbit ev 2); [destruct H as [<-|[]]; auto|destruct H].
    + destruct (N.testbit ev 0); [destruct H as [<-|[]]; auto|destruct H].
Qed.

Lemma pres_error_handler A ev k : A P_EXCVIEW = true -> A P_EXCVIEW_HTTP = true ->
  pres (Rp A) (error_handler ev l sc k).
Proof.
  intros HA HB. unfold error_handler.
  apply (pres_catch (Rp A) (Rp A) (Rp A)); [apply Rpp|auto| |].
  - unfold frame. apply pp_seq; [apply pres_upd_stk|].
    apply (pres_finally (Rp A) (Rp A) (Rp A)); [apply Rpp| |apply pres_upd_stk].
    apply pres_call_views. intros p Hp.
    destruct (exc_views_pts _ _ _ Hp) as [ -> | [ -> | -> ] ]; [right; split; [exact HB|reflexivity]|left; reflexivity|right; split; [exact HA|reflexivity]].
  - intros k2. apply pres_if; apply pres_raise.
Qed.

Lemma pres_tween A pin pout h : A pin = true -> A pout = true -> N.eqb pin P_VIEW || is_cb pin = false ->
  N.eqb pout P_VIEW || is_cb pout = false -> pres (Rs A) h -> pres (Rs A) (tween l sc pin pout h).
Proof.
  intros H1 H2 V1 V2 Hh. unfold tween. apply ps_seq; [apply pres_hit0; assumption|].
  apply sp_bind; [exact Hh|]. intros r. apply pp_seq; [apply pres_hit0; assumption|apply pres_ret].
Qed.

Lemma pres_tween_x_none A pin pout h : A pin = true -> A pout = true -> N.eqb pin P_VIEW || is_cb pin = false ->
  N.eqb pout P_VIEW || is_cb pout = false -> pres (Rs A) h -> pres (Rs A) (tween_x l sc pin pout None h).
Proof.
  intros H1 H2 V1 V2 Hh. unfold tween_x. apply ps_seq; [apply pres_hit0; assumption|].
  apply sp_bind; [exact Hh|]. intros r. apply pp_seq; [apply pres_ret|].
  apply pp_seq; [apply pres_hit0; assumption|apply pres_ret].
Qed.
Lemma pres_tween_x_some A pin pout m h : A pin = true -> A pout = true -> N.eqb pin P_VIEW || is_cb pin = false ->
  N.eqb pout P_VIEW || is_cb pout = false -> pres Rsub m -> pres (Rp A) h ->
  pres (Rs A) (tween_x l sc pin pout (Some m) h).
Proof.
  intros H1 H2 V1 V2 Hm Hh. unfold tween_x. apply ps_seq; [apply pres_hit0; assumption|].
  apply ps_bind; [exact Hh|]. intros r. apply sp_seq.
  - intros st st' r' E. apply Rsub_Rs. eapply Hm. exact E.
  - apply pp_seq; [apply pres_hit0; assumption|apply pres_ret].
Qed.

(* everything under the over-tween's exit point *)
Definition inner_pts : list N := P_UNDER_IN :: P_UNDER_OUT :: P_EXCVIEW :: P_EXCVIEW_HTTP :: handle_pts.

Lemma pres_excview_part A ev : covers A inner_pts ->
  pres (Rs A) (excview_tween ev l sc (tween l sc P_UNDER_IN P_UNDER_OUT (handle_request l sc subrun))).
Proof.
  intros HA. unfold excview_tween.
  apply (pres_catch (Rs A) (Rp A) (Rs A)); [apply Rsp|auto| |].
  - apply pres_tween; try reflexivity; try (cov HA).
    apply pres_handle_request. intros p Hp. apply HA. right. right. right. right. exact Hp.
  - intros k. apply pres_error_handler; cov HA.
Qed.

End Level.

(* ------------------------------------------------------------ did a response come out? *)
Section Came.
Variables (l : N) (sc : scn).
Hypothesis V : valid_level sc = true.

Definition ownp (p : N) (e : pev) : bool := N.eqb (e_lvl e) l && is_pt p e.
Definition cameb (p : N) (new : list pev) : bool := existsb (ownp p) new && negb (has_fault sc p).
Definition is_ok (r : res) : bool := match r with Ok _ => true | Ex _ => false end.
Definition LP (p : N) (m : M) : Prop :=
  forall st st' r, m st = (st', r) -> exists new, log st' = log st ++ new /\ cameb p new = is_ok r.
Definition NoP (p : N) (st st' : state) : Prop :=
  exists new, log st' = log st ++ new /\ existsb (ownp p) new = false.

Lemma Rc_NoP A X p a b : Rc l sc A X a b -> A p = false -> NoP p a b.
Proof.
  clear V. intros [n [L [F _]]] HA. exists n. split; [exact L|]. apply existsb_none.
  eapply Forall_impl; [|exact F]. intros e [[E1 E2]|E]; unfold ownp, is_pt.
  - destruct (N.eqb (e_pt e) p) eqn:X1; [apply N.eqb_eq in X1; congruence|apply andb_false_r].
  - replace (N.eqb (e_lvl e) l) with false; [reflexivity|]. symmetry. apply N.eqb_neq. lia.
Qed.

Lemma NoP_of A X m p : pres (Rc l sc A X) m -> A p = false -> pres (NoP p) m.
Proof. intros H HA st st' r E. eapply Rc_NoP; [eapply H; exact E|exact HA]. Qed.

Lemma LP_bind p m f : pres (NoP p) m -> (forall v, LP p (f v)) -> LP p (bind m f).
Proof.
  intros Hm Hf st st' r E. unfold bind in E. destruct (m st) as [st1 [v|k]] eqn:Em.
  - destruct (Hm _ _ _ Em) as [n1 [L1 X1]]. destruct (Hf v _ _ _ E) as [n2 [L2 X2]].
    exists (n1 ++ n2). split; [rewrite L2, L1, app_assoc; reflexivity|].
    unfold cameb in *. rewrite existsb_app, X1. exact X2.
  - injection E as <- <-. destruct (Hm _ _ _ Em) as [n1 [L1 X1]]. exists n1. split; [exact L1|].
    unfold cameb. rewrite X1. reflexivity.
Qed.
Lemma LP_seq p m n : pres (NoP p) m -> LP p n -> LP p (seq m n).
Proof. intros. apply LP_bind; auto. Qed.
Lemma LP_raise p k : LP p (raise k).
Proof. intros st st' r E. unfold raise in E. injection E as <- <-. exists []. rewrite app_nil_r. auto. Qed.
Lemma LP_if p (b : bool) m n : LP p m -> LP p n -> LP p (if b then m else n).
Proof. destruct b; auto. Qed.

Lemma hit_result pt aux n mf st st' r : hit l sc pt aux n mf st = (st', r) ->
  let k := find_fault (s_faults sc) pt n in
  r = if N.eqb k 0 then Ok 1 else if N.eqb k K_FALSE then Ok (if mf then 0 else 1) else Ex k.
Proof.
  clear V. unfold hit. cbv zeta. destruct (N.eqb (find_fault (s_faults sc) pt n) 0);
    [|destruct (N.eqb (find_fault (s_faults sc) pt n) K_FALSE)]; intros E; injection E as _ <-; reflexivity.
Qed.

Lemma has_fault_find p n : has_fault sc p = true -> N.eqb p P_RESP_CB || N.eqb p P_FIN_CB = false ->
  find_fault (s_faults sc) p n <> 0.
Proof.
  unfold has_fault, find_fault. intros H NC. apply existsb_exists in H. destruct H as [f [I C]].
  apply andb_true_iff in C. destruct C as [C _]. apply andb_true_iff in C. destruct C as [C _].
  rewrite NC. cbn [negb orb].
  destruct (find _ (s_faults sc)) as [f'|] eqn:Ef.
  - apply find_some in Ef. destruct Ef as [I' _].
    pose proof V as V1. unfold valid_level in V1. rewrite forallb_forall in V1.
    specialize (V1 _ I'). apply andb_true_iff in V1. destruct V1 as [V1 _]. apply negb_true_iff in V1.
    apply N.eqb_neq. exact V1.
  - exfalso. pose proof (find_none _ _ Ef _ I) as X. cbv beta in X. rewrite C in X. discriminate.
Qed.

Lemma LP_last p v : may_false p = false -> N.eqb p P_RESP_CB || N.eqb p P_FIN_CB = false ->
  LP p (seq (hit0 l sc p) (ret v)).
Proof.
  intros MF NC st st' r E. unfold seq, bind in E.
  destruct (hit0 l sc p st) as [st1 r1] eqn:Eh. unfold hit0 in Eh.
  pose proof (hit_state _ _ _ _ _ _ _ _ _ Eh) as S1. pose proof (hit_result _ _ _ _ _ _ _ Eh) as R1. cbv zeta in R1.
  destruct (do_regs_spec (s_regs sc) p 0 (log_ev l p 0 st)) as [_ [B _]].
  exists [mkEv p l (N.of_nat (length (stk st))) (top_is l (stk st)) 0].
  assert (L : log st1 = log st ++ [mkEv p l (N.of_nat (length (stk st))) (top_is l (stk st)) 0])
    by (rewrite S1, B; reflexivity).
  assert (X : existsb (ownp p) [mkEv p l (N.of_nat (length (stk st))) (top_is l (stk st)) 0] = true)
    by (unfold ownp, is_pt; simpl; rewrite !N.eqb_refl; reflexivity).
  unfold cameb. rewrite X. cbn [andb].
  destruct (N.eqb (find_fault (s_faults sc) p 0) 0) eqn:K0.
  - subst r1. unfold ret in E. injection E as <- <-. split; [exact L|].
    destruct (has_fault sc p) eqn:HF; [|reflexivity].
    exfalso. apply N.eqb_eq in K0. exact (has_fault_find p 0 HF NC K0).
  - apply N.eqb_neq in K0. destruct (find_fault_valid sc p 0 _ V MF eq_refl K0) as [KF HF].
    apply N.eqb_neq in KF. rewrite KF in R1. subst r1. injection E as <- <-. split; [exact L|].
    rewrite HF. reflexivity.
Qed.

End Came.

(* ------------------------------------------------------------ the two callback loops *)
Section Loops.
Variables (l : N) (sc : scn).
Hypothesis V : valid_level sc = true.

(* the registrations a callback point can still make: those of the callback running now + the later ones *)
Lemma pend_step bit pt rs c : is_cb pt = true ->
  pend bit pt rs c = (length (regsfor bit rs pt c) + pend bit pt rs (c + 1))%nat.
Proof.
  clear V. intros HC. unfold pend, regsfor, reg_fires. rewrite HC. cbn [negb orb].
  induction rs as [|r rs IH]; simpl; [reflexivity|].
  rewrite app_length.
  destruct (N.eqb (r_pt r) pt), (N.testbit (r_which r) bit); simpl; try exact IH;
    try (destruct (N.eqb (r_n r) c); simpl; exact IH).
  destruct (N.eqb (r_n r) c) eqn:E1, (N.leb c (r_n r)) eqn:E2, (N.leb (c + 1) (r_n r)) eqn:E3; simpl; try lia;
    exfalso;
    first [apply N.eqb_eq in E1 | apply N.eqb_neq in E1];
    first [apply N.leb_le in E2 | apply N.leb_gt in E2];
    first [apply N.leb_le in E3 | apply N.leb_gt in E3]; lia.
Qed.

Lemma resp_spec : forall fuel st st' r,
  (length (rq st) + pend 0 P_RESP_CB (s_regs sc) (nr st) < fuel)%nat -> resp_cbs fuel l sc st = (st', r) ->
  exists evs rest,
    rq st ++ registered_from 0 (s_regs sc) (nr st) 0 evs = map e_aux evs ++ rest /\
    log st' = log st ++ evs /\
    Forall (fun e => e_pt e = P_RESP_CB /\ e_lvl e = l) evs /\
    fq st' = fq st ++ registered_from 1 (s_regs sc) (nr st) 0 evs /\ nf st' = nf st /\
    ((r = Ok 0 /\ rest = []) \/ (exists k, r = Ex k /\ has_fault sc P_RESP_CB = true)).
Proof.
  induction fuel as [|fuel IH]; intros st st' r Hlen E; [inversion Hlen|].
  simpl in E. destruct (rq st) as [|o rest0] eqn:Eq.
  - injection E as <- <-. exists [], []. simpl. rewrite !app_nil_r. repeat split; auto.
  - set (st1 := mkSt (stk st) (log st) rest0 (fq st) (nr st + 1) (nf st)) in *.
    destruct (hit l sc P_RESP_CB o (nr st) false st1) as [st2 r2] eqn:Eh.
    pose proof (hit_state _ _ _ _ _ _ _ _ _ Eh) as S2. pose proof (hit_result _ _ _ _ _ _ _ _ _ Eh) as R2.
    cbv zeta in R2.
    destruct (do_regs_spec (s_regs sc) P_RESP_CB (nr st) (log_ev l P_RESP_CB o st1)) as [_ [B [N1 [N2 [C D]]]]].
    set (e0 := mkEv P_RESP_CB l (N.of_nat (length (stk st1))) (top_is l (stk st1)) o).
    assert (L2 : log st2 = log st ++ [e0]) by (rewrite S2, B; reflexivity).
    assert (Q2 : rq st2 = rest0 ++ regsfor 0 (s_regs sc) P_RESP_CB (nr st)) by (rewrite S2, C; reflexivity).
    assert (F2 : fq st2 = fq st ++ regsfor 1 (s_regs sc) P_RESP_CB (nr st)) by (rewrite S2, D; reflexivity).
    assert (NR2 : nr st2 = nr st + 1) by (rewrite S2, N1; reflexivity).
    assert (NF2 : nf st2 = nf st) by (rewrite S2, N2; reflexivity).
    assert (U : forall b X, registered_from b (s_regs sc) (nr st) 0 (e0 :: X) =
                regsfor b (s_regs sc) P_RESP_CB (nr st) ++ registered_from b (s_regs sc) (nr st + 1) 0 X)
      by (intros b X; reflexivity).
    destruct (N.eqb (find_fault (s_faults sc) P_RESP_CB (nr st)) 0) eqn:K0.
    + subst r2.
      assert (Hl : (length (rq st2) + pend 0 P_RESP_CB (s_regs sc) (nr st2) < fuel)%nat).
      { rewrite Q2, NR2, app_length. rewrite (pend_step 0 P_RESP_CB (s_regs sc) (nr st) eq_refl) in Hlen.
        simpl in Hlen. lia. }
      destruct (IH _ _ _ Hl E) as [evs [rest [A1 [A2 [A3 [A4 [A6 A5]]]]]]].
      rewrite NR2 in A1, A4. exists (e0 :: evs), rest. rewrite !U. split; [|split; [|split; [|split; [|split]]]].
      * simpl. rewrite <- A1, Q2, <- !app_assoc. reflexivity.
      * rewrite A2, L2, <- app_assoc. reflexivity.
      * constructor; [split; reflexivity|exact A3].
      * rewrite A4, F2, <- app_assoc. reflexivity.
      * congruence.
      * exact A5.
    + apply N.eqb_neq in K0.
      destruct (find_fault_valid sc P_RESP_CB (nr st) _ V eq_refl eq_refl K0) as [KF HF].
      apply N.eqb_neq in KF. rewrite KF in R2. subst r2. injection E as <- <-.
      exists [e0], (rest0 ++ regsfor 0 (s_regs sc) P_RESP_CB (nr st)). rewrite !U. simpl. rewrite !app_nil_r.
      split; [reflexivity|]. split; [exact L2|].
      split; [constructor; [split; reflexivity|constructor]|]. split; [exact F2|]. split; [exact NF2|].
      right. eexists. split; [reflexivity|exact HF].
Qed.

Lemma fin_spec : forall fuel st st' r,
  (length (fq st) + pend 1 P_FIN_CB (s_regs sc) (nf st) < fuel)%nat -> fin_cbs fuel l sc st = (st', r) ->
  exists evs rest,
    fq st ++ registered_from 1 (s_regs sc) 0 (nf st) evs = map e_aux evs ++ rest /\
    log st' = log st ++ evs /\
    Forall (fun e => e_pt e = P_FIN_CB /\ e_lvl e = l) evs /\
    ((r = Ok 0 /\ rest = []) \/ (exists k, r = Ex k /\ has_fault sc P_FIN_CB = true)).
Proof.
  induction fuel as [|fuel IH]; intros st st' r Hlen E; [inversion Hlen|].
  simpl in E. destruct (fq st) as [|o rest0] eqn:Eq.
  - injection E as <- <-. exists [], []. simpl. rewrite !app_nil_r. repeat split; auto.
  - set (st1 := mkSt (stk st) (log st) (rq st) rest0 (nr st) (nf st + 1)) in *.
    destruct (hit l sc P_FIN_CB o (nf st) false st1) as [st2 r2] eqn:Eh.
    pose proof (hit_state _ _ _ _ _ _ _ _ _ Eh) as S2. pose proof (hit_result _ _ _ _ _ _ _ _ _ Eh) as R2.
    cbv zeta in R2.
    destruct (do_regs_spec (s_regs sc) P_FIN_CB (nf st) (log_ev l P_FIN_CB o st1)) as [_ [B [N1 [N2 [C D]]]]].
    set (e0 := mkEv P_FIN_CB l (N.of_nat (length (stk st1))) (top_is l (stk st1)) o).
    assert (L2 : log st2 = log st ++ [e0]) by (rewrite S2, B; reflexivity).
    assert (Q2 : fq st2 = rest0 ++ regsfor 1 (s_regs sc) P_FIN_CB (nf st)) by (rewrite S2, D; reflexivity).
    assert (NF2 : nf st2 = nf st + 1) by (rewrite S2, N2; reflexivity).
    assert (U : forall X, registered_from 1 (s_regs sc) 0 (nf st) (e0 :: X) =
                regsfor 1 (s_regs sc) P_FIN_CB (nf st) ++ registered_from 1 (s_regs sc) 0 (nf st + 1) X)
      by (intros X; reflexivity).
    destruct (N.eqb (find_fault (s_faults sc) P_FIN_CB (nf st)) 0) eqn:K0.
    + subst r2.
      assert (Hl : (length (fq st2) + pend 1 P_FIN_CB (s_regs sc) (nf st2) < fuel)%nat).
      { rewrite Q2, NF2, app_length. rewrite (pend_step 1 P_FIN_CB (s_regs sc) (nf st) eq_refl) in Hlen.
        simpl in Hlen. lia. }
      destruct (IH _ _ _ Hl E) as [evs [rest [A1 [A2 [A3 A5]]]]].
      rewrite NF2 in A1. exists (e0 :: evs), rest. rewrite U. split; [|split; [|split]].
      * simpl. rewrite <- A1, Q2, <- !app_assoc. reflexivity.
      * rewrite A2, L2, <- app_assoc. reflexivity.
      * constructor; [split; reflexivity|exact A3].
      * exact A5.
    + apply N.eqb_neq in K0.
      destruct (find_fault_valid sc P_FIN_CB (nf st) _ V eq_refl eq_refl K0) as [KF HF].
      apply N.eqb_neq in KF. rewrite KF in R2. subst r2. injection E as <- <-.
      exists [e0], (rest0 ++ regsfor 1 (s_regs sc) P_FIN_CB (nf st)). rewrite U. simpl. rewrite !app_nil_r.
      split; [reflexivity|]. split; [exact L2|].
      split; [constructor; [split; reflexivity|constructor]|].
      right. eexists. split; [reflexivity|exact HF].
Qed.

(* when the finished-callback loop ends with an exception, it is the LAST callback that ran which raised *)
Lemma fin_spec_last : forall fuel st st' k,
  (length (fq st) + pend 1 P_FIN_CB (s_regs sc) (nf st) < fuel)%nat -> fin_cbs fuel l sc st = (st', Ex k) ->
  exists evs, log st' = log st ++ evs /\ evs <> [] /\
    find_fault (s_faults sc) P_FIN_CB (nf st + N.of_nat (length evs) - 1) <> 0.
Proof.
  induction fuel as [|fuel IH]; intros st st' k Hlen E; [inversion Hlen|].
  simpl in E. destruct (fq st) as [|o rest0] eqn:Eq; [discriminate|].
  set (st1 := mkSt (stk st) (log st) (rq st) rest0 (nr st) (nf st + 1)) in *.
  destruct (hit l sc P_FIN_CB o (nf st) false st1) as [st2 r2] eqn:Eh.
  pose proof (hit_state _ _ _ _ _ _ _ _ _ Eh) as S2. pose proof (hit_result _ _ _ _ _ _ _ _ _ Eh) as R2.
  cbv zeta in R2.
  destruct (do_regs_spec (s_regs sc) P_FIN_CB (nf st) (log_ev l P_FIN_CB o st1)) as [_ [B [N1 [N2 [C D]]]]].
  set (e0 := mkEv P_FIN_CB l (N.of_nat (length (stk st1))) (top_is l (stk st1)) o).
  assert (L2 : log st2 = log st ++ [e0]) by (rewrite S2, B; reflexivity).
  assert (Q2 : fq st2 = rest0 ++ regsfor 1 (s_regs sc) P_FIN_CB (nf st)) by (rewrite S2, D; reflexivity).
  assert (NF2 : nf st2 = nf st + 1) by (rewrite S2, N2; reflexivity).
  destruct (N.eqb (find_fault (s_faults sc) P_FIN_CB (nf st)) 0) eqn:K0.
  - subst r2.
    assert (Hl : (length (fq st2) + pend 1 P_FIN_CB (s_regs sc) (nf st2) < fuel)%nat).
    { rewrite Q2, NF2, app_length. rewrite (pend_step 1 P_FIN_CB (s_regs sc) (nf st) eq_refl) in Hlen.
      simpl in Hlen. lia. }
    destruct (IH _ _ _ Hl E) as [evs [A1 [A2 A3]]].
    exists (e0 :: evs). split; [rewrite A1, L2, <- app_assoc; reflexivity|]. split; [discriminate|].
    rewrite NF2 in A3. intros X. apply A3. rewrite <- X. f_equal. simpl length. lia.
  - apply N.eqb_neq in K0. exists [e0].
    destruct (find_fault_valid sc P_FIN_CB (nf st) _ V eq_refl eq_refl K0) as [KF HF].
    apply N.eqb_neq in KF. rewrite KF in R2. subst r2. injection E as <- _.
    split; [exact L2|]. split; [discriminate|]. simpl. intros X. apply K0. rewrite <- X. f_equal. lia.
Qed.

End Loops.

(* ------------------------------------------------------------ the judge on a log of the expected shape *)
Section Shape.
Variables (l : N) (sc : scn).
Hypothesis V : valid_level sc = true.

Lemma before_first_sat p (X : list pev) : Forall (fun e => p e = true) X -> before_first p X = [].
Proof. intros F. destruct F; simpl; [reflexivity|]. rewrite H. reflexivity. Qed.

Lemma pt_is p q (X : list pev) : Forall (fun e => e_pt e = p) X -> N.eqb p q = false ->
  Forall (fun e => is_pt q e = false) X.
Proof. intros F H. eapply Forall_impl; [|exact F]. intros e E. unfold is_pt. rewrite E. exact H. Qed.
Lemma pt_is_t p (X : list pev) : Forall (fun e => e_pt e = p) X -> Forall (fun e => is_pt p e = true) X.
Proof. intros F. eapply Forall_impl; [|exact F]. intros e E. unfold is_pt. rewrite E. apply N.eqb_refl. Qed.

Lemma judge_own_shape (tw : bool) (Lc Lr Ln Lf : list pev) (rest : list N) :
  let p := if tw then P_OVER_OUT else P_RENDERER in
  Forall (fun e => e_cur e = true) (Lc ++ Lr ++ Ln ++ Lf) ->
  Forall (fun e => is_pt P_RESP_CB e = false /\ is_pt P_NEWRESP e = false /\ is_pt P_FIN_CB e = false) Lc ->
  Forall (fun e => e_pt e = P_RESP_CB) Lr -> Forall (fun e => e_pt e = P_NEWRESP) Ln ->
  Forall (fun e => e_pt e = P_FIN_CB) Lf ->
  reg0 0 (s_regs sc) Lc ++ registered_from 0 (s_regs sc) 0 0 Lr = map e_aux Lr ++ rest ->
  (existsb (is_pt p) Lc && negb (has_fault sc p) = false -> Lr = [] /\ Ln = []) ->
  (length Ln <= 1)%nat ->
  (existsb (is_pt p) Lc && negb (has_fault sc p) = true -> has_fault sc P_RESP_CB = false ->
     rest = [] /\ length Ln = 1%nat) ->
  forall restf,
  registered 1 (s_regs sc) (Lc ++ Lr ++ Ln) ++ registered_from 1 (s_regs sc) 0 0 Lf = map e_aux Lf ++ restf ->
  (has_fault sc P_FIN_CB = false -> restf = []) ->
  (restf = [] \/ fin_last_raises sc 0 (map e_aux Lf) = true) ->
  judge_own l sc tw (Lc ++ Lr ++ Ln ++ Lf) = true.
Proof.
  intros p Hcur Hc Hr Hn Hf Hreg Hno Hn1 Hyes restf Hfin Hfin2 Hfin3.
  assert (Hc16 : Forall (fun e => is_pt P_RESP_CB e = false) Lc) by (eapply Forall_impl; [|exact Hc]; intros e H; apply H).
  assert (Hc17 : Forall (fun e => is_pt P_NEWRESP e = false) Lc) by (eapply Forall_impl; [|exact Hc]; intros e H; apply H).
  assert (Hc18 : Forall (fun e => is_pt P_FIN_CB e = false) Lc) by (eapply Forall_impl; [|exact Hc]; intros e H; apply H).
  assert (F18 : filter (is_pt P_FIN_CB) (Lc ++ Lr ++ Ln ++ Lf) = Lf).
  { rewrite !filter_app, (filter_none _ Lc Hc18), (filter_none _ Lr (pt_is _ P_FIN_CB _ Hr eq_refl)),
      (filter_none _ Ln (pt_is _ P_FIN_CB _ Hn eq_refl)), (filter_all _ Lf (pt_is_t _ _ Hf)). reflexivity. }
  assert (F16 : filter (is_pt P_RESP_CB) (Lc ++ Lr ++ Ln ++ Lf) = Lr).
  { rewrite !filter_app, (filter_none _ Lc Hc16), (filter_all _ Lr (pt_is_t _ _ Hr)),
      (filter_none _ Ln (pt_is _ P_RESP_CB _ Hn eq_refl)), (filter_none _ Lf (pt_is _ P_RESP_CB _ Hf eq_refl)).
    rewrite app_nil_r. reflexivity. }
  assert (F17 : filter (is_pt P_NEWRESP) (Lc ++ Lr ++ Ln ++ Lf) = Ln).
  { rewrite !filter_app, (filter_none _ Lc Hc17), (filter_none _ Lr (pt_is _ P_NEWRESP _ Hr eq_refl)),
      (filter_all _ Ln (pt_is_t _ _ Hn)), (filter_none _ Lf (pt_is _ P_NEWRESP _ Hf eq_refl)).
    rewrite app_nil_r. reflexivity. }
  assert (Pne : N.eqb P_RESP_CB p = false /\ N.eqb P_NEWRESP p = false /\ N.eqb P_FIN_CB p = false)
    by (subst p; destruct tw; repeat split; reflexivity).
  destruct Pne as [Pn1 [Pn2 Pn3]].
  assert (EX : existsb (is_pt p) (Lc ++ Lr ++ Ln ++ Lf) = existsb (is_pt p) Lc).
  { rewrite !existsb_app, (existsb_none _ Lr (pt_is _ _ _ Hr Pn1)), (existsb_none _ Ln (pt_is _ _ _ Hn Pn2)),
      (existsb_none _ Lf (pt_is _ _ _ Hf Pn3)). rewrite !orb_false_r. reflexivity. }
  assert (Q78 : forall X, Forall (fun e => e_pt e = P_NEWRESP) X \/ Forall (fun e => e_pt e = P_FIN_CB) X ->
                Forall (fun e => is_pt P_NEWRESP e || is_pt P_FIN_CB e = true) X).
  { intros X [H|H]; eapply Forall_impl; try exact H; intros e E; unfold is_pt; rewrite E; reflexivity. }
  assert (Qnf : Forall (fun e => is_pt P_NEWRESP e || is_pt P_FIN_CB e = true) (Ln ++ Lf))
    by (apply Forall_app; split; apply Q78; auto).
  assert (Qcr : Forall (fun e => is_pt P_NEWRESP e || is_pt P_FIN_CB e = false) (Lc ++ Lr)).
  { apply Forall_app; split.
    - eapply Forall_impl; [|exact Hc]. intros e [_ [H1 H2]]. rewrite H1, H2. reflexivity.
    - eapply Forall_impl; [|exact Hr]. intros e E. unfold is_pt. rewrite E. reflexivity. }
  assert (BF : before_first (fun e => is_pt P_NEWRESP e || is_pt P_FIN_CB e) (Lc ++ Lr ++ Ln ++ Lf) = Lc ++ Lr).
  { rewrite (app_assoc Lc Lr), (before_first_app _ (Lc ++ Lr) (Ln ++ Lf) Qcr), (before_first_sat _ _ Qnf).
    apply app_nil_r. }
  assert (Ncb : Forall (fun e => is_cb (e_pt e) = false) Lc).
  { eapply Forall_impl; [|exact Hc]. intros e [H1 [_ H3]]. unfold is_cb. unfold is_pt in H1, H3.
    change 16 with P_RESP_CB. change 18 with P_FIN_CB. rewrite H1, H3. reflexivity. }
  assert (Z16c : cnt 16 Lc = 0)
    by (unfold cnt; change (is_pt 16) with (is_pt P_RESP_CB); rewrite (filter_none _ Lc Hc16); reflexivity).
  assert (Z18c : cnt 18 Lc = 0)
    by (unfold cnt; change (is_pt 18) with (is_pt P_FIN_CB); rewrite (filter_none _ Lc Hc18); reflexivity).
  assert (RR : registered 0 (s_regs sc) (Lc ++ Lr) = map e_aux Lr ++ rest).
  { unfold registered. rewrite registered_from_app, Z16c, Z18c, (registered_from_nocb _ _ Lc Ncb). exact Hreg. }
  assert (Z18x : cnt 18 (Lc ++ Lr ++ Ln) = 0).
  { unfold cnt. change (is_pt 18) with (is_pt P_FIN_CB).
    rewrite !filter_app, (filter_none _ Lc Hc18), (filter_none _ Lr (pt_is _ P_FIN_CB _ Hr eq_refl)),
      (filter_none _ Ln (pt_is _ P_FIN_CB _ Hn eq_refl)). reflexivity. }
  assert (R1 : registered 1 (s_regs sc) (Lc ++ Lr ++ Ln ++ Lf) =
               registered 1 (s_regs sc) (Lc ++ Lr ++ Ln) ++ registered_from 1 (s_regs sc) 0 0 Lf).
  { unfold registered. rewrite (app_assoc Lr), (app_assoc Lc), registered_from_app, Z18x.
    f_equal. apply registered_from_fin. exact Hf. }
  assert (FF1 : from_first (is_pt P_FIN_CB) (is_pt P_FIN_CB) (Lc ++ Lr ++ Ln ++ Lf) = true).
  { rewrite (app_assoc Lr), (app_assoc Lc). rewrite from_first_app.
    - apply from_first_forall. apply pt_is_t. exact Hf.
    - repeat (apply Forall_app; split); auto.
      + apply (pt_is _ P_FIN_CB _ Hr eq_refl).
      + apply (pt_is _ P_FIN_CB _ Hn eq_refl). }
  assert (FF2 : from_first (is_pt P_NEWRESP) (fun e => is_pt P_NEWRESP e || is_pt P_FIN_CB e)
                           (Lc ++ Lr ++ Ln ++ Lf) = true).
  { rewrite (app_assoc Lc Lr). rewrite from_first_app.
    - apply from_first_forall. exact Qnf.
    - apply Forall_app; split; [exact Hc17|apply (pt_is _ P_NEWRESP _ Hr eq_refl)]. }
  unfold judge_own, fin_clause. cbv zeta. fold p. rewrite F18, F16, F17, EX, BF, RR, R1, FF1, FF2.
  assert (C1 : forallb (fun e => negb (is_pt P_VIEW e || is_pt P_EXCVIEW e || is_pt P_EXCVIEW_HTTP e) || e_cur e) (Lc ++ Lr ++ Ln ++ Lf) = true).
  { apply forallb_forall. rewrite Forall_forall in Hcur. intros e I. rewrite (Hcur _ I). apply orb_true_r. }
  rewrite C1. cbn [andb].
  rewrite Hfin.
  assert (C2 : (if has_fault sc P_FIN_CB
                then is_prefix (map e_aux Lf) (map e_aux Lf ++ restf) &&
                     (list_eqb (map e_aux Lf) (map e_aux Lf ++ restf) || fin_last_raises sc 0 (map e_aux Lf))
                else list_eqb (map e_aux Lf) (map e_aux Lf ++ restf)) = true).
  { destruct (has_fault sc P_FIN_CB) eqn:HF.
    - rewrite is_prefix_app. cbn [andb]. destruct Hfin3 as [-> | ->]; [rewrite app_nil_r, list_eqb_refl; reflexivity|apply orb_true_r].
    - rewrite (Hfin2 eq_refl), app_nil_r, list_eqb_refl. reflexivity. }
  rewrite C2. cbn [andb].
  destruct (existsb (is_pt p) Lc && negb (has_fault sc p)) eqn:CO.
  - destruct (has_fault sc P_RESP_CB) eqn:HR.
    + rewrite is_prefix_app. apply Nat.leb_le in Hn1. rewrite Hn1. reflexivity.
    + destruct (Hyes eq_refl eq_refl) as [-> HL]. rewrite app_nil_r, list_eqb_refl, HL. reflexivity.
  - destruct (Hno eq_refl) as [-> ->]. reflexivity.
Qed.

End Shape.


(* ------------------------------------------------------------ one request *)
Lemma nocb_of (X : list pev) :
  Forall (fun e => is_pt P_RESP_CB e = false /\ is_pt P_NEWRESP e = false /\ is_pt P_FIN_CB e = false) X ->
  Forall (fun e => is_cb (e_pt e) = false) X /\ cnt 16 X = 0 /\ cnt 18 X = 0.
Proof.
  intros H. split; [|split].
  - eapply Forall_impl; [|exact H]. intros e [H1 [_ H3]]. unfold is_cb. unfold is_pt in H1, H3.
    change 16 with P_RESP_CB. change 18 with P_FIN_CB. rewrite H1, H3. reflexivity.
  - unfold cnt. change (is_pt 16) with (is_pt P_RESP_CB). rewrite filter_none; [reflexivity|].
    eapply Forall_impl; [|exact H]. intros e H1; apply H1.
  - unfold cnt. change (is_pt 18) with (is_pt P_FIN_CB). rewrite filter_none; [reflexivity|].
    eapply Forall_impl; [|exact H]. intros e H1; apply H1.
Qed.

Section Request.
Variables (l : N) (sc : scn).
Hypothesis V : valid_level sc = true.
Variable P : list pev -> Prop.
Variable subrun : option M.
Hypothesis Hsub : forall sr, subrun = Some sr -> pres (Rsub l P) sr.

Definition A16 (q : N) : bool := negb (memN q [P_RESP_CB; P_NEWRESP; P_FIN_CB]).
Definition Anot (p q : N) : bool := negb (N.eqb q p).

Ltac covtac := let q := fresh "q" in let Hq := fresh "Hq" in
  intros q Hq; simpl in Hq; repeat (destruct Hq as [<-|Hq]; [reflexivity|]); destruct Hq.

Lemma vsub_pres : forall sr, vsub sc subrun = Some sr -> pres (Rsub l P) sr.
Proof. unfold vsub. intros sr. destruct (N.eqb (sub_place sc) 1); [discriminate|apply Hsub]. Qed.
Lemma none_pres Q : forall sr, @None M = Some sr -> pres (Rsub l Q) sr.
Proof. intros sr X; discriminate X. Qed.

Lemma pres_chain_gen (A : N -> bool) (ev : N) : covers A (P_OVER_IN :: P_OVER_OUT :: inner_pts) ->
  pres (Rs l sc P A) (tween_chain ev l sc subrun).
Proof.
  intros Cov.
  assert (CI : covers A inner_pts) by (intros q Hq; apply Cov; right; right; exact Hq).
  assert (C1 : A P_OVER_IN = true) by (apply Cov; left; reflexivity).
  assert (C2 : A P_OVER_OUT = true) by (apply Cov; right; left; reflexivity).
  unfold tween_chain, tsub, vsub. destruct (N.eqb (sub_place sc) 1).
  - destruct subrun as [m|] eqn:Es.
    + apply pres_tween_x_some; try reflexivity; try assumption.
      * apply Hsub. reflexivity.
      * exact (pres_excview_part l sc never None (none_pres never) A ev CI).
    + apply pres_tween_x_none; try reflexivity; try assumption.
      exact (pres_excview_part l sc P None (none_pres P) A ev CI).
  - apply pres_tween_x_none; try reflexivity; try assumption.
    exact (pres_excview_part l sc P subrun Hsub A ev CI).
Qed.

Lemma pres_chain (ev : N) (tw : bool) : pres (Rs l sc P A16) (invoke_chain ev l sc tw subrun).
Proof.
  unfold invoke_chain. destruct tw.
  - apply pres_chain_gen. covtac.
  - eapply pres_handle_request; [exact vsub_pres|covtac].
Qed.

Lemma NoP_hit p pt aux n mf : N.eqb pt p = false -> N.eqb pt P_VIEW || is_cb pt = false ->
  pres (NoP l p) (hit l sc pt aux n mf).
Proof.
  intros H HV. eapply NoP_of; [apply (pres_hit l sc (Anot p)); [unfold Anot; rewrite H; reflexivity|exact HV]|].
  unfold Anot. rewrite N.eqb_refl. reflexivity.
Qed.

Lemma LP_chain (ev : N) (tw : bool) : LP l sc (if tw then P_OVER_OUT else P_RENDERER) (invoke_chain ev l sc tw subrun).
Proof.
  unfold invoke_chain. destruct tw.
  - unfold tween_chain, tween_x.
    apply LP_seq; [apply NoP_hit; reflexivity|].
    apply LP_bind.
    + eapply NoP_of; [eapply (pres_excview_part l sc P _ vsub_pres (Anot P_OVER_OUT)); covtac|reflexivity].
    + intros r. apply LP_seq.
      * unfold tsub. destruct (N.eqb (sub_place sc) 1); [destruct subrun as [m|] eqn:Es|].
        -- apply (NoP_of l sc (Anot P_OVER_OUT) P); [|reflexivity]. intros st st' r' E.
           apply (Rsub_Rs l sc P (Anot P_OVER_OUT)). eapply (Hsub m eq_refl). exact E.
        -- eapply NoP_of; [apply (pres_ret l sc (Anot P_OVER_OUT) never)|reflexivity].
        -- eapply NoP_of; [apply (pres_ret l sc (Anot P_OVER_OUT) never)|reflexivity].
      * apply LP_last; [exact V|reflexivity|reflexivity].
  - unfold handle_request.
    apply LP_seq; [apply NoP_hit; reflexivity|].
    apply LP_bind.
    { destruct (s_route sc); [apply NoP_hit; reflexivity|].
      eapply NoP_of; [apply (pres_ret l sc (Anot P_RENDERER) never)|reflexivity]. }
    intros matched.
    apply LP_seq; [apply NoP_hit; reflexivity|].
    apply LP_seq; [destruct (N.eqb matched 0); apply NoP_hit; reflexivity|].
    apply LP_seq; [apply NoP_hit; reflexivity|].
    apply LP_seq; [apply NoP_hit; reflexivity|].
    unfold derived_view.
    apply LP_bind; [apply NoP_hit; reflexivity|]. intros ok.
    apply LP_if; [apply LP_raise|].
    apply LP_bind; [apply NoP_hit; reflexivity|]. intros ok2.
    apply LP_if; [apply LP_raise|].
    apply LP_seq.
    + eapply NoP_of; [eapply (pres_view_body l sc P _ vsub_pres (Anot P_RENDERER)); reflexivity|reflexivity].
    + apply LP_last; [exact V|reflexivity|reflexivity].
Qed.

Lemma Forall_filter {A} (Q : A -> Prop) (f : A -> bool) (X : list A) : Forall Q X -> Forall Q (filter f X).
Proof. induction 1; simpl; [constructor|]. destruct (f x); [constructor|]; auto. Qed.

Lemma own_all (X : list pev) : Forall (fun e => e_lvl e = l) X -> lvl_log l X = X /\ ge_log (l + 1) X = [].
Proof.
  intros F. split.
  - apply filter_all. eapply Forall_impl; [|exact F]. intros e E. simpl. rewrite E. apply N.eqb_refl.
  - apply filter_none. eapply Forall_impl; [|exact F]. intros e E. simpl. rewrite E. apply N.leb_gt. lia.
Qed.

(* after the tween chain: response callbacks and NewResponse (only when it returned) *)
Lemma after_chain (rc : res) (st_c st_m : state) (r_m : res) :
  match rc with
  | Ok v => seq (resp_loop l sc) (seq (hit0 l sc P_NEWRESP) (ret v)) st_c = (st_m, r_m)
  | Ex k => (st_c, Ex k) = (st_m, r_m)
  end ->
  exists Lr Ln rest,
    log st_m = log st_c ++ Lr ++ Ln /\
    Forall (fun e => e_pt e = P_RESP_CB /\ e_lvl e = l) Lr /\
    Forall (fun e => e_pt e = P_NEWRESP /\ e_lvl e = l) Ln /\ (length Ln <= 1)%nat /\
    rq st_c ++ registered_from 0 (s_regs sc) (nr st_c) 0 Lr = map e_aux Lr ++ rest /\
    fq st_m = fq st_c ++ registered_from 1 (s_regs sc) (nr st_c) 0 (Lr ++ Ln) /\ nf st_m = nf st_c /\
    (is_ok rc = false -> Lr = [] /\ Ln = []) /\
    (is_ok rc = true -> has_fault sc P_RESP_CB = false -> rest = [] /\ length Ln = 1%nat).
Proof.
  destruct rc as [v|k]; intros E.
  - unfold seq, bind, resp_loop in E.
    match type of E with context [resp_cbs ?fu l sc st_c] => destruct (resp_cbs fu l sc st_c) as [st_r r_r] eqn:Er end.
    destruct (resp_spec l sc V _ _ _ _ (Nat.lt_succ_diag_r _) Er) as [Lr [rest [A1 [A2 [A3 [A4 [A6 A5]]]]]]].
    destruct A5 as [[-> ->]|[k [-> HF]]].
    + destruct (hit0 l sc P_NEWRESP st_r) as [st_n r_n] eqn:Eh. unfold hit0 in Eh.
      pose proof (hit_state _ _ _ _ _ _ _ _ _ Eh) as S1.
      destruct (do_regs_spec (s_regs sc) P_NEWRESP 0 (log_ev l P_NEWRESP 0 st_r)) as [_ [B [_ [N2 [_ D]]]]].
      set (e0 := mkEv P_NEWRESP l (N.of_nat (length (stk st_r))) (top_is l (stk st_r)) 0).
      assert (st_m = st_n) as -> by (destruct r_n; unfold ret in E; injection E as <- _; reflexivity).
      assert (U : forall cr cf, registered_from 1 (s_regs sc) cr cf [e0] = regsfor 1 (s_regs sc) P_NEWRESP 0).
      { intros cr cf. unfold e0. simpl. rewrite app_nil_r. apply regsfor_noncb. reflexivity. }
      exists Lr, [e0], [].
      split; [rewrite S1, B; simpl; rewrite A2, <- app_assoc; reflexivity|].
      split; [exact A3|]. split; [constructor; [split; reflexivity|constructor]|].
      split; [simpl; lia|]. split; [exact A1|].
      split; [rewrite S1, D; simpl; rewrite A4, registered_from_app, U, <- app_assoc; reflexivity|].
      split; [rewrite S1, N2; simpl; exact A6|].
      split; [intros X; discriminate X|]. intros _ _. split; reflexivity.
    + injection E as <- <-. exists Lr, [], rest. rewrite !app_nil_r.
      split; [exact A2|]. split; [exact A3|]. split; [constructor|]. split; [simpl; lia|].
      split; [exact A1|]. split; [exact A4|]. split; [exact A6|].
      split; [intros X; discriminate X|]. intros _ X. congruence.
  - injection E as <- <-. exists [], [], (rq st_c). simpl. rewrite !app_nil_r.
    split; [reflexivity|]. split; [constructor|]. split; [constructor|]. split; [lia|].
    split; [reflexivity|]. split; [reflexivity|]. split; [reflexivity|].
    split; [intros _; split; reflexivity|]. intros X; discriminate X.
Qed.

Theorem request_judged (ev : N) (tw : bool) st st' r :
  rq st = [] -> fq st = [] -> nr st = 0 -> nf st = 0 ->
  invoke_request ev l sc tw subrun st = (st', r) ->
  exists new, log st' = log st ++ new /\ Forall (fun e => l <= e_lvl e) new /\
    (ge_log (l + 1) new = [] \/ P (ge_log (l + 1) new)) /\
    (Forall (fun e => e_cur e = true) new -> judge_own l sc tw (lvl_log l new) = true).
Proof.
  intros Hrq Hfq Hnr Hnf E. unfold invoke_request, finally in E.
  destruct (invoke_body ev l sc tw subrun st) as [st_m r_m] eqn:Eb.
  unfold invoke_body, bind in Eb.
  destruct (invoke_chain ev l sc tw subrun st) as [st_c rc] eqn:Ec.
  destruct (pres_chain ev tw _ _ _ Ec) as [nc [Lc [Fc [Rq [Fq [NRc [NFc Sc]]]]]]].
  destruct (LP_chain ev tw _ _ _ Ec) as [nc' [Lc' CO]].
  assert (nc' = nc) by (rewrite Lc in Lc'; apply app_inv_head in Lc'; auto). subst nc'.
  rewrite Hrq in Rq. rewrite Hfq in Fq. simpl in Rq, Fq.
  assert (AC : match rc with
               | Ok v => seq (resp_loop l sc) (seq (hit0 l sc P_NEWRESP) (ret v)) st_c = (st_m, r_m)
               | Ex k => (st_c, Ex k) = (st_m, r_m) end) by (destruct rc; exact Eb).
  destruct (after_chain rc st_c st_m r_m AC) as [Lr [Ln [rest [Lm [Fr [Fn [Hn1 [Qc [Fm [NFm [Hno Hyes]]]]]]]]]]].
  rewrite NRc, Hnr in Qc, Fm. rewrite NFc, Hnf in NFm.
  unfold fin_loop in E.
  match type of E with context [fin_cbs ?fu l sc st_m] => destruct (fin_cbs fu l sc st_m) as [st_f r_f] eqn:Ef end.
  destruct (fin_spec l sc V _ _ _ _ (Nat.lt_succ_diag_r _) Ef) as [Lf [restf [B1 [B2 [B3 B5]]]]].
  rewrite NFm in B1.
  assert (st' = st_f) as -> by (destruct r_f; injection E as <- _; reflexivity).
  assert (Or : Forall (fun e => e_lvl e = l) Lr) by (eapply Forall_impl; [|exact Fr]; intros e H; apply H).
  assert (On : Forall (fun e => e_lvl e = l) Ln) by (eapply Forall_impl; [|exact Fn]; intros e H; apply H).
  assert (Of : Forall (fun e => e_lvl e = l) Lf) by (eapply Forall_impl; [|exact B3]; intros e H; apply H).
  destruct (own_all Lr Or) as [Or1 Or2]. destruct (own_all Ln On) as [On1 On2]. destruct (own_all Lf Of) as [Of1 Of2].
  assert (HcL : Forall (fun e => is_pt P_RESP_CB e = false /\ is_pt P_NEWRESP e = false /\ is_pt P_FIN_CB e = false)
                       (lvl_log l nc)).
  { unfold lvl_log. rewrite Forall_forall in Fc |- *. intros e I. apply filter_In in I. destruct I as [I EL].
    apply N.eqb_eq in EL. destruct (Fc _ I) as [[_ HA]|HL]; [|lia].
    unfold A16 in HA. apply negb_true_iff in HA. unfold is_pt. simpl in HA.
    apply orb_false_iff in HA. destruct HA as [H1 HA]. apply orb_false_iff in HA. destruct HA as [H2 HA].
    apply orb_false_iff in HA. destruct HA as [H3 _]. auto. }
  destruct (nocb_of _ HcL) as [Ncb [Z16 Z18]].
  exists (nc ++ Lr ++ Ln ++ Lf). split; [|split; [|split]].
  - rewrite B2, Lm, Lc, <- !app_assoc. reflexivity.
  - repeat (apply Forall_app; split).
    + eapply Forall_impl; [|exact Fc]. intros e [[H _]|H]; lia.
    + eapply Forall_impl; [|exact Or]. intros e H; cbv beta in *; lia.
    + eapply Forall_impl; [|exact On]. intros e H; cbv beta in *; lia.
    + eapply Forall_impl; [|exact Of]. intros e H; cbv beta in *; lia.
  - rewrite !ge_log_app, Or2, On2, Of2, !app_nil_r. exact Sc.
  - intros Hcur. rewrite !lvl_log_app, Or1, On1, Of1.
    apply (judge_own_shape l sc tw (lvl_log l nc) Lr Ln Lf rest) with (restf := restf).
    + rewrite <- Or1, <- On1, <- Of1, <- !lvl_log_app. apply Forall_filter. exact Hcur.
    + exact HcL.
    + eapply Forall_impl; [|exact Fr]. intros e H; apply H.
    + eapply Forall_impl; [|exact Fn]. intros e H; apply H.
    + eapply Forall_impl; [|exact B3]. intros e H; apply H.
    + rewrite <- Rq. exact Qc.
    + intros X. apply Hno. rewrite <- CO. unfold cameb. rewrite <- X. f_equal.
      unfold lvl_log. rewrite existsb_filter. reflexivity.
    + exact Hn1.
    + intros X. apply Hyes. rewrite <- CO. unfold cameb. rewrite <- X. f_equal.
      unfold lvl_log. rewrite existsb_filter. reflexivity.
    + rewrite <- B1, Fm, Fq. f_equal.
      unfold registered. rewrite registered_from_app, Z16, Z18, (registered_from_nocb _ _ _ Ncb). reflexivity.
    + intros HF. destruct B5 as [[_ ->]|[k [_ HF']]]; [reflexivity|congruence].
    + destruct B5 as [[_ ->]|[k [-> _]]]; [left; reflexivity|right].
      destruct (fin_spec_last l sc V _ _ _ _ (Nat.lt_succ_diag_r _) Ef) as [Lf' [B2' [NE FL]]].
      assert (Lf' = Lf) by (rewrite B2 in B2'; apply app_inv_head in B2'; auto). subst Lf'.
      unfold fin_last_raises. rewrite map_length. destruct Lf as [|e0 Lf0]; [contradiction NE; reflexivity|].
      cbn [map]. rewrite NFm in FL. apply negb_true_iff. apply N.eqb_neq. exact FL.
Qed.

End Request.

(* ------------------------------------------------------------ the tree *)
Lemma judge_tree_ge : forall sc k tw lg, judge_tree k sc tw (ge_log k lg) = judge_tree k sc tw lg.
Proof.
  fix IH 1. intros [r fs rs sb] k tw lg. simpl.
  assert (X : lvl_log k (ge_log k lg) = lvl_log k lg).
  { apply filter_filter_imp. intros e H. apply N.eqb_eq in H. apply N.leb_le. lia. }
  unfold judge_level. rewrite X. f_equal. destruct sb as [|tw' pl' sc']; [reflexivity|].
  assert (Y : lvl_log (k + 1) (ge_log k lg) = lvl_log (k + 1) lg).
  { apply filter_filter_imp. intros e H. apply N.eqb_eq in H. apply N.leb_le. lia. }
  rewrite Y. destruct (lvl_log (k + 1) lg); [reflexivity|].
  rewrite <- (IH sc' (k + 1) tw' (ge_log k lg)), <- (IH sc' (k + 1) tw' lg). f_equal.
  apply filter_filter_imp. intros e H. apply N.leb_le in H. apply N.leb_le. lia.
Qed.

(* what run_request guarantees, as the parent request needs it *)
Definition subP (k : N) (sc : scn) (tw : bool) (seg : list pev) : Prop :=
  Forall (fun e => e_cur e = true) seg -> judge_tree k sc tw seg = true.

Fixpoint run_request_judged (sc : scn) : forall ev l tw st st' r,
  valid_tree sc = true -> run_request ev l sc tw st = (st', r) ->
  exists new, log st' = log st ++ new /\ Forall (fun e => l <= e_lvl e) new /\
    rq st' = rq st /\ fq st' = fq st /\ nr st' = nr st /\ nf st' = nf st /\ subP l sc tw new.
Proof.
  intros ev l tw st st' r VT E. destruct sc as [rt fs rs sb]. simpl in E.
  unfold with_fresh_request in E.
  match type of E with context [frame l ?m ?s0] => destruct (frame l m s0) as [st1 r1] eqn:Ef end.
  injection E as <- <-.
  unfold frame, seq, bind, push, upd_stk in Ef. cbn [stk log rq fq nr nf] in Ef.
  unfold finally in Ef.
  match type of Ef with context [invoke_request ev l ?scx tw ?sub ?s0] =>
    destruct (invoke_request ev l scx tw sub s0) as [st2 r2] eqn:Ei end.
  unfold pop, upd_stk in Ef. injection Ef as <- <-.
  simpl in VT. apply andb_true_iff in VT. destruct VT as [VL VS].
  set (scx := Scn rt fs rs sb) in *.
  set (Psub := match sb with NoSub => never | Sub tw' _ sc' => subP (l + 1) sc' tw' end).
  assert (Hsub : forall sr, match sb with NoSub => None | Sub tw' _ sc' => Some (run_request ev (l + 1) sc' tw') end = Some sr ->
                 pres (Rsub l Psub) sr).
  { intros sr Hs. destruct sb as [|tw' pl' sc']; [discriminate|]. injection Hs as <-.
    intros a b rr Er. destruct (run_request_judged sc' ev (l + 1) tw' a b rr VS Er) as [n [A1 [A2 [A3 [A4 [A5 [A6 A7]]]]]]].
    exists n. repeat split; auto. }
  pose proof (fun a b c d => request_judged l scx VL Psub _ Hsub ev tw _ _ _ a b c d Ei) as RJ.
  destruct (RJ eq_refl eq_refl eq_refl eq_refl) as [new [L [F [S J]]]].
  exists new. cbn [stk log rq fq nr nf] in *. repeat split; auto.
  intros Hcur. subst scx. simpl. unfold judge_level. rewrite (J Hcur). cbn [andb].
  destruct sb as [|tw' pl' sc']; [reflexivity|].
  assert (Y : lvl_log (l + 1) new = lvl_log (l + 1) (ge_log (l + 1) new)).
  { symmetry. apply filter_filter_imp. intros e H. apply N.eqb_eq in H. apply N.leb_le. lia. }
  destruct S as [S|S].
  - rewrite Y, S. reflexivity.
  - destruct (lvl_log (l + 1) new); [reflexivity|].
    rewrite <- judge_tree_ge. apply S. apply Forall_filter. exact Hcur.
Qed.

(* the central statement: for every valid scenario tree, with or without an exception view, the run of the
   pipeline interpreter satisfies the declarative judge of the property *)
Theorem model_satisfies_judge : forall ev sc st r,
  valid_tree sc = true -> run_top ev sc [] = (st, r) ->
  judge sc (N.of_nat (length (stk st))) (log st) = true.
Proof.
  intros ev sc st r VT E. destruct (pipeline_depth _ _ _ _ _ E) as [S C].
  unfold run_top in E. destruct (run_request_judged sc ev 0 true _ _ _ VT E) as [new [L [_ [_ [_ [_ [_ J]]]]]]].
  simpl in L. unfold judge. rewrite S. simpl. rewrite L in *. apply J. exact C.
Qed.

(* non-vacuity: the example tree (fault in the parent's view, subrequest without tweens failing in its
   renderer, callbacks registered at three points) is valid *)
Example ex_scn_valid : valid_tree ex_scn = true.
Proof. vm_compute. reflexivity. Qed.
