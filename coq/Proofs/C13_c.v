(* C13 part (b), central statement: for every valid scenario tree the run of the
   pipeline interpreter satisfies the declarative judge. *)
From Coq Require Import List NArith ZArith Bool Arith Lia.
Import ListNotations.
Require Import Verif.Lib.Wire Verif.Lib.C13Bracket Verif.Gen.Facts_C13 Verif.Model.C13 Verif.Proofs.C13_b.
Local Open Scope N_scope.

(* ------------------------------------------------------------ lists *)
Definition ge_log (l : N) (lg : list pev) : list pev := filter (fun e => N.leb l (e_lvl e)) lg.

Lemma filter_none {A} (p : A -> bool) (l : list A) : Forall (fun x => p x = false) l -> filter p l = [].
Proof. induction 1; simpl; [reflexivity|]. rewrite H. exact IHForall. Qed.
Lemma filter_all {A} (p : A -> bool) (l : list A) : Forall (fun x => p x = true) l -> filter p l = l.
Proof. induction 1; simpl; [reflexivity|]. rewrite H, IHForall. reflexivity. Qed.
Lemma existsb_none {A} (p : A -> bool) (l : list A) : Forall (fun x => p x = false) l -> existsb p l = false.
Proof. induction 1; simpl; [reflexivity|]. rewrite H. exact IHForall. Qed.
Lemma existsb_filter {A} (p q : A -> bool) (l : list A) :
  existsb p (filter q l) = existsb (fun x => q x && p x) l.
Proof. induction l as [|x l IH]; simpl; [reflexivity|]. destruct (q x); simpl; rewrite IH; reflexivity. Qed.
Lemma filter_filter_imp {A} (p q : A -> bool) (l : list A) :
  (forall x, p x = true -> q x = true) -> filter p (filter q l) = filter p l.
Proof.
  intros H. induction l as [|x l IH]; simpl; [reflexivity|].
  destruct (q x) eqn:Q; simpl; [rewrite IH; reflexivity|].
  destruct (p x) eqn:Px; [rewrite (H _ Px) in Q; discriminate|exact IH].
Qed.

Lemma list_eqb_refl a : list_eqb a a = true.
Proof. induction a; simpl; [reflexivity|]. rewrite N.eqb_refl. exact IHa. Qed.
Lemma is_prefix_app a b : is_prefix a (a ++ b) = true.
Proof. induction a; simpl; [reflexivity|]. rewrite N.eqb_refl. exact IHa. Qed.

Lemma before_first_app p (a b : list pev) :
  Forall (fun e => p e = false) a -> before_first p (a ++ b) = a ++ before_first p b.
Proof. induction 1; simpl; [reflexivity|]. rewrite H, IHForall. reflexivity. Qed.
Lemma before_first_all p (a : list pev) : Forall (fun e => p e = false) a -> before_first p a = a.
Proof. induction 1; simpl; [reflexivity|]. rewrite H, IHForall. reflexivity. Qed.
Lemma before_first_hd p (a : list pev) : match a with e :: _ => p e = true | [] => True end -> before_first p a = [].
Proof. destruct a; simpl; [reflexivity|]. intros ->. reflexivity. Qed.
Lemma from_first_app p q (a b : list pev) :
  Forall (fun e => p e = false) a -> from_first p q (a ++ b) = from_first p q b.
Proof. induction 1; simpl; [reflexivity|]. rewrite H. exact IHForall. Qed.
Lemma from_first_forall p q (a : list pev) : Forall (fun e => q e = true) a -> from_first p q a = true.
Proof.
  induction 1; simpl; [reflexivity|]. destruct (p x); [|exact IHForall].
  rewrite H. simpl. apply forallb_forall. rewrite Forall_forall in H0. exact H0.
Qed.

Lemma registered_app b rs x y : registered b rs (x ++ y) = registered b rs x ++ registered b rs y.
Proof. unfold registered. apply flat_map_app. Qed.

Definition regsfor (bit : N) (rs : list reg) (pt : N) : list N :=
  flat_map (fun r => if N.eqb (r_pt r) pt && N.testbit (r_which r) bit then [pt] else []) rs.

Lemma registered_one b rs pt lv d c aux :
  registered b rs [mkEv pt lv d c aux] = if N.eqb pt P_VIEW && N.eqb aux 1 then [] else regsfor b rs pt.
Proof. unfold registered. simpl. rewrite app_nil_r. destruct (N.eqb pt P_VIEW && N.eqb aux 1); reflexivity. Qed.

Lemma do_regs_spec rs pt st :
  stk (do_regs rs pt st) = stk st /\ log (do_regs rs pt st) = log st /\
  nr (do_regs rs pt st) = nr st /\ nf (do_regs rs pt st) = nf st /\
  rq (do_regs rs pt st) = rq st ++ regsfor 0 rs pt /\ fq (do_regs rs pt st) = fq st ++ regsfor 1 rs pt.
Proof.
  unfold do_regs, regsfor. revert st. induction rs as [|r rs IH]; intros st; simpl.
  - rewrite !app_nil_r. repeat split; reflexivity.
  - destruct (N.eqb (r_pt r) pt); simpl; [|apply IH].
    match goal with |- context [fold_left ?f rs ?s0] => destruct (IH s0) as [A [B [C [D [E F]]]]] end.
    rewrite A, B, C, D, E, F. simpl.
    destruct (N.testbit (r_which r) 0), (N.testbit (r_which r) 1); simpl; rewrite <- ?app_assoc; repeat split; reflexivity.
Qed.

(* ------------------------------------------------------------ faults under validity *)
Definition may_false (p : N) : bool := memN p [P_ROUTE_PRED; P_VIEW_PRED; P_PERMITS].

Lemma find_fault_valid sc p n k :
  valid_level sc = true -> may_false p = false ->
  find_fault (s_faults sc) p n = k -> k <> 0 -> k <> K_FALSE /\ has_fault sc p = true.
Proof.
  unfold valid_level, find_fault, has_fault. intros V MF E K. apply andb_true_iff in V. destruct V as [V _].
  rewrite forallb_forall in V.
  destruct (find _ (s_faults sc)) as [f|] eqn:Ef; [|congruence]. subst k.
  apply find_some in Ef. destruct Ef as [I C]. apply andb_true_iff in C. destruct C as [C _].
  apply N.eqb_eq in C. specialize (V _ I). apply andb_true_iff in V. destruct V as [V1 V2].
  assert (KF : N.eqb (f_kind f) K_FALSE = false).
  { destruct (N.eqb (f_kind f) K_FALSE) eqn:X; [|reflexivity]. cbn [negb orb] in V2. rewrite C in V2.
    unfold may_false in MF. rewrite MF in V2. discriminate. }
  split; [apply N.eqb_neq; exact KF|].
  apply existsb_exists. exists f. split; [exact I|]. rewrite C, N.eqb_refl, KF. simpl. exact V1.
Qed.

Lemma no_fault_find sc p n : has_fault sc p = false -> valid_level sc = true -> may_false p = false ->
  find_fault (s_faults sc) p n = 0.
Proof.
  intros H V MF. destruct (N.eq_dec (find_fault (s_faults sc) p n) 0) as [E|E]; [exact E|].
  destruct (find_fault_valid sc p n _ V MF eq_refl E) as [_ X]. congruence.
Qed.

Lemma valid_regs sc : valid_level sc = true ->
  regsfor 0 (s_regs sc) P_RESP_CB = [] /\ regsfor 1 (s_regs sc) P_FIN_CB = [].
Proof.
  unfold valid_level. intros V. apply andb_true_iff in V. destruct V as [_ V]. rewrite forallb_forall in V.
  unfold regsfor. split.
  - induction (s_regs sc) as [|r rs IH]; simpl; [reflexivity|].
    pose proof (V r (or_introl eq_refl)) as X. apply andb_true_iff in X. destruct X as [X _].
    apply negb_true_iff in X. rewrite X. simpl. apply IH. intros y Hy. apply V. right. exact Hy.
  - induction (s_regs sc) as [|r rs IH]; simpl; [reflexivity|].
    pose proof (V r (or_introl eq_refl)) as X. apply andb_true_iff in X. destruct X as [_ X].
    apply negb_true_iff in X. rewrite X. simpl. apply IH. intros y Hy. apply V. right. exact Hy.
Qed.
