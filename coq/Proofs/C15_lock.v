(* C15 -- the lock of the translated lookup program: mutual exclusion of the [with registry._lock:]
   body, release by the holder, absence of deadlock.  Over arbitrary traces. *)
From Coq Require Import List NArith ZArith Bool Arith Lia.
Import ListNotations.
Require Import Verif.Lib.Wire Verif.Lib.C15Prog Verif.Gen.Facts_C15 Verif.Model.C15 Verif.Proofs.C15.

Section Lock.
  Variable sro : N -> list N.
  Variable km : key_mode.
  Hypothesis Hkm : forall k, ckey km k = k.
  Notation wbL := (std_wb Local).
  Notation LPs := (LPs wbL).
  Notation Inv := (Inv sro wbL).
  Notation stepT := (step_thread sro km).
  Notation doL := (do_label sro km LPs RPs).
  Notation run := (exec sro km LPs RPs).

  Definition LockInv (st : state) : Prop :=
    (forall i t, threads st i = Some t -> (in_critical t = true <-> lock st = Some i)) /\
    (forall i, lock st = Some i -> threads st i <> None).

  Inductive lock_effect (st st' : state) (i : tid) (t t' : thread) : Prop :=
  | LE_none : in_critical t = false -> in_critical t' = false -> lock st' = lock st -> lock_effect st st' i t t'
  | LE_acquire : in_critical t = false -> in_critical t' = true -> lock st = None -> lock st' = Some i ->
                 lock_effect st st' i t t'
  | LE_inside : in_critical t = true -> in_critical t' = true -> lock st' = lock st -> lock_effect st st' i t t'
  | LE_release : in_critical t = true -> in_critical t' = false -> lock st' = None -> lock_effect st st' i t t'.

  Ltac ic := first [ reflexivity
                   | unfold in_critical; simpl;
                     repeat match goal with H : cont _ = _ |- _ => rewrite H end; simpl;
                     first [reflexivity | assumption | auto] ].

  Lemma step_lock_effect st i t :
    Inv st -> threads st i = Some t ->
    exists t', (forall j, threads (stepT st i t) j = upd (threads st) i (Some t') j) /\
               lock_effect st (stepT st i t) i t t'.
  Proof.
    intros I Hi. destruct (inv_threads _ _ _ I _ _ Hi) as [_ B].
    assert (SELF : forall j, threads st j = upd (threads st) i (Some t) j).
    { intros j. unfold upd. destruct (Nat.eqb_spec j i); subst; auto. }
    unfold step_thread.
    destruct (tkind t) eqn:Hk.
    - destruct B as [Hc Htc Hv|Hc Htc Hv|Hc Htc Hv|vs Hc Htc Hv Hne Hcs|Hc Htc Hv|Hc Htc Hv
                    |vs dn todo Hc Htc Hv Hsp Hcs|vs Hc Htc Hv Hne Hcs|vs Hc Htc Hv Hne Hcs
                    |vs Hc Htc Hv Hcs|vs Hc Htc Hv Hcs|Hc|vs d Hc Htc Hv Hne Hcs Hsn Hd1 Hd2];
        rewrite Hc; try rewrite Hv.
      + simpl. eexists. split; [intros j; reflexivity|]. apply LE_none; ic.
      + simpl. destruct (tc t); [|congruence]. simpl.
        eexists. split; [intros j; reflexivity|]. apply LE_none; ic.
      + simpl. eexists. split; [intros j; reflexivity|]. apply LE_none; ic.
      + simpl. eexists. split; [intros j; reflexivity|]. apply LE_none; ic.
      + simpl. eexists. split; [intros j; reflexivity|]. apply LE_none; ic.
      + simpl. eexists. split; [intros j; reflexivity|].
        apply LE_none; try ic. unfold in_critical. simpl. destruct (slots_of sro (tkey t)); reflexivity.
      + destruct todo as [|s todo']; simpl.
        * destruct vs as [|v vs']; simpl; (eexists; split; [intros j; reflexivity|]); apply LE_none; ic.
        * eexists. split; [intros j; reflexivity|]. apply LE_none; try ic.
          unfold in_critical. simpl. destruct todo'; reflexivity.
      + simpl. destruct (lock st) eqn:El; simpl.
        * exists t. split; [exact SELF|]. apply LE_none; ic.
        * eexists. split; [intros j; reflexivity|]. apply LE_acquire; ic.
      + simpl. destruct (tc t); [|congruence]. simpl.
        eexists. split; [intros j; reflexivity|]. apply LE_inside; ic.
      + simpl. eexists. split; [intros j; reflexivity|]. apply LE_release; ic.
      + simpl. eexists. split; [intros j; reflexivity|]. apply LE_none; ic.
      + exists t. split; [exact SELF|]. apply LE_none; ic.
      + rewrite Hsn. simpl. destruct (tc t); [|congruence]. simpl.
        eexists. split; [intros j; reflexivity|]. apply LE_none; ic.
    - destruct B as [[Hc Hp]|[[Hc Hp]|Hc]]; rewrite Hc; simpl.
      + eexists. split; [intros j; reflexivity|]. apply LE_none; ic.
      + eexists. split; [intros j; reflexivity|]. apply LE_none; ic.
      + exists t. split; [exact SELF|]. apply LE_none; ic.
  Qed.

  Lemma lockinv_init R0 : LockInv (init R0).
  Proof. split; simpl; intros; discriminate. Qed.

  Lemma lockinv_label st l : Inv st -> LockInv st -> LockInv (doL st l).
  Proof.
    intros I [A B].
    assert (SP : forall t0, in_critical t0 = false -> LockInv (spawn st t0)).
    { intros t0 H0. split; simpl.
      - intros i t Hi. destruct (Nat.eq_dec i (ntid st)) as [->|Hne].
        + rewrite upd_same in Hi. inversion Hi. subst t. rewrite H0. split; [discriminate|].
          intros E. apply B in E. rewrite (inv_ntid _ _ _ I) in E by lia. congruence.
        + rewrite upd_other in Hi by auto. apply A. exact Hi.
      - intros i E. destruct (Nat.eq_dec i (ntid st)) as [->|Hne].
        + rewrite upd_same. discriminate.
        + rewrite upd_other by auto. apply B. exact E. }
    destruct l as [k|ups|i]; simpl.
    - apply SP. reflexivity.
    - apply SP. reflexivity.
    - destruct (threads st i) as [t|] eqn:Hi; [|split; assumption].
      destruct (step_lock_effect st i t I Hi) as (t' & Hp & E).
      pose proof (A i t Hi) as Ai.
      split.
      + intros j tj Hj. rewrite Hp in Hj. destruct (Nat.eq_dec j i) as [->|Hne].
        * rewrite upd_same in Hj. inversion Hj. subst tj.
          destruct E as [E1 E2 E3|E1 E2 E3 E4|E1 E2 E3|E1 E2 E3]; rewrite E2.
          -- rewrite E3. rewrite <- Ai. rewrite E1. tauto.
          -- rewrite E4. tauto.
          -- rewrite E3. rewrite <- Ai. rewrite E1. tauto.
          -- rewrite E3. split; discriminate.
        * rewrite upd_other in Hj by auto. pose proof (A j tj Hj) as Aj.
          destruct E as [E1 E2 E3|E1 E2 E3 E4|E1 E2 E3|E1 E2 E3].
          -- rewrite E3. exact Aj.
          -- rewrite E4. rewrite E3 in Aj. split.
             ++ intros H. apply Aj in H. discriminate.
             ++ intros H. inversion H. congruence.
          -- rewrite E3. exact Aj.
          -- rewrite E3. assert (L : lock st = Some i) by (apply Ai; exact E1).
             rewrite L in Aj. split.
             ++ intros H. apply Aj in H. inversion H. congruence.
             ++ discriminate.
      + intros j Ej. rewrite Hp. destruct (Nat.eq_dec j i) as [->|Hne].
        * rewrite upd_same. discriminate.
        * rewrite upd_other by auto. apply B.
          destruct E as [E1 E2 E3|E1 E2 E3 E4|E1 E2 E3|E1 E2 E3]; try congruence.
  Qed.

  Lemma lockinv_run tr st : Inv st -> LockInv st -> LockInv (run tr st).
  Proof.
    revert st. induction tr as [|l tr IH]; intros st I L; simpl; [exact L|].
    apply IH; [apply (inv_label sro km Hkm wbL HwbL); exact I|apply lockinv_label; auto].
  Qed.

  Lemma lockinv_reachable R0 tr : LockInv (run tr (init R0)).
  Proof. apply lockinv_run; [apply inv_init|apply lockinv_init]. Qed.

  (* at most one thread is between Lock and Unlock, and it is the holder of the lock *)
  Lemma mutual_exclusion_std R0 tr i j ti tj :
    let st := run tr (init R0) in
    threads st i = Some ti -> threads st j = Some tj ->
    in_critical ti = true -> in_critical tj = true -> i = j /\ lock st = Some i.
  Proof.
    intros st Hi Hj Ci Cj. destruct (lockinv_reachable R0 tr) as [A _].
    apply (A i ti Hi) in Ci. apply (A j tj Hj) in Cj. fold st in Ci, Cj. split; congruence.
  Qed.

  (* the holder releases the lock within two of its own steps *)
  Lemma holder_releases_std R0 tr i :
    let st := run tr (init R0) in
    lock st = Some i -> lock (run [Step i; Step i] st) = None.
  Proof.
    intros st El. assert (I : Inv st) by apply (inv_reachable sro km Hkm wbL HwbL).
    destruct (lockinv_reachable R0 tr) as [A B]. fold st in A, B.
    destruct (threads st i) as [t|] eqn:Hi; [|exfalso; apply (B i El); exact Hi].
    assert (C : in_critical t = true) by (apply (A i t Hi); exact El).
    destruct (inv_threads _ _ _ I _ _ Hi) as [_ K]. unfold in_critical in C.
    change (run [Step i; Step i] st) with (doL (doL st (Step i)) (Step i)).
    assert (E1 : doL st (Step i) = stepT st i t) by (simpl; rewrite Hi; reflexivity). rewrite E1.
    destruct (tkind t) eqn:Hk.
    - destruct K as [Hc Htc Hv|Hc Htc Hv|Hc Htc Hv|vs Hc Htc Hv Hne Hcs|Hc Htc Hv|Hc Htc Hv
                    |vs dn todo Hc Htc Hv Hsp Hcs|vs Hc Htc Hv Hne Hcs|vs Hc Htc Hv Hne Hcs
                    |vs Hc Htc Hv Hcs|vs Hc Htc Hv Hcs|Hc|vs d Hc Htc Hv Hne Hcs Hsn Hd1 Hd2];
        rewrite Hc in C; simpl in C; try discriminate.
      + destruct todo; simpl in C; discriminate.
      + assert (E2 : exists s1 t1, stepT st i t = s1 /\ threads s1 i = Some t1 /\ cont t1 = [Unlock; Return]).
        { unfold step_thread. rewrite Hc, Hv. simpl. destruct (tc t); [|congruence]. simpl.
          eexists. eexists. split; [reflexivity|]. split; [apply upd_same|reflexivity]. }
        destruct E2 as (s1 & t1 & E2 & H1 & H2). rewrite E2.
        simpl. rewrite H1. unfold step_thread. rewrite H2. reflexivity.
      + assert (E2 : exists s1 t1, stepT st i t = s1 /\ threads s1 i = Some t1 /\ cont t1 = [Return] /\ lock s1 = None).
        { unfold step_thread. rewrite Hc. simpl.
          eexists. eexists. split; [reflexivity|]. split; [apply upd_same|split; reflexivity]. }
        destruct E2 as (s1 & t1 & E2 & H1 & H2 & H3). rewrite E2.
        simpl. rewrite H1. unfold step_thread. rewrite H2. simpl. exact H3.
    - destruct K as [[Hc Hp]|[[Hc Hp]|Hc]]; rewrite Hc in C; discriminate.
  Qed.

  (* a thread waiting at Lock becomes enabled once the holder has taken its two steps *)
  Lemma waiting_lock_enabled_std R0 tr i j tj rest :
    let st := run tr (init R0) in
    lock st = Some i -> threads st j = Some tj -> cont tj = Lock :: rest ->
    enabled (run [Step i; Step i] st) j = true.
  Proof.
    intros st El Hj Hc.
    pose proof (holder_releases_std R0 tr i El) as Hr. fold st in Hr.
    destruct (lockinv_reachable R0 tr) as [A B]. fold st in A, B.
    assert (Hne : j <> i).
    { intros ->. assert (C : in_critical tj = true) by (apply (A i tj Hj); exact El).
      unfold in_critical in C. rewrite Hc in C. discriminate. }
    assert (U : forall s, threads s j = Some tj -> threads (doL s (Step i)) j = Some tj).
    { intros s Hs. simpl. destruct (threads s i) as [ti|] eqn:Hi; [|exact Hs].
      destruct (step_generic sro km s i ti Hi) as (_ & Ho & _). rewrite Ho by auto. exact Hs. }
    unfold enabled. rewrite Hr.
    change (run [Step i; Step i] st) with (doL (doL st (Step i)) (Step i)).
    rewrite (U _ (U _ Hj)). rewrite Hc. reflexivity.
  Qed.

  (* no reachable state in which some thread is unfinished and every thread is blocked *)
  Lemma no_deadlock_std R0 tr j :
    let st := run tr (init R0) in
    unfinished st j = true -> exists i, enabled st i = true.
  Proof.
    intros st Hu. destruct (lockinv_reachable R0 tr) as [A B]. fold st in A, B.
    unfold unfinished in Hu. destruct (threads st j) as [tj|] eqn:Hj; [|discriminate].
    destruct (cont tj) as [|ins rest] eqn:Hc; [discriminate|].
    destruct (enabled st j) eqn:Ej; [exists j; exact Ej|].
    unfold enabled in Ej. rewrite Hj, Hc in Ej.
    destruct ins; try discriminate.
    destruct (lock st) as [i|] eqn:El; [|discriminate].
    exists i. destruct (threads st i) as [ti|] eqn:Hi; [|exfalso; apply (B i eq_refl); exact Hi].
    assert (C : in_critical ti = true) by (apply (A i ti Hi); reflexivity).
    unfold enabled. rewrite Hi. unfold in_critical in C.
    destruct (cont ti) as [|x r]; [discriminate|]. destruct x; try discriminate; reflexivity.
  Qed.

  (* an enabled thread makes progress: its step executes one instruction *)
  Lemma enabled_progress st i :
    enabled st i = true ->
    exists t t', threads st i = Some t /\ threads (doL st (Step i)) i = Some t' /\ tpc t' = S (tpc t).
  Proof.
    unfold enabled. intros H. destruct (threads st i) as [t|] eqn:Hi; [|discriminate].
    exists t. simpl. rewrite Hi. unfold step_thread.
    destruct (cont t) as [|ins rest]; [discriminate|].
    destruct ins; simpl;
      repeat match goal with
             | |- context [match ?x with _ => _ end] => destruct x eqn:?; simpl
             end;
      try discriminate; eexists; (split; [reflexivity|]); (split; [apply upd_same|reflexivity]).
  Qed.
End Lock.

(* ---- for the translated programs ---- *)
Lemma mutual_exclusion : forall sro R0 tr i j ti tj,
  let st := exec sro KeyFull lookup_prog register_prog tr (init R0) in
  threads st i = Some ti -> threads st j = Some tj ->
  in_critical ti = true -> in_critical tj = true -> i = j /\ lock st = Some i.
Proof. rewrite facts_lookup_prog, facts_register_prog. exact (fun sro => mutual_exclusion_std sro KeyFull HkmF). Qed.

Lemma holder_releases : forall sro R0 tr i,
  let st := exec sro KeyFull lookup_prog register_prog tr (init R0) in
  lock st = Some i ->
  lock (exec sro KeyFull lookup_prog register_prog [Step i; Step i] st) = None /\
  forall j tj rest, threads st j = Some tj -> cont tj = Lock :: rest ->
                    enabled (exec sro KeyFull lookup_prog register_prog [Step i; Step i] st) j = true.
Proof.
  rewrite facts_lookup_prog, facts_register_prog. intros sro R0 tr i st El. split.
  - apply (holder_releases_std sro KeyFull HkmF). exact El.
  - intros j tj rest Hj Hc. eapply (waiting_lock_enabled_std sro KeyFull HkmF); eauto.
Qed.

Lemma no_deadlock : forall sro R0 tr j,
  let st := exec sro KeyFull lookup_prog register_prog tr (init R0) in
  unfinished st j = true ->
  exists i t t', enabled st i = true /\ threads st i = Some t /\
                 threads (do_label sro KeyFull lookup_prog register_prog st (Step i)) i = Some t' /\
                 tpc t' = S (tpc t).
Proof.
  rewrite facts_lookup_prog, facts_register_prog. intros sro R0 tr j st Hu.
  destruct (no_deadlock_std sro KeyFull HkmF R0 tr j Hu) as (i & Hi).
  destruct (enabled_progress sro KeyFull _ i Hi) as (t & t' & A & B & C).
  exists i, t, t'. auto.
Qed.
