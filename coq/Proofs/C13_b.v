(* C13 part (b): the pipeline interpreter restores the thread-local stack and
   every event happens while its own request is the current one -- for every
   scenario tree, exception-view availability and initial stack. *)
From Coq Require Import List NArith ZArith Bool Arith Lia.
Import ListNotations.
Require Import Verif.Lib.Wire Verif.Lib.C13Bracket Verif.Gen.Facts_C13 Verif.Model.C13.

Definition all_cur (lg : list pev) : Prop := Forall (fun e => e_cur e = true) lg.

(* st' extends st: same stack, the log grew by events that all see their own request *)
Definition ext (st st' : state) : Prop :=
  stk st' = stk st /\ exists new, log st' = log st ++ new /\ all_cur new.

Lemma ext_refl st : ext st st.
Proof. split; [reflexivity|]. exists []. rewrite app_nil_r. split; [reflexivity|constructor]. Qed.

Lemma ext_trans a b c : ext a b -> ext b c -> ext a c.
Proof.
  intros [S1 [n1 [L1 C1]]] [S2 [n2 [L2 C2]]]. split; [congruence|].
  exists (n1 ++ n2). split; [rewrite L2, L1, app_assoc; reflexivity|apply Forall_app; auto].
Qed.

(* [good l m]: run with request l's frame on top, m extends the state *)
Definition good (l : N) (m : M) : Prop :=
  forall st st' r, m st = (st', r) -> hd_error (stk st) = Some l -> ext st st'.
(* [neutral m]: the same from any stack *)
Definition neutral (m : M) : Prop := forall st st' r, m st = (st', r) -> ext st st'.

Lemma neutral_good l m : neutral m -> good l m.
Proof. intros H st st' r E _. eapply H; eassumption. Qed.

Lemma ext_top l st st' : ext st st' -> hd_error (stk st) = Some l -> hd_error (stk st') = Some l.
Proof. intros [S _] H. rewrite S. exact H. Qed.

Lemma good_ret l v : good l (ret v).
Proof. intros st st' r E _. unfold ret in E. injection E as <- _. apply ext_refl. Qed.
Lemma good_raise l k : good l (raise k).
Proof. intros st st' r E _. unfold raise in E. injection E as <- _. apply ext_refl. Qed.

Lemma good_bind l m f : good l m -> (forall v, good l (f v)) -> good l (bind m f).
Proof.
  intros Hm Hf st st' r E T. unfold bind in E. destruct (m st) as [st1 [v|k]] eqn:Em.
  - pose proof (Hm _ _ _ Em T) as X. eapply ext_trans; [exact X|].
    eapply Hf; [exact E|]. eapply ext_top; eassumption.
  - injection E as <- _. eapply Hm; eassumption.
Qed.
Lemma good_seq l m n : good l m -> good l n -> good l (seq m n).
Proof. intros. apply good_bind; auto. Qed.

Lemma good_catch l m h : good l m -> (forall k, good l (h k)) -> good l (catch m h).
Proof.
  intros Hm Hh st st' r E T. unfold catch in E. destruct (m st) as [st1 [v|k]] eqn:Em.
  - injection E as <- _. eapply Hm; eassumption.
  - pose proof (Hm _ _ _ Em T) as X. eapply ext_trans; [exact X|].
    eapply Hh; [exact E|]. eapply ext_top; eassumption.
Qed.

Lemma good_finally l m f : good l m -> good l f -> good l (finally m f).
Proof.
  intros Hm Hf st st' r E T. unfold finally in E. destruct (m st) as [st1 r1] eqn:Em.
  destruct (f st1) as [st2 [v|k]] eqn:Ef; injection E as <- _;
    (eapply ext_trans; [eapply Hm; eassumption|]; eapply Hf; [exact Ef|];
     eapply ext_top; [eapply Hm; eassumption|exact T]).
Qed.

Lemma good_if l (b : bool) m n : good l m -> good l n -> good l (if b then m else n).
Proof. destruct b; auto. Qed.

(* components *)
Lemma do_regs_stk rs pt n st : stk (do_regs rs pt n st) = stk st /\ log (do_regs rs pt n st) = log st.
Proof.
  unfold do_regs. revert st. induction rs as [|r rs IH]; intros st; simpl; [auto|].
  destruct (reg_fires r pt n); [|apply IH].
  match goal with |- context [fold_left ?f rs ?s0] => destruct (IH s0) as [A B] end.
  rewrite A, B. simpl. auto.
Qed.

Lemma log_ev_ext l pt aux st : hd_error (stk st) = Some l -> ext st (log_ev l pt aux st).
Proof.
  intros T. split; [reflexivity|]. eexists. split; [reflexivity|].
  constructor; [|constructor]. simpl. destruct (stk st) as [|x s]; [discriminate|].
  simpl in T. injection T as ->. simpl. apply N.eqb_refl.
Qed.

Lemma hit_state_ext l sc pt aux n st :
  hd_error (stk st) = Some l -> ext st (do_regs (s_regs sc) pt n (log_ev l pt aux st)).
Proof.
  intros T. pose proof (log_ev_ext l pt aux st T) as [S [new [L C]]].
  destruct (do_regs_stk (s_regs sc) pt n (log_ev l pt aux st)) as [A B].
  split; [congruence|]. exists new. split; [congruence|exact C].
Qed.

Lemma good_hit l sc pt aux n mf : good l (hit l sc pt aux n mf).
Proof.
  intros st st' r E T. unfold hit in E.
  destruct (N.eqb (find_fault (s_faults sc) pt n) 0);
    [|destruct (N.eqb (find_fault (s_faults sc) pt n) K_FALSE)];
    injection E as <- _; apply hit_state_ext; exact T.
Qed.
Lemma good_hit0 l sc pt : good l (hit0 l sc pt).
Proof. apply good_hit. Qed.

Lemma good_view_body l sc subrun :
  (forall sr, subrun = Some sr -> neutral sr) -> good l (view_body l sc subrun).
Proof.
  intros Hs st st' r E T. unfold view_body in E.
  pose proof (hit_state_ext l sc P_VIEW 0 0 st T) as X1.
  set (st1 := do_regs (s_regs sc) P_VIEW 0 (log_ev l P_VIEW 0 st)) in *.
  destruct subrun as [sr|].
  - destruct (sr st1) as [st2 [v|k]] eqn:Es.
    + pose proof (Hs sr eq_refl _ _ _ Es) as X2.
      assert (T2 : hd_error (stk st2) = Some l)
        by (eapply ext_top; [exact X2|eapply ext_top; [exact X1|exact T]]).
      pose proof (log_ev_ext l P_VIEW 1 st2 T2) as X3.
      assert (st' = log_ev l P_VIEW 1 st2) as ->.
      { destruct (N.eqb (find_fault (s_faults sc) P_VIEW 0) 0 || N.eqb (find_fault (s_faults sc) P_VIEW 0) K_FALSE);
          injection E as <- _; reflexivity. }
      eapply ext_trans; [exact X1|]. eapply ext_trans; [exact X2|exact X3].
    + injection E as <- _. eapply ext_trans; [exact X1|]. eapply Hs; [reflexivity|exact Es].
  - assert (st' = st1) as ->.
    { destruct (N.eqb (find_fault (s_faults sc) P_VIEW 0) 0 || N.eqb (find_fault (s_faults sc) P_VIEW 0) K_FALSE);
        injection E as <- _; reflexivity. }
    exact X1.
Qed.

Lemma good_derived_view l sc subrun :
  (forall sr, subrun = Some sr -> neutral sr) -> good l (derived_view l sc subrun).
Proof.
  intros Hs. unfold derived_view. apply good_bind; [apply good_hit|]. intros ok.
  apply good_if; [apply good_raise|]. apply good_bind; [apply good_hit|]. intros ok2.
  apply good_if; [apply good_raise|].
  apply good_seq; [apply good_view_body; exact Hs|]. apply good_seq; [apply good_hit0|apply good_ret].
Qed.

Lemma good_handle_request l sc subrun :
  (forall sr, subrun = Some sr -> neutral sr) -> good l (handle_request l sc subrun).
Proof.
  intros Hs. unfold handle_request. apply good_seq; [apply good_hit0|].
  apply good_bind; [apply good_if; [apply good_hit|apply good_ret]|]. intros matched.
  apply good_seq; [apply good_hit0|]. apply good_seq; [apply good_if; apply good_hit0|].
  apply good_seq; [apply good_hit0|]. apply good_seq; [apply good_hit0|].
  apply good_derived_view; exact Hs.
Qed.

(* push l; try m finally pop  -- from any stack *)
Lemma neutral_frame l m : good l m -> neutral (frame l m).
Proof.
  intros Hm st st' r E. unfold frame, seq, bind, push, upd_stk in E. simpl in E.
  set (st0 := mkSt (l :: stk st) (log st) (rq st) (fq st) (nr st) (nf st)) in *.
  unfold finally in E. destruct (m st0) as [st1 r1] eqn:Em.
  assert (T : hd_error (stk st0) = Some l) by reflexivity.
  destruct (Hm _ _ _ Em T) as [S [new [L C]]].
  unfold pop, upd_stk in E. simpl in E. injection E as <- _.
  split; [simpl; rewrite S; reflexivity|]. exists new. split; [simpl; rewrite L; reflexivity|exact C].
Qed.

Lemma good_call_views l sc vs : good l (call_views l sc vs).
Proof.
  induction vs as [|p rest IH]; simpl; [apply good_raise|].
  destruct (N.eqb p P_DEFAULT_VIEW); [apply good_ret|].
  apply good_catch; [apply good_seq; [apply good_hit0|apply good_ret]|].
  intros k2. apply good_if; [exact IH|apply good_raise].
Qed.

Lemma good_error_handler ev l sc k : good l (error_handler ev l sc k).
Proof.
  unfold error_handler. apply good_catch.
  - apply neutral_good. apply neutral_frame. apply good_call_views.
  - intros k2. apply good_if; apply good_raise.
Qed.

Lemma good_tween l sc pin pout h : good l h -> good l (tween l sc pin pout h).
Proof.
  intros Hh. unfold tween. apply good_seq; [apply good_hit0|].
  apply good_bind; [exact Hh|]. intros r. apply good_seq; [apply good_hit0|apply good_ret].
Qed.

Lemma good_tween_x l sc pin pout sr h :
  (forall m, sr = Some m -> neutral m) -> good l h -> good l (tween_x l sc pin pout sr h).
Proof.
  intros Hs Hh. unfold tween_x. apply good_seq; [apply good_hit0|].
  apply good_bind; [exact Hh|]. intros r. apply good_seq.
  - destruct sr as [m|]; [apply neutral_good; apply Hs; reflexivity|apply good_ret].
  - apply good_seq; [apply good_hit0|apply good_ret].
Qed.
Lemma vsub_neutral sc subrun : (forall sr, subrun = Some sr -> neutral sr) -> forall sr, vsub sc subrun = Some sr -> neutral sr.
Proof. unfold vsub. intros H sr. destruct (N.eqb (sub_place sc) 1); [discriminate|apply H]. Qed.
Lemma tsub_neutral sc subrun : (forall sr, subrun = Some sr -> neutral sr) -> forall sr, tsub sc subrun = Some sr -> neutral sr.
Proof. unfold tsub. intros H sr. destruct (N.eqb (sub_place sc) 1); [apply H|discriminate]. Qed.

Lemma good_tween_chain ev l sc subrun :
  (forall sr, subrun = Some sr -> neutral sr) -> good l (tween_chain ev l sc subrun).
Proof.
  intros Hs. unfold tween_chain, excview_tween. apply good_tween_x; [apply tsub_neutral; exact Hs|]. apply good_catch.
  - apply good_tween. apply good_handle_request. apply vsub_neutral. exact Hs.
  - intros k. apply good_error_handler.
Qed.

Lemma good_resp_cbs fuel l sc : good l (resp_cbs fuel l sc).
Proof.
  induction fuel as [|fuel IH]; intros st st' r E T; simpl in E.
  - injection E as <- _. apply ext_refl.
  - destruct (rq st) as [|o rest] eqn:Eq; [injection E as <- _; apply ext_refl|].
    set (st1 := mkSt (stk st) (log st) rest (fq st) (nr st + 1) (nf st)) in *.
    assert (X0 : ext st st1) by (split; [reflexivity|]; exists []; rewrite app_nil_r; split; [reflexivity|constructor]).
    destruct (hit l sc P_RESP_CB o (nr st) false st1) as [st2 [v|k]] eqn:Eh.
    + pose proof (good_hit _ _ _ _ _ _ _ _ _ Eh T) as X1.
      eapply ext_trans; [exact X0|]. eapply ext_trans; [exact X1|].
      eapply IH; [exact E|]. eapply ext_top; [exact X1|exact T].
    + injection E as <- _. eapply ext_trans; [exact X0|]. exact (good_hit _ _ _ _ _ _ _ _ _ Eh T).
Qed.

Lemma good_fin_cbs fuel l sc : good l (fin_cbs fuel l sc).
Proof.
  induction fuel as [|fuel IH]; intros st st' r E T; simpl in E.
  - injection E as <- _. apply ext_refl.
  - destruct (fq st) as [|o rest] eqn:Eq; [injection E as <- _; apply ext_refl|].
    set (st1 := mkSt (stk st) (log st) (rq st) rest (nr st) (nf st + 1)) in *.
    assert (X0 : ext st st1) by (split; [reflexivity|]; exists []; rewrite app_nil_r; split; [reflexivity|constructor]).
    destruct (hit l sc P_FIN_CB o (nf st) false st1) as [st2 [v|k]] eqn:Eh.
    + pose proof (good_hit _ _ _ _ _ _ _ _ _ Eh T) as X1.
      eapply ext_trans; [exact X0|]. eapply ext_trans; [exact X1|].
      eapply IH; [exact E|]. eapply ext_top; [exact X1|exact T].
    + injection E as <- _. eapply ext_trans; [exact X0|]. exact (good_hit _ _ _ _ _ _ _ _ _ Eh T).
Qed.

Lemma good_invoke_request ev l sc tw subrun :
  (forall sr, subrun = Some sr -> neutral sr) -> good l (invoke_request ev l sc tw subrun).
Proof.
  intros Hs. unfold invoke_request, invoke_body, invoke_chain.
  apply good_finally; [|intros st st' r E T; eapply good_fin_cbs; [exact E|exact T]].
  apply good_bind.
  - destruct tw; [apply good_tween_chain; exact Hs|apply good_handle_request; apply vsub_neutral; exact Hs].
  - intros r. apply good_seq; [intros st st' r' E T; eapply good_resp_cbs; [exact E|exact T]|]. apply good_seq; [apply good_hit0|apply good_ret].
Qed.

Lemma neutral_fresh m : neutral m -> neutral (with_fresh_request m).
Proof.
  intros Hm st st' r E. unfold with_fresh_request in E.
  destruct (m (mkSt (stk st) (log st) [] [] 0 0)) as [st1 r1] eqn:Em. injection E as <- _.
  destruct (Hm _ _ _ Em) as [S [new [L C]]]. simpl in S, L.
  split; [exact S|]. exists new. split; [exact L|exact C].
Qed.

Fixpoint run_request_neutral (sc : scn) : forall ev l tw, neutral (run_request ev l sc tw).
Proof.
  intros ev l tw. destruct sc as [r fs rs sb]. simpl.
  apply neutral_fresh. apply neutral_frame. apply good_invoke_request.
  intros sr Hsr. destruct sb as [|tw' pl' sc']; [discriminate|].
  injection Hsr as <-. apply run_request_neutral.
Qed.

(* the WSGI call (and, inductively, every subrequest at any depth): stack restored, on the
   normal and on the exceptional exit alike; every logged moment -- in particular the view body
   and the exception view -- sees its own request as the current one *)
Theorem pipeline_depth : forall ev sc s0 st r,
  run_top ev sc s0 = (st, r) ->
  stk st = s0 /\ Forall (fun e => e_cur e = true) (log st).
Proof.
  intros ev sc s0 st r E. unfold run_top in E.
  destruct (run_request_neutral sc ev 0 true _ _ _ E) as [S [new [L C]]].
  simpl in S, L. split; [exact S|]. rewrite L. exact C.
Qed.

Corollary view_sees_own_request : forall ev sc s0 st r e,
  run_top ev sc s0 = (st, r) -> In e (log st) -> e_pt e = P_VIEW -> e_cur e = true.
Proof.
  intros ev sc s0 st r e E I _. destruct (pipeline_depth _ _ _ _ _ E) as [_ F].
  rewrite Forall_forall in F. exact (F _ I).
Qed.

(* the subrequest entry on its own (Router.invoke_subrequest), with or without tweens *)
Theorem subrequest_depth : forall ev l sc tw st st' r,
  run_request ev l sc tw st = (st', r) -> stk st' = stk st.
Proof. intros. destruct (run_request_neutral sc ev l tw _ _ _ H) as [S _]. exact S. Qed.

(* ---- callbacks: what the finally clause and the response path do, for any scenario *)
Definition cb_event (pt l : N) (st : state) (o : N) : pev :=
  mkEv pt l (N.of_nat (length (stk st))) (top_is l (stk st)) o.

Lemma do_regs_none rs pt n st : (forall r, In r rs -> r_pt r <> pt) -> do_regs rs pt n st = st.
Proof.
  unfold do_regs, reg_fires. revert st. induction rs as [|r rs IH]; intros st H; simpl; [reflexivity|].
  destruct (N.eqb (r_pt r) pt) eqn:E; [apply N.eqb_eq in E; exfalso; exact (H r (or_introl eq_refl) E)|]. cbn [andb].
  apply IH. intros r' Hr. apply H. right. exact Hr.
Qed.

Lemma fin_cbs_all l sc :
  (forall n, find_fault (s_faults sc) P_FIN_CB n = 0%N) ->
  (forall r, In r (s_regs sc) -> r_pt r <> P_FIN_CB) ->
  forall fuel st, (length (fq st) < fuel)%nat ->
  exists st', fin_cbs fuel l sc st = (st', Ok 0%N) /\ stk st' = stk st /\ fq st' = [] /\ rq st' = rq st /\
              log st' = log st ++ map (cb_event P_FIN_CB l st) (fq st).
Proof.
  intros HF HR. induction fuel as [|fuel IH]; intros st Hlen; [inversion Hlen|].
  simpl. destruct (fq st) as [|o rest] eqn:Eq.
  - exists st. rewrite app_nil_r. auto.
  - unfold hit. rewrite HF. cbn [N.eqb]. rewrite do_regs_none by exact HR.
    match goal with |- context [fin_cbs fuel l sc ?s2] => set (st2 := s2) end.
    destruct (IH st2) as [st' [E [S [Q [R L]]]]]; [subst st2; simpl in *; lia|].
    exists st'. split; [exact E|]. subst st2. simpl in *. repeat split; auto.
    rewrite L, <- app_assoc. reflexivity.
Qed.

Lemma resp_cbs_all l sc :
  (forall n, find_fault (s_faults sc) P_RESP_CB n = 0%N) ->
  (forall r, In r (s_regs sc) -> r_pt r <> P_RESP_CB) ->
  forall fuel st, (length (rq st) < fuel)%nat ->
  exists st', resp_cbs fuel l sc st = (st', Ok 0%N) /\ stk st' = stk st /\ rq st' = [] /\ fq st' = fq st /\
              log st' = log st ++ map (cb_event P_RESP_CB l st) (rq st).
Proof.
  intros HF HR. induction fuel as [|fuel IH]; intros st Hlen; [inversion Hlen|].
  simpl. destruct (rq st) as [|o rest] eqn:Eq.
  - exists st. rewrite app_nil_r. auto.
  - unfold hit. rewrite HF. cbn [N.eqb]. rewrite do_regs_none by exact HR.
    match goal with |- context [resp_cbs fuel l sc ?s2] => set (st2 := s2) end.
    destruct (IH st2) as [st' [E [S [Q [R L]]]]]; [subst st2; simpl in *; lia|].
    exists st'. split; [exact E|]. subst st2. simpl in *. repeat split; auto.
    rewrite L, <- app_assoc. reflexivity.
Qed.

(* Router.invoke_request, any scenario whose finished callbacks do not themselves raise or re-register:
   whatever happened before (response, exception from any point), every finished callback pending at that
   moment runs exactly once, in deque (= registration) order, after everything else, and the outcome of the
   request is the outcome of what happened before *)
Theorem finished_callbacks_once_in_order : forall ev l sc tw subrun st st' r,
  (forall n, find_fault (s_faults sc) P_FIN_CB n = 0%N) ->
  (forall rg, In rg (s_regs sc) -> r_pt rg <> P_FIN_CB) ->
  invoke_request ev l sc tw subrun st = (st', r) ->
  exists st_mid r_mid,
    invoke_body ev l sc tw subrun st = (st_mid, r_mid) /\
    r = r_mid /\ stk st' = stk st_mid /\ fq st' = [] /\
    log st' = log st_mid ++ map (cb_event P_FIN_CB l st_mid) (fq st_mid).
Proof.
  intros ev l sc tw subrun st st' r HF HR E. unfold invoke_request, finally in E.
  destruct (invoke_body ev l sc tw subrun st) as [st_mid r_mid] eqn:Eb.
  exists st_mid, r_mid. split; [reflexivity|].
  destruct (fin_cbs_all l sc HF HR (S (length (fq st_mid) + pend 1 P_FIN_CB (s_regs sc) (nf st_mid))) st_mid ltac:(lia)) as [st2 [E2 [S [Q [_ L]]]]].
  unfold fin_loop in E. rewrite E2 in E. injection E as <- <-. auto.
Qed.

(* response callbacks and NewResponse happen exactly when a response came out of the tween chain
   (or of handle_request for a subrequest without tweens): nothing at all after an exception; after a
   response every pending response callback once, in order, then NewResponse once *)
Theorem response_callbacks_iff_response : forall ev l sc tw subrun st st_c rc,
  invoke_chain ev l sc tw subrun st = (st_c, rc) ->
  match rc with
  | Ex k => invoke_body ev l sc tw subrun st = (st_c, Ex k)
  | Ok v =>
      (forall n, find_fault (s_faults sc) P_RESP_CB n = 0%N) ->
      (forall rg, In rg (s_regs sc) -> r_pt rg <> P_RESP_CB) ->
      exists st_r st_mid r_mid,
        invoke_body ev l sc tw subrun st = (st_mid, r_mid) /\
        log st_r = log st_c ++ map (cb_event P_RESP_CB l st_c) (rq st_c) /\
        hit0 l sc P_NEWRESP st_r = (st_mid, match r_mid with Ok _ => Ok 1%N | Ex k => Ex k end) /\
        ((forall k, r_mid <> Ex k) -> r_mid = Ok v)
  end.
Proof.
  intros ev l sc tw subrun st st_c rc E. unfold invoke_body, bind. rewrite E. destruct rc as [v|k]; [|reflexivity].
  intros HF HR.
  destruct (resp_cbs_all l sc HF HR (S (length (rq st_c) + pend 0 P_RESP_CB (s_regs sc) (nr st_c))) st_c ltac:(lia)) as [st_r [Er [S [Q [F L]]]]].
  unfold seq, bind, resp_loop. rewrite Er.
  destruct (hit0 l sc P_NEWRESP st_r) as [st_m [v2|k2]] eqn:Eh.
  - assert (v2 = 1%N) as ->.
    { unfold hit0, hit in Eh.
      destruct (N.eqb (find_fault (s_faults sc) P_NEWRESP 0) 0);
        [|destruct (N.eqb (find_fault (s_faults sc) P_NEWRESP 0) K_FALSE)];
        try discriminate; injection Eh as _ <-; reflexivity. }
    exists st_r, st_m, (Ok v). unfold ret. repeat split; auto.
  - exists st_r, st_m, (Ex k2). repeat split; auto. intros Hk. exfalso. apply (Hk k2). reflexivity.
Qed.

(* ---- non-vacuity and the judge on concrete runs *)
Local Open Scope N_scope.
Definition ex_scn : scn :=
  Scn true [mkFault P_VIEW K_PLAIN 0] [mkReg P_OVER_IN 3 0; mkReg P_VIEW 3 0; mkReg P_FIN_CB 2 0; mkReg P_RESP_CB 1 0]
      (Sub false 0 (Scn false [mkFault P_RENDERER K_HTTP 0] [mkReg P_NEWREQ 3 0] NoSub)).

Example ex_run_with_excview :
  let '(st, r) := run_top 1 ex_scn [7; 7] in
  r = Ok P_EXCVIEW /\ stk st = [7; 7] /\ length (log st) = 30%nat
  /\ judge ex_scn 0 (log st) = true
  /\ map e_aux (filter (is_pt P_FIN_CB) (lvl_log 0 (log st))) = [P_OVER_IN; P_VIEW; P_FIN_CB]
  /\ map e_aux (filter (is_pt P_FIN_CB) (lvl_log 1 (log st))) = [P_NEWREQ].
Proof. vm_compute. repeat split; reflexivity. Qed.

Example ex_run_without_excview :
  let '(st, r) := run_top 0 ex_scn [] in r = Ex K_HTTP /\ stk st = [] /\ judge ex_scn 0 (log st) = true.
Proof. vm_compute. repeat split; reflexivity. Qed.

(* the judge is not trivially true: dropping the finished-callback events, or leaving a frame
   behind, is rejected *)
Example judge_rejects :
  let '(st, r) := run_top 1 ex_scn [] in
  judge ex_scn 0 (filter (fun e => negb (is_pt P_FIN_CB e)) (log st)) = false /\
  judge ex_scn 1 (log st) = false /\
  judge ex_scn 0 (map (fun e => mkEv (e_pt e) (e_lvl e) (e_depth e) false (e_aux e)) (log st)) = false.
Proof. vm_compute. repeat split; reflexivity. Qed.

(* scope table: every path of every analysed entry point satisfies its class *)
Lemma scope_table_ok :
  forallb (fun pc => forallb (scope_spec (sc_cls pc)) (scope_paths pc) &&
                     negb (match scope_paths pc with [] => true | _ => false end)) scope_table = true.
Proof. vm_compute. reflexivity. Qed.
