(* C04 proofs, part 19: further pieces of the simulation between the code's group pass and the specification's
   recomputation, for the pass that follows a (re-)declaration ([restart]): every order group of the restarted generator
   is, as a LIST, the specification's [at_phase] of the pool; it forces what the specification forces; and marking the
   group's actions as forced in remaining_actions is the specification's [force_phase]. *)
From Coq Require Import List NArith ZArith Bool Lia Permutation Sorted.
Import ListNotations.
Require Import Verif.Lib.Wire Verif.Lib.C04Sort Verif.Gen.Facts_C04 Verif.Model.C04.
Require Import Verif.Proofs.C04 Verif.Proofs.C04_flat Verif.Proofs.C04_decide Verif.Proofs.C04_safe Verif.Proofs.C04_groups
               Verif.Proofs.C04_spec Verif.Proofs.C04_mono.

(* a group of the sorted, grouped enumeration is the enumeration filtered by the group's key -- in declaration order *)
Lemma sorted_group_is_filter l s k grp :
  In (k, grp) (groupby okey (sort (leb_by orderandpos_key) (enumerate s l))) ->
  grp = filter (fun x => Z.eqb (okey x) k) (enumerate s l).
Proof.
  set (E := enumerate s l). set (S := sort (leb_by orderandpos_key) E). intros H.
  assert (SS : StronglySorted (fun x y => leb_by orderandpos_key x y = true) S)
    by apply (sort_sorted _ leb12_total leb12_trans).
  assert (SK : StronglySorted (fun x y => (okey x <= okey y)%Z) S).
  { eapply SS_impl; [exact SS|]. intros x y H0. cbv beta in *. apply leb12_spec in H0. lia. }
  pose proof (groupby_sorted_keys okey S SK) as GK.
  pose proof (groupby_keys okey S) as GH. pose proof (groupby_concat okey S) as GC.
  rewrite (groups_are_filters okey (groupby okey S) GK) in H.
  2:{ eapply Forall_impl; [|exact GH]. intros kg [_ H0]. exact H0. }
  rewrite GC in H. apply in_map_iff in H. destruct H as [k' [Ek _]]. inversion Ek; subst k' grp. clear Ek.
  apply (sorted_perm_unique (fun x : ainfo => fst x)).
  - apply NoDup_map_filter. eapply Permutation_NoDup; [apply Permutation_map; symmetry; apply sort_perm|]. apply enumerate_NoDup_fst.
  - eapply SS_filter_impl; [exact SS|]. intros x y Hx Hy H0. cbv beta in *. apply leb12_spec in H0. apply Z.eqb_eq in Hx, Hy. unfold key_le. lia.
  - eapply SS_filter_impl; [apply (enumerate_sorted l s)|]. intros x y _ _ H0. cbv beta in *. unfold key_le. lia.
  - apply Permutation_filter'. apply sort_perm.
Qed.

Lemma force_events_forces_of grp : force_events grp = forces_of (map snd grp).
Proof.
  unfold force_events, forces_of. induction grp as [|x r IH]; simpl; [reflexivity|].
  destruct (is_deferred (adisc (snd x))); simpl; rewrite IH; reflexivity.
Qed.

(* mark_group, element by element *)
Definition in_group (grp : list ainfo) (b : action) : bool := existsb (N.eqb (aid b)) (map aidx grp).

Lemma force_idem b : force (force b) = force b.
Proof. destruct b. reflexivity. Qed.
Lemma aid_force b : aid (force b) = aid b.
Proof. destruct b. reflexivity. Qed.

Lemma mark_group_map grp : forall l,
  mark_group grp l = map (fun b => if in_group grp b then force b else b) l.
Proof.
  unfold mark_group. induction grp as [|x r IH]; intros l.
  - simpl. rewrite map_id. reflexivity.
  - cbn [fold_left]. rewrite IH. unfold mark_forced. rewrite map_map. apply map_ext. intros b.
    unfold in_group. cbn [map existsb]. fold (aidx x). destruct (N.eqb (aid b) (aidx x)) eqn:E; cbn [orb].
    + rewrite aid_force, force_idem. destruct (existsb (N.eqb (aid b)) (map aidx r)); reflexivity.
    + reflexivity.
Qed.

Lemma in_group_filter_enumerate l s k b :
  NoDup (map aid l) -> In b l ->
  in_group (filter (fun x => Z.eqb (okey x) k) (enumerate s l)) b = Z.eqb (ordkey b) k.
Proof.
  intros Nd Hb. unfold in_group. destruct (Z.eqb (ordkey b) k) eqn:E.
  - apply existsb_exists. destruct (In_enumerate b l s Hb) as [i Hi]. exists (aid b). split; [|apply N.eqb_refl].
    apply in_map_iff. exists (i, b). split; [reflexivity|]. apply filter_In. split; [exact Hi|exact E].
  - destruct (existsb (N.eqb (aid b)) (map aidx (filter (fun x => Z.eqb (okey x) k) (enumerate s l)))) eqn:Ex; [|reflexivity].
    exfalso. apply existsb_exists in Ex. destruct Ex as [i [Hi Ei]]. apply N.eqb_eq in Ei. subst i.
    apply in_map_iff in Hi. destruct Hi as [[j b'] [Ea Hx]]. apply filter_In in Hx. destruct Hx as [Hx Hk].
    apply enumerate_In_snd' in Hx. unfold aidx in Ea. cbn [snd] in Ea.
    assert (b' = b) by (apply (NoDup_map_inj_in aid l); assumption). subst b'.
    unfold okey in Hk. cbn [snd] in Hk. congruence.
Qed.

(* THE PASS AFTER A (RE-)DECLARATION, group by group *)
Theorem restart_group_is_spec_phase st new k grp :
  let pool := remaining st ++ new in
  In (k, grp) (g_groups (snd (restart st new))) ->
  map snd grp = at_phase k pool /\
  force_events grp = forces_of (at_phase k pool) /\
  (NoDup (map aid pool) -> mark_group grp (remaining (fst (restart st new))) = force_phase k pool).
Proof.
  intros pool H. unfold restart in *. cbn [fst snd g_groups remaining] in *. rewrite group_key_okey in H. fold pool in H |- *.
  pose proof (sorted_group_is_filter pool (start st) k grp H) as Eg.
  assert (E1 : map snd grp = at_phase k pool).
  { rewrite Eg. unfold at_phase. apply (filter_snd_enumerate (fun a => Z.eqb (ordkey a) k)). }
  split; [exact E1|]. split; [rewrite force_events_forces_of, E1; reflexivity|].
  intros Nd. rewrite mark_group_map. unfold force_phase. apply map_ext_in. intros b Hb.
  rewrite Eg, (in_group_filter_enumerate pool (start st) k b Nd Hb). reflexivity.
Qed.

(* non-vacuity: remaining [phase 5], newly declared [phase 0 deferred; phase 5] *)
Definition w_st : cstate :=
  {| resolved := []; remaining := [mkA 0 (Eager None) [] (Some 5%Z) []]; min_order := Some 0%Z; start := 3%N |}.
Definition w_new : list action := [mkA 1 (Defer (Some 7%N)) [] (Some 0%Z) []; mkA 2 (Eager None) [] (Some 5%Z) []].
Example restart_group_witness :
  map (fun kg => (fst kg, map aidx (snd kg))) (g_groups (snd (restart w_st w_new))) = [(0%Z, [1%N]); (5%Z, [0%N; 2%N])] /\
  NoDup (map aid (remaining w_st ++ w_new)) /\
  forces_of (at_phase 0 (remaining w_st ++ w_new)) = [Force 1%N].
Proof. split; [vm_compute; reflexivity|]. split; [repeat constructor; simpl; intuition discriminate|reflexivity]. Qed.

(* ---------- the specification's "smallest pending phase" is the key of the first group *)
Require Import Verif.Proofs.C04_late.

Lemma fold_min_spec : forall (r : list action) (m0 : Z),
  let m := fold_left (fun m b => Z.min m (ordkey b)) r m0 in
  (m <= m0)%Z /\ (forall b, In b r -> (m <= ordkey b)%Z) /\ (m = m0 \/ In m (map ordkey r)).
Proof.
  induction r as [|a r IH]; intros m0; cbv zeta; cbn [fold_left].
  - split; [lia|]. split; [intros b []|left; reflexivity].
  - specialize (IH (Z.min m0 (ordkey a))). cbv zeta in IH. destruct IH as [A [B C]].
    split; [lia|]. split.
    + intros b [<-|Hb]; [lia|apply B; exact Hb].
    + destruct C as [C|C]; [|right; right; exact C].
      destruct (Z.min_spec m0 (ordkey a)) as [[_ E]|[_ E]]; [left; rewrite C; exact E|right; left; rewrite C, E; reflexivity].
Qed.

Lemma min_phase_spec l m :
  In m (map ordkey l) -> (forall b, In b l -> (m <= ordkey b)%Z) -> min_phase l = Some m.
Proof.
  intros Hin Hlb. destruct l as [|a r]; [destruct Hin|]. unfold min_phase. f_equal.
  pose proof (fold_min_spec r (ordkey a)) as H. cbv zeta in H. destruct H as [A [B C]].
  set (m' := fold_left (fun m b => Z.min m (ordkey b)) r (ordkey a)) in *.
  assert (Hm' : In m' (map ordkey (a :: r))) by (destruct C as [C|C]; [left; symmetry; exact C|right; exact C]).
  apply in_map_iff in Hm'. destruct Hm' as [b' [Eb' Hb']]. apply in_map_iff in Hin. destruct Hin as [b [Eb Hb]].
  specialize (Hlb b' Hb'). assert ((m' <= ordkey b)%Z) by (destruct Hb as [<-|Hb]; [exact A|apply B; exact Hb]). lia.
Qed.

Theorem restart_first_group_is_min_phase st new k grp gs :
  g_groups (snd (restart st new)) = (k, grp) :: gs ->
  min_phase (remaining st ++ new) = Some k.
Proof.
  intros H. pose proof H as H0. unfold restart in H. cbn [snd g_groups] in H. rewrite group_key_okey in H.
  set (pool := remaining st ++ new) in *.
  set (S := sort (leb_by orderandpos_key) (enumerate (start st) pool)) in *.
  pose proof (groupby_sorted_keys okey S (sorted_enumerate_okey _ _)) as GK.
  pose proof (groupby_keys okey S) as GH. pose proof (groupby_concat okey S) as GC.
  assert (Hin : In (k, grp) (groupby okey S)) by (rewrite H; left; reflexivity).
  pose proof (sorted_group_is_filter pool (start st) k grp Hin) as Eg.
  apply min_phase_spec.
  - rewrite Forall_forall in GH. destruct (GH _ Hin) as [Hne _]. cbn [snd] in Hne.
    destruct grp as [|x g']; [congruence|].
    assert (Hx : In x (filter (fun x => Z.eqb (okey x) k) (enumerate (start st) pool))) by (rewrite <- Eg; left; reflexivity).
    apply filter_In in Hx. destruct Hx as [Hx Hk]. apply Z.eqb_eq in Hk. destruct x as [i b]. apply enumerate_In_snd' in Hx.
    apply in_map_iff. exists b. split; [exact Hk|exact Hx].
  - intros b Hb. destruct (In_enumerate b pool (start st) Hb) as [i Hi].
    assert (HS : In (i, b) S) by (apply sort_In; exact Hi). rewrite <- GC in HS.
    destruct (In_concat_groups _ _ HS) as [kg [A B]]. rewrite Forall_forall in GH. destruct (GH kg A) as [_ F].
    rewrite Forall_forall in F. specialize (F _ B). unfold okey in F. cbn [snd] in F. rewrite F.
    rewrite H in GK, A. apply (SS_lt_head_le k (map fst gs)); [exact GK|]. change (k :: map fst gs) with (map fst ((k, grp) :: gs)).
    apply in_map. exact A.
Qed.
