(* C05 proofs, configuration side: the phases of a commit.  Whatever the order in which the statements
   of one commit were written, every view of the commit is derived under the registry state left by ALL
   policy / default-permission statements of that commit. *)
From Coq Require Import List NArith ZArith Bool Lia Sorting.Sorted Sorting.Permutation.
Import ListNotations.
Require Import Verif.Lib.Wire Verif.Gen.Facts_C03 Verif.Model.C03 Verif.Proofs.C03.
Require Import Verif.Gen.Facts_C05 Verif.Model.C05 Verif.Proofs.C05.
Local Close Scope N_scope.
Local Open Scope nat_scope.

(* the regenerated phase numbers: policy and default permission strictly before view registration *)
Lemma orders_ok : (order_policy < order_view)%Z /\ (order_defperm < order_view)%Z.
Proof. split; vm_compute; reflexivity. Qed.

Definition is_view_action (a : action) : bool := match a with AView _ _ => true | _ => false end.

Lemma action_leb_total a b : action_leb a b = true \/ action_leb b a = true.
Proof. unfold action_leb. destruct (Z.leb_spec (action_order a) (action_order b)); [auto|right; apply Z.leb_le; lia]. Qed.
Lemma action_leb_trans a b c : action_leb a b = true -> action_leb b c = true -> action_leb a c = true.
Proof. unfold action_leb. rewrite !Z.leb_le. lia. Qed.

Lemma exec_view_rs s o b : cs_rs (exec_view s o b) = cs_rs s.
Proof.
  unfold exec_view.
  destruct (negb (o_exc_only o)), (o_isexc o);
    destruct (derive1 (cs_rs s) view_classifier false o b), (derive1 (cs_rs s) exc_classifier true o b); reflexivity.
Qed.

Definition derived_under (st : regstate) (d : dview) : Prop :=
  exists cls eo o b, derive1 st cls eo o b = Some d.

Lemma exec_view_D s o b rt d :
  In (rt, d) (cs_D (exec_view s o b)) -> In (rt, d) (cs_D s) \/ derived_under (cs_rs s) d.
Proof.
  unfold exec_view.
  destruct (negb (o_exc_only o)), (o_isexc o);
    destruct (derive1 (cs_rs s) view_classifier false o b) as [d1|] eqn:E1,
             (derive1 (cs_rs s) exc_classifier true o b) as [d2|] eqn:E2; simpl; intros H;
    repeat (destruct H as [H|H]; [inversion H; subst; right; unfold derived_under; eauto 8|]); auto.
Qed.

Lemma exec_view_D_mono s o b x : In x (cs_D s) -> In x (cs_D (exec_view s o b)).
Proof.
  unfold exec_view.
  destruct (negb (o_exc_only o)), (o_isexc o);
    destruct (derive1 (cs_rs s) view_classifier false o b), (derive1 (cs_rs s) exc_classifier true o b);
    simpl; auto.
Qed.

Lemma views_only_rs l : forall s,
  forallb is_view_action l = true -> cs_rs (fold_left exec_action l s) = cs_rs s.
Proof.
  induction l as [|a l IH]; intros s H; simpl; [reflexivity|].
  simpl in H. apply andb_true_iff in H. destruct H as [Ha Hl].
  destruct a as [|p|o b]; try discriminate Ha. rewrite IH by exact Hl. simpl. apply exec_view_rs.
Qed.

Lemma later_are_views o b l :
  Forall (fun x => action_leb (AView o b) x = true) l -> forallb is_view_action l = true.
Proof.
  destruct orders_ok as [H1 H2].
  induction 1 as [|x l Hx _ IH]; simpl; [reflexivity|]. rewrite IH, andb_true_r.
  unfold action_leb in Hx. apply Z.leb_le in Hx. simpl in Hx.
  destruct x; simpl in *; [lia|lia|reflexivity].
Qed.

Lemma sorted_fold l :
  StronglySorted (fun a b => action_leb a b = true) l -> forall s rt d,
  In (rt, d) (cs_D (fold_left exec_action l s)) ->
  In (rt, d) (cs_D s) \/ derived_under (cs_rs (fold_left exec_action l s)) d.
Proof.
  induction 1 as [|a l Hs IH Ha]; intros s rt d Hin; simpl in *; [left; exact Hin|].
  destruct (IH _ _ _ Hin) as [H|H]; [|right; exact H].
  destruct a as [|p|o b]; simpl in H; [left; exact H|left; exact H|].
  apply exec_view_D in H. destruct H as [H|H]; [left; exact H|right].
  rewrite (views_only_rs l) by (eapply later_are_views; exact Ha).
  simpl. rewrite exec_view_rs. exact H.
Qed.

(* every view registered by a commit was derived under the FINAL phase-1/2 state of that commit *)
Lemma commit_views_final_state s batch rt d :
  In (rt, d) (cs_D (commit s batch)) ->
  In (rt, d) (cs_D s) \/ derived_under (cs_rs (commit s batch)) d.
Proof.
  unfold commit, batch_actions. apply sorted_fold.
  apply isort_sorted; [exact action_leb_total|exact action_leb_trans].
Qed.

(* and conversely every view statement of the commit is registered, derived under that state *)
Lemma fold_D_mono l : forall s x, In x (cs_D s) -> In x (cs_D (fold_left exec_action l s)).
Proof.
  induction l as [|a l IH]; intros s x H; simpl; [exact H|]. apply IH.
  destruct a; simpl; auto. apply exec_view_D_mono. exact H.
Qed.

Lemma exec_view_registers s o b d :
  o_exc_only o = false -> derive1 (cs_rs s) view_classifier false o b = Some d ->
  In (r_tag (d_reg d), d) (cs_D (exec_view s o b)).
Proof.
  intros He Hd. unfold exec_view. rewrite He, Hd. simpl.
  destruct (o_isexc o); [|left; reflexivity].
  destruct (derive1 (cs_rs s) exc_classifier true o b); simpl; [right|]; left; reflexivity.
Qed.

Lemma exec_view_registers_exc s o b d :
  o_isexc o = true -> derive1 (cs_rs s) exc_classifier true o b = Some d ->
  In (r_tag (d_reg d), d) (cs_D (exec_view s o b)).
Proof.
  intros He Hd. unfold exec_view. rewrite He, Hd.
  destruct (negb (o_exc_only o)); [destruct (derive1 (cs_rs s) view_classifier false o b)|]; left; reflexivity.
Qed.

Lemma sorted_fold_complete l :
  StronglySorted (fun a b => action_leb a b = true) l -> forall s o b d,
  In (AView o b) l ->
  (o_exc_only o = false /\ derive1 (cs_rs (fold_left exec_action l s)) view_classifier false o b = Some d) \/
  (o_isexc o = true /\ derive1 (cs_rs (fold_left exec_action l s)) exc_classifier true o b = Some d) ->
  In (r_tag (d_reg d), d) (cs_D (fold_left exec_action l s)).
Proof.
  induction 1 as [|a l Hs IH Ha]; intros s o b d Hin Hd; simpl in *; [destruct Hin|].
  destruct Hin as [->|Hin]; [|eapply IH; eauto].
  rewrite (views_only_rs l) in Hd by (eapply later_are_views; exact Ha).
  simpl in Hd. rewrite exec_view_rs in Hd. apply fold_D_mono.
  destruct Hd as [[He Hd]|[He Hd]]; [apply exec_view_registers|apply exec_view_registers_exc]; assumption.
Qed.

Lemma commit_registers s batch o b d :
  In (AView o b) (somes5 (map (directive (cs_rs s)) batch)) ->
  (o_exc_only o = false /\ derive1 (cs_rs (commit s batch)) view_classifier false o b = Some d) \/
  (o_isexc o = true /\ derive1 (cs_rs (commit s batch)) exc_classifier true o b = Some d) ->
  In (r_tag (d_reg d), d) (cs_D (commit s batch)).
Proof.
  intros Hin. unfold commit, batch_actions. apply sorted_fold_complete.
  - apply isort_sorted; [exact action_leb_total|exact action_leb_trans].
  - eapply Permutation_in; [apply Permutation_sym, isort_perm|exact Hin].
Qed.

(* ---- the final state itself depends only on WHICH policy / default-permission statements the commit holds *)
Definition is_apolicy (a : action) : bool := match a with APolicy => true | _ => false end.

Lemma fold_policy l : forall s,
  rs_policy (cs_rs (fold_left exec_action l s)) = rs_policy (cs_rs s) || existsb is_apolicy l.
Proof.
  induction l as [|a l IH]; intros s; simpl; [rewrite orb_false_r; reflexivity|].
  rewrite IH. destruct a; simpl.
  - rewrite orb_true_r. reflexivity.
  - reflexivity.
  - rewrite exec_view_rs. reflexivity.
Qed.

Lemma existsb_perm {A} (f : A -> bool) l l' : Permutation l l' -> existsb f l = existsb f l'.
Proof.
  induction 1; simpl; try congruence.
  - rewrite !orb_assoc, (orb_comm (f y)). reflexivity.
Qed.

Definition policy_kept (s : stmt) : bool :=
  match s with
  | SPolicy truthy via_ctor => negb (via_ctor && negb (ctor_policy_is_none_test || truthy))
  | _ => false
  end.

Local Opaque ctor_policy_is_none_test ctor_defperm_is_none_test.
Lemma actions_policy st batch :
  existsb is_apolicy (somes5 (map (directive st) batch)) = existsb policy_kept batch.
Proof.
  induction batch as [|x r IH]; simpl; [reflexivity|].
  destruct x as [t c|p t c| |o|o|o [|]|o|o]; simpl; try exact IH.
  - destruct (c && negb (ctor_policy_is_none_test || t)); simpl; [exact IH|reflexivity].
  - destruct (c && negb (ctor_defperm_is_none_test || t)); simpl; exact IH.
Qed.
Local Transparent ctor_policy_is_none_test ctor_defperm_is_none_test.

Lemma commit_policy s batch :
  rs_policy (cs_rs (commit s batch)) = rs_policy (cs_rs s) || existsb policy_kept batch.
Proof.
  unfold commit, batch_actions. rewrite fold_policy.
  rewrite (existsb_perm _ _ _ (isort_perm action_leb _)). rewrite actions_policy. reflexivity.
Qed.

Lemma fold_defperm l p : forall s,
  (forall q, In (ADefPerm q) l -> q = p) ->
  rs_defperm (cs_rs (fold_left exec_action l s)) =
  if existsb (fun a => match a with ADefPerm _ => true | _ => false end) l then Some p else rs_defperm (cs_rs s).
Proof.
  induction l as [|a l IH]; intros s Hu; simpl; [reflexivity|].
  rewrite IH by (intros q Hq; apply Hu; right; exact Hq).
  destruct a as [|q|o b]; simpl.
  - reflexivity.
  - rewrite (Hu q) by (left; reflexivity).
    destruct (existsb _ l); reflexivity.
  - rewrite exec_view_rs. reflexivity.
Qed.

Lemma commit_defperm s batch p :
  (forall q, In (ADefPerm q) (somes5 (map (directive (cs_rs s)) batch)) -> q = p) ->
  In (ADefPerm p) (somes5 (map (directive (cs_rs s)) batch)) ->
  rs_defperm (cs_rs (commit s batch)) = Some p.
Proof.
  intros Hu Hin. unfold commit, batch_actions.
  assert (P := isort_perm action_leb (somes5 (map (directive (cs_rs s)) batch))).
  rewrite (fold_defperm _ p).
  - rewrite (existsb_perm _ _ _ P).
    replace (existsb _ _) with true; [reflexivity|]. symmetry. apply existsb_exists.
    exists (ADefPerm p). split; [exact Hin|reflexivity].
  - intros q Hq. apply Hu. eapply Permutation_in; [exact P|exact Hq].
Qed.

Lemma somes5_perm {A} (l l' : list (option A)) : Permutation l l' -> Permutation (somes5 l) (somes5 l').
Proof.
  induction 1; simpl.
  - constructor.
  - destruct x; [constructor|]; assumption.
  - destruct x, y; try apply perm_swap; reflexivity.
  - etransitivity; eassumption.
Qed.

(* statement order inside a commit is irrelevant for what the views see *)
Lemma order_irrelevant_policy s b1 b2 :
  Permutation b1 b2 -> rs_policy (cs_rs (commit s b1)) = rs_policy (cs_rs (commit s b2)).
Proof. intros P. rewrite !commit_policy. f_equal. apply existsb_perm. exact P. Qed.

Lemma order_irrelevant_defperm s b1 b2 p :
  Permutation b1 b2 ->
  (forall q, In (ADefPerm q) (somes5 (map (directive (cs_rs s)) b1)) -> q = p) ->
  In (ADefPerm p) (somes5 (map (directive (cs_rs s)) b1)) ->
  rs_defperm (cs_rs (commit s b1)) = Some p /\ rs_defperm (cs_rs (commit s b2)) = Some p.
Proof.
  intros P Hu Hin.
  assert (P' : Permutation (somes5 (map (directive (cs_rs s)) b1)) (somes5 (map (directive (cs_rs s)) b2)))
    by (apply somes5_perm, Permutation_map; exact P).
  split; [apply commit_defperm; assumption|].
  apply commit_defperm.
  - intros q Hq. apply Hu. eapply Permutation_in; [apply Permutation_sym; exact P'|exact Hq].
  - eapply Permutation_in; [exact P'|exact Hin].
Qed.

(* a view written BEFORE the policy statement of its commit is protected all the same *)
Lemma view_before_policy_protected s pre o post truthy d p :
  let batch := pre ++ SView o :: post ++ [SPolicy truthy false] in
  o_exc_only o = false -> o_perm o = Some p -> is_npr p = false ->
  derive1 (cs_rs (commit s batch)) view_classifier false (viewdefaults o) (Plain (o_behave o)) = Some d ->
  In (r_tag (d_reg d), d) (cs_D (commit s batch)) /\ d_perm d = Some p.
Proof.
  intros batch He Hp Hn Hd. split.
  - apply (commit_registers s batch (viewdefaults o) (Plain (o_behave o)) d); [|left; split; assumption].
    unfold batch. rewrite map_app. simpl.
    clear. induction pre as [|x r IH]; simpl; [left; reflexivity|].
    destruct (directive (cs_rs s) x); [right|]; exact IH.
  - unfold derive1 in Hd. destruct (make pred_names (o_kw (viewdefaults o))); [|discriminate]. inversion Hd; subst d.
    cbn [d_perm viewdefaults with_perm o_perm]. rewrite Hp. apply secured_explicit; [|exact Hn].
    rewrite commit_policy. unfold batch. rewrite existsb_app. simpl. rewrite existsb_app. simpl.
    rewrite !orb_true_r. reflexivity.
Qed.

(* ================================================================== *)
(* non-vacuity: a concrete program, computed end to end.
   Interfaces: 0 = Interface, 1 = IRequest.  add_view(permission='v') is written before
   set_security_policy; add_view(name='n', wrapper view absent); default permission 'd'. *)
Definition ex_v : text := [118]%N.
Definition ex_d : text := [100]%N.
Definition ex_opts (t : N) (name : text) (perm : option text) : vopts :=
  mkVO t 1%N 0%N name [] perm false false [] true BReturn false None.
Definition ex_prog : list stmt :=
  [SView (ex_opts 1%N [] (Some ex_v)); SView (ex_opts 2%N [110%N] None); SDefPerm ex_d true false; SPolicy true false].
Definition ex_rq (name : text) : rq5 :=
  mkRq5 (mkReq [71; 69; 84]%N [] [] false None false [] [] false [] [] [] [] [] name)
        (CRes 0%N) [1; 0]%N [1; 0]%N [1; 0]%N [0]%N [[0]; [0]; [0]; [0]; [0]; [0]]%N true.

Example ex_granted :
  run_request (configure 1%N 7%N 8%N [ex_prog]) [(ex_v, CRes 0%N)] (ex_rq []) =
  ([Permits ex_v (CRes 0%N) true; Deco 2%N (CRes 0%N); Body 2%N (CRes 0%N)], Resp 2%N).
Proof. vm_compute. reflexivity. Qed.

Example ex_refused :
  run_request (configure 1%N 7%N 8%N [ex_prog]) [] (ex_rq []) =
  ([Permits ex_v (CRes 0%N) false; Raised EForbidden], Propagated EForbidden).
Proof. vm_compute. reflexivity. Qed.

Example ex_default_permission :
  run_request (configure 1%N 7%N 8%N [ex_prog]) [(ex_d, CRes 0%N)] (ex_rq [110%N]) =
  ([Permits ex_d (CRes 0%N) true; Deco 4%N (CRes 0%N); Body 4%N (CRes 0%N)], Resp 4%N).
Proof. vm_compute. reflexivity. Qed.

Example ex_judge_accepts :
  let '(tr, fin) := run_request (configure 1%N 7%N 8%N [ex_prog]) [(ex_v, CRes 0%N)] (ex_rq []) in
  judge ex_prog (overridden_tags [ex_prog]) (winner_tags (cs_D (configure 1%N 7%N 8%N [ex_prog])) (ex_rq [])) (proj_trace tr) (proj_final fin) = 0%N.
Proof. vm_compute. reflexivity. Qed.

(* the judge rejects a log in which the body ran without the check *)
Example ex_judge_rejects : judge ex_prog [] [1%N] [Body 1%N (CRes 0%N)] (Resp 1%N) = 1%N.
Proof. vm_compute. reflexivity. Qed.

(* the hypotheses of view_before_policy_protected are satisfiable *)
Example ex_view_before_policy :
  exists d, derive1 (cs_rs (commit (init_state 1%N 7%N 8%N) ([] ++ SView (ex_opts 1%N [] (Some ex_v)) :: [] ++ [SPolicy true false])))
                    view_classifier false (viewdefaults (ex_opts 1%N [] (Some ex_v))) (Plain BReturn) = Some d /\ d_perm d = Some ex_v.
Proof. eexists. split; vm_compute; reflexivity. Qed.

(* ================================================================== *)
(* the "403 handling runs" clause at full strength is false of the faithful model: a refusal while an
   exception view is being rendered (add_view(context=Boom, permission='v') used as exception view) *)
Definition ex_prog2 : list stmt :=
  [SPolicy true false;
   SView (mkVO 1%N 1%N 0%N [] [] None false false [] false (BRaise EBoom) false None);
   SView (mkVO 2%N 1%N 5%N [] [] (Some ex_v) true false [] false BReturn false None)].
Definition ex_rq2 : rq5 :=
  mkRq5 (mkReq [71; 69; 84]%N [] [] false None false [] [] false [] [] [] [] [] [])
        (CRes 0%N) [1; 0]%N [1; 0]%N [1; 0]%N [0]%N [[0]; [0]; [0]; [0]; [5; 0]; [0]]%N true.

Example ex_excview_refusal :
  run_request (configure 1%N 7%N 8%N [ex_prog2]) [] ex_rq2 =
  ([Body 2%N (CRes 0%N); Raised EBoom; Permits ex_v (CExc EBoom) false], Propagated EForbidden).
Proof. vm_compute. reflexivity. Qed.

Lemma refusal_403_refuted :
  exists R D tb q j p c,
    nth_error (fst (router_call R D tb q)) j = Some (Permits p c false) /\
    nth_error (fst (router_call R D tb q)) (S j) <> Some (Raised EForbidden).
Proof.
  exists (cs_R (configure 1%N 7%N 8%N [ex_prog2])), (cs_D (configure 1%N 7%N 8%N [ex_prog2])), [], ex_rq2,
         2, ex_v, (CExc EBoom).
  split; [vm_compute; reflexivity|]. vm_compute. discriminate.
Qed.

(* the exception-view directives *)
Lemma forced_ok f :
  In f [forced_forbidden; forced_notfound; forced_excview] -> f = (true, Some no_permission_required).
Proof. intros [<-|[<-|[<-|[]]]]; vm_compute; reflexivity. Qed.

Lemma npr_is_npr : is_npr no_permission_required = true.
Proof. unfold is_npr. apply text_eqb_refl. Qed.

Lemma force_unprotected f o st' :
  In f [forced_forbidden; forced_notfound; forced_excview] ->
  secured_permission st' true (o_perm (force f o)) = None /\ o_exc_only (force f o) = true.
Proof.
  intros Hf. rewrite (forced_ok f Hf). unfold force. cbn [o_perm o_exc_only fst snd].
  split; [apply secured_marker; exact npr_is_npr|reflexivity].
Qed.

Lemma exception_directives_unprotected st s o b :
  (exists o0, s = SForbidden o0 \/ s = SExcView o0 \/ exists a, s = SNotFound o0 a) ->
  directive st s = Some (AView o b) ->
  forall st', secured_permission st' true (o_perm o) = None /\ o_exc_only o = true.
Proof.
  intros (o0 & [-> | [-> | (a & ->)]]) H st'.
  - unfold directive in H. inversion H; subst. apply force_unprotected. simpl; auto.
  - unfold directive in H. inversion H; subst. apply force_unprotected. simpl; auto.
  - unfold directive in H. destruct a; inversion H; subst; apply force_unprotected; simpl; auto.
Qed.

(* ================================================================== *)
(* from the program text to the table of derived views *)

Definition cls_of (eo : bool) : N := if eo then exc_classifier else view_classifier.

(* d was derived, under state st, from a view action of the list, as its normal (eo = false) or exception variant *)
(* the normal variant exists only when not exception_only, the exception variant only for exception contexts *)
Definition var_ok (eo : bool) (o : vopts) : Prop := if eo then o_isexc o = true else o_exc_only o = false.

Definition derived_from (acts : list action) (st : regstate) (rt : N) (d : dview) : Prop :=
  exists eo o b, In (AView o b) acts /\ derive1 st (cls_of eo) eo o b = Some d /\ rt = rtag (o_tag o) eo /\ var_ok eo o.

Lemma derive1_tag st cls eo o b d : derive1 st cls eo o b = Some d -> r_tag (d_reg d) = rtag (o_tag o) eo.
Proof. unfold derive1. destruct (make pred_names (o_kw o)); [|discriminate]. intros H; inversion H; reflexivity. Qed.

Lemma derive1_perm st cls eo o b d : derive1 st cls eo o b = Some d -> d_perm d = secured_permission st eo (o_perm o).
Proof. unfold derive1. destruct (make pred_names (o_kw o)); [|discriminate]. intros H; inversion H; reflexivity. Qed.

Lemma derive1_body st cls eo o b d : derive1 st cls eo o b = Some d -> d_body d = b.
Proof. unfold derive1. destruct (make pred_names (o_kw o)); [|discriminate]. intros H; inversion H; reflexivity. Qed.

Lemma exec_view_D' s o b rt d :
  In (rt, d) (cs_D (exec_view s o b)) ->
  In (rt, d) (cs_D s) \/
  exists eo, derive1 (cs_rs s) (cls_of eo) eo o b = Some d /\ rt = rtag (o_tag o) eo /\ var_ok eo o.
Proof.
  unfold exec_view.
  destruct (o_exc_only o) eqn:Eo, (o_isexc o) eqn:Ei; simpl;
    destruct (derive1 (cs_rs s) view_classifier false o b) as [d1|] eqn:E1,
             (derive1 (cs_rs s) exc_classifier true o b) as [d2|] eqn:E2; simpl; intros H;
    repeat (destruct H as [H|H];
            [inversion H; subst; right;
             first [exists false; split; [exact E1|split; [apply (derive1_tag _ _ _ _ _ _ E1)|exact Eo]]
                   |exists true; split; [exact E2|split; [apply (derive1_tag _ _ _ _ _ _ E2)|exact Ei]]]|]); auto.
Qed.

Lemma sorted_fold' l :
  StronglySorted (fun a b => action_leb a b = true) l -> forall s rt d,
  In (rt, d) (cs_D (fold_left exec_action l s)) ->
  In (rt, d) (cs_D s) \/ derived_from l (cs_rs (fold_left exec_action l s)) rt d.
Proof.
  induction 1 as [|a l Hs IH Ha]; intros s rt d Hin; simpl in *; [left; exact Hin|].
  destruct (IH _ _ _ Hin) as [H|(eo & o & b & H1 & H2 & H3)].
  - destruct a as [|p|o b]; simpl in H; [left; exact H|left; exact H|].
    apply exec_view_D' in H. destruct H as [H|(eo & H1 & H2)]; [left; exact H|right].
    exists eo, o, b. split; [left; reflexivity|]. split; [|exact H2].
    rewrite (views_only_rs l) by (eapply later_are_views; exact Ha).
    simpl. rewrite exec_view_rs. exact H1.
  - right. exists eo, o, b. split; [right; exact H1|]. split; assumption.
Qed.

Lemma in_somes5_map {A B} (f : A -> option B) l y : In y (somes5 (map f l)) -> exists x, In x l /\ f x = Some y.
Proof.
  induction l as [|x r IH]; simpl; [intros []|].
  destruct (f x) as [z|] eqn:E.
  - intros [<-|H]; [exists x; auto|]. destruct (IH H) as (x' & H1 & H2). exists x'. auto.
  - intros H. destruct (IH H) as (x' & H1 & H2). exists x'. auto.
Qed.

(* every entry of the table after a commit is an old entry, or comes from a statement of the commit, derived
   under the commit's final state; its closed-over permission is the table value for that statement *)
Lemma commit_table s batch rt d :
  In (rt, d) (cs_D (commit s batch)) ->
  In (rt, d) (cs_D s) \/
  exists st eo o b, In st batch /\ directive (cs_rs s) st = Some (AView o b) /\ rt = rtag (o_tag o) eo /\
                    d_perm d = secured_permission (cs_rs (commit s batch)) eo (o_perm o) /\ d_body d = b /\
                    var_ok eo o.
Proof.
  intros Hin. unfold commit, batch_actions in *.
  apply sorted_fold' in Hin; [|apply isort_sorted; [exact action_leb_total|exact action_leb_trans]].
  destruct Hin as [H|(eo & o & b & H1 & H2 & H3 & H4)]; [left; exact H|right].
  apply (Permutation_in _ (isort_perm action_leb _)) in H1.
  apply in_somes5_map in H1. destruct H1 as (st & Hs & Hd).
  exists st, eo, o, b. split; [exact Hs|]. split; [exact Hd|]. split; [exact H3|].
  split; [eapply derive1_perm; exact H2|]. split; [eapply derive1_body; exact H2|exact H4].
Qed.

(* the declarative reading of that value: with a policy in force, exactly the property's effective permission *)
Lemma secured_permission_declarative dp eo perm :
  secured_permission (mkRS true dp) eo perm =
  match perm with
  | Some p => strip_npr (Some p)
  | None => if eo then None else strip_npr dp
  end.
Proof.
  unfold secured_permission, strip_npr. cbn [rs_policy rs_defperm negb orb].
  destruct perm as [p|]; cbn [is_none andb negb].
  - rewrite andb_false_r. destruct (is_npr p); reflexivity.
  - rewrite andb_true_r. destruct eo; cbn [negb]; [reflexivity|].
    destruct dp as [q|]; [destruct (is_npr q)|]; reflexivity.
Qed.

(* one commit, a policy statement anywhere in it, add_view(permission=...) anywhere in it: the registered view
   closed over the property's effective permission (explicit, else the declared default unless exception view;
   marker = none) *)
Lemma single_commit_effective s batch rt d dp :
  rs_policy (cs_rs (commit s batch)) = true -> rs_defperm (cs_rs (commit s batch)) = dp ->
  In (rt, d) (cs_D (commit s batch)) ->
  In (rt, d) (cs_D s) \/
  exists st eo o b, In st batch /\ directive (cs_rs s) st = Some (AView o b) /\ rt = rtag (o_tag o) eo /\
    d_perm d = match o_perm o with
               | Some p => strip_npr (Some p)
               | None => if eo then None else strip_npr dp
               end.
Proof.
  intros Hp Hd Hin. destruct (commit_table _ _ _ _ Hin) as [H|(st & eo & o & b & H1 & H2 & H3 & H4 & _)]; [left; exact H|right].
  exists st, eo, o, b. repeat split; try assumption.
  rewrite H4. destruct (cs_rs (commit s batch)) as [pol dq]. simpl in Hp, Hd. subst pol dq.
  apply secured_permission_declarative.
Qed.

Lemma no_policy_nothing_protected s batch rt d :
  rs_policy (cs_rs (commit s batch)) = false ->
  In (rt, d) (cs_D (commit s batch)) -> In (rt, d) (cs_D s) \/ d_perm d = None.
Proof.
  intros Hp Hin. destruct (commit_table _ _ _ _ Hin) as [H|(st & eo & o & b & _ & _ & _ & H4 & _)]; [left; exact H|right].
  rewrite H4. apply secured_no_policy. exact Hp.
Qed.

Lemma assocN_In {B} (k : N) (l : list (N * B)) v : assocN k l = Some v -> In (k, v) l.
Proof.
  induction l as [|[k' v'] r IH]; simpl; [discriminate|].
  destruct (N.eqb k k') eqn:E; [apply N.eqb_eq in E; intros H; inversion H; subst; left; reflexivity|right; auto].
Qed.

(* mediation at program level: one commit on top of the constructor's state; the tag of the event names the
   statement and the variant; the permission is the property's effective permission of that statement *)
Lemma mediation_program irq ier iw batch tb q i e rt c d :
  let s0 := init_state irq ier iw in
  let s := commit s0 batch in
  existsb policy_kept batch = true ->
  nth_error (fst (run_request s tb q)) i = Some e -> (e = Body rt c \/ e = Deco rt c) ->
  assocN rt (cs_D s) = Some d ->
  In (rt, d) (cs_D s0) \/
  exists st eo o b, In st batch /\ directive (cs_rs s0) st = Some (AView o b) /\ rt = rtag (o_tag o) eo /\
    forall p, match o_perm o with
              | Some p' => strip_npr (Some p')
              | None => if eo then None else strip_npr (rs_defperm (cs_rs s))
              end = Some p ->
              exists j, j < i /\ nth_error (fst (run_request s tb q)) j = Some (Permits p c true).
Proof.
  intros s0 s Hpol Hn He Hd.
  assert (Hp : rs_policy (cs_rs s) = true) by (unfold s; rewrite commit_policy, Hpol; apply orb_true_r).
  destruct (single_commit_effective s0 batch rt d _ Hp eq_refl (assocN_In _ _ _ Hd))
    as [H|(st & eo & o & b & H1 & H2 & H3 & H4)]; [left; exact H|right].
  exists st, eo, o, b. repeat split; try assumption.
  intros p Hperm. unfold run_request in *. eapply mediation; eauto. rewrite H4. exact Hperm.
Qed.

(* the judge rejects the callable of an overridden statement: an open view committed first, the same slot declared
   with a permission in a later commit; a log in which the first callable ran gets bit 128 *)
Definition ex_override : list (list stmt) :=
  [[SPolicy true false; SView (ex_opts 1%N [] None)]; [SView (ex_opts 2%N [] (Some ex_v))]].
Example ex_overridden_tags : overridden_tags ex_override = [1%N].
Proof. vm_compute. reflexivity. Qed.
Example ex_judge_rejects_overridden :
  judge (concat ex_override) (overridden_tags ex_override) [1%N] [Deco 1%N (CRes 0%N); Body 1%N (CRes 0%N)] (Resp 1%N) = 128%N.
Proof. vm_compute. reflexivity. Qed.
Example ex_model_runs_the_override :
  run_request (configure 1%N 7%N 8%N ex_override) [] (ex_rq []) =
  ([Permits ex_v (CRes 0%N) false; Raised EForbidden], Propagated EForbidden).
Proof. vm_compute. reflexivity. Qed.
