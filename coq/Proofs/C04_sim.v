(* C04 proofs, part 18: pieces of the simulation between the code's group pass and the specification's recomputation
   ([spec_exec_from]).  For one order group [fg] (forced, all of one phase) and a resolver state whose executed actions
   are the specification's [won]: the discriminators the specification calls contested are exactly those the code
   reports. *)
From Coq Require Import List NArith ZArith Bool Lia Permutation Sorted.
Import ListNotations.
Require Import Verif.Lib.Wire Verif.Lib.C04Sort Verif.Gen.Facts_C04 Verif.Model.C04.
Require Import Verif.Proofs.C04 Verif.Proofs.C04_flat Verif.Proofs.C04_decide Verif.Proofs.C04_safe Verif.Proofs.C04_groups
               Verif.Proofs.C04_spec Verif.Proofs.C04_mono Verif.Proofs.C04_one Verif.Proofs.C04_step Verif.Proofs.C04_all.

Lemma forallb_map' {A B} (f : B -> bool) (g : A -> B) l : forallb f (map g l) = forallb (fun x => f (g x)) l.
Proof. induction l as [|x r IH]; simpl; [reflexivity|]. rewrite IH. reflexivity. Qed.

Lemma forallb_ext_in {A} (f g : A -> bool) l : (forall x, In x l -> f x = g x) -> forallb f l = forallb g l.
Proof.
  induction l as [|x r IH]; intros H; simpl; [reflexivity|]. rewrite (H x (or_introl eq_refl)), IH; [reflexivity|].
  intros y Hy. apply H. right. exact Hy.
Qed.

Lemma existsb_ext_in {A} (f g : A -> bool) l : (forall x, In x l -> f x = g x) -> existsb f l = existsb g l.
Proof.
  induction l as [|x r IH]; intros H; simpl; [reflexivity|]. rewrite (H x (or_introl eq_refl)), IH; [reflexivity|].
  intros y Hy. apply H. right. exact Hy.
Qed.

Lemma find_map_none {A B} (f : B -> bool) (g : A -> B) l :
  (match find f (map g l) with None => true | Some _ => false end) = negb (existsb (fun x => f (g x)) l).
Proof. induction l as [|x r IH]; simpl; [reflexivity|]. destruct (f (g x)); [reflexivity|exact IH]. Qed.

Lemma filter_ext_in' {A} (f g : A -> bool) l : (forall x, In x l -> f x = g x) -> filter f l = filter g l.
Proof.
  induction l as [|x r IH]; intros H; simpl; [reflexivity|]. rewrite (H x (or_introl eq_refl)), IH; [reflexivity|].
  intros y Hy. apply H. right. exact Hy.
Qed.

(* the actions of the group carrying d, seen as actions and as (index, action) pairs *)
Lemma G_map_snd d fg : G d (map snd fg) = map snd (grp_d d fg).
Proof.
  unfold G, grp_d. induction fg as [|x r IH]; simpl; [reflexivity|].
  change (has_disc d (snd x)) with (hdx d x). destruct (hdx d x); simpl; rewrite IH; reflexivity.
Qed.

Lemma discs_map_snd fg : discs (map snd fg) = group_discs fg.
Proof. unfold discs, group_discs. rewrite map_map. reflexivity. Qed.

(* the specification's resolver memory agrees with the code's: same executed action per discriminator *)
Definition won_matches (won : list (N * action)) (res : list (option N * ainfo)) : Prop :=
  forall d, lookup_won d won = match lookup d res with Some (_, w) => Some w | None => None end.

(* within one phase, "winner" is "the one above all the others" *)
Lemma wins_is_dom d fg a :
  (forall x y, In x fg -> In y fg -> okey x = okey y) -> In a (grp_d d fg) ->
  wins (map snd fg) d (snd a) = dom a (grp_d d fg).
Proof.
  intros Hk Ha. unfold wins, dom. rewrite G_map_snd, !forallb_map'.
  assert (Hin : forall b, In b (grp_d d fg) -> In b fg) by (intros b Hb; apply In_grp_d in Hb; tauto).
  rewrite (forallb_ext_in _ (fun _ => true)).
  - assert (T : forall l : list ainfo, forallb (fun _ => true) l = true) by (induction l; simpl; auto). rewrite T. reflexivity.
  - intros b Hb. apply Z.leb_le. pose proof (Hk a b (Hin a Ha) (Hin b Hb)) as E. unfold okey in E. lia.
Qed.

(* (c) as the specification states it: THE SAME DISCRIMINATORS *)
Theorem sx_contested_is_contested_b won res fg :
  won_matches won res ->
  (forall x y, In x fg -> In y fg -> okey x = okey y) ->
  sx_contested won (map snd fg) = filter (contested_b res fg) (group_discs fg).
Proof.
  intros HW Hk. unfold sx_contested. rewrite discs_map_snd. apply filter_ext_in'. intros d _.
  unfold contested_b. rewrite (HW d). destruct (lookup d res) as [[i w]|].
  - rewrite G_map_snd, forallb_map'. reflexivity.
  - unfold winner. rewrite G_map_snd, find_map_none. f_equal. apply existsb_ext_in. intros a Ha.
    apply wins_is_dom; assumption.
Qed.

(* END TO END for one group: the conflict the code raises names exactly the discriminators the specification's
   recomputation calls contested (composition with group_conflicts) *)
Theorem group_conflicts_are_spec_contested won res fg :
  NoDup (map aidx fg) -> won_matches won res ->
  (forall x y, In x fg -> In y fg -> okey x = okey y) ->
  map fst (snd (detect cfg_fixed res (sort_unique_lists (build_unique fg)))) = sx_contested won (map snd fg).
Proof.
  intros Nd HW Hk. rewrite (sx_contested_is_contested_b won res fg HW Hk). apply group_conflicts. exact Nd.
Qed.

(* the memory stays matched when an action is executed: code prepends (D a, (i, a)), specification prepends (d, a) *)
Lemma won_matches_nil : won_matches [] [].
Proof. intros d. reflexivity. Qed.

Lemma won_matches_step won res i a :
  won_matches won res ->
  won_matches (match D a with Some d => (d, a) :: won | None => won end) ((D a, (i, a)) :: res).
Proof.
  intros HW d. destruct (D a) as [d'|] eqn:E; cbn [lookup lookup_won].
  - destruct (N.eqb d d'); [reflexivity|apply HW].
  - apply HW.
Qed.

(* non-vacuity: two same-level declarations of discriminator 1, nothing executed before *)
Definition w_fg : list ainfo :=
  [(0%N, mkA 0 (Eager (Some 1%N)) [] (Some 0%Z) []); (1%N, mkA 1 (Eager (Some 1%N)) [] (Some 0%Z) [])].
Example sim_witness :
  NoDup (map aidx w_fg) /\ won_matches [] [] /\ (forall x y, In x w_fg -> In y w_fg -> okey x = okey y) /\
  sx_contested [] (map snd w_fg) = [1%N].
Proof.
  split; [repeat constructor; simpl; intuition discriminate|]. split; [apply won_matches_nil|]. split; [|reflexivity].
  intros x y [<-|[<-|[]]] [<-|[<-|[]]]; reflexivity.
Qed.

(* ---------- list.remove of actions with pairwise distinct identities is a FILTER: the order of what stays is kept *)
Definition not_among (ids : list N) (b : action) : bool := negb (existsb (N.eqb (aid b)) ids).

Lemma filter_all_kept {A} (f : A -> bool) l : (forall x, In x l -> f x = true) -> filter f l = l.
Proof.
  induction l as [|x r IH]; intros H; simpl; [reflexivity|]. rewrite (H x (or_introl eq_refl)), IH; [reflexivity|].
  intros y Hy. apply H. right. exact Hy.
Qed.

Lemma remove_aid_is_filter id : forall l l',
  NoDup (map aid l) -> remove_aid id l = Some l' -> l' = filter (not_among [id]) l.
Proof.
  induction l as [|b r IH]; intros l' Nd E; simpl in E; [discriminate|]. simpl in Nd. inversion Nd as [|? ? Hn Nd']; subst.
  unfold not_among at 1. cbn [filter existsb]. rewrite orb_false_r.
  destruct (N.eqb (aid b) id) eqn:Eb; cbn [negb].
  - inversion E; subst. symmetry. apply filter_all_kept. intros x Hx. unfold not_among. cbn [existsb]. rewrite orb_false_r.
    apply negb_true_iff. apply N.eqb_neq. intros Ex. apply N.eqb_eq in Eb. apply Hn. rewrite Eb, <- Ex. apply in_map. exact Hx.
  - destruct (remove_aid id r) as [r'|] eqn:Er; [|discriminate]. inversion E; subst. f_equal. apply IH; [exact Nd'|reflexivity].
Qed.

Lemma not_among_cons i ids b : not_among (i :: ids) b = not_among [i] b && not_among ids b.
Proof. unfold not_among. cbn [existsb]. rewrite orb_false_r, negb_orb. reflexivity. Qed.

Lemma filter_filter {A} (f g : A -> bool) l : filter g (filter f l) = filter (fun x => f x && g x) l.
Proof. induction l as [|x r IH]; simpl; [reflexivity|]. destruct (f x); simpl; [destruct (g x); rewrite IH; reflexivity|exact IH]. Qed.

Theorem remove_all_is_filter : forall ds l l',
  NoDup (map aid l) -> remove_all ds l = Some l' -> l' = filter (not_among (map aidx ds)) l.
Proof.
  induction ds as [|x r IH]; intros l l' Nd E.
  - inversion E; subst. symmetry. apply filter_all_kept. intros; reflexivity.
  - rewrite remove_all_cons in E. destruct (remove_aid (aid (snd x)) l) as [l1|] eqn:E1; [|discriminate].
    pose proof (remove_aid_is_filter _ _ _ Nd E1) as H1. subst l1.
    rewrite (IH _ l' (NoDup_map_filter aid _ l Nd) E), filter_filter. apply filter_ext_in'. intros b _.
    cbn [map]. rewrite (not_among_cons (aidx x) (map aidx r)). reflexivity.
Qed.

(* the discard step of one group pass, as the code performs it on remaining_actions: what stays is remaining_actions
   (forced where the group says so) filtered -- in the same order -- by "is not one of the discarded actions" *)
Corollary group_discard_is_filter grp rem discards rem2 :
  NoDup (map aid rem) -> remove_all discards (mark_group grp rem) = Some rem2 ->
  rem2 = filter (not_among (map aidx discards)) (mark_group grp rem).
Proof.
  intros Nd E. apply remove_all_is_filter; [|exact E].
  assert (Ea : forall l, map aid (mark_group grp l) = map aid l).
  { intros l. rewrite <- !sigs_fst, sigs_mark_group. reflexivity. }
  rewrite Ea. exact Nd.
Qed.
