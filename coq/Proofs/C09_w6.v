(* C09 -- sixth round.
   (1) the identity of EVERY accepted cookie (also a foreign-signed one) is well formed: text of scalar values, bytes < 256;
       so the reissued ticket is valid without any premise on the identity (reissued_ticket_valid_any);
   (2) the ticket round trip for every user-id text of scalar values, not only ASCII (AuthTicket used directly);
   (3) no valid token contains the separators ',' and '!': the token list splits back exactly. *)
From Coq Require Import List NArith ZArith Bool Lia.
Import ListNotations.
Require Import Verif.Lib.Wire Verif.Lib.Text Verif.Lib.Percent Verif.Lib.Utf8 Verif.Lib.C09Base Verif.Lib.C09BaseP Verif.Lib.C09Scalar.
Require Import Verif.Gen.Facts_C09 Verif.Model.C09 Verif.Proofs.C09 Verif.Proofs.C09_rt Verif.Proofs.C09_more Verif.Proofs.C09_w5.

Lemma forallb_skipn {A} (f : A -> bool) n l : forallb f l = true -> forallb f (skipn n l) = true.
Proof.
  revert l; induction n as [|n IH]; intros l Hl; [exact Hl|]. destruct l as [|x l]; [reflexivity|].
  cbn [skipn]. apply IH. cbn [forallb] in Hl. apply andb_true_iff in Hl as [_ Hl]. exact Hl.
Qed.

Lemma forallb_split1 (f : N -> bool) c s a b : forallb f s = true -> split1 c s = Some (a, b) -> forallb f a = true /\ forallb f b = true.
Proof.
  revert a b; induction s as [|x s IH]; intros a b Hs; cbn [split1]; [discriminate|].
  cbn [forallb] in Hs. apply andb_true_iff in Hs as [Hx Hs].
  destruct (N.eqb x c).
  - intros E; inversion E; subst. split; [reflexivity|exact Hs].
  - destruct (split1 c s) as [[a' b']|]; [|discriminate]. intros E; inversion E; subst.
    destruct (IH a' b Hs eq_refl) as [A B]. split; [cbn [forallb]; rewrite Hx, A; reflexivity|exact B].
Qed.

Section W6.
Variable H : text -> list N -> text.
Variable dsz : text -> nat.
Variable uni : N -> N.

(* ------------------------------------------------------------------ (1) accepted identities are well formed *)
Lemma parse_fields_userid_scalar alg ck0 d ts u tk ud :
  forallb valid_scalar ck0 = true -> parse_fields dsz uni alg ck0 = FOk d ts u tk ud -> forallb valid_scalar u = true.
Proof.
  intros Hs. unfold parse_fields.
  destruct (py_int _ _ _); [|discriminate].
  destruct (split1 bang _) as [[uq data]|] eqn:S; [|discriminate].
  apply forallb_split1 with (f := valid_scalar) in S; [|apply forallb_skipn, forallb_strip; exact Hs].
  destruct S as [Huq _].
  destruct (split1 bang data) as [[a b]|]; intros E; inversion E; subst; apply unquote_str_scalar; exact Huq.
Qed.

Lemma apply_dec_ok k u u' : uval_ok u -> apply_dec uni k u = Some u' -> uval_ok u'.
Proof.
  intros Hok. unfold apply_dec, option_map. destruct k, u; cbv beta iota zeta;
    repeat match goal with
    | |- context [match ?x with _ => _ end] =>
        lazymatch x with
        | context [match _ with _ => _ end] => fail
        | _ => destruct x eqn:?
        end
    end; cbn [option_map]; intros E; try discriminate; inversion E; subst; cbn [uval_ok]; auto;
    eauto using decode_scalar, b64decode_bytes.
Qed.

Lemma decode_userid_ok data : forall u0 u, uval_ok u0 -> decode_userid uni data u0 = Some u -> uval_ok u.
Proof.
  induction data as [|d data IH]; intros u0 u Hok; cbn [decode_userid]; [intros E; inversion E; subst; exact Hok|].
  destruct d as [|x d]; [apply IH; exact Hok|].
  destruct (starts_typename (x :: d)) as [ty|]; [|apply IH; exact Hok].
  destruct (lookup_text ty decoders) as [k|]; [|apply IH; exact Hok].
  destruct (apply_dec uni k u0) as [u1|] eqn:A; [|discriminate].
  apply IH. eapply apply_dec_ok; eauto.
Qed.

Theorem accepted_identity_wellformed c r ck0 ts u tk ud :
  forallb valid_scalar ck0 = true -> cookie r = Some ck0 ->
  identify_pre H dsz uni c r = ISome ts u tk ud -> uval_ok u.
Proof.
  intros Hs Hc Hi.
  destruct (accept_fields H dsz uni c r ck0 ts u tk ud Hc Hi) as (ip & d & uid & tk0 & _ & F & _ & _ & D & _).
  eapply decode_userid_ok; [|exact D]. cbn [uval_ok]. eapply parse_fields_userid_scalar; eauto.
Qed.

(* "one fresh, valid ticket", with no premise on the identity: for every cookie text of scalar values *)
Theorem reissued_ticket_valid_any c r ck0 r2 hs k v :
  H_len H dsz -> H_head H ->
  forallb valid_scalar ck0 = true -> cookie r = Some ck0 ->
  spec_reissue_ticket H dsz uni c r = Some hs -> In k hs -> ck_value k = Some v ->
  (0 <= now (later r) < 4294967296)%Z ->
  cookie r2 = Some v -> eff_ip c r2 = eff_ip c r ->
  exists ts u tk ud,
    identify_pre H dsz uni c r = ISome ts u tk ud /\
    identify_pre H dsz uni c r2 =
    match spec_issued_identity c (Z.to_N (now (later r))) u (shown_tokens (filter nonempty tk)) (now2 r2) with
    | Some (ts', u', tk') => ISome ts' u' tk' (userid_typename ++ tag_of u)
    | None => INone
    end.
Proof.
  intros HL HH Hs Hc Hsp Hin Hv Hn Hck Hip.
  destruct (reissued_ticket_valid H dsz uni c r r2 hs k v HL HH Hsp Hin Hv Hn Hck Hip) as (ts & u & tk & ud & E & V).
  exists ts, u, tk, ud. split; [exact E|]. apply V. eapply accepted_identity_wellformed; eauto.
Qed.

(* ------------------------------------------------------------------ (2) round trip for every scalar user-id text *)
Theorem fields_roundtrip_scalar alg ip t sec enc toks ud :
  H_len H dsz -> H_head H -> (t < 4294967296)%N -> forallb valid_scalar enc = true ->
  Forall (fun tk => valid_token tk = true) toks ->
  ud <> [] -> ~ In bang ud -> last ud 0%N <> strip_ch ->
  parse_fields dsz uni alg (cookie_value H alg ip t sec enc toks ud)
  = FOk (calculate_digest H alg ip (Z.of_N t) sec enc (joined toks) ud) (Z.of_N t) enc (joined toks) ud.
Proof.
  intros HL HH Ht Henc Htok Hud Hbang Hlast.
  destruct facts_widths as (W1 & W2 & W3). destruct facts_quote as (Q1 & Q2 & Q3 & Q4 & Q5).
  destruct facts_tokens as (T1 & T2 & T3 & T4 & T5 & T6 & T7).
  set (D := calculate_digest H alg ip (Z.of_N t) sec enc (joined toks) ud).
  set (Hx := hex_pad ts_width t).
  set (Q := quote_str quote_safe enc).
  set (T := match joined toks with [] => [] | _ => joined toks ++ [bang] end).
  assert (LD : length D = digest_len dsz alg) by (unfold D, calculate_digest, digest_len; apply HL).
  assert (LH : length Hx = ts_field).
  { unfold Hx. rewrite <- W1. apply hex_pad_length; rewrite W2; [exact Ht|lia]. }
  unfold parse_fields. rewrite cookie_shape. fold D Hx Q T.
  assert (ST : strip_char strip_ch (D ++ Hx ++ Q ++ bang :: T ++ ud) = D ++ Hx ++ Q ++ bang :: T ++ ud).
  { destruct (HH alg (H alg (digest_msg ip (Z.of_N t) sec enc (joined toks) ud) ++ encode sec)) as (c0 & r0 & E0 & N0).
    destruct (exists_last Hud) as (ud' & y & Ey).
    eapply strip_id with (x := c0) (y := y).
    - unfold D, calculate_digest. rewrite E0. reflexivity.
    - rewrite Ey. rewrite !app_comm_cons, !app_assoc. reflexivity.
    - exact N0.
    - rewrite Ey, last_last in Hlast. exact Hlast. }
  rewrite ST.
  rewrite (firstn_app_exact D _ _ LD), (skipn_app_exact D _ _ LD).
  rewrite (firstn_app_exact Hx _ _ LH).
  unfold Hx. rewrite W3, py_int_hex_pad. fold Hx.
  replace (D ++ Hx ++ Q ++ bang :: T ++ ud) with ((D ++ Hx) ++ Q ++ bang :: T ++ ud) by (rewrite <- app_assoc; reflexivity).
  rewrite (skipn_app_exact (D ++ Hx)) by (rewrite app_length; lia).
  assert (NQ : ~ In bang Q).
  { unfold Q, quote_str. apply quote_no_char; auto. apply encode_lt256. assumption. }
  rewrite (split1_app bang Q (T ++ ud) NQ).
  assert (UQ : unquote_str Q = enc) by (apply unquote_quote_str_scalar; assumption).
  rewrite UQ.
  assert (NJ : ~ In bang (joined toks)).
  { unfold joined. apply join_no.
    - intros [E|[]]. apply T7. symmetry. exact E.
    - eapply Forall_impl; [|exact Htok]. intros tk Hv. apply valid_token_no; assumption. }
  unfold T. destruct (joined toks) as [|j0 jr] eqn:EJ.
  - simpl. rewrite (split1_none bang ud Hbang). reflexivity.
  - rewrite <- app_assoc. simpl app at 2.
    rewrite (split1_app bang (j0 :: jr) ud NJ). reflexivity.
Qed.

(* ------------------------------------------------------------------ (3) tokens and separators *)
Theorem valid_token_no_separator t :
  valid_token t = true -> ~ In comma t /\ ~ In bang t /\ t <> [].
Proof.
  destruct facts_tokens as (T1 & T2 & T3 & T4 & T5 & T6 & T7). intros Hv.
  split; [apply valid_token_no; assumption|]. split; [apply valid_token_no; assumption|apply valid_token_nonempty; assumption].
Qed.

Theorem tokens_split_back toks :
  toks <> [] -> Forall (fun tk => valid_token tk = true) toks ->
  split_on comma (join [comma] toks) = toks /\ ~ In bang (join [comma] toks).
Proof.
  intros Hn Hf. destruct facts_tokens as (T1 & T2 & T3 & T4 & T5 & T6 & T7). split.
  - apply split_join; [exact Hn|]. eapply Forall_impl; [|exact Hf]. intros tk Hv. apply valid_token_no; assumption.
  - apply join_no.
    + intros [E|[]]. apply T7. symmetry. exact E.
    + eapply Forall_impl; [|exact Hf]. intros tk Hv. apply valid_token_no; assumption.
Qed.

Theorem ticket_roundtrip_scalar alg ip t sec enc toks ud :
  H_len H dsz -> H_head H -> (t < 4294967296)%N -> forallb valid_scalar enc = true ->
  Forall (fun tk => valid_token tk = true) toks ->
  ud <> [] -> ~ In bang ud -> last ud 0%N <> strip_ch ->
  parse_ticket H dsz uni sec (cookie_value H alg ip t sec enc toks ud) ip alg
  = POk (Z.of_N t) enc (shown_tokens toks) ud.
Proof.
  intros HL HH Ht Henc Htok Hud Hbang Hlast.
  unfold parse_ticket. rewrite fields_roundtrip_scalar by assumption.
  unfold strings_differ. rewrite text_eqb_refl. simpl.
  f_equal. destruct toks as [|t0 tr]; [reflexivity|].
  unfold joined, shown_tokens. apply tokens_split_back; [discriminate|exact Htok].
Qed.

(* ------------------------------------------------------------------ (4) legacy 'userid_type:unicode' tickets *)
Definition unicode_tag : text := [117; 110; 105; 99; 111; 100; 101]%N.

Lemma legacy_ud_split : split_on pipe legacy_ud = [userid_typename ++ unicode_tag].
Proof. vm_compute. reflexivity. Qed.

(* what identify() does with a validly signed legacy ticket, by the decoder the table holds for 'unicode':
   with the original entry (utf_8_decode applied to the str parse_ticket hands over) it RAISES; with the repaired entry
   (identity on str) it yields what the property demands *)
Theorem legacy_unicode_identify c r x :
  spec_legacy_unicode H dsz uni c r = Some x ->
  match lookup_text unicode_tag decoders with
  | Some DUtf8Text => identify_pre H dsz uni c r = x
  | Some DUtf8 => identify_pre H dsz uni c r = match x with INone => INone | _ => IRaise end
  | _ => True
  end.
Proof.
  unfold spec_legacy_unicode, identify_pre, digest_ok, parse_ticket.
  destruct (cookie r) as [ck0|]; [|discriminate].
  destruct (eff_ip c r) as [ip|]; [|discriminate].
  destruct (parse_fields dsz uni (hashalg c) ck0) as [d ts uid tk ud|]; [|discriminate].
  destruct (text_eqb_spec ud legacy_ud) as [->|]; [|discriminate]. cbn [andb].
  destruct (text_eqb_spec d (calculate_digest H (hashalg c) ip ts (secret c) uid tk legacy_ud)) as [->|]; [|discriminate].
  cbn [andb]. destruct (forallb valid_token (filter nonempty (split_on comma tk))); [|discriminate].
  intros E; inversion E; subst x; clear E.
  unfold strings_differ. rewrite text_eqb_refl. cbn [negb].
  rewrite legacy_ud_split, decode_one.
  destruct (lookup_text unicode_tag decoders) as [[| | | |]|]; try exact I;
    destruct (timed_out c ts (now2 r)); reflexivity.
Qed.

End W6.

(* non-vacuity: a non-ASCII user id signed through AuthTicket parses back; a foreign-signed ticket whose user_data names
   the b64str decoder yields bytes *)
Example w6_nonvacuous :
  parse_ticket ex_H (fun _ => 2%nat) (fun _ => 63%N) [115]%N
    (cookie_value ex_H [109]%N (IP4 [0; 0; 0; 0]%N) 1000 [115]%N [233; 8364; 128512]%N [[97]%N] [120]%N) (IP4 [0; 0; 0; 0]%N) [109]%N
  = POk 1000 [233; 8364; 128512]%N [[97]%N] [120]%N
  /\ valid_token [97; 44; 98]%N = false /\ valid_token [97; 33]%N = false /\ valid_token [97; 10]%N = true.
Proof. vm_compute. repeat split. Qed.

(* non-vacuity: a legacy ticket for 'bob' signed with ex_cfg's secret falls under spec_legacy_unicode (and expires) *)
Definition ex_legacy : text :=
  cookie_value ex_H [109]%N (IP4 [0; 0; 0; 0]%N) 1000 [115; 101; 99]%N [98; 111; 98]%N [] legacy_ud.
Example legacy_nonvacuous :
  spec_legacy_unicode ex_H (fun _ => 2%nat) (fun _ => 63%N) ex_cfg (ex_req (Some ex_legacy) 1001)
    = Some (ISome 1000 (VStr [98; 111; 98]%N) [[]] legacy_ud)
  /\ spec_legacy_unicode ex_H (fun _ => 2%nat) (fun _ => 63%N) ex_cfg (ex_req (Some ex_legacy) 1011) = Some INone
  /\ spec_legacy_unicode ex_H (fun _ => 2%nat) (fun _ => 63%N) ex_cfg (ex_req (Some ex_cookie) 1001) = None.
Proof. vm_compute. repeat split. Qed.
