(* C14 -- part 8: toward removing the premise "no view body raises PredicateMismatch" entirely.
   WITHOUT any premise on the bodies: the first view body that runs in a lookup is the body of the view the lookup
   SELECTS (C03's call_view / the permissive variant), it runs on the unchanged attribute map, and nothing runs (and
   nothing changes) when nothing is selected.  Consequences: invoke_exception_view of the search-goes-on pipeline equals
   the plain one whenever no view applies, so "no view => the same object propagates, attributes restored" holds for
   the regenerated excview tween with NO premise on the bodies. *)
From Coq Require Import List NArith ZArith Bool Lia.
Import ListNotations.
Require Import Verif.Lib.Wire Verif.Gen.Facts_C03 Verif.Model.C03 Verif.Proofs.C03 Verif.Gen.Facts_C14 Verif.Model.C14
               Verif.Proofs.C14 Verif.Proofs.C14_b Verif.Proofs.C14_c Verif.Proofs.C14_d Verif.Proofs.C14_gen.

Section First.
Variables (P : params) (W : world).

(* the loops only append to the log *)
Lemma views_loop_prefix deny site ctx rq l : forall a evs,
  exists more, snd (fst (views_loop P W deny site ctx rq l a evs)) = evs ++ more.
Proof.
  induction l as [|v r IH]; intros a evs; cbn [views_loop].
  - exists []. simpl. rewrite app_nil_r. reflexivity.
  - destruct (qualifies rq v); [|apply IH].
    destruct (run_body P W true deny site (r_tag v) ctx a) as [[o ev] a'].
    destruct (is_pm W o).
    + destruct (IH a' (evs ++ ev)) as [more Hm]. exists (ev ++ more). rewrite Hm. rewrite app_assoc. reflexivity.
    + exists ev. reflexivity.
Qed.

Lemma comps_loop_prefix sec deny site ctx fpme rq l : forall pme a evs,
  exists more, snd (fst (comps_loop P W sec deny site ctx fpme rq l pme a evs)) = evs ++ more.
Proof.
  induction l as [|c r IH]; intros pme a evs.
  - exists []. simpl. rewrite app_nil_r. reflexivity.
  - assert (Hrun : forall t,
      exists more, snd (fst (let '(o, ev, a') := run_body P W sec deny site t ctx a in
                             match is_pm W o with
                             | Some p => comps_loop P W sec deny site ctx fpme rq r (Some p) a' (evs ++ ev)
                             | None => (Some o, evs ++ ev, a')
                             end)) = evs ++ more).
    { intros t. destruct (run_body P W sec deny site t ctx a) as [[o ev] a']. destruct (is_pm W o).
      - destruct (IH (Some n) a' (evs ++ ev)) as [more Hm]. exists (ev ++ more). rewrite Hm, app_assoc. reflexivity.
      - exists ev. reflexivity. }
    destruct c as [v|m]; cbn [comps_loop].
    + destruct (qualifies rq v || (negb sec && r_secured v && negb (p_perm_checks P))); [apply Hrun|apply IH].
    + destruct sec.
      * destruct (views_loop_prefix deny site ctx rq (map e_view (get_views m rq)) a evs) as [m1 H1].
        destruct (views_loop P W deny site ctx rq (map e_view (get_views m rq)) a evs) as [[[o|] evs'] a']; simpl in H1.
        -- exists m1. exact H1.
        -- destruct (IH (Some fpme) a' evs') as [m2 H2]. exists (m1 ++ m2). rewrite H2, H1, app_assoc. reflexivity.
      * destruct (find (qualifies rq) (map e_view (get_views m rq))); [apply Hrun|apply IH].
Qed.

(* [first_ok]: the first body that ran is the body of view [t], on the attribute map [a]; when its outcome is not a
   PredicateMismatch it is the whole result *)
Definition first_ok (sec deny : bool) (site ctx : N) (a : amap) (evs : list event) (t : N)
    (r : option outcome * list event * amap) : Prop :=
  let '(o, ev, a') := run_body P W sec deny site t ctx a in
  (exists rest, snd (fst r) = evs ++ ev ++ rest) /\ (is_pm W o = None -> r = (Some o, evs ++ ev, a')).

Lemma views_loop_first deny site ctx rq l : forall a evs,
  match find (qualifies rq) l with
  | Some v => first_ok true deny site ctx a evs (r_tag v) (views_loop P W deny site ctx rq l a evs)
  | None => views_loop P W deny site ctx rq l a evs = (None, evs, a)
  end.
Proof.
  induction l as [|v r IH]; intros a evs; cbn [views_loop find]; [reflexivity|].
  destruct (qualifies rq v); [|apply IH].
  unfold first_ok. destruct (run_body P W true deny site (r_tag v) ctx a) as [[o ev] a'].
  destruct (is_pm W o) eqn:Hpm.
  - split; [|discriminate].
    destruct (views_loop_prefix deny site ctx rq r a' (evs ++ ev)) as [more Hm]. exists more.
    rewrite Hm, app_assoc. reflexivity.
  - split; [exists []; simpl; rewrite app_nil_r; reflexivity|reflexivity].
Qed.

Theorem comps_loop_first (sec : bool) deny site ctx fpme rq l : forall b a evs,
  match (if sec then call_loop rq l b else call_loop_p P rq l b) with
  | Ran t => first_ok sec deny site ctx a evs t (comps_loop P W sec deny site ctx fpme rq l (pme_of b fpme) a evs)
  | NotFoundPme => comps_loop P W sec deny site ctx fpme rq l (pme_of b fpme) a evs = (Some (Raise fpme), evs, a)
  | NotFoundNone => comps_loop P W sec deny site ctx fpme rq l (pme_of b fpme) a evs = (None, evs, a)
  end.
Proof.
  induction l as [|c r IH]; intros b a evs.
  - simpl. destruct sec, b; reflexivity.
  - assert (Hrun : forall t,
      first_ok sec deny site ctx a evs t
        (let '(o, ev, a') := run_body P W sec deny site t ctx a in
         match is_pm W o with
         | Some p => comps_loop P W sec deny site ctx fpme rq r (Some p) a' (evs ++ ev)
         | None => (Some o, evs ++ ev, a')
         end)).
    { intros t. unfold first_ok. destruct (run_body P W sec deny site t ctx a) as [[o ev] a'].
      destruct (is_pm W o) eqn:Hpm.
      - split; [|discriminate].
        destruct (comps_loop_prefix sec deny site ctx fpme rq r (Some n) a' (evs ++ ev)) as [more Hm]. exists more.
        rewrite Hm, app_assoc. reflexivity.
      - split; [exists []; simpl; rewrite app_nil_r; reflexivity|reflexivity]. }
    destruct c as [v|m].
    + cbn [comps_loop].
      assert (Ecomp : (if sec then call_component rq (CView v) else call_component_p P rq (CView v))
                      = if qualifies rq v || (negb sec && r_secured v && negb (p_perm_checks P))
                        then Some (r_tag v) else None).
      { destruct sec; simpl; unfold call_reg.
        - rewrite orb_false_r. reflexivity.
        - destruct (r_secured v && negb (p_perm_checks P)); [rewrite orb_true_r; reflexivity|].
          rewrite orb_false_r. reflexivity. }
      destruct (qualifies rq v || (negb sec && r_secured v && negb (p_perm_checks P))).
      * assert (Hs : (if sec then call_loop rq (CView v :: r) b else call_loop_p P rq (CView v :: r) b) = Ran (r_tag v))
          by (destruct sec; simpl; simpl in Ecomp; rewrite Ecomp; reflexivity).
        rewrite Hs. apply Hrun.
      * assert (Hs : (if sec then call_loop rq (CView v :: r) b else call_loop_p P rq (CView v :: r) b)
                     = (if sec then call_loop rq r true else call_loop_p P rq r true))
          by (destruct sec; simpl; simpl in Ecomp; rewrite Ecomp; reflexivity).
        rewrite Hs. change (Some fpme) with (pme_of true fpme). apply IH.
    + cbn [comps_loop]. destruct sec.
      * simpl call_loop. simpl call_component. rewrite mv_call_find.
        pose proof (views_loop_first deny site ctx rq (map e_view (get_views m rq)) a evs) as Hv.
        destruct (find (qualifies rq) (map e_view (get_views m rq))) as [v|]; simpl.
        -- unfold first_ok in *. destruct (run_body P W true deny site (r_tag v) ctx a) as [[o ev] a'].
           destruct Hv as [[rest Hr] Hn].
           destruct (views_loop P W deny site ctx rq (map e_view (get_views m rq)) a evs) as [[[o'|] evs'] a''] eqn:Ev;
             simpl in Hr.
           ++ split; [exists rest; exact Hr|exact Hn].
           ++ split.
              ** destruct (comps_loop_prefix true deny site ctx fpme rq r (Some fpme) a'' evs') as [more Hm].
                 exists (rest ++ more). rewrite Hm, Hr, <- !app_assoc. reflexivity.
              ** intros Hpm. specialize (Hn Hpm). discriminate Hn.
        -- rewrite Hv. change (Some fpme) with (pme_of true fpme). apply (IH true a evs).
      * simpl call_loop_p. simpl call_component_p. rewrite mv_call_find.
        destruct (find (qualifies rq) (map e_view (get_views m rq))) as [v|]; simpl.
        -- apply Hrun.
        -- change (Some fpme) with (pme_of true fpme). apply (IH true a evs).
Qed.

(* invoke_exception_view: when no exception view applies, the search-goes-on variant IS the plain one *)
Theorem iev_pm_not_found_eq ri site rr sec e st :
  not_found (call_view_sec P (w_reg W) sec exc_classifier_id (exc_request P W ri e)) ->
  iev_pm P W ri site rr sec e st = iev P W ri site rr sec e st.
Proof.
  intros Hnf. unfold iev_pm, iev.
  apply f_equal with (f := fun (x : (option outcome * list event) * amap) =>
     let '((res, evs), attrs') := x in
     match res with
     | Some (Raise e2) => (Raise (if rr && isa W (p_iev_catches P) e2 then e else e2), mkSt attrs' (st_log st ++ evs))
     | None => (Raise (if rr then e else fresh_of_class (p_none_raises P) site), mkSt attrs' (st_log st ++ evs))
     | Some (Resp r) => (Resp r, mkSt (set_all (p_set_after P) e attrs') (st_log st ++ evs))
     end).
  apply hide_attrs_ext. intros a. cbv zeta.
  pose proof (comps_loop_first sec (ri_deny ri) site e (fresh_pme site) (exc_request P W ri e)
                (find_views (w_reg W) exc_classifier_id (q_req_sro (exc_request P W ri e))
                   (q_ctx_sro (exc_request P W ri e)) (q_view_name (exc_request P W ri e)))
                false (set_all (p_set_in P) e a) []) as Hf.
  change (pme_of false (fresh_pme site)) with (@None N) in Hf.
  unfold call_view_sec, call_view in Hnf |- *.
  destruct sec;
    match type of Hf with match ?c with Ran _ => _ | NotFoundPme => _ | NotFoundNone => _ end =>
      destruct c as [t| |] end;
    try (destruct Hnf as [Hnf|Hnf]; discriminate Hnf); rewrite Hf; reflexivity.
Qed.

(* ... and when a view IS selected, the first event of the rendering is that view's body on the prepared attributes *)
Theorem iev_pm_first_body ri site rr sec e st t :
  call_view_sec P (w_reg W) sec exc_classifier_id (exc_request P W ri e) = Ran t ->
  let a_in := set_all (p_set_in P) e (fst (hide_pop (p_hidden P) (st_attrs st) [])) in
  exists rest, st_log (snd (iev_pm P W ri site rr sec e st))
               = st_log st ++ snd (fst (run_body P W sec (ri_deny ri) site t e a_in)) ++ rest.
Proof.
  intros Hsel a_in. subst a_in. unfold iev_pm, hide_attrs.
  destruct (hide_pop (p_hidden P) (st_attrs st) []) as [m1 s]. simpl fst.
  pose proof (comps_loop_first sec (ri_deny ri) site e (fresh_pme site) (exc_request P W ri e)
                (find_views (w_reg W) exc_classifier_id (q_req_sro (exc_request P W ri e))
                   (q_ctx_sro (exc_request P W ri e)) (q_view_name (exc_request P W ri e)))
                false (set_all (p_set_in P) e m1) []) as Hf.
  change (pme_of false (fresh_pme site)) with (@None N) in Hf.
  unfold call_view_sec, call_view in Hsel.
  assert (Hs : (if sec then call_loop (exc_request P W ri e)
                               (find_views (w_reg W) exc_classifier_id (q_req_sro (exc_request P W ri e))
                                  (q_ctx_sro (exc_request P W ri e)) (q_view_name (exc_request P W ri e))) false
                else call_loop_p P (exc_request P W ri e)
                               (find_views (w_reg W) exc_classifier_id (q_req_sro (exc_request P W ri e))
                                  (q_ctx_sro (exc_request P W ri e)) (q_view_name (exc_request P W ri e))) false) = Ran t)
    by (destruct sec; exact Hsel).
  rewrite Hs in Hf. unfold first_ok in Hf.
  destruct (run_body P W sec (ri_deny ri) site t e (set_all (p_set_in P) e m1)) as [[o ev] a'].
  destruct Hf as [[rest Hr] _].
  destruct (comps_loop _ _ _ _ _ _ _ _ _ _ _ _) as [[res evs] a2]. simpl in Hr. subst evs.
  exists rest. simpl. destruct res as [[r|e2]|]; reflexivity.
Qed.

End First.

(* "no exception view applies => the same object propagates, nothing ran, the attributes are restored", for the
   REGENERATED excview tween, with NO premise on the view bodies (C14_gen_no_view_propagates_same_object needs no_pm) *)
Theorem gen_no_view_propagates_full b W ri e st :
  isa W cn_HTTPNotFound (fresh_pme site_tween) = true -> isa W cn_HTTPNotFound (fresh_nf site_tween) = true ->
  not_found (call_view (w_reg W) exc_classifier_id (exc_request (spec_params_b b) W ri e)) ->
  let r := gen_excview_tween (spec_params_b b) W ri site_tween (Raise e) st in
  fst r = Raise e /\ st_log (snd r) = st_log st
  /\ forall k, In k (p_hidden (spec_params_b b)) -> aget k (st_attrs (snd r)) = aget k (st_attrs st).
Proof.
  intros F1 F2 Hnf r. subst r. rewrite gen_excview_tween_is_model.
  assert (E : excview_tween_g (spec_params_b b) W (fun _ => iev_pm (spec_params_b b) W ri) (Raise e) st
              = excview_tween (spec_params_b b) W ri (Raise e) st).
  { unfold excview_tween_g, excview_tween. destruct (isa W _ e); [|reflexivity].
    rewrite iev_pm_not_found_eq; [reflexivity|exact Hnf]. }
  rewrite E. apply (no_view_propagates (spec_params_b b) W ri e st (spec_hidden_nodup b) eq_refl);
    [split; assumption|exact Hnf].
Qed.

(* non-vacuity, in a world that DOES contain a view body raising PredicateMismatch (pm_W of Proofs/C14_d.v, where the
   search goes on): an exception object nobody registered a view for *)
Example gen_no_view_propagates_full_nonvacuous :
  not_found (call_view (w_reg pm_W) exc_classifier_id (exc_request spec_params pm_W pm_ri 99%N))
  /\ exists t e, b_act (body_of (w_bodies pm_W) t) = ARaise e /\ isa pm_W cn_PredicateMismatch e = true.
Proof.
  split; [right; vm_compute; reflexivity|].
  pose proof search_goes_on as _.
  unfold pm_W, pm_decls. cbn [w_bodies].
  match goal with |- exists t e, b_act (body_of ?bs t) = ARaise e /\ _ =>
    let l := eval vm_compute in
      (filter (fun tb => match b_act (snd tb) with
                         | ARaise e => isa pm_W cn_PredicateMismatch e | _ => false end) bs) in
    match l with
    | (?t, ?bd) :: _ => exists t; match eval vm_compute in (b_act bd) with ARaise ?e => exists e end
    end
  end.
  split; vm_compute; reflexivity.
Qed.
