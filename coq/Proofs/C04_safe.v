(* C04 proofs, part 4: a commit never stops in Crash (list.remove of an absent
   action) nor runs out of fuel, re-entrant programs included, when the action
   identities of the whole forest are distinct. *)
From Coq Require Import List NArith ZArith Bool Lia Permutation.
Import ListNotations.
Require Import Verif.Lib.Wire Verif.Lib.C04Sort Verif.Gen.Facts_C04 Verif.Model.C04.

(* ---------- generic list facts *)
Lemma NoDup_app_iff {A} (a b : list A) :
  NoDup (a ++ b) <-> NoDup a /\ NoDup b /\ (forall x, In x a -> ~ In x b).
Proof.
  induction a as [|x a IH]; simpl.
  - split; [intros H; repeat split; [constructor|exact H|intros ? []]|tauto].
  - split.
    + intros H. inversion H as [|? ? Hn Hd]; subst. apply IH in Hd. destruct Hd as [Ha [Hb Hab]].
      repeat split; [constructor; [intros Hx; apply Hn; apply in_or_app; left; exact Hx|exact Ha]|exact Hb|].
      intros y [<-|Hy]; [intros Hb'; apply Hn; apply in_or_app; right; exact Hb'|apply Hab; exact Hy].
    + intros [Ha [Hb Hab]]. inversion Ha as [|? ? Hn Hd]; subst. constructor.
      * intros Hx. apply in_app_or in Hx. destruct Hx as [Hx|Hx]; [contradiction|]. apply (Hab x (or_introl eq_refl) Hx).
      * apply IH. repeat split; [exact Hd|exact Hb|intros y Hy; apply Hab; right; exact Hy].
Qed.

Lemma NoDup_map_filter {A B} (f : A -> B) (p : A -> bool) l : NoDup (map f l) -> NoDup (map f (filter p l)).
Proof.
  induction l as [|x r IH]; simpl; intros H; [constructor|]. inversion H as [|? ? Hn Hd]; subst.
  destruct (p x); simpl; [|apply IH; exact Hd]. constructor; [|apply IH; exact Hd].
  intros Hx. apply Hn. apply in_map_iff in Hx. destruct Hx as [y [E Hy]]. apply filter_In in Hy.
  apply in_map_iff. exists y. tauto.
Qed.

Lemma NoDup_map_inj_in {A B} (f : A -> B) l a b :
  NoDup (map f l) -> In a l -> In b l -> f a = f b -> a = b.
Proof.
  induction l as [|x r IH]; simpl; intros H Ha Hb E; [destruct Ha|]. inversion H as [|? ? Hn Hd]; subst.
  destruct Ha as [->|Ha], Hb as [->|Hb]; try reflexivity.
  - exfalso. apply Hn. rewrite E. apply in_map. exact Hb.
  - exfalso. apply Hn. rewrite <- E. apply in_map. exact Ha.
  - apply IH; assumption.
Qed.

Lemma NoDup_replace_front {A} (o a r : list A) :
  NoDup (a ++ r) -> NoDup o -> incl o a -> NoDup (o ++ r).
Proof.
  intros H Ho Hi. apply NoDup_app_iff in H. destruct H as [_ [Hr Har]].
  apply NoDup_app_iff. repeat split; [exact Ho|exact Hr|]. intros x Hx. apply Har. apply Hi. exact Hx.
Qed.

(* ---------- signatures: what the bookkeeping depends on *)
Definition sig (b : action) : N * list action := (aid b, aadds b).
Definition sigs (l : list action) := map sig l.
Definition fa1 (s : N * list action) : list N := fst s :: forest_aids (snd s).
Definition fas (ss : list (N * list action)) : list N := flat_map fa1 ss.
Definition sz1 (s : N * list action) : nat := S (forest_size (snd s)).
Definition szs (ss : list (N * list action)) : nat := fold_right (fun s n => sz1 s + n)%nat O ss.
Definition isig (x : ainfo) := sig (snd x).
Definition aidx (x : ainfo) : N := aid (snd x).
Definition gitems (g : gen) : list ainfo := g_out g ++ concat (map snd (g_groups g)).

Lemma all_aids_eq a : all_aids a = aid a :: forest_aids (aadds a).
Proof.
  destruct a as [i d p o adds]. reflexivity.
Qed.

Lemma asize_eq a : asize a = S (forest_size (aadds a)).
Proof.
  destruct a as [i d p o adds]. reflexivity.
Qed.

Lemma forest_aids_sigs l : forest_aids l = fas (sigs l).
Proof. unfold forest_aids, fas, sigs. induction l as [|a r IH]; simpl; [reflexivity|]. rewrite all_aids_eq, IH. reflexivity. Qed.

Lemma forest_size_sigs l : forest_size l = szs (sigs l).
Proof. unfold forest_size, szs, sigs. induction l as [|a r IH]; simpl; [reflexivity|]. rewrite asize_eq, IH. reflexivity. Qed.

Lemma fas_app a b : fas (a ++ b) = fas a ++ fas b.
Proof. apply flat_map_app. Qed.
Lemma szs_app a b : szs (a ++ b) = (szs a + szs b)%nat.
Proof. induction a as [|x r IH]; [reflexivity|]. change (szs ((x :: r) ++ b)) with (sz1 x + szs (r ++ b))%nat.
  change (szs (x :: r)) with (sz1 x + szs r)%nat. rewrite IH. lia. Qed.

Lemma fas_perm a b : Permutation a b -> Permutation (fas a) (fas b).
Proof. apply Permutation_flat_map. Qed.
Lemma szs_perm a b : Permutation a b -> szs a = szs b.
Proof. induction 1; simpl; lia. Qed.

Lemma In_fst_fas s ss : In s ss -> In (fst s) (fas ss).
Proof. intros H. unfold fas. apply in_flat_map. exists s. split; [exact H|left; reflexivity]. Qed.

Lemma NoDup_fas_fst ss : NoDup (fas ss) -> NoDup (map fst ss).
Proof.
  induction ss as [|s r IH]; simpl; intros H; [constructor|].
  inversion H as [|? ? Hn Hd]; subst. apply NoDup_app_iff in Hd. destruct Hd as [_ [Hr _]].
  constructor; [|apply IH; exact Hr]. intros Hx. apply Hn. apply in_or_app. right.
  apply in_map_iff in Hx. destruct Hx as [s' [E Hs']]. rewrite <- E. apply In_fst_fas. exact Hs'.
Qed.

Lemma sigs_mark_forced id l : sigs (mark_forced id l) = sigs l.
Proof.
  unfold sigs, mark_forced. rewrite map_map. apply map_ext. intros b. destruct (N.eqb (aid b) id); reflexivity.
Qed.

Lemma sigs_mark_group grp : forall l, sigs (mark_group grp l) = sigs l.
Proof.
  unfold mark_group. induction grp as [|x r IH]; intros l; simpl; [reflexivity|].
  rewrite IH. apply sigs_mark_forced.
Qed.

(* ---------- list.remove on the signatures *)
Lemma remove_aid_perm id ad l :
  In (id, ad) (sigs l) -> NoDup (map fst (sigs l)) ->
  exists l', remove_aid id l = Some l' /\ Permutation (sigs l) ((id, ad) :: sigs l').
Proof.
  induction l as [|b r IH]; simpl; intros Hin Hnd; [destruct Hin|].
  inversion Hnd as [|? ? Hn Hd]; subst.
  destruct Hin as [E|Hin].
  - assert (aid b = id) as Hb by (unfold sig in E; congruence). rewrite Hb, N.eqb_refl.
    exists r. split; [reflexivity|]. rewrite E. reflexivity.
  - destruct (N.eqb (aid b) id) eqn:Eb.
    + exfalso. apply N.eqb_eq in Eb. apply Hn. simpl. rewrite Eb.
      change id with (fst (id, ad)). apply in_map. exact Hin.
    + destruct (IH Hin Hd) as [l' [Hr Hp]]. rewrite Hr. exists (b :: l'). split; [reflexivity|].
      simpl. rewrite Hp. apply perm_swap.
Qed.

Lemma remove_all_cons x ds l :
  remove_all (x :: ds) l = match remove_aid (aid (snd x)) l with Some l1 => remove_all ds l1 | None => None end.
Proof.
  unfold remove_all. simpl. destruct (remove_aid (aid (snd x)) l); [reflexivity|].
  induction ds as [|y r IH]; simpl; [reflexivity|exact IH].
Qed.

Lemma remove_all_perm : forall ds l,
  NoDup (map aidx ds) -> incl (map isig ds) (sigs l) -> NoDup (map fst (sigs l)) ->
  exists l', remove_all ds l = Some l' /\ Permutation (sigs l) (map isig ds ++ sigs l').
Proof.
  induction ds as [|x ds IH]; intros l Hnd Hin Hl.
  - exists l. split; reflexivity.
  - rewrite remove_all_cons. inversion Hnd as [|? ? Hn Hd]; subst.
    assert (In (isig x) (sigs l)) as Hx by (apply Hin; left; reflexivity).
    destruct (remove_aid_perm (aid (snd x)) (aadds (snd x)) l Hx Hl) as [l1 [Hr Hp]]. rewrite Hr.
    assert (Hl1 : NoDup (map fst (sigs l1))).
    { apply (Permutation_map fst) in Hp. apply (Permutation_NoDup Hp) in Hl. simpl in Hl. inversion Hl; assumption. }
    assert (Hin1 : incl (map isig ds) (sigs l1)).
    { intros s Hs. assert (In s (sigs l)) as Hsl by (apply Hin; right; exact Hs).
      apply (Permutation_in _ Hp) in Hsl. destruct Hsl as [E|Hsl]; [|exact Hsl].
      exfalso. apply Hn. apply in_map_iff in Hs. destruct Hs as [y [Ey Hy]]. apply in_map_iff. exists y.
      split; [|exact Hy]. unfold aidx. subst s. unfold isig, sig in E. congruence. }
    destruct (IH l1 Hd Hin1 Hl1) as [l' [Hr' Hp']]. exists l'. split; [exact Hr'|].
    rewrite Hp. simpl. constructor. exact Hp'.
Qed.

(* ---------- the invariant of a suspended generator *)
Definition J (rem : list action) (items : list ainfo) : Prop :=
  NoDup (fas (sigs rem)) /\ NoDup (map aidx items) /\ incl (map isig items) (sigs rem).

Definition Post (rem0 : list action) (a : action) (st2 : cstate) (g2 : gen) : Prop :=
  NoDup (fas (sigs (remaining st2)) ++ forest_aids (aadds a)) /\
  J (remaining st2) (gitems g2) /\
  (szs (sigs (remaining st2)) + forest_size (aadds a) < szs (sigs rem0))%nat.

Lemma yield_first_safe st x rest gs evs :
  J (remaining st) ((x :: rest) ++ concat (map snd gs)) ->
  match yield_first st x rest gs evs with
  | SStop o _ _ => o <> Crash
  | SYield a st2 g2 _ => a = snd x /\ Post (remaining st) a st2 g2
  end.
Proof.
  intros [H1 [H2 H3]]. unfold yield_first.
  assert (Hx : In (isig x) (sigs (remaining st))) by (apply H3; left; reflexivity).
  destruct (remove_aid_perm _ _ _ Hx (NoDup_fas_fst _ H1)) as [rem [Hr Hp]]. rewrite Hr.
  split; [reflexivity|]. unfold Post. cbn [remaining gitems g_out g_groups].
  pose proof (fas_perm _ _ Hp) as Hfp. simpl in Hfp.
  pose proof (Permutation_NoDup Hfp H1) as Hnd. inversion Hnd as [|? ? Hn Hd]; subst.
  split; [|split].
  - apply NoDup_app_iff in Hd. destruct Hd as [Ha [Hr' Har]].
    apply NoDup_app_iff. repeat split; [exact Hr'|exact Ha|]. intros y Hy Hy'. apply (Har y Hy' Hy).
  - split; [apply NoDup_app_iff in Hd; tauto|]. simpl in H2. inversion H2 as [|? ? Hn2 Hd2]; subst.
    split; [exact Hd2|]. intros s Hs. assert (In s (sigs (remaining st))) as Hsl by (apply H3; right; exact Hs).
    apply (Permutation_in _ Hp) in Hsl. destruct Hsl as [E|Hsl]; [|exact Hsl].
    exfalso. apply Hn2. apply in_map_iff in Hs. destruct Hs as [y [Ey Hy]]. apply in_map_iff. exists y.
    split; [|exact Hy]. unfold aidx. subst s. unfold isig, sig in E. congruence.
  - rewrite (szs_perm _ _ Hp). simpl. unfold sz1. simpl. lia.
Qed.

(* ---------- one order group *)
Lemma isig_forced_group grp : map isig (forced_group grp) = map isig grp.
Proof. unfold forced_group. rewrite map_map. apply map_ext. intros x. reflexivity. Qed.
Lemma aidx_forced_group grp : map aidx (forced_group grp) = map aidx grp.
Proof. unfold forced_group. rewrite map_map. apply map_ext. intros x. reflexivity. Qed.

Lemma uadd_perm d x u : Permutation (concat (map snd (uadd d x u))) (concat (map snd u) ++ [x]).
Proof.
  induction u as [|[d' l] r IH]; simpl; [reflexivity|].
  destruct (N.eqb d d'); simpl.
  - rewrite <- !app_assoc. apply Permutation_app_head. apply Permutation_app_comm.
  - rewrite IH. rewrite app_assoc. reflexivity.
Qed.

Definition someD (x : ainfo) : bool := match D (snd x) with Some _ => true | None => false end.

Lemma build_unique_perm fg : Permutation (concat (map snd (build_unique fg))) (filter someD fg).
Proof.
  unfold build_unique.
  assert (G : forall l u, Permutation
            (concat (map snd (fold_left (fun u x => match D (snd x) with Some d => uadd d x u | None => u end) l u)))
            (concat (map snd u) ++ filter someD l)).
  { induction l as [|x r IH]; intros u; simpl; [rewrite app_nil_r; reflexivity|].
    rewrite IH. unfold someD at 2. destruct (D (snd x)) as [d|].
    - rewrite uadd_perm. rewrite <- app_assoc. reflexivity.
    - reflexivity. }
  apply (G fg []).
Qed.

Lemma sort_unique_lists_perm u : Permutation (concat (map snd (sort_unique_lists u))) (concat (map snd u)).
Proof.
  unfold sort_unique_lists. induction u as [|[d l] r IH]; simpl; [reflexivity|].
  apply Permutation_app; [apply sort_perm|exact IH].
Qed.

Lemma detect1_firsts_sub cfg res d l :
  incl (fst (detect1 cfg res d l)) l /\ NoDup (map aidx (fst (detect1 cfg res d l))).
Proof.
  unfold detect1. destruct l as [|first rest]; [split; [intros ? []|constructor]|].
  assert (T : forall K, incl (fst (@nil ainfo, K : list (N * list N))) (first :: rest) /\ NoDup (map aidx (fst (@nil ainfo, K)))).
  { intros K. split; [intros ? []|constructor]. }
  assert (F : forall K, incl (fst ([first], K : list (N * list N))) (first :: rest) /\ NoDup (map aidx (fst ([first], K)))).
  { intros K. split; [intros ? [<-|[]]; left; reflexivity|repeat constructor; intros []]. }
  destruct (lookup d res) as [[i pa]|].
  - destruct (prev_all cfg).
    + destruct (offenders pa (first :: rest)); apply T.
    + destruct (conflicting (apath pa) (apath (snd first))); destruct (offenders (snd first) rest); apply T.
  - destruct (offenders (snd first) rest); apply F.
Qed.

Lemma detect_firsts_sub cfg res us :
  NoDup (map aidx (concat (map snd us))) ->
  incl (fst (detect cfg res us)) (concat (map snd us)) /\ NoDup (map aidx (fst (detect cfg res us))).
Proof.
  induction us as [|[d l] r IH]; simpl; intros Hnd; [split; [intros ? []|constructor]|].
  destruct (detect1_firsts_sub cfg res d l) as [S1 N1].
  rewrite map_app in Hnd. pose proof Hnd as Hnd0. apply NoDup_app_iff in Hnd. destruct Hnd as [Hl [Hr Hlr]].
  destruct (IH Hr) as [S2 N2].
  destruct (detect1 cfg res d l) as [o1 c1]. destruct (detect cfg res r) as [o2 c2]. simpl in *.
  split.
  - intros y Hy. apply in_app_or in Hy. apply in_or_app. destruct Hy as [Hy|Hy]; [left; apply S1; exact Hy|right; apply S2; exact Hy].
  - rewrite map_app. apply NoDup_app_iff. repeat split; [exact N1|exact N2|].
    intros z Hz Hz'. apply (Hlr z).
    + apply in_map_iff in Hz. destruct Hz as [y [E Hy]]. apply in_map_iff. exists y. split; [exact E|apply S1; exact Hy].
    + apply in_map_iff in Hz'. destruct Hz' as [y [E Hy]]. apply in_map_iff. exists y. split; [exact E|apply S2; exact Hy].
Qed.

Lemma in_output_false output y :
  in_output output y = false -> forall o, In o output -> aidx o <> aidx y.
Proof.
  unfold in_output. intros H o Ho E. assert (existsb (fun y0 => N.eqb (aid (snd y0)) (aid (snd y))) output = true) as T.
  { apply existsb_exists. exists o. split; [exact Ho|]. apply N.eqb_eq. exact E. }
  congruence.
Qed.

Lemma isig_aidx x y : isig x = isig y -> aidx x = aidx y.
Proof. unfold isig, sig, aidx. congruence. Qed.

Lemma group_safe cfg res grp rest rem :
  J rem (grp ++ rest) ->
  let fg := forced_group grp in
  let us := sort_unique_lists (build_unique fg) in
  let output := none_output fg ++ fst (detect cfg res us) in
  let discards := filter (fun x => negb (in_output output x)) (concat (map snd us)) in
  let rem1 := mark_group grp rem in
  exists rem2, (if drop_discarded cfg then remove_all discards rem1 else Some rem1) = Some rem2 /\
               J rem2 (sort (leb_by output_key) output ++ rest) /\ (szs (sigs rem2) <= szs (sigs rem))%nat.
Proof.
  intros [H1 [H2 H3]] fg us output discards rem1.
  rewrite map_app in H2. pose proof H2 as H2'. apply NoDup_app_iff in H2'. destruct H2' as [Ng [Nr Ngr]].
  assert (Nfg : NoDup (map aidx fg)) by (unfold fg; rewrite aidx_forced_group; exact Ng).
  assert (Pus : Permutation (concat (map snd us)) (filter someD fg)).
  { unfold us. rewrite sort_unique_lists_perm. apply build_unique_perm. }
  assert (Nus : NoDup (map aidx (concat (map snd us)))).
  { eapply Permutation_NoDup; [apply Permutation_map; symmetry; exact Pus|]. apply NoDup_map_filter. exact Nfg. }
  destruct (detect_firsts_sub cfg res us Nus) as [Sf Nf].
  assert (Ius : forall y, In y (concat (map snd us)) -> In y fg /\ someD y = true).
  { intros y Hy. apply (Permutation_in _ Pus) in Hy. apply filter_In in Hy. exact Hy. }
  assert (Iout : forall y, In y output -> In y fg).
  { intros y Hy. unfold output in Hy. apply in_app_or in Hy. destruct Hy as [Hy|Hy].
    - unfold none_output in Hy. apply filter_In in Hy. tauto.
    - apply Ius. apply Sf. exact Hy. }
  assert (Nout : NoDup (map aidx output)).
  { unfold output. rewrite map_app. apply NoDup_app_iff. split; [|split].
    - unfold none_output. apply NoDup_map_filter. exact Nfg.
    - exact Nf.
    - intros z Hz Hz'. apply in_map_iff in Hz. destruct Hz as [y1 [E1 Hy1]]. apply in_map_iff in Hz'. destruct Hz' as [y2 [E2 Hy2]].
      unfold none_output in Hy1. apply filter_In in Hy1. destruct Hy1 as [Hy1 HD1].
      destruct (Ius y2 (Sf y2 Hy2)) as [Hy2' HD2].
      assert (y1 = y2) by (apply (NoDup_map_inj_in aidx fg); [exact Nfg|exact Hy1|exact Hy2'|congruence]). subst y2.
      unfold someD in HD2. destruct (D (snd y1)); discriminate. }
  assert (Idis : forall y, In y discards -> In y fg /\ forall o, In o output -> aidx o <> aidx y).
  { intros y Hy. unfold discards in Hy. apply filter_In in Hy. destruct Hy as [Hy Hb]. split; [apply Ius; exact Hy|].
    apply in_output_false. apply negb_true_iff. exact Hb. }
  assert (Ndis : NoDup (map aidx discards)) by (unfold discards; apply NoDup_map_filter; exact Nus).
  assert (Erem : sigs rem1 = sigs rem) by apply sigs_mark_group.
  assert (Ifg : forall y, In y fg -> In (isig y) (sigs rem) /\ In (aidx y) (map aidx grp)).
  { intros y Hy. split.
    - apply H3. rewrite map_app. apply in_or_app. left. rewrite <- isig_forced_group. apply in_map. exact Hy.
    - rewrite <- aidx_forced_group. apply in_map. exact Hy. }
  (* the part of J that does not depend on which actions were removed *)
  assert (Nitems : NoDup (map aidx (sort (leb_by output_key) output ++ rest))).
  { rewrite map_app. apply (NoDup_replace_front _ (map aidx grp)); [exact H2| |].
    - eapply Permutation_NoDup; [apply Permutation_map; symmetry; apply sort_perm|exact Nout].
    - intros z Hz. apply in_map_iff in Hz. destruct Hz as [y [<- Hy]]. apply sort_In in Hy. apply Ifg. apply Iout. exact Hy. }
  assert (Srv : forall rem2, Permutation (sigs rem1) (map isig discards ++ sigs rem2) ->
                incl (map isig (sort (leb_by output_key) output ++ rest)) (sigs rem2)).
  { intros rem2 Hp s Hs. apply in_map_iff in Hs. destruct Hs as [y [<- Hy]].
    assert (In (isig y) (sigs rem1)) as Hin.
    { rewrite Erem. apply in_app_or in Hy. destruct Hy as [Hy|Hy].
      - apply sort_In in Hy. apply Ifg. apply Iout. exact Hy.
      - apply H3. rewrite map_app. apply in_or_app. right. apply in_map. exact Hy. }
    apply (Permutation_in _ Hp) in Hin. apply in_app_or in Hin. destruct Hin as [Hin|Hin]; [|exact Hin].
    exfalso. apply in_map_iff in Hin. destruct Hin as [y' [E Hy']]. apply isig_aidx in E.
    destruct (Idis y' Hy') as [Hfg' Hno]. apply in_app_or in Hy. destruct Hy as [Hy|Hy].
    + apply sort_In in Hy. apply (Hno y Hy). congruence.
    + apply (Ngr (aidx y')); [apply Ifg; exact Hfg'|]. rewrite E. apply in_map. exact Hy. }
  destruct (drop_discarded cfg).
  - assert (Hin : incl (map isig discards) (sigs rem1)).
    { intros s Hs. apply in_map_iff in Hs. destruct Hs as [y [<- Hy]]. rewrite Erem. apply Ifg. apply Idis. exact Hy. }
    assert (Hnd1 : NoDup (map fst (sigs rem1))) by (rewrite Erem; apply NoDup_fas_fst; exact H1).
    destruct (remove_all_perm discards rem1 Ndis Hin Hnd1) as [rem2 [Hr Hp]].
    exists rem2. split; [exact Hr|]. split; [split; [|split]|].
    + pose proof (fas_perm _ _ Hp) as Hfp. rewrite Erem, fas_app in Hfp.
      apply (Permutation_NoDup Hfp) in H1. apply NoDup_app_iff in H1. tauto.
    + exact Nitems.
    + apply Srv. exact Hp.
    + rewrite <- Erem, (szs_perm _ _ Hp), szs_app. lia.
  - exists rem1. split; [reflexivity|]. split; [split; [|split]|].
    + rewrite Erem. exact H1.
    + exact Nitems.
    + rewrite Erem. intros s Hs. apply in_map_iff in Hs. destruct Hs as [y [<- Hy]].
      apply in_app_or in Hy. destruct Hy as [Hy|Hy].
      * apply sort_In in Hy. apply Ifg. apply Iout. exact Hy.
      * apply H3. rewrite map_app. apply in_or_app. right. apply in_map. exact Hy.
    + rewrite Erem. lia.
Qed.

(* ---------- the generator never crashes; a yield strictly shrinks the measure *)
Lemma next_group_safe cfg : forall gs st evs,
  J (remaining st) (concat (map snd gs)) ->
  match next_group cfg st gs evs with
  | SStop o _ _ => o <> Crash
  | SYield a st2 g2 _ => Post (remaining st) a st2 g2
  end.
Proof.
  induction gs as [|[order grp] gs IH]; intros st evs HJ.
  - simpl. discriminate.
  - cbn [next_group]. destruct (late (min_order st) order); [discriminate|].
    simpl map in HJ. simpl concat in HJ.
    pose proof (group_safe cfg (resolved st) grp (concat (map snd gs)) (remaining st) HJ) as HG. cbv zeta in HG.
    destruct (detect cfg (resolved st) (sort_unique_lists (build_unique (forced_group grp)))) as [firsts K].
    cbn [fst] in HG. destruct K as [|k K']; [|discriminate].
    destruct HG as [rem2 [Hr [HJ2 Hsz]]]. rewrite Hr.
    set (st2 := {| resolved := resolved st; remaining := rem2; min_order := min_order st; start := start st |}).
    destruct (sort (leb_by output_key) (none_output (forced_group grp) ++ firsts)) as [|x rest].
    + specialize (IH st2 (evs ++ force_events grp) HJ2).
      destruct (next_group cfg st2 gs (evs ++ force_events grp)) as [a st3 g3 e|o e st3]; [|exact IH].
      destruct IH as [P1 [P2 P3]]. split; [exact P1|]. split; [exact P2|]. cbn [st2 remaining] in P3. lia.
    + pose proof (yield_first_safe st2 x rest gs (evs ++ force_events grp) HJ2) as HY.
      destruct (yield_first st2 x rest gs (evs ++ force_events grp)) as [a st3 g3 e|o e st3]; [|exact HY].
      destruct HY as [_ [P1 [P2 P3]]]. split; [exact P1|]. split; [exact P2|]. cbn [st2 remaining] in P3. lia.
Qed.

Lemma gen_next_safe cfg st g :
  J (remaining st) (gitems g) ->
  match gen_next cfg st g with
  | SStop o _ _ => o <> Crash
  | SYield a st2 g2 _ => Post (remaining st) a st2 g2
  end.
Proof.
  intros HJ. unfold gen_next. destruct g as [out gs]. unfold gitems in HJ. cbn [g_out g_groups] in *.
  destruct out as [|x rest].
  - apply next_group_safe. exact HJ.
  - pose proof (yield_first_safe st x rest gs [] HJ) as HY.
    destruct (yield_first st x rest gs []) as [a st3 g3 e|o e st3]; [|exact HY]. tauto.
Qed.

Lemma aidx_enumerate l : forall s, map aidx (enumerate s l) = map aid l.
Proof. induction l as [|a r IH]; intros s; simpl; [reflexivity|]. rewrite IH. reflexivity. Qed.
Lemma isig_enumerate l : forall s, map isig (enumerate s l) = sigs l.
Proof. induction l as [|a r IH]; intros s; simpl; [reflexivity|]. rewrite IH. reflexivity. Qed.

Lemma restart_J st new :
  NoDup (fas (sigs (remaining st)) ++ forest_aids new) ->
  J (remaining (fst (restart st new))) (gitems (snd (restart st new))).
Proof.
  intros H. unfold restart, gitems. cbn [fst snd remaining g_out g_groups app]. rewrite groupby_concat.
  assert (HF : NoDup (fas (sigs (remaining st ++ new)))).
  { unfold sigs. rewrite map_app. fold (sigs (remaining st)) (sigs new). rewrite fas_app. rewrite (forest_aids_sigs new) in H. exact H. }
  split; [exact HF|]. split.
  - eapply Permutation_NoDup; [apply Permutation_map; symmetry; apply sort_perm|].
    rewrite aidx_enumerate. replace (map aid (remaining st ++ new)) with (map fst (sigs (remaining st ++ new))).
    + apply NoDup_fas_fst. exact HF.
    + unfold sigs. rewrite map_map. reflexivity.
  - intros s Hs. apply in_map_iff in Hs. destruct Hs as [y [<- Hy]]. apply sort_In in Hy.
    rewrite <- (isig_enumerate _ (start st)). apply in_map. exact Hy.
Qed.

Lemma next_group_no_fuel cfg : forall gs st evs o e st',
  next_group cfg st gs evs = SStop o e st' -> o <> OutOfFuel.
Proof.
  induction gs as [|[order grp] gs IH]; intros st evs o e st' H.
  - simpl in H. inversion H. discriminate.
  - cbn [next_group] in H. destruct (late (min_order st) order); [inversion H; discriminate|].
    destruct (detect cfg (resolved st) (sort_unique_lists (build_unique (forced_group grp)))) as [firsts K].
    destruct K; [|inversion H; discriminate].
    match type of H with context [match ?X with Some _ => _ | None => _ end] => destruct X as [rem2|]; [|inversion H; discriminate] end.
    destruct (sort (leb_by output_key) (none_output (forced_group grp) ++ firsts)) as [|x rest].
    + apply IH in H. exact H.
    + unfold yield_first in H. destruct (remove_aid (aid (snd x)) _); inversion H. discriminate.
Qed.

Lemma gen_next_no_fuel cfg st g o e st' : gen_next cfg st g = SStop o e st' -> o <> OutOfFuel.
Proof.
  unfold gen_next. destruct (g_out g) as [|x rest].
  - apply next_group_no_fuel.
  - unfold yield_first. destruct (remove_aid (aid (snd x)) (remaining st)); intros H; inversion H. discriminate.
Qed.

Lemma exec_safe cfg : forall fuel st g pending log,
  NoDup (fas (sigs (remaining st)) ++ forest_aids pending) ->
  (pending = [] -> J (remaining st) (gitems g)) ->
  (szs (sigs (remaining st)) + forest_size pending < fuel)%nat ->
  fst (exec cfg fuel st g pending log) <> Crash /\ fst (exec cfg fuel st g pending log) <> OutOfFuel.
Proof.
  induction fuel as [|f IH]; intros st g pending log Hnd HJ Hsz; [lia|].
  cbn [exec].
  assert (HS : exists st1 g1, (match pending with [] => (st, g) | _ :: _ => restart st pending end) = (st1, g1) /\
                 J (remaining st1) (gitems g1) /\ szs (sigs (remaining st1)) = (szs (sigs (remaining st)) + forest_size pending)%nat).
  { destruct pending as [|p ps].
    - exists st, g. split; [reflexivity|]. split; [apply HJ; reflexivity|]. simpl. lia.
    - exists (fst (restart st (p :: ps))), (snd (restart st (p :: ps))). split; [reflexivity|].
      split; [apply restart_J; exact Hnd|]. unfold restart. cbn [fst remaining]. unfold sigs. rewrite map_app.
      fold (sigs (remaining st)) (sigs (p :: ps)). rewrite szs_app, (forest_size_sigs (p :: ps)). reflexivity. }
  destruct HS as [st1 [g1 [-> [HJ1 Hsz1]]]].
  pose proof (gen_next_safe cfg st1 g1 HJ1) as HG. pose proof (gen_next_no_fuel cfg st1 g1) as HF.
  destruct (gen_next cfg st1 g1) as [a st2 g2 e|o e st']; cbn [fst].
  - destruct HG as [P1 [P2 P3]]. apply IH; [exact P1|intros _; exact P2|lia].
  - split; [exact HG|]. eapply HF. reflexivity.
Qed.

Lemma nodupN_NoDup l : nodupN l = true -> NoDup l.
Proof.
  induction l as [|x r IH]; simpl; intros H; [constructor|]. apply andb_true_iff in H. destruct H as [H1 H2].
  constructor; [|apply IH; exact H2]. intros Hx. apply memN_In in Hx. rewrite Hx in H1. discriminate.
Qed.

(* execute_actions never removes an absent action and the fuel of [commit] suffices,
   for every program (re-entrant ones included) whose action identities are distinct *)
Theorem commit_safe cfg acts :
  wf_ids acts = true -> fst (commit_with cfg acts) <> Crash /\ fst (commit_with cfg acts) <> OutOfFuel.
Proof.
  intros H. unfold commit_with. apply exec_safe.
  - simpl. apply nodupN_NoDup. exact H.
  - intros _. split; [constructor|]. split; [constructor|]. intros ? [].
  - simpl. lia.
Qed.
