(* C04 proofs, part 13: RUN-LEVEL form of "an action added to a phase that has already been passed is refused".
   Over the whole run of execute_actions (re-entrant declarations included): as soon as an executed action declares an
   action of an earlier phase than its own, the commit stops with the refusal, naming the phase of the declaring
   action as the phase reached; and a refusal only ever names the phase of the action executed last. *)
From Coq Require Import List NArith ZArith Bool Lia Permutation Sorted.
Import ListNotations.
Require Import Verif.Lib.Wire Verif.Lib.C04Sort Verif.Gen.Facts_C04 Verif.Model.C04.
Require Import Verif.Proofs.C04_flat Verif.Proofs.C04_decide Verif.Proofs.C04_safe Verif.Proofs.C04_groups
               Verif.Proofs.C04_spec Verif.Proofs.C04_mono.

(* the head of a list whose keys strictly increase is below every key *)
Lemma SS_lt_head_le k (ks : list Z) k' : StronglySorted Z.lt (k :: ks) -> In k' (k :: ks) -> (k <= k')%Z.
Proof.
  intros S [<-|H]; [lia|]. inversion S as [|? ? _ Hall]; subst. rewrite Forall_forall in Hall. specialize (Hall _ H). lia.
Qed.

Lemma In_concat_groups (x : ainfo) (gs : list (Z * list ainfo)) :
  In x (concat (map snd gs)) -> exists kg, In kg gs /\ In x (snd kg).
Proof.
  induction gs as [|kg r IH]; simpl; [intros []|]. intros H. apply in_app_or in H. destruct H as [H|H].
  - exists kg. split; [left; reflexivity|exact H].
  - destruct (IH H) as [kg' [A B]]. exists kg'. split; [right; exact A|exact B].
Qed.

(* the first next() after new actions arrived, one of them (b) lying before the phase reached (m): the generator
   raises the refusal at once -- before forcing any Deferred, before yielding anything -- and the phase it names is
   the smallest pending one *)
Lemma restart_late cfg st pending b m :
  min_order st = Some m -> In b pending -> (ordkey b < m)%Z ->
  exists o, gen_next cfg (fst (restart st pending)) (snd (restart st pending)) = SStop (Late o m) [] (fst (restart st pending))
            /\ (o < m)%Z /\ forall b', In b' (remaining st ++ pending) -> (o <= ordkey b')%Z.
Proof.
  intros Hm Hb Hlt. unfold restart. cbn [fst snd]. unfold gen_next. cbn [g_out g_groups]. rewrite group_key_okey.
  set (S := sort (leb_by orderandpos_key) (enumerate (start st) (remaining st ++ pending))).
  pose proof (groupby_sorted_keys okey S (sorted_enumerate_okey _ _)) as GK.
  pose proof (groupby_keys okey S) as GH. pose proof (groupby_concat okey S) as GC.
  assert (Hkey : forall b', In b' (remaining st ++ pending) -> In (ordkey b') (map fst (groupby okey S))).
  { intros b' Hb'. destruct (In_enumerate b' _ (start st) Hb') as [i Hi].
    assert (HS : In (i, b') S) by (apply sort_In; exact Hi).
    rewrite <- GC in HS. destruct (In_concat_groups _ _ HS) as [kg [A B]].
    rewrite Forall_forall in GH. destruct (GH kg A) as [_ F]. rewrite Forall_forall in F. specialize (F _ B).
    unfold okey in F. cbn [snd] in F. rewrite F. apply in_map. exact A. }
  destruct (groupby okey S) as [|[k grp] gs] eqn:EG.
  - exfalso. apply (Hkey b). apply in_or_app. right. exact Hb.
  - assert (Hmin : forall b', In b' (remaining st ++ pending) -> (k <= ordkey b')%Z).
    { intros b' Hb'. apply (SS_lt_head_le k (map fst gs)); [exact GK|apply (Hkey b' Hb')]. }
    assert (Hk : (k < m)%Z). { specialize (Hmin b (in_or_app _ _ _ (or_intror Hb))). lia. }
    exists k. split; [|split; [exact Hk|exact Hmin]].
    apply late_group_refused; [exact Hm|exact Hk].
Qed.

(* [exec_t] only ever extends the trace it is given *)
Lemma exec_t_trace_prefix cfg : forall fuel st g pending log tr,
  exists tr', snd (exec_t cfg fuel st g pending log tr) = tr ++ tr'.
Proof.
  induction fuel as [|f IH]; intros; [exists []; rewrite app_nil_r; reflexivity|]. cbn [exec_t].
  destruct (match pending with [] => (st, g) | _ :: _ => restart st pending end) as [st1 g1].
  destruct (gen_next cfg st1 g1) as [a st2 g2 e|o e st'].
  - destruct (IH st2 g2 (aadds a) (log ++ e ++ [Run (aid a)]) (tr ++ [a])) as [tr' E]. exists (a :: tr').
    rewrite E, <- app_assoc. reflexivity.
  - exists []. rewrite app_nil_r. reflexivity.
Qed.

(* an executed action that declares an action of an earlier phase than its own *)
Definition declares_late (a b : action) : Prop := In b (aadds a) /\ (ordkey b < ordkey a)%Z.

Lemma exec_t_late cfg : forall fuel st g pending log tr,
  Forall Pact (remaining st) -> Forall Pact pending ->
  (pending = [] -> GI st g) ->
  (forall a b, In a tr -> declares_late a b ->
     In b pending /\ min_order st = Some (ordkey a) /\ exists tr0, tr = tr0 ++ [a]) ->
  let r := exec_t cfg fuel st g pending log tr in
  forall a b, In a (snd r) -> declares_late a b ->
    fst (fst r) = OutOfFuel \/
    (exists o, fst (fst r) = Late o (ordkey a) /\ (o <= ordkey b)%Z /\ (o < ordkey a)%Z) /\ exists tr0, snd r = tr0 ++ [a].
Proof.
  induction fuel as [|f IH]; intros st g pending log tr HR HP HG HL r a b Ha Hab; [left; reflexivity|].
  subst r. cbn [exec_t] in *.
  assert (H1 : exists st1 g1, (match pending with [] => (st, g) | _ :: _ => restart st pending end) = (st1, g1) /\
               GI st1 g1 /\ Forall Pact (remaining st1) /\ min_order st1 = min_order st).
  { destruct pending as [|p ps].
    - exists st, g. split; [reflexivity|]. split; [apply HG; reflexivity|]. split; [exact HR|reflexivity].
    - destruct (restart_GI st (p :: ps) HR HP) as [A [B C]].
      exists (fst (restart st (p :: ps))), (snd (restart st (p :: ps))). split; [reflexivity|]. tauto. }
  (* whenever the trace so far contains a late declaration the next step is the refusal *)
  assert (HStop : forall a0 b0, In a0 tr -> declares_late a0 b0 ->
            exists o st', (let '(st1, g1) := match pending with [] => (st, g) | _ :: _ => restart st pending end in
                           gen_next cfg st1 g1) = SStop (Late o (ordkey a0)) [] st'
                          /\ (o < ordkey a0)%Z /\ (o <= ordkey b0)%Z /\ exists tr0, tr = tr0 ++ [a0]).
  { intros a0 b0 Ha0 Hab0. destruct (HL a0 b0 Ha0 Hab0) as [Hb0 [Hm0 Hlast]].
    destruct pending as [|p ps]; [destruct Hb0|].
    destruct (restart_late cfg st (p :: ps) b0 (ordkey a0) Hm0 Hb0 (proj2 Hab0)) as [o [E [Ho Hmin]]].
    exists o, (fst (restart st (p :: ps))).
    destruct (restart st (p :: ps)) as [st1 g1]. cbn [fst snd] in E. split; [exact E|]. split; [exact Ho|].
    split; [apply Hmin; apply in_or_app; right; exact Hb0|exact Hlast]. }
  destruct H1 as [st1 [g1 [E1 [HG1 [HR1 HM1]]]]]. rewrite E1 in *.
  destruct (gen_next cfg st1 g1) as [a' st2 g2 e|o e st'] eqn:EG.
  - (* a yield: the trace so far contains no late declaration *)
    destruct (gen_next_mono cfg st1 g1 a' st2 g2 e HR1 HG1 EG) as [A [B [C [Dd E]]]].
    apply (IH st2 g2 (aadds a') (log ++ e ++ [Run (aid a')]) (tr ++ [a'])); try assumption.
    + apply Pact_adds. exact Dd.
    + intros _. exact A.
    + intros a0 b0 Ha0 Hab0. apply in_app_or in Ha0. destruct Ha0 as [Ha0|[<-|[]]].
      * destruct (HStop a0 b0 Ha0 Hab0) as [o [st' [Ebad _]]]. discriminate Ebad.
      * split; [exact (proj1 Hab0)|]. split; [exact C|]. exists tr. reflexivity.
  - (* the generator stopped: the trace is [tr] *)
    cbn [fst snd] in *. right.
    destruct (HStop a b Ha Hab) as [o' [st'' [Ebad [Ho [Hob Hlast]]]]]. inversion Ebad; subst.
    split; [exists o'; split; [reflexivity|split; assumption]|exact Hlast].
Qed.

(* RUN LEVEL: if an executed action declares an action of an earlier phase than its own, the commit is refused;
   the refusal names the declaring action's phase as the phase reached and a pending phase not above the late
   action's; the declaring action is the last one that ran *)
Theorem late_addition_refused cfg acts :
  wf_ids acts = true -> wf_orders acts = true ->
  forall a b, In a (commit_trace cfg acts) -> In b (aadds a) -> (ordkey b < ordkey a)%Z ->
    (exists o, fst (commit_with cfg acts) = Late o (ordkey a) /\ (o <= ordkey b)%Z /\ (o < ordkey a)%Z)
    /\ exists tr0, commit_trace cfg acts = tr0 ++ [a].
Proof.
  intros Hid Hord a b Ha Hb Hlt.
  pose proof (commit_safe cfg acts Hid) as [_ HF]. rewrite <- commit_trace_commit in HF.
  unfold commit_trace in *. rewrite <- commit_trace_commit.
  assert (HP : Forall Pact acts).
  { unfold wf_orders in Hord. rewrite forallb_forall in Hord. rewrite Forall_forall. exact Hord. }
  destruct (exec_t_late cfg (S (forest_size acts)) cstate0 gen0 acts [] []) with (a := a) (b := b) as [Hbad|Hok].
  - constructor.
  - exact HP.
  - intros _. constructor; cbn [gen0 g_out g_groups gitems map app concat].
    + constructor.
    + constructor.
    + intros x [].
    + intros x y [].
    + constructor.
  - intros a0 b0 [].
  - exact Ha.
  - split; assumption.
  - exfalso. apply HF. exact Hbad.
  - exact Hok.
Qed.

(* conversely: a refusal at run level names, as the phase reached, the phase of the action executed LAST, and a
   strictly earlier pending phase *)
Lemma exec_t_late_only cfg : forall fuel st g pending log tr,
  Forall Pact (remaining st) -> Forall Pact pending ->
  (pending = [] -> GI st g) ->
  (forall m, min_order st = Some m -> exists tr0 a, tr = tr0 ++ [a] /\ ordkey a = m) ->
  let r := exec_t cfg fuel st g pending log tr in
  forall o m, fst (fst r) = Late o m ->
    (o < m)%Z /\ exists tr0 a, snd r = tr0 ++ [a] /\ ordkey a = m.
Proof.
  induction fuel as [|f IH]; intros st g pending log tr HR HP HG HM r o m Hr; [discriminate Hr|].
  subst r. cbn [exec_t] in *.
  assert (H1 : exists st1 g1, (match pending with [] => (st, g) | _ :: _ => restart st pending end) = (st1, g1) /\
               GI st1 g1 /\ Forall Pact (remaining st1) /\ min_order st1 = min_order st).
  { destruct pending as [|p ps].
    - exists st, g. split; [reflexivity|]. split; [apply HG; reflexivity|]. split; [exact HR|reflexivity].
    - destruct (restart_GI st (p :: ps) HR HP) as [A [B C]].
      exists (fst (restart st (p :: ps))), (snd (restart st (p :: ps))). split; [reflexivity|]. tauto. }
  destruct H1 as [st1 [g1 [E1 [HG1 [HR1 HM1]]]]]. rewrite E1 in *.
  destruct (gen_next cfg st1 g1) as [a' st2 g2 e|o' e st'] eqn:EG.
  - destruct (gen_next_mono cfg st1 g1 a' st2 g2 e HR1 HG1 EG) as [A [B [C [Dd E]]]].
    apply (IH st2 g2 (aadds a') (log ++ e ++ [Run (aid a')]) (tr ++ [a'])); try assumption.
    + apply Pact_adds. exact Dd.
    + intros _. exact A.
    + intros m' Em'. rewrite C in Em'. inversion Em'; subst. exists tr, a'. split; reflexivity.
  - cbn [fst snd] in *. subst o'.
    assert (HN : exists evs0, next_group cfg st1 (g_groups g1) evs0 = SStop (Late o m) e st').
    { unfold gen_next in EG. destruct (g_out g1) as [|x rest]; [exists []; exact EG|].
      unfold yield_first in EG. destruct (remove_aid (aid (snd x)) (remaining st1)); discriminate EG. }
    destruct HN as [evs0 HN]. destruct (late_only cfg _ _ _ _ _ _ _ HN) as [Hm [Hlt _]].
    split; [exact Hlt|]. apply HM. rewrite <- HM1. exact Hm.
Qed.

Theorem late_refusal_names_last_phase cfg acts o m :
  wf_orders acts = true -> fst (commit_with cfg acts) = Late o m ->
  (o < m)%Z /\ exists tr0 a, commit_trace cfg acts = tr0 ++ [a] /\ ordkey a = m.
Proof.
  intros Hord H. rewrite <- commit_trace_commit in H. unfold commit_trace.
  assert (HP : Forall Pact acts).
  { unfold wf_orders in Hord. rewrite forallb_forall in Hord. rewrite Forall_forall. exact Hord. }
  apply (exec_t_late_only cfg (S (forest_size acts)) cstate0 gen0 acts [] []); try assumption.
  - constructor.
  - intros _. constructor; cbn [gen0 g_out g_groups gitems map app concat].
    + constructor.
    + constructor.
    + intros x [].
    + intros x y [].
    + constructor.
  - intros m' Em'. discriminate Em'.
Qed.

(* non-vacuity: a phase-5 action declaring a phase-0 action *)
Definition w_late : list action := [mkA 0 (Eager None) [] (Some 5%Z) [mkA 1 (Eager None) [] (Some 0%Z) []]].
Example late_addition_witness :
  wf_ids w_late = true /\ wf_orders w_late = true /\
  commit_with cfg_fixed w_late = (Late 0 5, [Run 0%N]) /\ map aid (commit_trace cfg_fixed w_late) = [0%N].
Proof. vm_compute. repeat split; reflexivity. Qed.
