(* C10 -- altered cookie texts: which ones the code accepts (lenient base64 decoding), the refutation of the
   property's clause "a cookie that was altered in any way yields a new empty session" on the unchanged code,
   and what holds once only the canonical text is accepted (regenerated fact [canonical_check]). *)
From Coq Require Import List NArith ZArith Bool Lia.
Import ListNotations.
Require Import Verif.Lib.Wire Verif.Gen.Facts_C10 Verif.Model.C10 Verif.Proofs.C10 Verif.Proofs.C10_codec
        Verif.Proofs.C10_real Verif.Proofs.C10_gen.

(* without the canonical check the constructor sees a cookie text only through its decoding *)
Lemma altered_same_decoding O o c c' now : canonical_check = false ->
  unb64 O c = unb64 O c' -> init O o (Some c) now = init O o (Some c') now.
Proof. intros C E. unfold init, loads. rewrite C, E. reflexivity. Qed.

Definition accepted (O : oracles) (o : opts) (c : text) (now : Z) : Prop :=
  exists s, init O o (Some c) now = IOk s /\ isnew s = false.

(* exactly the texts with the same decoding as the cookie last set are accepted (as that very session), provided
   nobody else can sign: if c decodes to validly signed bytes at all, they are those of the cookie last set *)
Lemma altered_cookie_accepted_iff_same_decoding O o s c now :
  rt_b64 O -> rt_ser O -> mac_len O -> canonical_check = false ->
  (forall p, unb64 O c = Some (mac O (key o) p ++ p) -> unb64 O c = unb64 O (cookie_of O o s)) ->
  (accepted O o c now <-> unb64 O c = unb64 O (cookie_of O o s)).
Proof.
  intros Hb Hs Hm C U. split.
  - intros (s1 & E & N). destruct (tamper_new_empty O o c now) as [F|[p P]].
    + rewrite F in E. inversion E; subst. discriminate.
    + apply (U p P).
  - intros E. unfold accepted. rewrite (altered_same_decoding O o c _ now C E).
    rewrite init_cookie_of by assumption. eexists; split; reflexivity.
Qed.

(* and then it IS that session: same data, same creation time *)
Lemma altered_cookie_same_session O o s c now :
  rt_b64 O -> rt_ser O -> mac_len O -> canonical_check = false ->
  unb64 O c = unb64 O (cookie_of O o s) ->
  init O o (Some c) now = init O o (Some (cookie_of O o s)) now.
Proof. intros _ _ _ C E. apply altered_same_decoding; assumption. Qed.

(* ---- refutation of the clause on the code as it is: the real wire format, a cookie with '=' appended *)
Definition rf_O : oracles := real_O toy_mac 1.
Definition rf_o : opts := {| key := [107]%N; timeout := Some 1200%Z; reissue := None; soe := true |}.
Definition rf_r1 : req := {| rsrc := SNone; rt := 400; rops := [(OSetItem [97]%N (JInt 1), 400%Z)]; rexc := false; rcb := (0%nat, 0%nat) |}.
Definition rf_last : text :=
  match run_req rf_O rf_o None rf_r1 with Obs _ _ _ (FCookie c) => c | _ => [] end.
Definition rf_edit : text := rf_last ++ [61]%N.                 (* the cookie followed by '=' *)
Definition rf_chain : list req :=
  [rf_r1; {| rsrc := SAltered rf_edit; rt := 404; rops := [(OItems, 404%Z)]; rexc := false; rcb := (0%nat, 0%nat) |}].

Lemma altered_cookie_rejected_refuted : canonical_check = false ->
  rf_edit <> rf_last /\ wf_chain rf_chain
  /\ ~ Forall2 ok_at (run_chain rf_O rf_o None rf_chain) (spec_chain rf_O rf_o None true rf_chain).
Proof.
  intros C. vm_compute in C.
  first [ discriminate C
        | split; [vm_compute; discriminate|]; split;
          [repeat constructor|];
          intros H; inversion H as [|? ? ? ? _ H2]; subst; inversion H2 as [|? ? ? ? K _]; subst;
          vm_compute in K; discriminate K ].
Qed.

(* ---- after the repair (canonical_check = true): a text that is not the canonical encoding of its own decoding is
   refused, in particular every altered text with the same decoding as the cookie last set *)
Lemma noncanonical_rejected O o c f now : canonical_check = true ->
  unb64 O c = Some f -> b64 O f <> c -> init O o (Some c) now = IOk (fresh_sess now).
Proof.
  intros C E N. apply init_unsigned. unfold valid_signed. rewrite E, C.
  assert (text_eqb (b64 O f) c = false) as -> by (apply text_eqb_neq; exact N). reflexivity.
Qed.

Lemma altered_same_decoding_rejected O o s c now : rt_b64 O -> canonical_check = true ->
  c <> cookie_of O o s -> unb64 O c = unb64 O (cookie_of O o s) ->
  init O o (Some c) now = IOk (fresh_sess now).
Proof.
  intros Hb C N E. unfold cookie_of in *. rewrite Hb in E.
  apply (noncanonical_rejected O o c _ now C E). congruence.
Qed.

(* the premise of the partial chain theorems is satisfiable by a chain that does present an altered cookie:
   the cookie with its first character replaced (another signature) *)
Definition rf_chain_ok : list req :=
  [rf_r1; {| rsrc := SAltered (66%N :: tl rf_last); rt := 404; rops := [(OItems, 404%Z)]; rexc := false; rcb := (0%nat, 0%nat) |}].
Example ex_chain_ok : chain_ok rf_O rf_o rf_chain_ok /\ wf_chain rf_chain_ok.
Proof. split; repeat constructor; vm_compute; reflexivity. Qed.
