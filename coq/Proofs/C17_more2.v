(* C17 -- third proof-only round: first of the two lemmas planned for totality of resource_url(route_name=..):
   the virtual path tuple the adapter hands to the route (as the remainder value) consists of encodable texts *)
From Coq Require Import List NArith ZArith Bool Lia.
Import ListNotations.
Require Import Verif.Lib.Wire Verif.Lib.Text Verif.Lib.Utf8 Verif.Lib.Percent Verif.Lib.PathNorm
               Verif.Gen.Facts_C17 Verif.Model.C17 Verif.Proofs.C17 Verif.Proofs.C17_total.
Open Scope N_scope.

Theorem resource_adapter_tuple_ok names vroot vp vpt :
  forallb text_ok names = true -> resource_adapter names vroot = Ok (vp, vpt) ->
  forallb text_ok vpt = true /\ kwval_ok (KSeq vpt []) = true.
Proof.
  intros Hn H. enough (G : forallb text_ok vpt = true) by (split; [exact G|cbn [kwval_ok forallb]; rewrite G; reflexivity]).
  unfold resource_adapter in H. pose proof (c17_norm_names_ok names Hn) as Hn'.
  set (names' := map (fun n => if truthy n then n else PStr []) names) in *.
  set (ppt := match names' with [] => [PStr []] | _ => PStr [] :: names' ++ [PStr []] end) in *.
  assert (Hppt : forallb text_ok ppt = true).
  { subst ppt. destruct names' as [|p0 r]; [reflexivity|].
    change (forallb text_ok (PStr [] :: ?l)) with (forallb text_ok l). rewrite forallb_app, Hn'. reflexivity. }
  destruct (join_path_tuple (PStr [] :: names')) as [p|]; cbn [rbind] in H; [|discriminate].
  destruct vroot as [v|]; [|inversion H; subst; exact Hppt].
  destruct (utf8_dec v) as [t|]; cbn [rbind] in H; [|discriminate].
  match type of H with context [if ?c then _ else _] => destruct c end; [|inversion H; subst; exact Hppt].
  match type of H with context [join_path_tuple ?l] => destruct (join_path_tuple l) as [vp'|] end; cbn [rbind] in H; [|discriminate].
  inversion H; subst.
  pose proof (c17_forallb_skipn text_ok (S (length (split_path_info t))) ppt Hppt) as Hs.
  apply forallb_forall. intros x [<-|Hx]; [reflexivity|].
  exact (proj1 (forallb_forall text_ok _) Hs x Hx).
Qed.

Example resource_adapter_tuple_ok_example :
  resource_adapter [PStr [97]; PStr [233]] (Some [47; 97]) = Ok ([47; 37; 67; 51; 37; 65; 57; 47], [PStr []; PStr [233]; PStr []]).
Proof. vm_compute. reflexivity. Qed.
