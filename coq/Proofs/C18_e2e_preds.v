(* C18 -- predicates end to end: add_*_predicate (regenerated chain) -> sorter -> regenerated sorted() -> regenerated
   PredicateList.make: the predicates of a view / route / subscriber are created (= evaluated) in an order that honours
   every weighs_more_than / weighs_less_than hint given to the DIRECTIVES. *)
From Coq Require Import List NArith ZArith Bool Lia Permutation.
Import ListNotations.
Require Import Verif.Lib.Wire Verif.Model.C18_base Verif.Gen.Facts_C18 Verif.Model.C18.
Require Import Verif.Proofs.C18_kahn Verif.Proofs.C18_build Verif.Proofs.C18 Verif.Proofs.C18_rep.
Require Import Verif.Proofs.C18_gen Verif.Proofs.C18_args Verif.Proofs.C18_make.

Definition gen_pred_sorter (k : pkind) (adds : list (node * N * hint * hint)) : sorter :=
  fold_left (gen_pred_step k) adds
            (fold_left (fun s n => gen_pred_step k s (n, 0%N, HNone, HNone)) (pd_defaults k) (new_sorter cfg_plain)).

Lemma gen_pred_sorter_ops k adds :
  gen_pred_sorter k adds = final_state (new_sorter cfg_plain) (pred_ops k adds).
Proof.
  rewrite <- preds_scenario_ops. unfold gen_pred_sorter, preds_scenario.
  assert (E : forall s x, gen_pred_step k s x = let '(n, f, m, l) := x in pred_directive k n f m l s).
  { intros s [[[n f] m] l]. unfold gen_pred_step. rewrite gen_pred_chain_is_spec. symmetry. apply pred_directive_add. }
  assert (E1 : forall l s, fold_left (fun s n => gen_pred_step k s (n, 0%N, HNone, HNone)) l s
                           = fold_left (fun s n => pred_directive k n 0%N HNone HNone s) l s).
  { induction l as [|x l IH]; intros s; cbn [fold_left]; [reflexivity|]. rewrite E. apply IH. }
  assert (E2 : forall l s, fold_left (gen_pred_step k) l s
                           = fold_left (fun s x => let '(n, f, m, l) := x in pred_directive k n f m l s) l s).
  { induction l as [|x l IH]; intros s; cbn [fold_left]; [reflexivity|]. rewrite E. apply IH. }
  rewrite E2, E1. reflexivity.
Qed.

Theorem preds_end_to_end k adds kw mo ordered order ps ph :
  gen_sorted (gen_pred_sorter k adds) = Sorted ordered ->
  gen_pl_make mo (Sorted ordered) kw = MkOk order ps ph ->
  judge cfg_plain (decls_of cfg_plain (pred_ops k adds)) (Sorted ordered) = true /\
  (ps = flat_map (made kw) ordered /\ ph = ps) /\
  forall d, In d (decls_of cfg_plain (pred_ops k adds)) ->
    (forall u, In u (opt_list (dafter d)) -> In u (dnames (decls_of cfg_plain (pred_ops k adds))) -> never_after ps u (dname d)) /\
    (forall o, In o (opt_list (dbefore d)) -> In o (dnames (decls_of cfg_plain (pred_ops k adds))) -> never_after ps (dname d) o).
Proof.
  rewrite gen_pred_sorter_ops. intros Es Em. split.
  - rewrite gen_sorted_is_model in Es. rewrite <- Es. apply judge_sorted. apply Rep_reachable.
  - exact (gen_make_order_respects cfg_plain (pred_ops k adds) ordered kw mo order ps ph Es Em).
Qed.

(* non-vacuity: q weighs less than p; make creates q's predicate first although q was registered last *)
Example preds_end_to_end_nonvacuous :
  let adds := [(tx 112, 1%N, HNone, HNone); (tx 113, 2%N, HNone, HOne (tx 112))] in
  let ordered := [(tx 113, 2%N); (tx 112, 1%N)] in
  gen_sorted (gen_pred_sorter PSubscriber adds) = Sorted ordered /\
  gen_pl_make pl_max_order (Sorted ordered) [(tx 112, VOne (PV 1)); (tx 113, VOne (PV 2))]
  = MkOk ((pl_max_order - 6) / 3) [Pred (tx 113) 2 (PV 2); Pred (tx 112) 1 (PV 1)] [Pred (tx 113) 2 (PV 2); Pred (tx 112) 1 (PV 1)].
Proof. cbv zeta. split; vm_compute; reflexivity. Qed.
