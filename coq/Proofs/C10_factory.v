(* C10 -- the factory layer: the regenerated SignedCookieSessionFactory / _CanonicalBase64Serializer / class-level
   option conversion (Gen/Prog_C10.v) equal their reference models; the serializer object handed to the session
   class behaves as the [loads] / [signed_dumps] the session theorems speak about; the options the session class
   carries are the documented conversion of what the caller passed; end-to-end composition with the chain theorem;
   and the chain theorem with the premise reduced to unforgeability once only canonical texts are accepted.
   As in C10_gen.v the scripts never mention the generated text. *)
From Coq Require Import List NArith ZArith Bool Lia.
Import ListNotations.
Require Import Verif.Lib.Wire Verif.Gen.Facts_C10 Verif.Model.C10 Verif.Proofs.C10 Verif.Proofs.C10_codec
        Verif.Proofs.C10_real Verif.Proofs.C10_gen Verif.Proofs.C10_gen2 Verif.Proofs.C10_altered.

(* ------------------------------------------------------------------ generated = model *)
Lemma gen_canon_loads_is_model O inner c : gen_canon_loads O inner c = canon_loads O inner c.
Proof.
  unfold gen_canon_loads, canon_loads.
  repeat match goal with
         | |- context [match ?x with _ => _ end] =>
             lazymatch x with context [match _ with _ => _ end] => fail | _ => destruct x eqn:? end
         end; cbn in *; try reflexivity; try congruence.
Qed.

Lemma gen_canon_dumps_is_model inner p : gen_canon_dumps inner p = inner p.
Proof. reflexivity. Qed.

Lemma gen_signed_factory_is_model a : gen_signed_factory a = signed_factory a.
Proof. destruct a as [sec salt m t r e [nm pa dm se ho ss]]. reflexivity. Qed.

Lemma gen_config_is_model b : gen_config b = config b.
Proof.
  destruct b as [d m t r e [nm pa dm se ho ss]]. unfold gen_config, config, cfg_conv, cfg_bind, oint.
  cbn [b_ser b_max_age b_timeout b_reissue b_soe b_attrs a_name a_path a_domain a_secure a_httponly a_samesite].
  destruct m, t, r; cbv beta iota delta [is_cnone py_truth];
    repeat match goal with |- context [int_of ?v] => destruct (int_of v) end;
    repeat match goal with
           | |- context [if ?x then _ else _] => destruct x
           end; reflexivity.
Qed.

(* the wrapper is there: only the canonical text of a cookie is accepted *)
Lemma canonical_check_on : canonical_check = true.
Proof. reflexivity. Qed.

Lemma factory_serializer_canonical a : ser_canonical (b_ser (gen_signed_factory a)) = canonical_check.
Proof. reflexivity. Qed.

(* ------------------------------------------------------------------ the serializer object the session class gets *)
Lemma loads_unfold O k c :
  loads O k c = if canonical_check then canon_loads O (signed_loads O k) c else signed_loads O k c.
Proof.
  unfold loads, canon_loads, signed_loads. destruct canonical_check; cbn [andb]; [|reflexivity].
  destruct (unb64 O c) as [f|]; [|reflexivity]. destruct (text_eqb (b64 O f) c); reflexivity.
Qed.

Lemma factory_key a : ser_key (b_ser (gen_signed_factory a)) = salted_key (fa_salt a) (fa_secret a).
Proof. rewrite gen_signed_factory_is_model. unfold signed_factory. cbn [b_ser]. destruct canonical_check; reflexivity. Qed.

Lemma factory_loads_is_model O a c :
  ser_loads O (b_ser (gen_signed_factory a)) c = loads O (salted_key (fa_salt a) (fa_secret a)) c.
Proof.
  rewrite loads_unfold, gen_signed_factory_is_model. unfold signed_factory. cbn [b_ser].
  destruct canonical_check; cbn [ser_loads]; [apply gen_canon_loads_is_model|reflexivity].
Qed.

Lemma factory_dumps_is_model O a p :
  ser_dumps O (b_ser (gen_signed_factory a)) p = signed_dumps O (salted_key (fa_salt a) (fa_secret a)) p.
Proof.
  rewrite gen_signed_factory_is_model. unfold signed_factory. cbn [b_ser].
  destruct canonical_check; cbn [ser_dumps]; reflexivity.
Qed.

(* what the serializer writes, it reads back -- and nothing else with the same decoding *)
Lemma factory_serializer_roundtrip O a p : rt_b64 O -> rt_ser O -> mac_len O ->
  ser_loads O (b_ser (gen_signed_factory a)) (ser_dumps O (b_ser (gen_signed_factory a)) p) = Some p.
Proof.
  intros Hb Hs Hm. rewrite factory_loads_is_model, factory_dumps_is_model.
  unfold loads, signed_dumps. rewrite Hb, text_eqb_refl. cbn [negb]. rewrite andb_false_r.
  rewrite skipn_len_app, firstn_len_app by apply Hm. rewrite text_eqb_refl. apply Hs.
Qed.

(* ------------------------------------------------------------------ options: configuration time *)
Lemma gfactory_is_spec a : gfactory a = spec_factory a.
Proof.
  unfold gfactory, spec_factory. rewrite gen_config_is_model, factory_key, gen_signed_factory_is_model.
  unfold config, signed_factory, cfg_bind. cbn [b_ser b_max_age b_timeout b_reissue b_soe].
  destruct (cfg_conv (fa_max_age a)); try reflexivity.
  destruct (cfg_conv (fa_reissue a)); try reflexivity.
  destruct (cfg_conv (fa_timeout a)); reflexivity.
Qed.

(* a falsy but valid option value is a number, not "unset" *)
Lemma factory_zero_is_not_none a o z :
  gfactory a = FacOk o -> int_of (fa_timeout a) = FOk z -> timeout o = Some z.
Proof.
  rewrite gfactory_is_spec. unfold spec_factory, cfg_conv, oint. intros E I.
  destruct (fa_timeout a) eqn:T; try (cbn in I; discriminate I); cbn [is_cnone] in E; rewrite I in E;
    repeat match type of E with
           | context [match ?x with _ => _ end] => destruct x; try discriminate E
           end; inversion E; reflexivity.
Qed.

Lemma factory_none_stays_none a o :
  gfactory a = FacOk o ->
  (timeout o = None <-> fa_timeout a = CNone) /\ (reissue o = None <-> fa_reissue a = CNone).
Proof.
  rewrite gfactory_is_spec. unfold spec_factory, cfg_conv, oint. intros E.
  destruct (fa_max_age a) eqn:M, (fa_reissue a) eqn:R, (fa_timeout a) eqn:T; cbn [is_cnone] in E;
    repeat match type of E with
           | context [match int_of ?x with _ => _ end] => destruct (int_of x); try discriminate E
           end; try discriminate E; inversion E; cbn [timeout reissue]; split; split; intros H; congruence.
Qed.

Lemma factory_raises_iff a :
  gfactory a = FacRaise ->
  exists v, In v [fa_max_age a; fa_reissue a; fa_timeout a] /\ v <> CNone /\ int_of v = FErr.
Proof.
  rewrite gfactory_is_spec. unfold spec_factory, cfg_conv, oint. intros E.
  destruct (fa_max_age a) eqn:M; cbn [is_cnone] in E;
    try (destruct (int_of (fa_max_age a)) eqn:IM; rewrite M in IM; rewrite IM in E; try discriminate E;
         try (eexists; split; [left; reflexivity|split; [discriminate|exact IM]]));
    (destruct (fa_reissue a) eqn:R; cbn [is_cnone] in E;
     try (destruct (int_of (fa_reissue a)) eqn:IR; rewrite R in IR; rewrite IR in E; try discriminate E;
          try (eexists; split; [right; left; reflexivity|split; [discriminate|exact IR]])));
    (destruct (fa_timeout a) eqn:T; cbn [is_cnone] in E;
     try (destruct (int_of (fa_timeout a)) eqn:IT; rewrite T in IT; rewrite IT in E; try discriminate E;
          try (eexists; split; [right; right; left; reflexivity|split; [discriminate|exact IT]])));
    discriminate E.
Qed.

(* ------------------------------------------------------------------ only canonical texts: the premise of the chain
   theorem shrinks to unforgeability -- an altered text is not the signed encoding of ANY byte string *)
Lemma unforged_chain_ok O o l : canonical_check = true -> mac_len O -> unforged O o l -> chain_ok O o l.
Proof.
  intros C Hm U. unfold unforged, chain_ok in *. eapply Forall_impl; [|exact U].
  intros r H. cbv beta in *. destruct (rsrc r) as [| |c|c]; try exact I.
  destruct (valid_signed O (key o) c) eqn:V; [|reflexivity].
  apply (valid_signed_spec O (key o) c Hm) in V. destruct V as (p & _ & E).
  exfalso. apply (H p). symmetry. apply E, C.
Qed.

Lemma chain_refines_spec_canonical O o : canonical_check = true -> rt_b64 O -> rt_ser O -> mac_len O ->
  forall l last sv, unforged O o l -> inv O o last sv ->
  Forall2 ok_at (run_chain O o last l) (spec_chain O o sv true l).
Proof.
  intros C Hb Hs Hm l last sv U Iv. apply chain_refines_spec; try assumption.
  apply unforged_chain_ok; assumption.
Qed.

(* every alteration of the cookie last set whose decoding is unchanged -- all the base64 leniency -- is refused
   without any premise about the MAC: the unforgeability premise is only needed for texts that decode differently *)
Lemma altered_same_decoding_unforged O o v c : rt_b64 O -> canonical_check = true ->
  c <> cookie_of O o (store_sess v) -> unb64 O c = unb64 O (cookie_of O o (store_sess v)) ->
  valid_signed O (key o) c = false.
Proof.
  intros Hb C N E. unfold valid_signed. unfold cookie_of in E. rewrite Hb in E. rewrite E, C. cbn [andb].
  assert (text_eqb (b64 O (mac O (key o) (ser O (payload (store_sess v))) ++ ser O (payload (store_sess v)))) c = false)
    as -> by (apply text_eqb_neq; intros X; apply N; unfold cookie_of; congruence).
  reflexivity.
Qed.

(* ------------------------------------------------------------------ end to end: from the arguments of
   SignedCookieSessionFactory to the store semantics *)
Lemma factory_chain_refines_spec O a o : canonical_check = true -> rt_b64 O -> rt_ser O -> mac_len O ->
  gfactory a = FacOk o ->
  key o = salted_key (fa_salt a) (fa_secret a) /\
  (forall c, ser_loads O (b_ser (gen_signed_factory a)) c = loads O (key o) c) /\
  (forall p, ser_dumps O (b_ser (gen_signed_factory a)) p = signed_dumps O (key o) p) /\
  forall l, unforged O o l -> Forall2 ok_at (grun_chain O o None l) (spec_chain O o None true l).
Proof.
  intros C Hb Hs Hm E.
  assert (K : key o = salted_key (fa_salt a) (fa_secret a)).
  { rewrite gfactory_is_spec in E. unfold spec_factory in E.
    repeat match type of E with
           | context [match ?x with _ => _ end] => destruct x; try discriminate E
           end; inversion E; reflexivity. }
  split; [exact K|]. rewrite K.
  split; [intros c; apply factory_loads_is_model|].
  split; [intros p; apply factory_dumps_is_model|].
  intros l U. rewrite grun_chain_is_model.
  apply chain_refines_spec_canonical; try assumption. exact Logic.I.
Qed.

(* ------------------------------------------------------------------ calls: positional / keyword / omitted *)
Lemma gen_sig_is_doc : gen_sig = doc_sig /\ gen_defaults = doc_defaults.
Proof. split; reflexivity. Qed.

Lemma index_of_doc d : In d doc_sig -> index_of d doc_sig 0 = Some d.
Proof.
  intros H. unfold doc_sig in H. cbn in H.
  repeat (destruct H as [<-|H]; [reflexivity|]). destruct H.
Qed.

Lemma bind1_doc c d : wf_call c -> In d doc_sig -> bind1 doc_sig doc_defaults c d = doc_arg c d.
Proof.
  intros (_ & _ & G) H. unfold bind1. rewrite (index_of_doc d H). unfold doc_arg.
  destruct (Nat.ltb d (c_npos c)) eqn:L.
  - apply Nat.ltb_lt in L. assert (Nat.leb (c_npos c) d = false) as -> by (apply Nat.leb_gt; exact L). cbn [andb].
    specialize (G d L). destruct (given c d); [reflexivity|congruence].
  - reflexivity.
Qed.

Lemma map_opt_ext_in {A B} (f g : A -> option B) l : (forall x, In x l -> f x = g x) -> map_opt f l = map_opt g l.
Proof.
  induction l as [|x r IH]; intros H; [reflexivity|]. cbn [map_opt].
  rewrite (H x (or_introl eq_refl)), IH; [reflexivity|]. intros y Hy. apply H. right. exact Hy.
Qed.

Lemma bind_call_doc c : wf_call c -> bind_call doc_sig doc_defaults c = doc_bind c.
Proof. intros W. unfold bind_call, doc_bind. apply map_opt_ext_in. intros d H. apply bind1_doc; assumption. Qed.

(* however the arguments are passed, the factory built is the documented reading of the call *)
Lemma gfactory_call_is_spec c : wf_call c -> gfactory_call c = spec_factory_call c.
Proof.
  intros W. unfold gfactory_call, spec_factory_call. destruct gen_sig_is_doc as [-> ->].
  rewrite (bind_call_doc c W). destruct (doc_bind c) as [l|]; [|reflexivity].
  destruct (fargs_of l); [apply gfactory_is_spec|reflexivity].
Qed.

(* the cookie attributes reach the session class unchanged and uncrossed *)
Lemma factory_call_attrs c : wf_call c -> gfactory_call c <> FacRaise -> gfactory_call c <> FacUnm ->
  gcall_attrs c = doc_attrs c.
Proof.
  intros W. unfold gfactory_call, gcall_attrs, doc_attrs. destruct gen_sig_is_doc as [-> ->].
  rewrite (bind_call_doc c W). destruct (doc_bind c) as [l|]; [|reflexivity].
  destruct (fargs_of l) as [a|]; [|reflexivity]. unfold gfactory.
  rewrite gen_config_is_model, gen_signed_factory_is_model. unfold config, signed_factory, cfg_bind.
  cbn [b_max_age b_timeout b_reissue b_soe b_attrs].
  destruct (cfg_conv (fa_max_age a)); try congruence.
  destruct (cfg_conv (fa_reissue a)); try congruence.
  destruct (cfg_conv (fa_timeout a)); try congruence. reflexivity.
Qed.

Lemma positional_is_keyword c c' : wf_call c -> wf_call c' -> c_vals c = c_vals c' ->
  gfactory_call c = gfactory_call c'.
Proof.
  intros W W' E. rewrite !gfactory_call_is_spec by assumption. unfold spec_factory_call, doc_bind.
  rewrite (map_opt_ext_in (doc_arg c) (doc_arg c') doc_sig); [reflexivity|].
  intros d _. unfold doc_arg, given. rewrite E. reflexivity.
Qed.

(* ------------------------------------------------------------------ non-vacuity *)
Definition ex_attrs : attrs :=
  {| a_name := CStr [115]%N; a_path := CStr [47]%N; a_domain := CNone; a_secure := CBool false; a_httponly := CBool true;
     a_samesite := CNone |}.
Definition ex_args : fargs :=
  {| fa_secret := [115; 101; 99]%N; fa_salt := Some []; fa_max_age := CNone; fa_timeout := CBool false;
     fa_reissue := CStr [49; 50]%N; fa_soe := CInt 0; fa_attrs := ex_attrs |}.
(* timeout=False is the number 0 (every session older than 0 s is emptied), reissue_time='12' is 12,
   set_on_exception=0 is false, salt='' gives the bare secret *)
Example ex_factory : gfactory ex_args
  = FacOk {| key := [115; 101; 99]%N; timeout := Some 0%Z; reissue := Some 12%Z; soe := false |}.
Proof. vm_compute. reflexivity. Qed.
Example ex_factory_raises :
  gfactory {| fa_secret := [115]%N; fa_salt := None; fa_max_age := CNone; fa_timeout := CStr [120]%N;
              fa_reissue := CNone; fa_soe := CBool true; fa_attrs := ex_attrs |} = FacRaise.
Proof. vm_compute. reflexivity. Qed.

(* the premise [unforged] is satisfiable by a chain that does present an altered cookie (the real wire format) *)
Definition ex_unforged_chain : list req :=
  [rf_r1; {| rsrc := SAltered []; rt := 404; rops := [(OItems, 404%Z)]; rexc := false; rcb := (0%nat, 0%nat) |}].
Example ex_unforged : unforged rf_O rf_o ex_unforged_chain /\ wf_chain ex_unforged_chain.
Proof.
  split; [|repeat constructor]. repeat constructor. cbn [rsrc]. intros m.
  cbn [b64 rf_O real_O mac]. unfold toy_mac. cbn [app].
  destruct m as [|b [|c r]]; cbn [b64enc app]; discriminate.
Qed.

(* SignedCookieSessionFactory('s', 'session', None, '/', None, False, False, 'Lax', False, 300, 60): eleven positional
   arguments in the documented order: set_on_exception=False, timeout=300, reissue_time=60 *)
Definition ex_call : fcall :=
  {| c_npos := 11;
     c_vals := [Some (CStr [115]%N); Some (CStr [115; 101; 115; 115; 105; 111; 110]%N); Some CNone; Some (CStr [47]%N);
                Some CNone; Some (CBool false); Some (CBool false); Some (CStr [76; 97; 120]%N); Some (CBool false);
                Some (CInt 300); Some (CInt 60); None; None; None] |}.
Example ex_call_wf : wf_call ex_call.
Proof.
  split; [reflexivity|]. split; [cbn; lia|]. intros d H. cbn in H.
  do 11 (destruct d as [|d]; [cbn; discriminate|]). lia.
Qed.
Example ex_call_factory : exists k,
  gfactory_call ex_call = FacOk {| key := k; timeout := Some 300%Z; reissue := Some 60%Z; soe := false |}.
Proof. eexists. vm_compute. reflexivity. Qed.
