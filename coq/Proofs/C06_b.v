(* C06 -- remainder sequences followed by extra elements: when every supplied segment and every
   element is a normal segment, the remainder comes back as the segments followed by the elements. *)
From Coq Require Import List NArith ZArith Bool Lia.
Import ListNotations.
Require Import Verif.Lib.Wire Verif.Lib.Text Verif.Lib.PathNorm Verif.Lib.Utf8 Verif.Lib.Percent.
Require Verif.Gen.Facts_C01 Verif.Model.C01 Verif.Proofs.C01.
Require Import Verif.Gen.Facts_C17 Verif.Model.C17 Verif.Proofs.C17.
Require Import Verif.Gen.Facts_C06 Verif.Model.C06 Verif.Proofs.C06 Verif.Proofs.C06_ext.
Open Scope N_scope.

Lemma spi_leading_slash t : split_path_info (47 :: t) = split_path_info t.
Proof. unfold split_path_info, strip_char. cbn [lstrip_char]. reflexivity. Qed.

Lemma join_app_nonempty (a b : list text) : a <> [] -> b <> [] ->
  join [47] (a ++ b) = join [47] a ++ [47] ++ join [47] b.
Proof.
  intros Ha Hb. induction a as [|x a IH]; [contradiction|].
  destruct a as [|y a].
  - cbn [app]. destruct b as [|z b]; [contradiction|]. reflexivity.
  - change ((x :: y :: a) ++ b) with (x :: ((y :: a) ++ b)).
    change (join [47] (x :: (y :: a) ++ b)) with (x ++ [47] ++ join [47] ((y :: a) ++ b)).
    rewrite IH by discriminate.
    change (join [47] (x :: y :: a)) with (x ++ [47] ++ join [47] (y :: a)).
    rewrite <- !app_assoc. reflexivity.
Qed.

Lemma join_normal_no_trailing_slash ts : ts <> [] -> Forall normal_seg ts ->
  join [47] ts <> [] /\ endswith_char 47 (join [47] ts) = false.
Proof.
  intros Hn Hf. pose proof (join_last_normal ts Hn Hf) as Hl.
  destruct (rev (join [slash] ts)) as [|x t] eqn:E; [contradiction|].
  apply (f_equal (@rev N)) in E. rewrite rev_involutive in E. cbn [rev] in E.
  unfold slash in *. rewrite E. split.
  - intros H. apply app_eq_nil in H. destruct H; discriminate.
  - rewrite endswith_last. apply N.eqb_neq. exact Hl.
Qed.

(* text level: whatever stands before the remainder in the path *)
Theorem remainder_with_elements_normal pre ts ets :
  Forall normal_seg ts -> Forall normal_seg ets ->
  split_path_info (join [47] ts ++ elements_suffix (pre ++ join [47] ts) ets) = ts ++ ets.
Proof.
  intros Ht He. destruct ets as [|e1 er].
  - cbn [elements_suffix]. rewrite !app_nil_r. apply spi_normal_id. exact Ht.
  - destruct ts as [|t1 tr].
    + cbn [join app]. rewrite app_nil_r. unfold elements_suffix.
      destruct (endswith_char 47 pre); cbn [app].
      * apply spi_normal_id. exact He.
      * rewrite spi_leading_slash. apply spi_normal_id. exact He.
    + destruct (join_normal_no_trailing_slash (t1 :: tr) ltac:(discriminate) Ht) as [Hne Hend].
      unfold elements_suffix. rewrite endswith_app by exact Hne. rewrite Hend.
      rewrite <- join_app_nonempty by discriminate.
      apply spi_normal_id. apply Forall_app. split; assumption.
Qed.

(* the dictionary entry of the remainder in [C01.mk_dict] *)
Lemma mk_dict_star_entry its : forall hc st r, length hc = length (C01.hole_names its) ->
  In (r, C01.MSegs (split_path_info st)) (C01.mk_dict its (Some r) (hc ++ [st])).
Proof.
  induction its as [|[l|n h] rest IH]; intros hc st r Hl.
  - destruct hc; [|discriminate]. cbn. left. reflexivity.
  - rewrite names_lit in Hl. cbn [C01.mk_dict]. apply IH. exact Hl.
  - rewrite names_hole in Hl. destruct hc as [|v hc]; [discriminate|]. cbn [app C01.mk_dict].
    right. apply IH. cbn [length] in Hl. lia.
Qed.

(* end to end: route_path with a remainder given as a sequence of normal segments and normal extra
   elements -- the route matches its own URL and the remainder is the segments followed by the elements *)
Theorem route_path_remainder_then_elements O dflt src p e rs n els o kw P hc r ets l shown ts :
  C01.parse_core O dflt src = C01.Ok p ->
  Verif.Proofs.C17.wf_query (o_query o) -> Verif.Proofs.C17.wf_anchor (o_anchor o) ->
  assoc n rs = Some (to_pattern p) -> route_path [] e rs n els o kw = Ok P ->
  C01.star p = Some r -> kw_caps p kw = Some (hc ++ [join [47] ts]) ->
  length hc = length (C01.hole_names (C01.items p)) ->
  assoc r kw = Some (KSeq l shown) -> map_opt spec_text l = Some ts ->
  Forall normal_seg ts -> spec_elements els = Some ets -> Forall normal_seg ets ->
  let caps' := hc ++ [join [47] ts ++ elements_suffix (C01.render (C01.items p) (hc ++ [join [47] ts])) ets] in
  C01.caps_ok O (C01.star p) (C01.items p) caps' = true -> sep_val O (C01.star p) (C01.items p) caps' = true ->
  exists base qt f pi d,
    cut_ref P = (base, qt, f) /\ wsgi_path_info (e_script e) base = Some pi
    /\ match_back O p pi = Some d /\ In (r, C01.MSegs (ts ++ ets)) d.
Proof.
  intros Hp Hwq Hwa Ha H Hst Hk Hl Hr Hts Hn He Hne caps' Hc Hs.
  destruct (route_path_elements_remainder O dflt src p e rs n els o kw P hc (join [47] ts) r ets
              Hp Hwq Hwa Ha H Hst Hk Hl He Hc Hs) as (base & qt & f & pi & E1 & E2 & E3).
  exists base, qt, f, pi, (C01.mk_dict (C01.items p) (C01.star p) caps').
  repeat split; try assumption.
  rewrite Hst. unfold caps'.
  rewrite (render_app (C01.items p) hc [join [47] ts]) by exact Hl. cbn [C01.render].
  rewrite <- (remainder_with_elements_normal (C01.render (C01.items p) hc) ts ets Hn Hne).
  apply mk_dict_star_entry. exact Hl.
Qed.
