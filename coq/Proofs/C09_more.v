(* C09 proofs, part 3: named corollaries (edits, wrong secret / algorithm / address), the image of
   remember never makes identify raise, and completeness of the hash-oracle protocol. *)
From Coq Require Import List NArith ZArith Bool Lia ZifyBool ZifyN.
Import ListNotations.
Require Import Verif.Lib.Wire Verif.Lib.Text Verif.Lib.Percent Verif.Lib.Utf8 Verif.Lib.C09Base Verif.Lib.C09BaseP.
Require Import Verif.Gen.Facts_C09 Verif.Model.C09 Verif.Proofs.C09 Verif.Proofs.C09_rt.
Ltac Zify.zify_post_hook ::= Z.div_mod_to_equations.
Local Arguments cmp_eval : simpl never.
Local Arguments Z.mul : simpl never.
Local Arguments Z.sub : simpl never.
Local Arguments Z.add : simpl never.
Local Arguments now2 : simpl never.

(* ================================================================== edits *)
Section Edits.
Variable H : text -> list N -> text.
Variable dsz : text -> nat.
Variable uni : N -> N.

Lemma eff_ip_later c r : eff_ip c (later r) = eff_ip c r.
Proof. unfold eff_ip, later. destruct (tick r); reflexivity. Qed.

Lemma eff_ip_with_cookie c r v : eff_ip c (with_cookie r v) = eff_ip c r.
Proof. reflexivity. Qed.

(* an edited cookie that still parses to the same fields yields the same answer; any other accepted
   cookie carries the keyed digest of its own (different) fields *)
Theorem edit_same_or_nothing c r ck ck' :
  (parse_fields dsz uni (hashalg c) ck' = parse_fields dsz uni (hashalg c) ck ->
   identify_pre H dsz uni c (with_cookie r ck') = identify_pre H dsz uni c (with_cookie r ck))
  /\ ((forall a x, forallb valid_scalar (H a x) = true) -> forallb valid_scalar ck' = true ->
      identify_pre H dsz uni c (with_cookie r ck') <> INone ->
      digest_ok H dsz uni c (with_cookie r ck') ck' = true).
Proof.
  split.
  - intros E. unfold identify_pre, parse_ticket. simpl cookie. rewrite !eff_ip_with_cookie.
    destruct (eff_ip c r) as [ip|]; [|reflexivity]. rewrite E. reflexivity.
  - intros HS Hck Hne.
    destruct (identify_pre H dsz uni c (with_cookie r ck')) as [|ts u tk ud|] eqn:P; [contradiction| |].
    + eapply accept_implies_digest; eauto.
    + eapply identify_pre_raise_signed; eauto.
Qed.

Lemma parse_fields_alg a a' s : dsz a' = dsz a -> parse_fields dsz uni a' s = parse_fields dsz uni a s.
Proof. intros E. unfold parse_fields, digest_len. rewrite E. reflexivity. Qed.

(* a ticket issued under (sec, alg, ip), presented to a helper using (sec', alg', ip') with a digest of the
   same length: it is accepted only if the two keyed digests of the SAME fields coincide -- a collision of
   the hash between different keys / algorithms / addresses, not something the code contributes *)
Theorem wrong_secret_alg_ip alg ip sec alg' ip' sec' t enc toks ud :
  H_len H dsz -> H_head H -> (forall a x, forallb valid_scalar (H a x) = true) ->
  (t < 4294967296)%N -> is_ascii enc = true ->
  Forall (fun tk => valid_token tk = true) toks ->
  ud <> [] -> ~ In bang ud -> last ud 0%N <> strip_ch ->
  dsz alg' = dsz alg ->
  parse_ticket H dsz uni sec' (cookie_value H alg ip t sec enc toks ud) ip' alg' <> PBad ->
  calculate_digest H alg' ip' (Z.of_N t) sec' enc (joined toks) ud
  = calculate_digest H alg ip (Z.of_N t) sec enc (joined toks) ud.
Proof.
  intros HL HH HS Ht Henc Htok Hud Hbang Hlast Hd Hacc.
  unfold parse_ticket in Hacc. rewrite (parse_fields_alg alg alg' _ Hd) in Hacc.
  rewrite (fields_roundtrip H dsz uni alg ip t sec enc toks ud) in Hacc by assumption.
  unfold strings_differ in Hacc.
  destruct (text_eqb_spec (encode (calculate_digest H alg' ip' (Z.of_N t) sec' enc (joined toks) ud))
                          (encode (calculate_digest H alg ip (Z.of_N t) sec enc (joined toks) ud))) as [E|E].
  - apply encode_inj; auto; apply HS.
  - simpl in Hacc. contradiction.
Qed.

(* ================================================================== the image of remember *)
Definition wf_uval (u : uval) : Prop :=          (* Python bytes hold values below 256 *)
  match u with VBytes b => Forall (fun x => (x < 256)%N) b | _ => True end.

Lemma remember_some c r u ma toks hs :
  remember H c r u ma toks = Some hs ->
  eff_ip c r <> None /\ encode_userid u <> None /\ forallb valid_token toks = true.
Proof.
  unfold remember. destruct (eff_ip c r); [|discriminate].
  destruct (encode_userid u) as [[tag enc]|]; [|discriminate].
  destruct (forallb valid_token toks); [|discriminate]. intros _. repeat split; discriminate.
Qed.

Lemma remember_some_inv c r u ma toks :
  eff_ip c r <> None -> encode_userid u <> None -> forallb valid_token toks = true ->
  remember H c r u ma toks <> None.
Proof.
  intros A B C. unfold remember. destruct (eff_ip c r); [|contradiction].
  destruct (encode_userid u) as [[tag enc]|]; [|contradiction]. rewrite C. discriminate.
Qed.

Lemma encode_userid_uval_ok u : wf_uval u -> encode_userid u <> None -> uval_ok u.
Proof.
  destruct u as [t|z|b]; simpl; auto. intros _.
  unfold encode_userid. change enc_str with (fst enc_str, EB64Utf8). cbn [apply_enc].
  destruct (forallb valid_scalar t); [reflexivity|]. intros X. exfalso. apply X. reflexivity.
Qed.

Lemma forallb_filter {A} (f g : A -> bool) l : forallb f l = true -> forallb f (filter g l) = true.
Proof.
  induction l as [|x l IH]; simpl; auto. intros E. apply andb_true_iff in E as [E1 E2].
  destruct (g x); simpl; [rewrite E1|]; auto.
Qed.

(* Every ticket issued by remember() -- whatever user id (int, text, bytes), tokens and max_age the caller
   supplied, at any clock below 2^32 -- is parsed by identify() without raising, in every state of the
   presenting request and at every later clock value (accepted or expired, reissued or not). *)
Theorem issued_ticket_never_raises c r r' u ma toks hs k v st :
  H_len H dsz -> H_head H -> (0 <= now r < 4294967296)%Z -> wf_uval u ->
  remember H c r u ma toks = Some hs -> In k hs -> ck_value k = Some v ->
  cookie r' = Some v -> eff_ip c r' = eff_ip c r ->
  snd (identify H dsz uni c r' st) <> IRaise.
Proof.
  intros HL HH Hnow Hwf Hrem Hin Hv Hck Hip.
  destruct (remember_some _ _ _ _ _ _ Hrem) as (R1 & R2 & R3).
  pose proof (encode_userid_uval_ok u Hwf R2) as Hok.
  pose proof (identify_roundtrip H dsz uni c r r' u ma toks hs k v HL HH Hnow Hok Hrem Hin Hv Hck Hip) as P.
  unfold identify. rewrite P.
  destruct (spec_issued_identity c (Z.to_N (now r)) u match toks with [] => [[]] | _ :: _ => toks end (now2 r'))
    as [[[ts u'] tk]|] eqn:S; [|simpl; discriminate].
  assert (Eu : u' = u /\ tk = match toks with [] => [[]] | _ :: _ => toks end).
  { unfold spec_issued_identity in S. destruct (timeout c) as [t|].
    - destruct (negb (t =? 0)%Z && negb (now2 r' <=? 2 * (Z.of_N (Z.to_N (now r)) + t))%Z); inversion S; auto.
    - inversion S; auto. }
  destruct Eu as [-> ->].
  destruct (reissue_time c) as [rt|]; [|simpl; discriminate].
  destruct (negb (reissued st) && cmp_eval reissue_cmp (now2 r' - 2 * ts) (2 * rt)); [|simpl; discriminate].
  destruct (remember H c (later r') u (max_age c) (filter nonempty match toks with [] => [[]] | _ :: _ => toks end)) eqn:RR;
    [simpl; discriminate|].
  exfalso. revert RR. apply remember_some_inv; auto.
  - rewrite eff_ip_later, Hip. exact R1.
  - destruct toks as [|t0 tr]; [reflexivity|]. apply forallb_filter. exact R3.
Qed.

End Edits.

(* ================================================================== the hash-oracle protocol is complete *)
Section OracleComplete.
Variables H H' : text -> list N -> text.
Variable dsz : text -> nat.
Variable uni : N -> N.

(* the two oracles answer the H-queries behind the double digest of [m] alike *)
Definition agree_on (alg sec : text) (m : list N) : Prop :=
  forall q, In q (queries_of H alg sec m) -> H (fst q) (snd q) = H' (fst q) (snd q).

Lemma cd_agree alg ip t sec u tk ud :
  agree_on alg sec (digest_msg ip t sec u tk ud) ->
  calculate_digest H alg ip t sec u tk ud = calculate_digest H' alg ip t sec u tk ud.
Proof.
  intros A. unfold calculate_digest.
  pose proof (A (alg, digest_msg ip t sec u tk ud) (or_introl eq_refl)) as A1. simpl in A1.
  pose proof (A (alg, H alg (digest_msg ip t sec u tk ud) ++ encode sec) (or_intror (or_introl eq_refl))) as A2.
  simpl in A2. rewrite <- A1. exact A2.
Qed.

Definition agree_all (c : cfg) (ms : list (list N)) : Prop :=
  forall m, In m ms -> agree_on (hashalg c) (secret c) m.

Lemma identify_pre_agree c r :
  agree_all c (msgs_identify dsz uni c r) ->
  identify_pre H dsz uni c r = identify_pre H' dsz uni c r.
Proof.
  intros A. unfold identify_pre, msgs_identify, agree_all in *.
  destruct (cookie r) as [ck0|]; [|reflexivity].
  destruct (eff_ip c r) as [ip|]; [|reflexivity].
  unfold parse_ticket. destruct (parse_fields dsz uni (hashalg c) ck0) as [d ts u tk ud|]; [|reflexivity].
  rewrite (cd_agree (hashalg c) ip ts (secret c) u tk ud); [reflexivity|].
  apply A. left. reflexivity.
Qed.

Lemma remember_agree c r u ma toks :
  agree_all c (msg_remember c r u toks) ->
  remember H c r u ma toks = remember H' c r u ma toks.
Proof.
  intros A. unfold remember, msg_remember, agree_all in *.
  destruct (eff_ip c r) as [ip|]; [|reflexivity].
  destruct (encode_userid u) as [[tag enc]|]; [|reflexivity].
  destruct (forallb valid_token toks); [|reflexivity].
  unfold cookie_value. rewrite (cd_agree (hashalg c) ip _ (secret c) enc (join [comma] toks) (userid_typename ++ tag)).
  - reflexivity.
  - apply A. left. reflexivity.
Qed.

Lemma step_agree c r st o :
  agree_all c (msgs_op H dsz uni c r o) ->
  step H dsz uni c r st o = step H' dsz uni c r st o.
Proof.
  intros A. destruct o as [|u ma toks|]; cbn [step msgs_op] in *.
  - assert (A1 : agree_all c (msgs_identify dsz uni c r)).
    { intros m Hm. apply A. apply in_or_app. left. exact Hm. }
    pose proof (identify_pre_agree c r A1) as E.
    unfold identify. rewrite <- E.
    destruct (identify_pre H dsz uni c r) as [|ts u tk ud|] eqn:P; try reflexivity.
    destruct (reissue_time c) as [rt|]; [|reflexivity].
    destruct (negb (reissued st) && cmp_eval reissue_cmp (now2 r - 2 * ts) (2 * rt)); [|reflexivity].
    rewrite (remember_agree c (later r) u (max_age c) (filter nonempty tk)); [reflexivity|].
    intros m Hm. apply A. apply in_or_app. right. exact Hm.
  - rewrite (remember_agree c r u ma toks A). reflexivity.
  - reflexivity.
Qed.

(* run_ops consults the hash oracle only at the queries derived from msgs_op: two oracles that agree
   there (e.g. hashlib and the table shipped to the extracted model once it reports no missing query)
   give the same states and the same outputs *)
Theorem oracle_complete c r ops : forall st,
  agree_all c (flat_map (msgs_op H dsz uni c r) ops) ->
  run_ops H dsz uni c r st ops = run_ops H' dsz uni c r st ops.
Proof.
  induction ops as [|o ops IH]; intros st A; [reflexivity|].
  cbn [run_ops flat_map] in *.
  rewrite (step_agree c r st o) by (intros m Hm; apply A; apply in_or_app; left; exact Hm).
  destruct (step H' dsz uni c r st o) as [st1 x].
  rewrite IH by (intros m Hm; apply A; apply in_or_app; right; exact Hm).
  reflexivity.
Qed.

End OracleComplete.

(* ================================================================== two helpers consulted for one request *)
Section TwoHelpers.
Variable H : text -> list N -> text.
Variable dsz : text -> nat.
Variable uni : N -> N.

(* only operations on the first helper: the single-helper run *)
Lemma run_ops2_single c0 r0 c1 r1 ops : forall st,
  run_ops2 H dsz uni c0 r0 c1 r1 st (map (fun o => (false, o)) ops) = run_ops H dsz uni c0 r0 st ops.
Proof.
  induction ops as [|o ops IH]; intros st; [reflexivity|].
  cbn [map run_ops2 run_ops]. destruct (step H dsz uni c0 r0 st o) as [st1 x]. rewrite IH. reflexivity.
Qed.

(* what one answer of an operation may be, given the helper it was addressed to *)
Definition answer_ok (c : cfg) (r : req) (x : out) : Prop :=
  match x with
  | OutId (ISome _ _ _ _) => exists ck0, cookie r = Some ck0 /\ digest_ok H dsz uni c r ck0 = true
  | _ => True
  end.

Lemma step_answer_ok c r st o :
  (forall a x, forallb valid_scalar (H a x) = true) ->
  (forall ck0, cookie r = Some ck0 -> forallb valid_scalar ck0 = true) ->
  answer_ok c r (snd (step H dsz uni c r st o)).
Proof.
  intros HS Hck. destruct o as [|u ma toks|]; cbn [step].
  - destruct (identify H dsz uni c r st) as [st' res] eqn:E. cbn [snd answer_ok].
    destruct res as [|ts u tk ud|]; auto.
    destruct (cookie r) as [ck0|] eqn:Ec.
    + exists ck0. split; [reflexivity|].
      destruct (digest_ok H dsz uni c r ck0) eqn:D; [reflexivity|].
      destruct (identify_total H dsz uni c r st ck0 HS (Hck ck0 eq_refl) Ec D) as [E1 _].
      rewrite E in E1. discriminate.
    + rewrite (identify_no_cookie H dsz uni c r st Ec) in E. inversion E.
  - destruct (remember H c r u ma toks); exact I.
  - exact I.
Qed.

(* HISTORY INDEPENDENCE of acceptance: whatever either helper did earlier on the same request (identify, remember,
   forget, in any order), a helper accepts a ticket only if the ticket's digest field is the keyed digest of its other
   fields under THAT helper's secret, algorithm and address *)
Theorem two_helpers_accept_implies_digest c0 r0 c1 r1 ops : forall st,
  (forall a x, forallb valid_scalar (H a x) = true) ->
  (forall ck0, cookie r0 = Some ck0 -> forallb valid_scalar ck0 = true) ->
  (forall ck0, cookie r1 = Some ck0 -> forallb valid_scalar ck0 = true) ->
  Forall2 (fun (bo : bool * op) x => if fst bo then answer_ok c1 r1 x else answer_ok c0 r0 x)
          ops (snd (run_ops2 H dsz uni c0 r0 c1 r1 st ops)).
Proof.
  induction ops as [|[b o] ops IH]; intros st HS H0 H1; [constructor|].
  cbn [run_ops2].
  destruct b.
  - pose proof (step_answer_ok c1 r1 st o HS H1) as A. destruct (step H dsz uni c1 r1 st o) as [st1 x].
    specialize (IH st1 HS H0 H1). destruct (run_ops2 H dsz uni c0 r0 c1 r1 st1 ops) as [st2 xs].
    constructor; assumption.
  - pose proof (step_answer_ok c0 r0 st o HS H0) as A. destruct (step H dsz uni c0 r0 st o) as [st1 x].
    specialize (IH st1 HS H0 H1). destruct (run_ops2 H dsz uni c0 r0 c1 r1 st1 ops) as [st2 xs].
    constructor; assumption.
Qed.

End TwoHelpers.

Section OracleComplete2.
Variables H H' : text -> list N -> text.
Variable dsz : text -> nat.
Variable uni : N -> N.

Theorem oracle_complete2 c0 r0 c1 r1 ops : forall st,
  agree_all H H' c0 (flat_map (fun bo : bool * op => if fst bo then [] else msgs_op H dsz uni c0 r0 (snd bo)) ops) ->
  agree_all H H' c1 (flat_map (fun bo : bool * op => if fst bo then msgs_op H dsz uni c1 r1 (snd bo) else []) ops) ->
  run_ops2 H dsz uni c0 r0 c1 r1 st ops = run_ops2 H' dsz uni c0 r0 c1 r1 st ops.
Proof.
  induction ops as [|[b o] ops IH]; intros st A0 A1; [reflexivity|].
  cbn [run_ops2 flat_map fst snd] in *.
  destruct b.
  - rewrite (step_agree H H' dsz uni c1 r1 st o) by (intros m Hm; apply A1; apply in_or_app; left; exact Hm).
    destruct (step H' dsz uni c1 r1 st o) as [st1 x].
    rewrite IH; [reflexivity|exact A0|intros m Hm; apply A1; apply in_or_app; right; exact Hm].
  - rewrite (step_agree H H' dsz uni c0 r0 st o) by (intros m Hm; apply A0; apply in_or_app; left; exact Hm).
    destruct (step H' dsz uni c0 r0 st o) as [st1 x].
    rewrite IH; [reflexivity|intros m Hm; apply A0; apply in_or_app; right; exact Hm|exact A1].
Qed.

End OracleComplete2.
