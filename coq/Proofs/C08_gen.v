(* C08 -- the directive emission functions REGENERATED from src/pyramid/config/*.py on this run
   (Gen/Facts_C08.v: gen_emit_X) equal the hand-written reference model (Model/C08.v: model_emit_X), for every
   valuation of the argument atoms; the table theorems are then restated about the regenerated functions.

   The proof scripts never mention the text of the generated terms: they split on `valid` and on the four atoms of
   the primitive table and ask both sides to compute to the same list of calls.  Hence they are insensitive to the
   names of the source's locals, to the nesting and order of its tests (`if a: if b:` vs `if a and b:`, `elif` vs
   nested `if`, `a or b` split or not), to inert statements moved around, added or removed; they fail as soon as some
   valuation makes a directive declare other actions (another site, discriminator head, order=, Deferred flag,
   callable flag, another sequence) than the reference model says. *)
From Coq Require Import List NArith ZArith Bool.
Import ListNotations.
Require Import Verif.Lib.Wire Verif.Model.C08_base Verif.Gen.Facts_C08 Verif.Model.C04 Verif.Model.C08 Verif.Proofs.C08.

Ltac gen_is_model := intros v [b1 b2 b3 b4]; destruct v, b1, b2, b3, b4; vm_compute; reflexivity.

Theorem generated_emit_add_subscriber_is_model : forall v a, gen_emit_add_subscriber v a = model_emit_add_subscriber v a.
Proof. gen_is_model. Qed.
Theorem generated_emit_add_subscriber_predicate_is_model : forall v a, gen_emit_add_subscriber_predicate v a = model_emit_add_subscriber_predicate v a.
Proof. gen_is_model. Qed.
Theorem generated_emit_add_response_adapter_is_model : forall v a, gen_emit_add_response_adapter v a = model_emit_add_response_adapter v a.
Proof. gen_is_model. Qed.
Theorem generated_emit_add_traverser_is_model : forall v a, gen_emit_add_traverser v a = model_emit_add_traverser v a.
Proof. gen_is_model. Qed.
Theorem generated_emit_add_resource_url_adapter_is_model : forall v a, gen_emit_add_resource_url_adapter v a = model_emit_add_resource_url_adapter v a.
Proof. gen_is_model. Qed.
Theorem generated_emit_override_asset_is_model : forall v a, gen_emit_override_asset v a = model_emit_override_asset v a.
Proof. gen_is_model. Qed.
Theorem generated_emit_set_root_factory_is_model : forall v a, gen_emit_set_root_factory v a = model_emit_set_root_factory v a.
Proof. gen_is_model. Qed.
Theorem generated_emit_set_session_factory_is_model : forall v a, gen_emit_set_session_factory v a = model_emit_set_session_factory v a.
Proof. gen_is_model. Qed.
Theorem generated_emit_set_request_factory_is_model : forall v a, gen_emit_set_request_factory v a = model_emit_set_request_factory v a.
Proof. gen_is_model. Qed.
Theorem generated_emit_set_response_factory_is_model : forall v a, gen_emit_set_response_factory v a = model_emit_set_response_factory v a.
Proof. gen_is_model. Qed.
Theorem generated_emit_add_request_method_is_model : forall v a, gen_emit_add_request_method v a = model_emit_add_request_method v a.
Proof. gen_is_model. Qed.
Theorem generated_emit_set_execution_policy_is_model : forall v a, gen_emit_set_execution_policy v a = model_emit_set_execution_policy v a.
Proof. gen_is_model. Qed.
Theorem generated_emit_set_locale_negotiator_is_model : forall v a, gen_emit_set_locale_negotiator v a = model_emit_set_locale_negotiator v a.
Proof. gen_is_model. Qed.
Theorem generated_emit_add_translation_dirs_is_model : forall v a, gen_emit_add_translation_dirs v a = model_emit_add_translation_dirs v a.
Proof. gen_is_model. Qed.
Theorem generated_emit__add_predicate_is_model : forall v a, gen_emit__add_predicate v a = model_emit__add_predicate v a.
Proof. gen_is_model. Qed.
Theorem generated_emit_add_renderer_is_model : forall v a, gen_emit_add_renderer v a = model_emit_add_renderer v a.
Proof. gen_is_model. Qed.
Theorem generated_emit_add_route_is_model : forall v a, gen_emit_add_route v a = model_emit_add_route v a.
Proof. gen_is_model. Qed.
Theorem generated_emit_add_route_predicate_is_model : forall v a, gen_emit_add_route_predicate v a = model_emit_add_route_predicate v a.
Proof. gen_is_model. Qed.
Theorem generated_emit_set_security_policy_is_model : forall v a, gen_emit_set_security_policy v a = model_emit_set_security_policy v a.
Proof. gen_is_model. Qed.
Theorem generated_emit_set_authentication_policy_is_model : forall v a, gen_emit_set_authentication_policy v a = model_emit_set_authentication_policy v a.
Proof. gen_is_model. Qed.
Theorem generated_emit_set_authorization_policy_is_model : forall v a, gen_emit_set_authorization_policy v a = model_emit_set_authorization_policy v a.
Proof. gen_is_model. Qed.
Theorem generated_emit_set_default_permission_is_model : forall v a, gen_emit_set_default_permission v a = model_emit_set_default_permission v a.
Proof. gen_is_model. Qed.
Theorem generated_emit_add_permission_is_model : forall v a, gen_emit_add_permission v a = model_emit_add_permission v a.
Proof. gen_is_model. Qed.
Theorem generated_emit_set_default_csrf_options_is_model : forall v a, gen_emit_set_default_csrf_options v a = model_emit_set_default_csrf_options v a.
Proof. gen_is_model. Qed.
Theorem generated_emit_set_csrf_storage_policy_is_model : forall v a, gen_emit_set_csrf_storage_policy v a = model_emit_set_csrf_storage_policy v a.
Proof. gen_is_model. Qed.
Theorem generated_emit_add_tween_is_model : forall v a, gen_emit_add_tween v a = model_emit_add_tween v a.
Proof. gen_is_model. Qed.
Theorem generated_emit__add_tween_is_model : forall v a, gen_emit__add_tween v a = model_emit__add_tween v a.
Proof. gen_is_model. Qed.
Theorem generated_emit_add_view_is_model : forall v a, gen_emit_add_view v a = model_emit_add_view v a.
Proof. gen_is_model. Qed.
Theorem generated_emit_add_view_predicate_is_model : forall v a, gen_emit_add_view_predicate v a = model_emit_add_view_predicate v a.
Proof. gen_is_model. Qed.
Theorem generated_emit_add_accept_view_order_is_model : forall v a, gen_emit_add_accept_view_order v a = model_emit_add_accept_view_order v a.
Proof. gen_is_model. Qed.
Theorem generated_emit_add_view_deriver_is_model : forall v a, gen_emit_add_view_deriver v a = model_emit_add_view_deriver v a.
Proof. gen_is_model. Qed.
Theorem generated_emit_set_view_mapper_is_model : forall v a, gen_emit_set_view_mapper v a = model_emit_set_view_mapper v a.
Proof. gen_is_model. Qed.
Theorem generated_emit_add_forbidden_view_is_model : forall v a, gen_emit_add_forbidden_view v a = model_emit_add_forbidden_view v a.
Proof. gen_is_model. Qed.
Theorem generated_emit_add_notfound_view_is_model : forall v a, gen_emit_add_notfound_view v a = model_emit_add_notfound_view v a.
Proof. gen_is_model. Qed.
Theorem generated_emit_add_exception_view_is_model : forall v a, gen_emit_add_exception_view v a = model_emit_add_exception_view v a.
Proof. gen_is_model. Qed.
Theorem generated_emit_add_static_view_is_model : forall v a, gen_emit_add_static_view v a = model_emit_add_static_view v a.
Proof. gen_is_model. Qed.
Theorem generated_emit_add_cache_buster_is_model : forall v a, gen_emit_add_cache_buster v a = model_emit_add_cache_buster v a.
Proof. gen_is_model. Qed.
Theorem generated_emit_static_info_add_is_model : forall v a, gen_emit_static_info_add v a = model_emit_static_info_add v a.
Proof. gen_is_model. Qed.
Theorem generated_emit_static_info_add_cache_buster_is_model : forall v a, gen_emit_static_info_add_cache_buster v a = model_emit_static_info_add_cache_buster v a.
Proof. gen_is_model. Qed.

(* all of them at once, in the order of the directive codes used on the wire *)
Theorem generated_directives_are_model :
  Forall2 (fun g m => forall v a, g v a = m v a) generated_directives model_directives.
Proof.
  unfold generated_directives, model_directives.
  repeat (constructor; [first [exact generated_emit_add_subscriber_is_model | exact generated_emit_add_subscriber_predicate_is_model | exact generated_emit_add_response_adapter_is_model | exact generated_emit_add_traverser_is_model | exact generated_emit_add_resource_url_adapter_is_model | exact generated_emit_override_asset_is_model | exact generated_emit_set_root_factory_is_model | exact generated_emit_set_session_factory_is_model | exact generated_emit_set_request_factory_is_model | exact generated_emit_set_response_factory_is_model | exact generated_emit_add_request_method_is_model | exact generated_emit_set_execution_policy_is_model | exact generated_emit_set_locale_negotiator_is_model | exact generated_emit_add_translation_dirs_is_model | exact generated_emit__add_predicate_is_model | exact generated_emit_add_renderer_is_model | exact generated_emit_add_route_is_model | exact generated_emit_add_route_predicate_is_model | exact generated_emit_set_security_policy_is_model | exact generated_emit_set_authentication_policy_is_model | exact generated_emit_set_authorization_policy_is_model | exact generated_emit_set_default_permission_is_model | exact generated_emit_add_permission_is_model | exact generated_emit_set_default_csrf_options_is_model | exact generated_emit_set_csrf_storage_policy_is_model | exact generated_emit_add_tween_is_model | exact generated_emit__add_tween_is_model | exact generated_emit_add_view_is_model | exact generated_emit_add_view_predicate_is_model | exact generated_emit_add_accept_view_order_is_model | exact generated_emit_add_view_deriver_is_model | exact generated_emit_set_view_mapper_is_model | exact generated_emit_add_forbidden_view_is_model | exact generated_emit_add_notfound_view_is_model | exact generated_emit_add_exception_view_is_model | exact generated_emit_add_static_view_is_model | exact generated_emit_add_cache_buster_is_model | exact generated_emit_static_info_add_is_model | exact generated_emit_static_info_add_cache_buster_is_model]|]).
  constructor.
Qed.

(* ------------------------------------------------------------------ the table theorems, about the GENERATED functions *)
Definition all_dargs : list dargs :=
  flat_map (fun b1 => flat_map (fun b2 => flat_map (fun b3 => map (fun b4 => mkDargs b1 b2 b3 b4) [true; false])
                                                   [true; false]) [true; false]) [true; false].
(* every call any regenerated directive can make (valid arguments) *)
Definition all_generated_calls : list call :=
  flat_map (fun g => flat_map (fun a => match g true a with Some l => l | None => [] end) all_dargs) generated_directives.

Definition row_named (n : text) : option row := find (fun r => text_eqb (rname r) n) rows.
Definition call_in_table (c : call) : bool :=
  match row_named (k_site c) with
  | Some r => Z.eqb (rphase r) (k_order c) && Bool.eqb (rdeferred r) (k_deferred c)
  | None => false
  end.

(* the two regenerations agree: every call of a regenerated directive is a row of the regenerated site table with
   that order= value and Deferred flag, and every site of the table is declared by some regenerated directive *)
Theorem generated_calls_are_the_table :
  forallb call_in_table all_generated_calls = true /\
  forallb (fun s => existsb (fun c => text_eqb (k_site c) (fst (fst s))) all_generated_calls) sites = true.
Proof. vm_compute. split; reflexivity. Qed.

(* a statement instantiates a regenerated call: its phase is the call's order=, its reads and writes lie inside the
   declared row of the call's site *)
Definition conforms_call (c : call) (r : row) (s : stmt) : bool :=
  Z.eqb (sphase s) (k_order c) &&
  forallb (fun k => memN (fam_of k) (rreads r) || (rdeferred r && memN (fam_of k) (rdisc r))) (sreads s) &&
  forallb (fun k => existsb (fun w => N.eqb (fst w) (fam_of k) && N.eqb (snd w) (mode_code (smode s))) (rwrites r)) (swrites s).

Lemma row_named_In n r : row_named n = Some r -> In r rows /\ rname r = n.
Proof.
  unfold row_named. intros H. apply find_some in H. destruct H as [H1 H2]. split; [exact H1|].
  apply text_eqb_eq in H2. exact H2.
Qed.

(* phase discipline for every program made of calls of the REGENERATED directives *)
Theorem generated_programs_H2 : forall (l : list (call * stmt)),
  (forall p, In p l -> In (fst p) all_generated_calls /\
                       exists r, row_named (k_site (fst p)) = Some r /\ conforms_call (fst p) r (snd p) = true) ->
  H2 (map snd l).
Proof.
  intros l Hl.
  pose proof (proj1 generated_calls_are_the_table) as HT. rewrite forallb_forall in HT.
  assert (HR : forall p, In p l -> exists r, In r rows /\ conforms r (snd p) = true).
  { intros p Hp. destruct (Hl p Hp) as [Hg [r [Hn Hc]]].
    exists r. split; [exact (proj1 (row_named_In _ _ Hn))|].
    specialize (HT _ Hg). unfold call_in_table in HT. rewrite Hn in HT.
    apply andb_true_iff in HT. destruct HT as [Hph _]. apply Z.eqb_eq in Hph.
    unfold conforms_call in Hc. unfold conforms.
    apply andb_true_iff in Hc. destruct Hc as [Hc Hw]. apply andb_true_iff in Hc. destruct Hc as [Hp0 Hr].
    rewrite Hr, Hw, Hph. rewrite Hp0. reflexivity. }
  (* choose the rows *)
  assert (HX : exists rl : list (row * stmt), map snd rl = map snd l /\
               forall q, In q rl -> In (fst q) rows /\ conforms (fst q) (snd q) = true).
  { clear Hl HT. induction l as [|p t IH].
    - exists []. split; [reflexivity|intros q []].
    - destruct IH as [rl [E F]]; [intros q Hq; apply HR; right; exact Hq|].
      destruct (HR p (or_introl eq_refl)) as [r [Hr Hc]].
      exists ((r, snd p) :: rl). split; [simpl; rewrite E; reflexivity|].
      intros q [<-|Hq]; [split; assumption|apply F; exact Hq]. }
  destruct HX as [rl [E F]]. rewrite <- E. apply table_programs_H2. exact F.
Qed.

(* ------------------------------------------------------------------ the registration path *)
Theorem generated_state_action_is_model : forall w d cb o p info intrs,
  gen_state_action w d cb o p info intrs = model_state_action w d cb o p info intrs.
Proof. intros. reflexivity. Qed.

Theorem generated_commit_is_model : forall w, gen_commit w = model_commit w.
Proof. intros. reflexivity. Qed.

(* a loop of the generated text that registers the introspectables one after the other and then ends the scope *)
Ltac loop_is_fold :=
  match goal with
  | |- ?F ?l ?x = p_end (fold_left ?g ?l ?x) =>
      generalize x; induction l as [|y r IH]; intros x0; [reflexivity|]; cbn [fold_left]; rewrite <- IH; reflexivity
  end.

Theorem generated_cfg_action_is_model : forall w d cb o intrs,
  gen_cfg_action w d cb o intrs = model_cfg_action w d cb o intrs.
Proof.
  intros. unfold gen_cfg_action, model_cfg_action.
  rewrite ?generated_state_action_is_model.
  destruct (w_introspection w), (w_autocommit w), cb; cbv zeta; try reflexivity; loop_is_fold.
Qed.

(* restated about the GENERATED function: outside autocommit a directive's action request is queued, once, with the
   configurator's include chain, the order= given, and nothing is executed *)
Theorem generated_action_queues : forall w d cb o intrs,
  w_autocommit w = false ->
  w_pending (gen_cfg_action w d cb o intrs) =
    w_pending w ++ [mkQ d cb o (w_includepath w) (w_info w) (if w_introspection w then intrs else [])] /\
  w_log (gen_cfg_action w d cb o intrs) = w_log w.
Proof.
  intros w d cb o intrs H. rewrite generated_cfg_action_is_model. unfold model_cfg_action. rewrite H.
  cbv zeta. split; reflexivity.
Qed.
