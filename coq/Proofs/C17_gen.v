(* C17 -- the definitions REGENERATED from the source on this run (Gen/Code_C17.v, the gen_ definitions) equal the
   hand-written reference model (Model/C17.v), for all inputs; property theorems of Proofs/C17.v are then
   restated about the regenerated program.

   The scripts never mention the text of the generated terms: they unfold the two sides, split on the
   constructors of the inputs and on every ATOM ([if] condition) that is left, and ask that both sides
   compute to the same term (lists modulo associativity of ++); loops are taken apart by pattern and proved
   by one induction each.  They are therefore insensitive to the names of locals, to elif vs nested if,
   to and-splitting, to the order of independent tests and statements. *)
From Coq Require Import List NArith ZArith Bool Lia.
Import ListNotations.
Require Import Verif.Lib.Wire Verif.Lib.Text Verif.Lib.Utf8 Verif.Lib.Percent
               Verif.Gen.Facts_C17 Verif.Model.C17 Verif.Gen.Code_C17 Verif.Proofs.C17.
Open Scope N_scope.

(* str(int) is ASCII: encoding it cannot fail and changes nothing *)
Lemma encode_ascii t : Forall ascii t -> forallb valid_scalar t = true /\ encode t = t.
Proof.
  induction 1 as [|c r Hc _ [IH1 IH2]]; [split; reflexivity|]. unfold ascii in Hc. split.
  - simpl. rewrite IH1, andb_true_r. unfold valid_scalar. apply orb_true_iff. left. apply N.ltb_lt. lia.
  - unfold encode in *. simpl. rewrite IH2. unfold encode1.
    assert (E : (c <? 128) = true) by (apply N.ltb_lt; exact Hc). rewrite E. reflexivity.
Qed.
Lemma utf8_enc_show_Z z : utf8_enc (show_Z z) = Ok (show_Z z).
Proof.
  destruct (encode_ascii _ (show_Z_ascii z)) as [H1 H2]. unfold utf8_enc. rewrite H1, H2. reflexivity.
Qed.

(* split on every remaining [if] condition / option match, on both sides *)
Ltac split_ifs :=
  repeat match goal with
         | |- context [if ?c then _ else _] =>
             lazymatch c with
             | true => fail | false => fail
             | _ => let E := fresh "E" in destruct c eqn:E
             end
         end.

(* ------------------------------------------------------------ encode.url_quote / quote_plus *)
Theorem gen_url_quote_is_model safe v : gen_url_quote safe v = url_quote safe v.
Proof.
  unfold gen_url_quote, url_quote, to_bytes.
  destruct v; cbn [is_str is_bytes str_text bytes_of pstr]; rewrite ?utf8_enc_show_Z; reflexivity.
Qed.

Theorem gen_quote_plus_is_model v : gen_quote_plus quote_plus_default_safe v = quote_plus v.
Proof.
  unfold gen_quote_plus, quote_plus, to_bytes.
  destruct v; cbn [is_str is_bytes str_text bytes_of pstr]; rewrite ?utf8_enc_show_Z; reflexivity.
Qed.

(* ------------------------------------------------------------ the *_path glue *)
Theorem gen_route_path_is_model c e xs rs n els o kw :
  gen_route_path c e xs rs n els o kw = route_path_x c e xs rs n els o kw.
Proof. reflexivity. Qed.
Theorem gen_resource_path_is_model c e rs names els o vroot rn :
  gen_resource_path c e rs names els o vroot rn = resource_path_x c e rs names els o vroot rn.
Proof. reflexivity. Qed.
Theorem gen_static_path_is_model e rs regs path o kw : gen_static_path e rs regs path o kw = static_path_x e rs regs path o kw.
Proof. reflexivity. Qed.
Theorem gen_current_route_path_is_model c e xs rs rname matched md gt els o kw :
  gen_current_route_path c e xs rs rname matched md gt els o kw = current_route_path_x c e xs rs rname matched md gt els o kw.
Proof. reflexivity. Qed.

(* routes whose pattern is not a full URL: the _x functions are the plain ones *)
Lemma route_url_x_plain c e xs rs n els o kw : assoc n xs = None -> route_url_x c e xs rs n els o kw = route_url c e rs n els o kw.
Proof. intros H. unfold route_url_x. rewrite H. destruct (assoc n rs); reflexivity. Qed.
Lemma route_path_x_plain c e xs rs n els o kw : assoc n xs = None -> route_path_x c e xs rs n els o kw = route_path c e rs n els o kw.
Proof. intros H. unfold route_path_x, route_path. destruct (path_app_url _ e); simpl; [apply route_url_x_plain; assumption|reflexivity]. Qed.

(* a route registered with a full URL: the result starts with <scheme>://<netloc of the pattern> -- port and userinfo
   included -- where the scheme is _scheme, else the pattern's, else the request's; an _app_url (every *_path form) is refused *)
Theorem external_route_authority c e xs rs n els o kw x u :
  assoc n xs = Some x -> route_url_x c e xs rs n els o kw = Ok u ->
  o_app_url o = None /\ exists rest, u = ext_app_url e o x ++ rest.
Proof.
  intros Hx H. unfold route_url_x in H. rewrite Hx in H. destruct (assoc n rs) eqn:Er.
  - destruct (o_app_url o) eqn:Eo; [discriminate|]. split; [reflexivity|].
    eapply app_url_precedence; [|eassumption]. reflexivity.
  - unfold route_url in H. rewrite Er in H. discriminate.
Qed.
Theorem external_route_path_refused c e xs rs n els o kw x p :
  assoc n xs = Some x -> assoc n rs <> None -> route_path_x c e xs rs n els o kw = Ok p -> False.
Proof.
  intros Hx Hr H. unfold route_path_x in H. destruct (path_app_url _ e); simpl in H; [|discriminate].
  unfold route_url_x in H. rewrite Hx in H. destruct (assoc n rs); [discriminate|contradiction].
Qed.

(* ------------------------------------------------------------ _partial_application_url, parse_url_overrides, urlencode *)
Lemma text_eqb_true a b : text_eqb a b = true -> a = b.
Proof. apply text_eqb_eq. Qed.

Ltac norm := cbn [onone oget otruthy ttruthy rbind] in *.
Ltac split1 :=
  match goal with
  | |- context [if ?c then _ else _] =>
      lazymatch c with
      | context [if _ then _ else _] => fail
      | true => fail
      | false => fail
      | _ => destruct c eqn:?
      end
  end.
Ltac split_all := norm; repeat (split1; norm; try discriminate).
Ltac close_texts :=
  repeat match goal with
         | H : text_eqb ?a ?b = true |- _ => apply text_eqb_true in H; subst
         end;
  repeat match goal with
         | H : text_eqb ?a ?b = _ |- _ =>
             first [ is_var a; fail 1 | is_var b; fail 1 | vm_compute in H; try discriminate; clear H ]
         end.
Ltac fin :=
  try discriminate; try congruence;
  repeat match goal with
         | |- context [match ?x with [] => _ | _ :: _ => _ end] => is_var x; destruct x
         | H : context [match ?x with [] => _ | _ :: _ => _ end] |- _ => is_var x; destruct x
         end;
  norm; try discriminate;
  unfold scheme_sep, port_sep; rewrite <- ?app_assoc; try reflexivity; try congruence.



Ltac case_vars :=
  repeat match goal with
         | |- context [match ?x with _ => _ end] => is_var x; destruct x
         end.


Ltac dq := match goal with |- context [rbind (quote_via ?a) _] => destruct (quote_via a); cbn [rbind]; [|reflexivity] end.
Ltac texts := unfold kv_sep, pair_sep; rewrite ?app_nil_r, <- ?app_assoc; cbn [app].
Theorem gen_partial_application_url_is_model e s h p :
  gen_partial_application_url e s h p = partial_application_url e s h p.
Proof.
  unfold gen_partial_application_url, partial_application_url, partial_host_url, elide, with_port, has_colon.
  cbv zeta.
  destruct (quoted_script_name e) as [sn|]; cbn [rbind]; [|reflexivity].
  f_equal. f_equal.
  destruct s as [s|], h as [h|], p as [p|], (e_http_host e) as [hh|]; cbn [onone oget lookup implied_ports elided_ports].
  all: split_all.
  all: close_texts.
  all: fin.
Qed.

Theorem gen_parse_url_overrides_is_model e o : gen_parse_url_overrides e o = parse_url_overrides e o.
Proof.
  unfold gen_parse_url_overrides, parse_url_overrides, host_part, query_string, fragment,
    partial_application_url, application_url, ov_query, ov_anchor, onone, oget, query_truthy, q_is_str, q_text, q_pairs.
  destruct o as [oa os oh op oq of]; cbn [o_app_url o_scheme o_host o_port o_query o_anchor].
  destruct (quoted_script_name e); cbn [rbind];
  case_vars; cbn [rbind truthy]; try reflexivity.
Qed.

Theorem gen_urlencode_is_model l : gen_urlencode l = urlencode l.
Proof.
  unfold gen_urlencode, urlencode.
  match goal with
  | |- ?F l [] [] = _ =>
      enough (H : forall l r p, F l r p = rlet st := urlencode_loop (r, p) l in Ok (fst st)) by apply H
  end.
  clear l. induction l as [|kv t IH]; intros r p; [reflexivity|].
  cbn [urlencode_loop]. unfold urlencode_step.
  destruct (quote_via (fst kv)) as [k|]; cbn [rbind]; [|reflexivity].
  destruct kv as [key v]; cbn [fst snd].
  assert (HG : forall G : list pval -> text -> text -> res text,
             (forall r p, G [] r p = rlet st := urlencode_loop (r, [38]) t in Ok (fst st)) ->
             (forall x l2 r p, G (x :: l2) r p =
                               rlet q := quote_via x in G l2 (r ++ p ++ k ++ [61] ++ q) [38]) ->
             forall l2 r p, G l2 r p = rlet st2 := emit_seq (r, p) k l2 in
                                        rlet st := urlencode_loop (fst st2, [38]) t in Ok (fst st)).
  { intros G G0 G1. induction l2 as [|x l2 IH2]; intros r0 p0; [rewrite G0; reflexivity|].
    rewrite G1. cbn [emit_seq]. destruct (quote_via x) as [q|]; cbn [rbind]; [|reflexivity].
    rewrite IH2. unfold emit. cbn [fst snd]. texts. reflexivity. }
  destruct v as [|x|l2].
  - cbn [qv_iter qv_none qv_scalar qv_items rbind]. rewrite IH. unfold emit. cbn [fst snd rbind]. texts. reflexivity.
  - destruct x; cbn [qv_iter qv_none qv_scalar qv_items rbind];
      try (dq; rewrite IH; unfold emit; cbn [fst snd rbind]; texts; reflexivity).
    match goal with
    | |- ?G ?items r p = _ => rewrite (HG G)
    end.
    + destruct (emit_seq _ _ _); reflexivity.
    + intros. cbn -[quote_via app urlencode_loop]. apply IH.
    + intros. cbn -[quote_via app]. dq. texts. reflexivity.
  - cbn [qv_iter qv_none qv_scalar qv_items rbind].
    match goal with
    | |- ?G ?items r p = _ => rewrite (HG G)
    end.
    + destruct (emit_seq _ _ _); reflexivity.
    + intros. cbn -[quote_via app urlencode_loop]. apply IH.
    + intros. cbn -[quote_via app]. dq. texts. reflexivity.
Qed.

(* ------------------------------------------------------------ the property theorems, about the regenerated program *)
Theorem gen_query_roundtrip l s ps :
  Forall wf_pair l -> gen_urlencode l = Ok s -> spec_pairs l = Some ps -> parse_qsl s = Some ps /\ ~ In 35 s.
Proof. rewrite gen_urlencode_is_model. apply query_roundtrip. Qed.

Theorem gen_urlencode_chars l s : Forall wf_pair l -> gen_urlencode l = Ok s -> Forall qc s /\ pct_ok s = true.
Proof. rewrite gen_urlencode_is_model. intros Hw H. split; [eapply urlencode_chars|eapply urlencode_pct]; eassumption. Qed.

Theorem gen_url_quote_roundtrip safe v q a :
  ascii_set safe -> is_safe safe 37 = false -> wf_val v ->
  gen_url_quote safe v = Ok q -> spec_text v = Some a -> unquote_text q = Some a.
Proof. rewrite gen_url_quote_is_model. apply url_quote_roundtrip. Qed.

(* the regenerated decision chain is the declarative scheme://host[:port] rule, followed by the quoted script name *)
Theorem gen_overrides_honoured e s h p :
  gen_partial_application_url e s h p = rlet sn := quoted_script_name e in Ok (spec_authority e s h p ++ sn).
Proof. rewrite gen_partial_application_url_is_model. unfold partial_application_url. rewrite overrides_honoured. reflexivity. Qed.

Theorem gen_route_path_is_url_minus_authority c e xs rs n els o kw u :
  assoc n xs = None -> o_app_url o = None -> route_url c e rs n els o kw = Ok u ->
  exists p, gen_route_path c e xs rs n els o kw = Ok p /\ u = host_part e o ++ p.
Proof. intros Hx. rewrite gen_route_path_is_model, route_path_x_plain by assumption. apply route_path_is_url_minus_authority. Qed.

Theorem gen_current_route_path_is_url_minus_authority c e xs rs rname matched md gt els o kw u :
  (forall n, assoc n xs = None) ->
  o_app_url o = None -> current_route_url c e rs rname matched md gt els o kw = Ok u ->
  exists p, gen_current_route_path c e xs rs rname matched md gt els o kw = Ok p /\ u = host_part e o ++ p.
Proof.
  intros Hx Ho H. rewrite gen_current_route_path_is_model.
  assert (E : current_route_path_x c e xs rs rname matched md gt els o kw = current_route_path c e rs rname matched md gt els o kw).
  { unfold current_route_path_x, current_route_path. destruct (path_app_url _ e); simpl; [|reflexivity].
    unfold current_route_url_x, current_route_url. destruct (match rname with Some n => Some n | None => matched end); [|reflexivity].
    apply route_url_x_plain, Hx. }
  rewrite E. apply current_route_path_is_url_minus_authority; assumption.
Qed.

(* parse_url_overrides, regenerated: application URL first, then '?' query, then '#' fragment, each as specified *)
Theorem gen_parse_url_overrides_spec e o app qs fr :
  wf_query (o_query o) -> wf_anchor (o_anchor o) ->
  gen_parse_url_overrides e o = Ok (app, qs, fr) ->
  parse_app e o = Ok app
  /\ (exists qt, ((qs = [] /\ qt = []) \/ qs = 63 :: qt) /\ ~ In 35 qt /\ Forall qc qt /\ query_decodes (o_query o) qt)
  /\ (exists f, ((fr = [] /\ f = []) \/ fr = 35 :: f) /\ Forall qc f
                /\ (forall t, spec_anchor (o_anchor o) = Some t -> unquote_text f = Some t)).
Proof.
  rewrite gen_parse_url_overrides_is_model, parse_url_overrides_eq. intros Hq Ha H.
  apply rbind_ok in H. destruct H as (app' & Happ & H). apply rbind_ok in H. destruct H as ([qs' fr'] & Ht & H).
  inversion H; subst. clear H. unfold tail_parts in Ht. apply rbind_ok in Ht. destruct Ht as (q0 & Hqs & Ht).
  apply rbind_ok in Ht. destruct Ht as (f0 & Hfr & Ht). inversion Ht; subst.
  split; [assumption|]. split; [apply query_string_spec; assumption|apply fragment_spec; assumption].
Qed.
