(* C20 -- the program REGENERATED from src/pyramid/registry.py and
   src/pyramid/config/actions.py on this run (Gen/Facts_C20.v: gen_add, gen_get,
   gen_get_category, gen_categories, gen_remove, gen_intrs_by_pairs, gen_relate,
   gen_unrelate, gen_related, gen_intr_relate, gen_intr_unrelate, gen_register,
   gen_exec_register, gen_action_filter) equals the hand-written reference
   model (Model/C20.v), for all inputs and all states (gen_remove: all states in
   which entries are stored under their own key, which every reachable state is).

   The proof scripts never mention the text of the generated terms: loops are
   taken apart by pattern ([?F l s], [?F l s []]), one induction per loop, case
   splits on the atoms the primitive table can produce ([if], [match] on options
   and call outcomes); the laws of the primitives (setdefault, aliases) are
   lemmas about Model/C20_base.v proved once.  So they are insensitive to the
   names of locals, the nesting / order of tests, [elif] vs nested [if], and
   to independent statements moved; they fail as soon as some valuation of the
   atoms leads the regenerated program to another state or result. *)
From Coq Require Import List NArith ZArith Bool Lia.
Import ListNotations.
Require Import Verif.Lib.Wire Verif.Lib.C20Types Verif.Gen.Facts_C20 Verif.Model.C20
  Verif.Proofs.C20 Verif.Proofs.C20_wf.

(* ------------------------------------------------------------ laws of the primitives *)
Lemma cont_eq_refl x : cont_eq x x = true.
Proof. unfold cont_eq. rewrite N.eqb_refl. reflexivity. Qed.
Lemma key_eq_refl x : key_eq x x = true.
Proof. unfold key_eq. rewrite !text_eqb_refl, cont_eq_refl. reflexivity. Qed.

Lemma assoc_set_twice {B} k (v w : B) l : assoc_set k v (assoc_set k w l) = assoc_set k v l.
Proof.
  induction l as [|[k' v'] r IH]; simpl.
  - rewrite text_eqb_refl. reflexivity.
  - destruct (text_eqb k k') eqn:E; simpl; [rewrite text_eqb_refl; reflexivity|rewrite E, IH; reflexivity].
Qed.

Lemma assoc_set_setdefault {B} k (v w : B) l : assoc_set k v (assoc_setdefault k w l) = assoc_set k v l.
Proof. unfold assoc_setdefault. destruct (assoc k l); [reflexivity|apply assoc_set_twice]. Qed.

Lemma cat_at_setdefault cs c : cat_at (assoc_setdefault c [] cs) c = cat_at cs c.
Proof.
  unfold cat_at, assoc_setdefault. destruct (assoc c cs) eqn:E; [rewrite E; reflexivity|].
  rewrite assoc_set_same. reflexivity.
Qed.

Lemma refs_get_set_same x v rf : refs_get x (refs_set x v rf) = Some v.
Proof.
  induction rf as [|[k w] r IH]; simpl.
  - rewrite key_eq_refl. reflexivity.
  - destruct (key_eq x k) eqn:E; simpl; rewrite E; [reflexivity|exact IH].
Qed.

Lemma refs_set_twice x v w rf : refs_set x v (refs_set x w rf) = refs_set x v rf.
Proof.
  induction rf as [|[k u] r IH]; simpl.
  - rewrite key_eq_refl. reflexivity.
  - destruct (key_eq x k) eqn:E; simpl; rewrite E; [reflexivity|rewrite IH; reflexivity].
Qed.

Lemma refs_set_same_value x v rf : refs_get x rf = Some v -> refs_set x v rf = rf.
Proof.
  induction rf as [|[k u] r IH]; simpl; [discriminate|].
  destruct (key_eq x k) eqn:E; [intros H; inversion H; reflexivity|intros H; rewrite (IH H); reflexivity].
Qed.

Lemma refs_at_setdefault x rf : refs_at (refs_setdefault x [] rf) x = refs_at rf x.
Proof.
  unfold refs_at, refs_setdefault. destruct (refs_get x rf) eqn:E; [rewrite E; reflexivity|].
  rewrite refs_get_set_same. reflexivity.
Qed.

Lemma refs_set_setdefault x v rf : refs_set x v (refs_setdefault x [] rf) = refs_set x v rf.
Proof. unfold refs_setdefault. destruct (refs_get x rf); [reflexivity|apply refs_set_twice]. Qed.

Lemma refs_setdefault_as_set x rf : refs_setdefault x [] rf = refs_set x (refs_at rf x) rf.
Proof.
  unfold refs_setdefault, refs_at. destruct (refs_get x rf) eqn:E; [|reflexivity].
  symmetry. apply refs_set_same_value. exact E.
Qed.

Lemma mem_remove_first y l : mem_intr y l = (match remove_first y l with Some _ => true | None => false end).
Proof.
  induction l as [|e r IH]; simpl; [reflexivity|].
  destruct (cont_eq y e); simpl; [reflexivity|]. rewrite IH. destruct (remove_first y r); reflexivity.
Qed.

(* one step of relate / unrelate, written with the primitives the table uses *)
Lemma relate1_prims rf x y :
  relate1 rf (x, y) =
  if same_obj x y then refs_setdefault x [] rf
  else if mem_intr y (refs_at rf x) then refs_setdefault x [] rf
       else refs_set x (refs_at rf x ++ [y]) rf.
Proof.
  unfold relate1, same_obj. fold (refs_at rf x). rewrite refs_setdefault_as_set.
  destruct (N.eqb (iid x) (iid y)); simpl; [reflexivity|].
  destruct (mem_intr y (refs_at rf x)); reflexivity.
Qed.

Lemma unrelate1_prims rf x y :
  unrelate1 rf (x, y) =
  match remove_first y (refs_at rf x) with
  | Some l' => refs_set_if_present x l' rf
  | None => rf
  end.
Proof.
  unfold unrelate1, refs_at, refs_set_if_present. destruct (refs_get x rf); simpl; [|reflexivity].
  destruct (remove_first y l); reflexivity.
Qed.

(* reduction leaves the table's primitives folded, so that their laws apply whatever the shape of the generated text *)
Local Arguments refs_setdefault : simpl never.
Local Arguments assoc_setdefault : simpl never.
Local Arguments refs_set_if_present : simpl never.
Local Arguments refs_at : simpl never.
Local Arguments same_obj : simpl never.

Ltac split_ifs :=
  repeat match goal with
         | |- context [if ?b then _ else _] => destruct b eqn:?
         end.

Definition unit_res (o : option err) : res unit := match o with None => Ok tt | Some e => Err e end.
Definition res_of {A} (p : st * res A) : res st := match p with (s', Ok _) => Ok s' | (_, Err e) => Err e end.

(* ------------------------------------------------------------ add / get / related / categories *)
Theorem gen_add_is_model s i : gen_add s i = (add s i, Ok tt).
Proof.
  unfold gen_add, add, cat_of. rewrite ?cat_at_setdefault, ?assoc_set_setdefault. unfold cat_at.
  destruct s; reflexivity.
Qed.

Theorem gen_get_is_model s c d : gen_get s c d = (fst (get s c d), Ok (snd (get s c d))).
Proof.
  unfold gen_get, get, cat_of, entry_get. rewrite ?cat_at_setdefault. unfold cat_at, assoc_setdefault.
  destruct s as [cs rf n]; simpl. destruct (assoc c cs); reflexivity.
Qed.

Theorem gen_related_is_model s i : gen_related s i = (s, related s i).
Proof.
  unfold gen_related, related, lookup, cat_of, entry_get, cat_at, refs_at. destruct s as [cs rf n]; simpl.
  destruct (assoc (icat i) cs) as [l|]; simpl;
    [destruct (assoc (idisc i) l) as [[j o]|]|]; reflexivity.
Qed.

Theorem gen_categories_is_model s : gen_categories s = (s, Ok (categories s)).
Proof. unfold gen_categories, categories. destruct s; reflexivity. Qed.

(* ------------------------------------------------------------ get_category *)
Theorem gen_get_category_is_model s c : gen_get_category s c = (s, get_category_rows s c).
Proof.
  unfold gen_get_category, get_category_rows, get_category, cat_at.
  destruct (assoc c (cats s)) as [l0|] eqn:E; [|destruct s; reflexivity].
  match goal with
  | |- ?F ?l00 s [] = _ =>
      enough (H : forall l st acc, F l st acc =
                  (st, match related_rows st l with Ok r => Ok (Some (acc ++ r)) | Err e => Err e end))
        by (rewrite H; reflexivity)
  end.
  induction l as [|x r IH]; intros st acc; simpl.
  - rewrite app_nil_r. destruct st; reflexivity.
  - rewrite gen_related_is_model. destruct (related st (fst x)) as [rl|e]; [|destruct st; reflexivity].
    rewrite IH. destruct (related_rows st r); [rewrite <- app_assoc|]; reflexivity.
Qed.

Lemma related_rows_fst s l r : related_rows s l = Ok r -> map fst r = l.
Proof.
  revert r. induction l as [|x t IH]; simpl; intros r H; [inversion H; reflexivity|].
  destruct (related s (fst x)); [|discriminate]. destruct (related_rows s t) as [t'|]; [|discriminate].
  inversion H; subst. simpl. rewrite (IH t' eq_refl). reflexivity.
Qed.

(* what the correspondence run observes of get_category (objects and order) is the model's get_category *)
Theorem gen_get_category_objects s c s' r :
  gen_get_category s c = (s', Ok r) -> s' = s /\ option_map (map fst) r = get_category s c.
Proof.
  rewrite gen_get_category_is_model. unfold get_category_rows. intros H. inversion H; subst. split; [reflexivity|].
  destruct (get_category s' c) as [l|]; [|inversion H2; reflexivity].
  destruct (related_rows s' l) eqn:E; inversion H2; subst. simpl. rewrite (related_rows_fst _ _ _ E). reflexivity.
Qed.

(* ------------------------------------------------------------ _get_intrs_by_pairs *)
Theorem gen_intrs_by_pairs_is_model s ps : gen_intrs_by_pairs s ps = (s, intrs_by_pairs s ps).
Proof.
  unfold gen_intrs_by_pairs.
  match goal with
  | |- ?F ps s [] = _ =>
      enough (H : forall l st acc, F l st acc =
                  (st, match intrs_by_pairs st l with Ok r => Ok (acc ++ r) | Err e => Err e end))
        by (rewrite H; destruct (intrs_by_pairs s ps); reflexivity)
  end.
  induction l as [|[c d] r IH]; intros st acc; simpl.
  - rewrite app_nil_r. destruct st; reflexivity.
  - unfold lookup, cat_of, entry_get, cat_at.
    destruct (assoc c (cats st)) as [l0|]; simpl;
      [destruct (assoc d l0) as [[j o]|]; simpl|]; try (destruct st; reflexivity).
    rewrite IH. destruct (intrs_by_pairs st r); [rewrite <- app_assoc|]; reflexivity.
Qed.

(* ------------------------------------------------------------ relate / unrelate *)
Theorem gen_relate_is_model s ps :
  gen_relate s ps = match relate s ps with Ok s' => (s', Ok tt) | Err e => (s, Err e) end.
Proof.
  unfold gen_relate, relate. rewrite gen_intrs_by_pairs_is_model.
  destruct (intrs_by_pairs s ps) as [l|e]; [|reflexivity].
  change (product l) with (pairs_of l l).
  match goal with
  | |- ?F (pairs_of l l) s = _ =>
      enough (H : forall pl st, F pl st = (mkSt (cats st) (fold_left relate1 pl (refs st)) (counter st), Ok tt))
        by apply H
  end.
  induction pl as [|[x y] r IH]; intros [cs rf n]; cbn -[relate1]; [reflexivity|].
  rewrite relate1_prims, ?refs_at_setdefault, ?refs_set_setdefault.
  split_ifs; rewrite IH; reflexivity.
Qed.

Theorem gen_unrelate_is_model s ps :
  gen_unrelate s ps = match unrelate s ps with Ok s' => (s', Ok tt) | Err e => (s, Err e) end.
Proof.
  unfold gen_unrelate, unrelate. rewrite gen_intrs_by_pairs_is_model.
  destruct (intrs_by_pairs s ps) as [l|e]; [|reflexivity].
  change (product l) with (pairs_of l l).
  match goal with
  | |- ?F (pairs_of l l) s = _ =>
      enough (H : forall pl st, F pl st = (mkSt (cats st) (fold_left unrelate1 pl (refs st)) (counter st), Ok tt))
        by apply H
  end.
  induction pl as [|[x y] r IH]; intros [cs rf n]; cbn -[unrelate1]; [reflexivity|].
  rewrite unrelate1_prims, ?mem_remove_first.
  destruct (remove_first y (refs_at rf x)); simpl; rewrite ?IH; reflexivity.
Qed.

(* an error of relate / unrelate leaves the state as it was (nothing is mutated before the raise) *)
Corollary gen_relate_state_on_error s ps s' e : gen_relate s ps = (s', Err e) -> s' = s.
Proof. rewrite gen_relate_is_model. destruct (relate s ps); intros H; inversion H; reflexivity. Qed.

(* ------------------------------------------------------------ remove *)
Theorem gen_remove_is_model s c d :
  KeysOwn s -> gen_remove s c d = (fst (remove s c d), unit_res (snd (remove s c d))).
Proof.
  intros Hk. unfold gen_remove, remove. rewrite gen_get_is_model.
  destruct (get s c d) as [s1 o] eqn:G; simpl.
  assert (Ho : o = lookup s c d) by (change o with (snd (s1, o)); rewrite <- G; reflexivity).
  assert (Hl1 : lookup s1 c d = lookup s c d)
    by (change s1 with (fst (s1, o)); rewrite <- G; apply lookup_get).
  destruct o as [i|]; [|reflexivity].
  symmetry in Ho. destruct (Hk _ _ _ Ho) as [Ec Ed]. subst c d. rewrite Ho in Hl1.
  destruct s1 as [cs rf0 n]. simpl.
  assert (Hc : exists l0, assoc (icat i) cs = Some l0 /\ exists eo, assoc (idisc i) l0 = Some eo).
  { unfold lookup, cat_of in Hl1. simpl in Hl1. destruct (assoc (icat i) cs) as [l0|]; [|discriminate].
    exists l0. split; [reflexivity|]. destruct (assoc (idisc i) l0) as [eo|]; [eauto|discriminate]. }
  destruct Hc as (l0 & Hc1 & eo & Hc2).
  fold (refs_at rf0 i).
  match goal with
  | |- ?F ?L00 ?S00 = _ =>
      enough (H : forall L rf, F L (mkSt cs rf n) =
                match remove_backrefs i L rf with
                | (rf', Some e) => (mkSt cs rf' n, Err e)
                | (rf', None) => (mkSt (assoc_set (icat i) (assoc_del (idisc i) (cat_at cs (icat i))) cs) rf' n, Ok tt)
                end)
        by (rewrite H; unfold cat_of, cat_at; simpl;
            destruct (remove_backrefs i (refs_at rf0 i) (refs_del i rf0)) as [rf' [e|]]; reflexivity)
  end.
  induction L as [|x r IH]; intros rf; simpl.
  - unfold cat_at. rewrite Hc1, Hc2. reflexivity.
  - unfold refs_at. destruct (refs_get x rf) as [L2|]; simpl; [|reflexivity].
    destruct (remove_first i L2); simpl; [apply IH|reflexivity].
Qed.

(* ------------------------------------------------------------ Introspectable.relate / unrelate / register *)
Theorem gen_intr_relate_is_model i rs c d : gen_intr_relate i rs c d = rs ++ [Rel c d].
Proof. reflexivity. Qed.
Theorem gen_intr_unrelate_is_model i rs c d : gen_intr_unrelate i rs c d = rs ++ [Unrel c d].
Proof. reflexivity. Qed.

Theorem gen_register_is_model s i rs :
  gen_register s i rs = (fst (register s i rs), unit_res (snd (register s i rs))).
Proof.
  unfold gen_register, register. rewrite gen_add_is_model.
  match goal with
  | |- ?F rs (add s i) = _ =>
      enough (H : forall l st, F l st = (fst (replay st i l), unit_res (snd (replay st i l)))) by apply H
  end.
  induction l as [|[c d|c d] r IH]; intros st; simpl; [reflexivity| |].
  - rewrite gen_relate_is_model. destruct (relate st _); [apply IH|reflexivity].
  - rewrite gen_unrelate_is_model. destruct (unrelate st _); [apply IH|reflexivity].
Qed.

(* ------------------------------------------------------------ execute_actions (registration step), action() *)
Theorem gen_exec_register_is_model s l : res_of (gen_exec_register true s l) = register_all s l.
Proof.
  unfold gen_exec_register. cbv iota.
  match goal with
  | |- res_of (?F l s) = _ => enough (H : forall l st, res_of (F l st) = register_all st l) by apply H
  end.
  clear. induction l as [|[i rs] r IH]; intros st; simpl; [reflexivity|].
  rewrite gen_register_is_model. destruct (register st i rs) as [s' [e|]]; simpl; [reflexivity|apply IH].
Qed.

Theorem gen_exec_register_without_introspector s l : gen_exec_register false s l = (s, Ok tt).
Proof. reflexivity. Qed.

Theorem gen_action_filter_is_model b s executed :
  commit_register b s executed =
  res_of (gen_exec_register true s (concat (map (gen_action_filter b) executed))).
Proof.
  rewrite gen_exec_register_is_model. unfold commit_register. destruct b.
  - replace (map (gen_action_filter true) executed) with executed; [reflexivity|].
    induction executed as [|x r IH]; simpl; [reflexivity|]. rewrite <- IH. reflexivity.
  - replace (concat (map (gen_action_filter false) executed)) with (@nil (intr * list relop)); [reflexivity|].
    induction executed as [|x r IH]; simpl; [reflexivity|exact IH].
Qed.

(* ------------------------------------------------------------ whole operation sequences:
   the regenerated program and the reference model answer alike on every reachable state *)
Lemma In_insert_by_order x e l : In x (insert_by_order e l) -> x = e \/ In x l.
Proof.
  induction l as [|y r IH]; simpl; [intuition|].
  destruct (N.leb (snd e) (snd y)); simpl; [intuition|]. intros [H|H]; [auto|]. destruct (IH H); auto.
Qed.

Lemma In_sort_by_order x l : In x (sort_by_order l) -> In x l.
Proof.
  induction l as [|y r IH]; simpl; [tauto|]. intros H. apply In_insert_by_order in H. destruct H; auto.
Qed.

Lemma In_assoc_nodup {B} k (v : B) l : NoDup (map fst l) -> In (k, v) l -> assoc k l = Some v.
Proof.
  induction l as [|[k' v'] r IH]; simpl; [tauto|]. intros Hn H. inversion Hn as [|? ? Hx Hr]; subst.
  destruct (text_eqb_spec k k') as [->|Hne].
  - destruct H as [H|H]; [inversion H; reflexivity|]. exfalso. apply Hx. apply (in_map fst) in H. exact H.
  - destruct H as [H|H]; [inversion H; congruence|auto].
Qed.

Lemma related_rows_ok s c l0 l :
  WF s -> KeysOwn s -> assoc c (cats s) = Some l0 -> (forall x, In x l -> In x (map snd l0)) ->
  exists r, related_rows s l = Ok r.
Proof.
  intros Hw Hk Hc. induction l as [|x t IH]; intros Hin; simpl; [eauto|].
  destruct IH as [r Hr]; [intros y Hy; apply Hin; right; exact Hy|].
  assert (Hx : In x (map snd l0)) by (apply Hin; left; reflexivity).
  apply in_map_iff in Hx. destruct Hx as ([d x'] & Ex & Hx). simpl in Ex. subst x'.
  assert (Hl : lookup s c d = Some (fst x)).
  { unfold lookup, cat_of. rewrite Hc. rewrite (In_assoc_nodup d x l0); [destruct x; reflexivity| |exact Hx].
    pose proof (cat_of_nodup s c Hw) as Hn. unfold cat_of in Hn. rewrite Hc in Hn. exact Hn. }
  destruct (Hk _ _ _ Hl) as [E1 E2]. unfold related. rewrite E1, E2, Hl, Hr. eauto.
Qed.

Theorem gen_step_is_model s o : WF s -> KeysOwn s -> gen_step s o = step s o.
Proof.
  intros Hw Hk. destruct o; unfold gen_step, step.
  - rewrite gen_add_is_model. reflexivity.
  - rewrite gen_get_is_model. destruct (get s c d). reflexivity.
  - rewrite gen_get_category_is_model. unfold get_category_rows, get_category.
    destruct (assoc c (cats s)) as [l0|] eqn:E; [|reflexivity].
    destruct (related_rows_ok s c l0 (sort_by_order (map snd l0)) Hw Hk E) as [r Hr];
      [intros x Hx; apply In_sort_by_order; exact Hx|].
    rewrite Hr. pose proof (related_rows_fst _ _ _ Hr) as Hf. rewrite <- Hf. simpl. rewrite map_map. reflexivity.
  - rewrite gen_relate_is_model. destruct (relate s ps); reflexivity.
  - rewrite gen_unrelate_is_model. destruct (unrelate s ps); reflexivity.
  - rewrite gen_remove_is_model by assumption. destruct (remove s c d) as [s' [e|]]; reflexivity.
  - rewrite gen_related_is_model. destruct (related s i); reflexivity.
  - rewrite gen_register_is_model. destruct (register s i rs) as [s' [e|]]; reflexivity.
  - rewrite gen_categories_is_model. reflexivity.
Qed.

Theorem gen_run_ops_is_model ops : gen_run_ops init ops = run_ops init ops.
Proof.
  assert (G : forall s, WF s -> KeysOwn s -> gen_run_ops s ops = run_ops s ops).
  { induction ops as [|o r IH]; intros s Hw Hk; simpl; [reflexivity|].
    rewrite (gen_step_is_model s o Hw Hk). pose proof (WF_step s o Hw) as Hw'. pose proof (KeysOwn_step s o Hw Hk) as Hk'.
    destruct (step s o) as [s' v]. simpl in Hw', Hk'. rewrite (IH s' Hw' Hk'). reflexivity. }
  apply G; [apply WF_init|]. intros c d i Hl. discriminate.
Qed.

(* ------------------------------------------------------------ property theorems about the regenerated program *)
Lemma gen_intr_relate_both : forall i rs c d,
  gen_intr_relate i rs c d = rs ++ [Rel c d] /\ gen_intr_unrelate i rs c d = rs ++ [Unrel c d].
Proof.
  intros. split; [apply gen_intr_relate_is_model|apply gen_intr_unrelate_is_model].
Qed.

Lemma gen_exec_register_both : forall s l,
  res_of (gen_exec_register true s l) = register_all s l /\ gen_exec_register false s l = (s, Ok tt).
Proof.
  intros. split; [apply gen_exec_register_is_model|apply gen_exec_register_without_introspector].
Qed.

Lemma only_executed_are_recorded_generated : forall executed s' c d,
  res_of (gen_exec_register true init (concat (map (gen_action_filter true) executed))) = Ok s' ->
  (lookup s' c d <> None <->
   exists i rs, In (i, rs) (concat executed) /\ icat i = c /\ idisc i = d).
Proof.
  intros executed s' c d. rewrite <- gen_action_filter_is_model. apply only_executed_are_recorded.
Qed.

Lemma disabled_records_nothing_generated : forall s executed,
  res_of (gen_exec_register true s (concat (map (gen_action_filter false) executed))) = Ok s.
Proof.
  intros. rewrite <- gen_action_filter_is_model. apply disabled_records_nothing.
Qed.

Lemma get_after_add_generated : forall s i s1 r1,
  gen_add s i = (s1, r1) -> snd (gen_get s1 (icat i) (idisc i)) = Ok (Some i).
Proof.
  intros s i s1 r1. rewrite gen_add_is_model. intros H. inversion H; subst.
  rewrite gen_get_is_model. cbn [snd]. f_equal. apply get_after_add.
Qed.

Lemma remove_erases_generated : forall ops c d s',
  gen_remove (run_state init ops) c d = (s', Ok tt) ->
  snd (gen_get s' c d) = Ok None.
Proof.
  intros ops c d s'. destruct (reachable_invariants ops) as [Hw Hk].
  rewrite (gen_remove_is_model _ c d Hk). intros H.
  destruct (remove (run_state init ops) c d) as [s2 [e|]] eqn:E; cbn [fst snd unit_res] in H; inversion H; subst.
  destruct (remove_erases ops c d s' E) as [Hl _].
  rewrite gen_get_is_model. cbn [snd]. f_equal. rewrite get_lookup. exact Hl.
Qed.
