(* C12 proofs, part 3: token lifecycle of the storage policies and sequences of requests
   by several clients through csrf_view. *)
From Coq Require Import List NArith ZArith Bool Lia.
Import ListNotations.
Require Import Verif.Lib.Wire Verif.Lib.Text Verif.Lib.Utf8 Verif.Gen.Facts_C12 Verif.Model.C12 Verif.Proofs.C12.
Open Scope N_scope.

(* ------------------------------------------------------------------ lifecycle *)
(* the token compared against is the one the storage holds after get_csrf_token *)
Lemma expected_is_held_after_get s r :
  expected_token s r = or_empty (store_after_get s (r_stored r) (r_fresh r)).
Proof.
  unfold expected_token, store_after_get, token_absent.
  destruct s, (r_stored r) as [[|x t]|]; reflexivity.
Qed.

(* a token is minted exactly when none is held: None, or (session/cookie policies) an empty one *)
Lemma get_mints_iff_absent s st fresh :
  (token_absent s st = true -> store_after_get s st fresh = Some fresh) /\
  (token_absent s st = false -> store_after_get s st fresh = st).
Proof. unfold store_after_get. destruct (token_absent s st); split; congruence. Qed.

Lemma token_absent_spec s st :
  token_absent s st = true <-> st = None \/ (s <> Legacy /\ st = Some []).
Proof.
  unfold token_absent. destruct st as [[|x t]|], s; cbn [is_empty]; split; intros H;
    try discriminate; auto; try (right; split; [discriminate|reflexivity]);
    try (destruct H as [H|[H1 H2]]; congruence).
Qed.

(* once minted (a non-empty token), it is held: the next get / check does not mint again *)
Lemma minted_token_is_kept s st fresh fresh' :
  fresh <> [] ->
  store_after_get s (store_after_get s st fresh) fresh' = store_after_get s st fresh.
Proof.
  intros Hne. unfold store_after_get at 2 3. destruct (token_absent s st) eqn:E.
  - unfold store_after_get, token_absent. destruct fresh; [contradiction|]. destruct s; reflexivity.
  - unfold store_after_get. rewrite E. reflexivity.
Qed.

(* with no stored token an empty supplied token never passes -- whatever the repair parameters *)
Lemma no_stored_token_empty_supplied_not_accepted pr s token header r :
  token_absent s (r_stored r) = true -> r_fresh r <> [] ->
  supplied_token token header r = [] ->
  check_csrf_token_p pr s token header r <> TPass.
Proof.
  intros Ha Hf Hs Hp. unfold check_csrf_token_p in Hp. apply policy_check_pass in Hp.
  rewrite Hs, expected_is_held_after_get in Hp.
  destruct (get_mints_iff_absent s (r_stored r) (r_fresh r)) as [H _]. rewrite (H Ha) in Hp.
  cbn [or_empty] in Hp. congruence.
Qed.

(* ... and with the repaired comparison it is a plain rejection (False / BadCSRFToken) *)
Lemma no_stored_token_empty_supplied_rejected s token header r :
  token_absent s (r_stored r) = true -> r_fresh r <> [] -> forallb valid_scalar (r_fresh r) = true ->
  supplied_token token header r = [] ->
  check_csrf_token_p (the_params s) s token header r = TFail.
Proof.
  intros Ha Hf Hv Hs.
  assert (He : expected_token s r = r_fresh r).
  { rewrite expected_is_held_after_get. destruct (get_mints_iff_absent s (r_stored r) (r_fresh r)) as [H _].
    rewrite (H Ha). reflexivity. }
  destruct (token_pass_iff_equal s token header r) as [_ [_ H]].
  - rewrite He. exact Hv.
  - rewrite Hs. reflexivity.
  - apply H. rewrite Hs, He. congruence.
Qed.

(* the same at the level of the wrapper: the body does not run *)
Lemma no_stored_token_empty_token_body_does_not_run pr c r :
  checks_apply c r = true ->
  token_absent (c_storage c) (r_stored r) = true -> r_fresh r <> [] ->
  supplied_token (o_token (effective c)) (o_header (effective c)) r = [] ->
  view_outcome_p pr c r <> Ran.
Proof.
  intros Hck Ha Hf Hs Hr.
  unfold view_outcome_p in Hr. rewrite Hck in Hr.
  destruct (if o_check_origin (effective c) then _ else OPass); try discriminate.
  destruct (check_csrf_token_p pr (c_storage c) (o_token (effective c)) (o_header (effective c)) r) eqn:Et;
    try discriminate.
  exact (no_stored_token_empty_supplied_not_accepted pr _ _ _ r Ha Hf Hs Et).
Qed.

(* ------------------------------------------------------------------ sequences *)
(* the outcome of a step is the single-request outcome for the request with the client's own state *)
Lemma client_step_outcome pr c st r :
  fst (client_step pr c st r) = view_outcome_p pr c (with_client_state st r).
Proof. reflexivity. Qed.

(* the state only moves by minting, and only when the policy was consulted and a response went out *)
Lemma client_step_state pr c st r :
  snd (client_step pr c st r) = st \/
  (token_absent (c_storage c) st = true /\ snd (client_step pr c st r) = Some (r_fresh r) /\
   token_stage_reached pr c (with_client_state st r) = true).
Proof.
  unfold client_step. cbn [snd].
  destruct (token_stage_reached pr c (with_client_state st r)) eqn:Er; cbn [andb]; [|left; reflexivity].
  destruct (response_produced c _); [|left; reflexivity].
  unfold store_after_get. destruct (token_absent (c_storage c) st) eqn:Ea; [|left; reflexivity].
  right. repeat split; reflexivity.
Qed.

Lemma st_get_set_same k v s : st_get k (st_set k v s) = v.
Proof. unfold st_set. cbn [st_get]. rewrite N.eqb_refl. reflexivity. Qed.
Lemma st_get_set_other k k' v s : k <> k' -> st_get k (st_set k' v s) = st_get k s.
Proof. intros H. unfold st_set. cbn [st_get]. destruct (N.eqb_spec k k'); [contradiction|reflexivity]. Qed.

(* the steps of client k and the outcomes of those steps *)
Fixpoint requests_of (k : N) (steps : list (N * request)) : list request :=
  match steps with
  | [] => []
  | (k', r) :: rest => if k' =? k then r :: requests_of k rest else requests_of k rest
  end.
Fixpoint outcomes_of (k : N) (steps : list (N * request)) (outs : list outcome) : list outcome :=
  match steps, outs with
  | (k', _) :: rest, o :: outs' => if k' =? k then o :: outcomes_of k rest outs' else outcomes_of k rest outs'
  | _, _ => []
  end.

(* View-level history independence: in any interleaving, what client k observes -- and the token
   it ends up holding -- is what it would observe if only its own requests had been made.  Other
   clients' requests, and everything checked before, have no influence. *)
Lemma view_history_independent pr c k steps : forall s,
  outcomes_of k steps (fst (run_clients pr c s steps)) = fst (run_client pr c (st_get k s) (requests_of k steps)) /\
  st_get k (snd (run_clients pr c s steps)) = snd (run_client pr c (st_get k s) (requests_of k steps)).
Proof.
  induction steps as [|[k' r] rest IH]; intros s; [split; reflexivity|].
  cbn [run_clients requests_of].
  destruct (client_step pr c (st_get k' s) r) as [out v] eqn:Ec.
  specialize (IH (st_set k' v s)).
  destruct (run_clients pr c (st_set k' v s) rest) as [outs s'] eqn:Er. cbn [fst snd] in *.
  cbn [outcomes_of].
  destruct (N.eqb_spec k' k) as [->|Hne].
  - cbn [run_client]. rewrite Ec. rewrite st_get_set_same in IH.
    destruct (run_client pr c v (requests_of k rest)) as [outs2 s2]. cbn [fst snd] in *.
    destruct IH as [IH1 IH2]. split; [f_equal; exact IH1|exact IH2].
  - rewrite st_get_set_other in IH by congruence. exact IH.
Qed.

Lemma run_clients_length pr c steps : forall s, length (fst (run_clients pr c s steps)) = length steps.
Proof.
  induction steps as [|[k r] rest IH]; intros s; [reflexivity|]. cbn [run_clients].
  destruct (client_step pr c (st_get k s) r) as [out v]. specialize (IH (st_set k v s)).
  destruct (run_clients pr c (st_set k v s) rest). cbn [fst length] in *. rewrite IH. reflexivity.
Qed.

(* every step's verdict is the single-request verdict on (request, that client's held token) *)
Lemma run_client_outcomes pr c : forall rs st,
  Forall2 (fun r out => exists held, out = view_outcome_p pr c (with_client_state held r))
          rs (fst (run_client pr c st rs)).
Proof.
  induction rs as [|r rs IH]; intros st; [constructor|]. cbn [run_client].
  destruct (client_step pr c st r) as [out st'] eqn:Ec. specialize (IH st').
  destruct (run_client pr c st' rs) as [outs st'']. cbn [fst] in *.
  constructor; [|exact IH]. exists st. change out with (fst (out, st')). rewrite <- Ec. reflexivity.
Qed.

(* a client that holds a token keeps it: checks never replace a held token *)
Lemma held_token_is_stable pr c r st :
  token_absent (c_storage c) st = false -> snd (client_step pr c st r) = st.
Proof.
  intros Ha. destruct (client_step_state pr c st r) as [H|[H _]]; [exact H|congruence].
Qed.

(* ------------------------------------------------------------------ the public token API in the view body *)
Lemma client_step_a_none pr c st r : client_step_a pr c st (ANone, r) = client_step pr c st r.
Proof.
  unfold client_step_a. cbn [fst snd]. destruct (client_step pr c st r) as [out st1]. destruct out; reflexivity.
Qed.

(* the body's use of the API never changes the verdict of the request it serves *)
Lemma client_step_a_outcome pr c st a r :
  fst (client_step_a pr c st (a, r)) = view_outcome_p pr c (with_client_state st r).
Proof.
  unfold client_step_a. cbn [fst snd]. destruct (client_step pr c st r) as [out st1] eqn:E. cbn [fst].
  change out with (fst (out, st1)). rewrite <- E. reflexivity.
Qed.

(* a body that did not run (rejected request) changes nothing beyond what the check itself did *)
Lemma rejected_body_has_no_effect pr c st a r :
  fst (client_step_a pr c st (a, r)) <> Ran -> snd (client_step_a pr c st (a, r)) = snd (client_step pr c st r).
Proof.
  unfold client_step_a. cbn [fst snd]. destruct (client_step pr c st r) as [out st1]. cbn [fst snd].
  destruct out; intros H; try reflexivity. contradiction.
Qed.

(* new_csrf_token in the body replaces the held token by the fresh one *)
Lemma rotation_installs_fresh pr c st r :
  fst (client_step_a pr c st (ANew, r)) = Ran -> snd (client_step_a pr c st (ANew, r)) = Some (r_fresh r).
Proof.
  unfold client_step_a. cbn [fst snd]. destruct (client_step pr c st r) as [out st1]. cbn [fst snd].
  intros ->. reflexivity.
Qed.

(* get_csrf_token in the body leaves a held token alone and mints exactly when none is held *)
Lemma body_get_state pr c st r :
  fst (client_step_a pr c st (AGet, r)) = Ran -> r_fresh r <> [] ->
  snd (client_step_a pr c st (AGet, r)) = store_after_get (c_storage c) st (r_fresh r).
Proof.
  unfold client_step_a. cbn [fst snd]. pose proof (client_step_state pr c st r) as Hs.
  destruct (client_step pr c st r) as [out st1]. cbn [fst snd] in *. intros -> Hf. cbn [body_store].
  destruct Hs as [->|(Ha & -> & _)]; [reflexivity|].
  change (r_fresh (with_client_state st r)) with (r_fresh r).
  destruct (get_mints_iff_absent (c_storage c) st (r_fresh r)) as [Hm _]. rewrite <- (Hm Ha).
  apply minted_token_is_kept. exact Hf.
Qed.

(* whoever holds a non-empty token gets a checked request through only by supplying exactly that token:
   after a rotation the token handed out before is refused *)
Lemma only_held_token_passes pr c t r :
  t <> [] -> checks_apply c (with_client_state (Some t) r) = true ->
  view_outcome_p pr c (with_client_state (Some t) r) = Ran ->
  supplied_token (o_token (effective c)) (o_header (effective c)) (with_client_state (Some t) r) = t.
Proof.
  intros Ht Hck Hr. unfold view_outcome_p in Hr. rewrite Hck in Hr.
  destruct (if o_check_origin (effective c) then _ else OPass); try discriminate.
  destruct (check_csrf_token_p pr (c_storage c) (o_token (effective c)) (o_header (effective c))
              (with_client_state (Some t) r)) eqn:Et; try discriminate.
  unfold check_csrf_token_p in Et. apply policy_check_pass in Et. rewrite Et.
  unfold expected_token. cbn [r_stored with_client_state]. destruct t; [contradiction|]. destruct (c_storage c); reflexivity.
Qed.

Lemma rotated_old_token_refused pr c st r r2 :
  fst (client_step_a pr c st (ANew, r)) = Ran -> r_fresh r <> [] ->
  checks_apply c (with_client_state (Some (r_fresh r)) r2) = true ->
  supplied_token (o_token (effective c)) (o_header (effective c)) (with_client_state (Some (r_fresh r)) r2) <> r_fresh r ->
  fst (client_step_a pr c (snd (client_step_a pr c st (ANew, r))) (ANone, r2)) <> Ran.
Proof.
  intros Hran Hf Hck Hne. rewrite (rotation_installs_fresh pr c st r Hran), client_step_a_outcome.
  intros Hr. apply Hne. exact (only_held_token_passes pr c (r_fresh r) r2 Hf Hck Hr).
Qed.

Fixpoint requests_of_a (k : N) (steps : list (N * (action * request))) : list (action * request) :=
  match steps with
  | [] => []
  | (k', r) :: rest => if k' =? k then r :: requests_of_a k rest else requests_of_a k rest
  end.
Fixpoint outcomes_of_a (k : N) (steps : list (N * (action * request))) (outs : list outcome) : list outcome :=
  match steps, outs with
  | (k', _) :: rest, o :: outs' => if k' =? k then o :: outcomes_of_a k rest outs' else outcomes_of_a k rest outs'
  | _, _ => []
  end.

(* history independence with the token API in play: in any interleaving client k observes, and ends up holding,
   what its own requests (with their own body actions) alone would give *)
Lemma view_history_independent_a pr c k steps : forall s,
  outcomes_of_a k steps (fst (run_clients_a pr c s steps)) = fst (run_client_a pr c (st_get k s) (requests_of_a k steps)) /\
  st_get k (snd (run_clients_a pr c s steps)) = snd (run_client_a pr c (st_get k s) (requests_of_a k steps)).
Proof.
  induction steps as [|[k' r] rest IH]; intros s; [split; reflexivity|].
  cbn [run_clients_a requests_of_a].
  destruct (client_step_a pr c (st_get k' s) r) as [out v] eqn:Ec.
  specialize (IH (st_set k' v s)).
  destruct (run_clients_a pr c (st_set k' v s) rest) as [outs s'] eqn:Er. cbn [fst snd] in *.
  cbn [outcomes_of_a].
  destruct (N.eqb_spec k' k) as [->|Hne].
  - cbn [run_client_a]. rewrite Ec. rewrite st_get_set_same in IH.
    destruct (run_client_a pr c v (requests_of_a k rest)) as [outs2 s2]. cbn [fst snd] in *.
    destruct IH as [IH1 IH2]. split; [f_equal; exact IH1|exact IH2].
  - rewrite st_get_set_other in IH by congruence. exact IH.
Qed.
