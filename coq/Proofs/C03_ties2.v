(* C03 -- ties inside a MultiView when overrides are INTERLEAVED with new registrations (plain adds, order a
   function of the phash).  The sequence of (order, phash) pairs of [views] is computed by a fold over the keys
   alone ([addK]); a key whose phash is already present is a no-op; hence it equals the fold over the first
   occurrences, and among entries of equal order [views] lists the phashes in the order of their first registration. *)
From Coq Require Import List NArith ZArith Bool Lia Sorting.Permutation.
Import ListNotations.
Require Import Verif.Lib.Wire Verif.Lib.Text Verif.Gen.Facts_C03 Verif.Model.C03 Verif.Proofs.C03 Verif.Proofs.C03_w
               Verif.Proofs.C03_ph Verif.Proofs.C03_loc Verif.Proofs.C03_ties.

Definition keyleb (a b : Z * text) : bool := Z.leb (fst a) (fst b).
Definition addK (ks : list (Z * text)) (k : Z * text) : list (Z * text) :=
  if mem_text (snd k) (map snd ks) then ks else isort keyleb (ks ++ [k]).
Definition key_of_add (a : reg * Z * text) : Z * text := (snd (fst a), snd a).

Lemma keys_insert x l : map e_key (insert_by entry_leb x l) = insert_by keyleb (e_key x) (map e_key l).
Proof.
  induction l as [|y l IH]; [reflexivity|]. cbn [insert_by map].
  change (keyleb (e_key x) (e_key y)) with (entry_leb x y). destruct (entry_leb x y); cbn [map]; [reflexivity|].
  rewrite IH. reflexivity.
Qed.
Lemma keys_isort l : map e_key (isort entry_leb l) = isort keyleb (map e_key l).
Proof. induction l as [|x l IH]; [reflexivity|]. cbn [isort map]. rewrite keys_insert, IH. reflexivity. Qed.

Lemma add_step f m v o ph :
  mv_sorted f m -> o = f ph ->
  map e_key (mv_views (mv_add m v o ph None None)) = addK (map e_key (mv_views m)) (o, ph).
Proof.
  intros Hm Ho. subst o. unfold addK. cbn [snd]. rewrite <- keys_phashes.
  destruct (mem_text ph (map e_phash (mv_views m))) eqn:E.
  - apply mem_text_In in E. apply (readd_keeps_positions f m v ph None None Hm E).
  - assert (Hn : replace_phash ph (f ph, v, ph) (mv_views m) = None).
    { apply replace_phash_none. intros e He Ee. assert (In ph (map e_phash (mv_views m))) as Hi
        by (rewrite <- Ee; apply in_map; exact He). apply mem_text_In in Hi. congruence. }
    unfold mv_add. rewrite Hn. cbn [mv_views]. rewrite keys_isort, map_app. reflexivity.
Qed.

Lemma fold_keys f (adds : list (reg * Z * text)) : forall m,
  mv_sorted f m -> Forall (fun a : reg * Z * text => snd (fst a) = f (snd a)) adds ->
  map e_key (mv_views (fold_left mv_add_args (map plain_add adds) m))
  = fold_left addK (map key_of_add adds) (map e_key (mv_views m)).
Proof.
  induction adds as [|[[v o] ph] adds IH]; intros m Hm Hf; [reflexivity|].
  inversion Hf as [|? ? Ha Hf']; subst. cbn in Ha. cbn [map fold_left plain_add mv_add_args].
  rewrite IH; [|apply mv_add_sorted; assumption|assumption].
  rewrite (add_step f m v o ph Hm Ha). reflexivity.
Qed.

(* ---- duplicates are no-ops at the key level *)
Fixpoint first_occ (seen : list text) (l : list (Z * text)) : list (Z * text) :=
  match l with
  | [] => []
  | k :: r => if mem_text (snd k) seen then first_occ seen r else k :: first_occ (snd k :: seen) r
  end.

Lemma mem_text_iff x l l' : (In x l <-> In x l') -> mem_text x l = mem_text x l'.
Proof.
  intros H. destruct (mem_text x l) eqn:A, (mem_text x l') eqn:B; try reflexivity.
  - apply mem_text_In in A. apply H in A. apply mem_text_In in A. congruence.
  - apply mem_text_In in B. apply H in B. apply mem_text_In in B. congruence.
Qed.

Lemma fold_first_occ l : forall ks seen,
  (forall x, mem_text x seen = mem_text x (map snd ks)) ->
  fold_left addK l ks = fold_left addK (first_occ seen l) ks.
Proof.
  induction l as [|k l IH]; intros ks seen Hs; [reflexivity|]. cbn [fold_left first_occ].
  destruct (mem_text (snd k) seen) eqn:E.
  - unfold addK at 2. rewrite <- Hs, E. apply IH. exact Hs.
  - cbn [fold_left]. apply IH. intros x. unfold addK. rewrite <- Hs, E.
    apply mem_text_iff. cbn [In].
    assert (P : Permutation (map snd (isort keyleb (ks ++ [k]))) (map snd (ks ++ [k])))
      by (apply Permutation_map, isort_perm).
    split.
    + intros [H|H].
      * apply (Permutation_in _ (Permutation_sym P)). rewrite map_app. apply in_or_app. right. left. exact H.
      * apply (Permutation_in _ (Permutation_sym P)). rewrite map_app. apply in_or_app. left.
        apply mem_text_In. rewrite <- Hs. apply mem_text_In. exact H.
    + intros H. apply (Permutation_in _ P) in H. rewrite map_app in H. apply in_app_or in H. destruct H as [H|[H|[]]].
      * right. apply mem_text_In. rewrite Hs. apply mem_text_In. exact H.
      * left. exact H.
Qed.

(* ---- the first occurrences as a list of adds *)
Fixpoint first_adds (seen : list text) (l : list (reg * Z * text)) : list (reg * Z * text) :=
  match l with
  | [] => []
  | a :: r => if mem_text (snd a) seen then first_adds seen r else a :: first_adds (snd a :: seen) r
  end.

Lemma first_adds_keys l : forall seen, map key_of_add (first_adds seen l) = first_occ seen (map key_of_add l).
Proof.
  induction l as [|a l IH]; intros seen; [reflexivity|]. cbn [first_adds map first_occ].
  change (snd (key_of_add a)) with (snd a). destruct (mem_text (snd a) seen); [apply IH|]. cbn [map]. rewrite IH. reflexivity.
Qed.

Lemma first_adds_sub l : forall seen a, In a (first_adds seen l) -> In a l /\ ~ In (snd a) seen.
Proof.
  induction l as [|b l IH]; intros seen a H; [destruct H|]. cbn [first_adds] in H.
  destruct (mem_text (snd b) seen) eqn:E.
  - destruct (IH _ _ H). split; [right|]; assumption.
  - destruct H as [->|H].
    + split; [left; reflexivity|]. intros Hi. apply mem_text_In in Hi. congruence.
    + destruct (IH _ _ H) as [H1 H2]. split; [right; exact H1|]. intros Hi. apply H2. right. exact Hi.
Qed.

Lemma first_adds_nodup l : forall seen, NoDup (map (fun a : reg * Z * text => snd a) (first_adds seen l)).
Proof.
  induction l as [|b l IH]; intros seen; [constructor|]. cbn [first_adds].
  destruct (mem_text (snd b) seen); [apply IH|]. cbn [map]. constructor; [|apply IH].
  intros Hi. apply in_map_iff in Hi. destruct Hi as (a & Ea & Ha). apply first_adds_sub in Ha. destruct Ha as [_ Hn].
  apply Hn. left. symmetry. exact Ea.
Qed.

(* ---- the theorem: any sequence of plain registrations and overrides, interleaved at will *)
Theorem ties_first_registration_interleaved f (adds : list (reg * Z * text)) k :
  Forall (fun a : reg * Z * text => snd (fst a) = f (snd a)) adds ->
  filter (fun kp : Z * text => Z.eqb (fst kp) k)
         (map e_key (mv_views (fold_left mv_add_args (map plain_add adds) mv_empty)))
  = map e_key (filter (same_order k) (map add_entry (first_adds [] adds))).
Proof.
  intros Hf.
  assert (H0 : mv_sorted f mv_empty) by (apply (multiview_sorted f []); constructor).
  assert (Hf' : Forall (fun a : reg * Z * text => snd (fst a) = f (snd a)) (first_adds [] adds)).
  { apply Forall_forall. intros a Ha. apply first_adds_sub in Ha. destruct Ha as [Ha _].
    rewrite Forall_forall in Hf. apply Hf. exact Ha. }
  rewrite (fold_keys f adds mv_empty H0 Hf).
  rewrite (fold_first_occ (map key_of_add adds) (map e_key (mv_views mv_empty)) []) by (intros x; reflexivity).
  rewrite <- first_adds_keys. rewrite <- (fold_keys f (first_adds [] adds) mv_empty H0 Hf').
  rewrite filter_keys. rewrite (multiview_ties_in_registration_order (first_adds [] adds) k (first_adds_nodup adds [])).
  reflexivity.
Qed.

(* non-vacuity / illustration: register, register another, override the first: the first keeps its place *)
Example interleaved_example :
  let a1 := (w_v1, 7%Z, [1%N]) in let a2 := (w_v2, 7%Z, [2%N]) in let a1' := (w_v2, 7%Z, [1%N]) in
  first_adds [] [a1; a2; a1'] = [a1; a2] /\
  map e_key (mv_views (fold_left mv_add_args (map plain_add [a1; a2; a1']) mv_empty)) = [(7%Z, [1%N]); (7%Z, [2%N])].
Proof. split; vm_compute; reflexivity. Qed.
