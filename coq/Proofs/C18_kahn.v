(* C18 -- the emission loop of TopologicalSorter.sorted over the dictionary
   graph: counter/roots invariant (from design_spikes/Topo.v, ported to the
   concrete insertion-ordered dictionary, with completeness of [roots]). *)
From Coq Require Import List NArith ZArith Bool Lia.
Import ListNotations.
Require Import Verif.Lib.Wire Verif.Gen.Facts_C18 Verif.Model.C18.
Open Scope Z_scope.

Definition keys {V} (g : list (node * V)) : list node := map fst g.

Lemma text_eqb_sym a b : text_eqb a b = text_eqb b a.
Proof.
  destruct (text_eqb_spec a b) as [->|H]; [symmetry; apply text_eqb_refl|].
  symmetry. apply text_eqb_neq. congruence.
Qed.

Lemma mem_text_false x l : mem_text x l = false <-> ~ In x l.
Proof.
  split.
  - intros H Hin. apply mem_text_In in Hin. congruence.
  - intros H. destruct (mem_text x l) eqn:E; [apply mem_text_In in E; contradiction|reflexivity].
Qed.

(* ---------- dictionaries *)
Section AssocLemmas.
Context {V : Type}.
Implicit Types g : list (node * V).

Lemma aget_Some_In k v g : aget k g = Some v -> In k (keys g).
Proof.
  induction g as [|[k' v'] r IH]; simpl; [discriminate|].
  destruct (text_eqb_spec k k') as [->|Hne]; [auto|]. intros H. right. apply IH, H.
Qed.

Lemma aget_In k g : In k (keys g) -> exists v, aget k g = Some v.
Proof.
  induction g as [|[k' v'] r IH]; simpl; [intros []|].
  destruct (text_eqb_spec k k') as [->|Hne]; [eauto|].
  intros [H|H]; [congruence|auto].
Qed.

Lemma aget_None k g : ~ In k (keys g) -> aget k g = None.
Proof.
  intros H. destruct (aget k g) eqn:E; [|reflexivity]. apply aget_Some_In in E. contradiction.
Qed.

Lemma aget_aset_same k v g : aget k (aset k v g) = Some v.
Proof.
  induction g as [|[k' v'] r IH]; simpl; [rewrite text_eqb_refl; reflexivity|].
  destruct (text_eqb_spec k k') as [->|Hne]; simpl.
  - rewrite text_eqb_refl. reflexivity.
  - apply text_eqb_neq in Hne. rewrite Hne. exact IH.
Qed.

Lemma aget_aset_other k k' v g : k <> k' -> aget k' (aset k v g) = aget k' g.
Proof.
  intros Hne. induction g as [|[k2 v2] r IH]; simpl.
  - assert (E : text_eqb k' k = false) by (apply text_eqb_neq; congruence). rewrite E. reflexivity.
  - destruct (text_eqb_spec k k2) as [->|Hne2]; simpl.
    + assert (E : text_eqb k' k2 = false) by (apply text_eqb_neq; congruence). rewrite E. reflexivity.
    + rewrite IH. reflexivity.
Qed.

Lemma keys_aset_in k v g : In k (keys g) -> keys (aset k v g) = keys g.
Proof.
  induction g as [|[k' v'] r IH]; simpl; [intros []|].
  destruct (text_eqb_spec k k') as [->|Hne]; simpl; [reflexivity|].
  intros [H|H]; [congruence|]. rewrite IH by exact H. reflexivity.
Qed.

Lemma keys_aset_notin k v g : ~ In k (keys g) -> keys (aset k v g) = keys g ++ [k].
Proof.
  induction g as [|[k' v'] r IH]; simpl; [reflexivity|].
  intros H. destruct (text_eqb_spec k k') as [->|Hne]; [exfalso; auto|].
  simpl. rewrite IH by tauto. reflexivity.
Qed.

Lemma keys_adel k g : keys (adel k g) = remove_first k (keys g).
Proof.
  induction g as [|[k' v'] r IH]; simpl; [reflexivity|].
  destruct (text_eqb k k'); simpl; [reflexivity|]. rewrite IH. reflexivity.
Qed.

Lemma aget_adel_other k k' g : k <> k' -> aget k' (adel k g) = aget k' g.
Proof.
  intros Hne. induction g as [|[k2 v2] r IH]; simpl; [reflexivity|].
  destruct (text_eqb_spec k k2) as [->|Hne2]; simpl.
  - assert (E : text_eqb k' k2 = false) by (apply text_eqb_neq; congruence). rewrite E. reflexivity.
  - rewrite IH. reflexivity.
Qed.

Lemma aget_adel_same k g : NoDup (keys g) -> aget k (adel k g) = None.
Proof.
  induction g as [|[k2 v2] r IH]; simpl; [reflexivity|]. intros Hnd. inversion Hnd; subst.
  destruct (text_eqb_spec k k2) as [->|Hne2]; simpl.
  - apply aget_None. assumption.
  - apply text_eqb_neq in Hne2. rewrite Hne2. auto.
Qed.

Lemma length_adel k g : In k (keys g) -> length g = S (length (adel k g)).
Proof.
  induction g as [|[k' v'] r IH]; simpl; [intros []|].
  destruct (text_eqb_spec k k') as [->|Hne]; [reflexivity|].
  intros [H|H]; [congruence|]. simpl. rewrite <- IH by exact H. reflexivity.
Qed.

Lemma aget_app_notin k g g2 : ~ In k (keys g) -> aget k (g ++ g2) = aget k g2.
Proof.
  induction g as [|[k' v'] r IH]; simpl; [reflexivity|].
  intros H. destruct (text_eqb_spec k k') as [->|Hne]; [exfalso; auto|]. apply IH. tauto.
Qed.

Lemma aget_app_in k g g2 : In k (keys g) -> aget k (g ++ g2) = aget k g.
Proof.
  induction g as [|[k' v'] r IH]; simpl; [intros []|].
  destruct (text_eqb_spec k k') as [->|Hne]; [reflexivity|]. intros [H|H]; [congruence|auto].
Qed.
End AssocLemmas.

Lemma In_remove_first x k l : In x (remove_first k l) -> In x l.
Proof.
  induction l as [|y r IH]; simpl; [auto|].
  destruct (text_eqb k y); [auto|]. intros [H|H]; auto.
Qed.

Lemma In_remove_first_nodup x k l : NoDup l -> (In x (remove_first k l) <-> In x l /\ x <> k).
Proof.
  induction l as [|y r IH]; simpl; [tauto|]. intros Hnd. inversion Hnd as [|? ? Hnot Hnd']; subst.
  destruct (text_eqb_spec k y) as [->|Hne].
  - split.
    + intros H. split; [auto|intros ->; contradiction].
    + intros [[H|H] Hx]; [congruence|auto].
  - simpl. rewrite IH by assumption. split.
    + intros [->|[H1 Hx]]; [split; [auto|congruence]|auto].
    + intros [[->|H1] Hx]; auto.
Qed.

Lemma NoDup_remove_first k l : NoDup l -> NoDup (remove_first k l).
Proof.
  induction l as [|y r IH]; simpl; [auto|]. intros Hnd. inversion Hnd; subst.
  destruct (text_eqb k y); [assumption|]. constructor; [|auto].
  intros H. apply In_remove_first in H. contradiction.
Qed.

Lemma remove_first_notin k l : ~ In k l -> remove_first k l = l.
Proof.
  induction l as [|y r IH]; simpl; [reflexivity|]. intros H.
  destruct (text_eqb_spec k y) as [->|Hne]; [exfalso; auto|]. rewrite IH by tauto. reflexivity.
Qed.

(* ---------- counting arcs *)
Definition children_of (arcs : list arc) (r : node) : list node :=
  map snd (filter (fun a => text_eqb (fst a) r) arcs).

(* number of arcs into n whose source is not in em *)
Fixpoint pend_in (l : list arc) (n : node) (em : list node) : Z :=
  match l with
  | [] => 0
  | (a, b) :: l' => (if text_eqb b n && negb (mem_text a em) then 1 else 0) + pend_in l' n em
  end.

Fixpoint occ (n : node) (l : list node) : Z :=
  match l with [] => 0 | x :: l' => (if text_eqb x n then 1 else 0) + occ n l' end.

Lemma occ_nonneg n l : 0 <= occ n l.
Proof. induction l; simpl; [lia|destruct (text_eqb a n); lia]. Qed.

Lemma occ_pos_In n l : 0 < occ n l -> In n l.
Proof.
  induction l as [|x l IH]; simpl; [lia|].
  destruct (text_eqb_spec x n); [auto|]. intros; right; apply IH; lia.
Qed.

Lemma occ_zero_notin n l : ~ In n l -> occ n l = 0.
Proof.
  induction l as [|x l IH]; simpl; [reflexivity|]. intros H.
  destruct (text_eqb_spec x n) as [->|]; [exfalso; auto|]. rewrite IH by tauto. reflexivity.
Qed.

Lemma pend_in_emit l n em r : mem_text r em = false ->
  pend_in l n (r :: em) = pend_in l n em - occ n (children_of l r).
Proof.
  intros Hr. unfold children_of. induction l as [|[a b] l IH]; [reflexivity|].
  cbn [pend_in filter fst]. rewrite IH. clear IH.
  assert (Ei : mem_text a (r :: em) = text_eqb a r || mem_text a em) by reflexivity. rewrite Ei.
  destruct (text_eqb a r) eqn:Ear.
  - apply text_eqb_eq in Ear. subst a. rewrite Hr. cbn [map snd occ orb negb].
    destruct (text_eqb b n); cbn [andb]; lia.
  - cbn [orb]. lia.
Qed.

Lemma pend_in_nonneg l n em : 0 <= pend_in l n em.
Proof. induction l as [|[a b] l IH]; simpl; [lia|]. destruct (_ && _); lia. Qed.

Lemma pend_in_zero l n em : pend_in l n em = 0 -> forall a, In (a, n) l -> In a em.
Proof.
  induction l as [|[a b] l IH]; cbn [pend_in In]; intros H x Hx; [contradiction|].
  pose proof (pend_in_nonneg l n em).
  destruct Hx as [E|Hx].
  - injection E as -> ->. rewrite text_eqb_refl in H. cbn [andb] in H.
    destruct (mem_text x em) eqn:Hi; [apply mem_text_In; auto|]. cbn [negb] in H. lia.
  - apply IH; auto. destruct (_ && _); lia.
Qed.

Lemma pend_in_pos l n em : 0 < pend_in l n em -> exists a, In (a, n) l /\ ~ In a em.
Proof.
  induction l as [|[a b] l IH]; cbn [pend_in]; [lia|]. intros H.
  destruct (text_eqb b n && negb (mem_text a em)) eqn:E.
  - apply andb_true_iff in E. destruct E as (E1 & E2). apply text_eqb_eq in E1. subst b.
    exists a. split; [left; reflexivity|]. apply negb_true_iff in E2. apply mem_text_false. exact E2.
  - destruct IH as (x & Hx & Hn); [lia|]. exists x. split; [right; auto|auto].
Qed.

Lemma pend_in_all_emitted l n em : (forall a, In (a, n) l -> In a em) -> pend_in l n em = 0.
Proof.
  induction l as [|[a b] l IH]; intros Hall; simpl; [reflexivity|].
  rewrite IH by (intros; apply Hall; right; auto).
  destruct (text_eqb_spec b n) as [->|]; simpl; [|reflexivity].
  assert (E : mem_text a em = true) by (apply mem_text_In; apply Hall; left; reflexivity).
  rewrite E. reflexivity.
Qed.

Lemma in_children_of l r c : In c (children_of l r) <-> In (r, c) l.
Proof.
  unfold children_of. rewrite in_map_iff. split.
  - intros ([a b] & E & H). apply filter_In in H. destruct H as (H & Hf). simpl in *.
    apply text_eqb_eq in Hf. subst. exact H.
  - intros H. exists (r, c). split; [reflexivity|]. apply filter_In. split; [auto|]. simpl. apply text_eqb_refl.
Qed.

(* ---------- the loop *)
Section Kahn.
Variable arcs : list arc.
Variable K : list node.                       (* all nodes *)
Hypothesis arcs_in_K : forall a b, In (a, b) arcs -> In a K /\ In b K.

Definition children := children_of arcs.
Definition pending := pend_in arcs.

Definition cntf (g : graph) (n : node) : Z := match aget n g with Some (c, _) => c | None => 0 end.

Definition before_ok (em : list node) : Prop :=
  forall l1 b l2, em = l1 ++ b :: l2 -> forall a, In (a, b) arcs -> In a l2.

Lemma pending_emit n em r : ~ In r em -> pending n (r :: em) = pending n em - occ n (children r).
Proof. intros H. apply pend_in_emit. apply mem_text_false. exact H. Qed.

Lemma occ_children_le n r em : ~ In r em -> occ n (children r) <= pending n em.
Proof.
  intros Hr. pose proof (pending_emit n em r Hr). pose proof (pend_in_nonneg arcs n (r :: em)).
  unfold pending in *. lia.
Qed.

(* effect of the inner for loop *)
Lemma fold_visit_c cs : forall (rs : list node) (g : graph),
  (forall n, In n cs -> In n (keys g)) ->
  (forall n, occ n cs <= cntf g n) ->
  exists (rs' : list node) (g' : graph), fold_left visit cs (Some (rs, g)) = Some (rs', g') /\
    keys g' = keys g /\
    (forall n, cntf g' n = cntf g n - occ n cs) /\
    (forall n, option_map snd (aget n g') = option_map snd (aget n g)) /\
    (forall n, In n rs' <-> In n rs \/ (0 < occ n cs /\ cntf g' n = 0)) /\
    (NoDup rs -> (forall n, In n rs -> cntf g n = 0) -> NoDup rs').
Proof.
  induction cs as [|c cs IH]; intros rs g Hin Hle.
  - exists rs, g. simpl. repeat split; auto; try (intros; lia).
    + intros [H|[H _]]; [auto|lia].
  - destruct (aget_In c g (Hin c (or_introl eq_refl))) as ([k ch] & Hget).
    cbn [fold_left visit]. rewrite Hget.
    set (g1 := aset c (k - 1, ch) g).
    set (rs1 := if (k - 1 =? 0) then c :: rs else rs).
    assert (Hk1 : keys g1 = keys g) by (apply keys_aset_in; eapply aget_Some_In; eauto).
    assert (Hc1 : forall n, cntf g1 n = cntf g n - (if text_eqb c n then 1 else 0)).
    { intros n. unfold cntf, g1. destruct (text_eqb_spec c n) as [->|Hne].
      - rewrite aget_aset_same, Hget. lia.
      - rewrite aget_aset_other by exact Hne. lia. }
    assert (Hle1 : forall n, occ n cs <= cntf g1 n).
    { intros n. rewrite Hc1. specialize (Hle n). cbn [occ] in Hle. lia. }
    assert (Hin1 : forall n, In n cs -> In n (keys g1)).
    { intros n Hn. rewrite Hk1. apply Hin. right. exact Hn. }
    destruct (IH rs1 g1 Hin1 Hle1) as (rs' & g' & Hf & Hk & Hc & Hch & Hr & Hnd).
    exists rs', g'. split; [exact Hf|]. split; [rewrite Hk; exact Hk1|].
    assert (Hkc : cntf g c = k) by (unfold cntf; rewrite Hget; reflexivity).
    split; [|split; [|split]].
    + intros n. rewrite Hc, Hc1. cbn [occ]. lia.
    + intros n. rewrite Hch. unfold g1. destruct (text_eqb_spec c n) as [->|Hne].
      * rewrite aget_aset_same, Hget. reflexivity.
      * rewrite aget_aset_other by exact Hne. reflexivity.
    + intros n. rewrite Hr. cbn [occ]. split.
      * intros [H|(H1 & H2)].
        -- unfold rs1 in H. destruct (k - 1 =? 0) eqn:Ek; [|auto].
           destruct H as [<-|H]; [|auto]. right.
           pose proof (Hle1 c) as Hl. rewrite Hc1, text_eqb_refl, Hkc in Hl.
           pose proof (occ_nonneg c cs). rewrite text_eqb_refl. split; [lia|].
           rewrite Hc, Hc1, text_eqb_refl, Hkc. lia.
        -- right. split; [|exact H2]. destruct (text_eqb c n); lia.
      * intros [H|(H1 & H2)].
        -- left. unfold rs1. destruct (k - 1 =? 0); [right|]; exact H.
        -- destruct (Z.ltb_spec 0 (occ n cs)) as [Hp|Hz]; [right; split; auto|].
           left. pose proof (occ_nonneg n cs).
           destruct (text_eqb_spec c n) as [->|Hne]; [|lia].
           rewrite Hc, Hc1, text_eqb_refl, Hkc in H2.
           unfold rs1. replace (k - 1 =? 0) with true by (symmetry; apply Z.eqb_eq; lia). left. reflexivity.
    + intros Hnd0 Hz. apply Hnd.
      * unfold rs1. destruct (k - 1 =? 0) eqn:Ek; [|exact Hnd0]. constructor; [|exact Hnd0].
        intros Hc_in. pose proof (Hz c Hc_in) as H0. pose proof (Hle c) as H1. cbn [occ] in H1.
        rewrite text_eqb_refl in H1. pose proof (occ_nonneg c cs). lia.
      * intros n Hn. rewrite Hc1. unfold rs1 in Hn.
        assert (Hcase : (k - 1 = 0 /\ n = c) \/ In n rs).
        { destruct (k - 1 =? 0) eqn:Ek; [|auto]. destruct Hn as [<-|Hn]; [|auto].
          left. split; [apply Z.eqb_eq; exact Ek|reflexivity]. }
        destruct Hcase as [(Hk0 & ->)|Hn'].
        -- rewrite text_eqb_refl, Hkc. lia.
        -- pose proof (Hz n Hn') as H0. pose proof (Hle n) as H1. cbn [occ] in H1.
           pose proof (occ_nonneg n cs). destruct (text_eqb c n); lia.
Qed.

Record CInv (roots : list node) (g : graph) (em : list node) : Prop := {
  c_keys_nodup : NoDup (keys g);
  c_keys : forall n, In n (keys g) <-> In n K /\ ~ In n em;
  c_entry : forall n c ch, aget n g = Some (c, ch) -> c = pending n em /\ ch = children n;
  c_roots : forall n, In n roots <-> In n (keys g) /\ pending n em = 0;
  c_roots_nodup : NoDup roots;
  c_order : before_ok em;
  c_em_nodup : NoDup em;
  c_em_nodes : forall n, In n em -> In n K
}.

Lemma cntf_pending roots g em n : CInv roots g em -> In n (keys g) -> cntf g n = pending n em.
Proof.
  intros HI Hn. destruct (aget_In n g Hn) as ([c ch] & Hg). unfold cntf. rewrite Hg.
  apply (c_entry _ _ _ HI) in Hg. tauto.
Qed.

Lemma child_unemitted roots g em r c :
  CInv roots g em -> In r (keys g) -> In (r, c) arcs -> In c (keys g).
Proof.
  intros HI Hr Harc. apply (c_keys _ _ _ HI). split; [apply (arcs_in_K _ _ Harc)|].
  intros Hc. apply in_split in Hc. destruct Hc as (l1 & l2 & E).
  pose proof (c_order _ _ _ HI l1 c l2 E r Harc) as Hin.
  apply (c_keys _ _ _ HI) in Hr. destruct Hr as (_ & Hr). apply Hr. rewrite E.
  apply in_or_app. right. right. exact Hin.
Qed.

Lemma cinv_step r rs g em ch0 c0 rs' g' :
  CInv (r :: rs) g em ->
  aget r g = Some (c0, ch0) ->
  fold_left visit ch0 (Some (rs, g)) = Some (rs', g') ->
  CInv rs' (adel r g') (r :: em).
Proof.
  intros HI Hget Hf.
  pose proof (c_entry _ _ _ HI _ _ _ Hget) as (Hc0 & Hch0). subst ch0.
  assert (Hrk : In r (keys g)) by (eapply aget_Some_In; eauto).
  destruct (proj1 (c_roots _ _ _ HI r) (or_introl eq_refl)) as (_ & Hr0).
  destruct (proj1 (c_keys _ _ _ HI r) Hrk) as (HrK & Hrem).
  assert (Hin : forall n, In n (children r) -> In n (keys g)).
  { intros n Hn. apply in_children_of in Hn. eapply child_unemitted; eauto. }
  assert (Hle : forall n, occ n (children r) <= cntf g n).
  { intros n. destruct (Z.ltb_spec 0 (occ n (children r))) as [Hp|Hz].
    - rewrite (cntf_pending _ _ _ _ HI) by (apply Hin, occ_pos_In, Hp). apply occ_children_le; auto.
    - pose proof (occ_nonneg n (children r)).
      assert (0 <= cntf g n); [|lia].
      unfold cntf. destruct (aget n g) as [[c ch]|] eqn:E; [|lia].
      apply (c_entry _ _ _ HI) in E. destruct E as (-> & _). apply pend_in_nonneg. }
  destruct (fold_visit_c (children r) rs g Hin Hle) as (rs2 & g2 & Hf2 & Hk & Hc & Hch & Hr & Hnd).
  assert (E2 : Some (rs', g') = Some (rs2, g2)) by (rewrite <- Hf, <- Hf2; reflexivity).
  injection E2 as <- <-.
  pose proof (c_roots_nodup _ _ _ HI) as Hrnd. inversion Hrnd as [|? ? Hrnot Hrsnd]; subst.
  assert (Hknd' : NoDup (keys g')) by (rewrite Hk; apply (c_keys_nodup _ _ _ HI)).
  assert (Hkeys' : forall n, In n (keys (adel r g')) <-> In n (keys g) /\ n <> r).
  { intros n. rewrite keys_adel, Hk. apply In_remove_first_nodup. apply (c_keys_nodup _ _ _ HI). }
  assert (Hpend' : forall n, In n (keys g) -> cntf g' n = pending n (r :: em)).
  { intros n Hn. rewrite Hc, (cntf_pending _ _ _ _ HI) by exact Hn. rewrite pending_emit by exact Hrem. reflexivity. }
  constructor.
  - rewrite keys_adel. apply NoDup_remove_first. exact Hknd'.
  - intros n. rewrite Hkeys', (c_keys _ _ _ HI). simpl. split.
    + intros ((H1 & H2) & H3). split; [auto|]. intros [E|E]; [congruence|contradiction].
    + intros (H1 & H2). split; [split; [auto|]|]; intros E; apply H2; auto.
  - intros n c ch Hg.
    assert (Hne : r <> n).
    { intros ->. rewrite aget_adel_same in Hg by exact Hknd'. discriminate. }
    rewrite aget_adel_other in Hg by exact Hne.
    assert (Hnk : In n (keys g)) by (rewrite <- Hk; eapply aget_Some_In; eauto).
    split.
    + rewrite <- Hpend' by exact Hnk. unfold cntf. rewrite Hg. reflexivity.
    + specialize (Hch n). rewrite Hg in Hch. simpl in Hch.
      destruct (aget n g) as [[c2 ch2]|] eqn:E2; [|discriminate]. simpl in Hch. injection Hch as ->.
      apply (c_entry _ _ _ HI) in E2. tauto.
  - intros n. rewrite Hr, Hkeys'. split.
    + intros [Hn|(Hp & Hz)].
      * assert (Hn2 : In n (r :: rs)) by (right; exact Hn).
        apply (c_roots _ _ _ HI) in Hn2. destruct Hn2 as (Hnk & Hn0).
        split; [split; [exact Hnk|intros ->; contradiction]|].
        rewrite pending_emit by exact Hrem. pose proof (occ_children_le n r em Hrem).
        pose proof (occ_nonneg n (children r)). lia.
      * assert (Hnk : In n (keys g)) by (apply Hin, occ_pos_In, Hp).
        split; [split; [exact Hnk|]|].
        -- intros ->. pose proof (occ_children_le r r em Hrem). lia.
        -- rewrite <- Hpend' by exact Hnk. exact Hz.
    + intros ((Hnk & Hne) & Hp0).
      destruct (Z.ltb_spec 0 (occ n (children r))) as [Hp|Hz].
      * right. split; [exact Hp|]. rewrite Hpend' by exact Hnk. exact Hp0.
      * left. pose proof (occ_nonneg n (children r)).
        rewrite pending_emit in Hp0 by exact Hrem.
        assert (Hn2 : In n (r :: rs)) by (apply (c_roots _ _ _ HI); split; [exact Hnk|lia]).
        destruct Hn2 as [E|Hn2]; [congruence|exact Hn2].
  - apply Hnd; [exact Hrsnd|]. intros n Hn.
    assert (Hn2 : In n (r :: rs)) by (right; exact Hn).
    apply (c_roots _ _ _ HI) in Hn2. destruct Hn2 as (Hnk & Hn0).
    rewrite (cntf_pending _ _ _ _ HI) by exact Hnk. exact Hn0.
  - intros l1 b l2 E a Ha. destruct l1 as [|x l1]; simpl in E; injection E as E1 E2.
    + subst. eapply pend_in_zero; eauto.
    + eapply (c_order _ _ _ HI); eauto.
  - constructor; [exact Hrem|apply (c_em_nodup _ _ _ HI)].
  - intros n [<-|Hn]; [exact HrK|apply (c_em_nodes _ _ _ HI); exact Hn].
Qed.

(* the loop never fails and ends with no roots *)
Lemma loop_inv fuel : forall roots g em,
  CInv roots g em -> (length g <= fuel)%nat ->
  exists g' em', loop fuel roots g em = Some (g', em') /\ CInv [] g' em'.
Proof.
  induction fuel as [|f IH]; intros roots g em HI Hlen.
  - destruct roots as [|r rs]; [exists g, em; split; [reflexivity|exact HI]|].
    exfalso. destruct (proj1 (c_roots _ _ _ HI r) (or_introl eq_refl)) as (Hk & _).
    destruct g; [destruct Hk|simpl in Hlen; lia].
  - destruct roots as [|r rs]; [exists g, em; split; [reflexivity|exact HI]|].
    destruct (proj1 (c_roots _ _ _ HI r) (or_introl eq_refl)) as (Hrk & Hr0).
    destruct (aget_In r g Hrk) as ([c0 ch0] & Hget).
    pose proof (c_entry _ _ _ HI _ _ _ Hget) as (Hc0 & Hch0).
    destruct (proj1 (c_keys _ _ _ HI r) Hrk) as (HrK & Hrem).
    assert (Hin : forall n, In n ch0 -> In n (keys g)).
    { subst ch0. intros n Hn. apply in_children_of in Hn. eapply child_unemitted; eauto. }
    assert (Hle : forall n, occ n ch0 <= cntf g n).
    { subst ch0. intros n. destruct (Z.ltb_spec 0 (occ n (children r))) as [Hp|Hz].
      - rewrite (cntf_pending _ _ _ _ HI) by (apply Hin, occ_pos_In, Hp). apply occ_children_le; auto.
      - pose proof (occ_nonneg n (children r)).
        assert (0 <= cntf g n); [|lia].
        unfold cntf. destruct (aget n g) as [[c ch]|] eqn:E; [|lia].
        apply (c_entry _ _ _ HI) in E. destruct E as (-> & _). apply pend_in_nonneg. }
    destruct (fold_visit_c ch0 rs g Hin Hle) as (rs' & g' & Hf & Hk & _).
    destruct (IH rs' (adel r g') (r :: em)) as (g2 & em2 & Hl & HI2).
    + eapply cinv_step; eauto.
    + assert (Hrk' : In r (keys g')) by (rewrite Hk; exact Hrk).
      pose proof (length_adel r g' Hrk') as Hl.
      assert (length g' = length g).
      { unfold keys in Hk. rewrite <- (map_length fst g'), Hk, map_length. reflexivity. }
      lia.
    + exists g2, em2. split; [|exact HI2]. cbn [loop]. rewrite Hget. cbv beta iota. rewrite Hf. exact Hl.
Qed.

(* consequences at loop exit *)
Lemma exit_all_emitted g em : CInv [] g em -> g = [] -> forall n, In n K -> In n em.
Proof.
  intros HI -> n Hn. destruct (in_dec text_eq_dec n em) as [H|H]; [exact H|].
  exfalso. apply (proj2 (c_keys _ _ _ HI n) (conj Hn H)).
Qed.

Lemma exit_certificate g em : CInv [] g em ->
  forall n, In n (keys g) -> exists a, In (a, n) arcs /\ In a (keys g).
Proof.
  intros HI n Hn.
  assert (Hp : pending n em <> 0).
  { intros H0. apply (proj2 (c_roots _ _ _ HI n) (conj Hn H0)). }
  pose proof (pend_in_nonneg arcs n em).
  destruct (pend_in_pos arcs n em) as (a & Ha & Hna); [unfold pending in Hp; lia|].
  exists a. split; [exact Ha|]. apply (c_keys _ _ _ HI). split; [apply (arcs_in_K _ _ Ha)|exact Hna].
Qed.
End Kahn.
