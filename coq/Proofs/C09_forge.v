(* C09 -- "never a different user id or token set", sharpest form without a cryptographic assumption:
   a cookie that the helper ACCEPTS and that carries the digest field of a ticket the helper ISSUED either is that ticket
   as far as identification can see (same timestamp, same typed user id, same tokens, same user_data) or exhibits a
   COLLISION of the keyed double digest on two different field tuples. *)
From Coq Require Import List NArith ZArith Bool Lia.
Import ListNotations.
Require Import Verif.Lib.Wire Verif.Lib.Text Verif.Lib.Percent Verif.Lib.Utf8 Verif.Lib.C09Base Verif.Lib.C09BaseP.
Require Import Verif.Gen.Facts_C09 Verif.Model.C09 Verif.Proofs.C09 Verif.Proofs.C09_rt Verif.Proofs.C09_more
               Verif.Proofs.C09_w5 Verif.Proofs.C09_w6.

Section Forge.
Variable H : text -> list N -> text.
Variable dsz : text -> nat.
Variable uni : N -> N.

Definition digest_field (alg ck0 : text) : option text :=
  match parse_fields dsz uni alg ck0 with FOk d _ _ _ _ => Some d | FBad => None end.

Local Opaque userid_typename.

Theorem accepted_is_issued_or_collision c r0 u0 ma toks hs k v r ck' ts u tk ud :
  H_len H dsz -> H_head H -> (forall a x, forallb valid_scalar (H a x) = true) ->
  (0 <= now r0 < 4294967296)%Z -> wf_uval u0 ->
  remember H c r0 u0 ma toks = Some hs -> In k hs -> ck_value k = Some v ->
  cookie r = Some ck' -> forallb valid_scalar ck' = true -> eff_ip c r = eff_ip c r0 ->
  identify_pre H dsz uni c r = ISome ts u tk ud ->
  digest_field (hashalg c) ck' = digest_field (hashalg c) v ->
  (ts = now r0 /\ u = u0 /\ tk = shown_tokens toks /\ ud = userid_typename ++ tag_of u0)
  \/ exists ip enc uid tkf,
       eff_ip c r = Some ip /\ encode_userid u0 = Some (tag_of u0, enc) /\
       (ts, uid, tkf, ud) <> (now r0, enc, joined toks, userid_typename ++ tag_of u0) /\
       calculate_digest H (hashalg c) ip ts (secret c) uid tkf ud
       = calculate_digest H (hashalg c) ip (now r0) (secret c) enc (joined toks) (userid_typename ++ tag_of u0).
Proof.
  intros HL HH HS Hn Hwf Hrem Hin Hv Hck Hsc Hip Hid Hdig.
  destruct (remember_some _ _ _ _ _ _ _ Hrem) as (R1 & R2 & R3).
  pose proof (encode_userid_uval_ok u0 Hwf R2) as Hok.
  destruct (encode_userid_ok H dsz uni u0 Hok) as (enc & EE & EA & ED).
  destruct (ud_facts u0) as (U1 & U2 & U3 & U4).
  unfold remember in Hrem. destruct (eff_ip c r0) as [ip|] eqn:Eip; [|discriminate].
  rewrite EE, R3 in Hrem. inversion Hrem; subst hs; clear Hrem. destruct Hin as [<-|[]].
  cbn [ck_value] in Hv. inversion Hv; subst v; clear Hv.
  assert (Ftok : Forall (fun t => valid_token t = true) toks) by (apply Forall_forall; apply forallb_forall; exact R3).
  pose proof (fields_roundtrip H dsz uni (hashalg c) ip (Z.to_N (now r0)) (secret c) enc toks
                               (userid_typename ++ tag_of u0) HL HH ltac:(lia) EA Ftok U1 U2 U3) as F0.
  rewrite Z2N.id in F0 by lia.
  destruct (accept_fields H dsz uni c r ck' ts u tk ud Hck Hid) as (ip' & d & uid & tkf & Eip' & F & Etk & Ed & Du & _).
  rewrite Hip in Eip'. inversion Eip'; subst ip'; clear Eip'.
  unfold digest_field in Hdig. rewrite F, F0 in Hdig. inversion Hdig; subst d; clear Hdig.
  assert (Ecd : calculate_digest H (hashalg c) ip ts (secret c) uid tkf ud
                = calculate_digest H (hashalg c) ip (now r0) (secret c) enc (joined toks) (userid_typename ++ tag_of u0)).
  { symmetry. apply encode_inj; [apply HS|apply HS|exact Ed]. }
  destruct (Z.eq_dec ts (now r0)) as [E1|N1];
    [destruct (list_eq_dec N.eq_dec uid enc) as [E2|N2];
     [destruct (list_eq_dec N.eq_dec tkf (joined toks)) as [E3|N3];
      [destruct (list_eq_dec N.eq_dec ud (userid_typename ++ tag_of u0)) as [E4|N4]|]|]|].
  - left. subst. rewrite U4, ED in Du. inversion Du; subst u. repeat split.
    destruct toks as [|t0 tr]; [reflexivity|]. unfold joined, shown_tokens.
    apply tokens_split_back; [discriminate|exact Ftok].
  - right. exists ip, enc, uid, tkf. rewrite Hip. repeat split; auto. intros X; inversion X; contradiction.
  - right. exists ip, enc, uid, tkf. rewrite Hip. repeat split; auto. intros X; inversion X; contradiction.
  - right. exists ip, enc, uid, tkf. rewrite Hip. repeat split; auto. intros X; inversion X; contradiction.
  - right. exists ip, enc, uid, tkf. rewrite Hip. repeat split; auto. intros X; inversion X; contradiction.
Qed.

End Forge.

(* non-vacuity: the issued ticket itself satisfies the hypotheses (first alternative) *)
Example forge_nonvacuous :
  digest_field (fun _ => 2%nat) (fun _ => 63%N) [109]%N ex_cookie = Some (firstn 4 ex_cookie)
  /\ identify_pre ex_H (fun _ => 2%nat) (fun _ => 63%N) ex_cfg (ex_req (Some ex_cookie) 1001)
     = ISome 1000 (VStr [98; 111; 98]%N) [[97]%N] (userid_typename ++ fst enc_str).
Proof. vm_compute. split; reflexivity. Qed.
