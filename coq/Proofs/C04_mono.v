(* C04 proofs, part 6: re-entrant runs -- executed actions come in non-decreasing
   phase order (invariant over the generator-step semantics). *)
From Coq Require Import List NArith ZArith Bool Lia Permutation Sorted.
Import ListNotations.
Require Import Verif.Lib.Wire Verif.Lib.C04Sort Verif.Gen.Facts_C04 Verif.Model.C04.
Require Import Verif.Proofs.C04_flat Verif.Proofs.C04_decide Verif.Proofs.C04_safe Verif.Proofs.C04_groups.

(* exec, also returning the yielded actions in order *)
Fixpoint exec_t (cfg : params) (fuel : nat) (st : cstate) (g : gen) (pending : list action)
         (log : list event) (tr : list action) : outcome * list event * list action :=
  match fuel with
  | O => (OutOfFuel, log, tr)
  | S f =>
      let '(st1, g1) := match pending with [] => (st, g) | _ => restart st pending end in
      match gen_next cfg st1 g1 with
      | SStop o evs _ => (o, log ++ evs, tr)
      | SYield a st2 g2 evs => exec_t cfg f st2 g2 (aadds a) (log ++ evs ++ [Run (aid a)]) (tr ++ [a])
      end
  end.

Lemma exec_t_exec cfg : forall fuel st g pending log tr,
  fst (exec_t cfg fuel st g pending log tr) = exec cfg fuel st g pending log.
Proof.
  induction fuel as [|f IH]; intros; [reflexivity|]. cbn [exec_t exec].
  destruct (match pending with [] => (st, g) | _ :: _ => restart st pending end) as [st1 g1].
  destruct (gen_next cfg st1 g1); [apply IH|reflexivity].
Qed.

Definition commit_trace (cfg : params) (acts : list action) : list action :=
  snd (exec_t cfg (S (forest_size acts)) cstate0 gen0 acts [] []).

Definition Pact (b : action) : Prop := all_int_orders b = true.
Definition Pitem (x : ainfo) : Prop := all_int_orders (snd x) = true.

Lemma Pact_force b : all_int_orders (force b) = all_int_orders b.
Proof. destruct b. reflexivity. Qed.
Lemma Pact_aord b : Pact b -> aord b = Some (ordkey b).
Proof. unfold Pact, ordkey. destruct b as [i d p o adds]. simpl. destruct o; [reflexivity|discriminate]. Qed.
Lemma Pact_adds b : Pact b -> Forall Pact (aadds b).
Proof.
  unfold Pact. destruct b as [i d p o adds]. simpl. intros H. apply andb_true_iff in H. destruct H as [_ H].
  induction adds as [|x r IH]; [constructor|]. apply andb_true_iff in H. destruct H as [H1 H2]. constructor; [exact H1|apply IH; exact H2].
Qed.

Lemma mark_forced_P id l : Forall Pact l -> Forall Pact (mark_forced id l).
Proof.
  unfold mark_forced. rewrite !Forall_forall. intros H y Hy. apply in_map_iff in Hy. destruct Hy as [b [<- Hb]].
  destruct (N.eqb (aid b) id); [unfold Pact; rewrite Pact_force|]; apply H; exact Hb.
Qed.
Lemma mark_group_P grp : forall l, Forall Pact l -> Forall Pact (mark_group grp l).
Proof. unfold mark_group. induction grp as [|x r IH]; intros l H; simpl; [exact H|]. apply IH. apply mark_forced_P. exact H. Qed.
Lemma remove_aid_P id : forall l l', Forall Pact l -> remove_aid id l = Some l' -> Forall Pact l'.
Proof.
  induction l as [|b r IH]; intros l' H E; simpl in E; [discriminate|]. inversion H; subst.
  destruct (N.eqb (aid b) id); [inversion E; subst; assumption|].
  destruct (remove_aid id r) as [r'|] eqn:Er; [|discriminate]. inversion E; subst. constructor; [assumption|]. apply (IH r'); auto.
Qed.
Lemma remove_all_P ds : forall l l', Forall Pact l -> remove_all ds l = Some l' -> Forall Pact l'.
Proof.
  induction ds as [|x r IH]; intros l l' H E; [inversion E; subst; exact H|]. rewrite remove_all_cons in E.
  destruct (remove_aid (aid (snd x)) l) as [l1|] eqn:E1; [|discriminate]. apply (IH l1 l'); [eapply remove_aid_P; eauto|exact E].
Qed.

(* ---------- the generator invariant *)
Record GI (st : cstate) (g : gen) : Prop := {
  G1 : StronglySorted Z.lt (map fst (g_groups g));
  G2 : Forall (fun kg => Forall (fun x => okey x = fst kg) (snd kg)) (g_groups g);
  G3 : forall x, In x (g_out g) ->
         (forall m, min_order st = Some m -> (m <= okey x)%Z) /\ (forall k, In k (map fst (g_groups g)) -> (okey x < k)%Z);
  G4 : forall x y, In x (g_out g) -> In y (g_out g) -> okey x = okey y;
  G7 : Forall Pitem (gitems g) }.

Definition StepPost (st : cstate) (a : action) (st2 : cstate) (g2 : gen) : Prop :=
  GI st2 g2 /\ (forall m, min_order st = Some m -> (m <= ordkey a)%Z) /\ min_order st2 = Some (ordkey a)
  /\ Pact a /\ Forall Pact (remaining st2).

Lemma yield_first_mono st x rest gs evs a st2 g2 e :
  Forall Pact (remaining st) ->
  GI st {| g_out := x :: rest; g_groups := gs |} ->
  yield_first st x rest gs evs = SYield a st2 g2 e -> StepPost st a st2 g2.
Proof.
  intros HR HG H. unfold yield_first in H. destruct (remove_aid (aid (snd x)) (remaining st)) as [rem|] eqn:Er; [|discriminate].
  inversion H; subst. clear H. destruct HG as [g1 g2' g3 g4 g7]. cbn [g_out g_groups gitems] in *.
  assert (Px : Pitem x) by (inversion g7; assumption).
  destruct (g3 x (or_introl eq_refl)) as [Hm Hk]. unfold StepPost. cbn [min_order remaining].
  split; [|split; [exact Hm|split; [apply Pact_aord; exact Px|split; [exact Px|eapply remove_aid_P; eauto]]]].
  constructor; cbn [g_out g_groups gitems min_order].
  - exact g1.
  - exact g2'.
  - intros y Hy. split.
    + intros m Em. rewrite (Pact_aord _ Px) in Em. inversion Em; subst.
      pose proof (g4 x y (or_introl eq_refl) (or_intror Hy)) as E4. unfold okey in *. lia.
    + apply (g3 y (or_intror Hy)).
  - intros y z Hy Hz. apply g4; right; assumption.
  - inversion g7; assumption.
Qed.

Lemma next_group_mono cfg : forall gs st evs a st2 g2 e,
  Forall Pact (remaining st) ->
  StronglySorted Z.lt (map fst gs) ->
  Forall (fun kg => Forall (fun x => okey x = fst kg) (snd kg)) gs ->
  Forall Pitem (concat (map snd gs)) ->
  next_group cfg st gs evs = SYield a st2 g2 e -> StepPost st a st2 g2.
Proof.
  induction gs as [|[k grp] gs IH]; intros st evs a st2 g2 e HR S1 S2 S7 H; [discriminate|].
  cbn [next_group] in H. destruct (late (min_order st) k) eqn:EL; [discriminate|].
  simpl in S1, S7. inversion S1 as [|? ? S1' Hlt]; subst. inversion S2 as [|? ? Hk S2']; subst. simpl in Hk.
  apply Forall_app in S7. destruct S7 as [P7 S7'].
  assert (HP : Forall (fun y => okey y = k /\ Pitem y) (forced_group grp)).
  { unfold forced_group. rewrite Forall_forall in *. intros y Hy. apply in_map_iff in Hy. destruct Hy as [z [<- Hz]].
    split; [apply (Hk z Hz)|]. unfold Pitem. cbn [snd]. rewrite Pact_force. apply (P7 z Hz). }
  pose proof (group_output_all _ cfg (resolved st) grp HP) as Hout. unfold group_output in Hout.
  destruct (detect cfg (resolved st) (sort_unique_lists (build_unique (forced_group grp)))) as [firsts K]. cbn [fst] in Hout.
  destruct K; [|discriminate].
  match type of H with context [match ?X with Some _ => _ | None => _ end] => destruct X as [rem2|] eqn:ER; [|discriminate] end.
  assert (HR2 : Forall Pact rem2).
  { destruct (drop_discarded cfg); [eapply remove_all_P; [|exact ER]|inversion ER; subst]; apply mark_group_P; exact HR. }
  set (st' := {| resolved := resolved st; remaining := rem2; min_order := min_order st; start := start st |}) in *.
  destruct (sort (leb_by output_key) (none_output (forced_group grp) ++ firsts)) as [|x rest].
  - destruct (IH st' _ a st2 g2 e HR2 S1' S2' S7' H) as [A [B [C [Dd E]]]]. split; [exact A|]. split; [exact B|]. tauto.
  - assert (HGI : GI st' {| g_out := x :: rest; g_groups := gs |}).
    { rewrite Forall_forall in Hout. constructor; cbn [g_out g_groups gitems min_order st'].
      - exact S1'.
      - exact S2'.
      - intros y Hy. destruct (Hout y Hy) as [Hy1 _]. split.
        + intros m Em. unfold late in EL. rewrite Em in EL. replace min_order_cmp with 0%N in EL by reflexivity.
          cbn [cmp_eval] in EL. apply Z.ltb_ge in EL. lia.
        + intros k' Hk'. rewrite Forall_forall in Hlt. specialize (Hlt _ Hk'). lia.
      - intros y z Hy Hz. destruct (Hout y Hy) as [-> _]. destruct (Hout z Hz) as [-> _]. reflexivity.
      - apply Forall_app. split; [|exact S7']. rewrite Forall_forall. intros y Hy. apply (Hout y Hy). }
    apply (yield_first_mono st' x rest gs _ a st2 g2 e HR2 HGI H).
Qed.

Lemma gen_next_mono cfg st g a st2 g2 e :
  Forall Pact (remaining st) -> GI st g -> gen_next cfg st g = SYield a st2 g2 e -> StepPost st a st2 g2.
Proof.
  intros HR HG H. unfold gen_next in H. destruct g as [out gs]. cbn [g_out g_groups] in H. destruct out as [|x rest].
  - destruct HG as [g1 g2' _ _ g7]. cbn [g_out g_groups gitems] in *. eapply next_group_mono; eauto.
  - eapply yield_first_mono; eauto.
Qed.

Lemma enumerate_In_snd' i b l s : In (i, b) (enumerate s l) -> In b l.
Proof. intros H. rewrite <- (enumerate_snd l s). change b with (snd (i, b)). apply in_map. exact H. Qed.

Lemma sorted_enumerate_okey s l :
  StronglySorted (fun x y => (okey x <= okey y)%Z) (sort (leb_by orderandpos_key) (enumerate s l)).
Proof.
  eapply SS_impl; [apply (sort_sorted _ leb12_total leb12_trans)|]. intros x y H. cbv beta in *. apply leb12_spec in H. lia.
Qed.

Lemma restart_GI st new :
  Forall Pact (remaining st) -> Forall Pact new ->
  GI (fst (restart st new)) (snd (restart st new)) /\ Forall Pact (remaining (fst (restart st new)))
  /\ min_order (fst (restart st new)) = min_order st.
Proof.
  intros HR HN. unfold restart. cbn [fst snd remaining min_order]. rewrite group_key_okey.
  assert (HA : Forall Pact (remaining st ++ new)) by (apply Forall_app; split; assumption).
  split; [|split; [exact HA|reflexivity]].
  constructor; cbn [g_out g_groups gitems app].
  - apply groupby_sorted_keys. apply sorted_enumerate_okey.
  - eapply Forall_impl; [|apply groupby_keys]. intros kg [_ H]. exact H.
  - intros x [].
  - intros x y [].
  - rewrite groupby_concat. rewrite Forall_forall in *. intros x Hx. apply sort_In in Hx. destruct x as [i b].
    apply enumerate_In_snd' in Hx. apply HA. exact Hx.
Qed.

Definition phase_le (a b : action) : Prop := (ordkey a <= ordkey b)%Z.

Lemma SS_snoc {A} (R : A -> A -> Prop) l a :
  StronglySorted R l -> (forall b, In b l -> R b a) -> StronglySorted R (l ++ [a]).
Proof.
  induction 1 as [|x r Hs IH Hall]; intros H; simpl; [repeat constructor|].
  constructor; [apply IH; intros b Hb; apply H; right; exact Hb|].
  apply Forall_app. split; [exact Hall|]. repeat constructor. apply H. left. reflexivity.
Qed.

Lemma exec_t_mono cfg : forall fuel st g pending log tr,
  Forall Pact (remaining st) -> Forall Pact pending ->
  (pending = [] -> GI st g) ->
  StronglySorted phase_le tr ->
  (forall b, In b tr -> exists m, min_order st = Some m /\ (ordkey b <= m)%Z) ->
  StronglySorted phase_le (snd (exec_t cfg fuel st g pending log tr)).
Proof.
  induction fuel as [|f IH]; intros st g pending log tr HR HP HG HS HT; [exact HS|].
  cbn [exec_t].
  assert (H1 : exists st1 g1, (match pending with [] => (st, g) | _ :: _ => restart st pending end) = (st1, g1) /\
               GI st1 g1 /\ Forall Pact (remaining st1) /\ min_order st1 = min_order st).
  { destruct pending as [|p ps].
    - exists st, g. split; [reflexivity|]. split; [apply HG; reflexivity|]. split; [exact HR|reflexivity].
    - destruct (restart_GI st (p :: ps) HR HP) as [A [B C]].
      exists (fst (restart st (p :: ps))), (snd (restart st (p :: ps))). split; [reflexivity|]. tauto. }
  destruct H1 as [st1 [g1 [-> [HG1 [HR1 HM1]]]]].
  destruct (gen_next cfg st1 g1) as [a st2 g2 e|o e st'] eqn:EG; [|exact HS].
  destruct (gen_next_mono cfg st1 g1 a st2 g2 e HR1 HG1 EG) as [A [B [C [Dd E]]]].
  apply IH.
  - exact E.
  - apply Pact_adds. exact Dd.
  - intros _. exact A.
  - apply SS_snoc; [exact HS|]. intros b Hb. destruct (HT b Hb) as [m [Em Hm]]. rewrite <- HM1 in Em.
    specialize (B m Em). unfold phase_le. lia.
  - intros b Hb. exists (ordkey a). split; [exact C|]. apply in_app_or in Hb. destruct Hb as [Hb|[<-|[]]]; [|lia].
    destruct (HT b Hb) as [m [Em Hm]]. rewrite <- HM1 in Em. specialize (B m Em). lia.
Qed.

(* executed actions come in non-decreasing phase order, for every program (re-entrant ones included)
   whose orders are ints; holds for the repaired and the unrepaired parameters alike *)
Theorem executed_monotone cfg acts :
  wf_orders acts = true -> StronglySorted phase_le (commit_trace cfg acts).
Proof.
  intros H. unfold commit_trace. apply exec_t_mono.
  - constructor.
  - unfold wf_orders in H. rewrite forallb_forall in H. rewrite Forall_forall. exact H.
  - intros _. constructor; cbn [gen0 g_out g_groups gitems map app concat].
    + constructor.
    + constructor.
    + intros x [].
    + intros x y [].
    + constructor.
  - constructor.
  - intros b [].
Qed.

(* the trace belongs to the same run: its first components are [commit_with] *)
Lemma commit_trace_commit cfg acts :
  fst (exec_t cfg (S (forest_size acts)) cstate0 gen0 acts [] []) = commit_with cfg acts.
Proof. apply exec_t_exec. Qed.

(* ---------- the trace is what the log's Run events say *)
Definition is_run (e : event) : bool := match e with Run _ => true | Force _ => false end.
Definition run_events (log : list event) : list event := filter is_run log.

Lemma force_events_no_run grp : run_events (force_events grp) = [].
Proof.
  unfold run_events, force_events. induction (filter (fun x => is_deferred (adisc (snd x))) grp) as [|x r IH]; [reflexivity|exact IH].
Qed.

Lemma next_group_no_run cfg : forall gs st evs,
  run_events evs = [] ->
  match next_group cfg st gs evs with
  | SYield _ _ _ e => run_events e = []
  | SStop _ e _ => run_events e = []
  end.
Proof.
  induction gs as [|[k grp] gs IH]; intros st evs H; [exact H|]. cbn [next_group].
  destruct (late (min_order st) k); [exact H|].
  assert (H' : run_events (evs ++ force_events grp) = []).
  { unfold run_events in *. rewrite filter_app, H. apply force_events_no_run. }
  destruct (detect cfg (resolved st) (sort_unique_lists (build_unique (forced_group grp)))) as [firsts K].
  destruct K; [|exact H'].
  match goal with |- context [match ?X with Some _ => _ | None => _ end] => destruct X as [rem2|]; [|exact H'] end.
  destruct (sort (leb_by output_key) (none_output (forced_group grp) ++ firsts)) as [|x rest].
  - apply IH. exact H'.
  - unfold yield_first. destruct (remove_aid (aid (snd x)) _); exact H'.
Qed.

Lemma gen_next_no_run cfg st g :
  match gen_next cfg st g with
  | SYield _ _ _ e => run_events e = []
  | SStop _ e _ => run_events e = []
  end.
Proof.
  unfold gen_next. destruct (g_out g) as [|x rest].
  - apply next_group_no_run. reflexivity.
  - unfold yield_first. destruct (remove_aid (aid (snd x)) (remaining st)); reflexivity.
Qed.

Lemma exec_t_log cfg : forall fuel st g pending log tr,
  run_events log = map (fun a => Run (aid a)) tr ->
  run_events (snd (fst (exec_t cfg fuel st g pending log tr))) = map (fun a => Run (aid a)) (snd (exec_t cfg fuel st g pending log tr)).
Proof.
  induction fuel as [|f IH]; intros st g pending log tr H; [exact H|]. cbn [exec_t].
  destruct (match pending with [] => (st, g) | _ :: _ => restart st pending end) as [st1 g1].
  pose proof (gen_next_no_run cfg st1 g1) as HN.
  destruct (gen_next cfg st1 g1) as [a st2 g2 e|o e st'].
  - apply IH. unfold run_events in *. rewrite !filter_app, H, HN, map_app. reflexivity.
  - cbn [fst snd]. unfold run_events in *. rewrite filter_app, H, HN, app_nil_r. reflexivity.
Qed.

(* the callables that ran, as recorded in the log of [commit_with], are exactly the trace *)
Theorem commit_trace_log cfg acts :
  run_events (snd (commit_with cfg acts)) = map (fun a => Run (aid a)) (commit_trace cfg acts).
Proof.
  unfold commit_trace. rewrite <- (commit_trace_commit cfg acts). apply exec_t_log. reflexivity.
Qed.
