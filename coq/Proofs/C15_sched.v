(* C15 -- the scheduler of nested schedules (wire glue) only ever extends the label trace by
   labels it has executed: its final state is [exec] of the trace it emits.  Generic in the programs. *)
From Coq Require Import List NArith ZArith Bool Arith Lia.
Import ListNotations.
Require Import Verif.Lib.Wire Verif.Lib.C15Prog Verif.Gen.Facts_C15 Verif.Model.C15.

Section Sched.
  Variable sro : N -> list N.
  Variable km : key_mode.
  Variables LP RP : list instr.
  Variable st0 : state.

  Definition Snd (s : sst) : Prop := sstate s = exec sro km LP RP (rev (strace s)) st0.

  Lemma Snd_emit s l : Snd s -> Snd (emit sro km LP RP s l).
  Proof.
    unfold Snd. destruct s as [[st tr] ids]. simpl. intros ->.
    unfold exec. rewrite fold_left_app. reflexivity.
  Qed.

  Lemma Snd_note s id : Snd s -> Snd (note s id).
  Proof. unfold Snd. destruct s as [[st tr] ids]. simpl. auto. Qed.

  Lemma Snd_fold (F : op -> sst -> sst) ops :
    (forall o s, Snd s -> Snd (F o s)) -> forall s, Snd s -> Snd (fold_left (fun s o => F o s) ops s).
  Proof. intros HF. induction ops as [|o r IH]; intros s H; simpl; auto. Qed.

  Lemma drive_lookup_sound (run : list op -> sst -> sst) i inj :
    (forall ops s, Snd s -> Snd (run ops s)) ->
    forall n q b s, Snd s -> Snd (drive_lookup sro km LP RP run i inj n q b s).
  Proof.
    intros RO. induction n as [|n IHn]; intros q b s H; [exact H|]. simpl.
    destruct (threads (sstate s) i) as [t|]; [|exact H].
    destruct (cont t) as [|ins rest]; [exact H|].
    apply IHn. apply Snd_emit.
    destruct ins; try exact H; try (apply RO; exact H).
    destruct b; [apply RO; exact H|exact H].
  Qed.

  Lemma drive_register_sound (run : list op -> sst -> sst) i inj inj2 :
    (forall ops s, Snd s -> Snd (run ops s)) ->
    forall n s, Snd s -> Snd (drive_register sro km LP RP run i inj inj2 n s).
  Proof.
    intros RO. induction n as [|n IHn]; intros s H; [exact H|]. simpl.
    destruct (threads (sstate s) i) as [t|]; [|exact H].
    destruct (cont t) as [|ins rest]; [exact H|].
    apply IHn.
    destruct ins; try (apply Snd_emit; exact H).
    apply RO. apply Snd_emit. apply RO. exact H.
  Qed.

  Lemma run_op_sound fuel : forall o s, Snd s -> Snd (run_op sro km LP RP fuel o s).
  Proof.
    induction fuel as [|f IH]; intros o s H; [exact H|].
    assert (RO : forall ops s, Snd s -> Snd (fold_left (fun s o => run_op sro km LP RP f o s) ops s)).
    { intros ops. apply Snd_fold. intros o0 s0. apply IH. }
    destruct o as [id k inj|id ups inj inj2].
    - change (Snd (drive_lookup sro km LP RP (fun ops s => fold_left (fun s o => run_op sro km LP RP f o s) ops s)
                                (ntid (sstate s)) inj lookup_fuel 0 false
                                (emit sro km LP RP (note s id) (SpawnLookup k)))).
      apply drive_lookup_sound; [exact RO|]. apply Snd_emit, Snd_note, H.
    - change (Snd (drive_register sro km LP RP (fun ops s => fold_left (fun s o => run_op sro km LP RP f o s) ops s)
                                  (ntid (sstate s)) inj inj2 register_fuel
                                  (emit sro km LP RP (note s id) (SpawnRegister ups)))).
      apply drive_register_sound; [exact RO|]. apply Snd_emit, Snd_note, H.
  Qed.

  Lemma run_ops_sound fuel ops s : Snd s -> Snd (run_ops sro km LP RP fuel ops s).
  Proof. unfold run_ops. apply Snd_fold. intros o s0. apply run_op_sound. Qed.
End Sched.

(* what run_C15 computes: the state it reports is exec of the trace it reports *)
Theorem sched_sound : forall sro km LP RP fuel ops st0,
  let s := run_ops sro km LP RP fuel ops (st0, [], []) in
  sstate s = exec sro km LP RP (rev (strace s)) st0.
Proof.
  intros sro km LP RP fuel ops st0. apply (run_ops_sound sro km LP RP st0 fuel ops (st0, [], [])).
  reflexivity.
Qed.
