(* C06: URL generation on one request object depends on the request's environ at the time of the
   call only -- not on earlier generations on the same object, not on earlier values of SCRIPT_NAME. *)
From Coq Require Import List NArith ZArith Bool.
Import ListNotations.
Require Import Verif.Lib.Wire Verif.Lib.Text Verif.Lib.Utf8 Verif.Lib.Percent.
Require Verif.Gen.Facts_C01 Verif.Model.C01.
Require Import Verif.Gen.Facts_C17 Verif.Model.C17 Verif.Proofs.C17.
Require Import Verif.Gen.Facts_C06 Verif.Model.C06.
Open Scope N_scope.

Lemma Facts_ok_request_state : request_state_written = false.
Proof. reflexivity. Qed.

(* the lru_cache of _join_elements is transparent (C17's regenerated fact: its key is the stringified tuple) *)
Lemma Facts_ok_join_key : join_elements_key_stringified = true.
Proof. reflexivity. Qed.

Lemma route_url_any_cache c e rs n els o kw : route_url c e rs n els o kw = route_url [] e rs n els o kw.
Proof.
  unfold route_url. destruct (assoc n rs) as [p|]; [|reflexivity].
  rewrite !(join_elements_cache_transparent_repaired _ _ Facts_ok_join_key). reflexivity.
Qed.

Lemma route_path_any_cache c e rs n els o kw : route_path c e rs n els o kw = route_path [] e rs n els o kw.
Proof. unfold route_path. destruct (path_app_url route_path_script_quoted e); cbn [rbind]; [apply route_url_any_cache|reflexivity]. Qed.

(* any history of SCRIPT_NAME changes, path_info_pop calls and generations, whatever earlier generations in
   the process left in the element cache: every generation step answers with route_url / route_path of
   the environ as it is at that step *)
Theorem request_history_stateless e rs target steps : forall st c,
  run_req false e rs target st c steps = spec_req e rs target (rs_script st) (rs_pinfo st) steps.
Proof.
  induction steps as [|s r IH]; intros st c; [reflexivity|].
  destruct s as [s| |els o kw]; cbn [run_req spec_req].
  - rewrite IH. reflexivity.
  - destruct (path_info_pop (rs_script st) (rs_pinfo st)) as [s' p']. rewrite IH. reflexivity.
  - unfold gen_step. cbn [andb]. rewrite IH. cbn [rs_script rs_pinfo].
    rewrite route_url_any_cache, route_path_any_cache. reflexivity.
Qed.

(* for the code of the current source (depends on the regenerated facts) *)
Theorem request_generation_stateless e rs target script pinfo memo c steps :
  run_req request_state_written e rs target (mkRS script pinfo memo) c steps = spec_req e rs target script pinfo steps.
Proof. rewrite Facts_ok_request_state. apply request_history_stateless. Qed.

(* route_path of every generation step is route_url minus scheme://authority of the CURRENT environ *)
Theorem request_history_prefix e rs target steps : forall script pinfo s u p,
  In (s, (Ok u, p)) (spec_req e rs target script pinfo steps) ->
  (forall els o kw, In (RGen els o kw) steps -> o_app_url o = None) ->
  exists els o kw P, In (RGen els o kw) steps /\ p = Ok P /\ u = host_part (env_with e s) o ++ P.
Proof.
  induction steps as [|st r IH]; intros script pinfo s u p Hin Hov; [contradiction|].
  destruct st as [s0| |els o kw]; cbn [spec_req] in Hin.
  - destruct (IH _ _ _ _ _ Hin) as (els & o & kw & P & H1 & H2 & H3); [intros; eapply Hov; right; eassumption|].
    exists els, o, kw, P. split; [right; exact H1|auto].
  - destruct (path_info_pop script pinfo) as [s' p'].
    destruct (IH _ _ _ _ _ Hin) as (els & o & kw & P & H1 & H2 & H3); [intros; eapply Hov; right; eassumption|].
    exists els, o, kw, P. split; [right; exact H1|auto].
  - destruct Hin as [E|Hin].
    + injection E as E1 E2 E3. subst s p.
      destruct (route_path_is_url_minus_authority _ _ _ _ _ _ _ _ (Hov _ _ _ (or_introl eq_refl)) E2) as (P & HP & ->).
      exists els, o, kw, P. split; [left; reflexivity|]. split; [exact HP|reflexivity].
    + destruct (IH _ _ _ _ _ Hin) as (els' & o' & kw' & P & H1 & H2 & H3); [intros; eapply Hov; right; eassumption|].
      exists els', o', kw', P. split; [right; exact H1|auto].
Qed.

(* if the quoted script name were kept on the request, the statement would be false:
   '/x' under SCRIPT_NAME '/a', then SCRIPT_NAME := '/b': route_path still says '/a/x' *)
Definition req_pat : pattern := mkPat [47; 120] [] None.
Definition req_env : env := mkEnv [104; 116; 116; 112] None [115] [56; 48] [47; 97].
Definition req_ov : overrides := mkOv None None None None None None.
Definition req_steps : list rstep := [RGen [] req_ov []; RSet [47; 98]; RGen [] req_ov []].

Theorem request_memo_refuted :
  run_req true req_env [([114], req_pat)] [114] (mkRS [47; 97] [] None) [] req_steps
  <> spec_req req_env [([114], req_pat)] [114] [47; 97] [] req_steps.
Proof. vm_compute. discriminate. Qed.

Example request_history_example :
  map (fun x => snd (snd x)) (spec_req req_env [([114], req_pat)] [114] [47; 97] [] req_steps)
    = [Ok [47; 97; 47; 120]; Ok [47; 98; 47; 120]]                                   (* /a/x, /b/x *)
  /\ map (fun x => snd (snd x)) (run_req true req_env [([114], req_pat)] [114] (mkRS [47; 97] [] None) [] req_steps)
    = [Ok [47; 97; 47; 120]; Ok [47; 97; 47; 120]]                                   (* /a/x, /a/x (stale) *)
  /\ path_info_pop [47; 97] [47; 47; 98; 47; 99] = ([47; 97; 47; 47; 98], [47; 99]).  (* '/a' + '//b', '/c' *)
Proof. vm_compute. repeat split; reflexivity. Qed.
