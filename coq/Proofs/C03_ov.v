(* C03: the registry invariant and the lookup theorem for registration lists WITH overriding
   declarations: a later registration with the same (slot, phash) replaces the earlier one, so the
   registry after [register_all regs] is described by [live_regs regs] (last registration per key). *)
From Coq Require Import List NArith ZArith Bool Lia Sorting.Sorted Sorting.Permutation.
Import ListNotations.
Require Import Verif.Lib.Wire Verif.Lib.Text Verif.Gen.Facts_C03 Verif.Model.C03 Verif.Proofs.C03.

Definition skey (a b : reg) : bool :=
  slot_eqb (r_slot a) (r_slot b) && text_eqb (r_phash a) (r_phash b).

Lemma skey_iff a b : skey a b = true <-> key a = key b.
Proof.
  unfold skey, key. rewrite andb_true_iff, slot_eqb_eq, text_eqb_eq. split; [intros [-> ->]; reflexivity|].
  intros H; inversion H; auto.
Qed.
Lemma skey_sym a b : skey a b = skey b a.
Proof.
  destruct (skey a b) eqn:E1, (skey b a) eqn:E2; try reflexivity.
  - apply skey_iff in E1. symmetry in E1. apply skey_iff in E1. congruence.
  - apply skey_iff in E2. symmetry in E2. apply skey_iff in E2. congruence.
Qed.

Lemma live_regs_snoc regs v :
  live_regs (regs ++ [v]) = filter (fun w => negb (skey w v)) (live_regs regs) ++ [v].
Proof.
  induction regs as [|x regs IH]; simpl; [reflexivity|].
  rewrite existsb_app. simpl. rewrite orb_false_r.
  destruct (existsb (fun w => slot_eqb (r_slot w) (r_slot x) && text_eqb (r_phash w) (r_phash x)) regs) eqn:E; simpl.
  - exact IH.
  - change (slot_eqb (r_slot v) (r_slot x) && text_eqb (r_phash v) (r_phash x)) with (skey v x).
    rewrite (skey_sym x v). destruct (skey v x); simpl; rewrite IH; reflexivity.
Qed.

Lemma live_regs_in regs v : In v (live_regs regs) -> In v regs.
Proof.
  induction regs as [|x regs IH]; simpl; [auto|].
  destruct (existsb _ regs); simpl; intros H; [auto|]. destruct H; auto.
Qed.

Lemma live_regs_nodup regs : NoDup (map key (live_regs regs)).
Proof.
  induction regs as [|x regs IH]; simpl; [constructor|].
  destruct (existsb (fun w => slot_eqb (r_slot w) (r_slot x) && text_eqb (r_phash w) (r_phash x)) regs) eqn:E; [exact IH|].
  simpl. constructor; [|exact IH]. intros Hin. apply in_map_iff in Hin. destruct Hin as (w & Hk & Hw).
  apply live_regs_in in Hw. assert (Hex : existsb (fun w => slot_eqb (r_slot w) (r_slot x) && text_eqb (r_phash w) (r_phash x)) regs = true).
  { apply existsb_exists. exists w. split; [assumption|]. apply (proj2 (skey_iff w x)). assumption. }
  congruence.
Qed.

(* overriding declarations keep the order (true when the order is computed from the predicates) *)
Definition key_order (regs : list reg) : Prop :=
  forall a b, In a regs -> In b regs -> key a = key b -> r_order a = r_order b.

(* ---- sortedness depends on the orders only *)
Lemma entries_sorted_orders l : entries_sorted l <-> StronglySorted Z.le (map e_order l).
Proof.
  unfold entries_sorted. induction l as [|e l IH]; simpl; split; intros H; try constructor; inversion H; subst.
  - apply IH. assumption.
  - apply Forall_map. eapply Forall_impl; [|eassumption]. intros a Ha. unfold entry_leb in Ha. apply Z.leb_le. assumption.
  - apply IH. assumption.
  - rewrite Forall_map in H3. eapply Forall_impl; [|eassumption]. intros a Ha. unfold entry_leb. apply Z.leb_le. assumption.
Qed.

Lemma replace_phash_split ph new l l' :
  replace_phash ph new l = Some l' ->
  exists a e0 b, l = a ++ e0 :: b /\ e_phash e0 = ph /\ l' = a ++ new :: b.
Proof.
  revert l'. induction l as [|e l IH]; intros l' H; simpl in H; [discriminate|].
  destruct (text_eqb_spec ph (e_phash e)) as [E|E].
  - inversion H; subst. exists [], e, l. auto.
  - destruct (replace_phash ph new l) as [r'|]; [|discriminate]. inversion H; subst.
    destruct (IH r' eq_refl) as (a & e0 & b & -> & H1 & ->). exists (e :: a), e0, b. auto.
Qed.

Lemma replace_phash_found ph new l e0 :
  In e0 l -> e_phash e0 = ph -> exists l', replace_phash ph new l = Some l'.
Proof.
  induction l as [|e l IH]; intros Hin Hp; [destruct Hin|]. simpl.
  destruct (text_eqb_spec ph (e_phash e)); [eauto|].
  destruct Hin as [->|Hin]; [congruence|]. destruct (IH Hin Hp) as (l' & ->). eauto.
Qed.

(* a single view overridden by a registration with the same phash, under either interface *)
Lemma register_view_override ao R v o :
  R (r_slot v) (vt_of o) = Some (CView o) ->
  (forall vt, vt <> vt_of o -> R (r_slot v) vt = None) ->
  r_phash o = r_phash v ->
  register_view ao R v (r_slot v) (vt_of v) = Some (CView v)
  /\ forall vt, vt <> vt_of v -> register_view ao R v (r_slot v) vt = None.
Proof.
  intros H1 H2 Hp. unfold register_view. cbv zeta. rewrite register_view_types_ok.
  assert (Hf : first_registered R (r_slot v) [IView; ISecuredView; IMultiView] = Some (CView o)).
  { simpl. unfold vt_of in *. destruct (r_secured o).
    - rewrite (H2 IView) by discriminate. rewrite H1. reflexivity.
    - rewrite H1. reflexivity. }
  rewrite Hf, attr_phash_eq, Hp, text_eqb_refl. cbv beta iota. cbn [negb orb andb].
  rewrite override_unregister_types_ok. split.
  - apply reg_set_same.
  - intros vt Hvt. rewrite reg_set_other_vt.
    + destruct vt; [apply unregister_all_in; simpl; auto|apply unregister_all_in; simpl; auto|].
      apply unregister_all_none. apply H2. unfold vt_of. destruct (r_secured o); discriminate.
    + unfold vt_of in Hvt. destruct vt, (r_secured v); simpl; try reflexivity; contradiction.
Qed.

(* a view of a MultiView overridden in place *)
Lemma register_view_multi_override ao R v m views' vt :
  R (r_slot v) IView = None -> R (r_slot v) ISecuredView = None ->
  R (r_slot v) IMultiView = Some (CMulti m) ->
  replace_phash (r_phash v) (entry_of v) (mv_views m) = Some views' ->
  register_view ao R v (r_slot v) vt =
  match vt with
  | IMultiView => Some (CMulti (mkMV views' (mv_media m) (mv_accepts m)))
  | _ => None
  end.
Proof.
  intros H1 H2 H3 Hr. unfold register_view. cbv zeta.
  rewrite register_view_types_ok. cbn [first_registered].
  rewrite H1, H2, H3. cbv beta iota. cbn [negb orb andb].
  unfold mv_add. unfold entry_of in Hr. rewrite Hr. apply unregister_views_at.
Qed.

Lemma filter_all {A} (f : A -> bool) l : (forall x, In x l -> f x = true) -> filter f l = l.
Proof.
  induction l as [|x l IH]; simpl; intros H; [reflexivity|].
  rewrite (H x) by auto. rewrite IH; auto.
Qed.

Lemma filter_remove_unique {A} (f : A -> bool) l1 o l2 :
  f o = false -> (forall x, In x (l1 ++ l2) -> f x = true) -> filter f (l1 ++ o :: l2) = l1 ++ l2.
Proof.
  intros Ho H. rewrite filter_app. simpl. rewrite Ho.
  rewrite !filter_all; [reflexivity| |]; intros x Hx; apply H; apply in_or_app; auto.
Qed.

Lemma filter_absorb {A} (f p : A -> bool) l :
  (forall x, In x l -> f x = true -> p x = true) -> filter f (filter p l) = filter f l.
Proof.
  induction l as [|x l IH]; simpl; intros H; [reflexivity|].
  destruct (p x) eqn:Ep; simpl.
  - destruct (f x); [f_equal|]; apply IH; intros; apply H; auto.
  - destruct (f x) eqn:Ef; [rewrite (H x) in Ep by auto; discriminate|]. apply IH; intros; apply H; auto.
Qed.

Lemma filter_comm {A} (f p : A -> bool) l : filter f (filter p l) = filter p (filter f l).
Proof.
  induction l as [|x l IH]; simpl; [reflexivity|].
  destruct (p x) eqn:Ep, (f x) eqn:Ef; simpl; rewrite ?Ep, ?Ef, IH; reflexivity.
Qed.

Lemma NoDup_map_filter {A B} (g : A -> B) (f : A -> bool) l : NoDup (map g l) -> NoDup (map g (filter f l)).
Proof.
  induction l as [|x l IH]; simpl; intros H; [constructor|]. inversion H; subst.
  destruct (f x); simpl; [|auto]. constructor; [|auto].
  intros Hin. apply in_map_iff in Hin. destruct Hin as (y & E & Hy). apply filter_In in Hy.
  apply H2. apply in_map_iff. exists y. tauto.
Qed.

Lemma inv_step_live ao L R v :
  inv L R -> NoDup (map key L) -> no_accept (L ++ [v]) ->
  (forall o, In o L -> key o = key v -> r_order o = r_order v) ->
  inv (filter (fun w => negb (skey w v)) L ++ [v]) (register_view ao R v).
Proof.
  intros Hinv Hnd Hna Hord.
  destruct (existsb (fun w => skey w v) L) eqn:Eex.
  2:{ (* no registration with this key: the case of inv_step *)
      assert (Hall : forall w, In w L -> negb (skey w v) = true).
      { intros w Hw. apply negb_true_iff. destruct (skey w v) eqn:E; [|reflexivity].
        assert (existsb (fun w => skey w v) L = true) by (apply existsb_exists; eauto). congruence. }
      rewrite (filter_all _ _ Hall). apply inv_step; try assumption.
      intros w Hw Hs Hp. specialize (Hall w Hw). apply negb_true_iff in Hall.
      assert (skey w v = true) by (apply skey_iff; unfold key; congruence). congruence. }
  apply existsb_exists in Eex. destruct Eex as (o & Ho & Hko). apply skey_iff in Hko.
  assert (Hos : r_slot o = r_slot v) by (unfold key in Hko; congruence).
  assert (Hop : r_phash o = r_phash v) by (unfold key in Hko; congruence).
  assert (Hv : r_accept v = None) by (apply Hna, in_or_app; right; simpl; auto).
  intros s. destruct (slot_eqb (r_slot v) s) eqn:Es.
  2:{ apply slot_eqb_neq in Es. rewrite slot_regs_snoc_other by assumption.
      assert (E : slot_regs (filter (fun w => negb (skey w v)) L) s = slot_regs L s).
      { unfold slot_regs. apply filter_absorb. intros x _ Hx. apply slot_eqb_eq in Hx.
        apply negb_true_iff. destruct (skey x v) eqn:Ex; [|reflexivity]. apply skey_iff in Ex.
        unfold key in Ex. congruence. }
      rewrite E. specialize (Hinv s). unfold slot_inv in *.
      destruct (slot_regs L s) as [|a [|b t]]; rewrite !register_view_other by assumption; try assumption.
      destruct Hinv as [H1 H2]. split; [assumption|]. intros vt Hvt. rewrite register_view_other by assumption. auto. }
  apply slot_eqb_eq in Es. subst s. rewrite slot_regs_snoc_same.
  assert (El : slot_regs (filter (fun w => negb (skey w v)) L) (r_slot v)
               = filter (fun w => negb (skey w v)) (slot_regs L (r_slot v))).
  { unfold slot_regs. apply filter_comm. }
  rewrite El. clear El.
  specialize (Hinv (r_slot v)).
  assert (Hol : In o (slot_regs L (r_slot v))) by (apply slot_regs_in; auto).
  assert (Hndl : NoDup (map key (slot_regs L (r_slot v)))) by (apply NoDup_map_filter; assumption).
  destruct (in_split _ _ Hol) as (l1 & l2 & Esp). rewrite Esp in *.
  assert (Hrest : forall x, In x (l1 ++ l2) -> key x <> key v).
  { intros x Hx Hk. rewrite map_app in Hndl. simpl in Hndl. apply NoDup_remove_2 in Hndl. apply Hndl.
    rewrite <- map_app. apply in_map_iff. exists x. split; [congruence|assumption]. }
  assert (Hf : filter (fun w => negb (skey w v)) (l1 ++ o :: l2) = l1 ++ l2).
  { apply filter_remove_unique.
    - apply negb_false_iff. apply skey_iff. assumption.
    - intros x Hx. apply negb_true_iff. destruct (skey x v) eqn:Ex; [|reflexivity].
      apply skey_iff in Ex. exfalso. exact (Hrest x Hx Ex). }
  rewrite Hf.
  destruct l1 as [|x1 l1]; [destruct l2 as [|x2 l2]|].
  - (* the slot held the single view o *)
    simpl in Hinv. destruct Hinv as [H1 H2]. simpl. exact (register_view_override ao R v o H1 H2 Hop).
  - (* a MultiView: o is replaced in place *)
    simpl app in *. unfold slot_inv in Hinv. destruct Hinv as (H1 & H2 & m & H3 & Ha & Hp & Hs & Hfa).
    assert (He0 : exists e0, In e0 (mv_views m) /\ e_view e0 = o).
    { assert (Hin : In o (map e_view (mv_views m))) by (eapply Permutation_in; [apply Permutation_sym; exact Hp|simpl; auto]).
      apply in_map_iff in Hin. destruct Hin as (e0 & E & Hin). eauto. }
    destruct He0 as (e0 & He0 & Ee0).
    assert (Hph0 : e_phash e0 = r_phash v).
    { rewrite Forall_forall in Hfa. rewrite (Hfa e0 He0), Ee0. simpl. assumption. }
    destruct (replace_phash_found (r_phash v) (entry_of v) _ _ He0 Hph0) as (views' & Hr).
    destruct (replace_phash_split _ _ _ _ Hr) as (a & e1 & b & Ev & Hp1 & Ev').
    assert (Ee1 : e_view e1 = o).
    { assert (Hin1 : In e1 (mv_views m)) by (rewrite Ev; apply in_or_app; simpl; auto).
      assert (Hin : In (e_view e1) (o :: x2 :: l2)) by (eapply Permutation_in; [exact Hp|apply in_map; assumption]).
      destruct Hin as [E|Hin]; [auto|]. exfalso. apply (Hrest (e_view e1) Hin).
      rewrite Forall_forall in Hfa. pose proof (Hfa e1 Hin1) as Hok. unfold entry_ok in Hok.
      assert (Hs1 : r_slot (e_view e1) = r_slot v).
      { assert (In (e_view e1) (slot_regs L (r_slot v))) by (rewrite Esp; simpl; auto).
        apply slot_regs_in in H. tauto. }
      unfold key. rewrite Hs1. f_equal. rewrite Hok in Hp1. simpl in Hp1. assumption. }
    assert (Hshape2 : exists z2 t2, l2 ++ [v] = z2 :: t2).
    { destruct l2; simpl; eauto. }
    destruct Hshape2 as (z2 & t2 & Esh2). unfold slot_inv. rewrite Esh2.
    rewrite !(register_view_multi_override ao R v m views' _ H1 H2 H3 Hr).
    split; [reflexivity|]. split; [reflexivity|]. eexists. split; [reflexivity|]. rewrite <- Esh2.
    unfold mv_ok. simpl. rewrite Ev'. rewrite Ev in Hp, Hs, Hfa. rewrite map_app in *. simpl in *. rewrite Ee1 in Hp.
    split; [assumption|]. split; [|split].
    + apply (Permutation_app_inv (map e_view a) (map e_view b) [] (x2 :: l2) o) in Hp. simpl in Hp.
      eapply Permutation_trans; [apply Permutation_sym, Permutation_middle|].
      eapply Permutation_trans; [apply perm_skip; exact Hp|]. apply Permutation_cons_append.
    + apply entries_sorted_orders. apply entries_sorted_orders in Hs. rewrite map_app in *. simpl in *.
      assert (Eo : r_order v = e_order e1).
      { apply Forall_app in Hfa. destruct Hfa as [_ Hfa]. inversion Hfa as [|? ? Hok _]; subst.
        unfold entry_ok in Hok. rewrite Hok, Ee1. simpl. symmetry. apply Hord; [exact Ho|assumption]. }
      unfold entry_of. simpl. rewrite Eo. assumption.
    + apply Forall_app in Hfa. destruct Hfa as [Hfa1 Hfa2]. inversion Hfa2; subst.
      apply Forall_app. split; [assumption|]. constructor; [reflexivity|assumption].
  - (* same, o not first *)
    simpl app in *. unfold slot_inv in Hinv.
    assert (Hshape : exists y t, l1 ++ o :: l2 = y :: t) by (destruct l1; simpl; eauto).
    destruct Hshape as (y & t & Esh). rewrite Esh in Hinv.
    destruct Hinv as (H1 & H2 & m & H3 & Ha & Hp & Hs & Hfa). rewrite <- Esh in Hp.
    assert (He0 : exists e0, In e0 (mv_views m) /\ e_view e0 = o).
    { assert (Hin : In o (map e_view (mv_views m))).
      { eapply Permutation_in; [apply Permutation_sym; exact Hp|]. right. apply in_or_app. simpl; auto. }
      apply in_map_iff in Hin. destruct Hin as (e0 & E & Hin). eauto. }
    destruct He0 as (e0 & He0 & Ee0).
    assert (Hph0 : e_phash e0 = r_phash v).
    { rewrite Forall_forall in Hfa. rewrite (Hfa e0 He0), Ee0. simpl. assumption. }
    destruct (replace_phash_found (r_phash v) (entry_of v) _ _ He0 Hph0) as (views' & Hr).
    destruct (replace_phash_split _ _ _ _ Hr) as (a & e1 & b & Ev & Hp1 & Ev').
    assert (Ee1 : e_view e1 = o).
    { assert (Hin1 : In e1 (mv_views m)) by (rewrite Ev; apply in_or_app; simpl; auto).
      assert (Hin : In (e_view e1) (x1 :: l1 ++ o :: l2)) by (eapply Permutation_in; [exact Hp|apply in_map; assumption]).
      assert (Hin' : e_view e1 = o \/ In (e_view e1) (x1 :: l1 ++ l2)).
      { destruct Hin as [E|Hin]; [right; left; assumption|]. apply in_app_or in Hin.
        destruct Hin as [Hin|[E|Hin]]; [right; right; apply in_or_app; auto|left; auto|right; right; apply in_or_app; auto]. }
      destruct Hin' as [E|Hin']; [assumption|]. exfalso. apply (Hrest (e_view e1) Hin').
      rewrite Forall_forall in Hfa. pose proof (Hfa e1 Hin1) as Hok. unfold entry_ok in Hok.
      assert (Hs1 : r_slot (e_view e1) = r_slot v).
      { assert (In (e_view e1) (slot_regs L (r_slot v))) by (rewrite Esp; exact Hin).
        apply slot_regs_in in H. tauto. }
      unfold key. rewrite Hs1. f_equal. rewrite Hok in Hp1. simpl in Hp1. assumption. }
    assert (Hshape2 : exists z2 t2, (l1 ++ l2) ++ [v] = z2 :: t2).
    { destruct (l1 ++ l2); simpl; eauto. }
    destruct Hshape2 as (z2 & t2 & Esh2). unfold slot_inv. rewrite Esh2.
    rewrite !(register_view_multi_override ao R v m views' _ H1 H2 H3 Hr).
    split; [reflexivity|]. split; [reflexivity|]. eexists. split; [reflexivity|]. rewrite <- Esh2.
    unfold mv_ok. simpl. rewrite Ev'. rewrite Ev in Hp, Hs, Hfa. rewrite map_app in *. simpl in *. rewrite Ee1 in Hp.
    split; [assumption|]. split; [|split].
    + apply (Permutation_app_inv (map e_view a) (map e_view b) (x1 :: l1) l2 o) in Hp. simpl in Hp.
      eapply Permutation_trans; [apply Permutation_sym, Permutation_middle|].
      eapply Permutation_trans; [apply perm_skip; exact Hp|].
      change (x1 :: (l1 ++ l2) ++ [v]) with ((x1 :: l1 ++ l2) ++ [v]). apply Permutation_cons_append.
    + apply entries_sorted_orders. apply entries_sorted_orders in Hs. rewrite map_app in *. simpl in *.
      assert (Eo : r_order v = e_order e1).
      { apply Forall_app in Hfa. destruct Hfa as [_ Hfa]. inversion Hfa as [|? ? Hok _]; subst.
        unfold entry_ok in Hok. rewrite Hok, Ee1. simpl. symmetry. apply Hord; [exact Ho|assumption]. }
      unfold entry_of. simpl. rewrite Eo. assumption.
    + apply Forall_app in Hfa. destruct Hfa as [Hfa1 Hfa2]. inversion Hfa2; subst.
      apply Forall_app. split; [assumption|]. constructor; [reflexivity|assumption].
Qed.

(* ================================================================== *)
(* exported: the registry after ANY registration list without accept= (overrides included) is
   described by the last registration per (slot, phash) *)
Lemma register_all_inv_live ao regs :
  no_accept regs -> key_order regs -> inv (live_regs regs) (register_all ao regs).
Proof.
  induction regs as [|v regs IH] using rev_ind; intros Hna Hko; [apply inv_empty|].
  unfold register_all. rewrite fold_left_app. simpl. rewrite live_regs_snoc.
  apply inv_step_live.
  - apply IH.
    + intros w Hw. apply Hna, in_or_app. auto.
    + intros a b Ha Hb. apply Hko; apply in_or_app; auto.
  - apply live_regs_nodup.
  - intros w Hw. apply Hna. apply in_app_or in Hw. apply in_or_app.
    destruct Hw as [Hw|Hw]; [left; apply live_regs_in; assumption|auto].
  - intros o Ho Hk. apply Hko; [apply in_or_app; left; apply live_regs_in; assumption|apply in_or_app; simpl; auto|assumption].
Qed.

(* the winner characterisation for any registry satisfying the invariant for a list L *)
Lemma lookup_winner_char_inv L R cls rq :
  inv L R -> NoDup (q_req_sro rq) -> NoDup (q_ctx_sro rq) -> order_respects L ->
  match call_view R cls rq with
  | Ran t => exists x, In x L /\ r_tag x = t /\ candidate cls rq x = true
                       /\ forall w, In w L -> candidate cls rq w = true ->
                                     more_specific rq w x = false
                                     /\ (r_slot x = r_slot w -> (r_order x <= r_order w)%Z)
  | _ => forall w, In w L -> candidate cls rq w = false
  end.
Proof.
  intros Hinv Hr Hc Hord.
  pose proof (tried_sorted L _ cls rq Hinv Hr Hc Hord) as Hsorted.
  pose proof (call_view_find R cls rq) as Hf.
  destruct (find (qualifies rq) (tried R cls rq)) as [x|] eqn:Ef.
  - rewrite Hf. apply find_split in Ef. destruct Ef as (l1 & l2 & El & Hq & Hl1).
    assert (Hx : In x (tried R cls rq)) by (rewrite El; apply in_or_app; simpl; auto).
    destruct (tried_in _ _ _ _ _ Hinv Hx) as (Hx1 & Hx2 & Hx3 & Hx4 & Hx5).
    exists x. split; [assumption|]. split; [reflexivity|]. split; [apply candidate_iff; tauto|].
    intros w Hw1 Hw2. apply candidate_iff in Hw2. destruct Hw2 as (W1 & W2 & W3 & W4 & W5).
    pose proof (in_tried _ _ _ _ _ Hinv Hw1 W1 W2 W3 W4) as Hwt. rewrite El in Hwt.
    apply in_app_or in Hwt. destruct Hwt as [Hwt|[<-|Hwt]].
    + rewrite (Hl1 w Hwt) in W5. discriminate.
    + split; [apply more_specific_irrefl|intros _; apply Z.le_refl].
    + rewrite El in Hsorted. exact (SSorted_split _ _ _ _ Hsorted w Hwt).
  - assert (G : forall w, In w L -> candidate cls rq w = false).
    { intros w Hw1. destruct (candidate cls rq w) eqn:Hw2; [exfalso|reflexivity].
      apply candidate_iff in Hw2. destruct Hw2 as (W1 & W2 & W3 & W4 & W5).
      pose proof (in_tried _ _ _ _ _ Hinv Hw1 W1 W2 W3 W4) as Hwt.
      rewrite (proj1 (find_none_iff _ _) Ef w Hwt) in W5. discriminate. }
    destruct Hf as [-> | ->]; exact G.
Qed.

(* exported: lookup over a list with overrides = lookup among the live registrations *)
Theorem lookup_winner_live ao regs cls rq :
  no_accept regs -> key_order regs ->
  NoDup (q_req_sro rq) -> NoDup (q_ctx_sro rq) -> order_respects (live_regs regs) ->
  match call_view (register_all ao regs) cls rq with
  | Ran t => exists x, In x (live_regs regs) /\ r_tag x = t /\ candidate cls rq x = true
                       /\ forall w, In w (live_regs regs) -> candidate cls rq w = true ->
                                     more_specific rq w x = false
                                     /\ (r_slot x = r_slot w -> (r_order x <= r_order w)%Z)
  | _ => forall w, In w (live_regs regs) -> candidate cls rq w = false
  end.
Proof.
  intros Hna Hko Hr Hc Hord. apply lookup_winner_char_inv; try assumption.
  apply register_all_inv_live; assumption.
Qed.

(* phash collisions excluded: equal keys mean equal predicate texts *)
Definition key_faithful (regs : list reg) : Prop :=
  forall a b, In a regs -> In b regs -> key a = key b ->
              map pred_phash (r_preds a) = map pred_phash (r_preds b).

Lemma existsb_ext_in {A} (f g : A -> bool) l : (forall x, In x l -> f x = g x) -> existsb f l = existsb g l.
Proof. induction l as [|x l IH]; simpl; intros H; [reflexivity|]. rewrite (H x), IH; auto. Qed.

Lemma effective_live regs : Forall reg_wf regs -> key_faithful regs -> effective regs = live_regs regs.
Proof.
  induction regs as [|v regs IH]; intros Hwf Hkf; simpl; [reflexivity|].
  inversion Hwf as [|? ? Hv Hwf']; subst.
  assert (IH' : effective regs = live_regs regs).
  { apply IH; [assumption|]. intros a b Ha Hb. apply Hkf; simpl; auto. }
  assert (E : existsb (same_registration v) regs =
              existsb (fun w => slot_eqb (r_slot w) (r_slot v) && text_eqb (r_phash w) (r_phash v)) regs).
  { apply existsb_ext_in. intros w Hw. rewrite Forall_forall in Hwf'. pose proof (Hwf' w Hw) as Hww.
    change (slot_eqb (r_slot w) (r_slot v) && text_eqb (r_phash w) (r_phash v)) with (skey w v).
    unfold same_registration. destruct (skey w v) eqn:Ek.
    - apply skey_iff in Ek. pose proof (Hkf w v (or_intror Hw) (or_introl eq_refl) Ek) as Et.
      unfold key in Ek. injection Ek as Es _. rewrite Es, slot_eqb_refl. simpl.
      apply texts_eqb_eq. congruence.
    - destruct (slot_eqb (r_slot v) (r_slot w)) eqn:Es; [|reflexivity]. simpl.
      destruct (texts_eqb _ _) eqn:Et; [|reflexivity]. exfalso.
      apply slot_eqb_eq in Es. apply texts_eqb_eq in Et.
      assert (skey w v = true) by (apply skey_iff; unfold key, reg_wf in *; congruence). congruence. }
  rewrite E, IH'. reflexivity.
Qed.

(* exported: the property's specification (later registration of the same slot and predicates
   replaces the earlier) holds of registration lists WITH overrides *)
Theorem lookup_winner_overrides ao regs cls rq :
  Forall reg_wf regs -> key_faithful regs -> key_order regs -> no_accept regs ->
  NoDup (q_req_sro rq) -> NoDup (q_ctx_sro rq) -> order_respects (live_regs regs) ->
  spec_ok cls regs rq (call_view (register_all ao regs) cls rq) = true.
Proof.
  intros Hwf Hkf Hko Hna Hr Hc Hord.
  pose proof (lookup_winner_live ao regs cls rq Hna Hko Hr Hc Hord) as H.
  unfold spec_ok, ok_by, winners_by. rewrite (effective_live regs Hwf Hkf).
  set (L := live_regs regs) in *.
  assert (Hnone : (forall w, In w L -> candidate cls rq w = false) -> filter (candidate cls rq) L = []).
  { intros G. destruct (filter (candidate cls rq) L) as [|w t] eqn:Ec; [reflexivity|exfalso].
    assert (Hw : In w (filter (candidate cls rq) L)) by (rewrite Ec; simpl; auto).
    apply filter_In in Hw. destruct Hw as [Hw1 Hw2]. rewrite (G w Hw1) in Hw2. discriminate. }
  destruct (call_view (register_all ao regs) cls rq) as [t| |].
  - destruct H as (x & Hx1 & Hx2 & Hx3 & Hmin).
    apply existsb_exists. exists x. split; [|apply N.eqb_eq; assumption].
    apply filter_In. split; [apply filter_In; auto|].
    apply negb_true_iff. apply not_true_iff_false. intros He. apply existsb_exists in He.
    destruct He as (w & Hw & Hms). apply filter_In in Hw. destruct Hw as [Hw1 Hw2].
    rewrite (proj1 (Hmin w Hw1 Hw2)) in Hms. discriminate.
  - rewrite (Hnone H). reflexivity.
  - rewrite (Hnone H). reflexivity.
Qed.
