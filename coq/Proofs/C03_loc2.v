(* C03 -- consequences of locality (Proofs/C03_loc.v): the registry, and therefore every lookup, depends on the
   sequence of add_view calls only through the per-slot subsequences; how registrations of DIFFERENT slots are
   interleaved is irrelevant (no hypothesis on phashes, orders, accept= or overrides). *)
From Coq Require Import List NArith ZArith Bool Lia.
Import ListNotations.
Require Import Verif.Lib.Wire Verif.Lib.Text Verif.Gen.Facts_C03 Verif.Model.C03 Verif.Proofs.C03 Verif.Proofs.C03_loc.

Theorem register_all_interleaving ao l1 l2 :
  (forall s, slot_regs l1 s = slot_regs l2 s) ->
  forall s vt, register_all ao l1 s vt = register_all ao l2 s vt.
Proof. intros H s vt. rewrite register_all_slot_local, (register_all_slot_local ao l2), H. reflexivity. Qed.

Lemma call_view_ext R1 R2 cls rq : (forall s vt, R1 s vt = R2 s vt) -> call_view R1 cls rq = call_view R2 cls rq.
Proof.
  intros H. unfold call_view. f_equal. unfold find_views.
  apply flat_map_ext. intros rc. apply flat_map_ext. intros vt. rewrite H. reflexivity.
Qed.

Theorem lookup_interleaving ao l1 l2 cls rq :
  (forall s, slot_regs l1 s = slot_regs l2 s) ->
  call_view (register_all ao l1) cls rq = call_view (register_all ao l2) cls rq.
Proof. intros H. apply call_view_ext. apply register_all_interleaving. exact H. Qed.

(* the hypothesis holds of any two sequences that differ by swapping adjacent registrations of different slots *)
Lemma slot_regs_swap l1 a b l2 s :
  r_slot a <> r_slot b -> slot_regs (l1 ++ a :: b :: l2) s = slot_regs (l1 ++ b :: a :: l2) s.
Proof.
  intros Hne. unfold slot_regs. rewrite !filter_app. f_equal. cbn [filter].
  destruct (slot_eqb (r_slot a) s) eqn:Ea, (slot_eqb (r_slot b) s) eqn:Eb; try reflexivity.
  apply slot_eqb_eq in Ea, Eb. congruence.
Qed.

Theorem lookup_swap_other_slots ao l1 a b l2 cls rq :
  r_slot a <> r_slot b ->
  call_view (register_all ao (l1 ++ a :: b :: l2)) cls rq = call_view (register_all ao (l1 ++ b :: a :: l2)) cls rq.
Proof. intros Hne. apply lookup_interleaving. intros s. apply slot_regs_swap. exact Hne. Qed.

Example lookup_swap_other_slots_nonvacuous :
  r_slot w_v1 <> r_slot (mkReg w_other 3 [] max_order default_phash None false).
Proof. vm_compute. discriminate. Qed.
