(* C04 proofs, part 12: the definitions regenerated from the source by harness/c04/translate.py equal the
   hand-written model.  The proof scripts never mention the generated text. *)
From Coq Require Import List NArith ZArith Bool Lia.
Import ListNotations.
Require Import Verif.Lib.Wire Verif.Gen.Facts_C04 Verif.Model.C04 Verif.Gen.Exec_C04.

Theorem gen_execute_actions_exec cfg fuel acts :
  gen_execute_actions cfg fuel acts = exec cfg fuel cstate0 gen0 acts log0.
Proof.
  unfold gen_execute_actions. generalize cstate0, gen0, acts, log0.
  induction fuel as [|f IH]; intros st g pend log; [reflexivity|].
  cbn [exec]. destruct pend as [|p ps]; cbn -[gen_next restart app exec].
  - destruct (gen_next cfg st g) as [a st2 g2 e|o e st'].
    + rewrite <- ?app_assoc. cbn [app]. rewrite <- IH. rewrite <- ?app_assoc. reflexivity.
    + destruct o; rewrite <- ?app_assoc; reflexivity.
  - destruct (restart st (p :: ps)) as [st1 g1].
    destruct (gen_next cfg st1 g1) as [a st2 g2 e|o e st'].
    + rewrite <- ?app_assoc. cbn [app]. rewrite <- IH. rewrite <- ?app_assoc. reflexivity.
    + destruct o; rewrite <- ?app_assoc; reflexivity.
Qed.

Corollary gen_commit cfg acts :
  gen_execute_actions cfg (S (forest_size acts)) acts = commit_with cfg acts.
Proof. apply gen_execute_actions_exec. Qed.

Theorem gen_config_action_declare includepath i d o adds :
  gen_config_action includepath i d o adds = declare includepath i d o adds.
Proof. reflexivity. Qed.

Require Import Verif.Proofs.C04 Verif.Proofs.C04_safe Verif.Proofs.C04_spec.

(* the property's first sentence, about the function regenerated from the source *)
Corollary gen_commit_spec acts :
  flat acts = true -> wf_ids acts = true -> wf_orders acts = true ->
  obs (gen_execute_actions cfg_fixed (S (forest_size acts)) acts) = commit_spec acts.
Proof. intros. rewrite gen_commit. apply commit_spec_fixed; assumption. Qed.

Corollary gen_never_crashes cfg acts :
  wf_ids acts = true ->
  fst (gen_execute_actions cfg (S (forest_size acts)) acts) <> Crash /\
  fst (gen_execute_actions cfg (S (forest_size acts)) acts) <> OutOfFuel.
Proof. intros. rewrite gen_commit. apply commit_safe. assumption. Qed.

(* several commits on one object: the generated function takes nothing but the pending actions (it creates its
   resolver state and generator afresh), so every commit of a history is the commit of its own actions *)
Theorem gen_history_independent cfg rounds :
  map (fun acts => gen_execute_actions cfg (S (forest_size acts)) acts) rounds = commit_history cfg rounds.
Proof. unfold commit_history. apply map_ext. intros acts. apply gen_commit. Qed.

Corollary gen_history_round cfg rounds k acts :
  nth_error rounds k = Some acts ->
  nth_error (commit_history cfg rounds) k = Some (gen_execute_actions cfg (S (forest_size acts)) acts).
Proof. intros H. unfold commit_history. rewrite (map_nth_error _ _ _ H), gen_commit. reflexivity. Qed.
