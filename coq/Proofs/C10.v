(* C10 -- lemmas and proofs *)
From Coq Require Import List NArith ZArith Bool Lia.
Import ListNotations.
Require Import Verif.Lib.Wire Verif.Gen.Facts_C10 Verif.Model.C10.

(* ------------------------------------------------------------------ regenerated facts *)
Definition target_ok (e : text * (N * text)) : bool :=
  let '(n, (_, t)) := e in
  text_eqb t [100; 101; 102]%N || text_eqb t ([100; 105; 99; 116; 46]%N ++ n).

Definition facts_check : bool :=
  N.eqb timeout_cmp 0 && N.eqb reissue_cmp 0 && N.eqb limit_cmp 0 && N.eqb cookie_limit 4064
  && forallb target_ok wrapper_table
  && Nat.eqb (length payload_fields) 3
  && text_eqb (nth 0 payload_fields []) [97; 99; 99; 101; 115; 115; 101; 100]%N
  && text_eqb (nth 1 payload_fields []) [99; 114; 101; 97; 116; 101; 100]%N
  && text_eqb (nth 2 payload_fields []) [115; 116; 97; 116; 101]%N
  && N.eqb urandom_n 20.

Lemma facts_ok : facts_check = true.
Proof. vm_compute. reflexivity. Qed.

(* the wrapper of every method, as the class body has it now, is the one the property needs *)
Lemma every_mutator_marks_dirty : forall m, wrapper_of m = expected_wrapper m.
Proof. destruct m; vm_compute; reflexivity. Qed.

Lemma cmp_timeout a b : cmp_eval timeout_cmp a b = Z.gtb a b.
Proof. reflexivity. Qed.
Lemma cmp_reissue a b : cmp_eval reissue_cmp a b = Z.gtb a b.
Proof. reflexivity. Qed.
Lemma cmp_limit a b : cmp_eval limit_cmp a b = Z.gtb a b.
Proof. reflexivity. Qed.

(* ------------------------------------------------------------------ list helpers *)
Lemma firstn_len_app {A} (a b : list A) n : length a = n -> firstn n (a ++ b) = a.
Proof. intros <-. induction a; simpl; [destruct b; reflexivity | congruence]. Qed.
Lemma skipn_len_app {A} (a b : list A) n : length a = n -> skipn n (a ++ b) = b.
Proof. intros <-. induction a; simpl; [reflexivity | assumption]. Qed.

(* ------------------------------------------------------------------ wrappers *)
Lemma aw_11 o t s : apply_wrap o t (apply_wrap o t s 1%N) 1%N = apply_wrap o t s 1%N.
Proof.
  unfold apply_wrap. destruct (reissue o) as [r|]; [|reflexivity].
  destruct (cmp_eval reissue_cmp (int_time t * tick - tval (renewed s)) (r * tick)) eqn:E; cbn [renewed with_accessed mark]; rewrite E; reflexivity.
Qed.
Lemma aw_12 o t s : apply_wrap o t (apply_wrap o t s 1%N) 2%N = apply_wrap o t s 2%N.
Proof.
  unfold apply_wrap. destruct (reissue o) as [r|]; [|reflexivity].
  destruct (cmp_eval reissue_cmp _ _); reflexivity.
Qed.
Lemma aw_22 o t s : apply_wrap o t (apply_wrap o t s 2%N) 2%N = apply_wrap o t s 2%N.
Proof. reflexivity. Qed.

(* every operation acts on time stamp and dirty flag exactly as its semantic kind demands,
   and on the state exactly as the underlying dict operation *)
Lemma step_eff o p t s :
  step o p t s = (with_st (eff o (op_cls p (st s)) t s) (fst (raw p (st s))), snd (raw p (st s))).
Proof.
  unfold step. f_equal. f_equal.
  destruct p; cbn [calls op_cls map fold_left eff];
    try (destruct (token_absent (st s)); cbn [map fold_left]);
    rewrite ?every_mutator_marks_dirty; cbn [expected_wrapper];
    rewrite ?aw_11, ?aw_12, ?aw_22; try reflexivity.
Qed.

Lemma eff_frame o c t s :
  st (eff o c t s) = st s /\ created (eff o c t s) = created s /\ renewed (eff o c t s) = renewed s
  /\ isnew (eff o c t s) = isnew s.
Proof.
  destruct c; cbn [eff apply_wrap]; try (repeat split; reflexivity).
  destruct (reissue o); [destruct (cmp_eval _ _ _)|]; repeat split; reflexivity.
Qed.

Lemma eff_flags o c t s :
  (accessed (eff o c t s), dirty (eff o c t s)) =
  match c with
  | CAcc => (TI (int_time t),
             dirty s || match reissue o with Some ri => Z.gtb (int_time t * tick - tval (renewed s)) (ri * tick) | None => false end)
  | CMut => (TI (int_time t), true)
  | CMark => (accessed s, true)
  end.
Proof.
  destruct c; cbn [eff apply_wrap]; try reflexivity.
  destruct (reissue o) as [r|]; [|cbn; rewrite orb_false_r; reflexivity].
  rewrite cmp_reissue. destruct (Z.gtb _ _); cbn; [rewrite orb_true_r|rewrite orb_false_r]; reflexivity.
Qed.

(* a changed state implies the dirty flag (so a cookie will be sent) *)
Lemma mutation_implies_dirty o p t s :
  st (fst (step o p t s)) <> st s -> dirty (fst (step o p t s)) = true.
Proof.
  rewrite step_eff. cbn [fst with_st st dirty]. intros H.
  pose proof (eff_flags o (op_cls p (st s)) t s) as F.
  destruct (op_cls p (st s)) eqn:C; try (inversion F; reflexivity).
  exfalso. apply H. clear H F.
  destruct p; cbn [op_cls] in C; try discriminate; cbn [raw fst]; try reflexivity.
  destruct (token_absent (st s)); [discriminate|reflexivity].
Qed.

(* ------------------------------------------------------------------ operation lists *)
Lemma run_ops_spec o l : forall s,
  spec_ops o (tval (renewed s)) l (st s) (accessed s) (dirty s)
  = (st (fst (run_ops o l s)), accessed (fst (run_ops o l s)), dirty (fst (run_ops o l s)), snd (run_ops o l s))
  /\ created (fst (run_ops o l s)) = created s
  /\ renewed (fst (run_ops o l s)) = renewed s
  /\ isnew (fst (run_ops o l s)) = isnew s.
Proof.
  induction l as [|[p t] r IH]; intros s; [cbn; auto|].
  cbn [run_ops spec_ops]. rewrite step_eff.
  destruct (eff_frame o (op_cls p (st s)) t s) as (_ & Hc & Hr & Hn).
  pose proof (eff_flags o (op_cls p (st s)) t s) as F.
  assert (Fa := f_equal fst F). assert (Fd := f_equal snd F). cbn [fst snd] in Fa, Fd. clear F.
  set (c := op_cls p (st s)) in *.
  set (e := eff o c t s) in *.
  set (s1 := with_st e (fst (raw p (st s)))).
  specialize (IH s1).
  change (st s1) with (fst (raw p (st s))) in IH.
  change (renewed s1) with (renewed e) in IH.
  change (accessed s1) with (accessed e) in IH.
  change (dirty s1) with (dirty e) in IH.
  change (created s1) with (created e) in IH.
  change (isnew s1) with (isnew e) in IH.
  rewrite Hr, Hc, Hn, Fa, Fd in IH.
  destruct IH as (I1 & I2 & I3 & I4).
  destruct (run_ops o r s1) as [s2 xs] eqn:R. cbn [fst snd] in *.
  split; [|auto].
  destruct c; cbn [fst snd] in I1; rewrite I1; reflexivity.
Qed.

(* ------------------------------------------------------------------ loading *)
Lemma init_none O o now : init O o None now = IOk (fresh_sess now).
Proof.
  unfold init. cbn. destruct (timeout o) as [t|]; [|reflexivity].
  match goal with |- context[if ?b then _ else _] => destruct b end; reflexivity.
Qed.

Lemma init_unsigned O o c now :
  valid_signed O (key o) c = false -> init O o (Some c) now = IOk (fresh_sess now).
Proof.
  unfold valid_signed, init, loads. destruct (unb64 O c) as [f|].
  - destruct (canonical_check && negb (text_eqb (b64 O f) c)); cbn [negb andb]; [intros _|intros ->];
      cbn; (destruct (timeout o) as [t|]; [|reflexivity];
          match goal with |- context[if ?b then _ else _] => destruct b end; reflexivity).
  - intros _. cbn. (destruct (timeout o) as [t|]; [|reflexivity];
          match goal with |- context[if ?b then _ else _] => destruct b end; reflexivity).
Qed.

Lemma valid_signed_spec O k c : mac_len O ->
  (valid_signed O k c = true <->
   exists p, unb64 O c = Some (mac O k p ++ p) /\ (canonical_check = true -> b64 O (mac O k p ++ p) = c)).
Proof.
  intros Hm. unfold valid_signed. split.
  - destruct (unb64 O c) as [f|]; [|discriminate]. intros E. apply andb_true_iff in E. destruct E as [E1 E2].
    apply text_eqb_eq in E2.
    assert (F : mac O k (skipn (ds O) f) ++ skipn (ds O) f = f) by (rewrite E2; apply firstn_skipn).
    exists (skipn (ds O) f). rewrite F. split; [reflexivity|].
    intros C. rewrite C in E1. cbn [andb] in E1. rewrite negb_involutive in E1. apply text_eqb_eq, E1.
  - intros (p & -> & C). rewrite skipn_len_app, firstn_len_app by apply Hm. rewrite text_eqb_refl, andb_true_r.
    destruct canonical_check; [|reflexivity]. rewrite (C eq_refl), text_eqb_refl. reflexivity.
Qed.

Lemma loads_cookie O o s : rt_b64 O -> rt_ser O -> mac_len O ->
  loads O (key o) (cookie_of O o s) = Some (payload s).
Proof.
  intros Hb Hs Hm. unfold loads, cookie_of. rewrite Hb. rewrite text_eqb_refl. cbn [negb]. rewrite andb_false_r.
  rewrite skipn_len_app, firstn_len_app by apply Hm. rewrite text_eqb_refl. apply Hs.
Qed.

Definition expired (o : opts) (now renewed : Z) : bool :=
  match timeout o with Some t => Z.gtb (now - renewed) (t * tick) | None => false end.

Lemma init_cookie_of O o s now : rt_b64 O -> rt_ser O -> mac_len O ->
  init O o (Some (cookie_of O o s)) now =
  IOk {| st := if expired o now (tval (accessed s)) then [] else st s;
         created := TF (tval (created s)); accessed := TF (tval (accessed s));
         renewed := TF (tval (accessed s)); isnew := false; dirty := false |}.
Proof.
  intros Hb Hs Hm. unfold init. rewrite loads_cookie by assumption.
  unfold payload. cbn [unpack3].
  assert (F : forall t, float_of (tjv t) = FOk (tval t)) by (destruct t; reflexivity).
  rewrite !F. unfold expired. cbn [tval].
  destruct (timeout o) as [t|]; [rewrite cmp_timeout; destruct (Z.gtb _ _)|]; reflexivity.
Qed.

Lemma init_last O o v now : rt_b64 O -> rt_ser O -> mac_len O ->
  init O o (Some (cookie_of O o (store_sess v))) now = IOk (start_sess o (Some v) now).
Proof.
  intros Hb Hs Hm. rewrite init_cookie_of by assumption.
  unfold start_sess, spec_start, expired. cbn [store_sess accessed created st tval].
  destruct (timeout o); reflexivity.
Qed.

(* ------------------------------------------------------------------ the response callback *)
Lemma finish_spec O o s exc :
  finish O o s exc =
  if dirty s && negb (negb (soe o) && exc)
  then if Z.gtb (Z.of_nat (length (cookie_of O o s))) (Z.of_N cookie_limit) then FOversize
       else FCookie (cookie_of O o s)
  else FNone.
Proof.
  unfold finish, set_cookie. rewrite cmp_limit.
  destruct (dirty s), (negb (soe o) && exc); reflexivity.
Qed.

Lemma cookie_of_ext O o s s' : payload s = payload s' -> cookie_of O o s = cookie_of O o s'.
Proof. unfold cookie_of. intros ->. reflexivity. Qed.

(* ------------------------------------------------------------------ one request *)
Lemma req_refines O o sv' r :
  let s0 := start_sess o sv' (rt r) in
  let s1 := fst (run_ops o (rops r) s0) in
  let rs := snd (run_ops o (rops r) s0) in
  let f := finish O o s1 (rexc r) in
  let sp := spec_req O o sv' r in
  proj (Obs s0 rs s1 f) = Some (fst sp) /\
  match f with
  | FCookie c => exists v1, snd sp = Some v1 /\ c = cookie_of O o (store_sess v1)
  | _ => snd sp = sv'
  end.
Proof.
  cbv zeta. unfold spec_req, start_sess.
  destruct (spec_start o sv' (rt r)) as [[[nw cr] rn] d0] eqn:SS.
  set (s0 := {| st := d0; created := TF cr; accessed := TF rn; renewed := TF rn; isnew := nw; dirty := false |}).
  destruct (run_ops_spec o (rops r) s0) as (E & Hc & Hr & Hn).
  cbn [s0 st accessed dirty renewed tval created isnew] in E, Hc, Hr, Hn.
  rewrite E. clear E.
  set (s1 := fst (run_ops o (rops r) s0)) in *.
  set (rs := snd (run_ops o (rops r) s0)) in *.
  assert (P : payload s1 = payload (store_sess {| s_st := st s1; s_created := cr; s_acc := accessed s1 |})).
  { unfold payload. cbn [store_sess accessed created st]. rewrite Hc. reflexivity. }
  rewrite <- (cookie_of_ext O o _ _ P).
  rewrite finish_spec.
  change (Z.of_N spec_limit) with (Z.of_N cookie_limit).
  destruct (dirty s1 && negb (negb (soe o) && rexc r)).
  - destruct (Z.gtb _ _); cbn [fst snd proj N.eqb fin_code].
    + split; reflexivity.
    + split; [reflexivity|].
      eexists; split; [reflexivity|]. apply cookie_of_ext, P.
  - cbn [fst snd N.eqb]. split; reflexivity.
Qed.

(* ------------------------------------------------------------------ chains *)
Lemma chain_dead O o : forall l last sv, Forall2 ok_at (run_chain O o last l) (spec_chain O o sv false l).
Proof. induction l; intros; cbn; constructor; [exact I|apply IHl]. Qed.

Lemma run_req_ok O o last r s0 :
  init O o (present last (rsrc r)) (rt r) = IOk s0 ->
  run_req O o last r = Obs s0 (snd (run_ops o (rops r) s0)) (fst (run_ops o (rops r) s0))
                           (finish O o (fst (run_ops o (rops r) s0)) (rexc r)).
Proof. intros E. unfold run_req. rewrite E. destruct (run_ops o (rops r) s0); reflexivity. Qed.

Lemma chain_refines_spec O o : rt_b64 O -> rt_ser O -> mac_len O ->
  forall l last sv, chain_ok O o l -> inv O o last sv ->
  Forall2 ok_at (run_chain O o last l) (spec_chain O o sv true l).
Proof.
  intros Hb Hs Hm. induction l as [|r l IH0]; intros last sv Hok Iv; [constructor|].
  inversion Hok as [|? ? Hr Hl]; subst.
  assert (IH : forall last sv, inv O o last sv ->
               Forall2 ok_at (run_chain O o last l) (spec_chain O o sv true l)) by (intros; apply IH0; assumption).
  clear IH0.
  cbn [run_chain spec_chain negb].
  (* a request that starts from a fresh session *)
  assert (Fresh : init O o (present last (rsrc r)) (rt r) = IOk (fresh_sess (rt r)) ->
          Forall2 ok_at (run_req O o last r :: run_chain O o (next_last last (run_req O o last r)) l)
            (let '(ob, sv') := spec_req O o None r in
             Some ob :: spec_chain O o (match sv' with Some x => Some x | None => sv end) true l)).
  { intros E. rewrite (run_req_ok _ _ _ _ _ E).
    pose proof (req_refines O o None r) as R. cbv zeta in R.
    change (start_sess o None (rt r)) with (fresh_sess (rt r)) in R.
    destruct (spec_req O o None r) as [ob sv1]. cbn [fst snd] in R. destruct R as [R1 R2].
    constructor; [exact R1|]. apply IH. cbn [next_last].
    destruct (finish O o _ _).
    - rewrite R2. exact Iv.
    - destruct R2 as (v1 & -> & ->). reflexivity.
    - rewrite R2. exact Iv. }
  destruct (rsrc r) as [| |c|c] eqn:Sr.
  - apply Fresh. cbn [present]. apply init_none.
  - (* the cookie last set *)
    cbn [present]. destruct last as [c|], sv as [v|]; cbn [inv] in Iv; try contradiction.
    + subst c.
      pose proof (init_last O o v (rt r) Hb Hs Hm) as E.
      assert (E' : init O o (present (Some (cookie_of O o (store_sess v))) (rsrc r)) (rt r)
                   = IOk (start_sess o (Some v) (rt r))) by (rewrite Sr; exact E).
      rewrite (run_req_ok _ _ _ _ _ E').
      pose proof (req_refines O o (Some v) r) as R. cbv zeta in R.
      destruct (spec_req O o (Some v) r) as [ob sv1]. cbn [fst snd] in R. destruct R as [R1 R2].
      constructor; [exact R1|]. apply IH. cbn [next_last].
      destruct (finish O o _ _).
      * rewrite R2. reflexivity.
      * destruct R2 as (v1 & -> & ->). reflexivity.
      * rewrite R2. reflexivity.
    + specialize (Fresh (init_none O o (rt r))).
      destruct (spec_req O o None r) as [ob [v1|]]; exact Fresh.
  - destruct (valid_signed O (key o) c) eqn:V.
    + constructor; [exact Logic.I|apply chain_dead].
    + apply Fresh. cbn [present]. apply init_unsigned, V.
  - (* an altered cookie the signature check refuses *)
    apply Fresh. cbn [present]. apply init_unsigned, Hr.
Qed.

(* ------------------------------------------------------------------ named consequences *)
Lemma finish_cookie_inv O o s exc c :
  finish O o s exc = FCookie c ->
  c = cookie_of O o s /\ dirty s = true /\ (soe o = true \/ exc = false)
  /\ (Z.of_nat (length c) <= Z.of_N cookie_limit)%Z.
Proof.
  rewrite finish_spec. destruct (dirty s); [|discriminate].
  destruct (soe o), exc; cbn; try discriminate;
    destruct (Z.gtb _ _) eqn:G; try discriminate; intros H; inversion H; subst;
    (repeat split; auto; rewrite Z.gtb_ltb in G; apply Z.ltb_ge in G; exact G).
Qed.

Lemma persistence O o s exc c now : rt_b64 O -> rt_ser O -> mac_len O ->
  finish O o s exc = FCookie c ->
  expired o now (tval (accessed s)) = false ->
  exists s0, init O o (Some c) now = IOk s0 /\ st s0 = st s /\ tval (created s0) = tval (created s)
             /\ isnew s0 = false /\ dirty s0 = false /\ tval (renewed s0) = tval (accessed s).
Proof.
  intros Hb Hs Hm F E. apply finish_cookie_inv in F. destruct F as (-> & _).
  rewrite init_cookie_of by assumption. rewrite E. eexists; split; [reflexivity|]. cbn. auto.
Qed.

Lemma timeout_boundary O o s exc c t : rt_b64 O -> rt_ser O -> mac_len O ->
  finish O o s exc = FCookie c -> timeout o = Some t ->
  (exists s0, init O o (Some c) (tval (accessed s) + t * tick) = IOk s0 /\ st s0 = st s /\ isnew s0 = false)
  /\ (exists s0, init O o (Some c) (tval (accessed s) + t * tick + 1) = IOk s0 /\ st s0 = [] /\ isnew s0 = false
                 /\ tval (created s0) = tval (created s)).
Proof.
  intros Hb Hs Hm F T. apply finish_cookie_inv in F. destruct F as (-> & _).
  split; rewrite init_cookie_of by assumption; unfold expired; rewrite T.
  - replace (tval (accessed s) + t * tick - tval (accessed s))%Z with (t * tick)%Z by lia.
    assert (G : (t * tick >? t * tick)%Z = false) by (rewrite Z.gtb_ltb; apply Z.ltb_irrefl).
    rewrite G. eexists; split; [reflexivity|]. cbn. auto.
  - replace (tval (accessed s) + t * tick + 1 - tval (accessed s))%Z with (t * tick + 1)%Z by lia.
    assert (G : (t * tick + 1 >? t * tick)%Z = true) by (rewrite Z.gtb_ltb; apply Z.ltb_lt; lia).
    rewrite G. eexists; split; [reflexivity|]. cbn. auto.
Qed.

Lemma cookie_iff_dirty O o s exc :
  finish O o s exc <> FNone <-> (dirty s = true /\ (soe o = true \/ exc = false)).
Proof.
  rewrite finish_spec. destruct (dirty s), (soe o), exc; cbn;
    try (destruct (Z.gtb _ _)); split; intros H; try congruence; try tauto;
    try (destruct H as [? [?|?]]; congruence); try (repeat split; auto; fail).
Qed.

Lemma tamper_new_empty O o c now :
  init O o (Some c) now = IOk (fresh_sess now)
  \/ exists p, unb64 O c = Some (mac O (key o) p ++ p).
Proof.
  destruct (valid_signed O (key o) c) eqn:V; [right|left; apply init_unsigned, V].
  unfold valid_signed in V. destruct (unb64 O c) as [f|]; [|discriminate].
  apply andb_true_iff in V. destruct V as [_ V].
  apply text_eqb_eq in V. exists (skipn (ds O) f). rewrite V, firstn_skipn. reflexivity.
Qed.

Lemma oversize_refused O o s exc :
  dirty s = true -> (soe o = true \/ exc = false) ->
  (Z.of_nat (length (cookie_of O o s)) > Z.of_N cookie_limit)%Z ->
  finish O o s exc = FOversize.
Proof.
  intros D E G. rewrite finish_spec, D.
  assert (negb (negb (soe o) && exc) = true) as -> by (destruct E as [-> | ->]; [reflexivity|destruct (soe o); reflexivity]).
  cbn [andb]. apply Z.gt_lt in G. apply Z.ltb_lt in G. rewrite Z.gtb_ltb, G. reflexivity.
Qed.

Lemma reissue_boundary o p t s r :
  op_cls p (st s) = CAcc -> reissue o = Some r ->
  dirty (fst (step o p t s)) = dirty s || Z.gtb (int_time t * tick - tval (renewed s)) (r * tick).
Proof.
  intros C R. rewrite step_eff, C.
  pose proof (f_equal snd (eff_flags o CAcc t s)) as F. cbn [snd] in F. rewrite R in F. exact F.
Qed.

Lemma created_preserved o l s : created (fst (run_ops o l s)) = created s.
Proof. apply run_ops_spec. Qed.

(* ------------------------------------------------------------------ non-vacuity *)
Definition ex_p1 : jv := JList [JInt 100; JFlt 402; JObj [([97]%N, JInt 1)]].
Definition ex_blob : text := [7%N] ++ json_dumps ex_p1.
Definition ex_O : oracles :=
  {| mac := fun _ _ => [7%N]; ser := json_dumps;
     deser := fun b => if text_eqb b (json_dumps ex_p1) then Some ex_p1 else None;
     b64 := b64enc;
     unb64 := fun c => if text_eqb c (b64enc ex_blob) then Some ex_blob else None;
     ds := 1 |}.
Definition ex_o : opts := {| key := [107]%N; timeout := Some 1200%Z; reissue := Some 5000%Z; soe := true |}.
Definition ex_chain : list req :=
  (* clock in ticks of 0.25 s: the session is created at 100.5 s and written at 100.75 s (stamped 100) *)
  [ {| rsrc := SNone; rt := 402; rops := [(OSetItem [97]%N (JInt 1), 403%Z)]; rexc := false; rcb := (0%nat, 0%nat) |};
    {| rsrc := SLast; rt := 5200; rops := [(OItems, 5200%Z)]; rexc := false; rcb := (0%nat, 0%nat) |};
    {| rsrc := SText [65; 65]%N; rt := 5201; rops := [(OLen, 5201%Z)]; rexc := false; rcb := (0%nat, 0%nat) |};
    {| rsrc := SLast; rt := 5201; rops := []; rexc := false; rcb := (0%nat, 0%nat) |} ].

(* the value stored in request 1 is there at the start of request 2 (exactly at the timeout),
   garbage gives a new empty session, and one second past the timeout the state is empty *)
Example ex_persistence :
  map (fun ob => match proj ob with Some b => Some (b_new b, b_start b, b_fin b) | None => None end)
      (run_chain ex_O ex_o None ex_chain)
  = [Some (true, [], 1%N); Some (false, [([97]%N, JInt 1)], 0%N); Some (true, [], 0%N);
     Some (false, [], 0%N)].
Proof. vm_compute. reflexivity. Qed.

Example ex_spec_agrees :
  map proj (run_chain ex_O ex_o None ex_chain) = spec_chain ex_O ex_o None true ex_chain.
Proof. vm_compute. reflexivity. Qed.

(* swapping a wrapper breaks the obligation: a table in which pop is wrapped by manage_accessed *)
Example ex_swapped_wrapper_detected :
  (match lookup_tab nm_pop (map (fun e => if text_eqb (fst e) nm_pop then (fst e, (1%N, snd (snd e))) else e) wrapper_table)
   with Some (k, _) => k | None => 0%N end) <> expected_wrapper MPop.
Proof. vm_compute. discriminate. Qed.
