From Coq Require Import List NArith ZArith Bool.
Import ListNotations.
Require Import Verif.Lib.Wire Verif.Gen.Facts_C10 Verif.Model.C10.
Lemma placeholder : True. Proof. exact I. Qed.
